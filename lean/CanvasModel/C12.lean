import CanvasModel.Prelude
/-!
# C12 — back-end emitters (L2) and format interpreters (L3)

L2: hand-written models of `renderers/pdf` (`PDF.RenderPath` + the `pdfPageWriter.Set*` graphics-state
cache, writer.go 801-939), `renderers/ps` (`PS.RenderPath` + the `set*` cache, ps.go 90-235) and
`renderers/svg` (`SVG.RenderPath`, svg.go 174-297).  The emitters produce *structured* operators
whose operands are the semantic values (colour bytes, scalars, path identity); `render*` turns them
into the token text of the real output (number printing `dec` is a parameter, as in C13; resource
names `/A<k>`, `/P<k>`, `p<k>` are allocated in first-use order).  Path geometry is abstract: a draw
carries a path identity, the emitters say *which* path (the drawn path or the explicit stroke
outline) is painted how.

L3: `pdfRun`, `psRun`, `svgRun` interpret operator lists with the formats' own graphics state
(PDF 32000-1 §8.4/8.5, PLRM §4.5/§8, SVG 1.1 §11) into the list of painted items.
`refPaint*` is the reference semantics read off `rasterizer.RenderPath`: fill, then stroke, where
the stroke is either expressible natively (similarity view: width·s, dashes·width·s) or is the
explicit outline `Stroke(Dash(path))` transformed by the view.

Scalars are generic (`Num ν` record of the Go float64 operations used); the driver instantiates
`Float`, the proofs an arbitrary type with lawful equality.
Core Lean only.
-/
namespace Canvas.C12

/-! ## scalars, colours, paints, styles -/

structure Num (ν : Type) where
  zero : ν
  one : ν
  ten : ν
  mul : ν → ν → ν
  add : ν → ν → ν
  beq : ν → ν → Bool        -- Go `==` on float64
  lt : ν → ν → Bool         -- Go `<`
  near4 : ν → Bool          -- canvas.Equal(x, 4.0)

def listBeq {ν : Type} (N : Num ν) : List ν → List ν → Bool
  | [], [] => true
  | x :: xs, y :: ys => N.beq x y && listBeq N xs ys
  | _, _ => false

/-- `color.RGBA` (alpha-premultiplied bytes) -/
structure Col where
  r : Nat
  g : Nat
  b : Nat
  a : Nat
deriving DecidableEq, Repr

/-- `canvas.Paint` restricted to colours and gradients; `none` = `!paint.Has()`.
Gradients are identified by a number: equal numbers = the same gradient object. -/
inductive Paint where
  | none
  | col (c : Col)
  | grad (id : Nat)
deriving DecidableEq, Repr

def Paint.has : Paint → Bool
  | .none => false
  | _ => true

def Paint.isColor : Paint → Bool
  | .col _ => true
  | _ => false

/-- `Paint.Equal` (canvas.go 118-127): never true for an unset paint -/
def Paint.eq : Paint → Paint → Bool
  | .col c, .col c' => decide (c = c')
  | .grad i, .grad j => decide (i = j)
  | _, _ => false

/-- alpha byte with which the reference paints (gradients: stop colours, here opaque) -/
def Paint.alpha : Paint → Nat
  | .col c => c.a
  | _ => 255

def black : Col := ⟨0, 0, 0, 255⟩

inductive Join (ν : Type) where
  | bevel
  | round
  | miter (gap : Nat) (limit : Option ν)    -- gap 0 = BevelJoiner; limit none = NaN
  | arcs (gap : Nat) (limit : Option ν)

def optBeq {ν : Type} (N : Num ν) : Option ν → Option ν → Bool
  | some x, some y => N.beq x y
  | _, _ => false                              -- NaN != NaN

/-- Go interface comparison `joiner != r.lineJoin` (struct fields compared with `==`) -/
def Join.beq {ν : Type} (N : Num ν) : Join ν → Join ν → Bool
  | .bevel, .bevel => true
  | .round, .round => true
  | .miter g l, .miter g' l' => g == g' && optBeq N l l'
  | .arcs g l, .arcs g' l' => g == g' && optBeq N l l'
  | _, _ => false

/-- one `RenderPath(path, style, m)` call -/
structure Draw (ν : Type) where
  fill : Paint
  stroke : Paint
  width : ν
  cap : Nat                  -- 0 butt, 1 round, 2 square
  join : Join ν
  dashOff : ν
  dashes : List ν
  evenOdd : Bool
  sim : Bool                 -- m.IsSimilarity()
  scale : ν                  -- sqrt |det m|
  closed : Bool              -- the transformed path data ends with a close command
  pid : Nat                  -- identity of (path, m)
  outlineEmpty : Bool        -- Stroke(Dash(path, ScaleDash …)) is the empty path (the path lies in a dash gap)

section Style
variable {ν : Type} (N : Num ν)

/-- joiners PDF and PostScript can express: bevel, round, miter with bevel fallback and finite limit -/
def Join.pdfOk : Join ν → Bool
  | .bevel => true
  | .round => true
  | .miter g l => l.isSome && g == 0
  | .arcs _ _ => false

/-- joiners SVG can express: additionally `arcs` with a finite limit -/
def Join.svgOk : Join ν → Bool
  | .bevel => true
  | .round => true
  | .miter g l => l.isSome && g == 0
  | .arcs _ l => l.isSome

/-- the stroke is emitted with native stroke operators -/
def Draw.native (d : Draw ν) (jok : Bool) : Bool := jok && d.sim
/-- `style.StrokeWidth` after `*= scale` (only on the native route) -/
def Draw.w' (d : Draw ν) (jok : Bool) : ν := if d.native jok then N.mul d.width d.scale else d.width
/-- `ScaleDash(style.StrokeWidth, …)` (only on the native route) -/
def Draw.dashes' (d : Draw ν) (jok : Bool) : List ν :=
  if d.native jok then d.dashes.map (fun x => N.mul x (d.w' N jok)) else d.dashes
def Draw.off' (d : Draw ν) (jok : Bool) : ν :=
  if d.native jok then N.mul d.dashOff (d.w' N jok) else d.dashOff
def Draw.hasFill (d : Draw ν) : Bool := d.fill.has
def Draw.hasStroke (d : Draw ν) (jok : Bool) : Bool := d.stroke.has && N.lt N.zero (d.w' N jok)

end Style

/-! ## painted items (the common semantic domain of the three interpreters and the reference) -/

inductive PathRef where
  | orig (pid : Nat)        -- the drawn path under the view
  | outline (pid : Nat)     -- Stroke(Dash(path)) under the view, drawn explicitly
deriving DecidableEq, Repr

/-- a colour operand as the format sees it: un-premultiplied components `r/255/(a/255)` of the given
bytes (the alpha byte only scales the components here; transparency is `alpha` of the item) -/
inductive Shade where
  | rgb (r g b a : Nat)
  | pat (gid : Nat)
deriving DecidableEq, Repr

def shadeOf : Paint → Shade
  | .col c => .rgb c.r c.g c.b c.a
  | .grad i => .pat i
  | .none => .rgb 0 0 0 255

inductive Painted (ν : Type) where
  | fill (p : List PathRef) (eo : Bool) (sh : Shade) (alpha : Nat)
  | stroke (p : List PathRef) (closes : Bool) (sh : Shade) (alpha : Nat) (lw : ν) (cap : Nat) (join : Nat)
      (ml : Option ν) (dash : List ν) (phase : ν)
  | image (k : Nat) (alpha : Nat)            -- image XObject `/Im<k> Do`, painted under the nonstroking alpha
  | invalid (why : String)

/-! ## PDF: page-writer cache and RenderPath -/

inductive PK where
  | f | fstar | S | s | B | Bstar | b | bstar
  | Sstar | sstar            -- ` S`/` s` followed by `*`: not PDF operators
deriving DecidableEq, Repr

inductive POp (ν : Type) where
  | g (c : Col) | rg (c : Col) | G (c : Col) | RG (c : Col)
  | gs (alpha : Nat)                 -- `/A<k> gs`, ExtGState {CA alpha, ca alpha}
  | cs (gid : Nat) | CS (gid : Nat)  -- `/Pattern cs /P<k> scn`
  | w (x : ν) | J (n : Nat) | j (n : Nat) | M (x : ν)
  | d (arr : List ν) (phase : ν)
  | path (p : PathRef)
  | paint (k : PK)
  | panic
  | q | Q                            -- save / restore the graphics state
  | clip (h : Bool)                  -- `<clip path> W n` (h: the path data ends with `h`)
  | cm                               -- concatenate a matrix (geometry is abstract here)
  | doIm (k : Nat)                   -- `/Im<k> Do`

/-- `pdfPageWriter` graphics-state cache (writer.go 699-707): the cached graphics state … -/
structure PC (ν : Type) where
  alpha : Nat
  fill : Paint
  stroke : Paint
  lw : ν
  cap : Nat
  join : Nat
  ml : ν
  dashes : List ν
  phase : ν

/-- … and the page resources the cache allocates names in -/
structure PW (ν : Type) where
  gstates : List Nat       -- keys of `graphicsStates` in insertion order: name A<index>
  patterns : List Nat      -- gradients in `resources["Pattern"]` in insertion order: name P<index>
  c : PC ν

abbrev PAct (ν : Type) := PW ν → PW ν × List (POp ν)

def PAct.seq {ν : Type} : List (PAct ν) → PAct ν
  | [], w => (w, [])
  | a :: as, w => ((PAct.seq as (a w).1).1, (a w).2 ++ (PAct.seq as (a w).1).2)

def say {ν : Type} (ops : List (POp ν)) : PAct ν := fun w => (w, ops)

section PDF
variable {ν : Type} (N : Num ν)

def pw0 : PW ν :=
  { gstates := [], patterns := [],
    c := { alpha := 255, fill := .col black, stroke := .col black, lw := N.one, cap := 0, join := 0, ml := N.ten,
           dashes := [], phase := N.zero } }

def addOnce (x : Nat) (l : List Nat) : List Nat := if l.contains x then l else l ++ [x]

/-- SetAlpha (writer.go 802-808) -/
def setAlpha (a : Nat) : PAct ν := fun w =>
  if a != w.c.alpha then ({ w with gstates := addOnce a w.gstates, c := { w.c with alpha := a } }, [.gs a]) else (w, [])

/-- gradients carry no alpha: `if fill.IsGradient() { w.SetAlpha(1.0) }` (writer.go, head of SetFill/SetStroke) -/
def gradAlpha (p : Paint) : PAct ν :=
  match p with
  | .grad _ => setAlpha 255
  | _ => say []

/-- SetFill after the gradient-alpha step (writer.go 812-838): a cached colour still sets its alpha -/
def setFillCore (p : Paint) : PAct ν := fun w =>
  if p.eq w.c.fill then
    (match p with
     | .col c => setAlpha c.a w
     | _ => (w, []))
  else
  match p with
  | .col c =>
    let r := setAlpha c.a w
    ({ r.1 with c := { r.1.c with fill := p } }, (if c.r == c.g && c.r == c.b then POp.g c else POp.rg c) :: r.2)
  | .grad i => ({ w with patterns := addOnce i w.patterns, c := { w.c with fill := p } }, [.cs i])
  | .none => ({ w with c := { w.c with fill := p } }, [])

/-- SetFill -/
def setFill (p : Paint) : PAct ν := PAct.seq [gradAlpha p, setFillCore p]

/-- SetStroke after the gradient-alpha step (writer.go 841-867) -/
def setStrokeCore (p : Paint) : PAct ν := fun w =>
  if p.eq w.c.stroke then
    (match p with
     | .col c => setAlpha c.a w
     | _ => (w, []))
  else
  match p with
  | .col c =>
    let r := setAlpha c.a w
    ({ r.1 with c := { r.1.c with stroke := p } }, (if c.r == c.g && c.r == c.b then POp.G c else POp.RG c) :: r.2)
  | .grad i => ({ w with patterns := addOnce i w.patterns, c := { w.c with stroke := p } }, [.CS i])
  | .none => ({ w with c := { w.c with stroke := p } }, [])

/-- SetStroke -/
def setStroke (p : Paint) : PAct ν := PAct.seq [gradAlpha p, setStrokeCore p]

def setLineWidth (x : ν) : PAct ν := fun w =>
  if !N.beq x w.c.lw then ({ w with c := { w.c with lw := x } }, [.w x]) else (w, [])

def setLineCap (c : Nat) : PAct ν := fun w =>
  if c != w.c.cap then ({ w with c := { w.c with cap := c } }, [.J c]) else (w, [])

/-- SetLineJoin (writer.go 881-906); unsupported joiners panic -/
def setLineJoin (jn : Join ν) : PAct ν := fun w =>
  match jn with
  | .bevel => if 2 != w.c.join then ({ w with c := { w.c with join := 2 } }, [.j 2]) else (w, [])
  | .round => if 1 != w.c.join then ({ w with c := { w.c with join := 1 } }, [.j 1]) else (w, [])
  | .miter _ (some l) =>
    let w1 : PW ν := if 0 != w.c.join then { w with c := { w.c with join := 0 } } else w
    let o1 : List (POp ν) := if 0 != w.c.join then [.j 0] else []
    if !N.beq l w1.c.ml then ({ w1 with c := { w1.c with ml := l } }, o1 ++ [.M l]) else (w1, o1)
  | _ => (w, [.panic])

/-- the loop `for dashPhase < 0.0 { dashPhase += totalLength }` (bounded by fuel) -/
def normPhase : Nat → ν → ν → ν
  | 0, ph, _ => ph
  | n + 1, ph, tot => if N.lt ph N.zero then normPhase n (N.add ph tot) tot else ph

def pdfDashArr (arr : List ν) : List ν := if arr.length % 2 == 1 then arr ++ arr else arr
def pdfDashPhase (ph : ν) (arr : List ν) : ν :=
  if N.lt ph N.zero then
    (if N.lt N.zero ((pdfDashArr arr).foldl N.add N.zero) then normPhase N 4096 ph ((pdfDashArr arr).foldl N.add N.zero)
     else N.zero)                                   -- solid line: no pattern to be in phase with
  else ph

/-- SetDashes (writer.go 909-939) -/
def setDashes (ph : ν) (arr : List ν) : PAct ν := fun w =>
  let a := pdfDashArr arr
  let p := pdfDashPhase N ph arr
  if !(listBeq N a w.c.dashes && N.beq p w.c.phase) then
    if a.isEmpty then ({ w with c := { w.c with dashes := [], phase := N.zero } }, [.d [] N.zero])
    else ({ w with c := { w.c with dashes := a, phase := p } }, [.d a p])
  else (w, [])

def fillK (eo : Bool) : PK := if eo then .fstar else .f
/-- stroke-only: `s`/`S`; the fill rule does not apply to strokes (pdf.go 141-145 after df015db) -/
def strokeK (closed : Bool) : PK := if closed then .s else .S
def bothK (closed eo : Bool) : PK :=
  if eo then (if closed then .bstar else .Bstar) else (if closed then .b else .B)

/-- both paints opaque colours: only then one B/b operator is used (pdf.go 147-149 since 246aeb0; under
alpha < 1 the operator would paint fill and stroke as one knockout group) -/
def Draw.sameAlpha (d : Draw ν) : Bool :=
  d.fill.isColor && d.stroke.isColor && d.fill.alpha == 255 && d.stroke.alpha == 255

def pdfStrokeSetup (d : Draw ν) : List (PAct ν) :=
  [setStroke d.stroke, setLineWidth N (d.w' N d.join.pdfOk), setLineCap d.cap, setLineJoin N d.join,
   setDashes N (d.off' N d.join.pdfOk) (d.dashes' N d.join.pdfOk)]

/-- PDF.RenderPath (pdf.go 89-217) -/
def pdfDraw (d : Draw ν) : PAct ν :=
  let hs := d.hasStroke N d.join.pdfOk
  let hf := d.hasFill
  let p : POp ν := .path (.orig d.pid)
  if !hs || d.native d.join.pdfOk then
    if hf && !hs then PAct.seq [setFill d.fill, say [p, .paint (fillK d.evenOdd)]]
    else if !hf && hs then PAct.seq (pdfStrokeSetup N d ++ [say [p, .paint (strokeK d.closed)]])
    else if hf && hs then
      if d.sameAlpha then
        PAct.seq ([setFill d.fill] ++ pdfStrokeSetup N d ++ [say [p, .paint (bothK d.closed d.evenOdd)]])
      else
        PAct.seq ([setFill d.fill, say [p, .paint (fillK d.evenOdd)]] ++ pdfStrokeSetup N d ++
          [say [p, .paint (strokeK d.closed)]])
    else say []
  else
    PAct.seq ((if hf then [setFill d.fill, say [p, .paint (fillK d.evenOdd)]] else []) ++
      (if d.outlineEmpty then [] else [setFill d.stroke, say [.path (.outline d.pid), .paint .f]]))

/-- a program: every draw's operators, threading the cache -/
def pdfProg : List (Draw ν) → PW ν → PW ν × List (List (POp ν))
  | [], w => (w, [])
  | d :: ds, w => ((pdfProg ds (pdfDraw N d w).1).1, (pdfDraw N d w).2 :: (pdfProg ds (pdfDraw N d w).1).2)

/-- `pdfPageWriter.DrawImage` (writer.go 1200-1222, since 5295a66): SetAlpha(1.0) BEFORE ` q`, then
` q <rect> re W n <quad> W n <m> cm /Im<k> Do Q`; `k` = number of image XObjects of the page so far -/
def pdfImage (k : Nat) : PAct ν := fun w =>
  ((setAlpha 255 w).1, (setAlpha (ν := ν) 255 w).2 ++ [POp.q, .clip false, .clip true, .cm, .doIm k, .Q])

/-- one recorded renderer call on a page: a path draw or an image -/
inductive Item (ν : Type) where
  | draw (d : Draw ν)
  | image

/-- page writer + number of image XObjects of the page -/
structure PPage (ν : Type) where
  w : PW ν
  nimg : Nat

def pdfItem : Item ν → PPage ν → PPage ν × List (POp ν)
  | .draw d, pg => ({ pg with w := (pdfDraw N d pg.w).1 }, (pdfDraw N d pg.w).2)
  | .image, pg => ({ w := (pdfImage pg.nimg pg.w).1, nimg := pg.nimg + 1 }, (pdfImage pg.nimg pg.w).2)

def pdfItems : List (Item ν) → PPage ν → PPage ν × List (List (POp ν))
  | [], pg => (pg, [])
  | it :: its, pg => ((pdfItems its (pdfItem N it pg).1).1, (pdfItem N it pg).2 :: (pdfItems its (pdfItem N it pg).1).2)

/-! ### PDF interpreter (content-stream graphics state, PDF 32000-1 §8.4) -/

/-- what `q` saves and `Q` restores (the device-independent graphics state parameters used here) -/
structure PGS (ν : Type) where
  fill : Shade
  stroke : Shade
  ca : Nat
  CA : Nat
  lw : ν
  cap : Nat
  join : Nat
  ml : ν
  dash : List ν
  phase : ν

structure PG (ν : Type) where
  fill : Shade
  stroke : Shade
  ca : Nat
  CA : Nat
  lw : ν
  cap : Nat
  join : Nat
  ml : ν
  dash : List ν
  phase : ν
  cur : Option PathRef
  saved : List (PGS ν)

def PG.snap (g : PG ν) : PGS ν :=
  { fill := g.fill, stroke := g.stroke, ca := g.ca, CA := g.CA, lw := g.lw, cap := g.cap, join := g.join, ml := g.ml,
    dash := g.dash, phase := g.phase }

def pg0 : PG ν :=
  { fill := .rgb 0 0 0 255, stroke := .rgb 0 0 0 255, ca := 255, CA := 255, lw := N.one, cap := 0, join := 0,
    ml := N.ten, dash := [], phase := N.zero, cur := none, saved := [] }

def PG.strokeItem (g : PG ν) (p : PathRef) (closes : Bool) : Painted ν :=
  .stroke [p] closes g.stroke g.CA g.lw g.cap g.join (if g.join == 0 then some g.ml else none) g.dash g.phase
def PG.fillItem (g : PG ν) (p : PathRef) (eo : Bool) : Painted ν := .fill [p] eo g.fill g.ca

def pdfPaint (g : PG ν) (p : PathRef) : PK → List (Painted ν)
  | .f => [g.fillItem p false]
  | .fstar => [g.fillItem p true]
  | .S => [g.strokeItem p false]
  | .s => [g.strokeItem p true]
  | .B => [g.fillItem p false, g.strokeItem p false]
  | .Bstar => [g.fillItem p true, g.strokeItem p false]
  | .b => [g.fillItem p false, g.strokeItem p true]
  | .bstar => [g.fillItem p true, g.strokeItem p true]
  | .Sstar => [.invalid "S* is not an operator"]
  | .sstar => [.invalid "s* is not an operator"]

def pdfStep (g : PG ν) : POp ν → PG ν × List (Painted ν)
  | .g c => ({ g with fill := .rgb c.r c.r c.r c.a }, [])
  | .rg c => ({ g with fill := .rgb c.r c.g c.b c.a }, [])
  | .G c => ({ g with stroke := .rgb c.r c.r c.r c.a }, [])
  | .RG c => ({ g with stroke := .rgb c.r c.g c.b c.a }, [])
  | .gs a => ({ g with ca := a, CA := a }, [])
  | .cs i => ({ g with fill := .pat i }, [])
  | .CS i => ({ g with stroke := .pat i }, [])
  | .w x => ({ g with lw := x }, [])
  | .J n => ({ g with cap := n }, [])
  | .j n => ({ g with join := n }, [])
  | .M x => ({ g with ml := x }, [])
  | .d a p => ({ g with dash := a, phase := p }, [])
  | .path p => ({ g with cur := some p }, [])
  | .paint k =>
    match g.cur with
    | some p => ({ g with cur := none }, pdfPaint g p k)
    | none => (g, [.invalid "painting operator without a path"])
  | .panic => (g, [.invalid "panic"])
  | .q => ({ g with saved := g.snap :: g.saved }, [])
  | .Q =>
    match g.saved with
    | s :: rest =>
      ({ fill := s.fill, stroke := s.stroke, ca := s.ca, CA := s.CA, lw := s.lw, cap := s.cap, join := s.join, ml := s.ml,
         dash := s.dash, phase := s.phase, cur := none, saved := rest }, [])
    | [] => (g, [.invalid "Q without q"])
  | .clip _ => ({ g with cur := none }, [])
  | .cm => (g, [])
  | .doIm k => (g, [.image k g.ca])

def pdfRun : PG ν → List (POp ν) → PG ν × List (Painted ν)
  | g, [] => (g, [])
  | g, o :: os => ((pdfRun (pdfStep g o).1 os).1, (pdfStep g o).2 ++ (pdfRun (pdfStep g o).1 os).2)

/-- the interpreter state the cache claims (abstraction function of the invariant) -/
def gOf (c : PC ν) : PG ν :=
  { fill := shadeOf c.fill, stroke := shadeOf c.stroke, ca := c.alpha, CA := c.alpha, lw := c.lw, cap := c.cap,
    join := c.join, ml := c.ml, dash := c.dashes, phase := c.phase, cur := none, saved := [] }

/-! ### reference semantics (rasterizer.RenderPath 79-158), in the vocabulary of PDF/PS -/

def joinCode : Join ν → Nat
  | .bevel => 2
  | .round => 1
  | _ => 0
def joinLimit : Join ν → Option ν
  | .miter _ l => l
  | _ => none

/-- fill first, then the stroke: native parameters where the back-end can express the stroke
(dash array and phase in the normal form `nd`/`np` of the format), the explicit outline otherwise -/
def refPaint (jok : Bool) (nd : List ν → List ν) (np : ν → List ν → ν) (d : Draw ν) : List (Painted ν) :=
  (if d.hasFill then [Painted.fill [.orig d.pid] d.evenOdd (shadeOf d.fill) d.fill.alpha] else []) ++
  (if d.hasStroke N jok then
    (if d.native jok then
      [Painted.stroke [.orig d.pid] d.closed (shadeOf d.stroke) d.stroke.alpha (d.w' N jok) d.cap (joinCode d.join)
        (joinLimit d.join) (nd (d.dashes' N jok)) (np (d.off' N jok) (d.dashes' N jok))]
    else if d.outlineEmpty then []            -- an empty outline paints nothing
    else [Painted.fill [.outline d.pid] false (shadeOf d.stroke) d.stroke.alpha])
  else [])

def pdfRef (d : Draw ν) : List (Painted ν) :=
  refPaint N d.join.pdfOk pdfDashArr (fun ph a => if (pdfDashArr a).isEmpty then N.zero else pdfDashPhase N ph a) d

end PDF

/-! ## PostScript: state cache and RenderPath -/

inductive SOp (ν : Type) where
  | setgray (v : Nat) | setrgbcolor (r g b : Nat)        -- un-premultiplied bytes / 255
  | setlinewidth (x : ν) | setlinecap (n : Nat) | setlinejoin (n : Nat) | setmiterlimit (x : ν)
  | setdash (arr : List ν) (off : ν)
  | path (p : PathRef)
  | gsave | grestore | fill | eofill | stroke
  | panic

/-- `toNRGBA` (ps/util.go): integer un-premultiplication of one channel -/
def unpremul (x a : Nat) : Nat := if a == 0 then 0 else ((x * 257 * 65535) / (a * 257)) / 256

def Paint.nrgb : Paint → Nat × Nat × Nat
  | .col c => (unpremul c.r c.a, unpremul c.g c.a, unpremul c.b c.a)
  | _ => (0, 0, 0)

structure SW (ν : Type) where
  paint : Paint
  lw : ν
  ml : ν
  cap : Option Nat
  join : Option (Join ν)
  off : ν
  dashes : List ν

abbrev SAct (ν : Type) := SW ν → SW ν × List (SOp ν)

def SAct.seq {ν : Type} : List (SAct ν) → SAct ν
  | [], w => (w, [])
  | a :: as, w => ((SAct.seq as (a w).1).1, (a w).2 ++ (SAct.seq as (a w).1).2)

def ssay {ν : Type} (ops : List (SOp ν)) : SAct ν := fun w => (w, ops)

section PS
variable {ν : Type} (N : Num ν)

def sw0 : SW ν := { paint := .none, lw := N.zero, ml := N.ten, cap := none, join := none, off := N.zero, dashes := [] }

def colorOp (c : Nat × Nat × Nat) : SOp ν :=
  if c.1 == c.2.1 && c.1 == c.2.2 then .setgray c.1 else .setrgbcolor c.1 c.2.1 c.2.2

/-- setPaint (ps.go 90-103): emits a colour operator when the un-premultiplied colour changes -/
def setPaint (p : Paint) : SAct ν := fun w =>
  if p.eq w.paint then (w, []) else
  ({ w with paint := p }, if p.nrgb != w.paint.nrgb then [colorOp p.nrgb] else [])

def psSetLineWidth (x : ν) : SAct ν := fun w =>
  if !N.beq x w.lw then ({ w with lw := x }, [.setlinewidth x]) else (w, [])

def psSetMiterLimit (x : ν) : SAct ν := fun w =>
  if !N.beq x w.ml then ({ w with ml := x }, [.setmiterlimit x]) else (w, [])

def psSetLineCap (c : Nat) : SAct ν := fun w =>
  if w.cap != some c then ({ w with cap := some c }, [.setlinecap c]) else (w, [])

def joinBeqOpt (jn : Join ν) : Option (Join ν) → Bool
  | some j' => Join.beq N jn j'
  | none => false

/-- setLineJoin (ps.go 134-148) -/
def psSetLineJoin (jn : Join ν) : SAct ν := fun w =>
  if !joinBeqOpt N jn w.join then
    match jn with
    | .bevel => ({ w with join := some jn }, [.setlinejoin 2])
    | .round => ({ w with join := some jn }, [.setlinejoin 1])
    | .miter 0 (some l) =>
      let r := psSetMiterLimit N l w
      ({ r.1 with join := some jn }, SOp.setlinejoin 0 :: r.2)
    | _ => (w, [.panic])
  else (w, [])

def psSetDashes (off : ν) (arr : List ν) : SAct ν := fun w =>
  if !listBeq N arr w.dashes || !N.beq off w.off then ({ w with off := off, dashes := arr }, [.setdash arr off])
  else (w, [])

/-- PS.RenderPath (ps.go 172-235) -/
def psDraw (d : Draw ν) : SAct ν :=
  let jok := d.join.pdfOk
  let hs := d.hasStroke N jok
  let hf := d.hasFill
  let nat := d.native jok
  SAct.seq (
    (if hf || (hs && nat) then [ssay [.path (.orig d.pid)]] else []) ++
    (if hf then
      [setPaint d.fill,
       ssay ((if hs && nat then [SOp.gsave] else []) ++ [if d.evenOdd then SOp.eofill else SOp.fill] ++
             (if hs && nat then [SOp.grestore] else []))]
     else []) ++
    (if hs then
      (if nat then
        [setPaint d.stroke, psSetLineWidth N (d.w' N jok), psSetLineCap d.cap, psSetLineJoin N d.join,
         psSetDashes N (d.off' N jok) (d.dashes' N jok), ssay [.stroke]]
      else (if d.outlineEmpty then [] else [ssay [.path (.outline d.pid)]]) ++ [setPaint d.stroke, ssay [.fill]])
     else []))

def psProg : List (Draw ν) → SW ν → SW ν × List (List (SOp ν))
  | [], w => (w, [])
  | d :: ds, w => ((psProg ds (psDraw N d w).1).1, (psDraw N d w).2 :: (psProg ds (psDraw N d w).1).2)

/-! ### PostScript interpreter (graphics state incl. current path, gsave/grestore; PLRM §4.5, §8.2) -/

structure SGcore (ν : Type) where
  col : Nat × Nat × Nat
  lw : ν
  cap : Nat
  join : Nat
  ml : ν
  dash : List ν
  off : ν
  cur : List PathRef

structure SG (ν : Type) extends SGcore ν where
  stack : List (SGcore ν)

def sg0 : SG ν :=
  { col := (0, 0, 0), lw := N.one, cap := 0, join := 0, ml := N.ten, dash := [], off := N.zero, cur := [], stack := [] }

def psShade (c : Nat × Nat × Nat) : Shade := .rgb c.1 c.2.1 c.2.2 255

def psStep (g : SG ν) : SOp ν → SG ν × List (Painted ν)
  | .setgray v => ({ g with col := (v, v, v) }, [])
  | .setrgbcolor r gg b => ({ g with col := (r, gg, b) }, [])
  | .setlinewidth x => ({ g with lw := x }, [])
  | .setlinecap n => ({ g with cap := n }, [])
  | .setlinejoin n => ({ g with join := n }, [])
  | .setmiterlimit x => ({ g with ml := x }, [])
  | .setdash a o => ({ g with dash := a, off := o }, [])
  | .path p => ({ g with cur := g.cur ++ [p] }, [])
  | .gsave => ({ g with stack := g.toSGcore :: g.stack }, [])
  | .grestore =>
    match g.stack with
    | s :: rest => ({ toSGcore := s, stack := rest }, [])
    | [] => (g, [])
  | .fill => if g.cur.isEmpty then ({ g with cur := [] }, []) else ({ g with cur := [] }, [.fill g.cur false (psShade g.col) 255])
  | .eofill => if g.cur.isEmpty then ({ g with cur := [] }, []) else ({ g with cur := [] }, [.fill g.cur true (psShade g.col) 255])
  | .stroke =>
    if g.cur.isEmpty then ({ g with cur := [] }, []) else
    ({ g with cur := [] }, [.stroke g.cur false (psShade g.col) 255 g.lw g.cap g.join (if g.join == 0 then some g.ml else none) g.dash g.off])
  | .panic => (g, [.invalid "panic"])

def psRun : SG ν → List (SOp ν) → SG ν × List (Painted ν)
  | g, [] => (g, [])
  | g, o :: os => ((psRun (psStep g o).1 os).1, (psStep g o).2 ++ (psRun (psStep g o).1 os).2)

def psJoinCode : Option (Join ν) → Nat
  | some .bevel => 2
  | some .round => 1
  | _ => 0

/-- the interpreter state the PS cache claims: `lineWidth == 0` and nil cap/join mean "never set" -/
def sgOf (w : SW ν) : SG ν :=
  { col := w.paint.nrgb, lw := if N.beq w.lw N.zero then N.one else w.lw, cap := w.cap.getD 0, join := psJoinCode w.join,
    ml := w.ml, dash := w.dashes, off := w.off, cur := [], stack := [] }

/-- PostScript has no transparency: the reference for PS drops alpha (documented in ps.go 36) and, a
PostScript path keeping its `closepath`, the stroke item never needs an extra closing operator -/
def psOpaque : Painted ν → Painted ν
  | .fill p eo sh _ => .fill p eo (match sh with | .rgb r g b a => .rgb (unpremul r a) (unpremul g a) (unpremul b a) 255 | s => s) 255
  | .stroke p _ sh _ lw c j ml da ph =>
    .stroke p false (match sh with | .rgb r g b a => .rgb (unpremul r a) (unpremul g a) (unpremul b a) 255 | s => s) 255 lw c j ml da ph
  | x => x

def psRef (d : Draw ν) : List (Painted ν) :=
  (refPaint N d.join.pdfOk (fun a => a) (fun ph _ => ph) d).map psOpaque

end PS

/-! ## SVG: RenderPath (stateless apart from the gradient table) -/

inductive SvgJoin where
  | miter | round | bevel | arcs
deriving DecidableEq, Repr

inductive SItem (ν : Type) where
  | fill (p : Paint) | fillNone | evenodd
  | stroke (p : Paint) | width (x : ν) | cap (n : Nat) | join (j : SvgJoin) | miterlimit (x : ν)
  | dasharray (a : List ν) | dashoffset (x : ν)
  | panic

/-- one `<path>` element: geometry + presentation attributes (`inStyle`: written in `style="…"`) -/
structure SElem (ν : Type) where
  p : PathRef
  inStyle : Bool
  items : List (SItem ν)

section SVG
variable {ν : Type} (N : Num ν)

def svgFillItems (d : Draw ν) : List (SItem ν) :=
  if d.hasFill then
    (if d.fill != .col black then [SItem.fill d.fill] else []) ++ (if d.evenOdd then [SItem.evenodd] else [])
  else [SItem.fillNone]

def svgJoinItems : Join ν → List (SItem ν)
  | .bevel => [.join .bevel]
  | .round => [.join .round]
  | .arcs _ (some l) => [.join .arcs] ++ (if !N.near4 l then [.miterlimit l] else [])
  | .miter _ (some l) => if !N.near4 l then [.miterlimit l] else []
  | _ => [.panic]

def svgStrokeItems (d : Draw ν) : List (SItem ν) :=
  let jok := d.join.svgOk
  [SItem.stroke d.stroke] ++ (if !N.beq (d.w' N jok) N.one then [SItem.width (d.w' N jok)] else []) ++
  (if d.cap == 1 then [SItem.cap 1] else if d.cap == 2 then [SItem.cap 2] else []) ++
  svgJoinItems N d.join ++
  (if !(d.dashes' N jok).isEmpty then
    [SItem.dasharray (d.dashes' N jok)] ++ (if !N.beq (d.off' N jok) N.zero then [SItem.dashoffset (d.off' N jok)] else [])
   else [])

/-- SVG.RenderPath (svg.go 174-297) -/
def svgDraw (d : Draw ν) : List (SElem ν) :=
  let jok := d.join.svgOk
  let hs := d.hasStroke N jok
  let nat := d.native jok
  (if !hs then [{ p := .orig d.pid, inStyle := false, items := svgFillItems d }]
   else [{ p := .orig d.pid, inStyle := true, items := svgFillItems d ++ (if nat then svgStrokeItems N d else []) }]) ++
  (if hs && !nat then
    [{ p := .outline d.pid, inStyle := false,
       items := (if d.stroke != .col black then [SItem.fill d.stroke] else []) }]
   else [])

/-- `SVG.getPattern` (svg.go 564-590): a gradient seen for the first time is appended to the table (its id is
`p<position>`) and its `<defs>` element is written; `st` = (table, gradients newly defined by this call) -/
def svgRegister (p : Paint) (on : Bool) (st : List Nat × List Nat) : List Nat × List Nat :=
  match p with
  | .grad i => if on && !st.1.contains i then (st.1 ++ [i], st.2 ++ [i]) else st
  | _ => st

/-- head of SVG.RenderPath (svg.go 175-180): the fill gradient if HasFill, the stroke gradient if HasStroke
(tested BEFORE the stroke width is scaled) -/
def svgDefs (d : Draw ν) (pats : List Nat) : List Nat × List Nat :=
  svgRegister d.stroke (d.stroke.has && N.lt N.zero d.width) (svgRegister d.fill d.hasFill (pats, []))

/-- gradient references (`url(#p…)`) an element carries -/
def itemGrad : SItem ν → Option Nat
  | .fill (.grad i) => some i
  | .stroke (.grad i) => some i
  | _ => none

def elemGrads (e : SElem ν) : List Nat := e.items.filterMap itemGrad

/-! ### SVG interpreter: presentation attributes with the SVG initial values (SVG 1.1 §11.3/11.4) -/

structure VG (ν : Type) where
  fill : Paint
  eo : Bool
  stroke : Paint
  lw : ν
  cap : Nat
  join : SvgJoin
  ml : Option ν          -- none = initial value 4
  dash : List ν
  off : ν
  bad : Bool

def vg0 : VG ν :=
  { fill := .col black, eo := false, stroke := .none, lw := N.one, cap := 0, join := .miter, ml := none, dash := [],
    off := N.zero, bad := false }

def svgApply (g : VG ν) : SItem ν → VG ν
  | .fill p => { g with fill := p }
  | .fillNone => { g with fill := .none }
  | .evenodd => { g with eo := true }
  | .stroke p => { g with stroke := p }
  | .width x => { g with lw := x }
  | .cap n => { g with cap := n }
  | .join j => { g with join := j }
  | .miterlimit x => { g with ml := some x }
  | .dasharray a => { g with dash := a }
  | .dashoffset x => { g with off := x }
  | .panic => { g with bad := true }

/-- painted item of an SVG stroke; `join`: 0 miter, 1 round, 2 bevel, 3 arcs; `ml` none = the initial 4 -/
def svgJoinNat : SvgJoin → Nat
  | .miter => 0 | .round => 1 | .bevel => 2 | .arcs => 3

def svgElem (e : SElem ν) : List (Painted ν) :=
  let g := e.items.foldl svgApply (vg0 N)
  if g.bad then [.invalid "panic"] else
  (if g.fill.has then [Painted.fill [e.p] g.eo (shadeOf g.fill) g.fill.alpha] else []) ++
  (if g.stroke.has then
    [Painted.stroke [e.p] false (shadeOf g.stroke) g.stroke.alpha g.lw g.cap (svgJoinNat g.join)
      (if g.join == .miter || g.join == .arcs then g.ml else none) g.dash g.off]
   else [])

def svgRun (es : List (SElem ν)) : List (Painted ν) := es.flatMap (svgElem N)

def svgJoinCode : Join ν → Nat
  | .bevel => 2 | .round => 1 | .miter _ _ => 0 | .arcs _ _ => 3
/-- the limit as SVG states it: a value within Epsilon of the initial value 4 is left out -/
def svgLimit : Join ν → Option ν
  | .miter _ (some l) => if N.near4 l then none else some l
  | .arcs _ (some l) => if N.near4 l then none else some l
  | _ => none

/-- reference for SVG: as `refPaint`, an SVG path keeps its `z` (no closing operator), the stroke
outline is filled NonZero; a stroke width equal to the initial value 1 and a zero dash offset are
the initial values -/
def svgRef (d : Draw ν) : List (Painted ν) :=
  let jok := d.join.svgOk
  (if d.hasFill then [Painted.fill [.orig d.pid] d.evenOdd (shadeOf d.fill) d.fill.alpha] else []) ++
  (if d.hasStroke N jok then
    (if d.native jok then
      [Painted.stroke [.orig d.pid] false (shadeOf d.stroke) d.stroke.alpha
        (if N.beq (d.w' N jok) N.one then N.one else d.w' N jok) d.cap (svgJoinCode d.join) (svgLimit N d.join)
        (d.dashes' N jok)
        (if (d.dashes' N jok).isEmpty || N.beq (d.off' N jok) N.zero then N.zero else d.off' N jok)]
    else [Painted.fill [.outline d.pid] false (shadeOf d.stroke) d.stroke.alpha])
  else [])

end SVG

end Canvas.C12
