import CanvasModel.Prelude
/-!
# C07 — hand-written (L2) model of the parts of the affine-transformation code that the translator
cannot take: `Matrix.Rotate/RotateAbout` (math.Sincos), `solveQuadraticFormula` (NaN results),
`Matrix.Eigen`, `Point.Norm/Angle`, `angleNorm`, the `ArcToCmd` case of `Path.Transform` and the loop of
`Path.Transform` itself (/repo/util.go, /repo/path.go), plus the decision structure of `Matrix.ToSVG`.

Generic over the scalar `α`:

* `α = Float` (driver `Drv/C07.lean`): `Ops` is instantiated with the *generated* (L1) translations of
  `Equal`, `Matrix.Mul/Inv/T/Det/Dot/Scale/Translate/Decompose` and libm; every function below is compared
  with the real function on generated inputs on every run.
* `α = K`, an ordered field (proofs, `CanvasProofs/C07.lean`): `Ops` is instantiated with `GenK.*` and
  the abstract `Env`.

`NaN` results of the Go code are `Option.none` here, so that the branch structure is explicit.
The sine and cosine of an arc's x-axis rotation are carried with the arc (`Cmd.A … sc …`): the
library computes them with `math.Sincos`, the model takes them as given.
-/
namespace Canvas.C07

/-- What the model uses besides `+ - * /`, `<` and literals. -/
class Ops (α : Type) where
  equal : α → α → Bool
  mmul : Mat α → Mat α → Mat α
  minv : Mat α → Mat α
  mT : Mat α → Mat α
  mdet : Mat α → α
  mdot : Mat α → Pt α → Pt α
  mscale : Mat α → α → α → Mat α
  mtranslate : Mat α → α → α → Mat α
  decompose : Mat α → α × α × α × α × α × α
  sqrt : α → α
  hypot : α → α → α
  atan2 : α → α → α
  sin : α → α
  cos : α → α
  abs : α → α
  fmod : α → α → α
  pi : α
  nan : α

inductive Cmd (α : Type) where
  | M (p : Pt α)
  | L (p : Pt α)
  | Z (p : Pt α)
  | Q (cp p : Pt α)
  | C (cp1 cp2 p : Pt α)
  /-- `sc = (sin, cos)` of the x-axis rotation `phi`, as `math.Sincos` delivers them -/
  | A (rx ry phi : α) (sc : α × α) (large sweep : Bool) (p : Pt α)
deriving Repr

section
variable {α : Type} [Add α] [Sub α] [Mul α] [Div α] [Neg α] [LT α] [DecidableLT α] [LE α] [DecidableLE α] [BEq α]
  [OfNat α 0] [OfNat α 1] [OfNat α 2] [OfNat α 4] [OfNat α 180] [Ops α]
open Ops

def identity : Mat α := ⟨1, 0, 0, 0, 1, 0⟩

/-- the matrix literal of `Matrix.Rotate` -/
def rotMat (s c : α) : Mat α := ⟨c, -s, 0, s, c, 0⟩

/-- util.go `Matrix.Rotate` after `math.Sincos`: `m.Mul(Matrix{{cos, -sin, 0}, {sin, cos, 0}})` -/
def rotateSC (m : Mat α) (s c : α) : Mat α := mmul m (rotMat s c)

/-- util.go `Matrix.Rotate(rot)` with `rot` in degrees -/
def rotate (m : Mat α) (rot : α) : Mat α :=
  rotateSC m (sin (rot * pi / 180)) (cos (rot * pi / 180))

/-- util.go `Matrix.RotateAbout` -/
def rotateAbout (m : Mat α) (rot x y : α) : Mat α :=
  mtranslate (rotate (mtranslate m x y) rot) (-x) (-y)

/-- util.go `solveQuadraticFormula`; `none` stands for the `NaN` the Go code returns. -/
def solveQuadratic (a b c : α) : Option α × Option α :=
  if equal a 0 then
    if equal b 0 then
      if equal c 0 then (some 0, none) else (none, none)
    else (some (-c / b), none)
  else if equal c 0 then
    if equal b 0 then (some 0, none) else (some 0, some (-b / a))
  else
    let disc := b * b - 4 * a * c
    if disc < 0 then (none, none)
    else if equal disc 0 then (some (-b / (2 * a)), none)
    else
      let q := sqrt disc
      let q := if b < 0 then -q else q
      let x1 := -(b + q) / (2 * a)
      let x2 := c / (a * x1)
      if x2 < x1 then (some x2, some x1) else (some x1, some x2)

/-- util.go `Point.Norm(1.0)` -/
def norm1 (p : Pt α) : Pt α :=
  let d := hypot p.x p.y
  if d == 0 then ⟨0, 0⟩ else ⟨p.x / d * 1, p.y / d * 1⟩

/-- Result of `Matrix.Eigen`; `none` eigenvalues are `NaN`. -/
structure EigenR (α : Type) where
  l1 : Option α
  l2 : Option α
  v1 : Pt α
  v2 : Pt α
  /-- which branch produced it: 0 diagonal, 1 no real eigenvalue, 2 vectors from m[1][0],
      3 vectors from m[0][1], 4 neither (unreachable: the diagonal test catches it) -/
  branch : Nat

/-- the eigenvalue pair of `Matrix.Eigen` after `solveQuadraticFormula`: when it reports no real root
although the off-diagonal entries have the same sign (the discriminant `(a-e)² + 4bd ≥ 0` was rounded
below zero), both eigenvalues are `(a + e)/2` (fix 2c3bd2a). -/
def eigenvalues (m : Mat α) : Option α × Option α :=
  let r := solveQuadratic 1 (-m.a - m.e) (mdet m)
  match r.1 with
  | none => if 0 ≤ m.b * m.d then (some ((m.a + m.e) / 2), some ((m.a + m.e) / 2)) else r
  | some _ => r

/-- util.go `Matrix.Eigen`. `solveQuadratic` never returns `(NaN, x)` (`solveQuadratic_fst_none` in the
proofs), so the first component decides the NaN case (no real eigenvalues: `b·d < 0`). -/
def eigen (m : Mat α) : EigenR α :=
  if equal m.d 0 && equal m.b 0 then ⟨some m.a, some m.e, ⟨1, 0⟩, ⟨0, 1⟩, 0⟩
  else
    let r := eigenvalues m
    match r.1 with
    | none => ⟨none, none, ⟨0, 0⟩, ⟨0, 0⟩, 1⟩
    | some l1 =>
      let l2 := r.2.getD l1
      if !equal m.d 0 then
        ⟨some l1, some l2, norm1 ⟨l1 - m.e, m.d⟩, norm1 ⟨l2 - m.e, m.d⟩, 2⟩
      else if !equal m.b 0 then
        ⟨some l1, some l2, norm1 ⟨m.b, l1 - m.a⟩, norm1 ⟨m.b, l2 - m.a⟩, 3⟩
      else ⟨some l1, some l2, ⟨0, 0⟩, ⟨0, 0⟩, 4⟩

/-- util.go `angleNorm` -/
def angleNorm (theta : α) : α :=
  let theta := fmod theta (2 * pi)
  if theta < 0 then theta + 2 * pi else theta

/-- util.go `Point.Angle` -/
def angle (p : Pt α) : α := angleNorm (atan2 p.y p.x)

/-- the canonical x-axis rotation `0 ≤ phi < π` of `Path.Transform` -/
def canonPhi (v : Pt α) : α :=
  let phi := angleNorm (angle v)
  if pi ≤ phi then phi - pi else phi

/-- The ellipse part of the `ArcToCmd` case of `Path.Transform`: new radii and the unit vector along
the first axis (`v1`, or `v2` after the swap). `none`: `Eigen` returned NaN (the Go code then stores
NaN radii). -/
structure ArcR (α : Type) where
  rx : α
  ry : α
  v : Pt α
  swapped : Bool
  branch : Nat

/-- the scaled ellipse equation `Q = T⁻ᵀ · diag(s/rx², s/ry²) · T⁻¹` with `T = m.Rotate(phi)` -/
def arcQ (m : Mat α) (rx ry : α) (sc : α × α) : Mat α :=
  let T := rotateSC m sc.1 sc.2
  let invT := minv T
  let s := rx * ry * abs (mdet m)
  let Q := mscale identity (s / rx / rx) (s / ry / ry)
  mmul (mmul (mT invT) Q) invT

def arcCore (m : Mat α) (rx ry : α) (sc : α × α) : Option (ArcR α) :=
  let s := rx * ry * abs (mdet m)
  let e := eigen (arcQ m rx ry sc)
  match e.l1, e.l2 with
  | some l1, some l2 =>
    let rx' := sqrt (s / l1)
    let ry' := sqrt (s / l2)
    if rx' < ry' then some ⟨ry', rx', e.v2, true, e.branch⟩ else some ⟨rx', ry', e.v1, false, e.branch⟩
  | _, _ => none

/-- the sweep flag flips when the scale factors of `Decompose` have different signs -/
def flips (m : Mat α) : Bool :=
  let d := decompose m
  decide (d.2.2.2.1 * d.2.2.2.2.1 < 0)

/-- `Path.Transform`, one command (`fl = flips m` is computed once before the loop). -/
def transformCmd (m : Mat α) (fl : Bool) : Cmd α → Cmd α
  | .M p => .M (mdot m p)
  | .L p => .L (mdot m p)
  | .Z p => .Z (mdot m p)
  | .Q cp p => .Q (mdot m cp) (mdot m p)
  | .C cp1 cp2 p => .C (mdot m cp1) (mdot m cp2) (mdot m p)
  | .A rx ry _ sc large sweep p =>
    let sweep' := if fl then !sweep else sweep
    match arcCore m rx ry sc with
    | some r => .A r.rx r.ry (canonPhi r.v) (r.v.y, r.v.x) large sweep' (mdot m p)
    | none => .A nan nan (canonPhi ⟨0, 0⟩) (0, 0) large sweep' (mdot m p)

/-- `Path.Transform`: the loop over the command array -/
def transform (m : Mat α) (cs : List (Cmd α)) : List (Cmd α) := cs.map (transformCmd m (flips m))

/-- `Identity.Translate(tx,ty).Rotate(phi).Scale(sx,sy).Rotate(theta)`: what `Decompose` documents -/
def recompose (d : α × α × α × α × α × α) : Mat α :=
  rotate (mscale (rotate (mtranslate identity d.1 d.2.1) d.2.2.1) d.2.2.2.1 d.2.2.2.2.1) d.2.2.2.2.2

/-! ## `Matrix.ToSVG`: which operations are written (the numbers are printed by `dec`) -/

inductive SvgOp (α : Type) where
  | translate (x y : α)
  | rotate (deg : α)
  | scale (x y : α)
  | matrix (a b c d e f : α)
deriving Repr

/-- the decomposed notation of `ToSVG(h)`, before number printing -/
def toSVGParts (m : Mat α) (h : α) : List (SvgOp α) :=
  let d := decompose m
  let tx := d.1; let ty := d.2.1; let phi := d.2.2.1; let sx := d.2.2.2.1; let sy := d.2.2.2.2.1
  let theta := d.2.2.2.2.2
  (if !equal m.c 0 || !equal m.f 0 then [SvgOp.translate tx (h - ty)] else []) ++
  (if !equal phi 0 then [SvgOp.rotate (-phi)] else []) ++
  (if !equal sx 1 || !equal sy 1 then [SvgOp.scale sx sy] else []) ++
  (if !equal theta 0 then [SvgOp.rotate (-theta)] else [])

/-- the `matrix(...)` notation of `ToSVG(h)` -/
def toSVGMatrix (m : Mat α) (h : α) : SvgOp α := .matrix m.a (-m.d) (-m.b) m.e m.c (h - m.f)

/-- SVG semantics of one transform operation as a `Mat` (x' = a x + b y + c, y' = d x + e y + f) -/
def SvgOp.mat : SvgOp α → Mat α
  | .translate x y => ⟨1, 0, x, 0, 1, y⟩
  | .rotate deg => rotMat (sin (deg * pi / 180)) (cos (deg * pi / 180))
  | .scale x y => ⟨x, 0, 0, 0, y, 0⟩
  | .matrix a b c d e f => ⟨a, c, e, b, d, f⟩

/-- a transform list applies left to right as a matrix product -/
def svgInterp (ops : List (SvgOp α)) : Mat α := ops.foldl (fun acc o => mmul acc o.mat) identity

/-- what `ToSVG(h)` has to describe: the y axis is flipped on both sides and the origin moves to the
top, `T(0,h) · G · m · G` with `G = diag(1,-1)` -/
def svgTarget (m : Mat α) (h : α) : Mat α := ⟨m.a, -m.b, m.c, -m.d, m.e, h - m.f⟩

end

/-! ## Exact (rational) verdict for transformed arcs: the implicit ellipse equations

An ellipse with radii `rx, ry` and first axis along the unit vector `(c, s)` is the set of points `p`
with `q(p - centre) = 1` for the quadratic form `q = [[A, B], [B, C]]` below. The image of that set under
an invertible linear map `M` is the set with form `M⁻ᵀ q M⁻¹`. Over `Rat` both are computed without any
rounding from the numbers the implementation produced. -/

structure Form (α : Type) where
  a : α
  b : α
  c : α
deriving Repr, BEq, DecidableEq

section
variable {α : Type} [Add α] [Sub α] [Mul α] [Div α] [Neg α] [OfNat α 1]

/-- `R · diag(1/rx², 1/ry²) · Rᵀ` with `R = [[c, -s], [s, c]]` -/
def ellipseForm (rx ry c s : α) : Form α :=
  let ex := 1 / (rx * rx)
  let ey := 1 / (ry * ry)
  ⟨ex * c * c + ey * s * s, (ex - ey) * c * s, ex * s * s + ey * c * c⟩

/-- value of the quadratic form on the vector `(x, y)` -/
def Form.eval (q : Form α) (x y : α) : α := q.a * x * x + (q.b * x * y + q.b * x * y) + q.c * y * y

/-- `M⁻ᵀ q M⁻¹` for the linear part `M = [[ma, mb], [md, me]]` -/
def Form.push (q : Form α) (ma mb md me : α) : Form α :=
  let det := ma * me - mb * md
  -- M⁻¹ = 1/det [[me, -mb], [-md, ma]]
  let ia := me / det; let ib := -mb / det; let id := -md / det; let ie := ma / det
  ⟨q.a * ia * ia + (q.b * ia * id + q.b * ia * id) + q.c * id * id,
   q.a * ia * ib + q.b * (ia * ie + ib * id) + q.c * id * ie,
   q.a * ib * ib + (q.b * ib * ie + q.b * ib * ie) + q.c * ie * ie⟩
end

/-- exact value of a finite float64 -/
def ratOfBits (bits : Nat) : Option Rat :=
  let sign : Nat := bits / 2^63
  let ex : Nat := (bits / 2^52) % 2048
  let frac : Nat := bits % 2^52
  if ex == 2047 then none
  else
    let m : Nat := if ex == 0 then frac else frac + 2^52
    let e : Int := if ex == 0 then -1074 else (ex : Int) - 1075
    let v : Rat := if e ≥ 0 then (m * 2 ^ e.toNat : Nat) else (m : Rat) / ((2 ^ (-e).toNat : Nat) : Rat)
    some (if sign == 1 then -v else v)

def ratOfHex? (s : String) : Option Rat := (parseHexNat? s).bind ratOfBits

def rabs (x : Rat) : Rat := if x < 0 then -x else x
def rmax (x y : Rat) : Rat := if x < y then y else x

/-! ### the verdict proper: pull the produced form back to the unit circle

With `T = M · R(c,s) · diag(rx, ry)` the original ellipse is `{centre + R(c,s)·diag(rx,ry)·u : |u| = 1}` and its
image is `{centre' + T u : |u| = 1}`. The produced ellipse `q'` contains `centre' + T u` iff `uᵀ (Tᵀ q' T) u = 1`, so
the image is the produced ellipse iff `Tᵀ q' T` is the identity form. -/

section
variable {α : Type} [Add α] [Sub α] [Mul α] [Div α] [Neg α] [LE α] [DecidableLE α] [OfNat α 1]

/-- `Tᵀ g T` for `T = [[t00, t01], [t10, t11]]` -/
def Form.pull (g : Form α) (t00 t01 t10 t11 : α) : Form α :=
  ⟨g.a * t00 * t00 + (g.b * t00 * t10 + g.b * t00 * t10) + g.c * t10 * t10,
   g.a * t00 * t01 + g.b * (t00 * t11 + t01 * t10) + g.c * t10 * t11,
   g.a * t01 * t01 + (g.b * t01 * t11 + g.b * t01 * t11) + g.c * t11 * t11⟩

/-- every coefficient of `p - identity` is at most `rel` in absolute value -/
def Form.nearId (p : Form α) (rel : α) : Bool :=
  decide (1 - rel ≤ p.a) && decide (p.a ≤ 1 + rel) && decide (-rel ≤ p.b) && decide (p.b ≤ rel) &&
  decide (1 - rel ≤ p.c) && decide (p.c ≤ 1 + rel)

/-- `T = M · R(c,s) · diag(rx, ry)` (row-major 2×2) -/
def frame (ma mb md me rx ry c s : α) : α × α × α × α :=
  ((ma * c + mb * s) * rx, (mb * c - ma * s) * ry, (md * c + me * s) * rx, (me * c - md * s) * ry)

/-- Verdict on the ellipse of one transformed arc: `m` has linear part `ma mb md me`, the original arc
radii `(rx, ry)` and axis `(c, s)`, the produced arc radii `(rx', ry')` and axis `(c', s')`. -/
def arcOK (ma mb md me rx ry c s rx' ry' c' s' rel : α) : Bool :=
  let t := frame ma mb md me rx ry c s
  ((ellipseForm rx' ry' c' s').pull t.1 t.2.1 t.2.2.1 t.2.2.2).nearId rel
end

/-- largest coefficient of `p - identity` -/
def Form.devId (p : Form Rat) : Rat := rmax (rabs (p.a - 1)) (rmax (rabs p.b) (rabs (p.c - 1)))

/-- Condition of the computation: the library inverts `m.Rotate(phi)` and forms `T⁻ᵀ diag(s/rx², s/ry²) T⁻¹`;
rounding errors of relative size `2⁻⁵²` in that product are amplified by (Frobenius condition number of
the linear part) × (aspect ratio of the arc), squared in the direction of the axes. -/
def arcCond (ma mb md me rx ry : Rat) : Rat :=
  let det := rabs (ma * me - mb * md)
  let kF := (ma * ma + mb * mb + md * md + me * me) / det
  let asp := rmax (rabs (rx / ry)) (rabs (ry / rx))
  kF * asp

/-- allowance: `rel` (the Epsilon snapping of nearly equal eigenvalues, 2·√Epsilon) plus first-order
propagation of float64 rounding through the inverse -/
def arcAllow (ma mb md me rx ry rel : Rat) : Rat :=
  let k := arcCond ma mb md me rx ry
  rel + 64 * k * k / (2 ^ 52 : Nat)

/-- the verdict over exact rationals decoded from the float64 values the implementation produced -/
def arcVerdict (ma mb md me rx ry c s rx' ry' c' s' rel : Rat) : String :=
  if rx == 0 || ry == 0 || ma * me - mb * md == 0 then "skip degenerate"
  else if rx' == 0 || ry' == 0 then "FAIL zero-radius"
  else
    let allow := arcAllow ma mb md me rx ry rel
    if allow > 1 / 100 then "skip ill-conditioned"
    else if arcOK ma mb md me rx ry c s rx' ry' c' s' allow then
      let t := frame ma mb md me rx ry c s
      let dev := ((ellipseForm rx' ry' c' s').pull t.1 t.2.1 t.2.2.1 t.2.2.2).devId
      -- how much of the allowance was used (for calibration; ignored by the comparison)
      "ok " ++ (if dev * 1000 ≤ allow then "<0.1%" else if dev * 100 ≤ allow then "<1%" else if dev * 10 ≤ allow then "<10%" else "<100%")
    else "FAIL ellipse"

end Canvas.C07
