import CanvasModel.Prelude
/-!
# C03 — hand-written (L2) models of the flatteners and of the `replace` driver

Core Lean only. Everything is polymorphic in the scalar type `α`; the arithmetic the loops depend on
(the step-size rule, the de Casteljau split, the "degenerate piece" test) is passed in as a parameter,
so the same definition is
* executed at `Float` by `Drv/C03.lean` with the step rule copied from /repo/path_util.go and the
  *generated* `GenF.quadraticBezierSplit` / `GenF.cubicBezierSplit` (correspondence with the real
  `flattenQuadraticBezier` / `flattenSmoothCubicBezier` / `flattenCubicBezier`), and
* reasoned about in `CanvasProofs/C03.lean` at an arbitrary ordered field with the *generated*
  `GenK.*Split` and an ARBITRARY step rule.

The loops are fuel bounded; running out of fuel is an explicit outcome (`none`), never a silent result.
-/
namespace Canvas.C03

/-! ## flattenQuadraticBezier (path_util.go:719) -/

/-- The loop of `flattenQuadraticBezier`. `step p0 p1 p2` is `none` when the loop is left
(`p0.Equals(p1)` or `t >= 1`), otherwise the split parameter. `splitR` is the right half of
`quadraticBezierSplit`. Returns the vertices passed to `LineTo` (the last one is `p2`). -/
def flattenQuadLoop {α : Type} (step : Pt α → Pt α → Pt α → Option α)
    (splitR : Pt α → Pt α → Pt α → α → Pt α × Pt α × Pt α) :
    Nat → Pt α → Pt α → Pt α → Option (List (Pt α))
  | 0, _, _, _ => none
  | fuel + 1, p0, p1, p2 =>
    match step p0 p1 p2 with
    | none => some [p2]
    | some t =>
      let r := splitR p0 p1 p2 t
      (flattenQuadLoop step splitR fuel r.1 r.2.1 r.2.2).map (fun vs => r.1 :: vs)

/-! ## flattenSmoothCubicBezier (path_util.go:779), d = 0 -/

/-- What one iteration of the cubic loop decides. -/
inductive CStep (α : Type) where
  | straight            -- p0 == p1 == p2: `LineTo(p3); return`
  | stop                -- `1 <= t`: leave the loop, `addCubicBezierLine(.., 1.0, d)`
  | cut (t : α)         -- split at t, `addCubicBezierLine(.., 0.0, d)` on the right part

structure Cub (α : Type) where
  p0 : Pt α
  p1 : Pt α
  p2 : Pt α
  p3 : Pt α

/-- `keep c` is the negation of the guard of `addCubicBezierLine` (`p0=p3 ∧ (p0=p1 ∨ p0=p2)` emits
nothing). -/
def flattenCubicLoop {α : Type} (step : Cub α → CStep α) (keep : Cub α → Bool)
    (splitR : Cub α → α → Cub α) : Nat → Cub α → Option (List (Pt α))
  | 0, _ => none
  | fuel + 1, c =>
    match step c with
    | .straight => some [c.p3]
    | .stop => some (if keep c then [c.p3] else [])
    | .cut t =>
      let r := splitR c t
      (flattenCubicLoop step keep splitR fuel r).map
        (fun vs => if keep r then r.p0 :: vs else vs)

/-! ## `Path.replace` on a command-list model (path.go:1382)

Commands carry their end point; curve payloads (control points, radii, flags) are kept abstract in a
single type parameter `κ` because `replace` only passes them through to the callback. -/

inductive Cmd (α κ : Type) where
  | M (p : Pt α)
  | L (p : Pt α)
  | Z (p : Pt α)
  | Curve (k : κ) (p : Pt α)

def Cmd.endp {α κ : Type} : Cmd α κ → Pt α
  | .M p => p
  | .L p => p
  | .Z p => p
  | .Curve _ p => p

def Cmd.isFlat {α κ : Type} : Cmd α κ → Bool
  | .Curve _ _ => false
  | _ => true

/-- `replace` with `line = nil` and flattening callbacks for every curve kind: each curve command
is replaced by `LineTo`s through the interior vertices returned by the callback `f start k end`,
followed by `LineTo(end)` (path.go:1433-1436). `cur` is the current point. -/
def flattenCmds {α κ : Type} (f : Pt α → κ → Pt α → List (Pt α)) : Pt α → List (Cmd α κ) → List (Cmd α κ)
  | _, [] => []
  | cur, .Curve k p :: rest => (f cur k p).map Cmd.L ++ Cmd.L p :: flattenCmds f p rest
  | _, c :: rest => c :: flattenCmds f c.endp rest

/-- `replace` with the splice made explicit (path.go:1462-1470). The callback returns the points of
the replacement path; the LAST one is where the replacement itself ends, which for elliptic arcs is the
recomputed `EllipsePos(theta1)` and may differ from the stored end point `p` by rounding.
* bridging: `p.LineTo(end)` appends `p` unless LineTo's own test `skip last p` (`start.Equals(end)`)
  makes it a no-op;
* `Join(r)` with `r = M end, rest…` continues the current subpath iff `eq pos end` (Join's
  `Equal`/`Equal` test on the coordinates), otherwise `r` is appended as a NEW subpath `M end`. -/
def replaceCmds {α κ : Type} (skip eq : Pt α → Pt α → Bool) (f : Pt α → κ → Pt α → List (Pt α)) :
    Pt α → List (Cmd α κ) → List (Cmd α κ)
  | _, [] => []
  | cur, .Curve k p :: rest =>
    let vs := f cur k p
    let last := vs.getLast?.getD cur
    let bridged := if skip last p then vs else vs ++ [p]
    let pos := bridged.getLast?.getD cur
    bridged.map Cmd.L ++ ((if eq pos p then [] else [Cmd.M p]) ++ replaceCmds skip eq f (if eq pos p then pos else p) rest)
  | _, c :: rest => c :: replaceCmds skip eq f c.endp rest

def Cmd.isMove {α κ : Type} : Cmd α κ → Bool
  | .M _ => true
  | _ => false

/-- number of subpaths = number of MoveTo commands -/
def subpathCount {α κ : Type} (cs : List (Cmd α κ)) : Nat := cs.countP Cmd.isMove

/-- Structural signature of a command list: for every subpath its start point, end point and
whether it is closed. The first argument of `sigGo` is the subpath being read. -/
structure SubSig (α : Type) where
  start : Pt α
  last : Pt α
  closed : Bool

/-- a drawing command (line or curve) moves the end of the current subpath -/
def advance {α : Type} : Option (SubSig α) → Pt α → Option (SubSig α)
  | none, _ => none                       -- drawing before any MoveTo (malformed data): ignored
  | some s, p => some ⟨s.start, p, s.closed⟩

def closeSig {α : Type} : Option (SubSig α) → Pt α → Option (SubSig α)
  | none, _ => none
  | some s, p => some ⟨s.start, p, true⟩

def sigGo {α κ : Type} : Option (SubSig α) → List (Cmd α κ) → List (SubSig α)
  | st, [] => st.toList
  | st, .M p :: rest => st.toList ++ sigGo (some ⟨p, p, false⟩) rest
  | st, .Z p :: rest => sigGo (closeSig st p) rest
  | st, .L p :: rest => sigGo (advance st p) rest
  | st, .Curve _ p :: rest => sigGo (advance st p) rest

def signature {α κ : Type} (cs : List (Cmd α κ)) : List (SubSig α) := sigGo none cs

/-! ## Executable specification of the flattening verdict (L3)

"Every sampled point of the curve is within distance r of the polyline." Polymorphic in the scalar:
run at `Float` by the driver on the real code's output (`!` lines), reasoned about at an ordered field in
`CanvasProofs` (soundness: verdict ok ⇒ for every sample there is a point of a polyline edge within r). -/
section Spec
variable {α : Type} [Add α] [Sub α] [Mul α] [Div α] [LT α] [LE α] [DecidableLT α] [DecidableLE α]
  [OfNat α 0] [OfNat α 1]

/-- parameter of the point of segment [a,b] nearest to p, clamped to [0,1] -/
def footParam (p a b : Pt α) : α :=
  let dx := b.x - a.x
  let dy := b.y - a.y
  let l2 := dx * dx + dy * dy
  let t := if l2 ≤ 0 then 0 else ((p.x - a.x) * dx + (p.y - a.y) * dy) / l2
  if t < 0 then 0 else if 1 < t then 1 else t

/-- squared distance from p to the point of [a,b] at parameter t -/
def distSqAt (p a b : Pt α) (t : α) : α :=
  let ex := p.x - (a.x + t * (b.x - a.x))
  let ey := p.y - (a.y + t * (b.y - a.y))
  ex * ex + ey * ey

def distSqPointSeg (p a b : Pt α) : α := distSqAt p a b (footParam p a b)

/-- consecutive pairs of a polyline -/
def edges {β : Type} : List β → List (β × β)
  | a :: b :: rest => (a, b) :: edges (b :: rest)
  | _ => []

/-- is the sample within squared distance r2 of some edge of the polyline? -/
def nearPolyline (r2 : α) (poly : List (Pt α)) (s : Pt α) : Bool :=
  (edges poly).any fun e => decide (distSqPointSeg s e.1 e.2 ≤ r2)

/-- the verdict: every sample is near the polyline -/
def coveredBy (r2 : α) (samples poly : List (Pt α)) : Bool :=
  samples.all (nearPolyline r2 poly)

end Spec

end Canvas.C03
