import CanvasModel.Prelude
/-!
# C11 — L2 byte-level model of `ParseSVGPath` (/repo/path.go:1967-2155)

The model follows the Go control flow statement by statement.  Every slice expression `path[i:]`
and every index expression `path[i]` whose index is a run-time value is an explicit operation that
returns `panic` when it is out of range (`sliceFrom`, `idx`, `F7.set`); nothing is totalised.  The
main `for` loop is a structural recursion on a fuel counter and running out of fuel is its own
outcome (`Res.fuel`), so "never loops" is a theorem (`CanvasProofs/C11.lean`), not a definition.

Parameters (kept abstract in the theorems, instantiated with `Float` in `Drv/C11.lean`):
* `lex : List Nat → α × Nat` — `strconv.ParseFloat` of github.com/tdewolff/parse (value, bytes
  consumed; 0 = no number).  `scanLen` below is the byte-exact model of the *length* it returns
  (sign, digits, one dot, optional exponent through `ParseInt`), `lexFloat` adds the value.
* `Num α` — the four float operations the parser itself performs on coordinates.
* `Builder α P` — the path builder calls (`MoveTo` … `Close`, `StartPos`) whose totality is
  property C10's subject; here they are total functions on an abstract path state `P`.
Bytes are `Nat`s (< 256 when they come from the driver).
-/
namespace Canvas.C11

/-- error kinds of ParseSVGPath, in source order -/
structure PErr where
  kind : Nat   -- 0 start, 1 flags, 2 unknown command (repeat), 3 sets of n numbers, 4 number, 5 unknown command (switch)
  cmd : Nat    -- the byte printed with %c
  pos : Nat    -- the printed position (i+1)
  n : Nat      -- cmdLens[CMD] for kind 3
deriving Repr, DecidableEq

inductive Res (β : Type) where
  | ok (v : β)
  | err (e : PErr)
  | panic
  | fuel
deriving Repr

@[inline] def Res.bind {β γ : Type} (x : Res β) (f : β → Res γ) : Res γ :=
  match x with
  | .ok v => f v
  | .err e => .err e
  | .panic => .panic
  | .fuel => .fuel

instance : Monad Res where
  pure := Res.ok
  bind := Res.bind

/-- `path[i:]` -/
def sliceFrom (path : List Nat) (i : Nat) : Res (List Nat) :=
  if i ≤ path.length then .ok (path.drop i) else .panic

/-- `path[i]` -/
def idx (path : List Nat) (i : Nat) : Res Nat :=
  match path[i]? with
  | some b => .ok b
  | none => .panic

def isCW (b : Nat) : Bool := b == 32 || b == 44 || b == 10 || b == 13 || b == 9

/-- `skipCommaWhitespace(path)` on a slice: its own index expressions are guarded by the loop
condition `i < len(path)` in the same expression, so it is a structural recursion on the slice. -/
def skipCW : List Nat → Nat
  | [] => 0
  | b :: bs => if isCW b then skipCW bs + 1 else 0

/-- `i += skipCommaWhitespace(path[i:])` -/
def skipAt (path : List Nat) (i : Nat) : Res Nat :=
  (sliceFrom path i).bind fun s => .ok (i + skipCW s)

/-- the Go map `cmdLens`; a missing key reads as 0 -/
def cmdLens (c : Nat) : Nat :=
  if c == 77 then 2 else if c == 90 then 0 else if c == 76 then 2 else if c == 72 then 1
  else if c == 86 then 1 else if c == 67 then 6 else if c == 83 then 4 else if c == 81 then 4
  else if c == 84 then 2 else if c == 65 then 7 else 0

def upper (cmd : Nat) : Nat := if 97 ≤ cmd ∧ cmd ≤ 122 then cmd - 32 else cmd

/-- `path[i] >= '0' && path[i] <= '9' || path[i] == '.' || path[i] == '-' || path[i] == '+'` -/
def isNumStart (b : Nat) : Bool := (48 ≤ b && b ≤ 57) || b == 46 || b == 45 || b == 43

/-- the local `f := [7]float64{}`; reads use constant indices (checked at compile time in Go),
the write `f[j] = …` uses the loop variable and is checked here -/
structure F7 (α : Type) where
  f0 : α
  f1 : α
  f2 : α
  f3 : α
  f4 : α
  f5 : α
  f6 : α

def F7.set {α : Type} (f : F7 α) (j : Nat) (v : α) : Res (F7 α) :=
  match j with
  | 0 => .ok { f with f0 := v }
  | 1 => .ok { f with f1 := v }
  | 2 => .ok { f with f2 := v }
  | 3 => .ok { f with f3 := v }
  | 4 => .ok { f with f4 := v }
  | 5 => .ok { f with f5 := v }
  | 6 => .ok { f with f6 := v }
  | _ => .panic

structure Num (α : Type) where
  zero : α
  one : α
  add : α → α → α
  /-- `2.0*p - c` (`p0.Mul(2.0).Sub(c)` per coordinate) -/
  refl : α → α → α
  /-- `f == 1.0` -/
  isOne : α → Bool

structure Builder (α P : Type) where
  empty : P
  moveTo : P → α → α → P
  lineTo : P → α → α → P
  quadTo : P → α → α → α → α → P
  cubeTo : P → α → α → α → α → α → α → P
  arcTo : P → α → α → α → Bool → Bool → α → α → P
  close : P → P
  startPos : P → α × α

structure St (α P : Type) where
  i : Nat
  p : P
  q : α × α
  c : α × α
  p0 : α × α
  f : F7 α
  prevCmd : Nat

/-- `i < len(path) && path[i] == v` -/
def guardedEq (path : List Nat) (i v : Nat) : Res Bool :=
  if i < path.length then (idx path i).bind fun b => .ok (b == v) else .ok false

section
variable {α P : Type} (lex : List Nat → α × Nat) (num : Num α) (B : Builder α P)

/-- lines 2021-2028: command byte or implicit repetition of the previous command -/
def readCmd (path : List Nat) (i prevCmd : Nat) : Res (Nat × Bool × Nat) :=
  (idx path i).bind fun b =>
    if prevCmd == 122 || prevCmd == 90 || !isNumStart b then
      (skipAt path (i + 1)).bind fun i' => .ok (b, false, i')
    else .ok (prevCmd, true, i)

/-- lines 2034-2060: `for j := 0; j < cmdLens[CMD]; j++`; `k` counts the remaining iterations
(`j = n - k`) -/
def parseArgs (path : List Nat) (CMD cmd : Nat) (rep : Bool) (n : Nat) :
    Nat → Nat → F7 α → Res (Nat × F7 α)
  | 0, i, f => .ok (i, f)
  | k + 1, i, f =>
    let j := n - (k + 1)
    if CMD == 65 && (j == 3 || j == 4) then
      (guardedEq path i 49).bind fun is1 =>
        if is1 then
          (f.set j num.one).bind fun f' =>
            (skipAt path (i + 1)).bind fun i' => parseArgs path CMD cmd rep n k i' f'
        else
          (guardedEq path i 48).bind fun is0 =>
            if is0 then
              (f.set j num.zero).bind fun f' =>
                (skipAt path (i + 1)).bind fun i' => parseArgs path CMD cmd rep n k i' f'
            else .err ⟨1, cmd, i + 1, 0⟩
    else
      (sliceFrom path i).bind fun s =>
        let r := lex s
        if r.2 == 0 then
          if rep && j == 0 && decide (i < path.length) then
            (idx path i).bind fun b => .err ⟨2, b, i + 1, 0⟩
          else if 1 < cmdLens CMD then .err ⟨3, cmd, i + 1, cmdLens CMD⟩
          else .err ⟨4, cmd, i + 1, 0⟩
        else
          (f.set j r.1).bind fun f' =>
            (skipAt path (i + r.2)).bind fun i' => parseArgs path CMD cmd rep n k i' f'

structure Exec (α P : Type) where
  p : P
  q : α × α
  c : α × α
  p1 : α × α
  cmd : Nat

def padd (a b : α × α) : α × α := (num.add a.1 b.1, num.add a.2 b.2)
def prefl (p c : α × α) : α × α := (num.refl p.1 c.1, num.refl p.2 c.2)

/-- lines 2062-2150: the `switch cmd`; `none` is the `default:` branch.  `p1 = p0` holds at the top
of every iteration (`p0 = p1` is the last statement of the loop body, both start as zero). -/
def exec (cmd prevCmd : Nat) (f : F7 α) (p : P) (q c p0 : α × α) : Option (Exec α P) :=
  let rel := fun (pt : α × α) (lower : Nat) => if cmd == lower then padd num pt p0 else pt
  if cmd == 77 || cmd == 109 then
    let p1 := rel (f.f0, f.f1) 109
    some ⟨B.moveTo p p1.1 p1.2, q, c, p1, if cmd == 109 then 108 else 76⟩
  else if cmd == 90 || cmd == 122 then
    some ⟨B.close p, q, c, B.startPos p, cmd⟩
  else if cmd == 76 || cmd == 108 then
    let p1 := rel (f.f0, f.f1) 108
    some ⟨B.lineTo p p1.1 p1.2, q, c, p1, cmd⟩
  else if cmd == 72 || cmd == 104 then
    let x := if cmd == 104 then num.add f.f0 p0.1 else f.f0
    some ⟨B.lineTo p x p0.2, q, c, (x, p0.2), cmd⟩
  else if cmd == 86 || cmd == 118 then
    let y := if cmd == 118 then num.add f.f0 p0.2 else f.f0
    some ⟨B.lineTo p p0.1 y, q, c, (p0.1, y), cmd⟩
  else if cmd == 67 || cmd == 99 then
    let cp1 := rel (f.f0, f.f1) 99
    let cp2 := rel (f.f2, f.f3) 99
    let p1 := rel (f.f4, f.f5) 99
    some ⟨B.cubeTo p cp1.1 cp1.2 cp2.1 cp2.2 p1.1 p1.2, q, cp2, p1, cmd⟩
  else if cmd == 83 || cmd == 115 then
    let cp2 := rel (f.f0, f.f1) 115
    let p1 := rel (f.f2, f.f3) 115
    let cp1 := if prevCmd == 67 || prevCmd == 99 || prevCmd == 83 || prevCmd == 115 then prefl num p0 c else p0
    some ⟨B.cubeTo p cp1.1 cp1.2 cp2.1 cp2.2 p1.1 p1.2, q, cp2, p1, cmd⟩
  else if cmd == 81 || cmd == 113 then
    let cp := rel (f.f0, f.f1) 113
    let p1 := rel (f.f2, f.f3) 113
    some ⟨B.quadTo p cp.1 cp.2 p1.1 p1.2, cp, c, p1, cmd⟩
  else if cmd == 84 || cmd == 116 then
    let p1 := rel (f.f0, f.f1) 116
    let cp := if prevCmd == 81 || prevCmd == 113 || prevCmd == 84 || prevCmd == 116 then prefl num p0 q else p0
    some ⟨B.quadTo p cp.1 cp.2 p1.1 p1.2, cp, c, p1, cmd⟩
  else if cmd == 65 || cmd == 97 then
    let p1 := rel (f.f5, f.f6) 97
    some ⟨B.arcTo p f.f0 f.f1 f.f2 (num.isOne f.f3) (num.isOne f.f4) p1.1 p1.2, q, c, p1, cmd⟩
  else none

/-- one iteration of the main loop (lines 2016-2152): `inl p` = `break`, `inr st` = next iteration -/
def step (path : List Nat) (st : St α P) : Res (Sum P (St α P)) :=
  (skipAt path st.i).bind fun i =>
    if path.length ≤ i then .ok (.inl st.p)
    else
      (readCmd path i st.prevCmd).bind fun (cmd, rep, i) =>
        let CMD := upper cmd
        (parseArgs lex num path CMD cmd rep (cmdLens CMD) (cmdLens CMD) i st.f).bind fun (i, f) =>
          match exec num B cmd st.prevCmd f st.p st.q st.c st.p0 with
          | none => .err ⟨5, cmd, i + 1, 0⟩
          | some e => .ok (.inr ⟨i, e.p, e.q, e.c, e.p1, f, e.cmd⟩)

def loop (path : List Nat) : Nat → St α P → Res P
  | 0, _ => .fuel
  | fuel + 1, st =>
    (step lex num B path st).bind fun r =>
      match r with
      | .inl p => .ok p
      | .inr st' => loop path fuel st'

def initSt (i : Nat) : St α P :=
  let z := (num.zero, num.zero)
  ⟨i, B.empty, z, z, z, ⟨num.zero, num.zero, num.zero, num.zero, num.zero, num.zero, num.zero⟩, 122⟩

/-- `ParseSVGPath` as it is in /repo (path.go, since commit 91dc4d7): after the leading
`skipCommaWhitespace` a string with nothing left is the empty path, like `""`. -/
def parseSVGPath (s : List Nat) : Res P :=
  if s.length == 0 then .ok B.empty
  else
    (skipAt s 0).bind fun i =>
      (idx s 0).bind fun b0 =>
        if b0 == 44 then .err ⟨0, 0, 0, 0⟩
        else if s.length ≤ i then .ok B.empty
        else
          (idx s i).bind fun bi =>
            if bi < 65 then .err ⟨0, 0, 0, 0⟩
            else loop lex num B s (s.length + 1) (initSt num B i)

/-- The parser as it was before commit 91dc4d7 (`if path[0] == ',' || path[i] < 'A'` with no
`i < len(path)` test).  Kept only to state what the repair changed; not compared with any code. -/
def parseSVGPathBefore91dc4d7 (s : List Nat) : Res P :=
  if s.length == 0 then .ok B.empty
  else
    (skipAt s 0).bind fun i =>
      (idx s 0).bind fun b0 =>
        if b0 == 44 then .err ⟨0, 0, 0, 0⟩
        else
          (idx s i).bind fun bi =>
            if bi < 65 then .err ⟨0, 0, 0, 0⟩
            else loop lex num B s (s.length + 1) (initSt num B i)
end

/-! ## The number lexer: length scanned by `strconv.ParseFloat` (tdewolff/parse v2.7.22) -/

def u64 : Nat := 18446744073709551616

def isDigit (c : Nat) : Bool := 48 ≤ c && c ≤ 57

structure Mant where
  k : Nat               -- bytes consumed after the sign
  dot : Option Nat      -- index of '.', relative to `start`
  trunk : Option Nat    -- index of the first dropped digit
  n : Nat               -- uint64 mantissa

/-- the digit loop; `i` is the index relative to `start` -/
def scanMant : List Nat → Nat → Option Nat → Option Nat → Nat → Mant
  | [], i, dot, trunk, n => ⟨i, dot, trunk, n⟩
  | c :: cs, i, dot, trunk, n =>
    if isDigit c then
      match trunk with
      | none =>
        if (u64 - 1) / 10 < n then scanMant cs (i + 1) dot (some i) n
        else scanMant cs (i + 1) dot none ((n * 10 + (c - 48)) % u64)
      | some t => scanMant cs (i + 1) dot (some t) n
    else if dot.isNone && c == 46 then scanMant cs (i + 1) (some i) trunk n
    else ⟨i, dot, trunk, n⟩

/-- digits of `ParseInt` after the sign: (count, value), `none` on overflow (`return 0, 0`) -/
def scanIntDigits : List Nat → Nat → Nat → Option (Nat × Nat)
  | [], i, n => some (i, n)
  | c :: cs, i, n =>
    if isDigit c then
      if 9223372036854775808 / 10 < n || 9223372036854775808 - (c - 48) < n * 10 then none
      else scanIntDigits cs (i + 1) (n * 10 + (c - 48))
    else some (i, n)

/-- `strconv.ParseInt(b)`: (value, length) -/
def parseInt (b : List Nat) : Int × Nat :=
  let neg := b.head? == some 45
  let sign := if b.head? == some 43 || b.head? == some 45 then 1 else 0
  match scanIntDigits (b.drop sign) 0 0 with
  | none => (0, 0)
  | some (k, n) =>
    if k == 0 then (0, 0)
    else if !neg && 9223372036854775807 < n then (0, 0)
    else if neg then (-(n : Int), sign + k)
    else ((n : Int), sign + k)

structure Scan where
  len : Nat
  neg : Bool
  n : Nat
  mantExp : Int
  expExp : Int
deriving Repr, DecidableEq

/-- everything `ParseFloat` decides on bytes alone; `len = 0` means "no number" -/
def scan (b : List Nat) : Scan :=
  let neg := b.head? == some 45
  let sign := if b.head? == some 43 || b.head? == some 45 then 1 else 0
  let rest := b.drop sign
  let m := scanMant rest 0 none none 0
  if m.k == 0 || (m.k == 1 && m.dot == some 0) then ⟨0, false, 0, 0, 0⟩
  else
    let mantExp : Int :=
      match m.dot, m.trunk with
      | some d, none => (m.k : Int) - d - 1
      | some d, some t => (t : Int) - d - 1
      | none, some t => (t : Int) - m.k
      | none, none => 0
    let after := rest.drop m.k
    let e : Int × Nat :=
      match after with
      | c :: r => if c == 101 || c == 69 then
          let pi := parseInt r
          if 0 < pi.2 then (pi.1, 1 + pi.2) else (0, 0)
        else (0, 0)
      | [] => (0, 0)
    ⟨sign + m.k + e.2, neg, m.n, mantExp, e.1⟩

/-! ### value (Float only; used by the driver, compared with the real lexer by correspondence) -/

def pow10tab (k : Nat) : Float := OfScientific.ofScientific 1 false k

/-- Go `math.Pow10` -/
def goPow10 (n : Int) : Float :=
  if 0 ≤ n ∧ n ≤ 308 then pow10tab (n.toNat / 32 * 32) * pow10tab (n.toNat % 32)
  else if -323 ≤ n ∧ n ≤ 0 then
    OfScientific.ofScientific 1 true ((-n).toNat / 32 * 32) / pow10tab ((-n).toNat % 32)
  else if n > 0 then 1.0 / 0.0 else 0.0

def scanValue (s : Scan) : Float :=
  let f0 := Float.ofNat s.n
  let f := if s.neg then -f0 else f0
  let exp := s.expExp - s.mantExp
  let slow := fun (f : Float) => f * goPow10 (-s.mantExp) * goPow10 s.expExp
  if exp == 0 then f
  else if 0 < exp ∧ exp ≤ 37 then
    let f1 := if 22 < exp then f * pow10tab (exp.toNat - 22) else f
    let e1 := if 22 < exp then 22 else exp.toNat
    if -1e15 ≤ f1 ∧ f1 ≤ 1e15 then f1 * pow10tab e1 else slow f1
  else if -22 ≤ exp ∧ exp < 0 then f / pow10tab (-exp).toNat
  else slow f

def lexFloat (b : List Nat) : Float × Nat :=
  let s := scan b
  if s.len == 0 then (0.0, 0) else (scanValue s, s.len)

/-! # L3 — token-level specifications of the three output syntaxes

`Cmd` is one command of a path's data array, `Seg` one drawn piece with its start point.  The
printers `toSVG`, `toPDF`, `toPS` produce the *tokens* of /repo/path.go:2192-2342 (numbers stay
abstract: the rounding to `Precision` digits is judged by the Go oracle); the interpreters are
written from the SVG 1.1 path grammar, PDF 32000-1 §8.5.2 and the PLRM, not from the printers. -/

inductive Cmd (α : Type) where
  | move (x y : α)
  | line (x y : α)
  | quad (cx cy x y : α)
  | cube (c1x c1y c2x c2y x y : α)
  | arc (rx ry rot : α) (large sweep : Bool) (x y : α)
  | close (x y : α)
deriving Repr, DecidableEq

inductive Seg (α : Type) where
  | move (x y : α)
  | line (x0 y0 x y : α)
  | quad (x0 y0 cx cy x y : α)
  | cube (x0 y0 c1x c1y c2x c2y x y : α)
  | arc (x0 y0 rx ry rot : α) (large sweep : Bool) (x y : α)
  /-- centre form: centre, radii, start/end angle (degrees), rotation (degrees), counter-clockwise -/
  | arcC (cx cy rx ry a0 a1 rot : α) (ccw : Bool)
  | close (x0 y0 x y : α)
deriving Repr, DecidableEq

def Cmd.endPt {α : Type} : Cmd α → α × α
  | .move x y | .line x y | .quad _ _ x y | .cube _ _ _ _ x y | .arc _ _ _ _ _ x y | .close x y => (x, y)

def Cmd.seg {α : Type} (cur : α × α) : Cmd α → Seg α
  | .move x y => .move x y
  | .line x y => .line cur.1 cur.2 x y
  | .quad a b x y => .quad cur.1 cur.2 a b x y
  | .cube a b c d x y => .cube cur.1 cur.2 a b c d x y
  | .arc rx ry rot l s x y => .arc cur.1 cur.2 rx ry rot l s x y
  | .close x y => .close cur.1 cur.2 x y

/-- the segments a data array draws, from current point `cur` -/
def segsFrom {α : Type} (cur : α × α) : List (Cmd α) → List (Seg α)
  | [] => []
  | c :: cs => c.seg cur :: segsFrom c.endPt cs

/-! ## SVG path data -/

inductive Tok (α : Type) where
  | cmd (c : Char)
  | num (v : α)
  | flag (b : Bool)
deriving Repr, DecidableEq

/-- ToSVG, one command; `x y` is the printer's current point, `eq` is `Equal`, `ge90` is
`90.0 <= rot`, `sub90` is `rot - 90.0` -/
def svgCmd {α : Type} (eq : α → α → Bool) (ge90 : α → Bool) (sub90 : α → α) (cur : α × α) : Cmd α → List (Tok α)
  | .move x y => [.cmd 'M', .num x, .num y]
  | .line x y =>
    if eq x cur.1 && eq y cur.2 then []
    else if eq x cur.1 then [.cmd 'V', .num y]
    else if eq y cur.2 then [.cmd 'H', .num x]
    else [.cmd 'L', .num x, .num y]
  | .quad a b x y => [.cmd 'Q', .num a, .num b, .num x, .num y]
  | .cube a b c d x y => [.cmd 'C', .num a, .num b, .num c, .num d, .num x, .num y]
  | .arc rx ry rot l s x y =>
    if ge90 rot then [.cmd 'A', .num ry, .num rx, .num (sub90 rot), .flag l, .flag s, .num x, .num y]
    else [.cmd 'A', .num rx, .num ry, .num rot, .flag l, .flag s, .num x, .num y]
  | .close _ _ => [.cmd 'z']

def toSVG {α : Type} (eq : α → α → Bool) (ge90 : α → Bool) (sub90 : α → α) (cur : α × α) : List (Cmd α) → List (Tok α)
  | [] => []
  | c :: cs => svgCmd eq ge90 sub90 cur c ++ toSVG eq ge90 sub90 c.endPt cs

/-- `Path.String()`: every command with all its numbers, absolute, rotation in degrees, flags as
separate tokens; never H/V, never swapped radii (path.go:2158-2189) -/
def toStr {α : Type} (cur : α × α) (p : List (Cmd α)) : List (Tok α) :=
  toSVG (fun _ _ => false) (fun _ => false) (fun r => r) cur p

/-- subpath structure of a data array: the MoveTo points in order, and the number of Closes -/
def cmdStarts {α : Type} : List (Cmd α) → List (α × α)
  | [] => []
  | .move x y :: r => (x, y) :: cmdStarts r
  | _ :: r => cmdStarts r

def cmdCloses {α : Type} : List (Cmd α) → Nat
  | [] => 0
  | .close _ _ :: r => cmdCloses r + 1
  | _ :: r => cmdCloses r

/-- … and of a decoded segment list -/
def segStarts {α : Type} : List (Seg α) → List (α × α)
  | [] => []
  | .move x y :: r => (x, y) :: segStarts r
  | _ :: r => segStarts r

def segCloses {α : Type} : List (Seg α) → Nat
  | [] => 0
  | .close _ _ _ _ :: r => segCloses r + 1
  | _ :: r => segCloses r

/-- what ToSVG keeps of a command: zero-length lines vanish, arcs with `90 <= rot` are printed with
swapped radii and `rot - 90` (the same ellipse, `C11.ellipse_swap`) -/
def svgCanon {α : Type} (eq : α → α → Bool) (ge90 : α → Bool) (sub90 : α → α) (cur : α × α) : Cmd α → Option (Cmd α)
  | .line x y => if eq x cur.1 && eq y cur.2 then none else some (.line x y)
  | .arc rx ry rot l s x y => if ge90 rot then some (.arc ry rx (sub90 rot) l s x y) else some (.arc rx ry rot l s x y)
  | c => some c

/-- the segments ToSVG's output must decode to -/
def svgExpected {α : Type} (eq : α → α → Bool) (ge90 : α → Bool) (sub90 : α → α) : (α × α) → List (Cmd α) → List (Seg α)
  | _, [] => []
  | cur, c :: cs =>
    match svgCanon eq ge90 sub90 cur c with
    | none => svgExpected eq ge90 sub90 c.endPt cs
    | some c' => c'.seg cur :: svgExpected eq ge90 sub90 c.endPt cs

/-- data-array well-formedness the printers rely on (property C10 proves it for builder paths): every
Close carries the coordinates of the last MoveTo -/
def closesOK {α : Type} [DecidableEq α] : (α × α) → List (Cmd α) → Bool
  | _, [] => true
  | _, .move x y :: cs => closesOK (x, y) cs
  | st, .close x y :: cs => (x, y) == st && closesOK st cs
  | st, _ :: cs => closesOK st cs

/-- … and a Close is followed by a MoveTo or by nothing (the builder inserts that MoveTo itself) -/
def moveAfterClose {α : Type} : List (Cmd α) → Bool
  | [] => true
  | .close _ _ :: .move x y :: r => moveAfterClose (.move x y :: r)
  | .close _ _ :: [] => true
  | .close _ _ :: _ :: _ => false
  | _ :: r => moveAfterClose r

def noArcs {α : Type} : List (Cmd α) → Bool
  | [] => true
  | .arc _ _ _ _ _ _ _ :: _ => false
  | _ :: cs => noArcs cs

/-- interpreter state: current point, subpath start, last cubic / quadratic control point (for S/T),
current command letter and the arguments collected for it so far (newest first) -/
structure SvgSt (α : Type) where
  cur : α × α
  start : α × α
  ctl : Option (α × α)      -- second control point of the previous C/S
  qctl : Option (α × α)     -- control point of the previous Q/T
  cmd : Option Char
  args : List (Tok α)       -- reversed
  out : List (Seg α)        -- reversed

def svgArity (c : Char) : Option Nat :=
  match c.toUpper with
  | 'M' => some 2 | 'Z' => some 0 | 'L' => some 2 | 'H' => some 1 | 'V' => some 1
  | 'C' => some 6 | 'S' => some 4 | 'Q' => some 4 | 'T' => some 2 | 'A' => some 7
  | _ => none

/-- execute one complete command instance (SVG 1.1 §8.3); `args` in source order -/
def svgExec {α : Type} (add : α → α → α) (refl : α → α → α) (s : SvgSt α) (c : Char) (args : List (Tok α)) : Option (SvgSt α) :=
  let rel := c.isLower
  let ab := fun (x y : α) => if rel then (add x s.cur.1, add y s.cur.2) else (x, y)
  let emit := fun (sg : Seg α) (cur : α × α) (ctl qctl : Option (α × α)) (next : Char) =>
    some { s with cur := cur, ctl := ctl, qctl := qctl, cmd := some next, args := [], out := sg :: s.out }
  match c.toUpper, args with
  | 'M', [.num x, .num y] =>
    let p := ab x y
    some { s with cur := p, start := p, ctl := none, qctl := none, cmd := some (if rel then 'l' else 'L'), args := [], out := .move p.1 p.2 :: s.out }
  | 'Z', [] =>
    some { s with cur := s.start, ctl := none, qctl := none, cmd := some c, args := [], out := .close s.cur.1 s.cur.2 s.start.1 s.start.2 :: s.out }
  | 'L', [.num x, .num y] =>
    let p := ab x y
    emit (.line s.cur.1 s.cur.2 p.1 p.2) p none none c
  | 'H', [.num x] =>
    let p := ((ab x s.cur.2).1, s.cur.2)
    emit (.line s.cur.1 s.cur.2 p.1 p.2) p none none c
  | 'V', [.num y] =>
    let p := (s.cur.1, (ab s.cur.1 y).2)
    emit (.line s.cur.1 s.cur.2 p.1 p.2) p none none c
  | 'C', [.num a, .num b, .num cc, .num d, .num x, .num y] =>
    let c1 := ab a b; let c2 := ab cc d; let p := ab x y
    emit (.cube s.cur.1 s.cur.2 c1.1 c1.2 c2.1 c2.2 p.1 p.2) p (some c2) none c
  | 'S', [.num cc, .num d, .num x, .num y] =>
    let c1 := match s.ctl with
      | some k => (refl s.cur.1 k.1, refl s.cur.2 k.2)
      | none => s.cur
    let c2 := ab cc d; let p := ab x y
    emit (.cube s.cur.1 s.cur.2 c1.1 c1.2 c2.1 c2.2 p.1 p.2) p (some c2) none c
  | 'Q', [.num a, .num b, .num x, .num y] =>
    let c1 := ab a b; let p := ab x y
    emit (.quad s.cur.1 s.cur.2 c1.1 c1.2 p.1 p.2) p none (some c1) c
  | 'T', [.num x, .num y] =>
    let c1 := match s.qctl with
      | some k => (refl s.cur.1 k.1, refl s.cur.2 k.2)
      | none => s.cur
    let p := ab x y
    emit (.quad s.cur.1 s.cur.2 c1.1 c1.2 p.1 p.2) p none (some c1) c
  | 'A', [.num rx, .num ry, .num rot, .flag l, .flag sw, .num x, .num y] =>
    let p := ab x y
    emit (.arc s.cur.1 s.cur.2 rx ry rot l sw p.1 p.2) p none none c
  | _, _ => none

/-- the last executed command was a closepath -/
def wasClose {α : Type} (s : SvgSt α) : Bool := s.cmd == some 'z' || s.cmd == some 'Z'

/-- feed one token -/
def svgTok {α : Type} (add : α → α → α) (refl : α → α → α) (s : SvgSt α) (t : Tok α) : Option (SvgSt α) :=
  match t with
  | .cmd c =>
    if s.args ≠ [] then none            -- previous command instance incomplete
    else match svgArity c with
      | none => none
      | some 0 => svgExec add refl s c []
      | some _ =>
        if s.out = [] ∧ c.toUpper ≠ 'M' then none   -- path data must start with a moveto
        else if wasClose s ∧ c.toUpper ≠ 'M' then
          -- SVG 1.1 §8.3.3: "If a closepath is followed immediately by any other command, then the
          -- next subpath starts at the same initial point as the current subpath": implicit moveto
          some { s with cmd := some c, args := [], out := .move s.cur.1 s.cur.2 :: s.out }
        else some { s with cmd := some c, args := [] }
  | t =>
    match s.cmd with
    | none => none
    | some c =>
      match svgArity c with
      | none => none
      | some 0 => none                  -- numbers after Z
      | some n =>
        let args := t :: s.args
        if args.length = n then svgExec add refl s c args.reverse
        else some { s with args := args }

def svgRun {α : Type} (add : α → α → α) (refl : α → α → α) : SvgSt α → List (Tok α) → Option (SvgSt α)
  | s, [] => some s
  | s, t :: ts => (svgTok add refl s t).bind fun s' => svgRun add refl s' ts

def svgInit {α : Type} (zero : α) : SvgSt α := ⟨(zero, zero), (zero, zero), none, none, none, [], []⟩

/-- interpret a complete token list: all command instances complete -/
def svgInterp {α : Type} (add : α → α → α) (refl : α → α → α) (zero : α) (ts : List (Tok α)) : Option (List (Seg α)) :=
  (svgRun add refl (svgInit zero) ts).bind fun s => if s.args = [] then some s.out.reverse else none

/-! ## PDF content-stream path operators (m l c h re) and the PostScript operators ToPS emits -/

inductive OTok (α : Type) where
  | num (v : α)
  | op (name : String)
deriving Repr, DecidableEq

structure OpSt (α : Type) where
  cur : α × α
  start : α × α
  stack : List α            -- operand stack, top first
  out : List (Seg α)        -- reversed

def pdfOp {α : Type} (add : α → α → α) (s : OpSt α) (name : String) : Option (OpSt α) :=
  match name, s.stack with
  | "m", [y, x] => some { cur := (x, y), start := (x, y), stack := [], out := .move x y :: s.out }
  | "l", [y, x] => some { s with cur := (x, y), stack := [], out := .line s.cur.1 s.cur.2 x y :: s.out }
  | "c", [y, x, d, c, b, a] => some { s with cur := (x, y), stack := [], out := .cube s.cur.1 s.cur.2 a b c d x y :: s.out }
  | "h", [] => some { s with cur := s.start, stack := [], out := .close s.cur.1 s.cur.2 s.start.1 s.start.2 :: s.out }
  | "re", [h, w, y, x] =>
    some { cur := (x, y), start := (x, y), stack := [],
           out := .close x (add y h) x y :: .line (add x w) (add y h) x (add y h) :: .line (add x w) y (add x w) (add y h)
                  :: .line x y (add x w) y :: .move x y :: s.out }
  | _, _ => none

/-- PostScript: `moveto lineto curveto closepath` (PLRM) and the two procedures of
renderers/ps/ps.go (`ellipse` = translate/rotate/scale + `arc`, `ellipsen` = … + `arcn`); both leave
the current point at the end of the arc, which the centre form determines — `arcEnd` computes it. -/
def psOp {α : Type} (arcEnd : α → α → α → α → α → α → α × α) (s : OpSt α) (name : String) : Option (OpSt α) :=
  match name, s.stack with
  | "moveto", [y, x] => some { cur := (x, y), start := (x, y), stack := [], out := .move x y :: s.out }
  | "lineto", [y, x] => some { s with cur := (x, y), stack := [], out := .line s.cur.1 s.cur.2 x y :: s.out }
  | "curveto", [y, x, d, c, b, a] => some { s with cur := (x, y), stack := [], out := .cube s.cur.1 s.cur.2 a b c d x y :: s.out }
  | "closepath", [] => some { s with cur := s.start, stack := [], out := .close s.cur.1 s.cur.2 s.start.1 s.start.2 :: s.out }
  | "ellipse", [rot, a1, a0, ry, rx, cy, cx] =>
    some { s with cur := arcEnd cx cy rx ry a1 rot, stack := [], out := .arcC cx cy rx ry a0 a1 rot true :: s.out }
  | "ellipsen", [rot, a1, a0, ry, rx, cy, cx] =>
    some { s with cur := arcEnd cx cy rx ry a1 rot, stack := [], out := .arcC cx cy rx ry a0 a1 rot false :: s.out }
  | _, _ => none

def opRun {α : Type} (op : OpSt α → String → Option (OpSt α)) : OpSt α → List (OTok α) → Option (OpSt α)
  | s, [] => some s
  | s, .num v :: ts => opRun op { s with stack := v :: s.stack } ts
  | s, .op name :: ts => (op s name).bind fun s' => opRun op s' ts

def opInterp {α : Type} (op : OpSt α → String → Option (OpSt α)) (zero : α) (ts : List (OTok α)) : Option (List (Seg α)) :=
  (opRun op ⟨(zero, zero), (zero, zero), [], []⟩ ts).bind fun s => if s.stack = [] then some s.out.reverse else none

/-- quadratic → cubic control points, as parameters `e1 p0 p1 = p0.Interpolate(p1, 2/3)` per coordinate -/
def elev {α : Type} (ip : α → α → α) (cur : α × α) (a b x y : α) : (α × α) × (α × α) :=
  ((ip cur.1 a, ip cur.2 b), (ip x a, ip y b))

/-- ToPDF after ReplaceArcs (arc commands are not printed: the Go code panics on them) -/
def pdfCmd {α : Type} (ip : α → α → α) (cur : α × α) : Cmd α → List (OTok α)
  | .move x y => [.num x, .num y, .op "m"]
  | .line x y => [.num x, .num y, .op "l"]
  | .quad a b x y =>
    let e := elev ip cur a b x y
    [.num e.1.1, .num e.1.2, .num e.2.1, .num e.2.2, .num x, .num y, .op "c"]
  | .cube a b c d x y => [.num a, .num b, .num c, .num d, .num x, .num y, .op "c"]
  | .arc _ _ _ _ _ _ _ => []
  | .close _ _ => [.op "h"]

def toPDF {α : Type} (ip : α → α → α) (cur : α × α) : List (Cmd α) → List (OTok α)
  | [] => []
  | c :: cs => pdfCmd ip cur c ++ toPDF ip c.endPt cs

/-- `ellipseToCenter` and the degree conversions are parameters: (cx, cy, theta0°, theta1°, rot°) -/
structure Center (α : Type) where
  cx : α
  cy : α
  a0 : α
  a1 : α
  rot : α

def psCmd {α : Type} (ip : α → α → α) (center : α × α → α → α → α → Bool → Bool → α → α → Center α) (cur : α × α) : Cmd α → List (OTok α)
  | .move x y => [.num x, .num y, .op "moveto"]
  | .line x y => [.num x, .num y, .op "lineto"]
  | .quad a b x y =>
    let e := elev ip cur a b x y
    [.num e.1.1, .num e.1.2, .num e.2.1, .num e.2.2, .num x, .num y, .op "curveto"]
  | .cube a b c d x y => [.num a, .num b, .num c, .num d, .num x, .num y, .op "curveto"]
  | .arc rx ry phi l sw x y =>
    let k := center cur rx ry phi l sw x y
    [.num k.cx, .num k.cy, .num rx, .num ry, .num k.a0, .num k.a1, .num k.rot, .op (if sw then "ellipse" else "ellipsen")]
  | .close _ _ => [.op "closepath"]

def toPS {α : Type} (ip : α → α → α) (center : α × α → α → α → α → Bool → Bool → α → α → Center α) (cur : α × α) : List (Cmd α) → List (OTok α)
  | [] => []
  | c :: cs => psCmd ip center cur c ++ toPS ip center c.endPt cs

/-- what the PDF/PS interpreters must return for `p`: quadratics elevated, arcs in centre form -/
def Cmd.segElev {α : Type} (ip : α → α → α) (center : α × α → α → α → α → Bool → Bool → α → α → Center α) (cur : α × α) : Cmd α → Seg α
  | .quad a b x y =>
    let e := elev ip cur a b x y
    .cube cur.1 cur.2 e.1.1 e.1.2 e.2.1 e.2.2 x y
  | .arc rx ry phi l sw x y =>
    let k := center cur rx ry phi l sw x y
    .arcC k.cx k.cy rx ry k.a0 k.a1 k.rot sw
  | c => c.seg cur

def segsElev {α : Type} (ip : α → α → α) (center : α × α → α → α → α → Bool → Bool → α → α → Center α) (cur : α × α) : List (Cmd α) → List (Seg α)
  | [] => []
  | c :: cs => c.segElev ip center cur :: segsElev ip center c.endPt cs

end Canvas.C11
