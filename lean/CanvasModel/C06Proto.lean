import CanvasModel.C06Ccw
/-!
C06 line protocol (integer coordinates: the harness sends `sc`·coordinate, sc = 2).

  RAYHITS <closed> px py n x y …           → per hit `t0 into tb same` (tb ∈ 0 1 m), `-` if none
  RAYX <sc> <closed> px py n x y …         → hit positions as float64 hex (tolerant)
  WQ px py k { closed n x y … }×k          → `W n b|panic C n b T c c c c|panic`
  CCWM <closed> n x y … <reported>         → verdict: model of CCW vs the real answer
  CCWSPEC <closed> n x y … <reported>      → verdict: sign of the area of a simple polygon
  CROSSV px py k {closed n x y …}×k <reported>  → verdict: Crossings vs the number of side changes of the contour
  FILLM <rule> k {closed n x y …}×k <bits|panic>     → verdict: model of Filling vs the real answer
  FILLSPEC <rule> k {closed n x y …}×k <bits>        → verdict: fills(orientation + winding of the others)
  WINDV <delta> P <poly> PTS <m> x y … W w…          → verdict: reported windings vs `wn` off the δ-band
-/
namespace Canvas.C06
open Canvas Canvas.Wn

def parseIPts : Nat → List String → Option (List IPt × List String)
  | 0, ts => some ([], ts)
  | n + 1, x :: y :: ts => do
    let x ← x.toInt?
    let y ← y.toInt?
    let (rest, ts') ← parseIPts n ts
    pure (⟨x, y⟩ :: rest, ts')
  | _, _ => none

def parseSubs : Nat → List String → Option (List Sub × List String)
  | 0, ts => some ([], ts)
  | k + 1, c :: n :: ts => do
    let n ← n.toNat?
    let (vs, ts') ← parseIPts n ts
    let (rest, ts'') ← parseSubs k ts'
    pure ((b01 c, vs) :: rest, ts'')
  | _, _ => none

def tbStr : TB → String
  | .zero => "0" | .one => "1" | .mid => "m"

def bs (b : Bool) : String := if b then "1" else "0"

def hitStr (h : Hit) : String := s!"{bs h.t0zero} {bs h.into} {tbStr h.tb} {bs h.same}"

def ratToFloat (r : Rat) (sc : Nat) : Float := Float.ofInt r.num / Float.ofNat r.den / Float.ofNat sc

def outcomeStr : Outcome → String
  | .ok n b => s!"{n} {bs b}"

def bitsStr (l : List Bool) : String := String.join (l.map bs)

/-! ### specification verdicts -/

/-- orientation of a simple polygon: the sign of its area -/
def ccwSpec (c : List IPt) : Option Bool :=
  if isSimple c && area2 c != 0 then some (decide (0 < area2 c)) else none

/-- winding number of all contours but the i-th around a point -/
def wnOthers (pos : IPt) (i : Nat) : List (List IPt) → Nat → Int
  | [], _ => 0
  | c :: rest, j => (if i == j then 0 else wn1 pos c) + wnOthers pos i rest (j + 1)

/-- every contour simple with non-zero area, contours pairwise disjoint -/
def nestedScene (cs : List (List IPt)) : Bool := Id.run do
  let arr := cs.toArray
  for i in [0:arr.size] do
    if (ccwSpec arr[i]!).isNone then return false
    for j in [i+1:arr.size] do
      if !disjointContours arr[i]! arr[j]! then return false
  return true

/-- what `Filling` must answer for contour i of a nested scene: the winding number just inside it -/
def fillSpec (rule : Rule) (cs : List (List IPt)) (i : Nat) (c : List IPt) : Bool :=
  rule.fills ((if 0 < area2 c then 1 else -1) + wnOthers (c.getD 0 ⟨0, 0⟩) i cs 0)

def fillSpecAll (rule : Rule) (cs : List (List IPt)) : List Bool :=
  (cs.zipIdx).map fun ci => fillSpec rule cs ci.2 ci.1

inductive Verdict where
  | ok (checked skipped : Nat)
  | fail (idx : Nat) (spec reported : Int)
deriving Repr, DecidableEq

/-- verdict on reported winding numbers: judged points are those farther than δ from the path -/
def judgeWind (P : List (List IPt)) (d2 : Int) : List IPt → List Int → Nat → Nat → Nat → Verdict
  | p :: pts, r :: reps, idx, checked, skipped =>
    if farFromAll p d2 P then
      if wn p P != r then .fail idx (wn p P) r
      else judgeWind P d2 pts reps (idx + 1) (checked + 1) skipped
    else judgeWind P d2 pts reps (idx + 1) checked (skipped + 1)
  | _, _, _, checked, skipped => .ok checked skipped

def Verdict.render : Verdict → String
  | .ok c s => s!"ok checked={c} skipped={s}"
  | .fail i w r => s!"FAIL windings pt={i} spec={w} reported={r}"

/-! ### Crossings verdict: the number of places to the right of the point where the contour goes from
one side of the ray's line to the other (exact, from the vertices alone) -/

def sgnY (p v : IPt) : Int := sgn (v.y - p.y)

/-- walk over the vertices after a first vertex off the line: `s` is the side of the last vertex off
the line, `run` whether vertices on the line have been passed since and `right` whether they lay to the
right of the point -/
def sideWalk (p : IPt) : List IPt → IPt → Int → Bool → Bool → Int → Int
  | [], _, _, _, _, n => n
  | v :: rest, prev, s, run, right, n =>
    let t := sgnY p v
    if t == 0 then sideWalk p rest v s true (decide (p.x < v.x)) n
    else if run then sideWalk p rest v t false false (if t != s && right then n + 1 else n)
    else
      -- edge prev→v with both ends off the line: crosses it iff the sides differ, to the right of the
      -- point iff the point is on the left of the upward edge / right of the downward one
      let crosses := t != s && (if s < 0 then decide (0 < isLeft prev v p) else decide (isLeft prev v p < 0))
      sideWalk p rest v t false false (if crosses then n + 1 else n)

/-- rotate the contour so that it starts with a vertex off the ray's line (none: no crossing) -/
def rotateOff (p : IPt) : List IPt → Nat → List IPt
  | l, 0 => l
  | [], _ => []
  | v :: rest, k + 1 => if sgnY p v != 0 then v :: rest else rotateOff p (rest ++ [v]) k

def sideChanges (p : IPt) (c : List IPt) : Int :=
  match rotateOff p c c.length with
  | [] => 0
  | v :: rest => if sgnY p v == 0 then 0 else sideWalk p (rest ++ [v]) v (sgnY p v) false false 0

def crossSpec (p : IPt) (cs : List (List IPt)) : Int := cs.foldl (fun acc c => acc + sideChanges p c) 0

def handleAll : List String → Option String
  | "RAYHITS" :: c :: px :: py :: n :: ts => do
    let px ← px.toInt?
    let py ← py.toInt?
    let n ← n.toNat?
    let (vs, _) ← parseIPts n ts
    let hs := rayHits (b01 c) ⟨px, py⟩ vs
    pure (if hs.isEmpty then "-" else " ".intercalate (hs.map hitStr))
  | "RAYX" :: sc :: c :: px :: py :: n :: ts => do
    let sc ← sc.toNat?
    let px ← px.toInt?
    let py ← py.toInt?
    let n ← n.toNat?
    let (vs, _) ← parseIPts n ts
    let hs := rayHits (b01 c) ⟨px, py⟩ vs
    pure (if hs.isEmpty then "-" else " ".intercalate (hs.map fun h => hexOfFloat (ratToFloat h.x sc)))
  | "WQ" :: px :: py :: k :: ts => do
    let px ← px.toInt?
    let py ← py.toInt?
    let k ← k.toNat?
    let (subs, _) ← parseSubs k ts
    let p : IPt := ⟨px, py⟩
    let w := windingsPath p subs
    let c := crossingsPath p subs
    let t := " ".intercalate ([Rule.nonZero, Rule.evenOdd, Rule.positive, Rule.negative].map fun r =>
      bs (containsPath r p subs))
    pure s!"W {outcomeStr w} C {c.1} {bs c.2} T {t}"
  | "CCWM" :: c :: n :: ts => do
    let n ← n.toNat?
    let (vs, ts) ← parseIPts n ts
    match ts with
    | [rep] =>
      match ccwFlat (b01 c) vs with
      | none => pure "skip degenerate"
      | some b => pure (if b == b01 rep then "ok" else s!"MISMATCH model={bs b} real={rep}")
    | _ => none
  | "CCWSPEC" :: c :: n :: ts => do
    let n ← n.toNat?
    let (vs, ts) ← parseIPts n ts
    match ts with
    | [rep] =>
      -- the contour of the (implicitly closed) subpath: a last vertex equal to the first is dropped
      let ct := if vs.length > 1 && vs.getLast? == vs.head? then vs.dropLast else vs
      match ccwSpec ct with
      | none => pure "skip not-simple"
      | some b =>
        if b == b01 rep then pure "ok"
        else
          let cls := if !(b01 c) && (corner false vs).k == 0 then
              (if vs.length > 1 && vs.getLast? == vs.head? then "open-returns-to-start" else "open-start-vertex-extreme")
            else "ccw-sign"
          pure s!"FAIL {cls} area2={area2 ct} reported={rep}"
    | _ => none
  | "FILLM" :: rule :: k :: ts => do
    let rule ← (rule.toNat?).bind Rule.ofNat?
    let k ← k.toNat?
    let (subs, ts) ← parseSubs k ts
    match ts with
    | [rep] =>
      match fillingFlat rule subs with
      | .degenerate => pure "skip degenerate"
      | .ok l => pure (if bitsStr l == rep then "ok" else s!"MISMATCH model={bitsStr l} real={rep}")
    | _ => none
  | "FILLSPEC" :: rule :: k :: ts => do
    let rule ← (rule.toNat?).bind Rule.ofNat?
    let k ← k.toNat?
    let (subs, ts) ← parseSubs k ts
    match ts with
    | [rep] =>
      let cs := subs.map fun s => if s.2.length > 1 && s.2.getLast? == s.2.head? then s.2.dropLast else s.2
      if !nestedScene cs then pure "skip not-nested"
      else
        let exp := bitsStr (fillSpecAll rule cs)
        if exp == rep then pure "ok"
        else
          let cls := if subs.any (fun s => !s.1 && (corner false s.2).k == 0 && s.2.length > 1 && s.2.getLast? == s.2.head?) then "open-returns-to-start"
            else if subs.any (fun s => !s.1 && (corner false s.2).k == 0) then "open-start-vertex-extreme"
            else if subs.any (fun s => !s.1) then "open" else "filling"
          pure s!"FAIL {cls} expected={exp} reported={rep}"
    | _ => none
  | "CROSSV" :: px :: py :: k :: ts => do
    let px ← px.toInt?
    let py ← py.toInt?
    let k ← k.toNat?
    let (subs, ts) ← parseSubs k ts
    match ts with
    | [rep] =>
      let rep ← rep.toInt?
      let p : IPt := ⟨px, py⟩
      if subs.any (fun s => !s.1) then pure "skip open"
      else if (crossingsPath p subs).2 then pure "skip boundary"
      else
        let spec := crossSpec p (subs.map (·.2))
        if spec == rep then pure "ok"
        else pure s!"FAIL crossings spec={spec} reported={rep}"
    | _ => none
  | "WINDV" :: delta :: "P" :: ts => do
    let delta ← Canvas.Region.parseRaw delta
    let (p, ts) ← Canvas.Region.parsePoly ts
    match ts with
    | "PTS" :: m :: ts => do
      let m ← m.toNat?
      let (pts, ts) ← Canvas.Region.parsePts m ts
      match ts with
      | "W" :: ws => do
        let ws ← ws.mapM (·.toInt?)
        let s := Canvas.Region.mkScene delta p [] [] pts
        pure (judgeWind s.P s.d2 s.pts ws 0 0 0).render
      | _ => none
    | _ => none
  | ts => handle ts

end Canvas.C06
