import CanvasModel.C11
/-!
Executable `Float` replica of the path builder calls that `ParseSVGPath` makes
(/repo/path.go:350-577, util.go) so that the byte-level parser model can be compared with the real
parser on the resulting data array.  It instantiates the abstract `Builder` of `CanvasModel/C11.lean`;
no theorem is about this file (builder well-formedness/totality is property C10) — it is tied to the
code only by the C11 correspondence run (`~` comparison: `atan2`, `sincos`, `hypot` differ by an ulp).
An out-of-range read yields NaN, which shows up as a correspondence mismatch.
-/
namespace Canvas.C11.FB

abbrev D := Array Float
abbrev Pt2 := Float × Float

def nan : Float := 0.0 / 0.0
def eps : Float := 1e-10
def twoPi : Float := 2.0 * goPi

def equal (a b : Float) : Bool := if a < b then b - a <= eps else a - b <= eps
def ptEq (a b : Pt2) : Bool := equal a.1 b.1 && equal a.2 b.2
def sub (a b : Pt2) : Pt2 := (a.1 - b.1, a.2 - b.2)
def dot (a b : Pt2) : Float := a.1 * b.1 + a.2 * b.2
def perpDot (a b : Pt2) : Float := a.1 * b.2 - a.2 * b.1
def signbit (x : Float) : Bool := x.toBits >>> 63 == 1

/-- math.Hypot -/
def hypot (x y : Float) : Float :=
  if x.isInf || y.isInf then 1.0 / 0.0
  else if x.isNaN || y.isNaN then nan
  else
    let p := x.abs; let q := y.abs
    let (p, q) := if p < q then (q, p) else (p, q)
    if p == 0 then 0 else
    let q := q / p
    p * Float.sqrt (1 + q * q)

def decode (x : Float) : Nat × Int :=
  let b := x.toBits.toNat % 2 ^ 63
  let ex : Nat := b / 2 ^ 52
  let fr : Nat := b % 2 ^ 52
  if ex == 0 then (fr, -1074) else (fr + 2 ^ 52, Int.ofNat ex - 1075)

/-- math.Mod, exact (the remainder of two doubles is a double) -/
def fmod (x y : Float) : Float :=
  if y == 0 || x.isInf || x.isNaN || y.isNaN then nan
  else if y.isInf then x
  else
    let (mx, ex) := decode x
    let (my, ey) := decode y
    let e := min ex ey
    let X := mx * 2 ^ (ex - e).toNat
    let Y := my * 2 ^ (ey - e).toNat
    let r := (Float.ofNat (X % Y)).scaleB e
    if signbit x then -r else r

def angleNorm (theta : Float) : Float :=
  let t := fmod theta twoPi
  if t < 0.0 then t + twoPi else t

def angleBetween (theta lower upper : Float) : Bool :=
  let (lower, upper) := if upper < lower then (upper, lower) else (lower, upper)
  let theta := angleNorm (theta - lower + eps)
  let upper := angleNorm (upper - lower + 2.0 * eps)
  theta <= upper

def angleEqual (a b : Float) : Bool := angleBetween a b b
def angBetween (p q : Pt2) : Float := Float.atan2 (perpDot p q) (dot p q)

def at' (d : D) (i : Nat) : Float := d.getD i nan
def last (d : D) : Float := at' d (d.size - 1)

def cmdLen (cmd : Float) : Nat :=
  if cmd == 4.0 then 6 else if cmd == 8.0 || cmd == 16.0 then 8 else 4

def pos (d : D) : Pt2 := if 0 < d.size then (at' d (d.size - 3), at' d (d.size - 2)) else (0.0, 0.0)

def startPosAux (d : D) : Nat → Nat → Pt2
  | 0, _ => (0.0, 0.0)
  | fuel + 1, i =>
    if 0 < i then
      let cmd := at' d (i - 1)
      if cmd == 1.0 then (at' d (i - 3), at' d (i - 2)) else startPosAux d fuel (i - cmdLen cmd)
    else (0.0, 0.0)

def startPos (d : D) : Pt2 := startPosAux d (d.size + 1) d.size

def moveTo (d : D) (x y : Float) : D :=
  if 0 < d.size && last d == 1.0 then (d.setIfInBounds (d.size - 3) x).setIfInBounds (d.size - 2) y
  else d ++ #[1.0, x, y, 1.0]

/-- the `len(p.d) == 0` / `CloseCmd` prologue shared by LineTo, QuadTo, CubeTo, ArcTo -/
def ensureStart (d : D) : D :=
  if d.size == 0 then moveTo d 0.0 0.0
  else if last d == 32.0 then moveTo d (at' d (d.size - 3)) (at' d (d.size - 2))
  else d

def lineTo (d : D) (x y : Float) : D :=
  let start := pos d
  let en : Pt2 := (x, y)
  if ptEq start en then d
  else
    let merged : Option D :=
      if 4 ≤ d.size && last d == 2.0 then
        let prevStart : Pt2 := if 4 < d.size then (at' d (d.size - 7), at' d (d.size - 6)) else (0.0, 0.0)
        let da := sub start prevStart
        let db := sub en start
        let div := perpDot da db
        let length := hypot da.1 da.2 * hypot db.1 db.2
        if equal (div / length) 0.0 then
          let ext := if da.2.abs < da.1.abs then signbit da.1 == signbit db.1 else signbit da.2 == signbit db.2
          if ext then some ((d.setIfInBounds (d.size - 3) x).setIfInBounds (d.size - 2) y) else none
        else none
      else none
    match merged with
    | some d' => d'
    | none => ensureStart d ++ #[2.0, x, y, 2.0]

def quadTo (d : D) (cpx cpy x y : Float) : D :=
  let start := pos d
  let cp : Pt2 := (cpx, cpy)
  let en : Pt2 := (x, y)
  if ptEq start en && ptEq start cp then d
  else if !ptEq start en && (ptEq start cp || angleEqual (angBetween (sub en start) (sub cp start)) 0.0)
      && (ptEq en cp || angleEqual (angBetween (sub en start) (sub en cp)) 0.0) then lineTo d x y
  else ensureStart d ++ #[4.0, cpx, cpy, x, y, 4.0]

def cubeTo (d : D) (a b c e x y : Float) : D :=
  let start := pos d
  let cp1 : Pt2 := (a, b)
  let cp2 : Pt2 := (c, e)
  let en : Pt2 := (x, y)
  let flat := fun (cp : Pt2) =>
    ptEq start cp || ptEq en cp ||
      (angleEqual (angBetween (sub en start) (sub cp start)) 0.0 && angleEqual (angBetween (sub en start) (sub en cp)) 0.0)
  if ptEq start en && ptEq start cp1 && ptEq start cp2 then d
  else if !ptEq start en && flat cp1 && flat cp2 then lineTo d x y
  else ensureStart d ++ #[8.0, a, b, c, e, x, y, 8.0]

def radiiCorrection (start : Pt2) (rx ry phi : Float) (en : Pt2) : Float :=
  let diff := sub start en
  let sinphi := Float.sin phi
  let cosphi := Float.cos phi
  let x1p := (cosphi * diff.1 + sinphi * diff.2) / 2.0
  let y1p := (-sinphi * diff.1 + cosphi * diff.2) / 2.0
  Float.sqrt (x1p * x1p / rx / rx + y1p * y1p / ry / ry)

def arcTo (d : D) (rx ry rot : Float) (large sweep : Bool) (x y : Float) : D :=
  let start := pos d
  let en : Pt2 := (x, y)
  if ptEq start en then d
  else if equal rx 0.0 || rx.isInf || equal ry 0.0 || ry.isInf then lineTo d x y
  else
    let rx := rx.abs
    let ry := ry.abs
    let (rx, ry, rot) := if equal rx ry then (rx, ry, 0.0) else if rx < ry then (ry, rx, rot + 90.0) else (rx, ry, rot)
    let phi := angleNorm (rot * goPi / 180.0)
    let phi := if goPi <= phi then phi - goPi else phi
    let lambda := radiiCorrection start rx ry phi en
    let (rx, ry) := if lambda > 1.0 then (rx * lambda, ry * lambda) else (rx, ry)
    let fl : Float := (if large then 1.0 else 0.0) + (if sweep then 2.0 else 0.0)
    ensureStart d ++ #[16.0, rx, ry, phi, fl, x, y, 16.0]

def close (d : D) : D :=
  if d.size == 0 || last d == 32.0 then d
  else if last d == 1.0 then
    -- remove MoveTo + Close of a subpath without segments, unless the previous subpath is still open
    let n := d.size - 4
    if n == 0 || at' d (n - 1) == 32.0 then d.extract 0 n else d
  else
    let en := startPos d
    if last d == 2.0 && equal (at' d (d.size - 3)) en.1 && equal (at' d (d.size - 2)) en.2 then
      (d.setIfInBounds (d.size - 1) 32.0).setIfInBounds (d.size - 4) 32.0
    else
      let merged : Option D :=
        if last d == 2.0 then
          let start : Pt2 := (at' d (d.size - 3), at' d (d.size - 2))
          let prevStart : Pt2 := if 4 < d.size then (at' d (d.size - 7), at' d (d.size - 6)) else (0.0, 0.0)
          if equal (angBetween (sub en start) (sub start prevStart)) 0.0 then
            some ((((d.setIfInBounds (d.size - 4) 32.0).setIfInBounds (d.size - 3) en.1).setIfInBounds (d.size - 2) en.2).setIfInBounds (d.size - 1) 32.0)
          else none
        else none
      match merged with
      | some d' => d'
      | none => d ++ #[32.0, en.1, en.2, 32.0]

def builder : Builder Float D where
  empty := #[]
  moveTo := moveTo
  lineTo := lineTo
  quadTo := quadTo
  cubeTo := cubeTo
  arcTo := arcTo
  close := close
  startPos := startPos

def floatNum : Num Float where
  zero := 0.0
  one := 1.0
  add := fun a b => a + b
  refl := fun p c => 2.0 * p - c
  isOne := fun a => a == 1.0

end Canvas.C11.FB
