import CanvasModel.C11
/-!
# C11 — numbers: the printers' numerals and what the lexer reads back, in exact arithmetic

`specNumber` is the SVG 1.1 number grammar (`sign? (digit+ ('.' digit*)? | '.' digit+) ([eE] sign? digit+)?`)
evaluated exactly over `Rat`; it is a specification, written independently of the lexer model `scan`.
`scanExact` is the exact value of what the lexer model scanned (`n · 10^(expExp - mantExp)`), i.e. the
decimal the real `strconv.ParseFloat` then converts to a float64.  `ratOfFloat` decodes a float64 bit
pattern exactly.  The verdict functions decide, in exact arithmetic, whether a string printed by
`num` / `dec` (util.go, obtained from the real code through the hook `VerifNum` / `VerifDec`) is a
numeral, is read back completely and to the same decimal by the lexer, and lies within half a unit
of the `Precision`-th significant digit (resp. decimal) of the float that was printed.
-/
namespace Canvas.C11

/-- value of a digit string read left to right from accumulator `acc` -/
def digitsVal : List Nat → Nat → Nat
  | [], acc => acc
  | d :: ds, acc => digitsVal ds (acc * 10 + (d - 48))

def takeDigits : List Nat → List Nat × List Nat
  | [] => ([], [])
  | c :: cs => if isDigit c then let r := takeDigits cs; (c :: r.1, r.2) else ([], c :: cs)

def pow10 (e : Int) : Rat := (10 : Rat) ^ e

/-- SVG number grammar, exact; `none` unless the whole string is one number -/
def specNumber (s : List Nat) : Option Rat :=
  let neg := s.head? == some 45
  let s1 := if s.head? == some 43 || s.head? == some 45 then s.drop 1 else s
  let (ip, r1) := takeDigits s1
  let (fp, r2, hasDot) :=
    match r1 with
    | 46 :: r => let (f, r') := takeDigits r; (f, r', true)
    | _ => ([], r1, false)
  if ip.isEmpty && fp.isEmpty then none
  else if ip.isEmpty && !hasDot then none
  else
    let mant : Rat := (digitsVal (ip ++ fp) 0 : Nat)
    let scale : Int := -(fp.length : Int)
    let ex : Option Int :=
      match r2 with
      | [] => some 0
      | c :: r =>
        if c == 101 || c == 69 then
          let eneg := r.head? == some 45
          let r' := if r.head? == some 43 || r.head? == some 45 then r.drop 1 else r
          let (ed, rest) := takeDigits r'
          if ed.isEmpty || !rest.isEmpty then none
          else some (if eneg then -(digitsVal ed 0 : Int) else (digitsVal ed 0 : Int))
        else none
    match ex with
    | none => none
    | some e => some ((if neg then -mant else mant) * pow10 (scale + e))

/-- exact value of a finite float64 -/
def ratOfFloat (x : Float) : Option Rat :=
  if x.isNaN || x.isInf then none
  else
    let b := x.toBits.toNat
    let neg := b / 2 ^ 63 == 1
    let ex : Nat := (b / 2 ^ 52) % 2048
    let fr : Nat := b % 2 ^ 52
    let m : Nat := if ex == 0 then fr else fr + 2 ^ 52
    let e : Int := if ex == 0 then -1074 else Int.ofNat ex - 1075
    let v : Rat := (m : Rat) * (2 : Rat) ^ e
    some (if neg then -v else v)

/-- exact decimal the lexer model hands to the float conversion (meaningful when nothing was truncated) -/
def scanExact (sc : Scan) : Rat :=
  let v : Rat := (sc.n : Rat) * pow10 (sc.expExp - sc.mantExp)
  if sc.neg then -v else v

/-- `floor(log10 |x|)` for `x ≠ 0` (search from a bound; fuel covers the float64 range) -/
def decadeAux (a : Rat) : Nat → Int → Int
  | 0, k => k
  | fuel + 1, k => if pow10 k ≤ a then k else decadeAux a fuel (k - 1)

def decade (x : Rat) : Int := decadeAux (if x < 0 then -x else x) 700 310

def absR (x : Rat) : Rat := if x < 0 then -x else x

/-- tolerance of `num`: half a unit of the `prec`-th significant digit of `x` -/
def numBound (prec : Nat) (x : Rat) : Rat :=
  if x == 0 then 0 else pow10 (decade x - (prec : Int) + 1) / 2

/-- tolerance of `dec`: `%.{prec}f` (half a unit of the `prec`-th decimal) followed by a cut to `prec`
significant digits that only removes decimals (so at most half a unit of the last integer digit) -/
def decBound (prec : Nat) (x : Rat) : Rat :=
  let k := if x == 0 then 0 else decade x
  pow10 (-(prec : Int)) / 2 + pow10 ((if k < (prec : Int) - 1 then k else (prec : Int) - 1) - (prec : Int) + 1) / 2

/-- number of mantissa digits (everything that is a digit before an exponent marker) -/
def mantDigits : List Nat → Nat
  | [] => 0
  | c :: cs => if c == 101 || c == 69 then 0 else (if isDigit c then 1 else 0) + mantDigits cs

structure NumCheck where
  syntaxOK : Bool      -- the printed string is one SVG number
  lexAll : Bool        -- the lexer model consumes all of it
  lexSame : Bool       -- … and scans the same exact decimal
  precise : Bool       -- within the printer's tolerance of the float
deriving Repr, DecidableEq

def checkPrinted (bound : Rat → Rat) (x : Float) (s : List Nat) : NumCheck :=
  match ratOfFloat x, specNumber s with
  | some xr, some p =>
    let sc := scan s
    -- up to 19 mantissa digits fit the lexer's uint64 exactly; beyond that it drops digits (relative 1e-18)
    let same := if mantDigits s ≤ 19 then scanExact sc == p else decide (absR (scanExact sc - p) ≤ absR p * pow10 (-18))
    ⟨true, sc.len == s.length, same, decide (absR (p - xr) ≤ bound xr)⟩
  | _, none => ⟨false, false, false, false⟩
  | none, some _ => ⟨true, (scan s).len == s.length, false, false⟩

def NumCheck.ok (c : NumCheck) : Bool := c.syntaxOK && c.lexAll && c.lexSame && c.precise

/-- `dec` output goes into PDF / PostScript streams, not through the SVG lexer: it must be a plain
decimal (no exponent: PDF 32000-1 §7.3.3 has none) within the tolerance -/
def decOK (c : NumCheck) (s : List Nat) : Bool := c.syntaxOK && c.precise && !(s.any fun b => b == 101 || b == 69)

def decShow (c : NumCheck) (s : List Nat) : String :=
  if decOK c s then "ok"
  else "bad" ++ (if c.syntaxOK then "" else " syntax") ++ (if s.any fun b => b == 101 || b == 69 then " exponent" else "")
    ++ (if c.precise then "" else " imprecise")

def NumCheck.show (c : NumCheck) : String :=
  if c.ok then "ok"
  else "bad" ++ (if c.syntaxOK then "" else " syntax") ++ (if c.lexAll then "" else " lexer-stops-early")
    ++ (if c.lexSame then "" else " lexer-reads-other-decimal") ++ (if c.precise then "" else " imprecise")

end Canvas.C11
