import CanvasModel.Prelude
/-!
C01 (second wave) — the sweep comparators of /repo/path_intersection.go, transcribed line by line:
`SweepPoint.InterpolateY`, `LessH`, `CompareH`, `compareOverlapsV`, `compareTangentsV`, `compareV`,
`CompareV` (plus `Point.Interpolate` of /repo/util.go, inlined with its exact operation order).

The definitions are generic in the scalar through the small core-only class `Scalar` (only
`+ - * /`, a Bool-valued `<` and `==`, and the constant 1). The `Float` instance is the IEEE one
(`==`/`<` are false on NaN, as in Go), so the `Float` instantiation is bit-exact with the Go code
on every input, including Inf/NaN produced by a division by zero. The lemma file
`CanvasProofs/Lemmas/C01Cmp.lean` instantiates `Scalar` with an arbitrary linearly ordered field.

A `SweepPoint` is seen by the comparators only through: its own position (x,y), the position of
`other` (ox,oy), the flags `left`, `vertical`, `clipping` and the index `segment` (the last three
are equal on both endpoints of a segment, `other.left = !left`). The comparators never follow
`other.other`, and never call a method on `other`, so this flat record is all they read.
-/
namespace Canvas.C01Cmp

/-- the scalar operations the comparators use -/
class Scalar (K : Type) extends Add K, Sub K, Mul K, Div K where
  lt : K → K → Bool
  eq : K → K → Bool
  one : K

/-- IEEE double: Go's `<` and `==` on float64 -/
instance : Scalar Float where
  lt a b := decide (a < b)
  eq a b := a == b
  one := 1.0

/-- what the comparators read of a `*SweepPoint` -/
structure SP (K : Type) where
  x : K          -- s.X
  y : K          -- s.Y
  ox : K         -- s.other.X
  oy : K         -- s.other.Y
  left : Bool
  vertical : Bool
  clipping : Bool
  segment : Int

/-- `func (a *SweepPoint) compareOverlapsV(b *SweepPoint) int` -/
def compareOverlapsV {K : Type} (a b : SP K) : Int :=
  if a.clipping != b.clipping then
    if b.clipping then -1 else 1
  else if a.segment != b.segment then
    if a.segment < b.segment then -1 else 1
  else 0

section
variable {K : Type} [Scalar K]
open Scalar

/-- `func (s *SweepPoint) InterpolateY(x float64) float64`:
`t := (x - s.X) / (s.other.X - s.X); return s.Interpolate(s.other.Point, t).Y` with
`Interpolate(q,t) = Point{(1-t)*p.X + t*q.X, (1-t)*p.Y + t*q.Y}` -/
def interpolateY (s : SP K) (x : K) : K :=
  let t := (x - s.x) / (s.ox - s.x)
  (one - t) * s.y + t * s.oy

/-- `func (a *SweepPoint) compareTangentsV(b *SweepPoint) int` -/
def compareTangentsV (a b : SP K) : Int :=
  let sign : Int := if !a.left then -1 else 1
  if a.vertical then
    if b.vertical then
      if eq a.y b.y then sign * compareOverlapsV a b
      else if lt a.y b.y then -1
      else 1
    else 1
  else if b.vertical then -1
  else if eq a.ox b.ox && eq a.oy b.oy then sign * compareOverlapsV a b
  else if (a.left && lt a.ox b.ox) || (!a.left && lt b.ox a.ox) then
    let by_ := interpolateY b a.ox
    if eq a.oy by_ then sign * compareOverlapsV a b
    else if lt a.oy by_ then sign * -1
    else sign * 1
  else
    let ay := interpolateY a b.ox
    if eq ay b.oy then sign * compareOverlapsV a b
    else if lt ay b.oy then sign * -1
    else sign * 1

/-- `func (a *SweepPoint) LessH(b *SweepPoint) bool` -/
def lessH (a b : SP K) : Bool :=
  if !eq a.x b.x then lt a.x b.x
  else if !eq a.y b.y then lt a.y b.y
  else if a.left != b.left then b.left
  else if compareTangentsV a b < 0 then true
  else false

/-- `func (a *SweepPoint) CompareH(b *SweepPoint) int` -/
def compareH (a b : SP K) : Int :=
  if lt a.x b.x then -1
  else if lt b.x a.x then 1
  else if lt a.y b.y then -1
  else if lt b.y a.y then 1
  else if !a.left && b.left then -1
  else if a.left && !b.left then 1
  else compareTangentsV a b

/-- `func (a *SweepPoint) compareV(b *SweepPoint) int` -/
def compareV (a b : SP K) : Int :=
  let by_ := interpolateY b a.x
  if eq a.y by_ then compareTangentsV a b
  else if lt a.y by_ then -1
  else 1

/-- `func (a *SweepPoint) CompareV(b *SweepPoint) int` -/
def CompareV (a b : SP K) : Int :=
  if eq a.x b.x then
    if eq a.y b.y then compareTangentsV a b
    else if lt a.y b.y then -1
    else 1
  else if lt a.x b.x then -(compareV b a)
  else compareV a b

end

/-! line protocol -/

def b01 (s : String) : Option Bool :=
  if s == "1" then some true else if s == "0" then some false else none

def parseSP : List String → Option (SP Float × List String)
  | x :: y :: ox :: oy :: l :: v :: c :: sg :: rest => do
    let x ← floatOfHex? x
    let y ← floatOfHex? y
    let ox ← floatOfHex? ox
    let oy ← floatOfHex? oy
    let l ← b01 l
    let v ← b01 v
    let c ← b01 c
    let sg ← sg.toInt?
    pure ({ x, y, ox, oy, left := l, vertical := v, clipping := c, segment := sg }, rest)
  | _ => none

def bstr (b : Bool) : String := if b then "1" else "0"

/-- `CMP ax ay aox aoy aleft avert aclip aseg bx by box boy bleft bvert bclip bseg` →
`lessH(a,b) lessH(b,a) compareH(a,b) compareH(b,a) overlapsV(a,b) tangentsV(a,b) tangentsV(b,a)
compareV(a,b) compareV(b,a) CompareV(a,b) CompareV(b,a)`;
`IPY x y ox oy X` → `interpolateY` (16 hex digits) -/
def handle : List String → Option String
  | "CMP" :: rest => do
    let (a, rest) ← parseSP rest
    let (b, rest) ← parseSP rest
    if !rest.isEmpty then none
    let ints : List Int :=
      [compareH a b, compareH b a, compareOverlapsV a b, compareTangentsV a b, compareTangentsV b a,
       compareV a b, compareV b a, CompareV a b, CompareV b a]
    pure (String.intercalate " " ([bstr (lessH a b), bstr (lessH b a)] ++ ints.map toString))
  | ["IPY", x, y, ox, oy, xx] => do
    let x ← floatOfHex? x
    let y ← floatOfHex? y
    let ox ← floatOfHex? ox
    let oy ← floatOfHex? oy
    let xx ← floatOfHex? xx
    let s : SP Float := { x, y, ox, oy, left := true, vertical := false, clipping := false, segment := 0 }
    pure (hexOfFloat (interpolateY s xx))
  | _ => none

end Canvas.C01Cmp
