import CanvasModel.Path
/-!
# C10 — derivers of `canvas.Path` in the well-formedness model

`Split`, `Reverse`, the coordinate map behind `Transform`/`Translate`/`Scale`, and `replace`, the splice
driver behind `Flatten` / `ReplaceArcs` / `XMonotone` (path.go). Same conventions as
`CanvasModel/Path.lean`: a path is its command list newest first, every geometric question is a field
of the oracle `Geo`. Core Lean only.
-/
namespace Canvas.Path
variable {α : Type} (G : Geo α)

def headIsMove : RPath α → Bool
  | .move _ :: _ => true
  | _ => false

def countMoves : RPath α → Nat
  | [] => 0
  | c :: cs => (if c.isMove then 1 else 0) + countMoves cs

/-! ## Split (path.go `Path.Split`) -/

/-- the maximal runs "MoveTo, then everything up to the next MoveTo", newest run first; each run is
newest first itself -/
def splitRuns : RPath α → List (RPath α)
  | [] => []
  | c :: rest =>
    match splitRuns rest with
    | [] => [[c]]
    | p :: ps => if c.isMove then [c] :: p :: ps else (c :: p) :: ps

/-- `Path.Split()`: the runs in array order; a last run of at most four values (a lone trailing MoveTo)
is not returned (`if i+cmdLen(MoveToCmd) < j`) -/
def split (cs : RPath α) : List (RPath α) :=
  match splitRuns cs with
  | [] => []
  | p :: ps => (if isEmpty p then ps else p :: ps).reverse

/-! ## Reverse (path.go `Path.Reverse`) -/

/-- the backward loop of Reverse: `out` is the path built so far (newest first), `closed` the pending
Close of the subpath being read, `first` the first point of the subpath being written, `start` the
end point of the record read last -/
def revGo (closed : Bool) (first start : Pt α) (out : RPath α) : RPath α → RPath α
  | [] => if closed then .close first :: out else out
  | c :: rest =>
    let e := pos G rest
    match c with
    | .move _ =>
      let out1 := if closed then .close first :: out else out
      if rest.isEmpty then revGo false first e out1 rest
      else revGo false e e (.move e :: out1) rest
    | .close _ => revGo true first e (if G.ptEq start e then out else .line e :: out) rest
    | .line _ =>
      if closed && (rest.isEmpty || headIsMove rest) then revGo false first e (.close first :: out) rest
      else revGo closed first e (.line e :: out) rest
    | .quad cp _ => revGo closed first e (.quad cp e :: out) rest
    | .cube c1 c2 _ => revGo closed first e (.cube c2 c1 e :: out) rest
    | .arc rx ry phi l s _ => revGo closed first e (.arc rx ry phi l (!s) e :: out) rest

/-- `Path.Reverse()` -/
def reverse (cs : RPath α) : RPath α :=
  match cs with
  | [] => []
  | c :: _ => revGo G false c.endp c.endp [.move c.endp] cs

/-! ## Transform: the structure-preserving coordinate map -/

/-- what `Transform` does to the records when the matrix keeps arcs arcs: every point through `f`, arc
parameters through `g` (radii, rotation, flags) -/
def mapCmd (f : Pt α → Pt α) (g : α × α × α × Bool × Bool → α × α × α × Bool × Bool) : Cmd α → Cmd α
  | .move p => .move (f p)
  | .line p => .line (f p)
  | .quad cp p => .quad (f cp) (f p)
  | .cube c1 c2 p => .cube (f c1) (f c2) (f p)
  | .arc rx ry phi l s p =>
    let r := g (rx, ry, phi, l, s)
    .arc r.1 r.2.1 r.2.2.1 r.2.2.2.1 r.2.2.2.2 (f p)
  | .close p => .close (f p)

/-! ## replace (path.go `Path.replace`): the splice driver of Flatten / ReplaceArcs / XMonotone -/

/-- One pass of the loop. `acc` is the array prefix `p.d[:i]` (newest first), `todo` the records from
`i` on in array order, `rep j start c` the replacement the callbacks return for record `c` reached with
the pen at `start` when `j` records have been replaced before (`none`: the record stays; the callbacks of
the Go code are closures and may be stateful, the counter makes that explicit). A replaced record is
spliced exactly as the Go code does: `head.Join(q)`, `LineTo(end)` unless it is a Close,
`Join(MoveTo(end) + rest)`, and the scan continues behind the records present before that last Join.
`fuel` bounds the number of passes. -/
def replaceGo (rep : Nat → Pt α → Cmd α → Option (RPath α)) : Nat → Nat → RPath α → List (Cmd α) → RPath α
  | 0, _, acc, todo => todo.reverse ++ acc
  | _, _, acc, [] => acc
  | n + 1, j, acc, c :: rest =>
    if c.isMove then replaceGo rep n j (c :: acc) rest
    else
      match rep j (pos G acc) c with
      | none => replaceGo rep n j (c :: acc) rest
      | some q =>
        let e := c.endp
        let p1 := join G acc q
        let p2 := if c.isClose then p1 else lineTo G e p1
        let p3 := join G p2 (rest.reverse ++ [.move e])
        -- continue behind the first `p2.length` records of the result
        let k := p2.length
        if p3.length < k then replaceGo rep n (j + 1) p3 []
        else replaceGo rep n (j + 1) (p3.drop (p3.length - k)) (p3.take (p3.length - k)).reverse

/-- `p.replace(line, quad, cube, arc)` with the callbacks collected in `rep` -/
def replace (rep : Nat → Pt α → Cmd α → Option (RPath α)) (cs : RPath α) : RPath α :=
  replaceGo G rep (2 * cs.length + 2) 0 [] cs.reverse

/-! ## Verdict on a raw data array -/

/-- Is the array the encoding of a well-formed path? Forward decoding (framing, record lengths, arc
flags) followed by the subpath automaton. Executable for every scalar type with decidable equality
(the driver runs it on IEEE bit patterns). -/
def wfArray [DecidableEq α] (C : Codes α) (near : Pt α → Pt α → Bool) (d : List α) : Bool :=
  match decode C d with
  | some recs => (endState near false recs.reverse).isSome
  | none => false

end Canvas.Path
