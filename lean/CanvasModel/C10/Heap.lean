/-!
# C10 — an explicit heap model of Go slices (purity / aliasing)

`[]float64` values are triples (base, len, cap) over a heap of cells; `append`, the full slice
expression `s[i:j:k]` and `make`+`copy` follow the Go specification ("Appending to and copying
slices", "Full slice expressions"). The purity claims of the property ("methods returning a new path
leave receiver and arguments unchanged") are statements about which cells an operation writes.
Core Lean only.
-/
namespace Canvas.Heap

structure Heap (α : Type) where
  cells : Nat → α
  /-- first address never handed out -/
  next : Nat

structure Slice where
  base : Nat
  len : Nat
  cap : Nat
deriving Repr, DecidableEq

variable {α : Type}

/-- the values a slice shows -/
def read (h : Heap α) (s : Slice) : List α := (List.range s.len).map fun i => h.cells (s.base + i)

/-- `s[i:j:k]` -/
def Slice.sub3 (s : Slice) (i j k : Nat) : Slice := ⟨s.base + i, j - i, k - i⟩

/-- `s[i:j]` (capacity reaches to the end of the parent's capacity) -/
def Slice.sub2 (s : Slice) (i j : Nat) : Slice := ⟨s.base + i, j - i, s.cap - i⟩

/-- store `vs` at consecutive addresses from `a` -/
def store (cells : Nat → α) (a : Nat) (vs : List α) : Nat → α :=
  fun x => if h : a ≤ x ∧ x < a + vs.length then vs[x - a]'(by omega) else cells x

/-- `append(s, vs...)`: in place when the capacity suffices, otherwise into a fresh block (the growth
factor does not matter for the claims: any capacity ≥ the new length) -/
def appendGo (h : Heap α) (s : Slice) (vs : List α) : Heap α × Slice :=
  if s.len + vs.length ≤ s.cap then
    ({ h with cells := store h.cells (s.base + s.len) vs }, { s with len := s.len + vs.length })
  else
    let n := s.len + vs.length
    ({ cells := store (store h.cells h.next (read h s)) (h.next + s.len) vs, next := h.next + 2 * n },
      ⟨h.next, n, 2 * n⟩)

/-- `q := make([]float64, len(s)); copy(q, s)` (Path.Copy) -/
def copyGo (h : Heap α) (s : Slice) : Heap α × Slice :=
  ({ cells := store h.cells h.next (read h s), next := h.next + s.len }, ⟨h.next, s.len, s.len⟩)

/-- the slice lies inside the allocated part of the heap -/
def Slice.Allocated (h : Heap α) (s : Slice) : Prop := s.base + s.cap ≤ h.next ∧ s.len ≤ s.cap

end Canvas.Heap
