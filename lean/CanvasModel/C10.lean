import CanvasModel.Path
import CanvasModel.C10.Derive
import CanvasGen.CoreF
/-!
# C10 — executable `Float` instance of the path-builder model and its line protocol

`floatGeo` plugs the real formulas of util.go / path_util.go / path.go into the oracle structure of
`Canvas.Path`.  `Equal`, `Point.Sub`, `Point.Dot`, `Point.PerpDot` are the *generated* translations
(`GenF`, regenerated from the source on every check); the transcendental ones are written by hand.
-/
namespace Canvas.C10
open Canvas Canvas.Path

def twoPi : Float := 2.0 * goPi

/-- math.Mod (sign of x, |result| < |y|). Exact when |x| < |y|; otherwise within an ulp or two. -/
def goMod (x y : Float) : Float :=
  if x.isNaN || y.isNaN || x.isInf || y == 0 then (0.0 / 0.0)
  else if y.isInf then x
  else
    let ay := y.abs
    if x.abs < ay then x
    else
      let q := (x / ay)
      let qt := if q < 0 then q.ceil else q.floor
      let r := x - qt * ay
      -- keep the result on the side of x and inside (-|y|, |y|)
      if x ≥ 0 then (if r < 0 then r + ay else if r ≥ ay then r - ay else r)
      else (if r > 0 then r - ay else if r ≤ -ay then r + ay else r)

/-- util.go:68 -/
def angleNorm (theta : Float) : Float :=
  let t := goMod theta twoPi
  if t < 0.0 then t + twoPi else t

/-- util.go:100 -/
def angleBetween (theta lower upper : Float) : Bool :=
  let (lower, upper) := if upper < lower then (upper, lower) else (lower, upper)
  let theta := angleNorm (theta - lower + GenF.Epsilon)
  let upper := angleNorm (upper - lower + 2.0 * GenF.Epsilon)
  theta ≤ upper

/-- util.go:63 -/
def angleEqual (a b : Float) : Bool := angleBetween a b b

/-- util.go:331 -/
def ptAngleBetween (p q : Pt Float) : Float :=
  Float.atan2 (GenF.Point.PerpDot p q) (GenF.Point.Dot p q)

def signbit (x : Float) : Bool := x.toBits >>> 63 == 1

/-- path_util.go:140 -/
def ellipseRadiiCorrection (start : Pt Float) (rx ry phi : Float) (e : Pt Float) : Float :=
  let diff := GenF.Point.Sub start e
  let sinphi := Float.sin phi
  let cosphi := Float.cos phi
  let x1p := (cosphi * diff.x + sinphi * diff.y) / 2.0
  let y1p := (-sinphi * diff.x + cosphi * diff.y) / 2.0
  Float.sqrt (x1p * x1p / rx / rx + y1p * y1p / ry / ry)

/-- path_util.go:8 -/
def ellipsePos (rx ry phi cx cy theta : Float) : Pt Float :=
  let sintheta := Float.sin theta
  let costheta := Float.cos theta
  let sinphi := Float.sin phi
  let cosphi := Float.cos phi
  ⟨cx + rx * costheta * cosphi - ry * sintheta * sinphi, cy + rx * costheta * sinphi + ry * sintheta * cosphi⟩

/-- float64(π/180) as the Go compiler folds the constant `math.Pi / 180.0` -/
def degToRad : Float := Float.ofBits 0x3f91df46a2529d39

/-- path.go:520-540 -/
def arcPlan (rx ry rot theta0 theta1 : Float) (start : Pt Float) : ArcPlan Float :=
  let phi := rot * goPi / 180.0
  let theta0 := theta0 * degToRad
  let theta1 := theta1 * degToRad
  let dtheta := (theta1 - theta0).abs
  let p0 := ellipsePos rx ry phi 0.0 0.0 theta0
  let p1 := ellipsePos rx ry phi 0.0 0.0 theta1
  let center := GenF.Point.Sub start p0
  { large := goMod dtheta twoPi > goPi
    sweep := theta0 < theta1
    full := dtheta ≥ twoPi
    exact := GenF.Equal (goMod dtheta twoPi) 0.0
    opposite := GenF.Point.Sub center p0
    endp := GenF.Point.Add center p1 }

def floatGeo : Geo Float where
  zero := 0.0
  eq := GenF.Equal
  isInf := Float.isInf
  abs := Float.abs
  lt a b := a < b
  mul a b := a * b
  sub := GenF.Point.Sub
  parallel da db :=
    let div := GenF.Point.PerpDot da db
    let length := goHypot da.x da.y * goHypot db.x db.y
    GenF.Equal (div / length) 0.0
  sameDir da db :=
    if da.y.abs < da.x.abs then signbit da.x == signbit db.x else signbit da.y == signbit db.y
  angleEq0 p q := angleEqual (ptAngleBetween p q) 0.0
  angleIs0 p q := GenF.Equal (ptAngleBetween p q) 0.0
  rotPlus90 r := r + 90.0
  phiOf rot :=
    let phi := angleNorm (rot * goPi / 180.0)
    if goPi ≤ phi then phi - goPi else phi
  lambda := ellipseRadiiCorrection
  gtOne l := l > 1.0
  radToDeg phi := phi * 180.0 / goPi
  arcPlan := arcPlan

def floatCodes : Codes Float where
  move := 1.0
  line := 2.0
  quad := 4.0
  cube := 8.0
  arc := 16.0
  close := 32.0
  flag l s := (if l then 1.0 else 0.0) + (if s then 2.0 else 0.0)

/-! ## Line protocol
`C10 seg | seg | …` — every segment builds one path; the answer is the data array of the last one.
A segment starts with `E` (empty path), `R i` (copy of result i), `J i j` (`result i`.Join(`result j`))
or `P i j` (Append) and continues with primitive calls:
`M x y`, `L x y`, `Q cx cy x y`, `C c1x c1y c2x c2y x y`, `A rx ry rot large sweep x y`,
`R rx ry rot th0 th1` is written `B …` (Path.Arc), `Z` (Close), `O` (optimizeClose). -/

def pt? (x y : String) : Option (Pt Float) := do
  let a ← floatOfHex? x
  let b ← floatOfHex? y
  pure ⟨a, b⟩

def bool? : String → Option Bool
  | "0" => some false
  | "1" => some true
  | _ => none

/-- parse the primitive calls of one segment onto `b` -/
def parseOps (b : Build Float) : Nat → List String → Option (Build Float)
  | _, [] => some b
  | 0, _ => none
  | n + 1, "M" :: x :: y :: t => do parseOps (.op b (.moveTo (← pt? x y))) n t
  | n + 1, "L" :: x :: y :: t => do parseOps (.op b (.lineTo (← pt? x y))) n t
  | n + 1, "Q" :: a :: b' :: x :: y :: t => do parseOps (.op b (.quadTo (← pt? a b') (← pt? x y))) n t
  | n + 1, "C" :: a :: b' :: c :: d :: x :: y :: t => do
    parseOps (.op b (.cubeTo (← pt? a b') (← pt? c d) (← pt? x y))) n t
  | n + 1, "A" :: rx :: ry :: rot :: l :: s :: x :: y :: t => do
    parseOps (.op b (.arcTo (← floatOfHex? rx) (← floatOfHex? ry) (← floatOfHex? rot) (← bool? l) (← bool? s) (← pt? x y))) n t
  | n + 1, "B" :: rx :: ry :: rot :: t0 :: t1 :: t => do
    parseOps (.op b (.arc (← floatOfHex? rx) (← floatOfHex? ry) (← floatOfHex? rot) (← floatOfHex? t0) (← floatOfHex? t1))) n t
  | n + 1, "Z" :: t => parseOps (.op b .close) n t
  | n + 1, "O" :: t => parseOps (.op b .optimizeClose) n t
  | _, _ => none

def parseSeg (res : Array (Build Float)) (toks : List String) : Option (Build Float) :=
  match toks with
  | "E" :: t => parseOps .empty t.length t
  | "R" :: i :: t => do parseOps (← res[(← i.toNat?)]?) t.length t
  | "J" :: i :: j :: t => do parseOps (.join (← res[(← i.toNat?)]?) (← res[(← j.toNat?)]?)) t.length t
  | "P" :: i :: j :: t => do parseOps (.append (← res[(← i.toNat?)]?) (← res[(← j.toNat?)]?)) t.length t
  | _ => none

/-- split the token list at `|` -/
def splitSegs : List String → List (List String)
  | [] => [[]]
  | t :: ts =>
    match splitSegs ts with
    | [] => [[t]]
    | s :: ss => if t == "|" then [] :: s :: ss else (t :: s) :: ss

def parseLine (toks : List String) : Option (Build Float) := do
  let mut res : Array (Build Float) := #[]
  for seg in splitSegs toks do
    res := res.push (← parseSeg res seg)
  res.back?

def showData (d : List Float) : String := " ".intercalate (d.map hexOfFloat)

/-! ### derivers: Reverse, Split, replace on the result of a history; verdict on raw arrays -/

/-- decode a Float data array (driver side only; the proofs use the generic `decode`) -/
def decodeF : Nat → List Float → Option (List (Cmd Float))
  | _, [] => some []
  | 0, _ => none
  | n + 1, k :: t =>
    if k == 1.0 then match t with
      | x :: y :: _ :: t' => (decodeF n t').map (Cmd.move ⟨x, y⟩ :: ·)
      | _ => none
    else if k == 2.0 then match t with
      | x :: y :: _ :: t' => (decodeF n t').map (Cmd.line ⟨x, y⟩ :: ·)
      | _ => none
    else if k == 32.0 then match t with
      | x :: y :: _ :: t' => (decodeF n t').map (Cmd.close ⟨x, y⟩ :: ·)
      | _ => none
    else if k == 4.0 then match t with
      | a :: b :: x :: y :: _ :: t' => (decodeF n t').map (Cmd.quad ⟨a, b⟩ ⟨x, y⟩ :: ·)
      | _ => none
    else if k == 8.0 then match t with
      | a :: b :: c :: d :: x :: y :: _ :: t' => (decodeF n t').map (Cmd.cube ⟨a, b⟩ ⟨c, d⟩ ⟨x, y⟩ :: ·)
      | _ => none
    else if k == 16.0 then match t with
      | rx :: ry :: phi :: f :: x :: y :: _ :: t' =>
        (decodeF n t').map (Cmd.arc rx ry phi (f == 1.0 || f == 3.0) (f == 2.0 || f == 3.0) ⟨x, y⟩ :: ·)
      | _ => none
    else none

def floats? (toks : List String) : Option (List Float) := toks.mapM floatOfHex?

/-- split a token list at a separator token -/
def splitAt (sep : String) : List String → List (List String)
  | [] => [[]]
  | t :: ts =>
    match splitAt sep ts with
    | [] => [[t]]
    | s :: ss => if t == sep then [] :: s :: ss else (t :: s) :: ss

def keyOf (start : Pt Float) (c : Cmd Float) : List Float :=
  start.x :: start.y :: encodeCmd floatCodes c

/-- keys are compared with the tolerance of `~` lines (the record may contain values computed through
sin/cos, which differ in the last place between Go and libm) -/
def keyClose : List Float → List Float → Bool
  | [], [] => true
  | a :: as, b :: bs => ((a == b) || (a - b).abs ≤ 1e-9 + 1e-9 * (max a.abs b.abs)) && keyClose as bs
  | _, _ => false

/-- `# start record : replacement` entries of an RP line -/
def keyDist : List Float → List Float → Float
  | a :: as, b :: bs => max (a - b).abs (keyDist as bs)
  | _, _ => 0.0

def parseReps : List (List String) → Option (List (List Float × RPath Float))
  | [] => some []
  | e :: es => do
    match splitAt ":" e with
    | [k, v] =>
      let kf ← floats? k
      let vf ← floats? v
      let q ← decodeF vf.length vf
      let rest ← parseReps es
      pure ((kf, q.reverse) :: rest)
    | _ => none

/-- IEEE bit patterns of the command and flag values -/
def bitsCodes : Codes UInt64 where
  move := 0x3FF0000000000000
  line := 0x4000000000000000
  quad := 0x4010000000000000
  cube := 0x4020000000000000
  arc := 0x4030000000000000
  close := 0x4040000000000000
  flag l s := match l, s with
    | false, false => 0
    | true, false => 0x3FF0000000000000
    | false, true => 0x4000000000000000
    | true, true => 0x4008000000000000

/-- `Point.Equals` on bit patterns -/
def nearBits (a b : Pt UInt64) : Bool :=
  GenF.Equal (Float.ofBits a.x) (Float.ofBits b.x) && GenF.Equal (Float.ofBits a.y) (Float.ofBits b.y)

def bits? (toks : List String) : Option (List UInt64) := toks.mapM fun t => (parseHexNat? t).map UInt64.ofNat

def handle : List String → Option String
  | "C10" :: toks => do
    let b ← parseLine toks
    pure (showData (encode floatCodes (b.eval floatGeo)))
  | "RV" :: toks => do
    let b ← parseLine toks
    pure (showData (encode floatCodes (reverse floatGeo (b.eval floatGeo))))
  | "SP" :: toks => do
    let b ← parseLine toks
    pure (" | ".intercalate ((split (b.eval floatGeo)).map fun p => showData (encode floatCodes p)))
  | "RP" :: toks => do
    match splitAt "#" toks with
    | h :: es =>
      let b ← parseLine h
      let reps ← parseReps es
      -- the j-th recorded replacement, provided its key (pen position and record) agrees within the
      -- tolerance of `~` lines; otherwise the record stays
      let rep := fun (j : Nat) (start : Pt Float) (c : Cmd Float) =>
        match reps[j]? with
        | some kv => if keyClose kv.1 (keyOf start c) then some kv.2 else none
        | none => none
      pure (showData (encode floatCodes (replace floatGeo rep (b.eval floatGeo))))
    | [] => none
  | "W" :: toks => do
    let d ← bits? toks
    pure (if wfArray bitsCodes nearBits d then "ok" else "FAIL ill-framed")
  | _ => none

end Canvas.C10
