import CanvasModel.Prelude
/-!
# Reusable model of `canvas.Path` (path.go)

A path is a list of structured commands kept **newest first** (head = last command of the Go data
array), so that every builder call is an operation on the head exactly as the Go code works on the
tail of `p.d`.  `encode` produces the real data array (`cmd, args…, cmd`).  The model is generic in
the scalar type `α`.

Every geometric question the builder asks (`Equal`, collinearity through `AngleBetween`, radius
correction, angle normalisation, …) is a field of the oracle structure `Geo α`.  The correspondence
driver instantiates it with the `Float` formulas of util.go / path_util.go; the theorems leave it
arbitrary, so they hold whatever these predicates answer.

Core Lean only (linked into the model drivers).  Used by C10 (builder), C09 (Reverse/Split), C11
(printers).
-/
namespace Canvas.Path

/-- One path command with its arguments (path.go:66-73). -/
inductive Cmd (α : Type) where
  | move (p : Pt α)
  | line (p : Pt α)
  | quad (cp p : Pt α)
  | cube (cp1 cp2 p : Pt α)
  | arc (rx ry phi : α) (large sweep : Bool) (p : Pt α)
  | close (p : Pt α)
deriving Repr, BEq, DecidableEq

variable {α : Type}

namespace Cmd
/-- end point of a command: the last two coordinates of its record (`d[i-3], d[i-2]`). -/
def endp : Cmd α → Pt α
  | move p => p
  | line p => p
  | quad _ p => p
  | cube _ _ p => p
  | arc _ _ _ _ _ p => p
  | close p => p

/-- `d[i+1], d[i+2]` of the record. -/
def arg12 : Cmd α → Pt α
  | move p => p
  | line p => p
  | quad cp _ => cp
  | cube cp1 _ _ => cp1
  | arc rx ry _ _ _ _ => ⟨rx, ry⟩
  | close p => p

def isMove : Cmd α → Bool
  | move _ => true
  | _ => false

def isClose : Cmd α → Bool
  | close _ => true
  | _ => false

/-- LineTo, QuadTo, CubeTo, ArcTo -/
def isDraw : Cmd α → Bool
  | move _ => false
  | close _ => false
  | _ => true

/-- number of float64 values of the record (`cmdLens`, path.go:75) -/
def len : Cmd α → Nat
  | move _ => 4
  | line _ => 4
  | quad _ _ => 6
  | cube _ _ _ => 8
  | arc _ _ _ _ _ _ => 8
  | close _ => 4
end Cmd

/-- A path, newest command first. -/
abbrev RPath (α : Type) := List (Cmd α)

/-! ## Encoding into the data array -/

/-- The command values and arc flag values as scalars (1,2,4,8,16,32 and 0..3 for `Float`). -/
structure Codes (α : Type) where
  move : α
  line : α
  quad : α
  cube : α
  arc : α
  close : α
  flag : Bool → Bool → α

def encodeCmd (C : Codes α) : Cmd α → List α
  | .move p => [C.move, p.x, p.y, C.move]
  | .line p => [C.line, p.x, p.y, C.line]
  | .quad cp p => [C.quad, cp.x, cp.y, p.x, p.y, C.quad]
  | .cube c1 c2 p => [C.cube, c1.x, c1.y, c2.x, c2.y, p.x, p.y, C.cube]
  | .arc rx ry phi l s p => [C.arc, rx, ry, phi, C.flag l s, p.x, p.y, C.arc]
  | .close p => [C.close, p.x, p.y, C.close]

/-- `Path.Data()` of the model state. -/
def encode (C : Codes α) : RPath α → List α
  | [] => []
  | c :: cs => encode C cs ++ encodeCmd C c

/-! ## Oracle: everything geometric / arithmetic the builder consults -/

/-- Result of the angle bookkeeping at the start of `Path.Arc` (path.go:519-542). -/
structure ArcPlan (α : Type) where
  large : Bool
  sweep : Bool
  /-- `dtheta >= 2π`: one full ellipse is drawn first -/
  full : Bool
  /-- `Equal(Mod(dtheta, 2π), 0)`: nothing remains after the full ellipse -/
  exact : Bool
  opposite : Pt α
  endp : Pt α

structure Geo (α : Type) where
  /-- the literal `0.0` (implicit `MoveTo(0,0)`, `Pos()` of the empty path, `rot = 0.0`) -/
  zero : α
  /-- `Equal(a, b)` (util.go:23) -/
  eq : α → α → Bool
  isInf : α → Bool
  abs : α → α
  lt : α → α → Bool
  mul : α → α → α
  sub : Pt α → Pt α → Pt α
  /-- LineTo: `Equal(da.PerpDot(db) / (|da| |db|), 0)` -/
  parallel : Pt α → Pt α → Bool
  /-- LineTo: the sign-bit test deciding that `db` extends `da` -/
  sameDir : Pt α → Pt α → Bool
  /-- `angleEqual(p.AngleBetween(q), 0.0)` (QuadTo, CubeTo) -/
  angleEq0 : Pt α → Pt α → Bool
  /-- `Equal(p.AngleBetween(q), 0.0)` (Close, optimizeClose) -/
  angleIs0 : Pt α → Pt α → Bool
  /-- `rot + 90.0` -/
  rotPlus90 : α → α
  /-- `angleNorm(rot*π/180)`, minus π when `π <= phi` -/
  phiOf : α → α
  /-- `ellipseRadiiCorrection(start, rx, ry, phi, end)` -/
  lambda : Pt α → α → α → α → Pt α → α
  /-- `lambda > 1.0` -/
  gtOne : α → Bool
  /-- `phi*180/π` (Join re-issues an ArcTo in degrees) -/
  radToDeg : α → α
  /-- angle bookkeeping of `Path.Arc` for the given arguments and pen position -/
  arcPlan : (rx ry rot theta0 theta1 : α) → (start : Pt α) → ArcPlan α

variable (G : Geo α)

/-- `Point.Equals` -/
def Geo.ptEq (p q : Pt α) : Bool := G.eq p.x q.x && G.eq p.y q.y

def Geo.origin : Pt α := ⟨G.zero, G.zero⟩

/-! ## Queries -/

/-- `Path.Pos()` -/
def pos : RPath α → Pt α
  | [] => G.origin
  | c :: _ => c.endp

/-- `Path.StartPos()`: coordinates of the most recent MoveTo -/
def startPos : RPath α → Pt α
  | [] => G.origin
  | .move p :: _ => p
  | _ :: cs => startPos cs

/-- `Path.Empty()`: `len(p.d) <= 4` -/
def isEmpty : RPath α → Bool
  | [] => true
  | [c] => c.len ≤ 4
  | _ => false

/-! ## Builder -/

/-- `Path.MoveTo` (path.go:385) -/
def moveTo (p : Pt α) : RPath α → RPath α
  | .move _ :: cs => .move p :: cs
  | cs => .move p :: cs

/-- the implicit MoveTo every drawing command performs on an empty or closed path -/
def prep : RPath α → RPath α
  | [] => [.move G.origin]
  | .close c :: cs => .move c :: .close c :: cs
  | cs => cs

/-- `Path.LineTo` (path.go:395) -/
def lineTo (p : Pt α) (cs : RPath α) : RPath α :=
  if G.ptEq (pos G cs) p then cs else
  match cs with
  | .line s :: rest =>
    let da := G.sub s (pos G rest)
    let db := G.sub p s
    if G.parallel da db && G.sameDir da db then .line p :: rest else .line p :: cs
  | _ => .line p :: prep G cs

/-- `Path.QuadTo` (path.go:437) -/
def quadTo (cp p : Pt α) (cs : RPath α) : RPath α :=
  let start := pos G cs
  if G.ptEq start p && G.ptEq start cp then cs
  else if !G.ptEq start p
      && (G.ptEq start cp || G.angleEq0 (G.sub p start) (G.sub cp start))
      && (G.ptEq p cp || G.angleEq0 (G.sub p start) (G.sub p cp)) then lineTo G p cs
  else .quad cp p :: prep G cs

/-- `Path.CubeTo` (path.go:457) -/
def cubeTo (cp1 cp2 p : Pt α) (cs : RPath α) : RPath α :=
  let start := pos G cs
  if G.ptEq start p && G.ptEq start cp1 && G.ptEq start cp2 then cs
  else if !G.ptEq start p
      && (G.ptEq start cp1 || G.ptEq p cp1
          || G.angleEq0 (G.sub p start) (G.sub cp1 start) && G.angleEq0 (G.sub p start) (G.sub p cp1))
      && (G.ptEq start cp2 || G.ptEq p cp2
          || G.angleEq0 (G.sub p start) (G.sub cp2 start) && G.angleEq0 (G.sub p start) (G.sub p cp2))
    then lineTo G p cs
  else .cube cp1 cp2 p :: prep G cs

/-- radii/rotation normalisation of `ArcTo` (path.go:489-508): returns (rx, ry, phi) -/
def arcCanon (start : Pt α) (rx ry rot : α) (p : Pt α) : α × α × α :=
  let rx := G.abs rx
  let ry := G.abs ry
  let t : α × α × α :=
    if G.eq rx ry then (rx, ry, G.zero)
    else if G.lt rx ry then (ry, rx, G.rotPlus90 rot)
    else (rx, ry, rot)
  let phi := G.phiOf t.2.2
  let lam := G.lambda start t.1 t.2.1 phi p
  if G.gtOne lam then (G.mul t.1 lam, G.mul t.2.1 lam, phi) else (t.1, t.2.1, phi)

/-- `Path.ArcTo` (path.go:478) -/
def arcTo (rx ry rot : α) (large sweep : Bool) (p : Pt α) (cs : RPath α) : RPath α :=
  let start := pos G cs
  if G.ptEq start p then cs
  else if G.eq rx G.zero || G.isInf rx || G.eq ry G.zero || G.isInf ry then lineTo G p cs
  else
    let r := arcCanon G start rx ry rot p
    .arc r.1 r.2.1 r.2.2 large sweep p :: prep G cs

/-- `Path.Arc` (path.go:519) -/
def arcBy (rx ry rot theta0 theta1 : α) (cs : RPath α) : RPath α :=
  let start := pos G cs
  let pl := G.arcPlan rx ry rot theta0 theta1 start
  if pl.full then
    let cs1 := arcTo G rx ry rot pl.large pl.sweep pl.opposite cs
    let cs2 := arcTo G rx ry rot pl.large pl.sweep start cs1
    if pl.exact then cs2 else arcTo G rx ry rot pl.large pl.sweep pl.endp cs2
  else arcTo G rx ry rot pl.large pl.sweep pl.endp cs

def headIsClose : RPath α → Bool
  | .close _ :: _ => true
  | _ => false

/-- `Path.Close` (path.go:549) -/
def close (cs : RPath α) : RPath α :=
  match cs with
  | [] => []
  | .close _ :: _ => cs
  | .move _ :: rest =>
    -- a subpath without segments: the MoveTo is removed only when the path is otherwise empty or the
    -- previous subpath is closed; otherwise Close is a no-op and the pen stays at the MoveTo
    if rest.isEmpty || headIsClose rest then rest else cs
  | .line s :: rest =>
    let e := startPos G cs
    if G.ptEq s e then .close s :: rest
    else if G.angleIs0 (G.sub e s) (G.sub s (pos G rest)) then .close e :: rest
    else .close e :: cs
  | _ => .close (startPos G cs) :: cs

/-- re-issue one stored command through the builder (the `switch` in Join, path.go:313-327) -/
def applyCmd (c : Cmd α) (cs : RPath α) : RPath α :=
  match c with
  | .move p => moveTo p cs
  | .line p => lineTo G p cs
  | .quad cp p => quadTo G cp p cs
  | .cube c1 c2 p => cubeTo G c1 c2 p cs
  | .arc rx ry phi l s p => arcTo G rx ry (G.radToDeg phi) l s p cs
  | .close _ => close G cs

/-- the close repair loop of Join (path.go:334-344); the argument is in FORWARD order -/
def repairClose (e : Pt α) : List (Cmd α) → List (Cmd α)
  | [] => []
  | .move a :: t => .move a :: t
  | .close _ :: t => .close e :: t
  | c :: t => c :: repairClose e t

/-- `p.Append(q)` (path.go:284) for one argument -/
def dropTrailingMove : RPath α → RPath α
  | .move _ :: rest => rest
  | cs => cs

/-- a non-empty `q` starts with its own MoveTo, which supersedes a trailing MoveTo of the receiver -/
def append (p q : RPath α) : RPath α :=
  let p0 := if isEmpty p then [] else p
  if isEmpty q then p0 else q ++ dropTrailingMove p0

/-- `p.Join(q)` (path.go:297).  Faithful when the first record of `q` has four values (it is a
MoveTo in every well-formed path). -/
def join (p q : RPath α) : RPath α :=
  if isEmpty q then p
  else if isEmpty p then q
  else
    match q.reverse with
    | m :: c1 :: restf =>
      if headIsClose p || !G.ptEq (pos G p) m.arg12 then q ++ p
      else
        let p' := applyCmd G c1 p
        (repairClose (startPos G p') restf).reverse ++ p'
    | _ => q ++ p

/-- the segment the trailing Close returns along, split off: `(newer part, subpath oldest-first)` -/
def lastSubpath : RPath α → List (Cmd α) → List (Cmd α) × RPath α
  | [], acc => (acc, [])
  | .move p :: rest, acc => (.move p :: acc, rest)
  | c :: rest, acc => lastSubpath rest (c :: acc)

/-- `Path.optimizeClose` (path.go:580): drop a first LineTo that the Close continues. -/
def optimizeClose (cs : RPath α) : RPath α :=
  match cs with
  | .close _ :: body =>
    match lastSubpath body [] with
    | (.move e :: .line n :: mid, older) =>
      -- at least one more command between the first LineTo and the Close
      match mid with
      | [] => cs
      | _ :: _ =>
        if G.angleIs0 (G.sub e (pos G body)) (G.sub n e) then
          .close n :: (mid.reverse ++ .move n :: older)
        else cs
    | _ => cs
  | _ => cs

/-! ## Well-formedness automaton -/

inductive St (α : Type) where
  | start
  | moved (s : Pt α)
  | opened (s : Pt α)
  | closed
deriving Repr, DecidableEq

/-- One command read in state `st`.  `near` is the tolerance relation under which a Close may carry
coordinates that differ from its subpath's MoveTo (`Close` keeps the LineTo end point it replaces).
With `strict` a MoveTo may not follow a MoveTo and a Close needs a drawn segment. -/
def step [DecidableEq α] (near : Pt α → Pt α → Bool) (strict : Bool) (st : St α) (c : Cmd α) : Option (St α) :=
  match c with
  | .move p =>
    match st with
    | .moved _ => if strict then none else some (.moved p)
    | _ => some (.moved p)
  | .close c =>
    match st with
    | .moved s => if strict then none else if c = s ∨ near c s = true then some .closed else none
    | .opened s => if c = s ∨ near c s = true then some .closed else none
    | _ => none
  | _ =>
    match st with
    | .moved s => some (.opened s)
    | .opened s => some (.opened s)
    | _ => none

/-- state after reading the whole path (oldest command first), `none` if ill-formed -/
def endState [DecidableEq α] (near : Pt α → Pt α → Bool) (strict : Bool) : RPath α → Option (St α)
  | [] => some .start
  | c :: cs => (endState near strict cs).bind fun st => step near strict st c

/-- Well-formed: decodes into subpaths `M (L|Q|C|A)* Z?`, every Close carrying its subpath's start
(exactly, or within `near`). -/
def WF [DecidableEq α] (near : Pt α → Pt α → Bool) (cs : RPath α) : Prop :=
  (endState near false cs).isSome = true

/-- Strictly well-formed: additionally no two consecutive MoveTos and no Close directly after a MoveTo. -/
def Strict [DecidableEq α] (near : Pt α → Pt α → Bool) (cs : RPath α) : Prop :=
  (endState near true cs).isSome = true

/-! ## Decoding the data array (both directions) -/

def decodeFlag [DecidableEq α] (C : Codes α) (f : α) : Option (Bool × Bool) :=
  if f = C.flag false false then some (false, false)
  else if f = C.flag true false then some (true, false)
  else if f = C.flag false true then some (false, true)
  else if f = C.flag true true then some (true, true)
  else none

/-- read one record from the front of the array -/
def takeRec [DecidableEq α] (C : Codes α) : List α → Option (Cmd α × List α)
  | k :: x :: y :: k' :: t =>
    if k = C.move then (if k' = k then some (.move ⟨x, y⟩, t) else none)
    else if k = C.line then (if k' = k then some (.line ⟨x, y⟩, t) else none)
    else if k = C.close then (if k' = k then some (.close ⟨x, y⟩, t) else none)
    else if k = C.quad then
      match t with
      | y2 :: k'' :: t' => if k'' = k then some (.quad ⟨x, y⟩ ⟨k', y2⟩, t') else none
      | _ => none
    else if k = C.cube then
      match t with
      | y2 :: x3 :: y3 :: k'' :: t' => if k'' = k then some (.cube ⟨x, y⟩ ⟨k', y2⟩ ⟨x3, y3⟩, t') else none
      | _ => none
    else if k = C.arc then
      match t with
      | f :: x3 :: y3 :: k'' :: t' =>
        if k'' = k then (decodeFlag C f).map fun ls => (.arc x y k' ls.1 ls.2 ⟨x3, y3⟩, t') else none
      | _ => none
    else none
  | _ => none

/-- forward scan `i += cmdLen(d[i])` with all checks explicit; `none` = malformed / out of range.
The fuel is the array length (every record consumes at least one value). -/
def decodeN [DecidableEq α] (C : Codes α) : Nat → List α → Option (List (Cmd α))
  | _, [] => some []
  | 0, _ :: _ => none
  | n + 1, d =>
    match takeRec C d with
    | some (c, t) => (decodeN C n t).map (c :: ·)
    | none => none

/-- forward decoding: records oldest first -/
def decode [DecidableEq α] (C : Codes α) (d : List α) : Option (List (Cmd α)) := decodeN C d.length d

/-- read one record from the END of the array; the argument is the array reversed, so the head is
`d[i-1]`, then `d[i-2]`, `d[i-3]`, … exactly the accesses of the backward scans in path.go. -/
def takeRecBwd [DecidableEq α] (C : Codes α) : List α → Option (Cmd α × List α)
  | k :: y :: x :: k' :: t =>
    if k = C.move then (if k' = k then some (.move ⟨x, y⟩, t) else none)
    else if k = C.line then (if k' = k then some (.line ⟨x, y⟩, t) else none)
    else if k = C.close then (if k' = k then some (.close ⟨x, y⟩, t) else none)
    else if k = C.quad then
      match t with
      | x1 :: k'' :: t' => if k'' = k then some (.quad ⟨x1, k'⟩ ⟨x, y⟩, t') else none
      | _ => none
    else if k = C.cube then
      match t with
      | x2 :: y1 :: x1 :: k'' :: t' => if k'' = k then some (.cube ⟨x1, y1⟩ ⟨x2, k'⟩ ⟨x, y⟩, t') else none
      | _ => none
    else if k = C.arc then
      match t with
      | phi :: ry :: rx :: k'' :: t' =>
        if k'' = k then (decodeFlag C k').map fun ls => (.arc rx ry phi ls.1 ls.2 ⟨x, y⟩, t') else none
      | _ => none
    else none
  | _ => none

def decodeBwdN [DecidableEq α] (C : Codes α) : Nat → List α → Option (RPath α)
  | _, [] => some []
  | 0, _ :: _ => none
  | n + 1, r =>
    match takeRecBwd C r with
    | some (c, t) => (decodeBwdN C n t).map (c :: ·)
    | none => none

/-- backward decoding (`i -= cmdLen(d[i-1])`) of the reversed array: records newest first -/
def decodeBwd [DecidableEq α] (C : Codes α) (r : List α) : Option (RPath α) := decodeBwdN C r.length r

/-- `Path.Pos()` on the raw (reversed) array: reads `d[len-3], d[len-2]`; `none` = index out of range -/
def posRaw : List α → Option (Pt α)
  | [] => some G.origin
  | _ :: y :: x :: _ => some ⟨x, y⟩
  | _ => none

/-- the codes are pairwise different -/
def Codes.Distinct (C : Codes α) : Prop :=
  C.move ≠ C.line ∧ C.move ≠ C.quad ∧ C.move ≠ C.cube ∧ C.move ≠ C.arc ∧ C.move ≠ C.close ∧
  C.line ≠ C.quad ∧ C.line ≠ C.cube ∧ C.line ≠ C.arc ∧ C.line ≠ C.close ∧
  C.quad ≠ C.cube ∧ C.quad ≠ C.arc ∧ C.quad ≠ C.close ∧
  C.cube ≠ C.arc ∧ C.cube ≠ C.close ∧ C.arc ≠ C.close ∧
  C.flag false false ≠ C.flag true false ∧ C.flag false false ≠ C.flag false true ∧
  C.flag false false ≠ C.flag true true ∧ C.flag true false ≠ C.flag false true ∧
  C.flag true false ≠ C.flag true true ∧ C.flag false true ≠ C.flag true true

/-- Declarative reading of the invariant on the record list (newest first):
the first record is a MoveTo; the record after a Close is a MoveTo (so a Close is followed by nothing
or a MoveTo, and every drawing record lies inside a subpath that a MoveTo opened); every Close carries
the coordinates of its subpath's MoveTo — exactly, or within `near` (Close keeps the end point of the
LineTo it replaces when that is `Equal` to the start). -/
def Framed (G : Geo α) (near : Pt α → Pt α → Bool) (cs : RPath α) : Prop :=
  (∀ c, cs.getLast? = some c → c.isMove = true) ∧
  (∀ a b rest, (b :: a :: rest) <:+ cs → a.isClose = true → b.isMove = true) ∧
  (∀ c rest, (Cmd.close c :: rest) <:+ cs → c = startPos G rest ∨ near c (startPos G rest) = true)


/-! ## No zero-length segments (judged by the oracle's own `Equal`) -/

/-- the command `c` drawn from pen position `a` is not a zero-length command in the sense in which
the builder tests it (`start.Equals(end)` and, for Béziers, the control points) -/
def nonzero (a : Pt α) : Cmd α → Bool
  | .line s => !G.ptEq a s
  | .quad cp p => !(G.ptEq a p && G.ptEq a cp)
  | .cube c1 c2 p => !(G.ptEq a p && G.ptEq a c1 && G.ptEq a c2)
  | .arc _ _ _ _ _ p => !G.ptEq a p
  | _ => true

/-- every drawing record is non-zero relative to the end point of the record before it -/
def noZero : RPath α → Bool
  | [] => true
  | c :: rest => nonzero G (pos G rest) c && noZero rest

/-- `Point.Equals` is symmetric and a vector is never aligned (angle 0) with its own reverse. -/
structure Sane : Prop where
  ptEq_symm : ∀ a b, G.ptEq a b = G.ptEq b a
  rev_not_aligned : ∀ a b, G.ptEq a b = false → G.angleIs0 (G.sub b a) (G.sub a b) = false

/-- LineTo's merge test is sound: a line that is declared a same-direction continuation of a
non-zero line ends away from that line's start. -/
def MergeSound : Prop :=
  ∀ a s p, G.ptEq a s = false → G.ptEq s p = false →
    G.parallel (G.sub s a) (G.sub p s) = true → G.sameDir (G.sub s a) (G.sub p s) = true → G.ptEq a p = false

/-! ## Histories -/

/-- One primitive builder call. -/
inductive Op (α : Type) where
  | moveTo (p : Pt α)
  | lineTo (p : Pt α)
  | quadTo (cp p : Pt α)
  | cubeTo (cp1 cp2 p : Pt α)
  | arcTo (rx ry rot : α) (large sweep : Bool) (p : Pt α)
  | arc (rx ry rot theta0 theta1 : α)
  | close
  | optimizeClose
deriving Repr

/-- calls of the exported API (everything except the internal `optimizeClose`) -/
def Op.isPublic : Op α → Bool
  | .optimizeClose => false
  | _ => true

def applyOp (cs : RPath α) : Op α → RPath α
  | .moveTo p => moveTo p cs
  | .lineTo p => lineTo G p cs
  | .quadTo cp p => quadTo G cp p cs
  | .cubeTo c1 c2 p => cubeTo G c1 c2 p cs
  | .arcTo rx ry rot l s p => arcTo G rx ry rot l s p cs
  | .arc rx ry rot t0 t1 => arcBy G rx ry rot t0 t1 cs
  | .close => close G cs
  | .optimizeClose => optimizeClose G cs

/-- A construction history: primitive calls, and Join / Append of two earlier results. -/
inductive Build (α : Type) where
  | empty
  | op (b : Build α) (o : Op α)
  | join (p q : Build α)
  | append (p q : Build α)

def Build.eval : Build α → RPath α
  | .empty => []
  | .op b o => applyOp G (b.eval) o
  | .join p q => Path.join G p.eval q.eval
  | .append p q => Path.append p.eval q.eval

end Canvas.Path
