import CanvasModel.Path
/-!
# C09 — models of `Path.Reverse`, `Path.Split`, the flag logic of `ellipseSplit`, and the structured
(subpath) view of a path used to state the theorems.

Everything is generic in the scalar type `α`.  The only geometric question `Reverse` asks is
`start.Equals(end)` at a Close; it is the parameter `eq`.  `z` is the zero point `Point{}` that the
Go loop uses as `end` when it reaches index 0.

Core Lean only (linked into `drv_c09`).
-/
namespace Canvas.C09
open Canvas Canvas.Path

variable {α : Type}

/-! ## Reverse (path.go:1814-1874) -/

/-- The drawing command `c` traversed backwards: same kind, Bézier control points swapped, arc sweep
flag flipped, ending at `e` (the start point of `c`). -/
def retarget (c : Cmd α) (e : Pt α) : Cmd α :=
  match c with
  | .move _ => .move e
  | .line _ => .line e
  | .quad cp _ => .quad cp e
  | .cube c1 c2 _ => .cube c2 c1 e
  | .arc rx ry phi l s _ => .arc rx ry phi l (!s) e
  | .close _ => .close e

def isLine : Cmd α → Bool
  | .line _ => true
  | _ => false

/-- `Point{p.d[i-3], p.d[i-2]}` if `0 < i`, else `Point{}`: end point of the record before. -/
def headEnd (z : Pt α) : RPath α → Pt α
  | [] => z
  | c :: _ => c.endp

/-- `i == 0 || p.d[i-1] == MoveToCmd` -/
def prevIsMoveOrNone : RPath α → Bool
  | [] => true
  | c :: _ => c.isMove

/-- The backward loop of `Reverse`.  The argument is the part of the path not yet visited, newest
record first (the loop walks the data array from its end); the result is the list of records
appended to `q.d`, in the order they are appended.  State: `closed`, `first`; the Go variable
`start` always equals the end point of the record being visited. -/
def revLoop (eq : Pt α → Pt α → Bool) (z : Pt α) (closed : Bool) (first : Pt α) : RPath α → List (Cmd α)
  | [] => if closed then [.close first] else []
  | c :: rest =>
    let e := headEnd z rest
    match c with
    | .move _ =>
      (if closed then [.close first] else []) ++
      (if rest.isEmpty then [] else [.move e]) ++
      revLoop eq z false (if rest.isEmpty then first else e) rest
    | .close s =>
      (if eq s e then [] else [.line e]) ++ revLoop eq z true first rest
    | .line _ =>
      if closed && prevIsMoveOrNone rest then .close first :: revLoop eq z false first rest
      else .line e :: revLoop eq z closed first rest
    | .quad cp _ => .quad cp e :: revLoop eq z closed first rest
    | .cube c1 c2 _ => .cube c2 c1 e :: revLoop eq z closed first rest
    | .arc rx ry phi l s _ => .arc rx ry phi l (!s) e :: revLoop eq z closed first rest

/-- `Path.Reverse`, records in array order (oldest first). -/
def reverseF (eq : Pt α → Pt α → Bool) (z : Pt α) (cs : RPath α) : List (Cmd α) :=
  match cs with
  | [] => []
  | c :: _ => .move c.endp :: revLoop eq z false c.endp cs

/-- `Path.Reverse` on the path model (newest first). -/
def reverse (eq : Pt α → Pt α → Bool) (z : Pt α) (cs : RPath α) : RPath α := (reverseF eq z cs).reverse

/-! ## Split (path.go:1474-1492) -/

/-- number of float64 values of a list of records -/
def dataLen : List (Cmd α) → Nat
  | [] => 0
  | c :: cs => c.len + dataLen cs

/-- The scan of `Split` over the records in array order.  `acc` is the current piece `p.d[i:j]`
(array order); a piece is cut before every MoveTo that is not at its beginning; the last piece is
kept only when it is longer than one MoveTo record (`i+cmdLen(MoveToCmd) < j`). -/
def splitGo (acc : List (Cmd α)) : List (Cmd α) → List (List (Cmd α))
  | [] => if 4 < dataLen acc then [acc] else []
  | c :: cs =>
    if !acc.isEmpty && c.isMove then acc :: splitGo [c] cs
    else splitGo (acc ++ [c]) cs

/-- `Path.Split` on records in array order -/
def split (cs : List (Cmd α)) : List (List (Cmd α)) := splitGo [] cs

/-- what `Split` drops: a trailing piece of at most four values -/
def splitRestGo (acc : List (Cmd α)) : List (Cmd α) → List (Cmd α)
  | [] => if 4 < dataLen acc then [] else acc
  | c :: cs =>
    if !acc.isEmpty && c.isMove then splitRestGo [c] cs
    else splitRestGo (acc ++ [c]) cs

def splitRest (cs : List (Cmd α)) : List (Cmd α) := splitRestGo [] cs

/-- data array of records in array order -/
def encodeF (C : Codes α) (cs : List (Cmd α)) : List α := cs.flatMap (encodeCmd C)

/-! ## Structured view: subpaths -/

/-- One subpath `M start (L|Q|C|A)* [Z start]`, drawing commands in array order. -/
structure SubPath (α : Type) where
  start : Pt α
  segs : List (Cmd α)
  closed : Bool
deriving Repr, BEq, DecidableEq

/-- records of a subpath in array order -/
def SubPath.flat (s : SubPath α) : List (Cmd α) :=
  .move s.start :: (s.segs ++ (if s.closed then [.close s.start] else []))

/-- records of a structured path in array order -/
def flatF (subs : List (SubPath α)) : List (Cmd α) := subs.flatMap SubPath.flat

/-- the path model (newest first) of a structured path -/
def flatR (subs : List (SubPath α)) : RPath α := (flatF subs).reverse

/-- end point of a chain of drawing commands that starts at `a` -/
def chainEnd (a : Pt α) : List (Cmd α) → Pt α
  | [] => a
  | c :: cs => chainEnd c.endp cs

/-- the chain `cs` starting at `a`, traversed backwards: reversed order, each command reversed and
ending where it started -/
def revChain (a : Pt α) : List (Cmd α) → List (Cmd α)
  | [] => []
  | c :: cs => revChain c.endp cs ++ [retarget c a]

/-- last point of a subpath (where the pen is after it) -/
def SubPath.last (s : SubPath α) : Pt α := if s.closed then s.start else chainEnd s.start s.segs

def firstIsLine : List (Cmd α) → Bool
  | c :: _ => isLine c
  | [] => false

def lastIsLine : List (Cmd α) → Bool
  | [] => false
  | [c] => isLine c
  | _ :: cs => lastIsLine cs

/-- the body of a reversed closed subpath after the optional explicit closing line: when the first
drawing command is a LineTo it is left out (it becomes the Close) -/
def revClosedBody (start : Pt α) : List (Cmd α) → List (Cmd α)
  | [] => []
  | c1 :: rest => if isLine c1 then revChain c1.endp rest else revChain start (c1 :: rest)

/-- The reversed subpath, described declaratively.  Open: the reversed chain from the old end point.
Closed: it starts at the same point; the closing segment, if not zero-length (`eq`), becomes an
explicit first LineTo; when the first drawing command was a LineTo it becomes the closing segment. -/
def revSub (eq : Pt α → Pt α → Bool) (s : SubPath α) : SubPath α :=
  if s.closed then
    let en := chainEnd s.start s.segs
    ⟨s.start, (if eq s.start en then [] else [.line en]) ++ revClosedBody s.start s.segs, true⟩
  else ⟨chainEnd s.start s.segs, revChain s.start s.segs, false⟩

/-- every record of the subpath body is LineTo/QuadTo/CubeTo/ArcTo -/
def SubPath.drawOnly (s : SubPath α) : Bool := s.segs.all Cmd.isDraw

/-- Conditions under which `Reverse` is an involution on a subpath (the builder guarantees the first
two; the third fails only when the last drawing command ends within Epsilon of, but not exactly
at, the start point): a closed subpath does not begin with a zero-length LineTo, does not have a
LineTo ending at the start point directly before its Close (`Close` turns that LineTo into the
Close), a closing segment that `Reverse` treats as zero-length is exactly zero-length, and `eq` holds
between the start point and itself (it is not NaN). -/
def SubPath.RevOK (eq : Pt α → Pt α → Bool) (s : SubPath α) : Prop :=
  s.drawOnly = true ∧
  (s.closed = true →
    eq s.start s.start = true ∧
    (∀ c rest, s.segs = c :: rest → isLine c = true → eq s.start c.endp = false) ∧
    (lastIsLine s.segs = true → eq s.start (chainEnd s.start s.segs) = false) ∧
    (eq s.start (chainEnd s.start s.segs) = true → chainEnd s.start s.segs = s.start))

/-! ## Geometric segments -/

inductive SegKind (α : Type) where
  | line
  | quad (cp : Pt α)
  | cube (c1 c2 : Pt α)
  | arc (rx ry phi : α) (large sweep : Bool)
deriving Repr, BEq, DecidableEq

/-- one geometric segment: from `a` to `b` -/
structure Seg (α : Type) where
  a : Pt α
  kind : SegKind α
  b : Pt α
deriving Repr, BEq, DecidableEq

/-- the same point set traversed from `b` to `a` -/
def Seg.rev (s : Seg α) : Seg α :=
  match s.kind with
  | .line => ⟨s.b, .line, s.a⟩
  | .quad cp => ⟨s.b, .quad cp, s.a⟩
  | .cube c1 c2 => ⟨s.b, .cube c2 c1, s.a⟩
  | .arc rx ry phi l sw => ⟨s.b, .arc rx ry phi l (!sw), s.a⟩

/-- geometric segments of a chain of drawing commands that starts at `a` -/
def chainSegs (a : Pt α) : List (Cmd α) → List (Seg α)
  | [] => []
  | c :: cs =>
    (match c with
     | .line p => [⟨a, .line, p⟩]
     | .quad cp p => [⟨a, .quad cp, p⟩]
     | .cube c1 c2 p => [⟨a, .cube c1 c2, p⟩]
     | .arc rx ry phi l s p => [⟨a, .arc rx ry phi l s, p⟩]
     | _ => []) ++ chainSegs c.endp cs

/-- geometric segments of a subpath; the closing segment is listed unless it is zero-length in the
sense of `eq` (the test `Reverse` itself applies) -/
def SubPath.geom (eq : Pt α → Pt α → Bool) (s : SubPath α) : List (Seg α) :=
  chainSegs s.start s.segs ++
    (if s.closed && !eq s.start (chainEnd s.start s.segs) then [⟨chainEnd s.start s.segs, .line, s.start⟩] else [])

def geom (eq : Pt α → Pt α → Bool) (subs : List (SubPath α)) : List (Seg α) := subs.flatMap (SubPath.geom eq)

/-- the run of records up to the next MoveTo (or the end of the array) ends with a Close -/
def runClosed : List (Cmd α) → Bool
  | [] => false
  | .move _ :: _ => false
  | .close _ :: cs => if prevIsMoveOrNone cs then true else runClosed cs
  | _ :: cs => runClosed cs

/-- closedness of every subpath read off the records (array order): one flag per MoveTo, true when
the subpath it opens ends with a Close -/
def closedFlags : List (Cmd α) → List Bool
  | [] => []
  | .move _ :: cs => runClosed cs :: closedFlags cs
  | _ :: cs => closedFlags cs

/-! ## Reading a record array as a structured path -/

/-- longest prefix of drawing commands, and the rest -/
def takeBody : List (Cmd α) → List (Cmd α) × List (Cmd α)
  | [] => ([], [])
  | c :: cs => if c.isDraw then ((c :: (takeBody cs).1), (takeBody cs).2) else ([], c :: cs)

/-- group records (array order) into subpaths; `none` unless the array is
`(M (L|Q|C|A)* (Z carrying the M's coordinates)?)*`.  The fuel is the number of records. -/
def toSubsN [DecidableEq α] : Nat → List (Cmd α) → Option (List (SubPath α))
  | _, [] => some []
  | 0, _ :: _ => none
  | n + 1, c :: cs =>
    match c with
    | .move p =>
      match (takeBody cs).2 with
      | .close q :: rest' =>
        if q = p then (toSubsN n rest').map (fun l => ⟨p, (takeBody cs).1, true⟩ :: l) else none
      | rest => (toSubsN n rest).map (fun l => ⟨p, (takeBody cs).1, false⟩ :: l)
    | _ => none

def toSubs [DecidableEq α] (cs : List (Cmd α)) : Option (List (SubPath α)) := toSubsN cs.length cs

/-! ## Executable specification verdict for Reverse (judges the REAL output, not the model) -/

/-- decidable form of `SubPath.RevOK` -/
def SubPath.revOKb [DecidableEq α] (eq : Pt α → Pt α → Bool) (s : SubPath α) : Bool :=
  s.drawOnly &&
    (!s.closed ||
      (eq s.start s.start &&
       (match s.segs with
        | c :: _ => !(isLine c && eq s.start c.endp)
        | [] => true) &&
       !(lastIsLine s.segs && eq s.start (chainEnd s.start s.segs)) &&
       (!eq s.start (chainEnd s.start s.segs) || decide (chainEnd s.start s.segs = s.start))))

inductive Verdict where
  | ok
  | skip (why : String)
  | fail (cls : String)
deriving Repr, DecidableEq

/-- what the property demands of `r = Reverse(p)`, both given as record arrays (array order): same
number of subpaths, closedness flags in reverse order, and the geometric segments of `r` are those of
`p` in reverse order, each reversed.  Exact comparison of coordinates (`DecidableEq α`). -/
def reverseVerdict [DecidableEq α] (eq : Pt α → Pt α → Bool) (p r : List (Cmd α)) : Verdict :=
  match toSubs p with
  | none => .skip "input-not-structured"
  | some sp =>
    if !sp.all (SubPath.revOKb eq) then .skip "outside-RevOK"
    else
      match toSubs r with
      | none => .fail "output-not-structured"
      | some sr =>
        if sr.length ≠ sp.length then .fail "subpath-count"
        else if sr.map (·.closed) ≠ (sp.map (·.closed)).reverse then .fail "closedness"
        else if geom eq sr ≠ ((geom eq sp).reverse).map Seg.rev then .fail "points"
        else .ok

/-! ## The cutting loop of SplitAt for one Bézier segment (path.go:1563-1575, 1598-1610) -/

/-- For the cut parameters `ts` returned by `invL` (in order): `tsub := (t - t0)/(1 - t0)` - or 1 when the
previous parameter has reached 1 (`t0 < 1.0` fails: the rest of the curve is its end point, 5884f31) -,
split the remainder at `tsub`, emit the left part, keep the right part, `t0 := t`.  Result: the emitted
pieces and the final remainder.  Generic in the scalar and in the curve type `Q` (control polygon) so
that the same definition is run on `Float` against the real code and reasoned about over a field. -/
def cutsGen {Q : Type} (lt : α → α → Bool) (sub div : α → α → α) (one : α) (splitL splitR : Q → α → Q)
    (r : Q) (t0 : α) : List α → List Q × Q
  | [] => ([], r)
  | t :: ts =>
    let tsub := if lt t0 one then div (sub t t0) (sub one t0) else one
    let rest := cutsGen lt sub div one splitL splitR (splitR r tsub) t ts
    (splitL r tsub :: rest.1, rest.2)

/-! ## ellipseSplit flag logic (path_util.go:149-162) -/

/-- `large0, large1` of `ellipseSplit`: `d0 = |theta-theta0|`, `d1 = |theta-theta1|`; `gtPi x` is `x > π` -/
def splitFlags (gtPi : α → Bool) (d0 d1 : α) : Bool × Bool :=
  if gtPi d0 then (true, false)
  else if gtPi d1 then (false, true)
  else (false, false)

end Canvas.C09
