import CanvasModel.C01
/-!
C01 L2 model (second wave): `SweepPoint.mergeOverlapping` over a column, in the style of the column
model of `CanvasModel/C01.lean`. The receiver `s` sits on top of the chain of `prev` pointers
`below` (nearest first). `geom` names the geometry of a segment: equal `geom` = same `Point` and
same `other.Point` (coincident segments). Core Lean only.
-/
namespace Canvas.C01Merge
open Canvas.C01

structure Ent where
  seg : Seg
  geom : Nat
  overlapped : Bool
  f : Fields
deriving Repr, DecidableEq

def zeroF : Fields := ⟨0, 0, 0, 0⟩

/-- 51f64dd: a segment of an open subpath that lies on a segment of a closed subpath disappears in
it: the receiver stands for the closed segment from here on -/
def closeOn (s p : Ent) : Ent :=
  if s.seg.open_ && !p.seg.open_ then { s with seg := { s.seg with open_ := false } } else s

/-- `combine selfWindings` -/
def addSelf (s p : Ent) : Ent :=
  if s.seg.clipping = p.seg.clipping then
    { s with f := { s.f with sw := s.f.sw + p.f.sw, osw := s.f.osw + p.f.osw } }
  else
    { s with f := { s.f with sw := s.f.sw + p.f.osw, osw := s.f.osw + p.f.sw } }

/-- the `for ; prev != nil; prev = prev.prev` loop: returns the receiver with the combined self
windings, the absorbed entries (zeroed, marked overlapped; nearest first) and the rest of the chain
(its head is the final `prev`) -/
def absorb (s : Ent) : List Ent → Ent × List Ent × List Ent
  | [] => (s, [], [])
  | p :: rest =>
    if p.overlapped || p.geom != s.geom then (s, [], p :: rest)
    else
      let r := absorb (addSelf (closeOn s p) p) rest
      (r.1, { p with f := zeroF, overlapped := true } :: r.2.1, r.2.2)

/-- `compute merged windings` from the final `prev` (NOT skipping vertical segments — unlike
`computeSweepFields`) -/
def mergedFields (s : Ent) : List Ent → Fields
  | [] => { s.f with w := 0, ow := 0 }
  | p :: _ =>
    if s.seg.clipping = p.seg.clipping then { s.f with w := p.f.w + p.f.sw, ow := p.f.ow + p.f.osw }
    else { s.f with w := p.f.ow + p.f.osw, ow := p.f.w + p.f.sw }

structure Result where
  s : Ent
  below : List Ent      -- all entries of the chain, absorbed ones zeroed in place
  prevIdx : Option Nat  -- index into `below` the receiver's `prev` points to afterwards
  touched : Bool        -- whether the receiver's windings / inResult were recomputed
deriving Repr

def merge (s : Ent) (below : List Ent) : Result :=
  if s.overlapped then ⟨s, below, if below.isEmpty then none else some 0, false⟩
  else
    let r := absorb s below
    if r.2.1.isEmpty then ⟨s, below, if below.isEmpty then none else some 0, false⟩   -- prev == s.prev
    else
      ⟨{ r.1 with f := mergedFields r.1 r.2.2 }, r.2.1 ++ r.2.2,
        if r.2.2.isEmpty then none else some r.2.1.length, true⟩

/-! ## line protocol: `MRG op rule n {clip vert incr open overl geom w ow sw osw}*n` (top first) →
per entry `w ow sw osw overlapped inResult`, then the prev index (-1 = nil), then the `open` flag of
every entry afterwards. `inResult` is the
sentinel 7 for entries the code does not rewrite. -/

def parseEnts : List String → Option (List Ent)
  | [] => some []
  | a :: b :: c :: d :: e :: g :: w :: ow :: sw :: osw :: rest => do
    let g ← g.toNat?
    let w ← w.toInt?
    let ow ← ow.toInt?
    let sw ← sw.toInt?
    let osw ← osw.toInt?
    let l ← parseEnts rest
    pure (⟨⟨b01 a, b01 b, b01 c, b01 d⟩, g, b01 e, ⟨w, ow, sw, osw⟩⟩ :: l)
  | _ => none

def inRes (e : Ent) (op rule : Int) : Int :=
  GenF.SweepPoint.InResult
    ({ clipping := e.seg.clipping, open_ := e.seg.open_, windings := e.f.w, otherWindings := e.f.ow,
       selfWindings := e.f.sw, otherSelfWindings := e.f.osw } : GenF.SweepPoint Float) op rule

def showEnt (e : Ent) (ir : Int) : String :=
  s!"{e.f.w} {e.f.ow} {e.f.sw} {e.f.osw} {if e.overlapped then 1 else 0} {ir}"

def handle : List String → Option String
  | "MRG" :: op :: rule :: rest => do
    let op ← op.toInt?
    let rule ← rule.toInt?
    match ← parseEnts rest with
    | [] => none
    | s :: below =>
      let r := merge s below
      let top := showEnt r.s (if r.touched then inRes r.s op rule else 7)
      let nAbs := if r.touched then (r.prevIdx.getD r.below.length) else 0
      let rest := (List.zip r.below (List.range r.below.length)).map fun (e, i) =>
        showEnt e (if i < nAbs then 0 else 7)
      let pi : Int := match r.prevIdx with
        | some i => (i : Int) + 1
        | none => -1
      let opens := (r.s :: r.below).map fun e => if e.seg.open_ then "1" else "0"
      pure (String.intercalate " " (top :: rest) ++ s!" {pi} " ++ String.intercalate " " opens)
  | _ => none

end Canvas.C01Merge
