/-
Shared, core-only prelude: the record types the generated definitions use, the `Env` class that
keeps transcendental functions and float tunables abstract in proof mode, Go-compatible float
helpers for the executable (`Float`) mode, and hex (IEEE bit pattern) I/O for the line protocol.
-/
namespace Canvas

structure Pt (α : Type) where
  x : α
  y : α
deriving Repr, BEq, DecidableEq

structure Mat (α : Type) where
  a : α
  b : α
  c : α
  d : α
  e : α
  f : α
deriving Repr, BEq, DecidableEq

structure Rct (α : Type) where
  x0 : α
  y0 : α
  x1 : α
  y1 : α
deriving Repr, BEq, DecidableEq

/-- Abstract environment for proof mode: what the theorems do not look inside. -/
class Env (K : Type) where
  epsilon : K
  tolerance : K
  pi : K
  sqrt : K → K
  sin : K → K
  cos : K → K
  atan2 : K → K → K
  acos : K → K
  hypot : K → K → K
  round : K → K
  cbrt : K → K
  pow : K → K → K
  isNaN : K → Bool

/-! Go-compatible float helpers (executable mode) -/

def goPi : Float := 3.141592653589793

/-- Go's math.Min: NaN if either is NaN (unless one is -Inf), and Min(-0, 0) = -0. -/
def goMin (x y : Float) : Float :=
  if x.isInf && x < 0 then x
  else if y.isInf && y < 0 then y
  else if x.isNaN || y.isNaN then (0.0 / 0.0)
  else if x == 0 && y == 0 then (if x.toBits == 0x8000000000000000 then x else y)
  else if x < y then x else y

def goMax (x y : Float) : Float :=
  if x.isInf && x > 0 then x
  else if y.isInf && y > 0 then y
  else if x.isNaN || y.isNaN then (0.0 / 0.0)
  else if x == 0 && y == 0 then (if x.toBits == 0x8000000000000000 then y else x)
  else if x > y then x else y

/-- math.Round: half away from zero. -/
def goRound (x : Float) : Float := Float.round x

/-- math.Hypot (libm hypot; compared with tolerance, not bit-exactly). -/
def goHypot (x y : Float) : Float := Float.sqrt (x * x + y * y)

/-! Hex I/O -/

def hexDigit? (c : Char) : Option Nat :=
  if '0' ≤ c ∧ c ≤ '9' then some (c.toNat - '0'.toNat)
  else if 'a' ≤ c ∧ c ≤ 'f' then some (c.toNat - 'a'.toNat + 10)
  else if 'A' ≤ c ∧ c ≤ 'F' then some (c.toNat - 'A'.toNat + 10)
  else none

def parseHexNat? (s : String) : Option Nat :=
  if s.isEmpty then none else
  s.foldl (fun acc c => match acc, hexDigit? c with
    | some a, some d => some (a * 16 + d)
    | _, _ => none) (some 0)

def floatOfHex? (s : String) : Option Float :=
  (parseHexNat? s).map fun n => Float.ofBits (UInt64.ofNat n)

def hexOfNat (n : Nat) (width : Nat) : String :=
  let ds := (Nat.toDigits 16 n)
  String.ofList (List.replicate (width - ds.length) '0' ++ ds)

def hexOfFloat (f : Float) : String :=
  -- canonicalise NaN
  if f.isNaN then "7ff8000000000001" else hexOfNat f.toBits.toNat 16

def parseInt? (s : String) : Option Int := s.toInt?

/-- split on single spaces, dropping empties -/
def words (s : String) : List String :=
  (s.splitOn " ").filter (· ≠ "")

end Canvas
