import CanvasModel.Prelude
/-!
# C08 — hand-written (L2) model of `Path.FastBounds` and `Path.Bounds` (/repo/path.go)

The Go functions loop over the raw command array `p.d`; the model folds the same per-command update
over a list of decoded commands. It is generic over the scalar `α`:

* `α = Float` (driver, `Drv/C08.lean`): `Ops` is instantiated with `goMin/goMax` and the *generated*
  (L1) translations of `Equal`, `IntervalExclusive`, `quadraticBezierPos`, `cubicBezierPos`;
  compared with the real `FastBounds()/Bounds()` on every run (bit-exact without arcs).
* `α = K` an ordered field (proofs, `CanvasProofs/C08.lean`): `Ops` is instantiated with `min/max` and
  the generated `GenK.*` definitions; `Epsilon` is the abstract `Env.epsilon`.

`solveQuadraticFormula` returns `NaN` for "no root"; the model returns `Option α` (`none` = NaN), so
that the branch structure is explicit and meaningful over a field.
-/
namespace Canvas.C08

/-- What the per-command updates use besides `+ - * /`, `<` and literals. -/
class Ops (α : Type) where
  mn : α → α → α
  mx : α → α → α
  equal : α → α → Bool
  ivx : α → α → α → Bool
  quadPos : Pt α → Pt α → Pt α → α → Pt α
  cubePos : Pt α → Pt α → Pt α → Pt α → α → Pt α
  sqrt : α → α
  sincos : α → α × α
  atan2 : α → α → α
  pi : α
  /-- primitives of the arc code: `math.Mod`, `math.Acos`, `math.Abs`, the constant `Epsilon`, `<=` -/
  fmod : α → α → α
  acos : α → α
  abs : α → α
  eps : α
  le : α → α → Bool

inductive Cmd (α : Type) where
  | M (p : Pt α)
  | L (p : Pt α)
  | Z (p : Pt α)
  | Q (cp p : Pt α)
  | C (cp1 cp2 p : Pt α)
  | A (rx ry phi : α) (large sweep : Bool) (p : Pt α)
deriving Repr

structure St (α : Type) where
  start : Pt α
  xmin : α
  xmax : α
  ymin : α
  ymax : α
deriving Repr

section
variable {α : Type} [Add α] [Sub α] [Mul α] [Div α] [Neg α] [LT α] [DecidableLT α]
  [OfNat α 0] [OfNat α 1] [OfNat α 2] [OfNat α 3] [OfNat α 4] [Ops α]
open Ops

def Cmd.endPt : Cmd α → Pt α
  | .M p => p | .L p => p | .Z p => p | .Q _ p => p | .C _ _ p => p | .A _ _ _ _ _ p => p

/-- the two numbers `p.d[1], p.d[2]` the Go code reads as the initial point -/
def Cmd.firstPt : Cmd α → Pt α
  | .M p => p | .L p => p | .Z p => p | .Q cp _ => cp | .C cp1 _ _ => cp1 | .A rx ry _ _ _ _ => ⟨rx, ry⟩

/-- util.go `angleNorm`: the angle in [0, 2π) -/
def angleNorm (theta : α) : α :=
  let theta := fmod theta (2 * pi)
  if theta < 0 then theta + 2 * pi else theta

/-- util.go `angleBetween`: theta in [lower, upper] (either order), with Epsilon slack at both ends -/
def angleBetween (theta lower upper : α) : Bool :=
  let lu := if upper < lower then (upper, lower) else (lower, upper)
  let theta := angleNorm (theta - lu.1 + eps)
  let upper := angleNorm (lu.2 - lu.1 + 2 * eps)
  le theta upper

/-- path_util.go `ellipseToCenter`: centre and start/end angles of an SVG arc (all branches: coincident
end points, the half-circle shortcut, radii correction, the `sq <= Epsilon` clamp, sign choices) -/
def ellipseToCenter (x1 y1 rx ry phi : α) (large sweep : Bool) (x2 y2 : α) : α × α × α × α :=
  if equal x1 x2 && equal y1 y2 then (x1, y1, 0, 0)
  else if equal (abs (x2 - x1)) (2 * rx) && equal y1 y2 && equal phi 0 then
    let cx := x1 + (x2 - x1) / 2
    let cy := y1
    let theta := if x1 < x2 then pi else 0
    let delta := if !sweep then -pi else pi
    (cx, cy, theta, theta + delta)
  else
    let sc := sincos phi
    let sinphi := sc.1
    let cosphi := sc.2
    let x1p := cosphi * (x1 - x2) / 2 + sinphi * (y1 - y2) / 2
    let y1p := -sinphi * (x1 - x2) / 2 + cosphi * (y1 - y2) / 2
    let radiiCheck := x1p * x1p / rx / rx + y1p * y1p / ry / ry
    let rr := if 1 < radiiCheck then
        let radiiScale := sqrt radiiCheck
        (rx * radiiScale, ry * radiiScale)
      else (rx, ry)
    let rx := rr.1
    let ry := rr.2
    let sq := (rx * rx * ry * ry - rx * rx * y1p * y1p - ry * ry * x1p * x1p) / (rx * rx * y1p * y1p + ry * ry * x1p * x1p)
    let sq := if le sq eps then 0 else sq
    let coef := sqrt sq
    let coef := if large == sweep then -coef else coef
    let cxp := coef * rx * y1p / ry
    let cyp := coef * -ry * x1p / rx
    let cx := cosphi * cxp - sinphi * cyp + (x1 + x2) / 2
    let cy := sinphi * cxp + cosphi * cyp + (y1 + y2) / 2
    let ux := (x1p - cxp) / rx
    let uy := (y1p - cyp) / ry
    let vx := -(x1p + cxp) / rx
    let vy := -(y1p + cyp) / ry
    let theta := acos (ux / sqrt (ux * ux + uy * uy))
    let theta := if uy < 0 then -theta else theta
    let theta := angleNorm theta
    let deltaAcos := (ux * vx + uy * vy) / sqrt ((ux * ux + uy * uy) * (vx * vx + vy * vy))
    let deltaAcos := mn 1 (mx (-1) deltaAcos)
    let delta := acos deltaAcos
    let delta := if ux * vy - uy * vx < 0 then -delta else delta
    let delta := if !sweep && 0 < delta then delta - 2 * pi
      else if sweep && delta < 0 then delta + 2 * pi else delta
    (cx, cy, theta, theta + delta)

/-- `FastBounds`, one command. `inner` is the operation applied to `(cp2, end)` in the *upper*
bounds of the CubeTo case: `math.Max` since the fix of finding C08-fastbounds-cubic-minmax (the pinned
source had `math.Min` there; `fastStepG mn` is that historical variant, used by a mutant self-test). -/
def fastStepG (inner : α → α → α) (s : St α) : Cmd α → St α
  | .M p | .L p | .Z p =>
    ⟨p, mn s.xmin p.x, mx s.xmax p.x, mn s.ymin p.y, mx s.ymax p.y⟩
  | .Q cp p =>
    ⟨p, mn s.xmin (mn cp.x p.x), mx s.xmax (mx cp.x p.x),
        mn s.ymin (mn cp.y p.y), mx s.ymax (mx cp.y p.y)⟩
  | .C cp1 cp2 p =>
    ⟨p, mn s.xmin (mn cp1.x (mn cp2.x p.x)), mx s.xmax (mx cp1.x (inner cp2.x p.x)),
        mn s.ymin (mn cp1.y (mn cp2.y p.y)), mx s.ymax (mx cp1.y (inner cp2.y p.y))⟩
  | .A rx ry phi large sweep p =>
    let cc := ellipseToCenter s.start.x s.start.y rx ry phi large sweep p.x p.y
    let cx := cc.1
    let cy := cc.2.1
    let r := mx rx ry
    ⟨p, mn s.xmin (cx - r), mx s.xmax (cx + r), mn s.ymin (cy - r), mx s.ymax (cy + r)⟩

/-- the source as it is: `math.Max(xmax, math.Max(cp1.X, math.Max(cp2.X, end.X)))` -/
def fastStep : St α → Cmd α → St α := fastStepG mx
/-- the corrected formula (`math.Max` in the inner position) -/
def fastStepFixed : St α → Cmd α → St α := fastStepG mx

/-- util.go `solveQuadraticFormula`; `none` stands for the `NaN` the Go code returns. -/
def solveQuadratic (a b c : α) : Option α × Option α :=
  if equal a 0 then
    if equal b 0 then
      if equal c 0 then (some 0, none) else (none, none)
    else (some (-c / b), none)
  else if equal c 0 then
    if equal b 0 then (some 0, none) else (some 0, some (-b / a))
  else
    let disc := b * b - 4 * a * c
    if disc < 0 then (none, none)
    else if equal disc 0 then (some (-b / (2 * a)), none)
    else
      let q := sqrt disc
      let q := if b < 0 then -q else q
      let x1 := -(b + q) / (2 * a)
      let x2 := c / (a * x1)
      if x2 < x1 then (some x2, some x1) else (some x1, some x2)

/-- `if !math.IsNaN(t) && IntervalExclusive(t, 0, 1) { v := pos(t); lo = Min(lo, v); hi = Max(hi, v) }` -/
def cand (val : α → α) (t : Option α) (lh : α × α) : α × α :=
  match t with
  | some t => if ivx t 0 1 then (mn lh.1 (val t), mx lh.2 (val t)) else lh
  | none => lh

/-- one axis of the QuadTo case of `Bounds` -/
def quadAxis (a0 a1 a2 : α) (val : α → α) (lo hi : α) : α × α :=
  let lo := mn lo a2
  let hi := mx hi a2
  let tdenom := a0 - 2 * a1 + a2
  if !equal tdenom 0 then cand val (some ((a0 - a1) / tdenom)) (lo, hi) else (lo, hi)

/-- one axis of the CubeTo case of `Bounds` -/
def cubeAxis (a0 a1 a2 a3 : α) (val : α → α) (lo hi : α) : α × α :=
  let a := -a0 + 3 * a1 - 3 * a2 + a3
  let b := 2 * a0 - 4 * a1 + 2 * a2
  let c := -a0 + a1
  let ts := solveQuadratic a b c
  cand val ts.2 (cand val ts.1 (mn lo a3, mx hi a3))

/-- `Bounds`, one command. `swapTop = false` is the pinned (pre-fix) source, whose ArcTo case computed
`thetaTop := math.Atan2(rx*cosphi, ry*sinphi)`; `true` is the corrected `Atan2(ry*cosphi, rx*sinphi)`. -/
def boundsStepG (swapTop : Bool) (s : St α) : Cmd α → St α
  | .M p | .L p | .Z p =>
    ⟨p, mn s.xmin p.x, mx s.xmax p.x, mn s.ymin p.y, mx s.ymax p.y⟩
  | .Q cp p =>
    let xs := quadAxis s.start.x cp.x p.x (fun t => (quadPos s.start cp p t).x) s.xmin s.xmax
    let ys := quadAxis s.start.y cp.y p.y (fun t => (quadPos s.start cp p t).y) s.ymin s.ymax
    ⟨p, xs.1, xs.2, ys.1, ys.2⟩
  | .C cp1 cp2 p =>
    let xs := cubeAxis s.start.x cp1.x cp2.x p.x (fun t => (cubePos s.start cp1 cp2 p t).x) s.xmin s.xmax
    let ys := cubeAxis s.start.y cp1.y cp2.y p.y (fun t => (cubePos s.start cp1 cp2 p t).y) s.ymin s.ymax
    ⟨p, xs.1, xs.2, ys.1, ys.2⟩
  | .A rx ry phi large sweep p =>
    let cc := ellipseToCenter s.start.x s.start.y rx ry phi large sweep p.x p.y
    let cx := cc.1
    let cy := cc.2.1
    let theta0 := cc.2.2.1
    let theta1 := cc.2.2.2
    let sc := sincos phi
    let sinphi := sc.1
    let cosphi := sc.2
    let thetaRight := atan2 (-ry * sinphi) (rx * cosphi)
    let thetaTop := if swapTop then atan2 (ry * cosphi) (rx * sinphi) else atan2 (rx * cosphi) (ry * sinphi)
    let thetaLeft := thetaRight + pi
    let thetaBottom := thetaTop + pi
    let dx := sqrt (rx * rx * cosphi * cosphi + ry * ry * sinphi * sinphi)
    let dy := sqrt (rx * rx * sinphi * sinphi + ry * ry * cosphi * cosphi)
    let xmin := if angleBetween thetaLeft theta0 theta1 then mn s.xmin (cx - dx) else s.xmin
    let xmax := if angleBetween thetaRight theta0 theta1 then mx s.xmax (cx + dx) else s.xmax
    let ymin := if angleBetween thetaBottom theta0 theta1 then mn s.ymin (cy - dy) else s.ymin
    let ymax := if angleBetween thetaTop theta0 theta1 then mx s.ymax (cy + dy) else s.ymax
    ⟨p, mn xmin p.x, mx xmax p.x, mn ymin p.y, mx ymax p.y⟩

/-- the source as it is (after the fix of finding C08-bounds-arc-thetatop) -/
def boundsStep : St α → Cmd α → St α := boundsStepG true

def St.init (p : Pt α) : St α := ⟨p, p.x, p.x, p.y, p.y⟩
def St.rect (s : St α) : Rct α := ⟨s.xmin, s.ymin, s.xmax, s.ymax⟩

/-- the loop of `FastBounds`/`Bounds`: empty path → `Rect{}`; otherwise start from `p.d[1], p.d[2]`
and fold the remaining commands. -/
def run (step : St α → Cmd α → St α) : List (Cmd α) → Rct α
  | [] => ⟨0, 0, 0, 0⟩
  | c :: cs => (cs.foldl step (St.init c.firstPt)).rect

def fastBounds : List (Cmd α) → Rct α := run fastStep
def fastBoundsFixed : List (Cmd α) → Rct α := run fastStepFixed
def bounds : List (Cmd α) → Rct α := run boundsStep

/-! ## the property's verdict as an executable specification (`V`/`VE` lines: the harness sends what it
observed — the box of its independent dense sampling, the two rectangles the real code returned, the
derived tolerances — and this function decides) -/

inductive Verdict where
  | ok
  | notContaining (axis : Nat)
  | notTight (axis : Nat)
  | fastNotContaining (axis : Nat)
deriving Repr, DecidableEq

/-- one axis: sampled range `[slo,shi]`, Bounds' range `[blo,bhi]`, FastBounds' range `[flo,fhi]` -/
def axisContains (tolC slo shi blo bhi : α) : Bool := le blo (slo + tolC) && le (shi - tolC) bhi
def axisTight (tolT slo shi blo bhi : α) : Bool := le (abs (blo - slo)) tolT && le (abs (bhi - shi)) tolT
def axisFast (tolC slo shi blo bhi flo fhi : α) : Bool := le flo (mn blo slo + tolC) && le (mx bhi shi - tolC) fhi

/-- Bounds contains every sample within `tolC`, each of its sides is within `tolT` of the sampled
extreme, FastBounds contains Bounds and the samples within `tolC`. -/
def verdict (tolC tolT : α) (s b f : Rct α) : Verdict :=
  if !axisContains tolC s.x0 s.x1 b.x0 b.x1 then .notContaining 0
  else if !axisTight tolT s.x0 s.x1 b.x0 b.x1 then .notTight 0
  else if !axisContains tolC s.y0 s.y1 b.y0 b.y1 then .notContaining 1
  else if !axisTight tolT s.y0 s.y1 b.y0 b.y1 then .notTight 1
  else if !axisFast tolC s.x0 s.x1 b.x0 b.x1 f.x0 f.x1 then .fastNotContaining 0
  else if !axisFast tolC s.y0 s.y1 b.y0 b.y1 f.y0 f.y1 then .fastNotContaining 1
  else .ok

/-- equivariance verdict: two rectangles agree within `tol` on every side -/
def rectNear (tol : α) (a b : Rct α) : Bool :=
  le (abs (a.x0 - b.x0)) tol && le (abs (a.y0 - b.y0)) tol && le (abs (a.x1 - b.x1)) tol && le (abs (a.y1 - b.y1)) tol

end

/-! ## Float-only parts: `math.Mod` and raw-data decoding -/

/-- `math.Mod`, exact: repeatedly subtract the largest `y·2^k ≤ r` (each subtraction is exact by
Sterbenz' lemma, scaling by 2 is exact), result carries the sign of `x` — the algorithm of Go's
math.Mod, so `angleNorm`/`angleBetween` are bit-identical to the library on identical inputs. -/
def fmodF (x y : Float) : Float :=
  if y == 0 || x.isNaN || y.isNaN || x.isInf then 0.0 / 0.0
  else if y.isInf then x
  else
    let ay := y.abs
    let rec grow (fuel : Nat) (t r : Float) : Float :=
      match fuel with
      | 0 => t
      | fuel + 1 => if t * 2 ≤ r then grow fuel (t * 2) r else t
    let rec go (fuel : Nat) (r : Float) : Float :=
      match fuel with
      | 0 => r
      | fuel + 1 => if r ≥ ay then go fuel (r - grow 2200 ay r) else r
    let r := go 2200 x.abs
    if x < 0 then -r else r

/-- decode the raw command array of a `Path` (framing as in path.go: cmd, args…, cmd) -/
partial def decode (d : Array Float) (i : Nat) (acc : List (Cmd Float)) : Option (List (Cmd Float)) :=
  if i ≥ d.size then some acc.reverse else
  let cmd := d[i]!
  let g (k : Nat) : Float := d[i + k]!
  if cmd == 1.0 then (if i + 4 ≤ d.size then decode d (i + 4) (.M ⟨g 1, g 2⟩ :: acc) else none)
  else if cmd == 2.0 then (if i + 4 ≤ d.size then decode d (i + 4) (.L ⟨g 1, g 2⟩ :: acc) else none)
  else if cmd == 32.0 then (if i + 4 ≤ d.size then decode d (i + 4) (.Z ⟨g 1, g 2⟩ :: acc) else none)
  else if cmd == 4.0 then (if i + 6 ≤ d.size then decode d (i + 6) (.Q ⟨g 1, g 2⟩ ⟨g 3, g 4⟩ :: acc) else none)
  else if cmd == 8.0 then (if i + 8 ≤ d.size then decode d (i + 8) (.C ⟨g 1, g 2⟩ ⟨g 3, g 4⟩ ⟨g 5, g 6⟩ :: acc) else none)
  else if cmd == 16.0 then
    (if i + 8 ≤ d.size then
      let f := g 4
      decode d (i + 8) (.A (g 1) (g 2) (g 3) (f == 1.0 || f == 3.0) (f == 2.0 || f == 3.0) ⟨g 5, g 6⟩ :: acc)
    else none)
  else none

end Canvas.C08
