import CanvasModel.Prelude
/-!
# C17 — L2 model of `text.Linebreak` (/repo/text/linebreak.go), generic over the scalar

Hand-written model of the complete algorithm: `computeAdjustmentRatio` (`adjRatio`), `computeSum`
(`sumAfter`), `mainLoop` (`mainGo`/`stepNode`/`flush`), the item loop with the restart and the
overflow fallback (`passLoop`), the final selection with looseness and the parent walk (`finish`).
The scalar `α` only needs the operator classes, so the same definitions run in `Float` (bit-exact
correspondence with the Go code: same running-sum arithmetic `lb.W - active.W`) and are reasoned
about over arbitrary instances (structural theorems) or ordered fields (arithmetic theorems).

Modelling decisions (each is checked by the correspondence run):
* `+Inf` (initial `Dmin`, `D[c]`, `nextTolerance`, the tolerance after the last relaxation) is `none`.
* `-Inf` as adjustment ratio (overfull line whose shrink difference is `0`: Go divides by zero) is
  `none` of `adjRatio`; such a ratio only deactivates the node.
* Go's linked lists are Lean lists (active list in order; inactive list in order of deactivation).
  A node carries the data of its ancestors (`anc`, nearest first) instead of a parent pointer.
* out-of-range read of `items[b+1]` is the explicit outcome `panic`.
* follows the repaired code (4231007, 79d35ec, d8a082d, 3b432db): inactive list reset after a forced
  break, fallback breakpoints measured by `sumAfter`, deactivation without the penalty width,
  non-positive stretch counts as unstretchable; and bb6487a: exact-fit guard (`snapL`, `snapR`), afcdce7: the same guard in the penalty-width deactivation test.
* NaN is not modelled (inputs are finite; no operation of the algorithm produces NaN from finite
  inputs of moderate size).
-/
namespace Canvas.C17

inductive Ty where
  | box | glue | penalty
deriving DecidableEq, Repr, Inhabited

structure Item (α : Type) where
  ty : Ty
  width : α
  stretch : α
  shrink : α
  penalty : α
  flagged : Bool

/-- the package-level tuning variables of text/linebreak.go -/
structure Params (α : Type) where
  tolerance : α
  demLine : α
  demFlagged : α
  demFitness : α
  infinity : α
  /-- the relative guard `1e-10` of `computeAdjustmentRatio` -/
  eps : α

/-- the data of one `Breakpoint` -/
structure ND (α : Type) where
  pos : Nat
  line : Nat
  fit : Nat
  width : α
  w : α
  y : α
  z : α
  ratio : α
  dem : α

/-- a `*Breakpoint`: its data and the data of its chain of parents (nearest first) -/
structure Node (α : Type) where
  d : ND α
  anc : List (ND α)

/-- candidate for one fitness class: `D[c]`, `A[c]`, `R[c]` -/
structure Cand (α : Type) where
  dem : α
  par : Node α
  ratio : α

/-- per-line-group state of `mainLoop`: the four class slots and `Dmin` (`none` = +Inf) -/
structure Grp (α : Type) where
  slots : List (Option (Cand α))
  dmin : Option α

/-- what `mainLoop` rewrites: active list, inactive list, `nextTolerance` -/
structure MOut (α : Type) where
  act : List (Node α)
  inact : List (Node α)
  nextTol : Option α

/-- the `linebreaker` state (plus the `overflows` flag of `Linebreak`) -/
structure LB (α : Type) where
  W : α
  Y : α
  Z : α
  act : List (Node α)
  inact : List (Node α)
  nextTol : Option α
  ovf : Bool

inductive PassRes (α : Type) where
  | panic
  | restart (tol : Option α) (ovf : Bool)
  | done (lb : LB α)

inductive Outcome (α : Type) where
  | panic
  | fuelOut
  | ok (breaks : List (ND α)) (fit : Bool)

section
variable {α : Type} [Add α] [Sub α] [Mul α] [Div α] [Neg α] [LT α] [LE α] [BEq α]
  [DecidableLT α] [DecidableLE α] [NatCast α]

/-- numeric literal of the Go source -/
@[inline] def k (n : Nat) : α := (n : α)

def half : α := k 1 / k 2

def absS (x : α) : α := if x < k 0 then -x else x

/-- `math.Min(m, x)` where `m = none` is +Inf -/
def minOpt (m : Option α) (x : α) : α :=
  match m with
  | none => x
  | some m => if x < m then x else m

/-- `x <= tolerance` with `none` = +Inf -/
def leTol (x : α) (tol : Option α) : Bool :=
  match tol with
  | none => true
  | some t => decide (x ≤ t)

/-- `tolerance < x` with `none` = +Inf -/
def ltTol (tol : Option α) (x : α) : Bool :=
  match tol with
  | none => false
  | some t => decide (t < x)

/-- `x < d` with `d = none` = +Inf -/
def ltOpt (x : α) (d : Option α) : Bool :=
  match d with
  | none => true
  | some d => decide (x < d)

/-- `tolerance != lb.nextTolerance` is `!tolEq` -/
def tolEq (a b : Option α) : Bool :=
  match a, b with
  | none, none => true
  | some a, some b => a == b
  | _, _ => false

def isForced (P : Params α) (it : Item α) : Bool :=
  it.ty = Ty.penalty && decide (it.penalty ≤ -P.infinity)

def root : Node α := ⟨⟨0, 0, 1, k 0, k 0, k 0, k 0, k 0, k 0⟩, []⟩

/-- `if math.Abs(L-lb.width) <= 1e-10*lb.width { L = lb.width }`: an exact fit is not lost to rounding -/
def snapL (P : Params α) (lineW L : α) : α := if absS (L - lineW) ≤ P.eps * lineW then lineW else L

/-- `if math.Abs(ratio+1.0) <= 1e-10 { ratio = -1.0 }` -/
def snapR (P : Params α) (r : α) : α := if absS (r + k 1) ≤ P.eps then -(k 1 : α) else r

/-- the case distinction of `computeAdjustmentRatio` for a line of natural width `L`, stretch `Yd`,
shrink `Zd`; `snap` is applied to the shrink ratio. `none` = −Inf. -/
def ratioCore (P : Params α) (lineW L Yd Zd : α) (snap : α → α) : Option α :=
  if L < lineW then
    if Yd ≤ k 0 then some (P.infinity * (k 1 + (lineW - L) / lineW))
    else
      let r := (lineW - L) / Yd
      some (if r < P.infinity then r else P.infinity)
  else if lineW < L then
    if Zd == k 0 then none
    else
      let r := snap ((lineW - L) / Zd)
      some (if r < P.infinity then r else P.infinity)
  else some (if k 0 < P.infinity then k 0 else P.infinity)

/-- natural width of the line: difference of the running sums plus the width of a penalty broken at -/
def lineLen (it : Item α) (W aw : α) : α := if it.ty = Ty.penalty then W - aw + it.width else W - aw

/-- `computeAdjustmentRatio`: line from the node with sums `(aw, ay, az)` to item `it` at which the
running sums are `(W, Y, Z)`. `none` = −Inf. -/
def adjRatio (P : Params α) (lineW : α) (it : Item α) (W Y Z aw ay az : α) : Option α :=
  ratioCore P lineW (snapL P lineW (lineLen it W aw)) (Y - ay) (Z - az) (snapR P)

/-- `computeSum`: running sums plus the glue swallowed by a break at the head of the list;
`first` is `i == 0` -/
def sumAfter (P : Params α) : Bool → List (Item α) → α × α × α → α × α × α
  | _, [], s => s
  | first, it :: rest, (W, Y, Z) =>
    if it.ty = Ty.box || (isForced P it && !first) then (W, Y, Z)
    else if it.ty = Ty.glue then sumAfter P false rest (W + it.width, Y + it.stretch, Z + it.shrink)
    else sumAfter P false rest (W, Y, Z)

def flaggedAt (items : List (Item α)) (pos : Nat) : Bool :=
  match items[pos]? with
  | some it => it.flagged
  | none => false

/-- fitness class of a ratio -/
def fitClass (r : α) : Nat :=
  if r < -(half : α) then 0 else if r ≤ (half : α) then 1 else if r ≤ k 1 then 2 else 3

/-- demerits of one line (without the parent's total) -/
def lineDemerits (P : Params α) (it : Item α) (r : α) (parFlagged : Bool) (parFit : Nat) : α :=
  let a := absS r
  let badness := k 100 * (a * a * a)
  let base := P.demLine + badness
  let d0 :=
    if it.ty = Ty.penalty && decide (k 0 ≤ it.penalty) then (base + it.penalty) * (base + it.penalty)
    else if it.ty = Ty.penalty && decide (-P.infinity < it.penalty) then base * base - it.penalty * it.penalty
    else base * base
  let d1 := if parFlagged && it.flagged then d0 + P.demFlagged else d0
  let c := fitClass r
  if c + 1 < parFit || parFit + 1 < c then d1 + P.demFitness else d1

/-- everything `mainLoop(b, tolerance)` reads besides the lists -/
structure Ctx (α : Type) where
  P : Params α
  items : List (Item α)
  lineW : α
  tol : Option α
  b : Nat
  it : Item α
  W : α
  Y : α
  Z : α

def emptyGrp : Grp α := ⟨[none, none, none, none], none⟩

def slotDem (g : Grp α) (c : Nat) : Option α :=
  match g.slots[c]? with
  | some (some cand) => some cand.dem
  | _ => none

/-- `tooLong || forced`: the node leaves the active list (ratio `none` = −Inf). At a penalty with
width the test is made on the line without the penalty width (a later break may still fit). -/
def deactivates (cx : Ctx α) (a : Node α) (r : Option α) : Bool :=
  (if cx.it.ty = Ty.penalty && !(cx.it.width == k 0) then
      decide (cx.lineW * (k 1 + cx.P.eps) < (cx.W - a.d.w) - (cx.Z - a.d.z))
    else (match r with | none => true | some r => decide (r < -(k 1 : α)))) || isForced cx.P cx.it

/-- `lb.activeNodes.Remove(active); lb.inactiveNodes.Push(active)` or keep -/
def moveNode (cx : Ctx α) (a : Node α) (r : Option α) (o : MOut α) : MOut α :=
  if deactivates cx a r then { o with inact := o.inact ++ [a] } else { o with act := o.act ++ [a] }

/-- `-1 <= ratio && ratio <= tolerance` -/
def feasibleR (cx : Ctx α) (r : α) : Bool := decide (-(k 1 : α) ≤ r) && leTol r cx.tol

/-- update of `D[c]`, `A[c]`, `R[c]`, `Dmin` -/
def updGrp (cx : Ctx α) (a : Node α) (r : α) (g : Grp α) : Grp α :=
  if feasibleR cx r then
    let d := lineDemerits cx.P cx.it r (flaggedAt cx.items a.d.pos) a.d.fit + a.d.dem
    let c := fitClass r
    if ltOpt d (slotDem g c) then
      ⟨g.slots.set c (some ⟨d, a, r⟩), if ltOpt d g.dmin then some d else g.dmin⟩
    else g
  else g

/-- `else if tolerance < ratio { lb.nextTolerance = math.Min(lb.nextTolerance, ratio) }` -/
def updTol (cx : Ctx α) (r : α) (o : MOut α) : MOut α :=
  if feasibleR cx r then o
  else if ltTol cx.tol r then { o with nextTol := some (minOpt o.nextTol r) }
  else o

/-- body of the inner loop for one active node -/
def stepNode (cx : Ctx α) (a : Node α) (g : Grp α) (o : MOut α) : Grp α × MOut α :=
  let r := adjRatio cx.P cx.lineW cx.it cx.W cx.Y cx.Z a.d.w a.d.y a.d.z
  let o1 := moveNode cx a r o
  match r with
  | none => (g, o1)
  | some r => (updGrp cx a r g, updTol cx r o1)

/-- the new breakpoints of one line group, classes in increasing order -/
def emit (cx : Ctx α) (width : α) (s : α × α × α) (dm : α) : Nat → List (Option (Cand α)) → List (Node α)
  | _, [] => []
  | c, none :: rest => emit cx width s dm (c + 1) rest
  | c, some cand :: rest =>
    if cand.dem ≤ dm + cx.P.demFitness then
      (⟨⟨cx.b, cand.par.d.line + 1, c, width, s.1, s.2.1, s.2.2, cand.ratio, cand.dem⟩,
        cand.par.d :: cand.par.anc⟩ : Node α) :: emit cx width s dm (c + 1) rest
    else emit cx width s dm (c + 1) rest

/-- end of one line group: insert the new breakpoints before the next group -/
def flush (cx : Ctx α) (width : α) (s : α × α × α) (g : Grp α) (o : MOut α) : MOut α :=
  match g.dmin with
  | none => o
  | some dm => { o with act := o.act ++ emit cx width s dm 0 g.slots }

/-- `mainLoop`: the outer loop over line groups and the inner loop over the nodes of one group -/
def mainGo (cx : Ctx α) (width : α) (s : α × α × α) : List (Node α) → Grp α → MOut α → MOut α
  | [], g, o => flush cx width s g o
  | a :: rest, g, o =>
    let (g1, o1) := stepNode cx a g o
    match rest with
    | [] => flush cx width s g1 o1
    | nx :: _ =>
      if a.d.line + 1 ≤ nx.d.line then mainGo cx width s rest emptyGrp (flush cx width s g1 o1)
      else mainGo cx width s rest g1 o1

def mainLoop (P : Params α) (items : List (Item α)) (lineW : α) (tol : Option α) (b : Nat)
    (it : Item α) (rest : List (Item α)) (lb : LB α) : LB α :=
  let cx : Ctx α := ⟨P, items, lineW, tol, b, it, lb.W, lb.Y, lb.Z⟩
  let s := sumAfter P true (it :: rest) (lb.W, lb.Y, lb.Z)
  let width := if it.ty = Ty.penalty then lb.W + it.width else lb.W
  let o := mainGo cx width s lb.act emptyGrp ⟨[], lb.inact, lb.nextTol⟩
  { lb with act := o.act, inact := o.inact, nextTol := o.nextTol }

/-- `minWidth` of the overflow fallback (`none` = +Inf) -/
def minWidthOf (W : α) : List (Node α) → Option α → Option α
  | [], m => m
  | p :: rest, m => minWidthOf W rest (some (minOpt m (W - p.d.w)))

def fallbackNodes (b : Nat) (width : α) (s : α × α × α) (W : α) (mw : α) : List (Node α) → List (Node α)
  | [] => []
  | p :: rest =>
    if (W - p.d.w) == mw then
      (⟨⟨b, p.d.line + 1, 1, width, s.1, s.2.1, s.2.2, k 0, p.d.dem + k 1000⟩, p.d :: p.anc⟩ : Node α)
        :: fallbackNodes b width s W mw rest
    else fallbackNodes b width s W mw rest

/-- `0 < b && lb.items[b-1].Type == BoxType` -/
def prevIsBox (prev : Option (Item α)) : Bool :=
  match prev with
  | some p => decide (p.ty = Ty.box)
  | none => false

/-- `lb.inactiveNodes = &Breakpoints{}` at the top of the iteration that follows a forced break -/
def clearStale (P : Params α) (prev : Option (Item α)) (lb : LB α) : LB α :=
  match prev with
  | some p => if isForced P p then { lb with inact := [] } else lb
  | none => lb

/-- the glue's own width, stretch and shrink are added at the end of the iteration -/
def addGlue (it : Item α) (lb : LB α) : LB α :=
  if it.ty = Ty.glue then { lb with W := lb.W + it.width, Y := lb.Y + it.stretch, Z := lb.Z + it.shrink } else lb

/-- the part of the item loop before `// do something drastic`; `none` = index out of range -/
def itemStep (P : Params α) (items : List (Item α)) (lineW : α) (tol : Option α) (b : Nat)
    (prev : Option (Item α)) (it : Item α) (rest : List (Item α)) (lb : LB α) : Option (LB α) :=
  match it.ty with
  | Ty.box => some { lb with W := lb.W + it.width }
  | Ty.glue =>
    let prevBox := prevIsBox prev
    if prevBox then
      match rest with
      | [] => none
      | nx :: _ =>
        if nx.ty ≠ Ty.penalty then some (mainLoop P items lineW tol b it rest lb) else some lb
    else some lb
  | Ty.penalty =>
    if it.penalty < P.infinity then some (mainLoop P items lineW tol b it rest lb) else some lb

/-- `// do something drastic since there is no feasible solution`; `none` = `goto START`.
The fallback breakpoint is measured as `mainLoop` measures a break at `b`. -/
def drastic (P : Params α) (tol : Option α) (b : Nat) (it : Item α) (rest : List (Item α)) (lb : LB α) :
    Option (LB α) :=
  match lb.act with
  | _ :: _ => some lb
  | [] =>
    if !tolEq tol lb.nextTol then none
    else
      match minWidthOf lb.W lb.inact none with
      | none => some { lb with ovf := true }
      | some mw =>
        let s := sumAfter P true (it :: rest) (lb.W, lb.Y, lb.Z)
        let width := if it.ty = Ty.penalty then lb.W + it.width else lb.W
        some { lb with ovf := true, act := fallbackNodes b width s lb.W mw lb.inact }

/-- one run of the item loop (from `START:`) -/
def passLoop (P : Params α) (items : List (Item α)) (lineW : α) (tol : Option α) :
    Nat → Option (Item α) → List (Item α) → LB α → PassRes α
  | _, _, [], lb => PassRes.done lb
  | b, prev, it :: rest, lb =>
    match itemStep P items lineW tol b prev it rest (clearStale P prev lb) with
    | none => PassRes.panic
    | some lb1 =>
      match drastic P tol b it rest lb1 with
      | none => PassRes.restart lb1.nextTol lb1.ovf
      | some lb2 => passLoop P items lineW tol (b + 1) (some it) rest (addGlue it lb2)

def initLB (ovf : Bool) : LB α := ⟨k 0, k 0, k 0, [root], [], none, ovf⟩

/-- `// choose the active node with fewest total demerits` (first strict minimum) -/
def chooseBest : List (Node α) → Option (Node α) → Option (Node α)
  | [], b => b
  | a :: rest, none => chooseBest rest (some a)
  | a :: rest, some b => chooseBest rest (if a.d.dem < b.d.dem then some a else some b)

/-- `// choose the appropriate active node` for looseness ≠ 0 -/
def chooseLoose (loose : Int) (kLine : Nat) : List (Node α) → Int → Node α → Node α
  | [], _, b => b
  | a :: rest, s, b =>
    let delta : Int := (a.d.line : Int) - (kLine : Int)
    if (loose ≤ delta && delta < s) || (s < delta && delta ≤ loose) then chooseLoose loose kLine rest delta a
    else if delta == s && decide (a.d.dem < b.d.dem) then chooseLoose loose kLine rest s a
    else chooseLoose loose kLine rest s b

def clampRatio (P : Params α) (d : ND α) : ND α :=
  if d.ratio < -(k 1 : α) || P.tolerance < d.ratio then { d with ratio := k 0 } else d

/-- the parent walk: `Width -= parent.W`, ratio clamp; input nearest first -/
def fixChain (P : Params α) : List (ND α) → List (ND α)
  | [] => []
  | [r] => [clampRatio P r]
  | c :: p :: rest => { clampRatio P c with width := c.width - p.w } :: fixChain P (p :: rest)

def finish (P : Params α) (nItems : Nat) (loose : Int) (lb : LB α) : Outcome α :=
  match chooseBest lb.act none with
  | none => Outcome.ok [⟨nItems - 1, 0, 0, k 0, k 0, k 0, k 0, k 0, k 0⟩] (!lb.ovf)
  | some b0 =>
    let b := if loose ≠ 0 then chooseLoose loose b0.d.line lb.act 0 b0 else b0
    let chain := (fixChain P (b.d :: b.anc)).reverse
    let breaks := if 1 < chain.length then chain.drop 1 else chain
    Outcome.ok breaks (!lb.ovf)

def linebreakFuel (P : Params α) (items : List (Item α)) (lineW : α) (loose : Int) :
    Nat → Option α → Bool → Outcome α
  | 0, _, _ => Outcome.fuelOut
  | f + 1, tol, ovf =>
    match passLoop P items lineW tol 0 none items (initLB ovf) with
    | PassRes.panic => Outcome.panic
    | PassRes.restart nt ovf' => linebreakFuel P items lineW loose f nt ovf'
    | PassRes.done lb => finish P items.length loose lb

/-- enough passes for every input (theorem `C17.terminates`) -/
def fuelFor (n : Nat) : Nat := (2 * n + 2) * n + 3

/-- `text.Linebreak(items, width, looseness)` -/
def linebreak (P : Params α) (items : List (Item α)) (lineW : α) (loose : Int) : Outcome α :=
  linebreakFuel P items lineW loose (fuelFor items.length) (some P.tolerance) false

end

instance : NatCast Float := ⟨Float.ofNat⟩

def defaultParams : Params Float := ⟨2.0, 10.0, 100.0, 100.0, 1000.0, 1e-10⟩

end Canvas.C17
