import CanvasModel.C12
/-!
# C12 — verdict on the REAL PDF content stream, decided in Lean

`tokRun` interprets the token text the real back-end wrote (numbers as printed, path data abstracted to
`P`/`Ph`, `cm` operands to `M`) with the PDF graphics state (colour, both alphas through the page's ExtGState
resources, line width, cap, join, miter limit, dashes, current path, q/Q stack), resolving every resource name
in the page's resource lists, into observed items. `expected` turns the reference items of the call
(`pdfRef` of the model, resp. one opaque image) into the same vocabulary. `matchItems` compares them with an
explicit closeness predicate on numbers and returns the first failure class or `none`.
The Go side only tokenises and hands over the observation.
-/
namespace Canvas.C12.Verdict
open Canvas.C12

/-- colour as the content stream states it -/
inductive TShade (ν : Type) where
  | rgb (r g b : ν)
  | pat (name : String)

inductive TItem (ν : Type) where
  | fill (outline : Bool) (eo : Bool) (sh : TShade ν) (alpha : ν)
  | stroke (outline : Bool) (closes : Bool) (sh : TShade ν) (alpha : ν) (lw : ν) (cap join : Nat) (ml : Option ν)
      (dash : List ν) (phase : ν)
  | image (alpha : ν)
  | invalid (why : String)

/-! ## matching (generic in the number type and the closeness predicate) -/
section Match
variable {ν : Type} (close : ν → ν → Bool)

def closeList : List ν → List ν → Bool
  | [], [] => true
  | x :: xs, y :: ys => close x y && closeList xs ys
  | _, _ => false

def closeOpt : Option ν → Option ν → Bool
  | none, none => true
  | some x, some y => close x y
  | _, _ => false

/-- gradient identity ↔ resource name, bound at first sight (`bind`), must stay consistent on the page -/
abbrev Bind := List (String × String)

def shadeOk (b : Bind) : TShade ν → TShade ν → Bool × Bind
  | .rgb r g bl, .rgb r' g' b' => (close r r' && close g g' && close bl b', b)
  | .pat want, .pat got =>
    match b.lookup want with
    | some n => (n == got, b)
    | none => (!(b.any (fun e => e.2 == got)), (want, got) :: b)
  | _, _ => (false, b)

/-- the first failing check of a list `(failed?, class)` -/
def firstFail : List (Bool × String) → Option String
  | [] => none
  | (bad, c) :: rest => if bad then some c else firstFail rest

/-- first difference between an expected and an observed item (`none` = they match) -/
def itemDiff (b : Bind) : TItem ν → TItem ν → Option String × Bind
  | .fill o eo sh a, .fill o' eo' sh' a' =>
    let r := shadeOk close b sh sh'
    (firstFail [(o != o', "path"), (eo != eo', "fill-rule"), (!r.1, "colour"), (!close a a', "alpha")], r.2)
  | .stroke o cl sh a lw c j ml da ph, .stroke o' cl' sh' a' lw' c' j' ml' da' ph' =>
    let r := shadeOk close b sh sh'
    (firstFail [(o != o', "path"), (cl != cl', "closing"), (!r.1, "colour"), (!close a a', "alpha"), (!close lw lw', "width"),
      (c != c', "cap"), (j != j', "join"), (!closeOpt close ml ml', "miterlimit"),
      (!(closeList close da da' && close ph ph'), "dashes")], r.2)
  | .image a, .image a' => (firstFail [(!close a a', "alpha-image")], b)
  | _, .invalid why => (some ("invalid:" ++ why), b)
  | _, _ => (some "order", b)

def matchItems (b : Bind) : List (TItem ν) → List (TItem ν) → Option String × Bind
  | [], [] => (none, b)
  | e :: es, o :: os =>
    match itemDiff close b e o with
    | (some c, b') => (some c, b')
    | (none, b') => matchItems b' es os
  | [], .invalid why :: _ => (some ("invalid:" ++ why), b)
  | _, _ => (some "order", b)

end Match

/-! ## the token interpreter (executable at `Float`) -/

def dropFirst (s : String) : String := String.ofList (s.toList.drop 1)

def digitsNat (l : List Char) : Nat := l.foldl (fun acc c => acc * 10 + (c.toNat - '0'.toNat)) 0

/-- decimal text as the back-end prints it (`12`, `.5`, `-1.25`) -/
def parseDec (s : String) : Option Float :=
  let l := s.toList
  let neg := l.head? == some '-'
  let t := if neg || l.head? == some '+' then l.drop 1 else l
  let i := t.takeWhile (· != '.')
  let f := (t.dropWhile (· != '.')).drop 1
  let hasDot := t.contains '.'
  if (i.isEmpty && f.isEmpty) || !i.all Char.isDigit || !f.all Char.isDigit || (!hasDot && i.isEmpty) then none
  else some ((if neg then -1.0 else 1.0) * Float.ofScientific (digitsNat (i ++ f)) true f.length)

structure TGS where
  fill : TShade Float
  stroke : TShade Float
  ca : Float
  CA : Float
  lw : Float
  cap : Nat
  join : Nat
  ml : Float
  dash : List Float
  phase : Float

structure TG extends TGS where
  cur : Option Bool          -- current path: `some h` (h: the data ends with `h`, i.e. the explicit outline)
  saved : List TGS
  opnd : List String         -- operand stack (most recent first)

def tg0 : TG :=
  { fill := .rgb 0 0 0, stroke := .rgb 0 0 0, ca := 1, CA := 1, lw := 1, cap := 0, join := 0, ml := 10, dash := [], phase := 0,
    cur := none, saved := [], opnd := [] }

/-- resources of one page -/
structure Res where
  ext : List (String × Float × Float)   -- name, CA, ca
  pats : List String
  xobjs : List String

def nums (l : List String) : Option (List Float) := l.mapM parseDec

def strokeItem (g : TG) (h : Bool) (closes : Bool) : TItem Float :=
  .stroke h closes g.stroke g.CA g.lw g.cap g.join (if g.join == 0 then some g.ml else none) g.dash g.phase

def bad (g : TG) (why : String) : TG × List (TItem Float) := ({ g with opnd := [] }, [.invalid why])

/-- one token; operands are pushed, operators consume them -/
def tokStep (res : Res) (g : TG) (t : String) : TG × List (TItem Float) :=
  let ops := g.opnd
  let g0 : TG := { g with opnd := [] }
  if (parseDec t).isSome || t == "[" || t == "]" || t.startsWith "/" then ({ g with opnd := t :: g.opnd }, []) else
  match t with
  | "g" => match nums ops with
    | some [x] => ({ g0 with fill := .rgb x x x }, [])
    | _ => bad g "g operands"
  | "G" => match nums ops with
    | some [x] => ({ g0 with stroke := .rgb x x x }, [])
    | _ => bad g "G operands"
  | "rg" => match nums ops with
    | some [b, gg, r] => ({ g0 with fill := .rgb r gg b }, [])
    | _ => bad g "rg operands"
  | "RG" => match nums ops with
    | some [b, gg, r] => ({ g0 with stroke := .rgb r gg b }, [])
    | _ => bad g "RG operands"
  | "cs" => if ops == ["/Pattern"] then (g0, []) else bad g "colour space"
  | "CS" => if ops == ["/Pattern"] then (g0, []) else bad g "colour space"
  | "scn" => match ops with
    | [n] => if res.pats.contains (dropFirst n) then ({ g0 with fill := .pat (dropFirst n) }, [])
             else bad g "undefined-resource"
    | _ => bad g "scn operands"
  | "SCN" => match ops with
    | [n] => if res.pats.contains (dropFirst n) then ({ g0 with stroke := .pat (dropFirst n) }, [])
             else bad g "undefined-resource"
    | _ => bad g "SCN operands"
  | "gs" => match ops with
    | [n] => match res.ext.lookup (dropFirst n) with
      | some (bigA, smallA) => ({ g0 with CA := bigA, ca := smallA }, [])
      | none => bad g "undefined-resource"
    | _ => bad g "gs operands"
  | "w" => match nums ops with
    | some [x] => ({ g0 with lw := x }, [])
    | _ => bad g "w operands"
  | "M" => match nums ops with
    | some [x] => ({ g0 with ml := x }, [])
    | _ => bad g "M operands"
  | "J" => match ops with
    | [n] => match n.toNat? with
      | some k => if k ≤ 2 then ({ g0 with cap := k }, []) else bad g "J operand"
      | none => bad g "J operand"
    | _ => bad g "J operands"
  | "j" => match ops with
    | [n] => match n.toNat? with
      | some k => if k ≤ 2 then ({ g0 with join := k }, []) else bad g "j operand"
      | none => bad g "j operand"
    | _ => bad g "j operands"
  | "d" => match ops with
    | ph :: "]" :: rest =>
      match parseDec ph, rest.reverse with
      | some p, "[" :: arr =>
        match nums arr with
        | some a => if p < 0 then bad g "negative dash phase" else ({ g0 with dash := a, phase := p }, [])
        | none => bad g "d array"
      | _, _ => bad g "d operands"
    | _ => bad g "d operands"
  | "P" => ({ g0 with cur := some false }, [])
  | "Ph" => ({ g0 with cur := some true }, [])
  | "n" => ({ g0 with cur := none }, [])
  | "W" => (g0, [])
  | "q" => ({ g0 with saved := g.toTGS :: g.saved }, [])
  | "Q" => match g.saved with
    | s :: rest => ({ toTGS := s, cur := none, saved := rest, opnd := [] }, [])
    | [] => bad g "Q without q"
  | "cm" => (g0, [])
  | "Do" => match ops with
    | [n] => if res.xobjs.contains (dropFirst n) then (g0, [.image g.ca]) else bad g "undefined-resource"
    | _ => bad g "Do operands"
  | _ =>
    match g.cur with
    | none => bad g ("operator " ++ t)
    | some h =>
      let g1 : TG := { g0 with cur := none }
      let fillI := fun (eo : Bool) => TItem.fill h eo g.fill g.ca
      match t with
      | "f" => (g1, [fillI false])
      | "f*" => (g1, [fillI true])
      | "S" => (g1, [strokeItem g h false])
      | "s" => (g1, [strokeItem g h true])
      | "B" => (g1, [fillI false, strokeItem g h false])
      | "B*" => (g1, [fillI true, strokeItem g h false])
      | "b" => (g1, [fillI false, strokeItem g h true])
      | "b*" => (g1, [fillI true, strokeItem g h true])
      | _ => bad g ("operator " ++ t)

def tokRun (res : Res) : TG → List String → TG × List (TItem Float)
  | g, [] => (g, [])
  | g, t :: ts =>
    let r := tokStep res g t
    let r2 := tokRun res r.1 ts
    (r2.1, r.2 ++ r2.2)

/-- `M cm` (abstracted matrix) → `cm` -/
def dropM : List String → List String
  | "M" :: "cm" :: rest => "cm" :: dropM rest
  | t :: rest => t :: dropM rest
  | [] => []

/-! ## expected items from the model's reference -/

def comp (x a : Nat) : Float := Float.ofNat x / 255.0 / (Float.ofNat a / 255.0)

def expShade : Shade → TShade Float
  | .rgb r g b a => .rgb (comp r a) (comp g a) (comp b a)
  | .pat i => .pat (toString i)

def isOutline : List PathRef → Bool
  | [.outline _] => true
  | _ => false

def expected : Painted Float → TItem Float
  | .fill p eo sh a => .fill (isOutline p) eo (expShade sh) (Float.ofNat a / 255.0)
  | .stroke p cl sh a lw c j ml da ph => .stroke (isOutline p) cl (expShade sh) (Float.ofNat a / 255.0) lw c j ml da ph
  | .image _ a => .image (Float.ofNat a / 255.0)
  | .invalid why => .invalid why

def fclose (x y : Float) : Bool := Float.abs (x - y) <= 1e-6 * (1.0 + Float.abs x + Float.abs y)

end Canvas.C12.Verdict
