import CanvasModel.Region
/-!
C01, sweep: the contract between `addIntersections` / `splitAtIntersections` and the event queue
(path_intersection.go). `bentleyOttmann` sorts the events of a square a second time exactly when
`addIntersections` reports a change; the report must therefore be raised whenever the queue
received new events (a segment was split), not only when both segments were split.

The model works on exact coordinates (float64 bit patterns decoded to one dyadic scale): the code
compares points with `==`.

  ADDX <aIn> <bIn> a0x a0y a1x a1y b0x b0y b1x b1y Z <k> z1x z1y …   →   <ret> <pushed>

`aIn`/`bIn`: the segment is already in the sweep status (`node != nil`). Since 4e53250 a segment in
the status is never split directly below its left end point (the piece before the cut would be
vertical and need reversal, the old "impossible: first segment became vertical" panic), and an
intersection directly below the left end points of both segments is dropped.
-/
namespace Canvas.C01Split
open Canvas Canvas.Wn Canvas.Region

/-- `splitAtIntersections`: walks the intersection points from the last to the first, skipping a
point equal to the segment's left end or to its CURRENT right end (the previous split point takes
over as right end of the first piece); every other point splits the segment once. Returns the
number of splits. `zsRev` is the list of intersections reversed. -/
def splits (sIn : Bool) : List IPt → IPt → IPt → Nat
  | [], _, _ => 0
  | z :: zs, s0, s1 =>
    if z == s0 || z == s1 then splits sIn zs s0 s1
    else if sIn && z.x == s0.x && z.y < s0.y then splits sIn zs s0 s1   -- in the status: not split below its left end
    else splits sIn zs s0 z + 1

/-- the `changed` flag `splitAtIntersections` returns -/
def changed (sIn : Bool) (zs : List IPt) (s0 s1 : IPt) : Bool := splits sIn zs.reverse s0 s1 != 0

/-- `addIntersections` drops an intersection directly below the left end points of both segments
when one of them is in the status -/
def keepZ (aIn bIn : Bool) (a0 b0 : IPt) (zs : List IPt) : List IPt :=
  zs.filter (fun z => !(z.x == a0.x && z.y < a0.y && z.x == b0.x && z.y < b0.y && (aIn || bIn)))

/-- every split pushes the two new end points (`queue.Push(right); queue.Push(left)`) -/
def pushed (aIn bIn : Bool) (zs : List IPt) (a0 a1 b0 b1 : IPt) : Nat :=
  2 * splits aIn (keepZ aIn bIn a0 b0 zs).reverse a0 a1 + 2 * splits bIn (keepZ aIn bIn a0 b0 zs).reverse b0 b1

/-- the value `addIntersections` returns for a left-endpoint event -/
def addRet (aIn bIn : Bool) (zs : List IPt) (a0 a1 b0 b1 : IPt) : Bool :=
  if (keepZ aIn bIn a0 b0 zs).isEmpty then false
  else changed aIn (keepZ aIn bIn a0 b0 zs) a0 a1 || changed bIn (keepZ aIn bIn a0 b0 zs) b0 b1

def toPt (e0 : Int) (p : RawPt) : IPt := toI e0 p

def handle : List String → Option String
  | "ADDX" :: aIn :: bIn :: ts => do
    let aIn := aIn == "1"
    let bIn := bIn == "1"
    let (seg, ts) ← parsePts 4 ts
    match ts with
    | "Z" :: k :: ts => do
      let k ← k.toNat?
      let (zs, _) ← parsePts k ts
      let e0 := minExp (rawExps seg ++ rawExps zs)
      match seg.map (toPt e0) with
      | [a0, a1, b0, b1] =>
        let z := zs.map (toPt e0)
        pure s!"{addRet aIn bIn z a0 a1 b0 b1} {pushed aIn bIn z a0 a1 b0 b1}"
      | _ => none
    | _ => none
  | _ => none

end Canvas.C01Split
