import CanvasModel.Region
/-!
C06 L2 model of `windings(zs)` (path.go): the accumulation over the sorted ray intersections with
its one-element look-ahead. Since 0cf6beb an end-point hit that is the last element of the list (end
point of an open subpath) stops the loop instead of reading `zs[i+1]`: the function is total.
-/
namespace Canvas.C06

/-- what `windings` looks at in one intersection -/
structure Z where
  t0zero : Bool     -- T[0] == 0: the ray starts on the path
  into : Bool       -- Into(): the path goes downwards through the ray
  endpoint : Bool   -- T[1] ∈ {0,1}: the hit is at a segment end point
  same : Bool       -- overlapping (horizontal segment on the ray)
deriving Repr, DecidableEq

inductive Outcome where
  | ok (n : Int) (boundary : Bool)
deriving Repr, DecidableEq

def dir (z : Z) : Int := if z.into then -1 else 1

/-- the loop of `windings`, by recursion on the remaining list. `st = (overlap, overlapInto)`:
inside an overlapping (horizontal) section, and how the path entered it. -/
def go : List Z → Int → Bool → Bool × Bool → Outcome
  | [], n, b, _ => .ok n b
  | z :: rest, n, b, st =>
    if z.t0zero then go rest n true st
    else if !z.endpoint then go rest (if z.same then n else n + dir z) b st
    else
      match rest with
      | [] => .ok n b   -- `if i+1 == len(zs) { break }`: no adjoining segment to pair with
      | z2 :: rest' =>
        if !(z.same || z2.same) then
          go rest' (if z.into == z2.into then n + dir z else n) b st
        else if z.same != z2.same then
          -- one end of an overlapping section: remember how the path entered, count on leaving
          let into := if z.same then z2.into else z.into
          if !st.1 then go rest' n b (true, into)
          else go rest' (if into == st.2 then (if into then n - 1 else n + 1) else n) b (false, st.2)
        else go rest' n b st
termination_by l => l.length

def windings (zs : List Z) : Outcome := go zs 0 false (false, false)

def b01 (s : String) : Bool := s == "1"

def parseZs : List String → Option (List Z)
  | [] => some []
  | a :: b :: c :: d :: rest => (parseZs rest).map (fun l => ⟨b01 a, b01 b, b01 c, b01 d⟩ :: l)
  | _ => none

def handle : List String → Option String
  | "WIND" :: rest => do
    let zs ← parseZs rest
    match windings zs with
    | .ok n b => pure s!"{n} {if b then 1 else 0}"
  | "REGION" :: rest => Canvas.Region.handle rest
  | _ => none

end Canvas.C06
