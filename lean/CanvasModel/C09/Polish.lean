import CanvasModel.C09
/-!
# C09 — model of `invSpeedApprox` (util.go, 56b2370): panel length table and polish loop

`invSpeedApprox` keeps the estimate of the Chebyshev polynomial when its residual
`|fLength(t) - L|` is within 0.1% of the total length and otherwise polishes it by Newton's method on
`fLength` (derivative = speed `fp`), bisecting whenever a step leaves the bracket, at most 10 iterations.
`fLength(t)` = cumulative 16-panel table + one rule over the rest of the panel.

Generic in the scalar (`PolishOps`): the same definitions are run on `Float` against the real code and
reasoned about over an ordered field.  Abstract: the estimate of the polynomial (passed in from the
real code) and - in the theorems - `fLength` and `fp`.  Core Lean only.
-/
namespace Canvas.C09

variable {α : Type}

structure PolishOps (α : Type) where
  zero : α
  add : α → α → α
  sub : α → α → α
  mul : α → α → α
  div : α → α → α
  abs : α → α
  le : α → α → Bool
  lt : α → α → Bool
  /-- `x / 2.0` -/
  half : α → α
  /-- `math.Copysign(x, s)` -/
  copysign : α → α → α

/-- state of the loop: `t, lo, hi` -/
structure PState (α : Type) where
  t : α
  lo : α
  hi : α

variable (P : PolishOps α) (fL fp : α → α) (h L tol : α)

/-- one iteration; `none` = `break` (the residual is within the tolerance) -/
def polishStep (s : PState α) : Option (PState α) :=
  let dL := P.sub (fL s.t) L
  if P.le (P.abs dL) tol then none
  else
    let lo := if P.lt dL P.zero then s.t else s.lo
    let hi := if P.lt dL P.zero then s.hi else s.t
    let t' := P.sub s.t (P.div dL (P.copysign (fp s.t) h))
    let t'' := if P.lt (P.mul (P.sub t' lo) (P.sub t' hi)) P.zero then t' else P.half (P.add lo hi)
    some ⟨t'', lo, hi⟩

/-- result of the loop -/
structure PResult (α : Type) where
  st : PState α
  /-- left by `break` -/
  converged : Bool
  /-- iterations that updated `t` -/
  iters : Nat

/-- `for i := 0; i < n; i++ { … }` -/
def polishLoop : Nat → PState α → PResult α
  | 0, s => ⟨s, false, 0⟩
  | n + 1, s =>
    match polishStep P fL fp h L tol s with
    | none => ⟨s, true, 0⟩
    | some s' =>
      let r := polishLoop n s'
      ⟨r.st, r.converged, r.iters + 1⟩

/-- the function `invSpeedApprox` returns, given the estimate of the polynomial for this `L` -/
def polish (tmin tmax est : α) : α := (polishLoop P fL fp h L tol 10 ⟨est, tmin, tmax⟩).st.t

end Canvas.C09
