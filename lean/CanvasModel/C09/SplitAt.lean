import CanvasModel.C09
/-!
# C09 — structural model of `Path.SplitAt` (path.go, after 221f70c / 6f95aa6 / fc041fc)

Everything `SplitAt` does except the numerics of the arc-length inversion: sorting a copy of the
positions, dropping a leading 0, walking over the subpaths of `Split()`, the selection of the cuts
that fall into a segment (`T < ts[j] && ts[j] <= T+dT`), the cutting loops (lines: interpolation on
the whole segment; Béziers: `cutsGen`; arcs: monotone clamp, `ellipseSplit` flags), the builder calls
that assemble the pieces (`Canvas.Path.moveTo/lineTo/quadTo/cubeTo/arcTo`), `push`, the remainder
tests `Tcurve < T+dT`, `!Equal(t0, 1)`, `!Equal(startTheta, theta2)` and the final push.

Abstract (an *oracle* per drawing segment, `SegOracle`): the segment length `dT` SplitAt advances by,
the estimates of the Chebyshev polynomial for the cuts that fall into the segment, the polish function
of `invSpeedApprox`, and for arcs the centre form `ellipseToCenter` returns.  The correspondence driver
computes `dT` (math.Hypot / 16-panel Gauss–Legendre table) and the polish loop (`CanvasModel/C09/Polish.lean`)
itself from the geometry and receives only the polynomial's estimates and the centre form from the
real code (hook); the theorems leave all of them arbitrary.

Generic in the scalar; core Lean only.
-/
namespace Canvas.C09
open Canvas Canvas.Path

variable {α : Type}

/-- what the model does not compute itself for one drawing segment -/
structure SegOracle (α : Type) where
  /-- segment length used for `T += dT` and for selecting the cuts -/
  dT : α
  /-- for the selected cuts, in order: the estimate of the Chebyshev polynomial
  `invL((ts[j]-T)/totalLength*approxLength)` (parameters for Béziers, angles for arcs) -/
  inv : List α
  /-- the polish step of `invSpeedApprox` (56b2370): requested local arc length `ts[j]-T` and estimate ↦
  the parameter the cut is made at -/
  polish : α → α → α
  /-- `cx, cy, theta1, theta2` of `ellipseToCenter` (arcs only) -/
  cx : α
  cy : α
  th1 : α
  th2 : α

/-- scalar operations and the few geometric functions of the loop -/
structure SplitOps (α : Type) where
  zero : α
  one : α
  add : α → α → α
  sub : α → α → α
  div : α → α → α
  lt : α → α → Bool
  le : α → α → Bool
  /-- `Equal` (util.go:23) -/
  eq : α → α → Bool
  /-- `Point.Interpolate` -/
  interp : Pt α → Pt α → α → Pt α
  /-- left / right part of `quadraticBezierSplit`, `cubicBezierSplit` -/
  quadL : Pt α × Pt α × Pt α → α → Pt α × Pt α × Pt α
  quadR : Pt α × Pt α × Pt α → α → Pt α × Pt α × Pt α
  cubeL : Pt α × Pt α × Pt α × Pt α → α → Pt α × Pt α × Pt α × Pt α
  cubeR : Pt α × Pt α × Pt α × Pt α → α → Pt α × Pt α × Pt α × Pt α
  /-- `EllipsePos(rx, ry, phi, cx, cy, theta)` -/
  ellipsePos : α → α → α → α → α → α → Pt α
  /-- `angleBetween(theta, lower, upper)` -/
  angleBetween : α → α → α → Bool
  /-- `math.Abs(a-b)` -/
  absSub : α → α → α
  /-- `x > math.Pi` -/
  gtPi : α → Bool

/-- insertion sort (`sort.Float64s` on a copy) -/
def insertSorted (le : α → α → Bool) (x : α) : List α → List α
  | [] => [x]
  | y :: ys => if le x y then x :: y :: ys else y :: insertSorted le x ys

def sortBy (le : α → α → Bool) (l : List α) : List α := l.foldr (insertSorted le) []

/-- the state of the walk: current piece `q`, finished pieces (newest first), remaining positions,
position `T` along the path; `none` = the real code panics -/
structure SState (α : Type) where
  q : RPath α
  qs : List (RPath α)
  rem : List α
  T : α

def SState.push (s : SState α) : SState α := { s with qs := s.q :: s.qs, q := [] }

variable (G : Geo α) (O : SplitOps α)

/-- the positions at the head of `rem` that fall into `(T, T+dT]` -/
def selectCuts (T dT : α) : List α → List α × List α
  | [] => ([], [])
  | t :: ts =>
    if O.lt T t && O.le t (O.add T dT) then
      let r := selectCuts T dT ts
      (t :: r.1, r.2)
    else ([], t :: ts)

/-- LineTo / Close case (path.go:1559-1581) -/
def lineCase (start e : Pt α) (dT : α) (s : SState α) : SState α :=
  if s.rem.isEmpty then { s with q := lineTo G e s.q }
  else
    let sel := selectCuts O s.T dT s.rem
    let s1 := sel.1.foldl (fun (acc : SState α × α) t =>
        let pos := O.interp start e (O.div (O.sub t s.T) dT)
        let st := acc.1
        let st := { st with q := lineTo G pos st.q }
        let st := st.push
        ({ st with q := moveTo pos st.q }, t)) (s, s.T)
    let st := s1.1
    let st := if O.lt s1.2 (O.add s.T dT) then { st with q := lineTo G e st.q } else st
    { st with rem := sel.2, T := O.add s.T dT }

/-- last element of a list, or a default -/
def lastOr (d : α) : List α → α
  | [] => d
  | [x] => x
  | _ :: xs => lastOr d xs

/-- the monotone clamp of deac3eb: a cut parameter below the previous one is replaced by it -/
def monoClamp (lt : α → α → Bool) : α → List α → List α
  | _, [] => []
  | t0, t :: ts =>
    let t' := if lt t t0 then t0 else t
    t' :: monoClamp lt t' ts

/-- the cut parameters of one curved segment: `invL(ts[j]-T)` of `invSpeedApprox` = the polished estimates -/
def polished (O : SplitOps α) (o : SegOracle α) (T : α) (sel : List α) : List α :=
  List.zipWith (fun t est => o.polish (O.sub t T) est) sel o.inv

/-- QuadTo case (path.go:1582-1611); `none` when the oracle supplies too few inverse values -/
def quadCase (start cp e : Pt α) (o : SegOracle α) (s : SState α) : Option (SState α) :=
  if s.rem.isEmpty then some { s with q := quadTo G cp e s.q }
  else
    let sel := selectCuts O s.T o.dT s.rem
    if sel.1.length != o.inv.length then none else
    let inv := monoClamp O.lt O.zero (polished O o s.T sel.1)
    let cut := cutsGen O.lt O.sub O.div O.one O.quadL O.quadR (start, cp, e) O.zero inv
    let st := cut.1.foldl (fun (st : SState α) (pc : Pt α × Pt α × Pt α) =>
        let st := { st with q := quadTo G pc.2.1 pc.2.2 st.q }
        let st := st.push
        { st with q := moveTo pc.2.2 st.q }) s
    let st := if O.eq (lastOr O.zero inv) O.one then st
      else { st with q := quadTo G cut.2.2.1 cut.2.2.2 st.q }
    some { st with rem := sel.2, T := O.add s.T o.dT }

/-- CubeTo case (path.go:1612-1644) -/
def cubeCase (start c1 c2 e : Pt α) (o : SegOracle α) (s : SState α) : Option (SState α) :=
  if s.rem.isEmpty then some { s with q := cubeTo G c1 c2 e s.q }
  else
    let sel := selectCuts O s.T o.dT s.rem
    if sel.1.length != o.inv.length then none else
    let inv := monoClamp O.lt O.zero (polished O o s.T sel.1)
    let cut := cutsGen O.lt O.sub O.div O.one O.cubeL O.cubeR (start, c1, c2, e) O.zero inv
    let st := cut.1.foldl (fun (st : SState α) (pc : Pt α × Pt α × Pt α × Pt α) =>
        let st := { st with q := cubeTo G pc.2.1 pc.2.2.1 pc.2.2.2 st.q }
        let st := st.push
        { st with q := moveTo pc.2.2.2 st.q }) s
    let st := if O.eq (lastOr O.zero inv) O.one then st
      else { st with q := cubeTo G cut.2.2.1 cut.2.2.2.1 cut.2.2.2.2 st.q }
    some { st with rem := sel.2, T := O.add s.T o.dT }

/-- the monotone clamp of fc041fc/feae37f: an angle that lies before the previous cut in the direction
of the arc is replaced by the previous cut -/
def clampTheta (O : SplitOps α) (o : SegOracle α) (startTheta theta : α) : α :=
  if (O.le o.th1 o.th2) == (O.lt theta startTheta) then startTheta else theta

/-- the cuts of one arc (path.go:1661-1679): state = (walk state, startTheta, nextLarge); `none` is
the panic 'theta not in elliptic arc range for splitting' -/
def arcCuts (rx ry phi : α) (sweep : Bool) (o : SegOracle α) :
    List α → SState α × α × Bool → Option (SState α × α × Bool)
  | [], acc => some acc
  | theta :: rest, (st, startTheta, _) =>
    let theta := clampTheta O o startTheta theta
    if !O.angleBetween theta startTheta o.th2 then none else
    let mid := O.ellipsePos rx ry phi o.cx o.cy theta
    let fl := splitFlags O.gtPi (O.absSub theta startTheta) (O.absSub theta o.th2)
    let st := { st with q := arcTo G rx ry (G.radToDeg phi) fl.1 sweep mid st.q }
    let st := st.push
    let st := { st with q := moveTo mid st.q }
    arcCuts rx ry phi sweep o rest (st, theta, fl.2)

/-- ArcTo case (path.go:1645-1686) -/
def arcCase (rx ry phi : α) (large sweep : Bool) (e : Pt α) (o : SegOracle α) (s : SState α) :
    Option (SState α) :=
  if s.rem.isEmpty then some { s with q := arcTo G rx ry (G.radToDeg phi) large sweep e s.q }
  else
    let sel := selectCuts O s.T o.dT s.rem
    if sel.1.length != o.inv.length then none else
    match arcCuts G O rx ry phi sweep o (polished O o s.T sel.1) (s, o.th1, large) with
    | none => none
    | some (st, startTheta, nextLarge) =>
      let st := if O.eq startTheta o.th2 then st
        else { st with q := arcTo G rx ry (G.radToDeg phi) nextLarge sweep e st.q }
      some { st with rem := sel.2, T := O.add s.T o.dT }

/-- the records of one subpath (array order); one oracle entry per drawing record.  Returns the
state and the unused oracle entries. -/
def walkSub : List (Cmd α) → Pt α → List (SegOracle α) → SState α → Option (SState α × List (SegOracle α))
  | [], _, os, s => some (s, os)
  | .move p :: cs, _, os, s => walkSub cs p os { s with q := moveTo p s.q }
  | .line p :: cs, start, o :: os, s => walkSub cs p os (lineCase G O start p o.dT s)
  | .close p :: cs, start, o :: os, s => walkSub cs p os (lineCase G O start p o.dT s)
  | .quad cp p :: cs, start, o :: os, s =>
    match quadCase G O start cp p o s with
    | some s' => walkSub cs p os s'
    | none => none
  | .cube c1 c2 p :: cs, start, o :: os, s =>
    match cubeCase G O start c1 c2 p o s with
    | some s' => walkSub cs p os s'
    | none => none
  | .arc rx ry phi l sw p :: cs, start, o :: os, s =>
    match arcCase G O rx ry phi l sw p o s with
    | some s' => walkSub cs p os s'
    | none => none
  | _ :: _, _, [], _ => none

def walkSubs : List (List (Cmd α)) → List (SegOracle α) → SState α → Option (SState α)
  | [], _, s => some s
  | ps :: rest, os, s =>
    match walkSub G O ps G.origin os s with
    | some (s', os') => walkSubs rest os' s'
    | none => none

/-- `Path.SplitAt(ts...)` on records in array order; pieces in array order, oldest piece first.
`none` = panic (or an oracle of the wrong shape). -/
def splitAt (cs : List (Cmd α)) (ts : List α) (os : List (SegOracle α)) : Option (List (List (Cmd α))) :=
  if ts.isEmpty then some [cs] else
  let ts := sortBy O.le ts
  let ts := match ts with
    | t :: rest => if O.le t O.zero && O.le O.zero t then rest else ts
    | [] => ts
  let q0 : RPath α := match cs with
    | .move p :: _ => moveTo p []
    | _ => []
  match walkSubs G O (split cs) os { q := q0, qs := [], rem := ts, T := O.zero } with
  | none => none
  | some s =>
    let s := if 4 < dataLen s.q then s.push else s
    some (s.qs.reverse.map List.reverse)

end Canvas.C09
