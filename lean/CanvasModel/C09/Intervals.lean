import CanvasModel.C09.SplitAt
/-!
# C09 — specification of `SplitAt` as an interval walk

The spec "the pieces are the restrictions of the path to consecutive arc-length intervals", written
as a walk over the drawing records that only keeps *intervals*: `⟨i, a, b⟩` is the part of drawing
record `i` between arc lengths `a` and `b` measured from the record's start.  It uses the same
selection of cuts (`selectCuts`) and the same segment lengths (`SegOracle.dT`) as the structural model
`splitAt`, no builder and no inversion: with an exact segment-length function the cut for position `t`
in a segment that starts at position `T` lies at local arc length `t - T`.

Ghost field `consumed`: the positions that have cut so far (newest first).
-/
namespace Canvas.C09
open Canvas Canvas.Path

variable {α : Type}

structure Iv (α : Type) where
  seg : Nat
  a : α
  b : α
deriving Repr, DecidableEq

structure IState (α : Type) where
  cur : List (Iv α)
  done : List (List (Iv α))
  rem : List α
  T : α
  consumed : List α

variable (O : SplitOps α)

/-- one selected position `t` in record `i` whose start is at position `T`: close the current piece at
local arc length `t - T` -/
def ivCut (i : Nat) (T : α) (acc : IState α × α) (t : α) : IState α × α :=
  let u := O.sub t T
  let st := acc.1
  ({ st with cur := [], done := (⟨i, acc.2, u⟩ :: st.cur) :: st.done, consumed := t :: st.consumed }, u)

/-- drawing record `i` of length `d` -/
def ivSeg (i : Nat) (d : α) (s : IState α) : IState α :=
  if s.rem.isEmpty then { s with cur := ⟨i, O.zero, d⟩ :: s.cur }
  else
    let sel := selectCuts O s.T d s.rem
    let r := sel.1.foldl (ivCut O i s.T) (s, O.zero)
    { r.1 with cur := ⟨i, r.2, d⟩ :: r.1.cur, rem := sel.2, T := O.add s.T d }

/-- the walk over the records of the path (array order); MoveTo records carry no length -/
def ivWalk : List (Cmd α) → List (SegOracle α) → Nat → IState α → Option (IState α)
  | [], _, _, s => some s
  | .move _ :: cs, os, i, s => ivWalk cs os i s
  | _ :: cs, o :: os, i, s => ivWalk cs os (i + 1) (ivSeg O i o.dT s)
  | _ :: _, [], _, _ => none

/-- all pieces, oldest first (the piece in progress last) -/
def IState.pieces (s : IState α) : List (List (Iv α)) := (s.cur :: s.done).reverse.map List.reverse

end Canvas.C09
