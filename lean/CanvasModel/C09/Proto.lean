import CanvasModel.C09
import CanvasModel.C09.SplitAt
import CanvasModel.C09.Length
import CanvasModel.C09.Polish
import CanvasModel.C10
import CanvasModel.Region
import CanvasGen.CoreF
import CanvasGen.BezierF
import CanvasGen.GaussLegendreC09
/-!
# C09 — `Float` instance and line protocol of the Reverse / Split / ellipseSplit / Gauss–Legendre models

  REV   <records>                       -> data array of `Reverse`
  SPLIT <records>                       -> `k` then every piece of `Split` as `| data…`
  ESPLIT theta0 theta1 theta            -> `ok large0 large1` of `ellipseSplit`
  GL n k a b                            -> gaussLegendre<n>(x ↦ x^k, a, b) from the extracted table
  REVWN delta P <poly> R <poly> PTS …   -> verdict: wn(R, q) = −wn(P, q) for every q off the δ-band (exact)
  QCUTS p0 p1 p2 t1 … tn                -> the n+1 pieces of the quadratic cutting loop (`cutsGen`) as data arrays
  CCUTS p0 p1 p2 p3 t1 … tn             -> the same for a cubic
  REVSPEC <records of p> R <records of Reverse(p)>  -> verdict of the executable specification `reverseVerdict`
        on the exact bit patterns: ok | skip … | FAIL subpath-count|closedness|points|output-not-structured
  LENGTH <records> O a b …             -> `Path.Length()` of the model (`a b` per drawing record: inflection
        parameters of a cubic / centre angles of an arc, from the real code; otherwise ignored)
  HYPOT x y                             -> `math.Hypot`
  SPLITAT TS t… P <records> O <oracle>  -> `k` then every piece of `SplitAt` as `| data…` (`panic` if the model panics);
        oracle: per drawing record `s cx cy th1 th2 n e1 … en` (centre form of an arc, estimates of the Chebyshev
        polynomial for the cuts in that record); segment lengths and the polish loop are computed here

records: `M x y`, `L x y`, `Q cx cy x y`, `C c1x c1y c2x c2y x y`, `A rx ry phi large sweep x y`, `Z x y`
(hex float64; the raw values of the data array, phi in radians).
-/
namespace Canvas.C09
open Canvas Canvas.Path

/-- `Point.Equals` (util.go:249) through the generated `Equal` -/
def ptEqF (p q : Pt Float) : Bool := GenF.Equal p.x q.x && GenF.Equal p.y q.y

def zeroPt : Pt Float := ⟨0.0, 0.0⟩

/-- records in array order -/
def parseCmds : Nat → List String → Option (List (Cmd Float))
  | _, [] => some []
  | 0, _ => none
  | n + 1, "M" :: x :: y :: t => do
    let p ← C10.pt? x y
    (parseCmds n t).map (.move p :: ·)
  | n + 1, "L" :: x :: y :: t => do
    let p ← C10.pt? x y
    (parseCmds n t).map (.line p :: ·)
  | n + 1, "Z" :: x :: y :: t => do
    let p ← C10.pt? x y
    (parseCmds n t).map (.close p :: ·)
  | n + 1, "Q" :: a :: b :: x :: y :: t => do
    let cp ← C10.pt? a b
    let p ← C10.pt? x y
    (parseCmds n t).map (.quad cp p :: ·)
  | n + 1, "C" :: a :: b :: c :: d :: x :: y :: t => do
    let c1 ← C10.pt? a b
    let c2 ← C10.pt? c d
    let p ← C10.pt? x y
    (parseCmds n t).map (.cube c1 c2 p :: ·)
  | n + 1, "A" :: rx :: ry :: phi :: l :: s :: x :: y :: t => do
    let rx ← floatOfHex? rx
    let ry ← floatOfHex? ry
    let phi ← floatOfHex? phi
    let l ← C10.bool? l
    let s ← C10.bool? s
    let p ← C10.pt? x y
    (parseCmds n t).map (.arc rx ry phi l s p :: ·)
  | _, _ => none

def showData (cs : List (Cmd Float)) : String := C10.showData (encodeF C10.floatCodes cs)

/-- gaussLegendre<n>(x ↦ x^k, a, b) evaluated from the extracted table exactly as util.go does:
`c*(Σ wᵢ f(xᵢ c + d))` (the grouping of equal weights differs: compared with tolerance) -/
def glEval (tbl : List (Float × Float)) (k : Nat) (a b : Float) : Float :=
  let c := (b - a) / 2.0
  let d := (a + b) / 2.0
  let pw (x : Float) : Float := (List.range k).foldl (fun acc _ => acc * x) 1.0
  c * tbl.foldl (fun acc p => acc + p.2 * pw (p.1 * c + d)) 0.0

/-- wn(R, q) = −wn(P, q) for every query point farther than δ from P (exact integer arithmetic) -/
def checkRevWn (s : Region.Scene) : String := Id.run do
  let mut checked := 0
  let mut skipped := 0
  let mut idx := 0
  for q in s.pts do
    if Wn.farFromAll q s.d2 s.P then
      let wp := Wn.wn q s.P
      let wr := Wn.wn q s.R
      if wr != -wp then
        return s!"FAIL winding-not-negated pt={idx} wnP={wp} wnR={wr}"
      checked := checked + 1
    else
      skipped := skipped + 1
    idx := idx + 1
  return s!"ok checked={checked} skipped={skipped}"

/-! records over exact bit patterns (`UInt64` has decidable equality, `Float` has not) -/

def bits? (s : String) : Option UInt64 := (parseHexNat? s).map UInt64.ofNat

def ptB? (x y : String) : Option (Pt UInt64) := do
  let a ← bits? x
  let b ← bits? y
  pure ⟨a, b⟩

def parseCmdsB : Nat → List String → Option (List (Cmd UInt64))
  | _, [] => some []
  | 0, _ => none
  | n + 1, "M" :: x :: y :: t => do (parseCmdsB n t).map (.move (← ptB? x y) :: ·)
  | n + 1, "L" :: x :: y :: t => do (parseCmdsB n t).map (.line (← ptB? x y) :: ·)
  | n + 1, "Z" :: x :: y :: t => do (parseCmdsB n t).map (.close (← ptB? x y) :: ·)
  | n + 1, "Q" :: a :: b :: x :: y :: t => do (parseCmdsB n t).map (.quad (← ptB? a b) (← ptB? x y) :: ·)
  | n + 1, "C" :: a :: b :: c :: d :: x :: y :: t => do
    (parseCmdsB n t).map (.cube (← ptB? a b) (← ptB? c d) (← ptB? x y) :: ·)
  | n + 1, "A" :: rx :: ry :: phi :: l :: s :: x :: y :: t => do
    (parseCmdsB n t).map (.arc (← bits? rx) (← bits? ry) (← bits? phi) (← C10.bool? l) (← C10.bool? s) (← ptB? x y) :: ·)
  | _, _ => none

/-- `Point.Equals` on bit patterns -/
def ptEqB (p q : Pt UInt64) : Bool :=
  GenF.Equal (Float.ofBits p.x) (Float.ofBits q.x) && GenF.Equal (Float.ofBits p.y) (Float.ofBits q.y)

def showVerdict : Verdict → String
  | .ok => "ok"
  | .skip w => "skip " ++ w
  | .fail c => "FAIL " ++ c

abbrev QuadF := Pt Float × Pt Float × Pt Float
abbrev CubicF := Pt Float × Pt Float × Pt Float × Pt Float

/-- the quadratic cutting loop on `Float` with the generated `quadraticBezierSplit` -/
def quadCutsF (r : QuadF) (ts : List Float) : List QuadF × QuadF :=
  cutsGen (fun a b => a < b) (· - ·) (· / ·) 1.0
    (fun (q : QuadF) t => let s := GenF.quadraticBezierSplit q.1 q.2.1 q.2.2 t; (s.1, s.2.1, s.2.2.1))
    (fun (q : QuadF) t => let s := GenF.quadraticBezierSplit q.1 q.2.1 q.2.2 t; (s.2.2.2.1, s.2.2.2.2.1, s.2.2.2.2.2))
    r 0.0 ts

def cubeCutsF (r : CubicF) (ts : List Float) : List CubicF × CubicF :=
  cutsGen (fun a b => a < b) (· - ·) (· / ·) 1.0
    (fun (q : CubicF) t => let s := GenF.cubicBezierSplit q.1 q.2.1 q.2.2.1 q.2.2.2 t; (s.1, s.2.1, s.2.2.1, s.2.2.2.1))
    (fun (q : CubicF) t =>
      let s := GenF.cubicBezierSplit q.1 q.2.1 q.2.2.1 q.2.2.2 t
      (s.2.2.2.2.1, s.2.2.2.2.2.1, s.2.2.2.2.2.2.1, s.2.2.2.2.2.2.2))
    r 0.0 ts

def floatSplitOps : SplitOps Float where
  zero := 0.0
  one := 1.0
  add a b := a + b
  sub a b := a - b
  div a b := a / b
  lt a b := a < b
  le a b := a ≤ b
  eq := GenF.Equal
  interp := GenF.Point.Interpolate
  quadL q t := let s := GenF.quadraticBezierSplit q.1 q.2.1 q.2.2 t; (s.1, s.2.1, s.2.2.1)
  quadR q t := let s := GenF.quadraticBezierSplit q.1 q.2.1 q.2.2 t; (s.2.2.2.1, s.2.2.2.2.1, s.2.2.2.2.2)
  cubeL q t := let s := GenF.cubicBezierSplit q.1 q.2.1 q.2.2.1 q.2.2.2 t; (s.1, s.2.1, s.2.2.1, s.2.2.2.1)
  cubeR q t :=
    let s := GenF.cubicBezierSplit q.1 q.2.1 q.2.2.1 q.2.2.2 t
    (s.2.2.2.2.1, s.2.2.2.2.2.1, s.2.2.2.2.2.2.1, s.2.2.2.2.2.2.2)
  ellipsePos := C10.ellipsePos
  angleBetween := C10.angleBetween
  absSub a b := (a - b).abs
  gtPi x := x > goPi

def floatPolishOps : PolishOps Float where
  zero := 0.0
  add a b := a + b
  sub a b := a - b
  mul a b := a * b
  div a b := a / b
  abs := Float.abs
  le a b := a ≤ b
  lt a b := a < b
  half x := x / 2.0
  copysign x sgn := if C10.signbit sgn then -x.abs else x.abs

/-- `invSpeedApprox` (util.go, 56b2370) for the speed `fp` on `[tmin,tmax]`: the 16-panel table of the
7-point rule, `fLength`, the total length and the polish function (estimate passed in) -/
def invSpeedApproxF (fp : Float → Float) (tmin tmax : Float) : Float × (Float → Float → Float) :=
  let h := (tmax - tmin) / 16.0
  let cum : Array Float := (List.range 16).foldl (fun (acc : Array Float) i =>
      acc.push (acc[i]! + (glGrouped GenC09.gl7F fp (tmin + i.toFloat * h) (tmin + (i + 1).toFloat * h)).abs)) #[0.0]
  let fLength := fun (t : Float) =>
    let i := Float.floor ((t - tmin) / h)
    let i := if !(0.0 ≤ i) then 0.0 else if 15.0 < i then 15.0 else i
    cum[i.toUInt64.toNat]! + (glGrouped GenC09.gl7F fp (tmin + i * h) t).abs
  let total := cum[16]!
  (total, fun L est => polish floatPolishOps fLength fp h L (0.001 * total) tmin tmax est)

def takeFloats : Nat → List String → Option (List Float × List String)
  | 0, ts => some ([], ts)
  | n + 1, t :: ts => do
    let f ← floatOfHex? t
    let (fs, rest) ← takeFloats n ts
    pure (f :: fs, rest)
  | _, [] => none

/-- what the real code passes in for one drawing record -/
structure RawOracle where
  cx : Float
  cy : Float
  th1 : Float
  th2 : Float
  est : List Float

def parseOracle : Nat → List String → Option (List RawOracle)
  | _, [] => some []
  | 0, _ => none
  | fuel + 1, "s" :: cx :: cy :: th1 :: th2 :: n :: rest => do
    let cx ← floatOfHex? cx
    let cy ← floatOfHex? cy
    let th1 ← floatOfHex? th1
    let th2 ← floatOfHex? th2
    let n ← n.toNat?
    let (vs, rest) ← takeFloats n rest
    (parseOracle fuel rest).map (⟨cx, cy, th1, th2, vs⟩ :: ·)
  | _, _ => none

/-- the oracle of the structural model, computed from the geometry: `dT` = math.Hypot for straight
records, the 16-panel total for curved ones; the polish loop of `invSpeedApprox` -/
def mkOracles : Pt Float → List (Cmd Float) → List RawOracle → Option (List (SegOracle Float))
  | _, [], _ => some []
  | _, .move p :: cs, rs => mkOracles p cs rs
  | start, c :: cs, r :: rs =>
    let o : SegOracle Float :=
      match c with
      | .quad cp p =>
        let a := invSpeedApproxF (fun t => ptLen (GenF.quadraticBezierDeriv start cp p t)) 0.0 1.0
        ⟨a.1, r.est, a.2, r.cx, r.cy, r.th1, r.th2⟩
      | .cube c1 c2 p =>
        let a := invSpeedApproxF (fun t => ptLen (GenF.cubicBezierDeriv start c1 c2 p t)) 0.0 1.0
        ⟨a.1, r.est, a.2, r.cx, r.cy, r.th1, r.th2⟩
      | .arc rx ry _ _ _ _ =>
        let a := invSpeedApproxF (ellipseSpeed rx ry) r.th1 r.th2
        ⟨a.1, r.est, a.2, r.cx, r.cy, r.th1, r.th2⟩
      | _ => ⟨ptLen (GenF.Point.Sub c.endp start), r.est, fun _ e => e, r.cx, r.cy, r.th1, r.th2⟩
    (mkOracles c.endp cs rs).map (o :: ·)
  | _, _ :: _, [] => none

def splitOn (sep : String) (l : List String) : List String × List String :=
  (l.takeWhile (· != sep), (l.dropWhile (· != sep)).drop 1)

def joinPieces (ps : List String) : String := " | ".intercalate ps

def handle : List String → Option String
  | "REVSPEC" :: toks => do
    let (pT, rT) := splitOn "R" toks
    let p ← parseCmdsB pT.length pT
    let r ← parseCmdsB rT.length rT
    pure (showVerdict (reverseVerdict ptEqB p r))
  | ["HYPOT", x, y] => do
    pure (hexOfFloat (hypotGo (← floatOfHex? x) (← floatOfHex? y)))
  | "LENGTH" :: toks => do
    let (recT, orT) := splitOn "O" toks
    let cs ← parseCmds recT.length recT
    let fs ← orT.mapM floatOfHex?
    let rec pair : List Float → List LenOracle
      | a :: b :: t => ⟨a, b⟩ :: pair t
      | _ => []
    (lengthF zeroPt 0.0 cs (pair fs)).map hexOfFloat
  | "SPLITAT" :: "TS" :: toks => do
    let (tsT, rest) := splitOn "P" toks
    let (recT, orT) := splitOn "O" rest
    let ts ← tsT.mapM floatOfHex?
    let cs ← parseCmds recT.length recT
    let rs ← parseOracle orT.length orT
    let os ← mkOracles zeroPt (split cs).flatten rs
    match splitAt C10.floatGeo floatSplitOps cs ts os with
    | none => pure "panic"
    | some ps => pure (ps.foldl (fun acc p => acc ++ " | " ++ showData p) (toString ps.length))
  | "QCUTS" :: a :: b :: c :: d :: e :: f :: ts => do
    let p0 ← C10.pt? a b
    let p1 ← C10.pt? c d
    let p2 ← C10.pt? e f
    let ts ← ts.mapM floatOfHex?
    let (ps, r) := quadCutsF (p0, p1, p2) ts
    pure (joinPieces ((ps ++ [r]).map fun q => showData [.move q.1, .quad q.2.1 q.2.2]))
  | "CCUTS" :: a :: b :: c :: d :: e :: f :: g :: h :: ts => do
    let p0 ← C10.pt? a b
    let p1 ← C10.pt? c d
    let p2 ← C10.pt? e f
    let p3 ← C10.pt? g h
    let ts ← ts.mapM floatOfHex?
    let (ps, r) := cubeCutsF (p0, p1, p2, p3) ts
    pure (joinPieces ((ps ++ [r]).map fun q => showData [.move q.1, .cube q.2.1 q.2.2.1 q.2.2.2]))
  | "REV" :: toks => do
    let cs ← parseCmds toks.length toks
    pure (showData (reverseF ptEqF zeroPt cs.reverse))
  | "SPLIT" :: toks => do
    let cs ← parseCmds toks.length toks
    let ps := split cs
    pure (ps.foldl (fun acc p => acc ++ " | " ++ showData p) (toString ps.length))
  | ["ESPLIT", t0, t1, t] => do
    let t0 ← floatOfHex? t0
    let t1 ← floatOfHex? t1
    let t ← floatOfHex? t
    if !C10.angleBetween t t0 t1 then pure "0 0 0"
    else
      let fl := splitFlags (fun x => x > goPi) (t - t0).abs (t - t1).abs
      pure s!"1 {if fl.1 then 1 else 0} {if fl.2 then 1 else 0}"
  | ["GL", n, k, a, b] => do
    let k ← k.toNat?
    let a ← floatOfHex? a
    let b ← floatOfHex? b
    let tbl ← (match n with
      | "3" => some GenC09.gl3F | "5" => some GenC09.gl5F | "7" => some GenC09.gl7F | _ => none)
    pure (hexOfFloat (glEval tbl k a b))
  | "REVWN" :: delta :: "P" :: ts => do
    let delta ← Region.parseRaw delta
    let (p, ts) ← Region.parsePoly ts
    let ts ← (match ts with | "R" :: t => some t | _ => none)
    let (r, ts) ← Region.parsePoly ts
    match ts with
    | "PTS" :: m :: ts => do
      let m ← m.toNat?
      let (pts, _) ← Region.parsePts m ts
      pure (checkRevWn (Region.mkScene delta p [] r pts))
    | _ => none
  | _ => none

end Canvas.C09
