import CanvasModel.C09
import CanvasGen.CoreF
import CanvasGen.BezierF
import CanvasGen.GaussLegendreC09
/-!
# C09 — model of `Path.Length` (path.go) and of the segment length functions it calls

* `lengthFrom`: the accumulation loop of `Path.Length`, generic in the scalar and in the segment
  length function (theorems: additivity);
* `Float` instances of the segment lengths, transcribed from the source: `math.Hypot` (the amd64
  routine: `max*sqrt(1+(min/max)^2)`), `quadraticBezierLength` (closed form, after e51fcfc/da104aa),
  `cubicBezierLength` (split at the inflection points, 7-point Gauss–Legendre of the speed over four quarter
  intervals per piece, 0869084), `ellipseLength` (5-point Gauss–Legendre of the speed over pieces of at
  most 90 degrees, 0b071bc).  The quadrature rules are
  evaluated from the tables extracted from util.go on every check (`GenC09.gl5F`, `gl7F`) with the
  grouping of equal weights the source uses.
Not modelled here (passed in from the real code by the harness): the inflection parameters of a cubic
(`findInflectionPointsCubicBezier`) and the centre form of an arc (`ellipseToCenter`).
Core Lean only.
-/
namespace Canvas.C09
open Canvas Canvas.Path

variable {α : Type}

/-- the loop of `Path.Length`: `d` is the running sum, `start` the end point of the record before.
`segLen start c` is the length of drawing record `c` begun at `start` (a Close is a line to its
recorded point). MoveTo records add nothing. -/
def lengthFrom (add : α → α → α) (segLen : Pt α → Cmd α → α) : Pt α → α → List (Cmd α) → α
  | _, d, [] => d
  | _, d, .move p :: cs => lengthFrom add segLen p d cs
  | start, d, c :: cs => lengthFrom add segLen c.endp (add d (segLen start c)) cs

/-- `Path.Length()` of records in array order -/
def pathLength (zero : α) (add : α → α → α) (segLen : Pt α → Cmd α → α) (z : Pt α) (cs : List (Cmd α)) : α :=
  lengthFrom add segLen z zero cs

/-! ## Float segment lengths -/

/-- `math.Hypot` (hypot_amd64.s / hypot.go): `max * sqrt(1 + (min/max)^2)`, 0 for (0,0) -/
def hypotGo (x y : Float) : Float :=
  let p := x.abs
  let q := y.abs
  if p.isInf || q.isInf then (1.0 / 0.0)
  else if p.isNaN || q.isNaN then (0.0 / 0.0)
  else
    let hi := if p < q then q else p
    let lo := if p < q then p else q
    if hi == 0.0 then 0.0
    else
      let r := lo / hi
      hi * Float.sqrt (1.0 + r * r)

def ptLen (p : Pt Float) : Float := hypotGo p.x p.y

/-- the value list `f(node_i*c+d)` and the grouped weighted sum of util.go:
`c * (w1*(Q1+Qn) + w2*(Q2+Q(n-1)) + … + wm*Qm)` -/
def glGrouped (tbl : List (Float × Float)) (f : Float → Float) (a b : Float) : Float :=
  let c := (b - a) / 2.0
  let d := (a + b) / 2.0
  let vals := (tbl.map fun p => (p.2, f (p.1 * c + d))).toArray
  let n := vals.size
  let half := n / 2
  let pairs := (List.range half).foldl (fun (acc : Option Float) i =>
      let term := vals[i]!.1 * (vals[i]!.2 + vals[n - 1 - i]!.2)
      match acc with
      | none => some term
      | some s => some (s + term)) none
  let mid := vals[half]!.1 * vals[half]!.2
  c * (match pairs with
    | none => mid
    | some s => s + mid)

/-- `quadraticBezierLength` (path_util.go) -/
def quadLenF (p0 p1 p2 : Pt Float) : Float :=
  let a := GenF.Point.Add (GenF.Point.Sub p0 (GenF.Point.Mul p1 2.0)) p2
  let b := GenF.Point.Sub (GenF.Point.Mul p1 2.0) (GenF.Point.Mul p0 2.0)
  let A := 4.0 * GenF.Point.Dot a a
  let B := 4.0 * GenF.Point.Dot a b
  let C := GenF.Point.Dot b b
  if GenF.Equal A 0.0 then ptLen (GenF.Point.Sub p2 p0)
  else
    let Sabc := 2.0 * ptLen (GenF.Point.Add b (GenF.Point.Mul a 2.0))
    let A2 := Float.sqrt A
    let A32 := 2.0 * A * A2
    let C2 := 2.0 * Float.sqrt C
    let BA := B / A2
    let length := A32 * Sabc + A2 * B * (Sabc - C2)
    let num := 2.0 * A2 + BA + Sabc
    let den := BA + C2
    let length := if 0.0 < num && 0.0 < den then length + (4.0 * C * A - B * B) * Float.log (num / den) else length
    length / (4.0 * A32)

/-- `length += gaussLegendre7(speed, t, t+0.25)` for t = 0, 0.25, 0.5, 0.75 (0869084) -/
def cubeSpeedGL (acc : Float) (p0 p1 p2 p3 : Pt Float) : Float :=
  let speed := fun t => ptLen (GenF.cubicBezierDeriv p0 p1 p2 p3 t)
  [0.0, 0.25, 0.5, 0.75].foldl (fun (a : Float) t => a + glGrouped GenC09.gl7F speed t (t + 0.25)) acc

/-- `cubicBezierLength` for the inflection parameters `t1, t2` (NaN when absent) -/
def cubeLenF (p0 p1 p2 p3 : Pt Float) (t1 t2 : Float) : Float :=
  if t1 > 0.0 && t1 < 1.0 && t2 > 0.0 && t2 < 1.0 then
    let s := GenF.cubicBezierSplit p0 p1 p2 p3 t1
    let t2' := (t2 - t1) / (1.0 - t1)
    let s2 := GenF.cubicBezierSplit s.2.2.2.2.1 s.2.2.2.2.2.1 s.2.2.2.2.2.2.1 s.2.2.2.2.2.2.2 t2'
    let l := cubeSpeedGL 0.0 s.1 s.2.1 s.2.2.1 s.2.2.2.1
    let l := cubeSpeedGL l s2.1 s2.2.1 s2.2.2.1 s2.2.2.2.1
    cubeSpeedGL l s2.2.2.2.2.1 s2.2.2.2.2.2.1 s2.2.2.2.2.2.2.1 s2.2.2.2.2.2.2.2
  else if t1 > 0.0 && t1 < 1.0 then
    let s := GenF.cubicBezierSplit p0 p1 p2 p3 t1
    let l := cubeSpeedGL 0.0 s.1 s.2.1 s.2.2.1 s.2.2.2.1
    cubeSpeedGL l s.2.2.2.2.1 s.2.2.2.2.2.1 s.2.2.2.2.2.2.1 s.2.2.2.2.2.2.2
  else cubeSpeedGL 0.0 p0 p1 p2 p3

/-- `ellipseDeriv(rx, ry, 0, true, theta).Length()` -/
def ellipseSpeed (rx ry theta : Float) : Float :=
  let sintheta := Float.sin theta
  let costheta := Float.cos theta
  let sinphi : Float := 0.0
  let cosphi : Float := 1.0
  let dx := -rx * sintheta * cosphi - ry * costheta * sinphi
  let dy := -rx * sintheta * sinphi + ry * costheta * cosphi
  hypotGo dx dy

/-- number of pieces `ellipseLength` integrates over (0b071bc): at most 90 degrees each, proportionally
shorter when the axis ratio exceeds 4, capped at 1024 -/
def ellipsePieces (rx ry lo hi : Float) : Float :=
  let ratio := goMax rx ry / goMin rx ry
  goMin (Float.ceil ((hi - lo) / (goPi / 2.0) * goMax 1.0 (ratio / 4.0))) 1024.0

/-- `ellipseLength` (path_util.go:54): the 5-point rule of the speed over `n` equal pieces.
The loop `for i := 0.0; i < n; i++` runs at most 1024 times. -/
def ellipseLenF (rx ry theta1 theta2 : Float) : Float :=
  let lo := if theta2 < theta1 then theta2 else theta1
  let hi := if theta2 < theta1 then theta1 else theta2
  let n := ellipsePieces rx ry lo hi
  (List.range 1024).foldl (fun (acc : Float) k =>
      let i := k.toFloat
      if i < n then
        acc + glGrouped GenC09.gl5F (ellipseSpeed rx ry) (lo + (hi - lo) * i / n) (lo + (hi - lo) * (i + 1.0) / n)
      else acc) 0.0

/-- per drawing record: what the harness passes in -/
structure LenOracle where
  a : Float
  b : Float

/-- segment length of the k-th drawing record -/
def segLenF (o : LenOracle) (start : Pt Float) : Cmd Float → Float
  | .line p => ptLen (GenF.Point.Sub p start)
  | .close p => ptLen (GenF.Point.Sub p start)
  | .quad cp p => quadLenF start cp p
  | .cube c1 c2 p => cubeLenF start c1 c2 p o.a o.b
  | .arc rx ry _ _ _ _ => ellipseLenF rx ry o.a o.b
  | .move _ => 0.0

/-- `Path.Length` with the oracle list consumed one entry per drawing record -/
def lengthF : Pt Float → Float → List (Cmd Float) → List LenOracle → Option Float
  | _, d, [], _ => some d
  | _, d, .move p :: cs, os => lengthF p d cs os
  | start, d, c :: cs, o :: os => lengthF c.endp (d + segLenF o start c) cs os
  | _, _, _ :: _, [] => none

end Canvas.C09
