import CanvasModel.C16
/-!
# C16 — glue adjustment of a line in ToText (/repo/text.go "apply stretching or shrinking of glue")
and the character-conservation verdict.
-/
namespace Canvas.C16

/-! ## glue adjustment -/

structure GItem (α : Type) where
  ty : Ty
  size : Nat
  w : α
  y : α
  z : α

section
variable {α : Type} [Add α] [Mul α] [Div α] [LT α] [∀ a b : α, Decidable (a < b)] [OfNat α 0]

/-- `adv` of a run of glue/penalty items between two boxes; `isInf` is math.IsInf -/
def runAdv (isInf : α → Bool) (ratio stretch shrink : α) : α :=
  if 0 < ratio && !isInf stretch then ratio * stretch
  else if ratio < 0 && !isInf shrink then ratio * shrink
  else 0

/-- the glyphs of a finished run: `XAdvance += inc (adv/width) XAdvance` when the run has width -/
def flushRun (isInf : α → Bool) (inc : α → α → α) (ratio width stretch shrink : α) (run : List α) : List α :=
  if 0 < width then run.map (fun xa => xa + inc (runAdv isInf ratio stretch shrink / width) xa) else run

/-- the loop `for i := ai; i <= bi; i++`: `items` = items[ai:bi], `gs` = glyph advances from `ag` on,
`run` = glyphs of the current run (reversed), sums of the run. Returns the new advances of all glyphs
that belong to the items (glyphs behind them are dropped from the result). -/
def adjustGo (isInf : α → Bool) (inc : α → α → α) (ratio : α) :
    List (GItem α) → List α → List α → α → α → α → List α
  | [], _, run, w, y, z => flushRun isInf inc ratio w y z run.reverse
  | it :: r, gs, run, w, y, z =>
    let mine := gs.take it.size
    let rest := gs.drop it.size
    match it.ty with
    | .box => flushRun isInf inc ratio w y z run.reverse ++ mine ++ adjustGo isInf inc ratio r rest [] 0 0 0
    | .glue => adjustGo isInf inc ratio r rest (mine.reverse ++ run) (w + it.w) (y + it.y) (z + it.z)
    | .pen => adjustGo isInf inc ratio r rest (mine.reverse ++ run) w y z

/-- `if breaks[j].Ratio != 0.0 { … }` -/
def adjustLine (isInf : α → Bool) (inc : α → α → α) (isZero : α → Bool) (ratio : α) (items : List (GItem α)) (gs : List α) : List α :=
  if isZero ratio then gs.take ((items.map (·.size)).sum) else adjustGo isInf inc ratio items gs [] 0 0 0
end

/-- Go: `int32(adv*float64(XAdvance) + 0.5)` (conversion truncates towards zero) -/
def incFloat (adv xa : Float) : Float := Float.ofInt (Float.toInt32 (adv * xa + 0.5)).toInt

/-! ## character conservation verdict

Observation of a laid-out text: the class of every input rune and, per line, the rune ranges
`[a,b)` of its spans in logical order. -/

inductive RC | sp | cr | lf | nl | zw | shy | ch
deriving DecidableEq, Repr

def RC.droppable : RC → Bool
  | .ch => false
  | _ => true

def RC.newline : RC → Bool
  | .cr | .lf | .nl => true
  | _ => false

/-- number of line separators in a gap, CR LF counting once -/
def nlUnits : Bool → List RC → Nat
  | _, [] => 0
  | prevCR, c :: r =>
    (if c.newline && !(c == RC.lf && prevCR) then 1 else 0) + nlUnits (c == RC.cr) r

def sliceR (cls : List RC) (a b : Nat) : List RC := (cls.drop a).take (b - a)

inductive CVerdict
  | ok
  | fail (kind : String) (at_ : Nat)
deriving DecidableEq, Repr

/-- spans of one line: adjacent to each other, inside the text, non-empty, no line separator inside -/
def lineOK (cls : List RC) : Nat → List (Nat × Nat) → Option Nat
  | pos, [] => some pos
  | pos, (a, b) :: r =>
    if a = pos ∧ a < b ∧ b ≤ cls.length ∧ (sliceR cls a b).all (fun c => !c.newline) then lineOK cls b r else none

/-- walk over the lines: `pos` = end of the last span so far, `empties` = lines without spans since then,
`first` = no span seen yet -/
def conserveGo (cls : List RC) : Nat → Nat → Bool → List (List (Nat × Nat)) → CVerdict
  | pos, _, _, [] =>
    if (sliceR cls pos cls.length).all RC.droppable then .ok else .fail "chars-lost" pos
  | pos, empties, first, [] :: r => conserveGo cls pos (empties + 1) first r
  | pos, empties, first, ((a, b) :: sp) :: r =>
    let gap := sliceR cls pos a
    if a < pos then .fail "chars-lost-or-reordered" a
    else if first ∧ a ≠ 0 then .fail "chars-dropped-at-start" 0
    else if !gap.all RC.droppable then .fail "chars-lost" pos
    else if !first ∧ gap ≠ [] ∧ gap.all (· == RC.shy) ∧ (sliceR cls (pos - 1) pos) ≠ [RC.shy] then
      .fail "soft-hyphen-dropped-at-break" pos
    else if !first ∧ empties + 1 < nlUnits false gap then .fail "newline-lines-missing" pos
    else match lineOK cls a ((a, b) :: sp) with
      | none =>
        if ((a, b) :: sp).any (fun s => (sliceR cls s.1 s.2).any RC.newline) then .fail "newline-inside-line" a
        else .fail "chars-dropped-inside-line" a
      | some e => conserveGo cls e 0 false r

def conserve (cls : List RC) (lines : List (List (Nat × Nat))) : CVerdict := conserveGo cls 0 0 true lines

end Canvas.C16
