import CanvasModel.Prelude
/-!
# C16 — vertical stacking of ToText (/repo/text.go "set y position of line" … "vertical align"),
Text.Heights and Text.Bounds, generic over the scalar.

A line enters with the heights ToText reads for it: `asc desc bot` = ascent, descent, bottom
(descent + line gap) — the maxima over the faces of its spans, or the heights of the last run's face
for a line without spans — and `empty` (no spans: `line.Heights` then yields zeros in the final
"remove line gap of last line" step).
-/
namespace Canvas.C16

structure LM (α : Type) where
  asc : α
  desc : α
  bot : α
  empty : Bool

inductive VAlign | top | center | bottom | justify
deriving DecidableEq, Repr

section
variable {α : Type} [Add α] [Sub α] [Mul α] [Div α] [Neg α] [LT α] [∀ a b : α, Decidable (a < b)] [BEq α] [OfNat α 0] [OfNat α 2]

/-- the loop over the breaks: `first` = (j == 0); returns the baselines of the lines that fit (in order)
and the running `y`. A line that does not fit ends the loop. -/
def stackFit (ls height : α) : Bool → α → List (LM α) → List α × α
  | _, y, [] => ([], y)
  | first, y, l :: r =>
    let a := if first then l.asc else l.asc * ls
    let b := l.bot * ls
    if (!(height == 0)) && height < y + a + l.desc then ([], y)
    else
      let q := stackFit ls height false (y + (a + b)) r
      ((y + a) :: q.1, q.2)

/-- `for j { lines[j].y += dy; dy += ddy }` -/
def spread (ddy : α) : α → List α → List α
  | _, [] => []
  | dy, y :: r => (y + dy) :: spread ddy (dy + ddy) r

structure Stacked (α : Type) where
  ys : List α        -- line.y of every line kept
  total : α          -- y after removing the line gap of the last line
  height : α         -- Text.Height

/-- everything from `y := 0.0` to `t.Height = height` (horizontal writing mode). `cast` = float64(int). -/
def stackLines (cast : Nat → α) (ls height : α) (va : VAlign) (lines : List (LM α)) : Stacked α :=
  let q := stackFit ls height true 0 lines
  let n := q.1.length
  let kept := lines.take n
  let y : α := match kept.getLast? with
    | none => q.2
    | some l => if l.empty then q.2 + (-0 * ls + 0) else q.2 + (-l.bot * ls + l.desc)
  let ys := match va with
    | .top => q.1
    | .center => q.1.map (· + (height - y) / 2)
    | .bottom => q.1.map (· + (height - y))
    | .justify => spread ((height - y) / cast (n - 1)) 0 q.1
  ⟨ys, y, if height == 0 then y else height⟩

/-- Text.Heights: (-firstLine.y + ascent, lastLine.y + descent), zeros for empty lines -/
def textHeights (ys : List α) (kept : List (LM α)) : α × α :=
  match ys, kept, ys.getLast?, kept.getLast? with
  | y0 :: _, l0 :: _, some yn, some ln =>
    ((-y0) + (if l0.empty then 0 else l0.asc), yn + (if ln.empty then 0 else ln.desc))
  | _, _, _, _ => (0, 0)
end

/-! ## Rect.Add and Text.Bounds -/

structure R4 (α : Type) where
  x0 : α
  y0 : α
  x1 : α
  y1 : α

def R4.add {α : Type} (mn mx : α → α → α) (r q : R4 α) : R4 α :=
  ⟨mn r.x0 q.x0, mn r.y0 q.y0, mx r.x1 q.x1, mx r.y1 q.y1⟩

/-- `rect := Rect{}; for span { rect = rect.Add(spanRect) }` -/
def boundsOf {α : Type} [OfNat α 0] (mn mx : α → α → α) (rs : List (R4 α)) : R4 α :=
  rs.foldl (R4.add mn mx) ⟨0, 0, 0, 0⟩

/-- the rectangle Bounds adds for a span at X with Width on a line at y, face ascent/descent -/
def spanRect {α : Type} [Add α] [Sub α] [Neg α] (x w y asc desc : α) : R4 α :=
  ⟨x, -y - desc, x + w, -y - desc + asc + desc⟩

end Canvas.C16
