/-! # C20 — types of the facts extracted from /repo by tools/facts (core Lean only)
The generated module `CanvasGen.FactsC20` instantiates these with the current source. -/
namespace Canvas.C20

/-- the synchronisation that syntactically dominates an access site -/
inductive Sync where
  | none
  | once (o : String)        -- inside the body run by the once `o`
  | afterOnce (o : String)   -- after a call of the once `o` on every path
  | lock (m : String)        -- between m.Lock() and m.Unlock(), m package-level
  | localLock (m : String)   -- a lock that is not package-level (protects no global)
  | atomic
  deriving DecidableEq, Repr, Inhabited

structure Site where
  fn : String
  pos : String
  kind : String
  sync : Sync
  deriving DecidableEq, Repr, Inhabited

/-- one package-level variable: write sites outside initialisation, address-taken sites and (for
written variables) read sites -/
structure VarFact where
  qname : String
  pkg : String
  name : String
  typ : String
  pos : String
  nreads : Nat
  writes : List Site
  addrs : List Site
  reads : List Site
  deriving DecidableEq, Repr, Inhabited

/-- what one statement after `pool.Get()` does to the object -/
inductive StepKind where
  | set (f : String)   -- `v.f = e`
  | setAll             -- `*v = e`
  | use                -- anything else that mentions v: the object is published
  deriving DecidableEq, Repr, Inhabited

/-- one statement of the initialisation sequence: the fields of the object it reads (`v.g` in `e`) and
whether the object itself is used as a value -/
structure InitStep where
  pos : String
  kind : StepKind
  reads : List String
  whole : Bool
  deriving DecidableEq, Repr, Inhabited

/-- kind of a top-level statement of a function that Puts -/
inductive StmtKind where
  | other | release | ret
  deriving DecidableEq, Repr, Inhabited

structure PutFunc where
  pkg : String
  fn : String
  stmts : List (String × StmtKind)
  deriving DecidableEq, Repr, Inhabited

/-- one `pool.Get()` site: the pooled struct's field list and the fields assigned before the object
is first read or escapes -/
structure GetSite where
  pkg : String
  pool : String
  typ : String
  fn : String
  pos : String
  obj : String
  fields : List String
  assigned : List String
  whole : Bool
  stop : String
  initPos : List String
  steps : List InitStep
  deriving DecidableEq, Repr, Inhabited

/-- one `pool.Put(x)` site: the loops around it (outermost first) and whether it lies in the release
tail of its function (trailing top-level statements that only Put, before the final return) -/
structure PutSite where
  pool : String
  fn : String
  pos : String
  arg : String
  loops : List String
  inTail : Bool
  deriving DecidableEq, Repr, Inhabited

/-- one field of a struct type reachable from a loaded font; `writes` = sites that mutate a container
field (map, sync.Map, sync.Pool, chan) after construction -/
structure FieldFact where
  pkg : String
  struct : String
  name : String
  typ : String
  pos : String
  container : Bool
  writes : List Site
  deriving DecidableEq, Repr, Inhabited

/-- a call from canvas into a dependency method that writes into its receiver; `privateCopy`: the
receiver variable was rebound to a re-parsed copy (`ParseSFNT(recv.Write())`) before the call -/
structure MutatorCall where
  fn : String
  pos : String
  call : String
  recv : String
  privateCopy : Bool
  copyPos : String
  deriving DecidableEq, Repr, Inhabited

/-- a site `L = append(L, x…)` filling a local list that is released (Put) at the end of the function;
`deleted`: a re-slicing deletion from a container follows in an enclosing block of the same pass -/
structure DeferredRelease where
  fn : String
  list : String
  pos : String
  args : List String
  deleted : Bool
  deletionPos : String
  deriving DecidableEq, Repr, Inhabited

/-! ## Discipline of one variable (decidable; evaluated over the whole extracted table) -/

def Site.inOnce (o : String) (s : Site) : Bool := s.sync == .once o
def Site.inOrAfterOnce (o : String) (s : Site) : Bool := s.sync == .once o || s.sync == .afterOnce o
def Site.underLock (m : String) (s : Site) : Bool := s.sync == .lock m

/-- the once that runs the first write site, if any -/
def VarFact.onceOf (v : VarFact) : Option String :=
  match v.writes with
  | ⟨_, _, _, .once o⟩ :: _ => some o
  | _ => none

/-- the package-level lock held at the first write site, if any -/
def VarFact.lockOf (v : VarFact) : Option String :=
  match v.writes with
  | ⟨_, _, _, .lock m⟩ :: _ => some m
  | _ => none

/-- written only inside one once body, every read inside it or after a call of that once -/
def VarFact.onceDisciplined (v : VarFact) : Bool :=
  match v.onceOf with
  | some o => v.writes.all (Site.inOnce o) && v.reads.all (Site.inOrAfterOnce o)
  | none => false

/-- every write and every read holds one common package-level lock -/
def VarFact.lockDisciplined (v : VarFact) : Bool :=
  match v.lockOf with
  | some m => v.writes.all (Site.underLock m) && v.reads.all (Site.underLock m)
  | none => false

/-- every access is a sync/atomic operation -/
def VarFact.atomicDisciplined (v : VarFact) : Bool :=
  !(v.writes ++ v.reads).isEmpty && v.writes.all (·.sync == .atomic) && v.reads.all (·.sync == .atomic)

/-- never written (nor address-taken) outside initialisation -/
def VarFact.readOnly (v : VarFact) : Bool :=
  v.writes.isEmpty && v.addrs.isEmpty && v.reads.all (·.sync != .atomic)

def VarFact.disciplined (v : VarFact) : Bool :=
  v.readOnly || (v.addrs.isEmpty && (v.onceDisciplined || v.lockDisciplined || v.atomicDisciplined))

/-- a Get site leaves nothing of the previous user: every field is assigned before first use -/
def GetSite.stateless (g : GetSite) : Bool :=
  !g.fields.isEmpty && g.fields.all (g.assigned.contains ·)

end Canvas.C20
