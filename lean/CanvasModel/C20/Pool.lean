import CanvasModel.C20
/-! # C20 — the pool protocol (core Lean only)
Lean-side verdicts over the RAW facts the extractor emits (statement sequences, no judgement on the
Go side), and the small machines they are sound for. -/
namespace Canvas.C20

/-! ## Get: re-initialisation before first read -/

/-- verdict on the statement sequence after `v := pool.Get().(*T)`: no statement reads a field of `v`
that has not been assigned since the Get, `v` is not used as a whole before every field is assigned,
and when the sequence ends (first publication of `v`) every field is assigned. `a` = assigned so far. -/
def initOk (fields : List String) : List InitStep → List String → Bool
  | [], a => fields.all a.contains
  | s :: rest, a =>
    s.reads.all a.contains && (!s.whole || fields.all a.contains) &&
    (match s.kind with
     | .set f => initOk fields rest (f :: a)
     | .setAll => initOk fields rest (fields ++ a)
     | .use => fields.all a.contains)

/-- the fields assigned by the sequence (up to the first use) -/
def assignedBy (fields : List String) : List InitStep → List String → List String
  | [], a => a
  | s :: rest, a =>
    match s.kind with
    | .set f => assignedBy fields rest (f :: a)
    | .setAll => assignedBy fields rest (fields ++ a)
    | .use => a

/-- the sequence as operations of the object machine, for ANY meaning `sem` of the right-hand sides
(`sem s g st` = the value statement `s` gives to field `g` in object state `st`) -/
def toOps {α : Type} (fields : List String) (sem : InitStep → String → (String → α) → α) :
    List InitStep → List (InitOp α)
  | [] => []
  | s :: rest =>
    match s.kind with
    | .set f => { all := false, f := f, deps := if s.whole then fields ++ s.reads else s.reads, val := sem s } :: toOps fields sem rest
    | .setAll => { all := true, f := "", deps := if s.whole then fields ++ s.reads else s.reads, val := sem s } :: toOps fields sem rest
    | .use => []

/-- the right-hand side of a statement depends on the object only through the fields it reads (all
fields when the object is used as a whole) -/
def SemRespects {α : Type} (fields : List String) (sem : InitStep → String → (String → α) → α) : Prop :=
  ∀ (s : InitStep) (g : String) (st st' : String → α),
    (∀ d, d ∈ (if s.whole then fields ++ s.reads else s.reads) → st d = st' d) → sem s g st = sem s g st'

/-- verdict of the driver on one raw junk-pool observation of a Get site: `obs` = per compiled field
whether its value after the site differed between two different junk fillings of the pool -/
inductive GetVerdict where
  | ok
  | fieldList                  -- compiled field list ≠ extracted field list
  | stale (f : String)         -- property failure: the field keeps what the pool held
  | modelMissed (f : String)   -- stale field although initOk accepts the statement sequence
  | modelRejects               -- initOk rejects although nothing stale was observed
  deriving DecidableEq, Repr, Inhabited

def getObsVerdict (g : GetSite) (typ : String) (obs : List (String × Bool)) : GetVerdict :=
  if g.typ != typ || obs.map (·.1) != g.fields then .fieldList
  else
    match obs.find? (·.2) with
    | some (f, _) => if initOk g.fields g.steps [] then .modelMissed f else .stale f
    | none => if initOk g.fields g.steps [] then .ok else .modelRejects

/-! ## Put: no use after release -/

/-- events of one call on pooled objects (identified by number) -/
inductive PEv where
  | get (id : Nat)
  | use (id : Nat)
  | put (id : Nat)
  | guard (id : Nat)   -- the `if` condition of a release statement reading the object about to be put
  deriving DecidableEq, Repr, Inhabited

def PEv.isRelease : PEv → Bool
  | .put _ => true
  | .guard _ => true
  | _ => false

def PEv.isPut : PEv → Bool
  | .put _ => true
  | _ => false

/-- the event sequences a function body can produce, statement by statement: an `other` statement
may get and use objects any number of times but never puts; a `release` statement only puts (and
evaluates its guards); `return` ends the call -/
inductive Gen : List StmtKind → List PEv → Prop where
  | nil : Gen [] []
  | other {ks seg tr} : (∀ e, e ∈ seg → e.isPut = false ∧ e.isRelease = false) → Gen ks tr → Gen (.other :: ks) (seg ++ tr)
  | release {ks seg tr} : (∀ e, e ∈ seg → e.isRelease = true) → Gen ks tr → Gen (.release :: ks) (seg ++ tr)
  | ret {ks} : Gen (.ret :: ks) []

/-- verdict: after the first release statement there is no `other` statement any more -/
def tailOk : List StmtKind → Bool
  | [] => true
  | .release :: ks => ks.all (· != .other)
  | .ret :: _ => true
  | .other :: ks => tailOk ks

/-- contents of a pool (object identities, with multiplicity) after a sequence of events -/
def poolAfter : List PEv → List Nat → List Nat
  | [], pool => pool
  | .put id :: tr, pool => poolAfter tr (id :: pool)
  | .get id :: tr, pool => poolAfter tr (pool.erase id)
  | _ :: tr, pool => poolAfter tr pool

end Canvas.C20
