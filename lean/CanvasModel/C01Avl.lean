import CanvasModel.Prelude
/-!
C01 L2 model (second wave): the AVL tree `SweepStatus` of /repo/path_intersection.go
(`SweepNode`, `balance`, `updateHeight`, `rotateLeft/Right`, `rebalance`, `InsertAfter`, `Remove`,
`First/Last/Prev/Next`).

The Go code is pointer based (parent links, in-place rotation). The model is functional: a node
stores its payload (an integer id) and the *stored* height field `h` with exactly the code's
bookkeeping (heights are only rewritten where the code calls `updateHeight`/`height++`; in
particular the root keeps a stale height when a child is hung under a leaf root, because
`if rebalance && n.parent != nil` skips the `n.height++`). Nodes are addressed by in-order
position: `insertAt t k x` is `InsertAfter(node k-1, x)` (`k = 0`: `InsertAfter(nil, x)`),
`remove t k` is `Remove(node k)`.

A nil dereference or the "Tree too far out of shape!" panic is the outcome `none`.
Core Lean only.
-/
namespace Canvas.C01Avl

inductive Tree where
  | nil
  | node (l : Tree) (x : Nat) (h : Nat) (r : Tree)
deriving Repr, DecidableEq, Inhabited

namespace Tree

/-- the stored `height` field (0 for a nil pointer, as `balance`/`updateHeight` read it) -/
def ht : Tree → Nat
  | nil => 0
  | node _ _ h _ => h

def size : Tree → Nat
  | nil => 0
  | node l _ _ r => l.size + 1 + r.size

/-- in-order sequence of payloads (bottom-to-top order of the sweep status) -/
def toList : Tree → List Nat
  | nil => []
  | node l x _ r => l.toList ++ x :: r.toList

def isNil : Tree → Bool
  | nil => true
  | node .. => false

end Tree

open Tree

def leaf (x : Nat) : Tree := .node .nil x 1 .nil

/-- `n.balance()` -/
def balance : Tree → Int
  | .nil => 0
  | .node l _ _ r => (r.ht : Int) - (l.ht : Int)

/-- `n.updateHeight()`; `none` = nil receiver -/
def upd : Tree → Option Tree
  | .nil => none
  | .node l x _ r => some (.node l x (max l.ht r.ht + 1) r)

/-- `a.rotateLeft()` (returns the new subtree root `b = a.right`; heights untouched) -/
def rotL : Tree → Option Tree
  | .node l x h (.node rl y hr rr) => some (.node (.node l x h rl) y hr rr)
  | _ => none

/-- `a.rotateRight()` -/
def rotR : Tree → Option Tree
  | .node (.node ll y hl lr) x h r => some (.node ll y hl (.node lr x h r))
  | _ => none

/-- `n.right.updateHeight()` -/
def updRight : Tree → Option Tree
  | .node l x h r => (upd r).map fun r' => .node l x h r'
  | .nil => none

/-- `n.left.updateHeight()` -/
def updLeft : Tree → Option Tree
  | .node l x h r => (upd l).map fun l' => .node l' x h r
  | .nil => none

/-- which rotation the loop body of `rebalance` performs at this node:
0 none, 1 left, 2 right-left (double), 3 right, 4 left-right (double), 5 panic -/
def rotCase : Tree → Nat
  | .nil => 5
  | .node l x h r =>
    let b := balance (.node l x h r)
    if b = 2 then (if r.isNil = false ∧ balance r < 0 then 2 else 1)
    else if b = -2 then (if l.isNil = false ∧ 0 < balance l then 4 else 3)
    else if b < -2 ∨ 2 < b then 5 else 0

/-- one iteration of the loop body of `SweepStatus.rebalance` at node `n` (up to and including
`n.updateHeight()`); returns the subtree that now hangs where `n` hung -/
def step : Tree → Option Tree
  | .nil => none
  | .node l x h r =>
    if balance (.node l x h r) = 2 then
      -- Tree is excessively right-heavy, rotate it to the left.
      -- `if n.right != nil && n.right.balance() < 0 { n.right = n.right.rotateRight(); n.right.right.updateHeight() }`
      (if r.isNil = false ∧ balance r < 0 then (rotR r).bind updRight else some r).bind fun r1 =>
      -- `n = n.rotateLeft(); n.left.updateHeight()` … `n.updateHeight()`
      (rotL (.node l x h r1)).bind fun n => (updLeft n).bind upd
    else if balance (.node l x h r) = -2 then
      (if l.isNil = false ∧ 0 < balance l then (rotL l).bind updLeft else some l).bind fun l1 =>
      (rotR (.node l1 x h r)).bind fun n => (updRight n).bind upd
    else if balance (.node l x h r) < -2 ∨ 2 < balance (.node l x h r) then
      none   -- panic("Tree too far out of shape!")
    else upd (.node l x h r)

/-- loop body plus the loop test `oheight == n.height`: the flag says "continue at the parent" -/
def stepF (t : Tree) : Option (Tree × Bool) :=
  (step t).map fun t' => (t', t.ht != t'.ht)

/-- `InsertAfter` below a non-root node: descend to the attach point for in-order position `k`
(`k ≤ l.size`: into / left of the left subtree; otherwise right), hang the new leaf, `n.height++`
when the attach node had no other child, and run `rebalance` up the spine while the flag is set. -/
def ins : Tree → Nat → Nat → Option (Tree × Bool)
  | .nil, _, x => some (leaf x, true)
  | .node l y h r, k, x =>
    if k ≤ l.size then
      if l.isNil then some (.node (leaf x) y (if r.isNil then h + 1 else h) r, r.isNil)
      else (ins l k x).bind fun p =>
        if p.2 then stepF (.node p.1 y h r) else some (.node p.1 y h r, false)
    else
      if r.isNil then some (.node l y (if l.isNil then h + 1 else h) (leaf x), l.isNil)
      else (ins r (k - l.size - 1) x).bind fun p =>
        if p.2 then stepF (.node l y h p.1) else some (.node l y h p.1, false)

/-- `SweepStatus.InsertAfter(node k-1, x)`; the new element lands at in-order index `k` -/
def insertAt (t : Tree) (k x : Nat) : Option Tree :=
  match t with
  | .nil => some (leaf x)
  | .node .nil y h .nil =>
    -- `rebalance && n.parent != nil` is false for a leaf root: its height stays stale
    if k = 0 then some (.node (leaf x) y h .nil) else some (.node .nil y h (leaf x))
  | t => (ins t k x).map (·.1)

/-- detach the left-most node of a subtree (the successor in `Remove`), running the loop body at
every node on the way back up; returns its payload, its stored height and the remaining subtree -/
def remMin : Tree → Option (Nat × Nat × Tree)
  | .nil => none
  | .node l y h r =>
    if l.isNil then some (y, h, r)
    else (remMin l).bind fun p => (step (.node p.2.2 y h r)).map fun t => (p.1, p.2.1, t)

/-- `SweepStatus.Remove(node k)`. Go runs `rebalance(ancestor)` for every ancestor bottom-up (and
`rebalance` itself climbs while heights change); a second application of the loop body to a node
whose subtrees did not change is the identity (`step_noop_on_good`), so the model applies the loop
body exactly once per ancestor. The successor keeps its own stored height until the loop body
reaches it. -/
def rem : Tree → Nat → Option Tree
  | .nil, _ => none
  | .node l y h r, k =>
    if k < l.size then (rem l k).bind fun l' => step (.node l' y h r)
    else if k = l.size then
      if l.isNil then some r
      else if r.isNil then some l
      else (remMin r).bind fun p => step (.node l p.1 p.2.1 p.2.2)
    else (rem r (k - l.size - 1)).bind fun r' => step (.node l y h r')

def remove (t : Tree) (k : Nat) : Option Tree := rem t k

/-- `SweepStatus.First()` -/
def first : Tree → Option Nat
  | .nil => none
  | .node l x _ _ => match first l with
    | some v => some v
    | none => some x

/-- `SweepStatus.Last()` -/
def last : Tree → Option Nat
  | .nil => none
  | .node _ x _ r => match last r with
    | some v => some v
    | none => some x

/-- `SweepNode.Next()` started at in-order position `k` of subtree `t`. `none` = the walk left the
subtree through its top coming from the right spine (the caller keeps climbing; at the root this is
Go's `nil`). -/
def nextIn : Tree → Nat → Option Nat
  | .nil, _ => none
  | .node l y _ r, k =>
    if k < l.size then
      match nextIn l k with
      | some v => some v
      | none => some y          -- we were in the left subtree: first parent for which we're left
    else if k = l.size then first r   -- go right, then left-most
    else nextIn r (k - l.size - 1)

/-- `SweepNode.Prev()` -/
def prevIn : Tree → Nat → Option Nat
  | .nil, _ => none
  | .node l y _ r, k =>
    if k < l.size then prevIn l k
    else if k = l.size then last l
    else
      match prevIn r (k - l.size - 1) with
      | some v => some v
      | none => some y

/-! ## operation histories -/

inductive Op where
  | ins (k x : Nat)
  | del (k : Nat)
deriving Repr

/-- positions are reduced into range so that every history is a legal call sequence
(`Remove` on an empty status is skipped) -/
def applyOp (t : Tree) : Op → Option Tree
  | .ins k x => insertAt t (k % (t.size + 1)) x
  | .del k => if t.size = 0 then some t else remove t (k % t.size)

def run : Tree → List Op → Option Tree
  | t, [] => some t
  | t, op :: ops => (applyOp t op).bind fun t' => run t' ops

/-- the same history on plain lists (the specification of the in-order sequence) -/
def applySpec (l : List Nat) : Op → List Nat
  | .ins k x => let k := k % (l.length + 1); l.take k ++ x :: l.drop k
  | .del k => if l.length = 0 then l else l.eraseIdx (k % l.length)

def runSpec : List Nat → List Op → List Nat
  | l, [] => l
  | l, op :: ops => runSpec (applySpec l op) ops

/-! ## line protocol
`AVLI <tree> k x`, `AVLR <tree> k`, `AVLQ <tree> k`; `<tree>` is the pre-order dump: `.` for nil,
`id:h` for a node followed by its left and right subtrees. -/

def dump : Tree → List String
  | .nil => ["."]
  | .node l x h r => s!"{x}:{h}" :: (dump l ++ dump r)

def parseTree : Nat → List String → Option (Tree × List String)
  | 0, _ => none
  | _, [] => none
  | fuel + 1, tok :: rest =>
    if tok == "." then some (.nil, rest)
    else match tok.splitOn ":" with
      | [a, b] => do
        let x ← a.toNat?
        let h ← b.toNat?
        let (l, rest) ← parseTree fuel rest
        let (r, rest) ← parseTree fuel rest
        pure (.node l x h r, rest)
      | _ => none

def showO : Option Nat → String
  | some v => toString v
  | none => "-"

/-- rotation cases met by an insertion / removal are reported by the Go mirror only; the Lean
answer is the resulting tree -/
def handle : List String → Option String
  | "AVLI" :: rest => do
    let (t, rest) ← parseTree (rest.length + 1) rest
    match rest with
    | [k, x] => do
      let k ← k.toNat?
      let x ← x.toNat?
      pure (match insertAt t k x with
        | some t' => String.intercalate " " (dump t')
        | none => "PANIC")
    | _ => none
  | "AVLR" :: rest => do
    let (t, rest) ← parseTree (rest.length + 1) rest
    match rest with
    | [k] => do
      let k ← k.toNat?
      pure (match remove t k with
        | some t' => String.intercalate " " (dump t')
        | none => "PANIC")
    | _ => none
  | "AVLQ" :: rest => do
    let (t, rest) ← parseTree (rest.length + 1) rest
    match rest with
    | [k] => do
      let k ← k.toNat?
      pure s!"{showO (first t)} {showO (last t)} {showO (prevIn t k)} {showO (nextIn t k)} {String.intercalate " " (t.toList.map toString)}"
    | _ => none
  | _ => none

end Canvas.C01Avl
