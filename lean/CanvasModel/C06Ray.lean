import CanvasModel.C06
/-!
C06 L2 model of `RayIntersections` restricted to FLAT subpaths (MoveTo/LineTo/Close), in exact
arithmetic: which hits `intersectionLineLine` adds for every segment against the horizontal ray from
the query point (position along the ray, T[0]==0, Into, T[1] ∈ {0,1,between}, Same), the pre-checks
of `RayIntersections`, the stable sort by X — and on top of it the public queries `Windings`,
`Crossings`, `Contains` with their per-subpath loops.

Coordinates are integers at one common scale (the harness sends doubled coordinates, so that
half-integer query points are integral); the library's `Epsilon` comparisons coincide with the exact
ones on such inputs (all differences are 0 or ≥ 1/400), which is what the exact correspondence of
the hit lists checks on every run. The hit position is a `Rat` (core), used only as the sort key.
-/
namespace Canvas.C06
open Canvas.Wn

/-- where on the path segment the hit lies: T[1] = 0, T[1] = 1, or strictly between -/
inductive TB where
  | zero | one | mid
deriving Repr, DecidableEq

structure Hit where
  x : Rat          -- position along the ray (Intersection.X)
  t0zero : Bool    -- T[0] == 0: the hit is the query point itself
  into : Bool      -- Into(): the segment goes downwards
  tb : TB          -- T[1]
  same : Bool      -- overlapping (horizontal segment on the ray)
deriving Repr, DecidableEq

def Hit.z (h : Hit) : Z := ⟨h.t0zero, h.into, h.tb != .mid, h.same⟩

/-- x of the point of line a→b at height p.y (b.y ≠ a.y) -/
def hitX (p a b : IPt) : Rat :=
  (a.x : Rat) + (((p.y - a.y) * (b.x - a.x) : Int) : Rat) / ((b.y - a.y : Int) : Rat)

/-- sign of (hitX − p.x), as an integer cross product -/
def side (p a b : IPt) : Int := if a.y < b.y then isLeft a b p else - isLeft a b p

/-- non-parallel branch of `intersectionLineLine`: ta = (hitX − p.x)/L must be ≥ 0 (≤ 1 always holds,
the ray's far end lies beyond the segment), tb = (p.y − a.y)/(b.y − a.y) ∈ [0,1] by the pre-check -/
def lineHits (p a b : IPt) : List Hit :=
  if side p a b < 0 then []
  else [{ x := hitX p a b, t0zero := side p a b == 0, into := decide (b.y < a.y),
          tb := if p.y = a.y then .zero else if p.y = b.y then .one else .mid, same := false }]

/-- parallel + overlapping branch (segment on the ray's line, p.x ≤ max a.x b.x, a.x ≠ b.x):
with a = p.x, b = xmax+1, c = a.x, d = b.x the first case (`a-b in c-d`) is impossible -/
def horizHits (p a b : IPt) : List Hit :=
  if p.x ≤ a.x ∧ p.x ≤ b.x then
    -- c-d in a-b: both segment end points, in path order
    [{ x := (a.x : Rat), t0zero := a.x == p.x, into := false, tb := .zero, same := true },
     { x := (b.x : Rat), t0zero := b.x == p.x, into := false, tb := .one, same := true }]
  else
    -- a in c-d: the query point lies on the segment (or is its right end)
    let first : Hit :=
      { x := (p.x : Rat), t0zero := true, into := false,
        tb := if p.x = a.x then .zero else if p.x = b.x then .one else .mid,
        same := decide (p.x < b.x ∨ p.x < a.x) }
    if p.x < b.x then
      [first, { x := (b.x : Rat), t0zero := false, into := false, tb := .one, same := true }]
    else if p.x < a.x then
      [first, { x := (a.x : Rat), t0zero := false, into := false, tb := .zero, same := true }]
    else [first]

/-- one LineTo/Close segment a→b of `RayIntersections` -/
def edgeHits (p a b : IPt) : List Hit :=
  if a = b then []      -- zero-length
  else if ¬ (min a.y b.y ≤ p.y ∧ p.y ≤ max a.y b.y ∧ p.x ≤ max a.x b.x) then []   -- pre-check
  else if a.y = b.y then horizHits p a b
  else lineHits p a b

/-- hits in path order over a vertex chain -/
def chainHits (p : IPt) : List IPt → List Hit
  | a :: b :: rest => edgeHits p a b ++ chainHits p (b :: rest)
  | _ => []

/-- the vertex chain of one subpath: a closed one returns to its first vertex (the Close segment) -/
def subpathVerts (closed : Bool) (poly : List IPt) : List IPt :=
  match poly with
  | [] => []
  | a :: _ => if closed then poly ++ [a] else poly

/-- stable insertion: before the first element that is not strictly smaller -/
def ins (h : Hit) : List Hit → List Hit
  | [] => [h]
  | g :: s => if g.x < h.x then g :: ins h s else h :: g :: s

/-- `sort.SliceStable` by X (a stable sort by a strict weak order has one possible result) -/
def isort : List Hit → List Hit
  | [] => []
  | h :: l => ins h (isort l)

/-- at the Close command (847036a): when the first hit of the subpath is at the start of a segment,
the last at the end of one, and both lie on the subpath's start point, the last hit is moved in
front of the first, so that the stable sort keeps the two end-point hits of the start vertex adjacent -/
def rotateStart (p v0 : IPt) (hs : List Hit) : List Hit :=
  match hs with
  | h0 :: _ :: _ =>
    match hs.getLast? with
    | some hl =>
      if h0.tb = .zero ∧ hl.tb = .one ∧ v0.y = p.y ∧ h0.x = (v0.x : Rat) ∧ hl.x = (v0.x : Rat)
      then hl :: hs.dropLast else hs
    | none => hs
  | _ => hs

/-- hits of one subpath in the order in which `RayIntersections` holds them before sorting -/
def subHits (closed : Bool) (p : IPt) (poly : List IPt) : List Hit :=
  match poly with
  | [] => []
  | a :: _ => if closed then rotateStart p a (chainHits p (subpathVerts true poly)) else chainHits p poly

def rayHits (closed : Bool) (p : IPt) (poly : List IPt) : List Hit :=
  isort (subHits closed p poly)

/-- `windings(pi.RayIntersections(x, y))` -/
def windingsSub (closed : Bool) (p : IPt) (poly : List IPt) : Outcome :=
  windings ((rayHits closed p poly).map Hit.z)

abbrev Sub := Bool × List IPt    -- (closed, vertices)

/-- `Path.Windings`: subpaths that report a boundary are not added -/
def windingsPathGo (p : IPt) : List Sub → Int → Bool → Outcome
  | [], n, b => .ok n b
  | s :: rest, n, b =>
    match windingsSub s.1 p s.2 with
    | .ok ni bi => if bi then windingsPathGo p rest n true else windingsPathGo p rest (n + ni) b

def windingsPath (p : IPt) (subs : List Sub) : Outcome := windingsPathGo p subs 0 false

/-- `Path.Contains` -/
def containsPath (rule : Rule) (p : IPt) (subs : List Sub) : Bool :=
  match windingsPath p subs with
  | .ok n b => b || rule.fills n

/-! ### `Path.Crossings` (13dd06a): walk along the subpath, count where it changes sides -/

/-- `rayIntersections(x, y, false)` followed by the rotation in `Crossings`: when the first hit is at
the start of a segment and the last at the end of one, the last is moved to the front (the start
of the subpath follows on the end of its closing segment) -/
def crossRot (hs : List Hit) : List Hit :=
  match hs with
  | h0 :: _ :: _ =>
    match hs.getLast? with
    | some hl => if h0.tb = .zero ∧ hl.tb = .one then hl :: hs.dropLast else hs
    | none => hs
  | _ => hs

/-- overlapping section entered (and how), or left before being entered (and how) -/
structure CSt where
  entered : Bool := false
  enteredInto : Bool := false
  left : Bool := false
  leftInto : Bool := false
deriving Repr, DecidableEq

/-- a vertex on the ray: end hit `e` of one segment followed by start hit `z` of the next -/
def crossPair (e z : Hit) (st : CSt) (n : Int) : Int × CSt :=
  if !e.same && z.same then (n, { st with entered := true, enteredInto := e.into })
  else if e.same && !z.same then
    if !st.entered then (n, { st with left := true, leftInto := z.into, entered := false })
    else (if z.into == st.enteredInto then n + 1 else n, { st with entered := false })
  else if !e.same && e.into == z.into then (n + 1, st)
  else (n, st)

/-- the loop of `Crossings` over the hits of one subpath in path order. `pe` is the end hit
(T[1] = 1, not at the ray start) that may still find its partner in the next hit. Flat hits inside a
segment are never tangent to the ray. Returns count, boundary flag, state. -/
def crossWalk : Option Hit → List Hit → CSt → Int → Bool → Int × Bool × CSt
  | _, [], st, n, b => (n, b, st)
  | pe, z :: rest, st, n, b =>
    if z.t0zero then crossWalk none rest st n true
    else if z.tb = .mid then crossWalk none rest st (if z.same then n else n + 1) b
    else if z.tb = .one then crossWalk (some z) rest st n b
    else match pe with
      | some e => let r := crossPair e z st n; crossWalk none rest r.2 r.1 b
      | none => crossWalk none rest st n b

/-- one subpath: walk, then a section that was left at the beginning and entered at the end counts
if it is left towards the side it was not entered from -/
def crossingsSub (closed : Bool) (p : IPt) (poly : List IPt) (b : Bool) : Int × Bool :=
  let r := crossWalk none (crossRot (subHits closed p poly)) {} 0 b
  let st := r.2.2
  (if st.entered && st.left && st.enteredInto == st.leftInto then r.1 + 1 else r.1, r.2.1)

def crossingsPathGo (p : IPt) : List Sub → Int → Bool → Int × Bool
  | [], n, b => (n, b)
  | s :: rest, n, b =>
    let r := crossingsSub s.1 p s.2 b
    crossingsPathGo p rest (n + r.1) r.2

def crossingsPath (p : IPt) (subs : List Sub) : Int × Bool := crossingsPathGo p subs 0 false

end Canvas.C06
