import CanvasModel.C01
import CanvasModel.C01Merge
/-!
C02 L2 model: **Settle along one vertical line** (a *column*: the segments crossing the line,
bottom to top, as `computeSweepFields` sees them through the `prev` chain), and the L3 verdict
function that judges real `Settle` outputs.

* `keep` is the hand-written Settle row of `SweepPoint.InResult` (path_intersection.go:1624-1627 and
  the open-subject branch 1606-1610); it is proved equal to the generated definition in
  `CanvasProofs/C02.lean` and compared with the real function on every run.
* `resSW` is the direction a kept edge must have in a canonical result (filled side on the left:
  +1 = traversed left-to-right with the fill above, −1 = right-to-left with the fill below).
  The tracer produces it through contour tracing plus hole reversal
  (path_intersection.go:2191-2285); `TraceState` below checks that on the final sweep state of real
  runs.
* `outCol` is Settle as a function column → column. Vertical segments do not cross the line and are
  dropped by it; open segments (never closed by the library) are carried with `sw = 0`.

Core Lean only.
-/
namespace Canvas.C02
open Canvas.C01 Canvas.Wn

def ind (b : Bool) : Int := if b then 1 else 0

/-- the Settle row of `InResult`: an open segment is always kept, a closed one iff the fill under
the rule differs between its lower and its upper side -/
def keep (r : Rule) (s : Seg) (f : Fields) : Bool :=
  if s.open_ then true else r.fills f.w != r.fills (f.w + f.sw)

/-- direction of the edge in a canonical result (0 = not a boundary of the filled region) -/
def resSW (r : Rule) (f : Fields) : Int := ind (r.fills (f.w + f.sw)) - ind (r.fills f.w)

/-- winding number of the canonical result just above the column `L` (top first) -/
def resSum (r : Rule) : List (Seg × Fields) → Int
  | [] => 0
  | (s, f) :: below => (if s.vertical then 0 else resSW r f) + resSum r below

/-- directions of the kept non-vertical closed edges, top first -/
def keptDirs (r : Rule) : List (Seg × Fields) → List Int
  | [] => []
  | (s, f) :: below =>
    if s.vertical || resSW r f == 0 then keptDirs r below else resSW r f :: keptDirs r below

/-- walking DOWN a column from a region that is filled (`b = true`) or not: every boundary edge
flips the state, is directed +1 when the fill is above it and −1 when below, and the walk ends
in the unfilled outside -/
def altDown : Bool → List Int → Bool
  | b, [] => !b
  | b, d :: ds => (d == (if b then 1 else -1)) && altDown (!b) ds

def outSeg (dir : Int) : Seg := { clipping := false, vertical := false, increasing := decide (dir = 1), open_ := false }

/-- Settle on a column: the kept edges with the direction and the winding fields they have in the
result (top first) -/
def outCol (r : Rule) : List (Seg × Fields) → List (Seg × Fields)
  | [] => []
  | (s, f) :: below =>
    if s.vertical then outCol r below
    else if s.open_ then (s, ⟨resSum r below, 0, 0, 0⟩) :: outCol r below
    else if resSW r f = 0 then outCol r below
    else (outSeg (resSW r f), ⟨resSum r below, 0, resSW r f, 0⟩) :: outCol r below

/-- the segments of a processed column, bottom first (what a second sweep would be fed) -/
def segsOf (L : List (Seg × Fields)) : List Seg := (L.map Prod.fst).reverse

/-- `Settle(r)` of a column given by its segments, bottom first -/
def settleCol (r : Rule) (col : List Seg) : List (Seg × Fields) := outCol r (foldColumn col)

/-! ## protocol: `SCOL rule rule2 {vert incr open}*` (bottom first) →
`w keep dir` per segment, `|`, the result column (bottom first) `incr open w sw`, `|`, the result of
settling that again with `rule2`: `w keep dir` per segment. -/

def parseSubj : List String → Option (List Seg)
  | [] => some []
  | a :: b :: c :: rest => (parseSubj rest).map (fun l => ⟨false, b01 a, b01 b, b01 c⟩ :: l)
  | _ => none

def showFold (r : Rule) (L : List (Seg × Fields)) : List String :=
  L.reverse.map fun (s, f) => s!"{f.w} {ind (keep r s f)} {if s.open_ then 0 else resSW r f}"

def handleSCol : List String → Option String
  | r :: r2 :: rest => do
    let r ← (r.toNat?).bind Rule.ofNat?
    let r2 ← (r2.toNat?).bind Rule.ofNat?
    let col ← parseSubj rest
    let L := foldColumn col
    let out := outCol r L
    let outS := out.reverse.map fun (s, f) => s!"{ind s.increasing} {ind s.open_} {f.w} {f.sw}"
    let L2 := foldColumn (segsOf out)
    pure (String.intercalate " " (showFold r L ++ ["|"] ++ outS ++ ["|"] ++ showFold r2 L2))
  | _ => none

/-! ## protocol: `SMRG rule n {vert incr open overl geom w sw}*n` (top first, the receiver first):
the real `mergeOverlapping` under opSettle on a subject-only chain → per entry
`w sw overlapped keep open` (open = the flag the entry carries afterwards: 51f64dd clears it on a
receiver that lies on a closed segment), then the index of the receiver's new `prev`. Uses the C01 merge model; what
is new here is the Settle decision on the merged (|sw| > 1) entries. -/

def parseSEnts : List String → Option (List C01Merge.Ent)
  | [] => some []
  | b :: c :: d :: e :: g :: w :: sw :: rest => do
    let g ← g.toNat?
    let w ← w.toInt?
    let sw ← sw.toInt?
    let l ← parseSEnts rest
    pure (⟨⟨false, b01 b, b01 c, b01 d⟩, g, b01 e, ⟨w, 0, sw, 0⟩⟩ :: l)
  | _ => none

def handleSMrg : List String → Option String
  | r :: rest => do
    let r ← (r.toNat?).bind Rule.ofNat?
    match ← parseSEnts rest with
    | [] => none
    | s :: below =>
      let m := C01Merge.merge s below
      let ents := m.s :: m.below
      let toks := ents.map fun e =>
        s!"{e.f.w} {e.f.sw} {ind e.overlapped} {ind (keep r e.seg e.f)} {ind e.seg.open_}"
      let pi : Int := match m.prevIdx with
        | some i => (i : Int) + 1
        | none => -1
      pure (String.intercalate " " toks ++ s!" {pi}")
  | _ => none

end Canvas.C02
