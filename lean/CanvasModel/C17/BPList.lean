import CanvasModel.Prelude
/-!
# C17 — pointer-level model of `text.Breakpoints` (the doubly linked active/inactive node lists)

`Heap` holds the `prev`/`next` pointers of the nodes (node = its index), `Hdr` the `head`/`tail`
pointers of one list. `has`, `push`, `insertBefore`, `remove` transcribe the Go methods statement by
statement, including `Has`, which only looks at the node's own pointers and at `list.head`, and
including the nil dereference of `list.tail.next` in a corrupted list (`none` = panic). The same
definitions are run by the driver (two lists over one heap, arbitrary operation histories, compared
with the real methods through the hook `text.VerifBreakpointsRun`) and reasoned about in
`CanvasProofs/Lemmas/C17BPList.lean`.
-/
namespace Canvas.C17.BP

structure Heap where
  prev : Nat → Option Nat
  next : Nat → Option Nat

structure Hdr where
  head : Option Nat
  tail : Option Nat

def upd (f : Nat → Option Nat) (i : Nat) (v : Option Nat) : Nat → Option Nat :=
  fun j => if j = i then v else f j

def Heap.setPrev (h : Heap) (i : Nat) (v : Option Nat) : Heap := { h with prev := upd h.prev i v }
def Heap.setNext (h : Heap) (i : Nat) (v : Option Nat) : Heap := { h with next := upd h.next i v }

def emptyHeap : Heap := ⟨fun _ => none, fun _ => none⟩
def emptyHdr : Hdr := ⟨none, none⟩

/-- `!(b.prev == nil && b.next == nil && (b != list.head || list.head == nil))` -/
def has (h : Heap) (l : Hdr) (b : Nat) : Bool :=
  !((h.prev b).isNone && (h.next b).isNone && (l.head != some b || l.head.isNone))

/-- `Push`; `none` = nil dereference of `list.tail` -/
def push (h : Heap) (l : Hdr) (b : Nat) : Option (Heap × Hdr) :=
  match l.head with
  | none => some (h, ⟨some b, some b⟩)
  | some _ =>
    if has h l b then some (h, l)
    else
      match l.tail with
      | none => none
      | some t => some (((h.setPrev b l.tail).setNext t (some b)), ⟨l.head, some b⟩)

/-- `InsertBefore` -/
def insertBefore (h : Heap) (l : Hdr) (b at_ : Nat) : Heap × Hdr :=
  if has h l b || !has h l at_ then (h, l)
  else
    let h1 := h.setNext b (some at_)
    match h1.prev at_ with
    | none => (h1.setPrev at_ (some b), ⟨some b, l.tail⟩)
    | some p => (((h1.setPrev b (some p)).setNext p (some b)).setPrev at_ (some b), l)

/-- `Remove` -/
def remove (h : Heap) (l : Hdr) (b : Nat) : Heap × Hdr :=
  if !has h l b then (h, l)
  else
    let (h1, l1) : Heap × Hdr :=
      match h.prev b with
      | none => (h, ⟨h.next b, l.tail⟩)
      | some p => (h.setNext p (h.next b), l)
    let (h2, l2) : Heap × Hdr :=
      match h1.next b with
      | none => (h1, ⟨l1.head, h1.prev b⟩)
      | some n => (h1.setPrev n (h1.prev b), l1)
    ((h2.setPrev b none).setNext b none, l2)

/-- two lists (0 = active, 1 = inactive) over one heap -/
structure Sys where
  heap : Heap
  l0 : Hdr
  l1 : Hdr

def Sys.hdr (s : Sys) (i : Nat) : Hdr := if i = 0 then s.l0 else s.l1
def Sys.set (s : Sys) (i : Nat) (h : Heap) (l : Hdr) : Sys :=
  if i = 0 then ⟨h, l, s.l1⟩ else ⟨h, s.l0, l⟩

inductive Op where
  | push (list b : Nat)
  | insertBefore (list b at_ : Nat)
  | remove (list b : Nat)
  | has (list b : Nat)

/-- one operation; the `Bool` list collects the results of `has`; `none` = panic -/
def step (s : Sys) (obs : List Bool) : Op → Option (Sys × List Bool)
  | Op.push i b =>
    match push s.heap (s.hdr i) b with
    | none => none
    | some (h, l) => some (s.set i h l, obs)
  | Op.insertBefore i b a =>
    let (h, l) := insertBefore s.heap (s.hdr i) b a
    some (s.set i h l, obs)
  | Op.remove i b =>
    let (h, l) := remove s.heap (s.hdr i) b
    some (s.set i h l, obs)
  | Op.has i b => some (s, obs ++ [has s.heap (s.hdr i) b])

def run : Sys → List Bool → List Op → Option (Sys × List Bool)
  | s, obs, [] => some (s, obs)
  | s, obs, op :: rest =>
    match step s obs op with
    | none => none
    | some (s', obs') => run s' obs' rest

def showOpt : Option Nat → String
  | none => "-1"
  | some i => toString i

/-- the observable pointer state of `n` nodes and both lists -/
def dump (n : Nat) (s : Sys) (obs : List Bool) : String :=
  String.intercalate " "
    ([showOpt s.l0.head, showOpt s.l0.tail, showOpt s.l1.head, showOpt s.l1.tail] ++
      (List.range n).flatMap (fun i => [showOpt (s.heap.prev i), showOpt (s.heap.next i)]) ++
      obs.map (fun b => if b then "1" else "0"))

end Canvas.C17.BP
