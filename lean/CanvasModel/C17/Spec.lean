import CanvasModel.C17
/-!
# C17 — L3 specification of line breaking (core Lean, executable, generic scalar)

* `legalAt` / `forcedAt`: the breakpoints of the property statement (a finite penalty, or glue that
  directly follows a box and does not directly precede a penalty; forced = penalty ≤ −Infinity).
* `pre`: running sums of the item loop; `sumsAfter`: Knuth–Plass `Σ after(a)`.
* `lineStart`, `sumRange`, `lineNat`, `lineRatio`: measures of one line by **direct summation** over
  the items of the line (no prefix sums), `lineDem`: its demerits.
* `bestFrom` / `best`: minimal total demerits over **all** legal breakings whose lines all have a
  ratio in `[-1, tol]`, by exhaustive recursion over the candidate positions.
-/
namespace Canvas.C17

section
variable {α : Type} [Add α] [Sub α] [Mul α] [Div α] [Neg α] [LT α] [LE α] [BEq α]
  [DecidableLT α] [DecidableLE α] [NatCast α]

def prevOf (items : List (Item α)) : Nat → Option (Item α)
  | 0 => none
  | b + 1 => items[b]?

def nextNotPenalty (next : Option (Item α)) : Bool :=
  match next with
  | some nx => decide (nx.ty ≠ Ty.penalty)
  | none => false

/-- legality of a break at `it`, given its neighbours -/
def legalLocal (P : Params α) (prev : Option (Item α)) (it : Item α) (next : Option (Item α)) : Bool :=
  match it.ty with
  | Ty.box => false
  | Ty.glue =>
    prevIsBox prev && nextNotPenalty next
  | Ty.penalty => decide (it.penalty < P.infinity)

def legalAt (P : Params α) (items : List (Item α)) (b : Nat) : Bool :=
  match items[b]? with
  | none => false
  | some it => legalLocal P (prevOf items b) it items[b + 1]?

def forcedAt (P : Params α) (items : List (Item α)) (b : Nat) : Bool :=
  match items[b]? with
  | none => false
  | some it => isForced P it

/-- the paragraph ends in a forced break that is also a legal breakpoint (precondition of the property) -/
def finalForced (P : Params α) (items : List (Item α)) : Prop :=
  ∃ n, items.length = n + 1 ∧ forcedAt P items n = true ∧ legalAt P items n = true

/-- contribution of one item to the running sums `(W, Y, Z)` -/
def addItem (s : α × α × α) (it : Item α) : α × α × α :=
  match it.ty with
  | Ty.box => (s.1 + it.width, s.2.1, s.2.2)
  | Ty.glue => (s.1 + it.width, s.2.1 + it.stretch, s.2.2 + it.shrink)
  | Ty.penalty => s

/-- running sums after the first `b` items (the value of `lb.W, lb.Y, lb.Z` when item `b` is reached) -/
def pre (items : List (Item α)) (b : Nat) : α × α × α :=
  (items.take b).foldl addItem (k 0, k 0, k 0)

/-- `computeSum(a)`: the sums after a break at `a` -/
def sumsAfter (P : Params α) (items : List (Item α)) (a : Nat) : α × α × α :=
  sumAfter P true (items.drop a) (pre items a)

/-- width reported for / used at a break at `b`: running width plus the width of a penalty -/
def widthAt (items : List (Item α)) (b : Nat) : α :=
  match items[b]? with
  | some it => if it.ty = Ty.penalty then (pre items b).1 + it.width else (pre items b).1
  | none => (pre items b).1

/-! ## direct-sum measures -/

def lineStartFrom (P : Params α) : Bool → Nat → List (Item α) → Nat
  | _, i, [] => i
  | first, i, it :: rest =>
    if it.ty = Ty.box || (isForced P it && !first) then i else lineStartFrom P false (i + 1) rest

/-- index of the first item of the line after a break at `a` (`none`: start of the paragraph) -/
def lineStart (P : Params α) (items : List (Item α)) : Option Nat → Nat
  | none => 0
  | some a => lineStartFrom P true a (items.drop a)

/-- sums over `items[i..j)` -/
def sumRange (items : List (Item α)) (i j : Nat) : α × α × α :=
  ((items.drop i).take (j - i)).foldl addItem (k 0, k 0, k 0)

/-- natural width (with the penalty width), stretch and shrink of the line from a break at `a` to a
break at `b`, Knuth–Plass: signed if the break precedes the first box after `a` -/
def lineNat (P : Params α) (items : List (Item α)) (a : Option Nat) (b : Nat) : α × α × α :=
  let s := lineStart P items a
  let m : α × α × α :=
    if s ≤ b then sumRange items s b
    else let n := sumRange items b s; (k 0 - n.1, k 0 - n.2.1, k 0 - n.2.2)
  match items[b]? with
  | some it => if it.ty = Ty.penalty then (m.1 + it.width, m.2.1, m.2.2) else m
  | none => m

/-- adjustment ratio of a line with natural measures `(L, Y, Z)`; `none`: cannot be made to fit -/
def ratioOf (lineW L Y Z : α) : Option α :=
  if L < lineW then (if Y ≤ k 0 then none else some ((lineW - L) / Y))
  else if lineW < L then (if Z == k 0 then none else some ((lineW - L) / Z))
  else some (k 0)

def lineRatio (P : Params α) (items : List (Item α)) (lineW : α) (a : Option Nat) (b : Nat) : Option α :=
  let m := lineNat P items a b
  ratioOf lineW m.1 m.2.1 m.2.2

def flaggedAtOpt (items : List (Item α)) : Option Nat → Bool
  | none => false
  | some a => flaggedAt items a

def optMin (a b : Option α) : Option α :=
  match a, b with
  | none, b => b
  | a, none => a
  | some x, some y => if y < x then some y else some x

/-- minimal total demerits of a legal breaking of the rest of the paragraph into lines with ratio in
`[-1, tol]`, given the last break `a`, the fitness class `fit` of the line ending there and the
remaining candidate positions (increasing; the last one is the end of the paragraph) -/
def bestFrom (P : Params α) (items : List (Item α)) (lineW tol : α) :
    Option Nat → Nat → List Nat → Option α
  | _, _, [] => none
  | a, fit, b :: bs =>
    let skip := if forcedAt P items b then none else bestFrom P items lineW tol a fit bs
    let take :=
      if legalAt P items b then
        match items[b]?, lineRatio P items lineW a b with
        | some it, some r =>
          if decide (-(k 1 : α) ≤ r) && decide (r ≤ tol) then
            let d := lineDemerits P it r (flaggedAtOpt items a) fit
            match bs with
            | [] => some d
            | _ :: _ =>
              match bestFrom P items lineW tol (some b) (fitClass r) bs with
              | some rest => some (d + rest)
              | none => none
          else none
        | _, _ => none
      else none
    optMin skip take

/-- the optimum of the property: least total demerits over all legal breakings within `[-1, Tolerance]` -/
def best (P : Params α) (items : List (Item α)) (lineW : α) : Option α :=
  bestFrom P items lineW P.tolerance none 1 (List.range items.length)

end
end Canvas.C17
