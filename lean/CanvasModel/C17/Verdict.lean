import CanvasModel.C17.Spec
/-!
# C17 — executable verdict of the structural part of the property

`structClass P items pos` judges the positions `pos` returned by the REAL `text.Linebreak` for the
paragraph `items` (sent by the harness as a `!` line): strictly increasing, every one a legal
breakpoint, ending at the final item, containing every forced break. `none` = ok, `some cls` = the
failure class. Soundness (`C17.structVerdict_sound`): `none` implies the property's predicate.
-/
namespace Canvas.C17

section
variable {α : Type} [Add α] [Sub α] [Mul α] [Div α] [Neg α] [LT α] [LE α] [BEq α]
  [DecidableLT α] [DecidableLE α] [NatCast α]

def increasing : List Nat → Bool
  | [] => true
  | [_] => true
  | x :: y :: rest => decide (x < y) && increasing (y :: rest)

def structClass (P : Params α) (items : List (Item α)) (pos : List Nat) : Option String :=
  if pos.isEmpty then some "empty-result"
  else if !increasing pos then some "not-increasing"
  else if !pos.all (fun p => legalAt P items p) then some "illegal-breakpoint"
  else if pos.getLast? != some (items.length - 1) then some "not-ending-at-final"
  else if !(List.range items.length).all (fun f => !(forcedAt P items f && legalAt P items f) || pos.contains f) then
    some "forced-break-skipped"
  else none

end
end Canvas.C17
