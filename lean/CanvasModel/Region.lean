import CanvasModel.Wn
/-!
Protocol handlers that decide region predicates with the exact L3 specification `Wn`.
Polygons arrive as float64 bit patterns (the operands *as flattened by the library* and the result);
everything is decoded to integers at one common dyadic scale before any test.

  poly block :=  <k>  { <n> x y … }×k           (k contours, n vertices each, hex floats)
-/
namespace Canvas.Region
open Canvas Canvas.Wn

abbrev RawPt := (Int × Int) × (Int × Int)      -- (mantissa, exponent) for x and y

def parseRaw (s : String) : Option (Int × Int) := do
  let n ← parseHexNat? s
  decodeFloat n

/-- parse `n` points (2n tokens) -/
def parsePts : Nat → List String → Option (List RawPt × List String)
  | 0, ts => some ([], ts)
  | n + 1, x :: y :: ts => do
    let px ← parseRaw x
    let py ← parseRaw y
    let (rest, ts') ← parsePts n ts
    pure ((px, py) :: rest, ts')
  | _, _ => none

def parseContours : Nat → List String → Option (List (List RawPt) × List String)
  | 0, ts => some ([], ts)
  | k + 1, n :: ts => do
    let n ← n.toNat?
    let (c, ts') ← parsePts n ts
    let (cs, ts'') ← parseContours k ts'
    pure (c :: cs, ts'')
  | _, _ => none

def parsePoly : List String → Option (List (List RawPt) × List String)
  | k :: ts => do
    let k ← k.toNat?
    parseContours k ts
  | _ => none

def rawExps (ps : List RawPt) : List (Int × Int) := ps.foldr (fun p acc => p.1 :: p.2 :: acc) []

def toI (e0 : Int) (p : RawPt) : IPt := ⟨scaleTo e0 p.1, scaleTo e0 p.2⟩

/-- ceil(v · 2^(-e0)) for a non-negative dyadic v = m·2^e, as an upper bound of δ at scale e0 -/
def scaleUp (e0 : Int) (v : Int × Int) : Int :=
  if v.2 ≥ e0 then v.1 * (2 : Int) ^ (v.2 - e0).toNat
  else
    let d := (2 : Int) ^ (e0 - v.2).toNat
    (v.1 + d - 1) / d

structure Scene where
  P : List (List IPt)
  Q : List (List IPt)
  R : List (List IPt)
  pts : List IPt
  d2 : Int

def mkScene (delta : Int × Int) (p q r : List (List RawPt)) (pts : List RawPt) : Scene :=
  let all := (p ++ q ++ r).foldr (fun c acc => rawExps c ++ acc) (rawExps pts)
  let e0 := minExp all
  let d := scaleUp e0 delta
  { P := p.map (·.map (toI e0)), Q := q.map (·.map (toI e0)), R := r.map (·.map (toI e0)),
    pts := pts.map (toI e0), d2 := d * d }

def b2s (b : Bool) : String := if b then "1" else "0"

/-- C01: filled NonZero R p = regionOp op (filled NonZero P p) (filled NonZero Q p) off the δ-band. -/
def checkBool (op : Op) (s : Scene) : String := Id.run do
  let mut checked := 0
  let mut skipped := 0
  let mut idx := 0
  for p in s.pts do
    if farFromAll p s.d2 s.P && farFromAll p s.d2 s.Q && farFromAll p s.d2 s.R then
      let wp := wn p s.P
      let wq := wn p s.Q
      let wr := wn p s.R
      let expected := regionOp op (Rule.nonZero.fills wp) (Rule.nonZero.fills wq)
      let got := Rule.nonZero.fills wr
      if expected != got then
        let cls := if Rule.evenOdd.fills wr == expected then "orientation-only" else "boundary"
        return s!"FAIL {cls} pt={idx} expected={b2s expected} got={b2s got} wnP={wp} wnQ={wq} wnR={wr}"
      checked := checked + 1
    else
      skipped := skipped + 1
    idx := idx + 1
  return s!"ok checked={checked} skipped={skipped}"

/-- all consecutive segments of a contour (closed) -/
def segsOf (c : List IPt) : List (IPt × IPt) :=
  match c with
  | [] => []
  | a :: _ => (c.zip (c.tail ++ [a]))

/-- two segments cross properly and by more than the tolerance: every endpoint is farther than δ
from the other segment (a vertex resting on another edge within the snap grid is not a crossing) -/
def anyProperCross (d2 : Int) (segs : List (IPt × IPt)) : Option (Nat × Nat) := Id.run do
  let arr := segs.toArray
  for i in [0:arr.size] do
    for j in [i+1:arr.size] do
      let (a, b) := arr[i]!
      let (c, d) := arr[j]!
      if properCross a b c d && farFromSeg a c d d2 && farFromSeg b c d d2
          && farFromSeg c a b d2 && farFromSeg d a b d2 then return some (i, j)
  return none

/-- C02: Settle(rule): region preserved, winding ∈ {0,1}, canonical rule independence,
no proper crossings among the output segments. -/
def checkSettle (rule : Rule) (s : Scene) : String := Id.run do
  let mut checked := 0
  let mut skipped := 0
  let mut idx := 0
  for p in s.pts do
    if farFromAll p s.d2 s.P && farFromAll p s.d2 s.R then
      let wp := wn p s.P
      let wr := wn p s.R
      let expected := rule.fills wp
      let got := Rule.nonZero.fills wr
      if expected != got then
        let cls := if Rule.evenOdd.fills wr == expected then "orientation-only" else "boundary"
        return s!"FAIL {cls} pt={idx} expected={b2s expected} got={b2s got} wnP={wp} wnR={wr}"
      if wr != 0 && wr != 1 then
        return s!"FAIL winding-not-01 pt={idx} wnP={wp} wnR={wr}"
      checked := checked + 1
    else
      skipped := skipped + 1
    idx := idx + 1
  match anyProperCross s.d2 (s.R.foldr (fun c acc => segsOf c ++ acc) []) with
  | some (i, j) => return s!"FAIL output-crosses seg={i} seg={j}"
  | none => return s!"ok checked={checked} skipped={skipped}"

/-- C06: winding number / crossings reported by the library for flat paths -/
def checkWindings (s : Scene) (reported : List Int) : String := Id.run do
  let mut checked := 0
  let mut skipped := 0
  let mut idx := 0
  for (p, rep) in s.pts.zip reported do
    if farFromAll p s.d2 s.P then
      let w := wn p s.P
      if w != rep then
        return s!"FAIL windings pt={idx} spec={w} reported={rep}"
      checked := checked + 1
    else
      skipped := skipped + 1
    idx := idx + 1
  return s!"ok checked={checked} skipped={skipped}"

/--
  REGION bool   <op> <delta> P <poly> Q <poly> R <poly> PTS <m> x y …
  REGION settle <rule> <delta> P <poly> R <poly> PTS <m> x y …
  REGION wind   <delta> P <poly> PTS <m> x y … W w1 … wm
-/
def handle : List String → Option String
  | "bool" :: op :: delta :: "P" :: ts => do
    let op ← Op.ofString? op
    let delta ← parseRaw delta
    let (p, ts) ← parsePoly ts
    let ts ← (match ts with | "Q" :: t => some t | _ => none)
    let (q, ts) ← parsePoly ts
    let ts ← (match ts with | "R" :: t => some t | _ => none)
    let (r, ts) ← parsePoly ts
    match ts with
    | "PTS" :: m :: ts => do
      let m ← m.toNat?
      let (pts, _) ← parsePts m ts
      pure (checkBool op (mkScene delta p q r pts))
    | _ => none
  | "settle" :: rule :: delta :: "P" :: ts => do
    let rule ← (rule.toNat?).bind Rule.ofNat?
    let delta ← parseRaw delta
    let (p, ts) ← parsePoly ts
    let ts ← (match ts with | "R" :: t => some t | _ => none)
    let (r, ts) ← parsePoly ts
    match ts with
    | "PTS" :: m :: ts => do
      let m ← m.toNat?
      let (pts, _) ← parsePts m ts
      pure (checkSettle rule (mkScene delta p [] r pts))
    | _ => none
  | "wind" :: delta :: "P" :: ts => do
    let delta ← parseRaw delta
    let (p, ts) ← parsePoly ts
    match ts with
    | "PTS" :: m :: ts => do
      let m ← m.toNat?
      let (pts, ts) ← parsePts m ts
      match ts with
      | "W" :: ws => do
        let ws ← ws.mapM (·.toInt?)
        pure (checkWindings (mkScene delta p [] [] pts) ws)
      | _ => none
    | _ => none
  | _ => none

end Canvas.Region
