import CanvasModel.Prelude
namespace Canvas
/-- Dispatch of hand-written (L2/L3) model handlers by protocol tag. -/
def dispatchModel (tag : String) (args : List String) : Option String :=
  none
end Canvas
