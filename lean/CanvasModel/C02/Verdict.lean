import CanvasModel.Region
/-!
C02 L3 verdict: the executable specification that judges one observed `Settle` call. The Go side
sends the input as flattened by the library, the result, and query points; everything is decoded
to integers at one dyadic scale (`Region.mkScene`) and judged here, by structural recursion so
that soundness is provable (`CanvasProofs/Lemmas/C02Verdict.lean`).

A point is *judged* only if it is farther than δ from every segment of input and result. For a
judged point: the result read under NonZero fills it iff the input fills it under the rule
(region), its winding number in the result is 0 or 1 (canonical), hence the result reads the same
under NonZero, EvenOdd and Positive. Independently of points: no two result segments cross properly
by more than δ.
-/
namespace Canvas.C02
open Canvas Canvas.Wn

inductive Verdict
  | ok (checked skipped : Nat)
  | failPoint (cls : String) (idx : Nat) (wp wr : Int)
  | crosses (i j : Nat)
deriving Repr, DecidableEq

/-- failure class of one judged point (`none` = passes) -/
def pointClass (rule : Rule) (wp wr : Int) : Option String :=
  if rule.fills wp != Rule.nonZero.fills wr then
    some (if Rule.evenOdd.fills wr == rule.fills wp then "orientation-only" else "boundary")
  else if wr != 0 && wr != 1 then some "winding-not-01"
  else none

def judged (P R : List (List IPt)) (d2 : Int) (p : IPt) : Bool := farFromAll p d2 P && farFromAll p d2 R

def scanPts (rule : Rule) (P R : List (List IPt)) (d2 : Int) : List IPt → Nat → Nat → Nat → Verdict
  | [], _, c, k => .ok c k
  | p :: rest, idx, c, k =>
    if judged P R d2 p then
      match pointClass rule (wn p P) (wn p R) with
      | some cls => .failPoint cls idx (wn p P) (wn p R)
      | none => scanPts rule P R d2 rest (idx + 1) (c + 1) k
    else scanPts rule P R d2 rest (idx + 1) c (k + 1)

/-- two segments cross properly and by more than the tolerance: every endpoint is farther than δ
from the other segment (a vertex resting on another edge within the snap grid is no crossing) -/
def crossFar (d2 : Int) (s t : IPt × IPt) : Bool :=
  properCross s.1 s.2 t.1 t.2 && farFromSeg s.1 t.1 t.2 d2 && farFromSeg s.2 t.1 t.2 d2
    && farFromSeg t.1 s.1 s.2 d2 && farFromSeg t.2 s.1 s.2 d2

def firstCrossWith (d2 : Int) (s : IPt × IPt) : List (IPt × IPt) → Nat → Option Nat
  | [], _ => none
  | t :: rest, j => if crossFar d2 s t then some j else firstCrossWith d2 s rest (j + 1)

def firstCross (d2 : Int) : List (IPt × IPt) → Nat → Option (Nat × Nat)
  | [], _ => none
  | s :: rest, i =>
    match firstCrossWith d2 s rest (i + 1) with
    | some j => some (i, j)
    | none => firstCross d2 rest (i + 1)

def allSegs (R : List (List IPt)) : List (IPt × IPt) := R.foldr (fun c acc => Region.segsOf c ++ acc) []

def verdict (rule : Rule) (P R : List (List IPt)) (pts : List IPt) (d2 : Int) : Verdict :=
  match scanPts rule P R d2 pts 0 0 0 with
  | .ok c k =>
    match firstCross d2 (allSegs R) 0 with
    | some (i, j) => .crosses i j
    | none => .ok c k
  | v => v

def render (rule : Rule) : Verdict → String
  | .ok c k => s!"ok checked={c} skipped={k}"
  | .failPoint cls idx wp wr =>
    if cls == "winding-not-01" then s!"FAIL winding-not-01 pt={idx} wnP={wp} wnR={wr}"
    else s!"FAIL {cls} pt={idx} expected={Region.b2s (rule.fills wp)} got={Region.b2s (Rule.nonZero.fills wr)} wnP={wp} wnR={wr}"
  | .crosses i j => s!"FAIL output-crosses seg={i} seg={j}"

/-- `SETTLE <rule> <delta> P <poly> R <poly> PTS <m> x y …` -/
def handleSettle : List String → Option String
  | rule :: delta :: "P" :: ts => do
    let rule ← (rule.toNat?).bind Rule.ofNat?
    let delta ← Region.parseRaw delta
    let (p, ts) ← Region.parsePoly ts
    let ts ← (match ts with | "R" :: t => some t | _ => none)
    let (r, ts) ← Region.parsePoly ts
    match ts with
    | "PTS" :: m :: ts => do
      let m ← m.toNat?
      let (pts, _) ← Region.parsePts m ts
      let s := Region.mkScene delta p [] r pts
      pure (render rule (verdict rule s.P s.R s.pts s.d2))
    | _ => none
  | _ => none

end Canvas.C02
