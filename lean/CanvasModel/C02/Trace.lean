import CanvasModel.C02
/-!
C02 L2 model of what the sweep and the contour tracer leave behind, judged on the **final sweep
state of real `Settle` runs** (hook `VerifSettleTrace`: a private SweepPoint pool remembers every
point, the state is read after `bentleyOttmann` returned).

For every surviving segment the hook reports its flags, `windings`, `selfWindings`, `overlapped`,
`traced`, `resultWindings` and its `prev` pointer. Following `prev` gives the *column* the code
itself used for that segment (the chain of segments below it). `chainCheck` decides, for one such
chain (top first):

* `w-chain`        `windings` is the crossing sum of the chain below (the invariant `GoodS` of the
                   column theory; `computeSweepFields`/`mergeOverlapping` path_intersection.go:1565-1590,1667-1713)
* `absorbed-state` a segment absorbed by `mergeOverlapping` is zeroed and never traced
* `kept-traced`    a segment is traced iff the Settle row of `InResult` keeps it (1624-1627, tracer 2191-2285)
* `nesting-parity` `resultWindings` of a traced closed segment is odd iff the input fills the region
                   above it; by `tracer_direction` this says the edge leaves the tracer directed with
                   the filled region on its left (hole rule `windings%2 != 0` → `Reverse`, 2277-2284);
                   class `nesting-parity-vertical` when the segment is vertical (its windings come
                   from `square.Node`/the last left-endpoint of the square, not from the status)
* `direction`      where the harness could identify the edge in the returned path unambiguously, its
                   direction there is `resSW`
* `nesting-step`/`nesting-bottom`  `resultWindings` changes by ±1 from the nearest traced closed
                   non-vertical segment below and is 1 if there is none
Core Lean only.
-/
namespace Canvas.C02
open Canvas.C01 Canvas.Wn

structure TEnt where
  seg : Seg
  f : Fields
  overlapped : Bool
  traced : Bool
  rw : Int
  dir : Int      -- direction in the returned path: 1 = left→right endpoint, -1 = reverse, 0 = not observed
deriving Repr

instance : Inhabited TEnt := ⟨⟨⟨false, false, false, false⟩, ⟨0, 0, 0, 0⟩, false, false, 0, 0⟩⟩

/-- crossing sum of a chain of subject segments: the self windings of its non-vertical entries -/
def colSum : List (Seg × Fields) → Int
  | [] => 0
  | (s, f) :: rest => (if s.vertical then 0 else f.sw) + colSum rest

def tpairs (l : List TEnt) : List (Seg × Fields) := l.map fun e => (e.seg, e.f)

/-- `resultWindings` of the nearest traced, closed, non-vertical entry of a chain
(the walk of path_intersection.go skips `prev.vertical || prev.open || !prev.traced`, 149c65a) -/
def nearestRW : List TEnt → Option Int
  | [] => none
  | e :: rest => if e.traced && !e.seg.vertical && !e.seg.open_ then some e.rw else nearestRW rest

/-! the tracer's bookkeeping for one contour of nesting depth `d` (`windings` in the Go code):
a segment traversed left-to-right gets `resultWindings = d+1`, one traversed right-to-left `d`;
when the contour is finished it is reversed iff `d` is odd -/
def tracerRW (d : Int) (right : Bool) : Int := d + (if right then 1 else 0)
def finalRight (d : Int) (right : Bool) : Bool := right != (d % 2 != 0)

/-- direction of a traced segment in the returned path, read off its `resultWindings` -/
def dirOfRW (rw : Int) : Int := if rw % 2 != 0 then 1 else -1


/-! ### the guarded nesting walk (fix d8460b7)

`for i := 0; prev != nil && skip(prev); i++ { prev = prev.prev; if i%2 == 1 { slow = slow.prev };
if prev == slow { prev = nil } }` on an ACYCLIC chain, positions as list indices (distinct nodes ⇔
distinct indices): `fast` and `slow` are the positions of the two pointers, `none` is nil. -/
def walkGuarded (skip : TEnt → Bool) (chain : Array TEnt) : Nat → Nat → Nat → Nat → Option Nat
  | 0, _, _, _ => none
  | fuel + 1, i, fast, slow =>
    if h : fast < chain.size then
      if skip chain[fast] then
        let fast' := fast + 1
        let slow' := if i % 2 = 1 then slow + 1 else slow
        if fast' = slow' then none else walkGuarded skip chain fuel (i + 1) fast' slow'
      else some fast
    else none

/-- the walk without the guard: the first position that is not skipped -/
def walkPlain (skip : TEnt → Bool) (chain : Array TEnt) : Nat → Nat → Option Nat
  | 0, _ => none
  | fuel + 1, fast =>
    if h : fast < chain.size then
      if skip chain[fast] then walkPlain skip chain fuel (fast + 1) else some fast
    else none

def entryCheck (r : Rule) (e : TEnt) (below : List TEnt) : Option String :=
  if e.seg.clipping then some "clipping"
  else if e.overlapped then
    (if e.traced || e.f.w != 0 || e.f.sw != 0 then some "absorbed-state" else none)
  else if e.f.w != colSum (tpairs below) then some "w-chain"
  else if e.traced != keep r e.seg e.f then some "kept-traced"
  else if !e.traced || e.seg.open_ then none
  else if (e.rw % 2 != 0) != r.fills (e.f.w + e.f.sw) then
    some (if e.seg.vertical then "nesting-parity-vertical" else "nesting-parity")
  else if e.dir != 0 && e.dir != resSW r e.f then
    some (if e.seg.vertical then "direction-vertical" else "direction")
  else if e.seg.vertical then none
  else match nearestRW below with
    | none => if e.rw != 1 then some "nesting-bottom" else none
    | some k => if e.rw - k != 1 && e.rw - k != -1 then some "nesting-step" else none

/-- first failure along a chain (top first): class and position counted from the top -/
def chainCheck (r : Rule) : List TEnt → Option (String × Nat)
  | [] => none
  | e :: below =>
    match entryCheck r e below with
    | some c => some (c, 0)
    | none => (chainCheck r below).map fun (c, i) => (c, i + 1)

/-! ## protocol `STRACE rule n {vert incr open overl traced w sw prev rw dir x0 y0 x1 y1}*n [IN …]`
the coordinates (hex floats) and everything after the rows (the flattened input) only make the
case a self-contained replay; the judgement does not read them -/

structure Row where
  ent : TEnt
  prev : Int

instance : Inhabited Row := ⟨⟨default, -1⟩⟩

def parseRows : List String → Option (List Row)
  | [] => some []
  | a :: b :: c :: d :: e :: w :: sw :: pv :: rw :: dir :: _ :: _ :: _ :: _ :: rest => do
    let w ← w.toInt?
    let sw ← sw.toInt?
    let pv ← pv.toInt?
    let rw ← rw.toInt?
    let dir ← dir.toInt?
    let l ← parseRows rest
    pure (⟨⟨⟨false, b01 a, b01 b, b01 c⟩, ⟨w, 0, sw, 0⟩, b01 d, b01 e, rw, dir⟩, pv⟩ :: l)
  | _ => none

/-- the indices of the chain that starts at `i` (inclusive), following `prev`; `fuel` bounds it -/
def chainIdx (tbl : Array Row) : Nat → Int → List Nat
  | 0, _ => []
  | fuel + 1, i =>
    if i < 0 then [] else
    let k := i.toNat
    if h : k < tbl.size then k :: chainIdx tbl fuel tbl[k].prev else []

def judgeTrace (r : Rule) (rows : List Row) : String := Id.run do
  let n := rows.length
  let tbl := rows.toArray
  -- a prev index outside the table (the hook reports -2 for a removed segment) is a failure
  if let some i := (List.range n).find? (fun i => tbl[i]!.prev < -1 || tbl[i]!.prev ≥ (n : Int)) then
    return s!"FAIL prev-dangling seg={i}"
  -- tops: segments no other segment points to; every chain is a suffix of a chain from a top
  let pointed := rows.foldl (fun (acc : Array Bool) row =>
    if row.prev ≥ 0 && row.prev.toNat < acc.size then acc.set! row.prev.toNat true else acc) (Array.replicate n false)
  let mut kept := 0
  for row in rows do
    if row.ent.traced then kept := kept + 1
  for i in [0:n] do
    if !pointed[i]! then
      let idx := chainIdx tbl (n + 1) i
      if idx.length > n then return s!"FAIL prev-cycle seg={i}"
      match chainCheck r (idx.map fun k => tbl[k]!.ent) with
      | some (c, pos) => return s!"FAIL {c} seg={idx.getD pos 0} top={i}"
      | none => pure ()
  -- a cycle without a top would be missed by the loop above
  if n > 0 && !(pointed.any (· == false)) then return "FAIL prev-cycle seg=0"
  return s!"ok segs={n} traced={kept}"

def handleTrace : List String → Option String
  | r :: n :: rest => do
    let r ← (r.toNat?).bind Rule.ofNat?
    let n ← n.toNat?
    let rows ← parseRows (rest.take (n * 14))
    if rows.length != n then none else
    pure (judgeTrace r rows)
  | _ => none

end Canvas.C02
