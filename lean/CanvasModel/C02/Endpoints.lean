import CanvasModel.C02
/-!
C02 L2 model of operand preparation: `SweepEvents.AddPathEndpoints` (path_intersection.go:299-366)
on one flat subpath — which sweep segments are created, with which flags. The subpath is given by
its vertices `v0 … vn` (MoveTo, LineTo …) and whether it ends with Close (the Close command's end
point is `v0`). Coordinates are exact integers (float64 decoded at a common dyadic exponent), so
`==` and `<` on them are the float comparisons of the Go code.

* zero-length commands are skipped but still consume a segment index,
* `vertical := start.X == end.X`, `increasing := start.X < end.X` (vertical: `start.Y < end.Y`),
* `open := !p.Closed()` for EVERY segment of the subpath — no closing edge is added for an open
  subject subpath (the recorded finding C02-open-subpaths-kept-open starts here).
Core Lean only.
-/
namespace Canvas.C02
open Canvas.C01 Canvas.Wn

structure EP where
  a : IPt          -- start point (path direction)
  b : IPt          -- end point
  seg : Nat        -- segment index
  flags : Seg      -- clipping (false: subject), vertical, increasing, open
deriving Repr, DecidableEq

def mkEP (open_ : Bool) (seg : Nat) (a b : IPt) : EP :=
  { a := a, b := b, seg := seg,
    flags := { clipping := false, vertical := a.x == b.x,
               increasing := if a.x == b.x then decide (a.y < b.y) else decide (a.x < b.x), open_ := open_ } }

/-- the loop over the commands after the MoveTo; `seg` is the running segment index -/
def epChain (open_ : Bool) : Nat → List IPt → List EP
  | seg, a :: b :: rest =>
    (if a = b then [] else [mkEP open_ (seg + 1) a b]) ++ epChain open_ (seg + 1) (b :: rest)
  | _, _ => []

/-- vertices visited by the commands: a closed subpath returns to its first vertex -/
def epVerts (verts : List IPt) (closed : Bool) : List IPt :=
  match verts with
  | [] => []
  | v0 :: _ => if closed then verts ++ [v0] else verts

def addPathEndpoints (seg : Nat) (verts : List IPt) (closed : Bool) : List EP :=
  epChain (!closed) seg (epVerts verts closed)

/-- signed crossing of the vertical line x = c by a segment, in path direction: +1 left-to-right -/
def crossX (ax bx c : Int) : Int :=
  if ax < c ∧ c < bx then 1 else if bx < c ∧ c < ax then -1 else 0

def crossDir (c : Int) (e : EP) : Int := crossX e.a.x e.b.x c

def crossSum (c : Int) : List EP → Int
  | [] => 0
  | e :: rest => crossDir c e + crossSum c rest

/-! ## protocol `EPTS closed seg0 n x y …` → per created segment `vert incr open seg`, then the
returned segment index -/

def handleEpts : List String → Option String
  | cl :: seg0 :: n :: ts => do
    let seg0 ← seg0.toNat?
    let n ← n.toNat?
    let (raw, _) ← Region.parsePts n ts
    let e0 := minExp (Region.rawExps raw)
    let verts := raw.map (Region.toI e0)
    let closed := b01 cl
    let eps := addPathEndpoints seg0 verts closed
    let toks := eps.map fun e =>
      s!"{ind e.flags.vertical} {ind e.flags.increasing} {ind e.flags.open_} {e.seg}"
    let last := seg0 + (epVerts verts closed).length - 1
    pure (String.intercalate " " (toks ++ [toString (if verts.isEmpty then seg0 else last)]))
  | _ => none

end Canvas.C02
