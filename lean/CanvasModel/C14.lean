import CanvasModel.Region
import CanvasModel.C14.Tables
/-!
C14 — rasterization. Core-only models and the exact pixel specification.

* L2 arithmetic: 26.6 fixed-point conversion (`toI26_6`, `fromI26_6`, `fixedPoint26_6` = the value
  handed to the scan converter), image size `int(W·dpmm + 0.5)`, the y flip of
  `ToScanxScanner` (`dy − y·dpmm`). Stated over `Rat` with `floor` explicit; Go's float→int
  conversion truncates toward zero (`truncQ`).
* L2 slice-aliasing model of Go slices (array id, offset, len, cap over a memory of arrays) and of
  `LinearGradient/RadialGradient.SetColorSpace` (`gradient := *g` copies the slice HEADER, the stops
  are copied into a fresh array, the loop writes through the copy).
* L2 replay of opaque draws over a frame buffer (draw order).
* L3 pixel specification `PIX`: decides with the exact winding number (`Canvas.Wn`) for every pixel
  whose centre is more than one pixel away from every edge which draw must own it.
The third-party scan converter (srwiley/scanx) is NOT modelled.
-/
namespace Canvas.C14
open Canvas Canvas.Wn Canvas.Region

/-! ### (a) fixed point -/

/-- Go `int(x)` for a float in range: truncation toward zero -/
def truncQ (q : Rat) : Int := if 0 ≤ q then q.floor else -((-q).floor)

/-- util.go `toI26_6`: `fixed.Int26_6(f * 64.0)` -/
def toI26_6 (x : Rat) : Int := truncQ (x * 64)

/-- util.go `fromI26_6`: `float64(f) / 64.0` -/
def fromI26_6 (i : Int) : Rat := (i : Rat) / 64

/-- path.go `fixedPoint26_6` (one coordinate): `fixed.Int26_6(x*64 + 0.5)` -/
def fixedPoint (x : Rat) : Int := truncQ (x * 64 + 1 / 2)

/-! ### (b) image size and y flip -/

/-- rasterizer.Draw/New: `int(w*dpmm + 0.5)` -/
def imageDim (w dpmm : Rat) : Int := truncQ (w * dpmm + 1 / 2)

/-- ToScanxScanner: canvas x ↦ pixel abscissa -/
def pixelX (dpmm x : Rat) : Rat := x * dpmm

/-- ToScanxScanner: canvas y ↦ pixel ordinate (row axis pointing down), `dy − y·dpmm` with dy the
image height in pixels -/
def pixelY (hpx : Int) (dpmm y : Rat) : Rat := (hpx : Rat) - y * dpmm

/-- the canvas ordinate shown at pixel ordinate r -/
def canvasY (hpx : Int) (dpmm r : Rat) : Rat := ((hpx : Rat) - r) / dpmm

def canvasX (dpmm c : Rat) : Rat := c / dpmm

/-! The same arithmetic ONCE, generic over the scalar: instantiated at `Float` (what the driver runs
against the real code: Float `* + - /` are bit-identical to Go's float64, the final float→int
conversion is done exactly on the decoded dyadic value) and at `Rat` (what the theorems are about;
`C14.gen_*` in CanvasProofs/C14.lean show the `Rat` instances are the definitions above). -/

class Scalar (α : Type) extends Add α, Sub α, Mul α, Div α where
  ofInt : Int → α
  half : α
  c64 : α
  /-- Go `int(x)`: truncation toward zero; `none` for NaN/Inf -/
  trunc? : α → Option Int

namespace G
variable {α : Type} [Scalar α]
/-- util.go toI26_6 -/
def toI26_6 (f : α) : Option Int := Scalar.trunc? (f * Scalar.c64)
/-- util.go fromI26_6 -/
def fromI26_6 (i : Int) : α := Scalar.ofInt i / Scalar.c64
/-- path.go fixedPoint26_6, one coordinate -/
def fixedPoint (x : α) : Option Int := Scalar.trunc? (x * Scalar.c64 + Scalar.half)
/-- rasterizer.go Draw/New: int(w*dpmm + 0.5) -/
def imageDim (w dpmm : α) : Option Int := Scalar.trunc? (w * dpmm + Scalar.half)
/-- path.go ToScanxScanner: p.d[i+1]*dpmm -/
def pixelX (dpmm x : α) : α := x * dpmm
/-- path.go ToScanxScanner: dy - p.d[i+2]*dpmm -/
def pixelY (dy dpmm y : α) : α := dy - y * dpmm
/-- the two 26.6 coordinates ToScanxScanner hands to the scanner for canvas point (x, y) -/
def scanPoint (dy dpmm x y : α) : Option (Int × Int) := do
  let a ← fixedPoint (pixelX dpmm x)
  let b ← fixedPoint (pixelY dy dpmm y)
  pure (a, b)
/-- rasterizer.go RenderPath (since cd59fcc): the abscissa handed to `gradient.At` for pixel column c:
`(float64(x)+0.5)/dpmm` -/
def gradArgX (dpmm : α) (c : Int) : α := (Scalar.ofInt c + Scalar.half) / dpmm
/-- … and the ordinate for pixel row r: `(float64(size.Y)-float64(y)-0.5)/dpmm` -/
def gradArgY (dy dpmm : α) (r : Int) : α := (dy - Scalar.ofInt r - Scalar.half) / dpmm
end G

/-! ### the canvas → scanner pipeline, written once over the matrix operations

`Canvas.RenderViewTo` hands `view.Mul(l.m)` to the renderer, `Rasterizer.RenderPath` transforms the
path by it (`Path.Transform`: `m.Dot` on every coordinate pair), `Path.ToScanxScanner` maps to pixel
space and `fixedPoint26_6` rounds to the 26.6 grid. `mul`/`dot` are instantiated with the L1
translations of `Matrix.Mul`/`Matrix.Dot` (regenerated from util.go on every run): at `Float` in the
driver, over any ordered field in the proofs. -/

def pipelinePt {α : Type} (mul : Mat α → Mat α → Mat α) (dot : Mat α → Pt α → Pt α)
    (px : α → α → α) (py : α → α → α → α) (view m : Mat α) (dy dpmm : α) (p : Pt α) : Pt α :=
  let q := dot (mul view m) p
  ⟨px dpmm q.x, py dy dpmm q.y⟩

/-- Context.CoordSystemView (canvas.go): the four coordinate systems as matrices, built from the
translated `ReflectXAbout` / `ReflectYAbout` (passed in) -/
def coordSystemView {α : Type} (ident : Mat α) (reflXAbout reflYAbout : Mat α → α → Mat α)
    (halfW halfH : α) : Nat → Mat α
  | 1 => reflXAbout ident halfW                           -- CartesianII
  | 2 => reflYAbout (reflXAbout ident halfW) halfH        -- CartesianIII
  | 3 => reflYAbout ident halfH                           -- CartesianIV
  | _ => ident                                            -- CartesianI

/-! ### compositing: srwiley/scanx ImgSpanner.SpanFgColor (draw.Over), one channel

c, ca: the paint's premultiplied channel and alpha as 16-bit values (`color.RGBA.RGBA()` = 8 bit × 257),
ma: the 16-bit coverage, d: the 8-bit destination channel. All arithmetic is uint32 in the code. -/

def m16 : Nat := 65535
def mp16 : Nat := 256 * 65535

def spanBlend (c ca ma d : Nat) : Nat :=
  if ca * ma = m16 * m16 then c * ma / mp16
  else (d * ((m16 - ca * ma / m16) * 257) + c * ma) / mp16

/-- the value before the final division (must stay below 2^32 in the code) -/
def spanBlendNum (c ca ma d : Nat) : Nat := d * ((m16 - ca * ma / m16) * 257) + c * ma

structure Px8 where
  r : Nat
  g : Nat
  b : Nat
  a : Nat
deriving Repr, DecidableEq

/-- one draw (premultiplied 8-bit paint) over a pixel at coverage ma -/
def blendPx (src : Px8) (ma : Nat) (dst : Px8) : Px8 :=
  let ca := src.a * 257
  ⟨spanBlend (src.r * 257) ca ma dst.r, spanBlend (src.g * 257) ca ma dst.g,
   spanBlend (src.b * 257) ca ma dst.b, spanBlend ca ca ma dst.a⟩

/-- replay of fully covering draws, first to last, over a transparent pixel -/
def composite (draws : List Px8) : Px8 := draws.foldl (fun d s => blendPx s m16 d) ⟨0, 0, 0, 0⟩

/-- ideal source-over of premultiplied (colour, alpha) pairs -/
def over (s d : Rat × Rat) : Rat × Rat := (s.1 + d.1 * (1 - s.2), s.2 + d.2 * (1 - s.2))

instance : Scalar Rat where
  ofInt i := (i : Rat)
  half := 1 / 2
  c64 := 64
  trunc? q := some (truncQ q)

def ratOfDyadic (v : Int × Int) : Rat :=
  if v.2 ≥ 0 then ((v.1 * (2 : Int) ^ v.2.toNat : Int) : Rat)
  else (v.1 : Rat) / (((2 : Int) ^ (-v.2).toNat : Int) : Rat)

def ratOfFloat? (f : Float) : Option Rat := (decodeFloat f.toBits.toNat).map ratOfDyadic

instance : Scalar Float where
  ofInt i := Float.ofInt i
  half := 0.5
  c64 := 64.0
  trunc? f := (ratOfFloat? f).map truncQ

def toI26_6F (f : Float) : Option Int := G.toI26_6 f
def fromI26_6F (i : Int) : Float := G.fromI26_6 i
def fixedPointF (x : Float) : Option Int := G.fixedPoint x
def imageDimF (w dpmm : Float) : Option Int := G.imageDim w dpmm
def scanPointF (dy dpmm x y : Float) : Option (Int × Int) := G.scanPoint dy dpmm x y

/-! ### (c) Go slices over a memory of arrays -/

structure Slice where
  arr : Nat
  off : Nat
  len : Nat
  cap : Nat
deriving Repr, DecidableEq

abbrev Mem (α : Type) := List (List α)

def Slice.wf {α} (m : Mem α) (s : Slice) : Prop :=
  s.len ≤ s.cap ∧ s.arr < m.length ∧ s.off + s.cap ≤ (m.getD s.arr []).length

/-- what a holder of the slice header sees -/
def view {α} (m : Mem α) (s : Slice) : List α := ((m.getD s.arr []).drop s.off).take s.len

/-- `s[i] = v` (in range) -/
def store {α} (m : Mem α) (s : Slice) (i : Nat) (v : α) : Mem α :=
  m.set s.arr ((m.getD s.arr []).set (s.off + i) v)

/-- `append(s, v)`: in place when len < cap, else a fresh array -/
def append {α} (m : Mem α) (s : Slice) (v : α) : Mem α × Slice :=
  if s.len < s.cap then (store m s s.len v, { s with len := s.len + 1 })
  else (m ++ [view m s ++ [v]], { arr := m.length, off := 0, len := s.len + 1, cap := s.len + 1 })

/-- `for i := range s { s[i] = f(s[i]) }` over indices k, k+1, … -/
def mapInPlaceFrom {α} (f : α → α) (s : Slice) : Nat → Nat → Mem α → Mem α
  | 0, _, m => m
  | n + 1, i, m =>
    match (view m s)[i]? with
    | some v => mapInPlaceFrom f s n (i + 1) (store m s i (f v))
    | none => m

def mapInPlace {α} (f : α → α) (m : Mem α) (s : Slice) : Mem α := mapInPlaceFrom f s s.len 0 m

/-- `append(Stops{}, s...)`: a fresh array holding what s shows, and a header over all of it -/
def copySlice {α} (m : Mem α) (s : Slice) : Mem α × Slice :=
  (m ++ [view m s], { arr := m.length, off := 0, len := s.len, cap := s.len })

/-- colors.go Linear/RadialGradient.SetColorSpace (since 1d02f0f): `gradient := *g` (header copy),
`gradient.Stops = append(Stops{}, g.Stops...)` (fresh array), then the in-place loop over the copy.
Returns the memory and the slice header of the returned gradient; `linear` = the early return -/
def setColorSpace {α} (linear : Bool) (f : α → α) (m : Mem α) (stops : Slice) : Mem α × Slice :=
  if linear then (m, stops)
  else
    let c := copySlice m stops
    (mapInPlace f c.1 c.2, c.2)

/-- a gradient object: geometry (start/end or centres/radii) and a stops slice -/
structure Grad (γ : Type) where
  geom : γ
  stops : Slice

/-- the VALUE of a gradient in a memory: what `At` and every renderer can observe of it -/
def Grad.value {γ α} (m : Mem α) (g : Grad γ) : γ × List α := (g.geom, view m g.stops)

/-- `g.SetColorSpace(cs)` on the gradient object: the struct copy keeps the geometry -/
def gradSetColorSpace {γ α} (linear : Bool) (f : α → α) (m : Mem α) (g : Grad γ) : Mem α × Grad γ :=
  let r := setColorSpace linear f m g.stops
  (r.1, { g with stops := r.2 })

/-- SetColorSpace as a PURE function of (gradient value, colour space): no call history enters -/
def scsValue {γ α} (linear : Bool) (f : α → α) (v : γ × List α) : γ × List α :=
  (v.1, if linear then v.2 else v.2.map f)

/-! ### (d) replay of opaque draws -/

structure Draw (Px Col : Type) where
  covers : Px → Bool
  paint : Col

def paintOne {Px Col} (d : Draw Px Col) (img : Px → Col) : Px → Col :=
  fun p => if d.covers p then d.paint else img p

def replay {Px Col} : List (Draw Px Col) → (Px → Col) → (Px → Col)
  | [], img => img
  | d :: ds, img => replay ds (paintOne d img)

/-- the paint of the last draw covering p, if any -/
def lastCover {Px Col} (ds : List (Draw Px Col)) (p : Px) : Option Col :=
  ds.foldl (fun acc d => if d.covers p then some d.paint else acc) none

/-! ### gradient lookup: the canvas point at which pixel (c, r) evaluates its gradient -/

def gradX (dpmm : Rat) (c : Int) : Rat := ((c : Rat) + 1 / 2) / dpmm
def gradY (hpx : Int) (dpmm : Rat) (r : Int) : Rat := ((hpx : Rat) - (r : Rat) - 1 / 2) / dpmm

/-! ### L3 pixel specification -/

abbrev Dy := Int × Int   -- dyadic m·2^e

def dyMul (a b : Dy) : Dy := (a.1 * b.1, a.2 + b.2)
def dyOfInt (n : Int) : Dy := (n, 0)

structure PDraw where
  rule : Rule
  polys : List (List (Dy × Dy))   -- pixel-space vertices, exact

/-- exact pixel-space image of a canvas point: (x·dpmm, hpx − y·dpmm); the subtraction is done after
scaling (both terms brought to the smaller exponent) -/
def dySub (a b : Dy) : Dy :=
  let e := min a.2 b.2
  (a.1 * (2 : Int) ^ (a.2 - e).toNat - b.1 * (2 : Int) ^ (b.2 - e).toNat, e)

def toPixel (dpmm : Dy) (hpx : Int) (p : RawPt) : Dy × Dy :=
  (dyMul p.1 dpmm, dySub (dyOfInt hpx) (dyMul p.2 dpmm))

structure IDraw where
  rule : Rule
  polys : List (List IPt)

/-- owner (1-based index of the last draw that fills p) under the given rules; 0 = untouched -/
def ownerAux (p : IPt) : List IDraw → Nat → Nat → Nat
  | [], _, acc => acc
  | d :: ds, k, acc => ownerAux p ds (k + 1) (if filled d.rule d.polys p then k else acc)

def owner (ds : List IDraw) (p : IPt) : Nat := ownerAux p ds 1 0

/-- `farFromSeg` behind a bounding-box prefilter: a point outside the segment's bounding box grown by
d is farther than d from the segment, so only nearby segments need the exact (quadratic) test -/
def farSegFast (p a b : IPt) (d d2 : Int) : Bool :=
  if p.x + d < min a.x b.x || max a.x b.x + d < p.x || p.y + d < min a.y b.y || max a.y b.y + d < p.y then true
  else farFromSeg p a b d2

def farChainFast (p : IPt) (d d2 : Int) : List IPt → Bool
  | a :: b :: rest => farSegFast p a b d d2 && farChainFast p d d2 (b :: rest)
  | _ => true

def farPolyFast (p : IPt) (d d2 : Int) (poly : List IPt) : Bool :=
  match poly with
  | [] => true
  | [a] => farSegFast p a a d d2
  | a :: _ => farChainFast p d d2 (poly ++ [a])

/-! contours with their bounding boxes (computed once per image): a pixel outside the box grown by d
is far from the whole contour; a pixel above, below or to the right of the box has winding number 0
(`C14.wn1_outside_box`), so most contours cost four comparisons per pixel -/

structure BPoly where
  pts : List IPt
  xmin : Int
  xmax : Int
  ymin : Int
  ymax : Int

def boxStep (b : BPoly) (v : IPt) : BPoly :=
  { b with xmin := min b.xmin v.x, xmax := max b.xmax v.x, ymin := min b.ymin v.y, ymax := max b.ymax v.y }

def mkBPoly (pts : List IPt) : BPoly :=
  match pts with
  | [] => ⟨[], 0, 0, 0, 0⟩
  | a :: rest => rest.foldl boxStep ⟨a :: rest, a.x, a.x, a.y, a.y⟩

def BPoly.far (b : BPoly) (p : IPt) (d : Int) : Bool :=
  if p.x + d < b.xmin || b.xmax + d < p.x || p.y + d < b.ymin || b.ymax + d < p.y then true
  else farPolyFast p d (d * d) b.pts

def BPoly.wn1 (b : BPoly) (p : IPt) : Int :=
  if p.y < b.ymin || b.ymax < p.y || b.xmax < p.x then 0 else Wn.wn1 p b.pts

structure BDraw where
  rule : Rule
  polys : List BPoly

def mkBDraw (d : IDraw) : BDraw := ⟨d.rule, d.polys.map mkBPoly⟩

def BDraw.filled (d : BDraw) (p : IPt) : Bool := d.rule.fills ((d.polys.map (·.wn1 p)).foldl (· + ·) 0)

def ownerFastAux (p : IPt) : List BDraw → Nat → Nat → Nat
  | [], _, acc => acc
  | d :: ds, k, acc => ownerFastAux p ds (k + 1) (if d.filled p then k else acc)

/-- `owner` with the bounding-box shortcuts -/
def ownerFast (ds : List BDraw) (p : IPt) : Nat := ownerFastAux p ds 1 0

def farAll (ds : List BDraw) (p : IPt) (d : Int) : Bool :=
  ds.all (fun dr => dr.polys.all (·.far p d))

/-- every draw with its own band width (same scale as the coordinates) -/
def farAllB (ds : List (BDraw × Int)) (p : IPt) : Bool :=
  ds.all (fun x => x.1.polys.all (·.far p x.2))

def charOwner (c : Char) : Option Nat :=
  if '0' ≤ c ∧ c ≤ '9' then some (c.toNat - '0'.toNat) else none

structure Verdict where
  checked : Nat := 0
  skipped : Nat := 0
  bad : Option (Nat × Nat × Nat × Char) := none   -- col,row,expected,got: first failing pixel off the top row / left column
  bad0 : Option (Nat × Nat × Nat × Char) := none  -- first failing pixel in row 0 or column 0 (top / left image border)

/-- judge all pixels: rows of characters ('0' untouched, 'k' exactly the paint of draw k, other =
some other colour). Scale: all coordinates are integers at exponent e0, one pixel = 2^(-e0). -/
def judge (ids : List IDraw) (bands4 : List Nat) (e0 : Int) (rows : List String) : Verdict := Id.run do
  let ds := ids.map mkBDraw
  let one : Int := (2 : Int) ^ (-e0).toNat
  let half : Int := one / 2
  -- band of each draw in quarter pixels (e0 ≤ −2, so one is divisible by 4): 4 = 1 px for flat
  -- polygons, 5 = 1.25 px for curved fills (pixel half diagonal 0.71 + the library's flattening bound
  -- 4·PixelTolerance = 0.4 px + 26.6 rounding and sampling < 0.03 px)
  let dsb := ds.zip (bands4.map fun (b : Nat) => one / 4 * Int.ofNat b)
  let mut v : Verdict := {}
  let mut j : Nat := 0
  for row in rows do
    let mut i : Nat := 0
    for ch in row.toList do
      let p : IPt := ⟨(i : Int) * one + half, (j : Int) * one + half⟩
      if farAllB dsb p then
        let ex := ownerFast ds p
        if charOwner ch == some ex then
          v := { v with checked := v.checked + 1 }
        else
          if i == 0 || j == 0 then
            if v.bad0.isNone then v := { v with bad0 := some (i, j, ex, ch) }
          else
            if v.bad.isNone then v := { v with bad := some (i, j, ex, ch) }
      else
        v := { v with skipped := v.skipped + 1 }
      i := i + 1
    j := j + 1
  return v

/-- a draw: `<rule>` (flat polygon, band 1 px) or `c<rule>` (sampled curve, band 1.25 px), then the poly block -/
def parseDraws : Nat → List String → Option (List (Rule × Nat × List (List RawPt)) × List String)
  | 0, ts => some ([], ts)
  | n + 1, r :: ts => do
    let (rs, band4) := if r.startsWith "c" then (r.drop 1, 5) else (r, 4)
    let rule ← (rs.toNat?).bind Rule.ofNat?
    let (p, ts) ← parsePoly ts
    let (rest, ts) ← parseDraws n ts
    pure ((rule, band4, p) :: rest, ts)
  | _, _ => none

def classOf (ex : Nat) (got : Char) : String :=
  match charOwner got with
  | some 0 => "inside-unpainted"
  | some g => if ex == 0 then "outside-painted" else if g < ex then "later-draw-not-on-top" else "earlier-draw-on-top"
  | none => if ex == 0 then "outside-touched" else "inside-not-full-paint"

/--
  PIX <dpmm> <wpx> <hpx> <n> { <rule> <poly (canvas mm)> }×n ROWS row…      rows top to bottom
-/
def handlePix : List String → Option String
  | dpmm :: _wpx :: hpx :: n :: ts => do
    let dpmm ← parseRaw dpmm
    let hpx ← hpx.toInt?
    let n ← n.toNat?
    let (draws, ts) ← parseDraws n ts
    let rows ← (match ts with | "ROWS" :: r => some r | _ => none)
    let pdraws : List PDraw := draws.map fun (r, _, ps) => { rule := r, polys := ps.map (·.map (toPixel dpmm hpx)) }
    let bands4 : List Nat := draws.map fun (_, b, _) => b
    let exps : List (Int × Int) := pdraws.foldr (fun d acc => d.polys.foldr (fun c acc => c.foldr (fun p acc => p.1 :: p.2 :: acc) acc) acc) [(1, -2)]
    let e0 := minExp exps
    let conv (d : PDraw) (rule : Rule → Rule) : IDraw :=
      { rule := rule d.rule, polys := d.polys.map (·.map fun p => ⟨scaleTo e0 p.1, scaleTo e0 p.2⟩) }
    let ids := pdraws.map (conv · id)
    let v := judge ids bands4 e0 rows
    let show4 (b : Nat × Nat × Nat × Char) : String := s!"px={b.1},{b.2.1} expected={b.2.2.1} got={b.2.2.2}"
    let border (w : Verdict) : String := match w.bad0 with
      | some b => s!" (also top/left border: {show4 b})"
      | none => ""
    match v.bad, v.bad0 with
    | none, none => pure s!"ok checked={v.checked} skipped={v.skipped}"
    | none, some b =>
      -- only pixels of row 0 / column 0 disagree: the scan converter's handling of negative coordinates
      pure s!"FAIL top-left-border:{classOf b.2.2.1 b.2.2.2} {show4 b}"
    | some b, _ =>
      let anyEO := pdraws.any (·.rule == Rule.evenOdd)
      let v2 := if anyEO then judge (pdraws.map (conv · fun _ => Rule.nonZero)) bands4 e0 rows else v
      -- regression class (the rasterizer honours EvenOdd since 5293026): the image agrees with the all-NonZero reading
      if anyEO && v2.bad.isNone then
        pure s!"FAIL fillrule-ignored:EvenOdd {show4 b} (all pixels off the top row and left column agree with NonZero){border v2}"
      else
        let nz := match v2.bad with
          | some b2 => if anyEO then s!" nonzero-reading: {show4 b2}" else ""
          | none => ""
        pure s!"FAIL coverage:{classOf b.2.2.1 b.2.2.2} {show4 b}{nz}{border v}"
  | _ => none

/-! ### protocol -/

def optInt (o : Option Int) : String := match o with | some i => toString i | none => "range"

def parseNatList (ts : List String) : Option (List Nat) := ts.mapM (·.toNat?)

/--
  FIX toI x | FIX fromI i | FIX fixed x | FIX toP x y | FIX fromP i j
  SIZE w h dpmm                     → wpx hpx
  SCAN hpx dpmm x y                 → fixed X, fixed Y
  SCSH <linear 0/1> <k> geom×k <n> (offset colour)×n MAP f(colour)×n → geometry | stops of the RESULT of one call in a history
  CSP srgb|gamma22 to|from v        → the 8-bit conversion of an opaque channel (complete tables)
  COMP n (r g b a)×n                → the pixel after n fully covering semi-transparent draws
  GRAD hpx dpmm c r                 → the (x, y) handed to gradient.At for pixel column c, row r
  SCS <linear 0/1> <n> <off> <len> <cap> stops… MAP f(stops)…  → caller's stops afterwards | returned stops
  PIX …
-/
def handle : List String → Option String
  | ["FIX", "toI", x] => do
    let x ← floatOfHex? x
    pure (optInt (toI26_6F x))
  | ["FIX", "fromI", i] => do
    let i ← i.toInt?
    pure (hexOfFloat (fromI26_6F i))
  | ["FIX", "fixed", x] => do
    let x ← floatOfHex? x
    pure (optInt (fixedPointF x))
  | ["FIX", "toP", x, y] => do
    let x ← floatOfHex? x
    let y ← floatOfHex? y
    pure s!"{optInt (toI26_6F x)} {optInt (toI26_6F y)}"
  | ["FIX", "fromP", i, j] => do
    let i ← i.toInt?
    let j ← j.toInt?
    pure s!"{hexOfFloat (fromI26_6F i)} {hexOfFloat (fromI26_6F j)}"
  | ["SIZE", w, h, dpmm] => do
    let w ← floatOfHex? w
    let h ← floatOfHex? h
    let d ← floatOfHex? dpmm
    pure s!"{optInt (imageDimF w d)} {optInt (imageDimF h d)}"
  | ["SCAN", hpx, dpmm, x, y] => do
    let hpx ← hpx.toInt?
    let d ← floatOfHex? dpmm
    let x ← floatOfHex? x
    let y ← floatOfHex? y
    match scanPointF (Float.ofInt hpx) d x y with
    | some (a, b) => pure s!"{a} {b}"
    | none => pure "range"
  | ["GRAD", hpx, dpmm, c, r] => do
    let hpx ← hpx.toInt?
    let d ← floatOfHex? dpmm
    let c ← c.toInt?
    let r ← r.toInt?
    pure s!"{hexOfFloat (G.gradArgX d c)} {hexOfFloat (G.gradArgY (Float.ofInt hpx) d r)}"
  | "SCS" :: lin :: n :: off :: len :: cap :: ts => do
    let n ← n.toNat?
    let off ← off.toNat?
    let len ← len.toNat?
    let cap ← cap.toNat?
    let arr ← parseNatList (ts.take n)
    let rest := ts.drop n
    let mp ← (match rest with | "MAP" :: r => parseNatList r | _ => none)
    -- the colour map is given pointwise on the stops of the view (position-wise: stop i ↦ mp[i]);
    -- encode it as a function on (index-tagged) values: values are made distinct by the harness
    let s : Slice := ⟨0, off, len, cap⟩
    let m : Mem Nat := [arr]
    let vw := view m s
    let f : Nat → Nat := fun v => match (vw.zip mp).find? (·.1 == v) with | some (_, w) => w | none => v
    let (m', s') := setColorSpace (lin == "1") f m s
    let fmt (l : List Nat) := " ".intercalate (l.map toString)
    pure (s!"{fmt (m'.getD 0 [])} | {fmt (view m' s')}").trim
  | "SCSH" :: lin :: k :: ts => do
    -- one SetColorSpace call out of a call history: the receiver's current value (geometry tokens and
    -- stops as offset/colour pairs) and the colour conversion pointwise; answered by the memory model
    let k ← k.toNat?
    let geom := ts.take k
    let ts := ts.drop k
    let (n, ts) ← (match ts with | n :: r => n.toNat?.map (·, r) | _ => none)
    let rec pairs : Nat → List String → Option (List (String × Nat) × List String)
      | 0, r => some ([], r)
      | i + 1, o :: c :: r => do
        let c ← c.toNat?
        let (l, r') ← pairs i r
        pure ((o, c) :: l, r')
      | _, _ => none
    let (stops, rest) ← pairs n ts
    let mp ← (match rest with | "MAP" :: r => parseNatList r | _ => none)
    let f : String × Nat → String × Nat := fun v =>
      match (stops.zip mp).find? (·.1.2 == v.2) with | some (_, w) => (v.1, w) | none => v
    -- the receiver's stops sit inside a larger array, as they may in Go
    let m : Mem (String × Nat) := [("pad", 0) :: stops ++ [("pad", 1)]]
    let g : Grad (List String) := ⟨geom, ⟨0, 1, n, n + 1⟩⟩
    let (m', g') := gradSetColorSpace (lin == "1") f m g
    let v := g'.value m'
    let fmt (l : List (String × Nat)) := " ".intercalate (l.map fun p => s!"{p.1} {p.2}")
    pure (s!"{" ".intercalate v.1} | {fmt v.2}").trim
  | ["CSP", space, dir, v] => do
    let v ← v.toNat?
    let t ← (match space, dir with
      | "srgb", "to" => some Tables.srgbToLinear | "srgb", "from" => some Tables.srgbFromLinear
      | "gamma22", "to" => some Tables.gamma22ToLinear | "gamma22", "from" => some Tables.gamma22FromLinear
      | _, _ => none)
    let r ← t[v]?
    pure (toString r)
  | "COMP" :: n :: ts => do
    -- n fully covering draws (premultiplied r g b a), first to last → the pixel
    let n ← n.toNat?
    let vs ← parseNatList ts
    if vs.length != 4 * n then none else
    let rec quads : List Nat → List Px8
      | r :: g :: b :: a :: rest => ⟨r, g, b, a⟩ :: quads rest
      | _ => []
    let px := composite (quads vs)
    pure s!"{px.r} {px.g} {px.b} {px.a}"
  | "PIX" :: ts => handlePix ts
  | "REGION" :: ts => Canvas.Region.handle ts
  | _ => none

end Canvas.C14
