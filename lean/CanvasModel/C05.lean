import CanvasModel.Prelude
/-!
# C05 — dashing: hand-written (L2) model of the dash bookkeeping of /repo/path.go and the (L3)
pattern semantics it is proved against.

Everything is generic over the scalar `α` (only `+ - <` `≤` and `0` are used):
* `α := Float` in the driver `Drv/C05.lean` (bit-exact correspondence with the real functions),
* `α := K` (any linearly ordered field) in `CanvasProofs/C05.lean`.

`eps` is `canvas.Epsilon` (1e-10 in the driver, 0 in the theorems: exact arithmetic).
Go slices are lists; the model functions return new lists (the real `dashCanonical` overwrites the
caller's slice before the repair a6207f9; `canonArg` models the contents of the argument array
after the call). Loops whose termination depends on the scalar being Archimedean take a `fuel` argument
and return `none` when it runs out; an index-out-of-range panic is `none` as well.
-/
namespace Canvas.C05

section
variable {α : Type} [Add α] [Sub α] [Neg α] [LT α] [LE α] [DecidableLT α] [DecidableLE α] [OfNat α 0]

/-- util.go:23 `Equal` -/
def equal (eps a b : α) : Bool :=
  if a < b then decide (b - a ≤ eps) else decide (a - b ≤ eps)

/-! ## Pattern semantics (L3 specification)

The pattern `d` (even length; `doubled` below makes it so) repeats for ever: piece `j : ℕ` has
length `cyc d j = d[j mod n]` and occupies the phases `[pre d j, pre d (j+1))`; even pieces are
dashes. A point at arc length `x` of a subpath has phase `offset + x`; negative phases are reached by
adding whole periods. -/

def cyc (d : List α) (j : Nat) : α := d.getD (j % d.length) 0

/-- start phase of piece `j` (left-to-right sum `((0 + d₀) + d₁) + …`, the order of the Go loops) -/
def pre (d : List α) : Nat → α
  | 0 => 0
  | j + 1 => pre d j + cyc d j

def period (d : List α) : α := pre d d.length

def InPiece (d : List α) (j : Nat) (φ : α) : Prop := pre d j ≤ φ ∧ φ < pre d (j + 1)

/-- the pattern after the odd-length doubling of path.go:1765 -/
def doubled (d : List α) : List α := if d.length % 2 = 1 then d ++ d else d

/-- phase `φ` is inside a dash of the even-length pattern `d` -/
def DrawnE (d : List α) (φ : α) : Prop :=
  ∃ m j : Nat, j % 2 = 0 ∧ InPiece d j (φ + pre d (m * d.length))

/-- `Drawn offset d x`: arc-length position `x` is drawn by `Dash(offset, d...)` -/
def Drawn (offset : α) (d : List α) (x : α) : Prop := DrawnE (doubled d) (offset + x)

/-- `dTotal := 0.0; for _, dd := range d { dTotal += dd }` -/
def total (d : List α) : α := period d

/-! ## dashCanonical (path.go:1682) -/

/-- path.go:1688 "remove zeros except first and last". `removeZeros prev rest`: `prev` is `d[i-1]`
(already visited), `rest` is `d[i:]`. A zero at `i` (with `i < len(d)-1`) merges `d[i+1]` into
`d[i-1]` and both `d[i]`, `d[i+1]` are cut out. -/
def removeZeros (eps : α) : α → List α → List α
  | prev, c :: n :: r =>
    if equal eps c 0 then removeZeros eps (prev + n) r else prev :: removeZeros eps c (n :: r)
  | prev, rest => prev :: rest

/-- add `x` to the last element -/
def addLast : List α → α → List α
  | [], _ => []
  | [a], x => [a + x]
  | a :: r, x => a :: addLast r x

/-- outcome of one of the two end-zero steps: either an early `return` or the updated state -/
inductive Step (α : Type) where
  | ret (offset : α) (d : List α)
  | go (offset : α) (d : List α)

/-- path.go:1697 "remove first zero, collapse with second and last" -/
def firstZero (eps : α) (offset : α) : List α → Step α
  | [] => .go offset []
  | a :: r =>
    if equal eps a 0 then
      match r with
      | b :: c :: r' => .go (offset - b) (addLast (c :: r') b)
      | _ => .ret 0 [0]
    else .go offset (a :: r)

/-- all but the last two elements, with `x` added to the first -/
def dropLast2AddHead : List α → α → List α
  | a :: r, x => (a + x) :: (r.take (r.length - 2))
  | [], _ => []

/-- path.go:1707 "remove last zero, collapse with first and second to last". `none` = the index
panic `d[len(d)-1]` on an empty slice (unreachable from `dashCanonical`). -/
def lastZero (eps : α) (offset : α) (d : List α) : Option (Step α) :=
  match d.getLast? with
  | none => none
  | some z =>
    if equal eps z 0 then
      if d.length < 3 then some (.ret 0 [])
      else match d[d.length - 2]? with
        | some y => some (.go (offset + y) (dropLast2AddHead d y))
        | none => none
    else some (.go offset d)

/-- path.go:1717 -/
def hasNonPositive (eps : α) (d : List α) : Bool := d.any fun x => x < 0 || equal eps x 0

def allEqual (eps : α) : List α → List α → Bool
  | a :: r, b :: s => equal eps a b && allEqual eps r s
  | _, _ => true

/-- path.go:1724 "remove repeated patterns" (`fuel` ≥ log₂ of the length suffices; the driver and
the theorems use the length itself). The Go loop does not terminate on an empty slice; that state
is unreachable and the model stops instead. -/
def reduceRepeat (eps : α) : Nat → List α → List α
  | 0, d => d
  | fuel + 1, d =>
    if d.length % 2 = 0 ∧ 0 < d.length then
      let mid := d.length / 2
      if allEqual eps (d.take mid) (d.drop mid) then reduceRepeat eps fuel (d.take mid) else d
    else d

/-- path.go:1682 `dashCanonical`; `none` only for the unreachable index panic. -/
def dashCanonical (eps : α) (offset : α) (d : List α) : Option (α × List α) :=
  match d with
  | [] => some (0, [])
  | a :: r =>
    match firstZero eps offset (removeZeros eps a r) with
    | .ret o d' => some (o, d')
    | .go o1 d1 =>
      match lastZero eps o1 d1 with
      | none => none
      | some (.ret o d') => some (o, d')
      | some (.go o2 d2) =>
        if hasNonPositive eps d2 then some (0, [0]) else some (o2, reduceRepeat eps d2.length d2)

/-! ### The caller's array after the call (purity)

`canonArg eps d` = contents of the argument array after `dashCanonical(offset, d)`. Since the repair
a6207f9 the function works on a copy (`d = append([]float64{}, d...)` right after the empty check),
so the caller's array is left as it was. The driver prints `canonArg` and the harness prints the real
argument slice after the call: a regression to the in-place rewriting shows up as a correspondence
mismatch and as an `impure:dashCanonical-mutates-arg` oracle failure. -/
def canonArg (_eps : α) (d : List α) : List α := d

/-! ## dashStart (path.go) -/

/-- the `for d[i0] <= offset` loop; returns `(i0, offset)` at exit. -/
def dashStartLoop (d : List α) : Nat → Nat → α → Option (Nat × α)
  | 0, _, _ => none
  | fuel + 1, i0, off =>
    match d[i0]? with
    | none => none
    | some di =>
      if di ≤ off then dashStartLoop d fuel (if i0 + 1 = d.length then 0 else i0 + 1) (off - di)
      else some (i0, off)

/-- the offset the loop starts from (path.go, repaired by e14817f): a negative offset is moved to
the same position within the first period with `math.Mod` (`fmod`; exact; result has the sign of its
first argument), plus one period when the remainder is negative. -/
def reducedOffset (fmod : α → α → α) (offset : α) (d : List α) : α :=
  if offset < 0 then
    (if fmod offset (total d) < 0 then fmod offset (total d) + total d else fmod offset (total d))
  else offset

/-- `dashStart`; `fmod` is `math.Mod` (exact float remainder in the driver, abstract in the theorems). -/
def dashStart (fmod : α → α → α) (fuel : Nat) (offset : α) (d : List α) : Option (Nat × α) :=
  match dashStartLoop d fuel 0 (reducedOffset fmod offset d) with
  | none => none
  | some (i0, off) => some (i0, -off)

/-! ## The per-subpath part of Dash (path.go:1774-1807) -/

/-- path.go:1779 the loop building `t`; returns `(t, i)` at exit. -/
def positionsLoop (eps : α) (d : List α) (length : α) : Nat → Nat → α → List α → Option (List α × Nat)
  | 0, _, _, _ => none
  | fuel + 1, i, pos, acc =>
    match d[i]? with
    | none => none
    | some di =>
      if pos + di + eps < length then
        let pos' := pos + di
        positionsLoop eps d length fuel (if i + 1 = d.length then 0 else i + 1) pos'
          (if 0 < pos' then acc ++ [pos'] else acc)
      else some (acc, i)

/-- path.go:1790-1794 -/
def endsInDash (i : Nat) : Bool := i % 2 = 0
def j0 (nt : Nat) (i : Nat) : Nat :=
  if (nt % 2 = 1 ∧ endsInDash i) ∨ (nt % 2 = 0 ∧ ¬ endsInDash i) then 1 else 0

/-- indices `j0, j0+2, …` below `bound` (the `for j := j0; j < len(pd)-1; j += 2` loop) -/
def stepTwo (bound : Nat) : Nat → Nat → List Nat
  | 0, _ => []
  | fuel + 1, j => if j < bound then j :: stepTwo bound fuel (j + 2) else []

/-- which of the `nt+1` pieces `pd[0..nt]` are kept, in the order the loop visits them; the last
piece `pd[nt]` is handled separately (`endsInDash`). -/
def keptMiddle (nt i : Nat) : List Nat := stepTwo nt (nt + 1) (j0 nt i)

/-- piece `k` of `nt+1` is part of the result -/
def kept (nt i k : Nat) : Bool :=
  (keptMiddle nt i).contains k || (endsInDash i && k == nt)

/-- Arc-length intervals `[a,b]` of one subpath that `Dash` returns, in output order, under the
assumption that `SplitAt` cuts exactly at the requested arc lengths (and so makes every cut). `d` is the canonical, doubled
pattern, `(i0,pos0)` the result of `dashStart`. For a closed subpath whose last piece is kept, the
last piece comes first and is joined with piece 0 when that is kept too: the joined piece is
reported as `(t_last, t_0)` (it runs through the start point). -/
def bounds (t : List α) (length : α) (k : Nat) : α × α :=
  ((if k = 0 then 0 else t.getD (k - 1) 0), (if k < t.length then t.getD k 0 else length))

/-- path.go Dash, after the position loop: selection of the pieces `pd[0..nt]`, closed-subpath join,
output order. `t` is the position list, `iEnd` the pattern index at the exit of the loop. -/
def assemble (t : List α) (iEnd : Nat) (length : α) (closed : Bool) : List (α × α) :=
  -- 8a98a46: `nt := len(pd)-1` cuts were made by SplitAt and the pattern index of the last piece
  -- is stepped back by the cuts not made; exact cuts: all `t.length` are made
  let nt := t.length
  let i := iEnd + t.length - nt
  let mid := (keptMiddle nt i).map (bounds t length)
  if endsInDash i then
    let last := bounds t length nt
    if closed then
      -- `pd[nt].Join(qd)`: with no cut SplitAt returns the subpath itself and qd is empty; when piece
      -- 0 is kept (`j0 = 0`) qd starts where the last piece ends and the two are joined: the joined
      -- piece runs from the last cut through the start point to the first cut and is followed by the
      -- pieces 2, 4, …; otherwise the last piece is put in front of qd
      if nt = 0 then [last]
      else if j0 nt i = 0 then (last.1, (bounds t length 0).2) :: (stepTwo nt nt 2).map (bounds t length)
      else last :: mid
    else mid ++ [last]
  else mid

def subpathIntervals (eps : α) (fuel : Nat) (d : List α) (i0 : Nat) (pos0 : α) (length : α) (closed : Bool) :
    Option (List (α × α)) :=
  match positionsLoop eps d length fuel i0 pos0 [] with
  | none => none
  | some (t, iEnd) => some (assemble t iEnd length closed)

/-- `x` lies on the reported piece `(a,b)` of a subpath of the given length: `a ≤ x < b`, or, for the
piece of a closed subpath that runs through the start point (`b < a`), `a ≤ x < length` or
`0 ≤ x < b`. -/
def Covers (length : α) (ab : α × α) (x : α) : Prop :=
  (ab.1 < ab.2 ∧ ab.1 ≤ x ∧ x < ab.2) ∨
    (ab.2 < ab.1 ∧ ((ab.1 ≤ x ∧ x < length) ∨ (0 ≤ x ∧ x < ab.2)))

/-- the set of arc-length positions of the subpath that `Dash` returns -/
def DrawnBy (length : α) (out : List (α × α)) (x : α) : Prop := ∃ ab ∈ out, Covers length ab x

/-! ## Executable verdict (L3): do observed drawn stretches follow the pattern?

The harness measures where the pieces returned by the real `Path.Dash` lie on a subpath (arc-length
intervals, `b < a` for the piece through the start point of a closed subpath) and sends them here;
the verdict is computed from the pattern semantics: `drawnAt` decides `DrawnE` for a phase
(`C05.phase_drawn_iff`), and the observation passes iff every point of `[0, length)` at which
"covered by an observed piece" and "drawn by the pattern" disagree lies within `τ` of an observed
piece end (or of the ends of the subpath). Both predicates are piecewise constant, so it suffices to
test the midpoints between consecutive breakpoints (observed ends and pattern boundaries). -/

/-- decides whether phase `φ` is drawn by the even-length pattern `d` (entries `≥ 0`, sum `> 0`) -/
def drawnAt (fmod : α → α → α) (fuel : Nat) (d : List α) (φ : α) : Option Bool :=
  match dashStart fmod fuel φ d with
  | some (i0, _) => some (i0 % 2 == 0)
  | none => none

def coversB (length : α) (ab : α × α) (x : α) : Bool :=
  (decide (ab.1 < ab.2) && decide (ab.1 ≤ x) && decide (x < ab.2)) ||
    (decide (ab.2 < ab.1) && ((decide (ab.1 ≤ x) && decide (x < length)) || (decide (0 ≤ x) && decide (x < ab.2))))

/-- `x` is within `τ` of one of the points `es` -/
def nearB (τ : α) (es : List α) (x : α) : Bool := es.any fun e => decide (x - e ≤ τ) && decide (e - x ≤ τ)

/-- one sample point passes: observation and pattern agree at `x`, or `x` is within `τ` of an end -/
def sampleOk (fmod : α → α → α) (fuel : Nat) (offset : α) (d : List α) (length τ : α)
    (obs : List (α × α)) (ends : List α) (x : α) : Bool :=
  match drawnAt fmod fuel d (offset + x) with
  | some b => (obs.any (coversB length · x) == b) || nearB τ ends x
  | none => false

def midpoints (half : α → α) : List α → List α
  | a :: b :: r => (if a < b then [a + half (b - a)] else []) ++ midpoints half (b :: r)
  | _ => []

/-- the sample points that fail; `none` when the pattern walk got stuck. `d` is the doubled pattern. -/
def verdictBad (fmod : α → α → α) (half : α → α) (fuel : Nat) (offset : α) (d : List α) (length τ : α)
    (obs : List (α × α)) : Option (List α) :=
  match dashStart fmod fuel offset d with
  | none => none
  | some (i0, pos0) =>
    match positionsLoop 0 d length fuel i0 pos0 [] with
    | none => none
    | some (cuts, _) =>
      let ends := (0 : α) :: length :: (obs.map (·.1) ++ obs.map (·.2))
      let bps := (ends ++ cuts).filter (fun x => decide (0 ≤ x) && decide (x ≤ length))
      let sorted := bps.mergeSort (fun a b => decide (a ≤ b))
      some ((midpoints half sorted).filter fun x => !(sampleOk fmod fuel offset d length τ obs ends x))

/-- Result of `Dash` on a path given by its subpath lengths. -/
inductive DashOut (α : Type) where
  | whole                                   -- `return p`
  | pieces (ps : List (Nat × α × α))        -- (subpath index, a, b) in output order
  | stuck                                   -- fuel exhausted / index panic
deriving DecidableEq

def collect (eps : α) (fuel : Nat) (d : List α) (i0 : Nat) (pos0 : α) :
    Nat → List (α × Bool) → Option (List (Nat × α × α))
  | _, [] => some []
  | k, (len, closed) :: rest =>
    match subpathIntervals eps fuel d i0 pos0 len closed, collect eps fuel d i0 pos0 (k + 1) rest with
    | some iv, some more => some (iv.map (fun ab => (k, ab.1, ab.2)) ++ more)
    | _, _ => none

def dash (fmod : α → α → α) (eps : α) (fuel : Nat) (offset : α) (d : List α) (subs : List (α × Bool)) : DashOut α :=
  match dashCanonical eps offset d with
  | none => .stuck
  | some (off, dc) =>
    if dc.isEmpty then .whole
    else if dc.length = 1 ∧ dc.all (fun x => decide (x ≤ 0 ∧ 0 ≤ x)) then .pieces []
    else
      let dd := doubled dc
      match dashStart fmod fuel off dd with
      | none => .stuck
      | some (i0, pos0) =>
        match collect eps fuel dd i0 pos0 0 subs with
        | none => .stuck
        | some ps => .pieces ps

end
end Canvas.C05
