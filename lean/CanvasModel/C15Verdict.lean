import CanvasModel.Prelude
/-!
# C15 — verdict of the replay-order specification (`!` lines)

The harness sends a raw observation: the operations recorded on a canvas in recording order, each
as (z-index at recording time, fingerprint of object and style), and the fingerprints of the calls
the canvas replayed to a renderer.  The verdict is the specification itself: the replay must be
the recorded list stably sorted by z.  Soundness lemmas are in CanvasProofs/C15.lean.
-/
namespace Canvas.C15

/-- insert before the first element whose key is not smaller -/
def vInsert {β : Type} (x : Int × β) : List (Int × β) → List (Int × β)
  | [] => [x]
  | y :: ys => if x.1 ≤ y.1 then x :: y :: ys else y :: vInsert x ys

/-- stable insertion sort by key -/
def vSort {β : Type} (l : List (Int × β)) : List (Int × β) := l.foldr vInsert []

inductive Verdict
  | ok
  | count (recorded replayed : Nat)
  | order (pos : Nat)
deriving DecidableEq, Repr

def firstDiff : List Nat → List Nat → Nat → Option Nat
  | [], [], _ => none
  | a :: as, b :: bs, i => if a = b then firstDiff as bs (i + 1) else some i
  | _, _, i => some i

def replayVerdict (recorded : List (Int × Nat)) (replayed : List Nat) : Verdict :=
  if recorded.length ≠ replayed.length then .count recorded.length replayed.length
  else match firstDiff ((vSort recorded).map (·.2)) replayed 0 with
    | none => .ok
    | some i => .order i

def Verdict.show : Verdict → String
  | .ok => "ok"
  | .count a b => s!"FAIL count recorded={a} replayed={b}"
  | .order i => s!"FAIL order first-difference-at={i}"

end Canvas.C15
