/-!
C01 L2 model of the `SweepEvents` binary heap of `path_intersection.go` (`Less`, `Swap`, `Init`,
`Push`, `Top`, `Pop`, `Fix`, `up`, `down` — copied there from `container/heap`).

The model is generic over the element type and the comparison `less` (`q.Less(i, j)` is
`less q[i] q[j]`); the heap is an `Array α` (the Go slice). Index arithmetic is transcribed literally:

* `up`:   `i := (j - 1) / 2`; for `j = 0` Go computes `(0-1)/2 = 0` (truncation toward zero) so that
  `i == j` breaks the loop; on `Nat` `(0 - 1) / 2 = 0` as well, so the same expression is used.
* `down`: children `2*i + 1` and `2*i + 2`, the result is the Bool `i0 < i`. The Go guard
  `j1 < 0` (int overflow of `2*i+1`) is unreachable for slices that fit in memory and has no
  counterpart on `Nat`.

`up`/`down` take the in-range facts they need as arguments (they are partial in Go: an index out of
range panics); the entry points `Top`/`Pop`/`Fix`/`setFix`/`up?`/`down?` return `Option`, `none`
being the Go panic. Core Lean only.
-/
namespace Canvas.C01Heap

variable {α : Type}

/-- `SweepEvents.up(j)`; needs `j < len(q)` (`q.Less(j, i)` reads `q[j]`) -/
def up (less : α → α → Bool) (a : Array α) (j : Nat) (hj : j < a.size) : Array α :=
  let i := (j - 1) / 2 -- parent
  if h : i = j ∨ less a[j] (a[i]'(by omega)) = false then a
  else up less (a.swap i j (by omega) hj) i (by simp only [Array.size_swap]; omega)
termination_by j
decreasing_by omega

/-- the child selected by one iteration of `down`: the left child `j1 = 2*i+1`, or the right child
`j2 = j1 + 1` if `j2 < n && q.Less(j2, j1)` -/
def child (less : α → α → Bool) (a : Array α) (i n : Nat) (hn : n ≤ a.size) (_h1 : 2 * i + 1 < n) : Nat :=
  if h2 : 2 * i + 1 + 1 < n then
    (if less (a[2 * i + 1 + 1]'(by omega)) (a[2 * i + 1]'(by omega)) then 2 * i + 1 + 1 else 2 * i + 1)
  else 2 * i + 1

theorem child_lt (less : α → α → Bool) (a : Array α) (i n : Nat) (hn : n ≤ a.size) (h1 : 2 * i + 1 < n) :
    child less a i n hn h1 < n := by
  unfold child; split
  · split <;> omega
  · omega

theorem child_gt (less : α → α → Bool) (a : Array α) (i n : Nat) (hn : n ≤ a.size) (h1 : 2 * i + 1 < n) :
    i < child less a i n hn h1 := by
  unfold child; split
  · split <;> omega
  · omega

/-- the loop of `SweepEvents.down(i0, n)`: returns the array and the final value of `i`.
Needs `n ≤ len(q)`. -/
def downLoop (less : α → α → Bool) (a : Array α) (i n : Nat) (hn : n ≤ a.size) : Array α × Nat :=
  if h1 : n ≤ 2 * i + 1 then (a, i) -- `if n <= j1 { break }`
  else
    have h1' : 2 * i + 1 < n := by omega
    let j := child less a i n hn h1'
    have hj : j < n := child_lt less a i n hn h1'
    have hji : i < j := child_gt less a i n hn h1'
    if less (a[j]'(by omega)) (a[i]'(by omega)) = false then (a, i) -- `if !q.Less(j, i) { break }`
    else downLoop less (a.swap i j (by omega) (by omega)) j n (by simp only [Array.size_swap]; exact hn)
termination_by n - i
decreasing_by omega

/-- `SweepEvents.down(i0, n)`: the array afterwards and the returned Bool `i0 < i` -/
def down (less : α → α → Bool) (a : Array α) (i0 n : Nat) (hn : n ≤ a.size) : Array α × Bool :=
  let r := downLoop less a i0 n hn
  (r.1, decide (i0 < r.2))

/-- one iteration count of `for i := n/2 - 1; 0 <= i; i-- { q.down(i, n) }`: `initLoop a k` runs
`down(k-1, n)`, `down(k-2, n)`, …, `down(0, n)` with `n = len(q)` -/
def initLoop (less : α → α → Bool) (a : Array α) : Nat → Array α
  | 0 => a
  | k + 1 => initLoop less (downLoop less a k a.size (Nat.le_refl _)).1 k

/-- `SweepEvents.Init()` -/
def init (less : α → α → Bool) (a : Array α) : Array α := initLoop less a (a.size / 2)

/-- `SweepEvents.Push(item)` -/
def push (less : α → α → Bool) (a : Array α) (x : α) : Array α :=
  up less (a.push x) a.size (by simp)

/-- `SweepEvents.Top()`; `none` = index out of range panic on the empty heap -/
def top (a : Array α) : Option α := a[0]?

/-- `SweepEvents.Pop()`: `(popped, rest)`; `none` = index out of range panic on the empty heap
(`q.Swap(0, -1)`) -/
def pop (less : α → α → Bool) (a : Array α) : Option (α × Array α) :=
  if h : 0 < a.size then
    let n := a.size - 1
    let b := a.swap 0 n h (by omega)
    let c := (downLoop less b 0 n (by simp only [b, Array.size_swap]; omega)).1
    match c.back? with
    | some x => some (x, c.pop)
    | none => none -- unreachable: `downLoop` keeps the size (`size_downLoop`)
  else none

/-- `SweepEvents.up(j)` with the Go panic behaviour for `j ≥ len(q)`: for `j = 0` on the empty
slice the loop breaks at `i == j` before any element is read, every other index panics. -/
def up? (less : α → α → Bool) (a : Array α) (j : Nat) : Option (Array α) :=
  if h : j < a.size then some (up less a j h) else if j = 0 then some a else none

/-- `SweepEvents.down(i0, n)` with the Go panic behaviour: `n > len(q)` reads out of range (as soon
as a child index is `≥ len(q)`; modelled as a panic whenever `n > len(q)`, which is never
exercised); `i0 ≥ n` just returns `false`. -/
def down? (less : α → α → Bool) (a : Array α) (i0 n : Nat) : Option (Array α × Bool) :=
  if h : n ≤ a.size then some (down less a i0 n h) else none

/-- `SweepEvents.Fix(i)`: `if !q.down(i, len(q)) { q.up(i) }` -/
def fix (less : α → α → Bool) (a : Array α) (i : Nat) : Option (Array α) :=
  let r := down less a i a.size (Nat.le_refl _)
  if r.2 then some r.1 else up? less r.1 i

/-- `q[i] = x; q.Fix(i)`; `none` = index out of range panic of the assignment -/
def setFix (less : α → α → Bool) (a : Array α) (i : Nat) (x : α) : Option (Array α) :=
  if h : i < a.size then fix less (a.set i x h) i else none

/-! ### history semantics -/

inductive Op (α : Type) where
  | push (x : α)
  | pop
  | fix (i : Nat) (x : α)
deriving Repr

/-- one recorded `Pop`: the state before it and the returned element -/
structure PopRec (α : Type) where
  before : Array α
  popped : α

/-- run a history on a state; every `Pop` is recorded. `none` = some op panicked (pop on the empty
heap, fix out of range). -/
def run (less : α → α → Bool) (a : Array α) : List (Op α) → Option (Array α × List (PopRec α))
  | [] => some (a, [])
  | .push x :: ops => run less (push less a x) ops
  | .pop :: ops =>
    match pop less a with
    | none => none
    | some (m, b) =>
      match run less b ops with
      | none => none
      | some (c, recs) => some (c, ⟨a, m⟩ :: recs)
  | .fix i x :: ops =>
    match setFix less a i x with
    | none => none
    | some b => run less b ops

/-! ### line protocol

`HEAP k1 … kn | op op …` with integer keys (`less` = `<` on `Int`) and ops

* `init` · `push K` · `pop` · `top` · `fix I K` (`q[I] = K; q.Fix(I)`)
* `down I N` (raw `q.down(I, N)`) · `up J` (raw `q.up(J)`) — tie the two loops on arbitrary arrays

Answer: for every op `R : k1 … km ;` where `R` is the popped / top key, the Bool (0/1) returned by
`down`, or `-`, followed by the array contents after the op. A panicking op answers `panic` and
ends the line. -/

def ltInt (x y : Int) : Bool := decide (x < y)

def showArr (a : Array Int) : String :=
  String.intercalate " " (a.toList.map fun k => toString k)

def fmtStep (r : String) (a : Array Int) : String :=
  if a.isEmpty then s!"{r} : ;" else s!"{r} : {showArr a} ;"

/-- interpret the op tokens; `acc` collects the answer segments in reverse -/
def runOps (fuel : Nat) (a : Array Int) (toks : List String) (acc : List String) : Option (List String) :=
  match fuel with
  | 0 => none -- unreachable: fuel = number of tokens + 1
  | fuel + 1 =>
    match toks with
    | [] => some acc.reverse
    | "init" :: rest =>
      let b := init ltInt a
      runOps fuel b rest (fmtStep "-" b :: acc)
    | "push" :: k :: rest => do
      let k ← k.toInt?
      let b := push ltInt a k
      runOps fuel b rest (fmtStep "-" b :: acc)
    | "pop" :: rest =>
      match pop ltInt a with
      | none => some ("panic" :: acc).reverse
      | some (m, b) => runOps fuel b rest (fmtStep (toString m) b :: acc)
    | "top" :: rest =>
      match top a with
      | none => some ("panic" :: acc).reverse
      | some m => runOps fuel a rest (fmtStep (toString m) a :: acc)
    | "fix" :: i :: k :: rest => do
      let i ← i.toNat?
      let k ← k.toInt?
      match setFix ltInt a i k with
      | none => some ("panic" :: acc).reverse
      | some b => runOps fuel b rest (fmtStep "-" b :: acc)
    | "down" :: i :: n :: rest => do
      let i ← i.toNat?
      let n ← n.toNat?
      match down? ltInt a i n with
      | none => some ("panic" :: acc).reverse
      | some (b, moved) => runOps fuel b rest (fmtStep (if moved then "1" else "0") b :: acc)
    | "up" :: j :: rest => do
      let j ← j.toNat?
      match up? ltInt a j with
      | none => some ("panic" :: acc).reverse
      | some b => runOps fuel b rest (fmtStep "-" b :: acc)
    | _ => none

def parseKeys : List String → Option (List Int × List String)
  | [] => none
  | "|" :: rest => some ([], rest)
  | k :: rest => do
    let k ← k.toInt?
    let (ks, ops) ← parseKeys rest
    pure (k :: ks, ops)

def handle : List String → Option String
  | "HEAP" :: rest => do
    let (ks, ops) ← parseKeys rest
    let segs ← runOps (ops.length + 1) ks.toArray ops []
    pure (String.intercalate " " segs)
  | _ => none

end Canvas.C01Heap
