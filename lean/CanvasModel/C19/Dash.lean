import CanvasModel.C19
/-!
# C19 — executable `Path.checkDash` (path.go dashCanonical/dashStart/checkDash)

`checkDash` belongs to properties C05/C15; the C19 model takes it as the field `Ops.checkDash`.
This file provides the executable instance for the driver.  It is the value-semantics transcription
used (and tied bit-exactly to the real code) by the C15 model (state of /repo 555d813), re-stated over `C19.Arith` so that the
C19 driver does not depend on another property's files.  No C19 theorem looks inside it.
-/
namespace Canvas.C19

section Dash
variable {α : Type} (a : Arith α)

/-- the loop "remove zeros except first and last": `prev = d[i-1]`, `rest = d[i:]` -/
def remZeros (prev : α) : List α → List α
  | [] => [prev]
  | [x] => [prev, x]
  | x :: y :: tl => if a.equal x a.zero then remZeros (a.add prev y) tl else prev :: remZeros x (y :: tl)

def addLast (v : α) : List α → List α
  | [] => []
  | [x] => [a.add x v]
  | x :: xs => x :: addLast v xs

def firstZero (off : α) (d : List α) : Option (α × List α) :=
  match d with
  | d0 :: d1 :: d2 :: tl =>
    if a.equal d0 a.zero then some (a.sub off d1, addLast a d1 (d2 :: tl)) else some (off, d)
  | d0 :: _ => if a.equal d0 a.zero then none else some (off, d)
  | [] => some (off, d)

def lastZero (off : α) (d : List α) : Option (α × List α) :=
  match d.getLast? with
  | none => some (off, d)
  | some l =>
    if a.equal l a.zero then
      if d.length < 3 then none
      else
        let s := d.getD (d.length - 2) a.zero
        match d.take (d.length - 2) with
        | d0 :: tl => some (a.add off s, a.add d0 s :: tl)
        | [] => none
    else some (off, d)

def halves (fuel : Nat) (d : List α) : List α :=
  match fuel with
  | 0 => d
  | fuel + 1 =>
    if d.length % 2 == 0 then
      let mid := d.length / 2
      if (List.zipWith a.equal (d.take mid) (d.drop mid)).all id then halves fuel (d.take mid) else d
    else d

/-- dashCanonical: (offset, d) -/
def dashCanonical (off : α) (d : List α) : α × List α :=
  match d with
  | [] => (a.zero, [])
  | d0 :: rest =>
    let d := remZeros a d0 rest
    match firstZero a off d with
    | none => (a.zero, [a.zero])
    | some (off, d) =>
      match lastZero a off d with
      | none => (a.zero, [])
      | some (off, d) =>
        if d.any (fun x => a.lt x a.zero || a.equal x a.zero) then (a.zero, [a.zero])
        else (off, halves a d.length d)

/-- dashStart; `none` = fuel exhausted (never on the generated inputs) -/
def dashStartLoop (d : List α) : Nat → Nat → α → Option (Nat × α)
  | 0, _, _ => none
  | fuel + 1, i, off =>
    let di := d.getD i a.zero
    if a.le di off then
      let i := if i + 1 == d.length then 0 else i + 1
      dashStartLoop d fuel i (a.sub off di)
    else some (i, off)

def dashStart (off : α) (d : List α) : Option (Nat × α) :=
  match dashStartLoop a d 1000000 0 off with
  | none => none
  | some (i, off) =>
    if a.lt off a.zero then some (i, a.neg (a.add (d.foldl a.add a.zero) off))
    else some (i, a.neg off)

/-- Path.checkDash as a function of the path length (`fmod` = math.Mod), as of /repo 555d813: the pattern
is dropped (solid stroke) when the first dash covers the whole path, the stroke when the first space does -/
def checkDashImpl (fmod : α → α → α) (off : α) (d : List α) (len : α) : List α × Bool :=
  let (off, d) := dashCanonical a off d
  if d.isEmpty then ([], true)
  else if d.length == 1 && a.beq (d.getD 0 a.zero) a.zero then ([], false)
  else
    -- dashes and spaces alternate: an odd pattern repeats after twice its length (as in Dash)
    let dd := if d.length % 2 == 1 then d ++ d else d
    let total := dd.foldl a.add a.zero
    let off := fmod off total
    let off := if a.lt off a.zero then a.add off total else off
    match dashStart a off dd with
    | none => ([], false)
    | some (i, pos) =>
      -- pos is minus the part of dd[i] that lies before the start
      if a.le len (a.add (dd.getD i a.zero) pos) then ([], i % 2 == 0) else (d, true)
end Dash

end Canvas.C19
