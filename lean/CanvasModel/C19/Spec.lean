import CanvasModel.C19
/-!
# C19 — functional specification of the importer's styling and inheritance

`CanvasModel/C19.lean` follows the code: a mutable parser state with two save stacks, push at the
start tag, pop at the end tag.  This file states the same semantics without any stack:

* `cascade` — the style of one element as a pure function of the inherited style and the element's
  own declarations: presentation attributes in order, then the matching style-sheet rules by specificity
  and, for equal specificity, in order of appearance, then the style attribute (svg.go setStyling);
* `render` — environment passing: every child subtree is rendered from the SAME inherited
  environment (the parent's computed style, view and importer state); only the document-order
  outputs (rules seen so far, recorded layers, remaining path lengths, error flag) are threaded
  from one sibling to the next.

`CanvasProofs/C19.lean` proves that the stack machine `walk` computes exactly `render`
(`walk_eq_render`) and that `setStyling` is `cascade` (`styling_is_cascade`).  Core Lean only.
-/
namespace Canvas.C19
variable {α : Type} (o : Ops α)

/-! ## cascade -/

def propsCore (diag : α) (s : Sty α) (props : List (String × Val α)) : Sty α :=
  props.foldl (fun s kv => attrCore o diag s kv.1 kv.2) s

def plainCore (diag : α) (s : Sty α) (a : Attr α) : Sty α :=
  match a with
  | .plain k v => attrCore o diag s k v
  | .style _ => s

def styleCore (diag : α) (s : Sty α) (a : Attr α) : Sty α :=
  match a with
  | .plain _ _ => s
  | .style props => propsCore o diag s props

def rulesCore (diag : α) (elems : List Elem) (s : Sty α) (rules : List (Rule α)) : Sty α :=
  (stableSort (fun nr => nr.1) (matching rules elems)).foldl (fun s nr => propsCore o diag s nr.2.props) s

/-- the computed style of an element: inherited style `s`, own attributes `attrs`, the rules seen so
far, the element stack `elems` (innermost first, the element itself on top), the reference length for
percentages `diag` -/
def cascade (diag : α) (rules : List (Rule α)) (elems : List Elem) (s : Sty α) (attrs : List (Attr α)) : Sty α :=
  attrs.foldl (styleCore o diag) (rulesCore o diag elems (attrs.foldl (plainCore o diag) s) rules)

/-! ## environment passing -/

/-- what an element inherits and what is restored after it -/
structure Inh (α : Type) where
  ctx : CState α
  st : SState α
  ctxStack : List (CState α)
  stStack : List (SState α)
  elems : List Elem
  cw : α
  ch : α
  width : α
  height : α
  diagonal : α

/-- what is threaded through the document in document order -/
structure Thr (α : Type) where
  err : Bool
  rules : List (Rule α)
  layers : List (Layer α)
  lens : List α

def inhOf (p : P α) : Inh α :=
  ⟨p.ctx, p.st, p.ctxStack, p.stStack, p.elems, p.cw, p.ch, p.width, p.height, p.diagonal⟩

def thrOf (p : P α) : Thr α := ⟨p.err, p.rules, p.layers, p.lens⟩

def mkP (i : Inh α) (t : Thr α) : P α :=
  { err := t.err, cw := i.cw, ch := i.ch, width := i.width, height := i.height, diagonal := i.diagonal,
    ctx := i.ctx, ctxStack := i.ctxStack, st := i.st, stStack := i.stStack, elems := i.elems,
    rules := t.rules, layers := t.layers, lens := t.lens }

/-- the element's own environment: styled and drawn from the inherited one -/
def enter (i : Inh α) (t : Thr α) (tag : String) (attrs : List (Attr α)) : P α :=
  drawShape o (setStyling o (push (mkP i t) tag attrs) attrs) tag attrs

mutual
def render : Tree α → Inh α → Thr α → Thr α
  | .elem tag attrs children, i, t =>
    renderList children (inhOf (enter o i t tag attrs)) (thrOf (enter o i t tag attrs))
  | .css rules, _, t => { t with rules := t.rules ++ rules }
/-- every sibling gets the same `i` -/
def renderList : List (Tree α) → Inh α → Thr α → Thr α
  | [], _, t => t
  | c :: cs, i, t => renderList cs i (render c i t)
end

/-! ## the cascade of CSS2 §6.4.3 / SVG 1.1 §6.4 (specification, L3) -/

/-- SVG 1.1 / CSS2 cascade: presentation attributes, then the matching rules by specificity and, for equal
specificity, by order of appearance, then the style attribute -/
def specCascade (diag : α) (rules : List (Rule α)) (elems : List Elem) (s : Sty α) (attrs : List (Attr α)) : Sty α :=
  attrs.foldl (styleCore o diag)
    ((stableSort (fun nr => nr.1) (matching rules elems)).foldl (fun s nr => propsCore o diag s nr.2.props)
      (attrs.foldl (plainCore o diag) s))

end Canvas.C19
