import CanvasModel.Prelude
import CanvasModel.Wn
import CanvasModel.Region
/-!
# C04 — Stroke / Offset: hand-written (L2) kernels and control skeleton, exact (L3) region verdicts

Core Lean only. Everything above the verdict handlers is polymorphic in the scalar `α`:

* the geometric kernels of /repo/path_stroke.go — offset normal, the three cappers, Bevel / Round /
  Miter / MiterClip joiners (and Arcs joiners on straight neighbours, which delegate to Miter) — as
  functions returning the commands the real methods append to `rhs` / `lhs`. The miter is written in
  its trigonometry-free form (`hw/cos(θ/2)` along the bisector = `hw²/(hw² + n0·n1) · (n0 + n1)`);
* the control skeleton of `offset()` over a list of abstract segments: which joins and caps are
  requested, in which order, with which arguments, and whether `rhs` / `lhs` come back closed.

They are executed at `Float` by `Drv/C04.lean` (correspondence with the real cappers, joiners and the
unexported `offset()` run with recording `Capper`/`Joiner` implementations) and reasoned about over an
arbitrary ordered field in `CanvasProofs/C04.lean`.

The second half is the exact specification that judges real `Stroke` / `Offset` outputs: winding
number of the (flattened) result against exact squared distances to the input polyline.
-/
namespace Canvas.C04

/-- What the kernels use besides `+ - * /`, comparisons and literals. -/
class Ops (α : Type) where
  hypot : α → α → α        -- math.Hypot (Point.Length)
  sqrt : α → α
  equal : α → α → Bool     -- util.go Equal (Epsilon band)
  isZero : α → Bool        -- `d == 0.0`
  minLimit : α             -- the 1.001 floor of the miter limit

/-- a command appended by a capper / joiner: `LineTo p` or `ArcTo(r, r, 0, false, sweep, p)` -/
inductive Cmd (α : Type) where
  | L (p : Pt α)
  | A (r : α) (sweep : Bool) (p : Pt α)
deriving Repr

section
variable {α : Type} [Add α] [Sub α] [Mul α] [Div α] [Neg α] [LT α] [DecidableLT α] [LE α] [DecidableLE α]
  [OfNat α 0] [OfNat α 1] [OfNat α 2] [Ops α]

def padd (p q : Pt α) : Pt α := ⟨p.x + q.x, p.y + q.y⟩
def psub (p q : Pt α) : Pt α := ⟨p.x - q.x, p.y - q.y⟩
def pneg (p : Pt α) : Pt α := ⟨-p.x, -p.y⟩
def rotCW (p : Pt α) : Pt α := ⟨p.y, -p.x⟩
def rotCCW (p : Pt α) : Pt α := ⟨-p.y, p.x⟩
def dot (p q : Pt α) : α := p.x * q.x + p.y * q.y
def smul (s : α) (p : Pt α) : Pt α := ⟨s * p.x, s * p.y⟩
def lerp (p q : Pt α) (t : α) : Pt α := ⟨(1 - t) * p.x + t * q.x, (1 - t) * p.y + t * q.y⟩
def pointEquals (p q : Pt α) : Bool := Ops.equal p.x q.x && Ops.equal p.y q.y

/-- `Point.Norm`: scale to the given length (the zero vector stays zero) -/
def normTo (p : Pt α) (len : α) : Pt α :=
  let d := Ops.hypot p.x p.y
  if Ops.isZero d then ⟨0, 0⟩ else ⟨p.x / d * len, p.y / d * len⟩

/-- path_stroke.go:458 — `n := end.Sub(start).Rot90CW().Norm(halfWidth)` -/
def offsetNormal (a b : Pt α) (hw : α) : Pt α := normTo (rotCW (psub b a)) hw

/-! ## cappers (path_stroke.go:16-72); the pen is at `pivot + n0` -/

def buttCap (pivot n0 : Pt α) : List (Cmd α) := [.L (psub pivot n0)]

def roundCap (hw : α) (pivot n0 : Pt α) : List (Cmd α) := [.A hw true (psub pivot n0)]

def squareCap (pivot n0 : Pt α) : List (Cmd α) :=
  let e := rotCCW n0
  [.L (padd (padd pivot e) n0), .L (psub (padd pivot e) n0), .L (psub pivot n0)]

/-! ## joiners (path_stroke.go:76-190): commands appended to (rhs, lhs) -/

def bevelJoin (pivot n1 : Pt α) : List (Cmd α) × List (Cmd α) :=
  ([.L (padd pivot n1)], [.L (psub pivot n1)])

/-- `cw := 0.0 <= n0.Rot90CW().Dot(n1)`: the path bends to the right (or turns by 180°) -/
def cwTurn (n0 n1 : Pt α) : Bool := decide ((0 : α) ≤ dot (rotCW n0) n1)

def roundJoin (hw : α) (pivot n0 n1 : Pt α) : List (Cmd α) × List (Cmd α) :=
  if cwTurn n0 n1 then ([.L (padd pivot n1)], [.A hw false (psub pivot n1)])
  else ([.A hw true (padd pivot n1)], [.L (psub pivot n1)])

/-- `limit := math.Max(j.Limit, 1.001)` -/
def effLimit (limit : α) : α := if limit < Ops.minLimit then Ops.minLimit else limit

/-- `hw² + n0·n1 = 2 hw² cos²(θ/2)` for normals of length `hw` enclosing the angle θ -/
def miterDen (hw : α) (n0 n1 : Pt α) : α := hw * hw + dot n0 n1

/-- `clip := limit*halfWidth < |d|`, `d = hw / cos(θ/2)`, squared: `d² = 2 hw⁴ / miterDen` -/
def miterClipped (lim hw : α) (n0 n1 : Pt α) : Bool :=
  decide (lim * lim * miterDen hw n0 n1 < 2 * (hw * hw))

/-- `mid := pivot.Add(n0.Add(n1).Norm(d))`, `d` negative for a right bend -/
def miterTip (hw : α) (pivot n0 n1 : Pt α) : Pt α :=
  let s := hw * hw / miterDen hw n0 n1
  padd pivot (smul (if cwTurn n0 n1 then -s else s) (padd n0 n1))

/-- `|d|` -/
def miterAbsD (hw : α) (n0 n1 : Pt α) : α := Ops.sqrt (2 * (hw * hw) * (hw * hw) / miterDen hw n0 n1)

/-- the miter-clip fraction `t := (limit*hw*|d| - hw²)/(d² - hw²)`: along the bisector the offset corner is at
`hw²/|d|` and the tip at `|d|`, the cut at `limit*hw` -/
def clipT (lim hw : α) (n0 n1 : Pt α) : α :=
  let D := miterAbsD hw n0 n1
  (lim * hw * D - hw * hw) / (D * D - hw * hw)

/-- `MiterJoiner{GapJoiner, Limit}.Join`; `gapBevel = true` is `MiterJoin`, `false` is `MiterClipJoin`.
`rpos`/`lpos` are the pen positions of rhs and lhs (`rhs.Pos()`, `lhs.Pos()`). -/
def miterJoin (gapBevel : Bool) (limit hw : α) (pivot n0 n1 rpos lpos : Pt α) :
    List (Cmd α) × List (Cmd α) :=
  if pointEquals n0 (pneg n1) then bevelJoin pivot n1
  else
    let lim := effLimit limit
    let clip := miterClipped lim hw n0 n1
    if clip && gapBevel then bevelJoin pivot n1
    else
      let rEnd := padd pivot n1
      let lEnd := psub pivot n1
      let mid := miterTip hw pivot n0 n1
      if clip then
        let t := clipT lim hw n0 n1
        if cwTurn n0 n1 then ([.L rEnd], [.L (lerp lpos mid t), .L (lerp lEnd mid t), .L lEnd])
        else ([.L (lerp rpos mid t), .L (lerp rEnd mid t), .L rEnd], [.L lEnd])
      else
        if cwTurn n0 n1 then ([.L rEnd], [.L mid, .L lEnd])
        else ([.L mid, .L rEnd], [.L lEnd])

/-! ## control skeleton of `offset()` (path_stroke.go:446-631) -/

/-- one entry of `states`: end points, end normals, end curvature radii -/
structure Seg (α : Type) where
  p0 : Pt α
  p1 : Pt α
  n0 : Pt α
  n1 : Pt α
  r0 : α
  r1 : α
deriving Repr

/-- a request made to the `Joiner` / `Capper` -/
inductive Ev (α : Type) where
  | join (pivot n0 n1 : Pt α) (r0 r1 : α)
  | cap (pivot n0 : Pt α)
deriving Repr

def Ev.isJoin : Ev α → Bool
  | .join .. => true
  | .cap .. => false

def Ev.isCap : Ev α → Bool
  | .join .. => false
  | .cap .. => true

/-- the join requested between `s` and `t`, unless the normals agree (`cur.n1.Equals(next.n0)`) -/
def joinOf (eqN : Pt α → Pt α → Bool) (s t : Seg α) : List (Ev α) :=
  if eqN s.n1 t.n0 then [] else [.join s.p1 s.n1 t.n0 s.r1 t.r0]

/-- joins of the main loop: between consecutive states, and from the last to the first when closed -/
def joinsFrom (eqN : Pt α → Pt α → Bool) (first : Seg α) (closed : Bool) : List (Seg α) → List (Ev α)
  | [] => []
  | [s] => if closed then joinOf eqN s first else []
  | s :: t :: rest => joinOf eqN s t ++ joinsFrom eqN first closed (t :: rest)

/-- observable protocol of one `offset()` call -/
structure Proto (α : Type) where
  events : List (Ev α)
  rhsClosed : Bool
  /-- `none`: lhs was merged into rhs (stroke of an open path); `some c`: returned, closed iff `c` -/
  lhs : Option Bool

def lastSeg (first : Seg α) : List (Seg α) → Seg α
  | [] => first
  | [s] => s
  | _ :: rest => lastSeg first rest

/-- `none` is the `return nil, nil` of an empty state list -/
def offsetProto (eqN : Pt α → Pt α → Bool) (segs : List (Seg α)) (closed strokeOpen : Bool) :
    Option (Proto α) :=
  match segs with
  | [] => none
  | first :: _ =>
    let js := joinsFrom eqN first closed segs
    if closed then some ⟨js, true, some true⟩
    else if strokeOpen then
      let last := lastSeg first segs
      some ⟨js ++ [.cap last.p1 last.n1, .cap first.p0 (pneg first.n0)], true, none⟩
    else some ⟨js, false, some false⟩

/-- commands of a flat subpath as `offset()` reads them -/
inductive FCmd (α : Type) where
  | M (p : Pt α)
  | L (p : Pt α)
  | Z (p : Pt α)
deriving Repr

def lineSeg (hw : α) (nan : α) (a b : Pt α) : Seg α :=
  let n := offsetNormal a b hw
  ⟨a, b, n, n, nan, nan⟩

/-- first loop of `offset()` on a flat subpath: the states and the `closed` flag. A `Close` whose
start and end coincide adds no state. -/
def flatStates (hw nan : α) : Pt α → List (FCmd α) → List (Seg α) × Bool
  | _, [] => ([], false)
  | _, .M p :: rest => flatStates hw nan p rest
  | start, .L p :: rest =>
    let r := flatStates hw nan p rest
    (lineSeg hw nan start p :: r.1, r.2)
  | start, .Z p :: rest =>
    let r := flatStates hw nan p rest
    (if pointEquals start p then r.1 else lineSeg hw nan start p :: r.1, true)


/-! ## the whole path: `Stroke` / `Offset` run `offset()` once per subpath (path_stroke.go:643, 675) -/

/-- one subpath as `offset()` sees it: its states and the `closed` flag -/
abbrev SubPath (α : Type) := List (Seg α) × Bool

/-- the requests of one subpath -/
def subEvents (eqN : Pt α → Pt α → Bool) (strokeOpen : Bool) (s : SubPath α) : List (Ev α) :=
  match offsetProto eqN s.1 s.2 strokeOpen with
  | none => []
  | some pr => pr.events

/-- all requests made while stroking (`strokeOpen = true`) or offsetting (`false`) a path, in order -/
def pathEvents (eqN : Pt α → Pt α → Bool) (subs : List (SubPath α)) (strokeOpen : Bool) : List (Ev α) :=
  subs.flatMap (subEvents eqN strokeOpen)

/-- number of contours of the RAW outline (`FastStroke`): an open stroked subpath gives one (rhs ++ cap ++ lhs
reversed ++ cap), a closed one two (`rhs` and `lhs.Reverse()`), `Offset` takes one side, an empty state list
none. Without `FastStroke` every subpath's outline goes through ONE `Settle(Positive)` — since /repo ff6bd83 also the
two contours of a closed subpath together (`rhs.Append(lhs.Reverse()).Settle(Positive)`), so the number of
contours of the settled result depends on the geometry and is judged by the region verdicts only. -/
def pathContours (subs : List (SubPath α)) (stroke : Bool) : Nat :=
  (subs.map fun s => if s.1.isEmpty then 0 else if stroke && s.2 then 2 else 1).sum

end

/-! ## exact verdicts on real Stroke / Offset outputs -/
open Canvas.Wn Canvas.Region

/-- squared distance from p to segment ab is strictly below d2 (same integer scale) -/
def nearSeg (p a b : IPt) (d2 : Int) : Bool :=
  let abx := b.x - a.x; let aby := b.y - a.y
  let apx := p.x - a.x; let apy := p.y - a.y
  let l2 := abx * abx + aby * aby
  let t := apx * abx + apy * aby
  if l2 == 0 || t ≤ 0 then decide (apx * apx + apy * apy < d2)
  else if t ≥ l2 then
    let bpx := p.x - b.x; let bpy := p.y - b.y
    decide (bpx * bpx + bpy * bpy < d2)
  else
    let c := abx * apy - aby * apx
    decide (c * c < d2 * l2)

def nearChain (p : IPt) (d2 : Int) : List IPt → Bool
  | a :: b :: rest => nearSeg p a b d2 || nearChain p d2 (b :: rest)
  | _ => false

/-- the vertex chain of one input contour: closed contours get the closing edge -/
def chainOf (closed : Bool) (c : List IPt) : List IPt :=
  match c with
  | [] => []
  | [a] => [a, a]
  | a :: _ => if closed then c ++ [a] else c

def nearPath (p : IPt) (d2 : Int) (chains : List (List IPt)) : Bool :=
  chains.any (nearChain p d2)

def farPath (p : IPt) (d2 : Int) (chains : List (List IPt)) : Bool :=
  chains.all (farFromChain p d2)

/-- floor(v · 2^(-e0)) for a dyadic v = m·2^e -/
def scaleDown (e0 : Int) (v : Int × Int) : Int :=
  if v.2 ≥ e0 then v.1 * (2 : Int) ^ (v.2 - e0).toNat
  else v.1 / (2 : Int) ^ (e0 - v.2).toNat

structure Scene where
  chains : List (List IPt)     -- input polylines (closing edge added)
  inPoly : List (List IPt)     -- the same contours as polygons (for Offset)
  R : List (List IPt)
  pts : List IPt
  lo2 : Int                    -- (lower radius)², 0 if the lower radius is not positive
  hi2 : Int
  lo2w : Int                   -- the same for the wider band (global flattening tolerance of Settle)
  hi2w : Int

def mkScene (lo hi low hiw : Int × Int) (inp : List (List RawPt)) (closed : List Bool) (r : List (List RawPt))
    (pts : List RawPt) : Scene :=
  let all := (inp ++ r).foldr (fun c acc => rawExps c ++ acc) (rawExps pts)
  let e0 := minExp (lo :: hi :: low :: hiw :: all)
  let l := scaleDown e0 lo
  let h := scaleUp e0 hi
  let lw := scaleDown e0 low
  let hw := scaleUp e0 hiw
  let polys := inp.map (·.map (toI e0))
  { chains := (polys.zip closed).map (fun pc => chainOf pc.2 pc.1), inPoly := polys,
    R := r.map (·.map (toI e0)), pts := pts.map (toI e0),
    lo2 := if l ≤ 0 then 0 else l * l, hi2 := h * h,
    lo2w := if lw ≤ 0 then 0 else lw * lw, hi2w := hw * hw }

/-- Stroke: `dist < lo ⇒ filled` (unless flag bit 0), `dist > hi ⇒ not filled` (unless flag bit 1).
Flag bit 2 only names the class of a failure: the point is within `√(1+limit²)·w/2` of the vertex of a
clipping join (regression class of the miter-clip fraction repaired in /repo 95736b2). -/
def checkStroke (s : Scene) (flags : List Nat) : String := Id.run do
  let mut nearOk := 0
  let mut farOk := 0
  let mut skipped := 0
  let mut idx := 0
  for (p, f) in s.pts.zip flags do
    let filled := Rule.nonZero.fills (wn p s.R)
    if f % 2 == 0 && nearPath p s.lo2 s.chains then
      if !filled then
        let cls := if nearPath p s.lo2w s.chains then "hole" else "hole-within-global-Tolerance"
        return s!"FAIL {cls} pt={idx} wnR={wn p s.R}"
      nearOk := nearOk + 1
    else if (f / 2) % 2 == 0 && farPath p s.hi2 s.chains then
      if filled then
        let cls := if (f / 4) % 2 == 1 then "spurious-beyond-miter-limit"
          else if farPath p s.hi2w s.chains then "spurious" else "spurious-within-global-Tolerance"
        return s!"FAIL {cls} pt={idx} wnR={wn p s.R}"
      farOk := farOk + 1
    else
      skipped := skipped + 1
    idx := idx + 1
  return s!"ok near={nearOk} far={farOk} skipped={skipped}"

/-- Offset of a closed contour. grow: `inside ∨ dist < lo ⇒ filled`, `outside ∧ dist > hi ⇒ not filled`;
shrink: `inside ∧ dist > hi ⇒ filled`, `outside ∨ dist < lo ⇒ not filled`. -/
def checkOffset (grow : Bool) (s : Scene) (flags : List Nat) : String := Id.run do
  let mut inOk := 0
  let mut outOk := 0
  let mut skipped := 0
  let mut idx := 0
  for (p, f) in s.pts.zip flags do
    let filled := Rule.nonZero.fills (wn p s.R)
    let inside := Rule.nonZero.fills (wn p s.inPoly)
    let near := nearPath p s.lo2 s.chains
    let far := farPath p s.hi2 s.chains
    let expect : Option Bool :=
      if f != 0 then none
      else if grow then
        (if inside || near then some true else if far then some false else none)
      else
        (if inside && far then some true else if !inside || near then some false else none)
    match expect with
    | some true =>
      if !filled then
        let cls := if (grow && (inside || nearPath p s.lo2w s.chains)) || (!grow && farPath p s.hi2w s.chains)
          then "offset-hole" else "offset-hole-within-global-Tolerance"
        return s!"FAIL {cls} pt={idx} wnR={wn p s.R} wnIn={wn p s.inPoly}"
      inOk := inOk + 1
    | some false =>
      if filled then
        let cls := if (grow && farPath p s.hi2w s.chains) || (!grow && (!inside || nearPath p s.lo2w s.chains))
          then "offset-spurious" else "offset-spurious-within-global-Tolerance"
        return s!"FAIL {cls} pt={idx} wnR={wn p s.R} wnIn={wn p s.inPoly}"
      outOk := outOk + 1
    | none => skipped := skipped + 1
    idx := idx + 1
  return s!"ok in={inOk} out={outOk} skipped={skipped}"

def parseNats : Nat → List String → Option (List Nat × List String)
  | 0, ts => some ([], ts)
  | n + 1, t :: ts => do
    let v ← t.toNat?
    let (r, ts') ← parseNats n ts
    pure (v :: r, ts')
  | _, _ => none

/-- common tail: `IN <poly> CL c…  R <poly> PTS <m> x y … FL f…` -/
def parseScene (lo hi low hiw : Int × Int) (ts : List String) : Option (Scene × List Nat) := do
  let ts ← (match ts with | "IN" :: t => some t | _ => none)
  let (inp, ts) ← parsePoly ts
  let ts ← (match ts with | "CL" :: t => some t | _ => none)
  let (cl, ts) ← parseNats inp.length ts
  let ts ← (match ts with | "R" :: t => some t | _ => none)
  let (r, ts) ← parsePoly ts
  match ts with
  | "PTS" :: m :: ts => do
    let m ← m.toNat?
    let (pts, ts) ← parsePts m ts
    let ts ← (match ts with | "FL" :: t => some t | _ => none)
    let (fl, _) ← parseNats m ts
    pure (mkScene lo hi low hiw inp (cl.map (· != 0)) r pts, fl)
  | _ => none

/--
  STROKE <lo> <hi> <lo-wide> <hi-wide> IN <poly> CL c… R <poly> PTS <m> x y … FL f…
  OFFSET <grow> <lo> <hi> <lo-wide> <hi-wide> IN <poly> CL c… R <poly> PTS <m> x y … FL f…
-/
def handleRegion : List String → Option String
  | "STROKE" :: lo :: hi :: low :: hiw :: ts => do
    let lo ← parseRaw lo
    let hi ← parseRaw hi
    let low ← parseRaw low
    let hiw ← parseRaw hiw
    let (s, fl) ← parseScene lo hi low hiw ts
    pure (checkStroke s fl)
  | "OFFSET" :: grow :: lo :: hi :: low :: hiw :: ts => do
    let lo ← parseRaw lo
    let hi ← parseRaw hi
    let low ← parseRaw low
    let hiw ← parseRaw hiw
    let (s, fl) ← parseScene lo hi low hiw ts
    pure (checkOffset (grow == "1") s fl)
  | _ => none

end Canvas.C04
