import CanvasModel.Region
import CanvasGen.SweepF
/-!
C01 L2 model: the winding bookkeeping of `computeSweepFields` over a *column* (the segments that
cross one vertical line, bottom to top). The Go code walks `prev` pointers; in a column `prev` is
the element directly below, so the pointer chain is the list of already processed segments,
nearest first.
-/
namespace Canvas.C01

structure Seg where
  clipping : Bool
  vertical : Bool
  increasing : Bool
  open_ : Bool
deriving Repr, DecidableEq

structure Fields where
  w : Int      -- windings
  ow : Int     -- otherWindings
  sw : Int     -- selfWindings
  osw : Int    -- otherSelfWindings
deriving Repr, DecidableEq

/-- `if !cur.open { selfWindings = ±1 }` — open segments keep the zero value -/
def selfW (s : Seg) : Int := if s.open_ then 0 else if s.increasing then 1 else -1

/-- `for prev != nil && prev.vertical { prev = prev.prev }` -/
def firstNonVertical : List (Seg × Fields) → Option (Seg × Fields)
  | [] => none
  | (s, f) :: rest => if s.vertical then firstNonVertical rest else some (s, f)

/-- the winding part of computeSweepFields; `below` = processed segments, nearest first -/
def compute (below : List (Seg × Fields)) (cur : Seg) : Fields :=
  match firstNonVertical below with
  | some (p, f) =>
    if cur.clipping = p.clipping then { w := f.w + f.sw, ow := f.ow + f.osw, sw := selfW cur, osw := 0 }
    else { w := f.ow + f.osw, ow := f.w + f.sw, sw := selfW cur, osw := 0 }
  | none => { w := 0, ow := 0, sw := selfW cur, osw := 0 }

/-- process a column bottom to top; the result lists the segments top first -/
def foldColumn (col : List Seg) : List (Seg × Fields) :=
  col.foldl (fun acc s => (s, compute acc s) :: acc) []

def b01 (s : String) : Bool := s == "1"

def parseSegs : List String → Option (List Seg)
  | [] => some []
  | a :: b :: c :: d :: rest => (parseSegs rest).map (fun l => ⟨b01 a, b01 b, b01 c, b01 d⟩ :: l)
  | _ => none

/-- `COL op rule {clip vert incr open}*` → per segment (bottom to top) `w ow inResult` -/
def handleCol : List String → Option String
  | op :: rule :: rest => do
    let op ← op.toInt?
    let rule ← rule.toInt?
    let segs ← parseSegs rest
    let res := (foldColumn segs).reverse
    let toks := res.map fun (s, f) =>
      let r := GenF.SweepPoint.InResult
        ({ clipping := s.clipping, open_ := s.open_, windings := f.w, otherWindings := f.ow,
           selfWindings := f.sw, otherSelfWindings := f.osw } : GenF.SweepPoint Float) op rule
      s!"{f.w} {f.ow} {r}"
    pure (String.intercalate " " toks)
  | _ => none

def handle : List String → Option String
  | "COL" :: rest => handleCol rest
  | "REGION" :: rest => Canvas.Region.handle rest
  | _ => none

end Canvas.C01
