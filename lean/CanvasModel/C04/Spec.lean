import CanvasModel.C04
/-!
# C04 — exact specification of the stroked region of a FLAT path

What the property demands and allows at a query point is decided here, in exact integer arithmetic on
the decoded float64 coordinates (one common dyadic scale; lengths `lo = w/2 − band`, `hi = w/2 + band`,
`hw`, `band` rounded to the safe side). No square root is taken: every condition involving the length
of a segment is brought to a comparison of squares.

Drawn primitives (what the stroker must fill, shrunk by the band):
* the slab of a segment: foot of the perpendicular at least `band` inside the segment, distance `< lo`;
* at a join vertex, inside the wedge between the two end normals on the outer side of the bend:
  the bevel triangle (every joiner), the sector of radius `lo` (Round), the kite between the two offset
  lines (unclipped Miter / MiterClip / Arcs / ArcsClip between straight segments);
* at an open end: the half disc of radius `lo` beyond the end (Round and Square caps).
Allowances (what it may fill beyond `hi`): the square of a Square cap, the disc of radius
`limit·w/2 + band` around the vertex of a miter-type join, and for clipping joiners the cut miter
(at most `limit·w/2 + band` along the bisector). Beyond the cut of a Butt cap nothing is demanded.
-/
namespace Canvas.C04.Spec
open Canvas.Wn Canvas.C04

def sq (x : Int) : Int := x * x
def idot (ax ay bx «by» : Int) : Int := ax * bx + ay * «by»
def icross (ax ay bx «by» : Int) : Int := ax * «by» - ay * bx

/-- `a·√x > b` for `x ≥ 0`, exactly -/
def sqrtGt (a x b : Int) : Bool :=
  if a ≥ 0 then decide (b < 0 ∨ a * a * x > b * b) else decide (b < 0 ∧ a * a * x < b * b)

/-- `v < r·√l` for `r ≥ 0`, `l ≥ 0`: v is negative or `v² < r²·l` -/
def ltRadius (v r l : Int) : Bool := decide (v < 0 ∨ v * v < r * r * l)

/-- `v ≤ r·√l` for `r ≥ 0` -/
def leRadius (v r l : Int) : Bool := decide (v ≤ 0 ∨ v * v ≤ r * r * l)

/-- `v ≥ r·√l` for `r ≥ 0` -/
def geRadius (v r l : Int) : Bool := decide (0 ≤ v ∧ r * r * l ≤ v * v)

/-- the slab of segment `ab`, `band` inside both ends, perpendicular distance below `lo` -/
def inSlab (p a b : IPt) (lo band : Int) : Bool :=
  let abx := b.x - a.x; let aby := b.y - a.y
  let apx := p.x - a.x; let apy := p.y - a.y
  let l2 := abx * abx + aby * aby
  let t := idot apx apy abx aby
  let c := icross abx aby apx apy
  decide (0 < lo) && geRadius t band l2 && geRadius (l2 - t) band l2 && decide (c * c < lo * lo * l2)

/-- the wedge at `v` between the end normal of `a→v` and the start normal of `v→b`
(beyond the end of the first segment, before the start of the second) -/
def inWedge (p a v b : IPt) : Bool :=
  decide (0 ≤ idot (p.x - v.x) (p.y - v.y) (v.x - a.x) (v.y - a.y)) &&
  decide (idot (p.x - v.x) (p.y - v.y) (b.x - v.x) (b.y - v.y) ≤ 0)

def inDisc (p v : IPt) (r : Int) : Bool :=
  decide (0 < r) && decide (sq (p.x - v.x) + sq (p.y - v.y) < r * r)

/-- outer normal direction (not normalised) of direction `d` at a bend with turning sign `cr` -/
def outerNormal (dx dy cr : Int) : Int × Int := if cr > 0 then (dy, -dx) else (-dy, dx)

/-- Bevel triangle `(0, lo·N0, lo·N1)` with `N_i = r_i/|r_i|`: `q = (A·r0 + B·r1)/|C|`, `C = r0 × r1`,
`A, B ≥ 0` and `A·|r0| + B·|r1| < lo·|C|` (brought to squares). -/
def bevelCore (qx qy r0x r0y r1x r1y lo : Int) : Bool :=
  let l0 := r0x * r0x + r0y * r0y
  let l1 := r1x * r1x + r1y * r1y
  let cc := icross r0x r0y r1x r1y
  let sg : Int := if cc > 0 then 1 else -1
  let A := sg * icross qx qy r1x r1y
  let B := sg * icross r0x r0y qx qy
  let D := lo * lo * (cc * cc) - A * A * l0 - B * B * l1
  decide (cc ≠ 0) && decide (0 < lo) && decide (0 ≤ A) && decide (0 ≤ B) && decide (0 < D) &&
    decide (4 * (A * A) * (B * B) * (l0 * l1) < D * D)

def inBevel (p a v b : IPt) (lo : Int) : Bool :=
  let d0x := v.x - a.x; let d0y := v.y - a.y
  let d1x := b.x - v.x; let d1y := b.y - v.y
  let cr := icross d0x d0y d1x d1y
  let r0 := outerNormal d0x d0y cr
  let r1 := outerNormal d1x d1y cr
  bevelCore (p.x - v.x) (p.y - v.y) r0.1 r0.2 r1.1 r1.2 lo

/-- the kite of an unclipped miter: inside the wedge and below both outer offset lines -/
def inKite (p a v b : IPt) (lo : Int) : Bool :=
  let d0x := v.x - a.x; let d0y := v.y - a.y
  let d1x := b.x - v.x; let d1y := b.y - v.y
  let cr := icross d0x d0y d1x d1y
  let r0 := outerNormal d0x d0y cr
  let r1 := outerNormal d1x d1y cr
  let qx := p.x - v.x; let qy := p.y - v.y
  decide (cr ≠ 0) && decide (0 < lo) && inWedge p a v b &&
    ltRadius (idot qx qy r0.1 r0.2) lo (d0x * d0x + d0y * d0y) &&
    ltRadius (idot qx qy r1.1 r1.2) lo (d1x * d1x + d1y * d1y)

/-- the miter is surely not clipped: `lim²(1 + N0·N1) > 2(1 + 2⁻²⁰)` with `lim = limN/limD` -/
def unclipped (a v b : IPt) (limN limD : Int) : Bool :=
  let d0x := v.x - a.x; let d0y := v.y - a.y
  let d1x := b.x - v.x; let d1y := b.y - v.y
  let l0 := d0x * d0x + d0y * d0y
  let l1 := d1x * d1x + d1y * d1y
  -- N0·N1 = d0·d1/√(l0 l1);  limN²·K·(√X + R) > 2·limD²·(K+1)·√X,  X = l0·l1, R = d0·d1
  let K : Int := 1048576
  let R := idot d0x d0y d1x d1y
  sqrtGt (limN * limN * K - 2 * limD * limD * (K + 1)) (l0 * l1) (-(limN * limN * K * R))

structure Style where
  cap : Nat
  join : Nat
  limN : Int
  limD : Int

/-- what the joiner must fill at join vertex `v` (previous `a`, next `b`) -/
def joinFilled (st : Style) (p a v b : IPt) (lo : Int) : Bool :=
  if st.join == 1 then inWedge p a v b && inDisc p v lo
  else inBevel p a v b lo || (st.join ≥ 2 && unclipped a v b st.limN st.limD && inKite p a v b lo)

/-- half disc beyond the open end `v` (neighbour `a`) — Round and Square caps -/
def capFilled (st : Style) (p a v : IPt) (lo : Int) : Bool :=
  st.cap != 0 && inDisc p v lo &&
    decide (0 ≤ idot (p.x - v.x) (p.y - v.y) (v.x - a.x) (v.y - a.y))

/-- beyond the cut of a Butt cap at the open end `v`: nothing is demanded there -/
def beyondButtCut (st : Style) (p a v : IPt) (hi band : Int) : Bool :=
  let ux := v.x - a.x; let uy := v.y - a.y
  let al := idot (p.x - v.x) (p.y - v.y) ux uy
  st.cap == 0 && decide (0 ≤ al ∨ al * al ≤ band * band * (ux * ux + uy * uy)) &&
    decide (sq (p.x - v.x) + sq (p.y - v.y) ≤ hi * hi)

/-- inside the square of a Square cap (grown by the band) -/
def inSquareCap (st : Style) (p a v : IPt) (hi band : Int) : Bool :=
  let ux := v.x - a.x; let uy := v.y - a.y
  let lu := ux * ux + uy * uy
  let al := idot (p.x - v.x) (p.y - v.y) ux uy
  let cx := icross (p.x - v.x) (p.y - v.y) ux uy
  st.cap == 2 && decide (0 ≤ al ∨ al * al ≤ band * band * lu) && leRadius al hi lu &&
    decide (cx * cx ≤ hi * hi * lu)

/-- within `limit·hw + band` of a miter-type join vertex -/
def inMiterDisc (st : Style) (p v : IPt) (hw band : Int) : Bool :=
  let r := st.limN * hw + band * st.limD
  st.join ≥ 2 && decide ((sq (p.x - v.x) + sq (p.y - v.y)) * st.limD * st.limD ≤ r * r)

/-- `a·√y + b·√x ≤ 0` for `x, y ≥ 0`, exactly -/
def radSumNonpos (a x b y : Int) : Bool :=
  if a ≤ 0 ∧ b ≤ 0 then true
  else if a > 0 ∧ b > 0 then false
  else if a > 0 then decide (a * a * y ≤ b * b * x)
  else decide (b * b * x ≤ a * a * y)

/-- the component of `q` along the unit bisector of `N0 = r0/|r0|`, `N1 = r1/|r1|` is at most `Rn/Rd`:
`q·(N0+N1) ≤ (Rn/Rd)·|N0+N1|`, brought to one radical `√(|r0|²|r1|²)` -/
def bisectorLe (qx qy r0x r0y r1x r1y Rn Rd : Int) : Bool :=
  let x := r0x * r0x + r0y * r0y
  let y := r1x * r1x + r1y * r1y
  let a := idot qx qy r0x r0y
  let b := idot qx qy r1x r1y
  let c := idot r0x r0y r1x r1y
  radSumNonpos a x b y ||
    !(sqrtGt (2 * a * b * Rd * Rd - 2 * Rn * Rn * c) (x * y)
        (2 * Rn * Rn * (x * y) - (a * a * y + b * b * x) * Rd * Rd))

/-- the cut miter of a clipping joiner (MiterClip / ArcsClip): in the cone of the two outer normals,
below both outer offset lines (grown to `hi`) and at most `limit·hw + band` from the vertex ALONG THE
BISECTOR — the cut corners lie off the bisector, outside the disc of `inMiterDisc` -/
def inClipCut (st : Style) (p a v b : IPt) (hi hw band : Int) : Bool :=
  let d0x := v.x - a.x; let d0y := v.y - a.y
  let d1x := b.x - v.x; let d1y := b.y - v.y
  let cr := icross d0x d0y d1x d1y
  let r0 := outerNormal d0x d0y cr
  let r1 := outerNormal d1x d1y cr
  let qx := p.x - v.x; let qy := p.y - v.y
  let cc := icross r0.1 r0.2 r1.1 r1.2
  let sg : Int := if cc > 0 then 1 else -1
  (st.join == 3 || st.join == 5) && decide (cr ≠ 0) &&
    decide (0 ≤ sg * icross qx qy r1.1 r1.2) && decide (0 ≤ sg * icross r0.1 r0.2 qx qy) &&
    leRadius (idot qx qy r0.1 r0.2) hi (d0x * d0x + d0y * d0y) &&
    leRadius (idot qx qy r1.1 r1.2) hi (d1x * d1x + d1y * d1y) &&
    bisectorLe qx qy r0.1 r0.2 r1.1 r1.2 (st.limN * hw + band * st.limD) st.limD

/-- names the regression class of the miter-clip fraction (repaired in /repo 95736b2): within
`√(1+limit²)·(hw + band)` of the vertex of a clipping join -/
def inClipZone (st : Style) (p v : IPt) (hw band : Int) : Bool :=
  (st.join == 3 || st.join == 5) &&
    decide ((sq (p.x - v.x) + sq (p.y - v.y)) * st.limD * st.limD
      ≤ (st.limD * st.limD + st.limN * st.limN) * sq (hw + band))

/-! ### one contour -/

def segPairs (closed : Bool) (c : List IPt) : List (IPt × IPt) :=
  match c with
  | [] => []
  | a :: _ => if closed then c.zip (c.tail ++ [a]) else c.zip c.tail

/-- (previous, vertex, next) at every join vertex -/
def joinTriples (closed : Bool) (c : List IPt) : List (IPt × IPt × IPt) :=
  match c with
  | [] => []
  | [_] => []
  | a :: b :: rest =>
    let inner := (c.zip ((b :: rest).zip rest)).map fun t => (t.1, t.2.1, t.2.2)
    if closed then
      let last := (b :: rest).getLast?.getD b
      (last, a, b) :: inner ++
        (match (a :: b :: rest).reverse with
         | z :: y :: _ => [(y, z, a)]
         | _ => [])
    else inner

/-- (neighbour, end vertex) at the open ends -/
def endPairs (closed : Bool) (c : List IPt) : List (IPt × IPt) :=
  if closed then [] else
  match c with
  | a :: b :: _ =>
    (match c.reverse with
     | z :: y :: _ => [(b, a), (y, z)]
     | _ => [(b, a)])
  | _ => []

structure Geo where
  segs : List (IPt × IPt)
  joins : List (IPt × IPt × IPt)
  ends : List (IPt × IPt)

def geoOf (cs : List (List IPt × Bool)) : Geo :=
  { segs := cs.flatMap fun c => segPairs c.2 c.1
    joins := cs.flatMap fun c => joinTriples c.2 c.1
    ends := cs.flatMap fun c => endPairs c.2 c.1 }

structure Lens where
  lo : Int
  hi : Int
  hw : Int
  band : Int

/-- the point lies in a primitive the stroker must fill -/
def mustFill (st : Style) (g : Geo) (L : Lens) (p : IPt) : Bool :=
  (g.segs.any fun s => inSlab p s.1 s.2 L.lo L.band) ||
  (g.joins.any fun t => joinFilled st p t.1 t.2.1 t.2.2 L.lo) ||
  (g.ends.any fun e => capFilled st p e.1 e.2 L.lo)

def exemptNear (st : Style) (g : Geo) (L : Lens) (p : IPt) : Bool :=
  g.ends.any fun e => beyondButtCut st p e.1 e.2 L.hi L.band

/-- the point lies where the property allows area beyond `hi` -/
def mayFill (st : Style) (g : Geo) (L : Lens) (p : IPt) : Bool :=
  (g.ends.any fun e => inSquareCap st p e.1 e.2 L.hi L.band) ||
  (g.joins.any fun t => inMiterDisc st p t.2.1 L.hw L.band || inClipCut st p t.1 t.2.1 t.2.2 L.hi L.hw L.band)

def clipZone (st : Style) (g : Geo) (L : Lens) (p : IPt) : Bool :=
  g.joins.any fun t => inClipZone st p t.2.1 L.hw L.band

/-- flags in the format of `checkStroke`: bit 0 nothing demanded, bit 1 area allowed, bit 2 clip zone -/
def flagOf (st : Style) (g : Geo) (L : Lens) (p : IPt) : Nat :=
  (if mustFill st g L p && !exemptNear st g L p then 0 else 1) +
  (if mayFill st g L p then 2 else 0) + (if clipZone st g L p then 4 else 0)

/-! ### protocol -/
open Canvas.Region

/-- `max(limit, 1.001)` of a dyadic `m·2^e` as a fraction -/
def effLimitFrac (v : Int × Int) : Int × Int :=
  let (n, d) : Int × Int := if v.2 ≥ 0 then (v.1 * (2 : Int) ^ v.2.toNat, 1) else (v.1, (2 : Int) ^ (-v.2).toNat)
  if n * 1000 < 1001 * d then (1001, 1000) else (n, d)

/--
  STROKEX <cap> <join> <limit> <hw> <band> <lo> <hi> <lo-wide> <hi-wide> IN <poly> CL c… R <poly> PTS <m> x y … FL f…
(the FL block is ignored: the flags are computed here)
-/
def handle : List String → Option String
  | "STROKEX" :: cap :: join :: limit :: hw :: band :: lo :: hi :: low :: hiw :: ts => do
    let cap ← cap.toNat?
    let join ← join.toNat?
    let limit ← parseRaw limit
    let hw ← parseRaw hw
    let band ← parseRaw band
    let lo ← parseRaw lo
    let hi ← parseRaw hi
    let low ← parseRaw low
    let hiw ← parseRaw hiw
    let ts ← (match ts with | "IN" :: t => some t | _ => none)
    let (inp, ts) ← parsePoly ts
    let ts ← (match ts with | "CL" :: t => some t | _ => none)
    let (cl, ts) ← parseNats inp.length ts
    let ts ← (match ts with | "R" :: t => some t | _ => none)
    let (r, ts) ← parsePoly ts
    match ts with
    | "PTS" :: m :: ts => do
      let m ← m.toNat?
      let (pts, _) ← parsePts m ts
      let all := (inp ++ r).foldr (fun c acc => rawExps c ++ acc) (rawExps pts)
      let e0 := minExp (lo :: hi :: low :: hiw :: hw :: band :: all)
      let closed := cl.map (· != 0)
      let polys := inp.map (·.map (toI e0))
      let l := scaleDown e0 lo
      let h := scaleUp e0 hi
      let lw := scaleDown e0 low
      let hwd := scaleUp e0 hiw
      let scene : Scene :=
        { chains := (polys.zip closed).map (fun pc => chainOf pc.2 pc.1), inPoly := polys,
          R := r.map (·.map (toI e0)), pts := pts.map (toI e0),
          lo2 := if l ≤ 0 then 0 else l * l, hi2 := h * h,
          lo2w := if lw ≤ 0 then 0 else lw * lw, hi2w := hwd * hwd }
      let lim := effLimitFrac limit
      let st : Style := ⟨cap, join, lim.1, lim.2⟩
      let L : Lens := ⟨l, h, scaleUp e0 hw, scaleUp e0 band⟩
      let g := geoOf (polys.zip closed)
      pure (checkStroke scene (scene.pts.map (flagOf st g L)))
    | _ => none
  | _ => none

end Canvas.C04.Spec
