import CanvasModel.C06Ray
/-!
C06 L2 model of `Path.CCW` and `Path.Filling` on FLAT subpaths in exact arithmetic.

`CCW` (after 8818971/8ff4e86): the bottom-right-most vertex is searched among the MoveTo/LineTo end
points (Close is not a candidate), a last vertex equal to the start falls back to the start, then
the angle of the direction back along the previous segment is compared with the angle of the next
segment, both in [0,2π). Angles of integer vectors are compared exactly (half plane + cross
product). When the two directions coincide the real code compares two floating-point angles that
differ by rounding noise only: the model answers `none` (not judged).
Zero vectors are modelled as the code treats them: `Point{}.Angle() = 0`. For an open subpath that
starts at its bottom-right-most vertex the previous direction is the implicit closing segment (373703b).
-/
namespace Canvas.C06
open Canvas.Wn

def vsub (a b : IPt) : IPt := ⟨a.x - b.x, a.y - b.y⟩
def cross (a b : IPt) : Int := a.x * b.y - a.y * b.x
def dotp (a b : IPt) : Int := a.x * b.x + a.y * b.y

/-- the candidate v replaces the best so far: further right, or as far right and lower -/
def better (best v : IPt) : Bool := best.x < v.x || (best.x == v.x && v.y < best.y)

/-- the search loop: remaining vertices, their index, best index and best vertex so far -/
def extremeGo : List IPt → Nat → Nat → IPt → Nat
  | [], _, k, _ => k
  | v :: rest, j, k, bv => if better bv v then extremeGo rest (j + 1) j v else extremeGo rest (j + 1) k bv

def extreme (vs : List IPt) : Nat :=
  match vs with
  | [] => 0
  | v0 :: rest => extremeGo rest 1 0 v0

/-- upper half plane incl. the positive x axis: angle in [0,π) (the zero vector has angle 0) -/
def upper (d : IPt) : Bool := decide (0 < d.y) || (d.y == 0 && decide (0 ≤ d.x))

/-- angle d2 < angle d1, both in [0,2π) (zero vector = angle 0) -/
def angLt (d2 d1 : IPt) : Bool :=
  let d2 := if d2 = ⟨0, 0⟩ then ⟨1, 0⟩ else d2
  let d1 := if d1 = ⟨0, 0⟩ then ⟨1, 0⟩ else d1
  if upper d2 != upper d1 then upper d2 else decide (0 < cross d2 d1)

/-- same direction: the floating-point angles are equal up to rounding noise -/
def sameDir (d2 d1 : IPt) : Bool :=
  let d2 := if d2 = ⟨0, 0⟩ then ⟨1, 0⟩ else d2
  let d1 := if d1 = ⟨0, 0⟩ then ⟨1, 0⟩ else d1
  cross d2 d1 == 0 && decide (0 < dotp d2 d1)

structure Corner where
  k : Nat        -- index of the chosen vertex
  back : IPt     -- direction from the vertex back along the previous segment (u − v)
  next : IPt     -- direction of the next segment (w − v)
deriving Repr, DecidableEq

def neg (d : IPt) : IPt := ⟨-d.x, -d.y⟩

/-- the corner `CCW` looks at. `vs` are the MoveTo/LineTo end points of a single subpath. -/
def corner (closed : Bool) (vs : List IPt) : Corner :=
  let m := vs.length
  let v0 := vs.getD 0 ⟨0, 0⟩
  let vl := vs.getD (m - 1) ⟨0, 0⟩
  let k0 := extreme vs
  let k := if k0 == m - 1 && closed && decide (vl = v0) then 0 else k0
  let v := vs.getD k ⟨0, 0⟩
  -- `direction(kPrev, 1.0)` reversed
  let back : IPt :=
    if k == 0 then
      if closed then
        (if vl = v0 then vsub (vs.getD (m - 2) ⟨0, 0⟩) vl   -- point-closed: the last LineTo
         else vsub vl v0)                                      -- the Close segment
      else
        -- open (373703b): the implicit closing segment, from the last point to the start; drawn back
        -- to the start point (27144db): the last real segment, as for a point-closed subpath
        (if vl = v0 then vsub (vs.getD (m - 2) ⟨0, 0⟩) vl else vsub vl v0)
    else vsub (vs.getD (k - 1) ⟨0, 0⟩) v
  let next : IPt := if k == m - 1 then vsub v0 v else vsub (vs.getD (k + 1) ⟨0, 0⟩) v
  ⟨k, back, next⟩

/-- `Path.CCW` of a flat subpath; `none`: same direction (rounding noise decides in the code) -/
def ccwFlat (closed : Bool) (vs : List IPt) : Option Bool :=
  -- empty path or a single straight segment
  if vs.length - 1 + (if closed then 1 else 0) ≤ 1 then some true
  else
    let c := corner closed vs
    if sameDir c.next c.back then none else some (angLt c.next c.back)

inductive FOut where
  | ok (l : List Bool)
  | degenerate
deriving Repr, DecidableEq

/-- `Close()` on a copy of an open subpath (baea187): a last point equal to the start becomes the
Close command itself -/
def closedVerts (vs : List IPt) : List IPt :=
  if vs.length > 1 ∧ vs.getLast? = vs.head? then vs.dropLast else vs

/-- inner loop of `Filling`: windings of the other subpaths (open ones closed) at `pos` (boundary
ones not added) -/
def othersGo (pos : IPt) (i : Nat) : List Sub → Nat → Int → Int
  | [], _, n => n
  | s :: rest, j, n =>
    if i == j then othersGo pos i rest (j + 1) n
    else match windingsSub true pos (if s.1 then s.2 else closedVerts s.2) with
      | .ok ni bi => othersGo pos i rest (j + 1) (if bi then n else n + ni)

def fillingGo (rule : Rule) (all : List Sub) : List Sub → Nat → List Bool → FOut
  | [], _, acc => .ok acc.reverse
  | s :: rest, i, acc =>
    match ccwFlat s.1 s.2 with
    | none => .degenerate
    | some c =>
      fillingGo rule all rest (i + 1)
        (rule.fills (othersGo (s.2.getD 0 ⟨0, 0⟩) i all 0 (if c then 1 else -1)) :: acc)

/-- `Path.Filling` on flat subpaths -/
def fillingFlat (rule : Rule) (subs : List Sub) : FOut := fillingGo rule subs subs 0 []

/-! ### exact specification side: simple contours, orientation by area -/

/-- closed segments ab and cd have a common point (exact) -/
def segsTouch (a b c d : IPt) : Bool :=
  let d1 := sgn (isLeft a b c); let d2 := sgn (isLeft a b d)
  let d3 := sgn (isLeft c d a); let d4 := sgn (isLeft c d b)
  let within (a b p : IPt) : Bool :=
    decide (min a.x b.x ≤ p.x ∧ p.x ≤ max a.x b.x ∧ min a.y b.y ≤ p.y ∧ p.y ≤ max a.y b.y)
  (d1 * d2 < 0 && d3 * d4 < 0)
    || (d1 == 0 && within a b c) || (d2 == 0 && within a b d)
    || (d3 == 0 && within c d a) || (d4 == 0 && within c d b)

def closedEdges (c : List IPt) : List (IPt × IPt) :=
  match c with
  | [] => []
  | a :: _ => c.zip (c.tail ++ [a])

/-- simple polygon: ≥ 3 vertices, no zero-length edge, adjacent edges meet only in their common
vertex (no spike), non-adjacent edges do not touch -/
def isSimple (c : List IPt) : Bool := Id.run do
  let es := (closedEdges c).toArray
  let n := es.size
  if n < 3 then return false
  for i in [0:n] do
    let (a, b) := es[i]!
    if a == b then return false
    let (_, c2) := es[(i + 1) % n]!
    -- spike: next edge folds back over this one
    if isLeft a b c2 == 0 && dotp (vsub a b) (vsub c2 b) > 0 then return false
    for j in [i+2:n] do
      if i == 0 && j == n - 1 then continue
      let (c1, d1) := es[j]!
      if segsTouch a b c1 d1 then return false
  return true

/-- no edge of c1 touches an edge of c2 -/
def disjointContours (c1 c2 : List IPt) : Bool :=
  (closedEdges c1).all fun e => (closedEdges c2).all fun f => !segsTouch e.1 e.2 f.1 f.2

end Canvas.C06
