import CanvasModel.Prelude
/-!
# C15 — hand-written (L2) model of `Context` and `Canvas` (/repo/canvas.go)

The model is generic in the scalar type `α`: all arithmetic and all matrix/rectangle functions are
taken from a record `Ops α`.  The driver instantiates it with `Float` and the *generated* `GenF`
translations of /repo/util.go (bit-exact correspondence with the real code); the proofs instantiate
it with the generated `GenK` definitions over an arbitrary linearly ordered field.

Go slices are Lists, the Go map `layers map[int][]layer` is an association list in first-use order
(every consumer of the map is order independent or sorts the keys).  `Canvas.log` is a ghost field:
the recording-order list of all layers, used only to state `replay_order`.
Core Lean only (the driver is a compiled executable).
-/
namespace Canvas.C15

/-- scalar operations (Go float64 operators) -/
structure Arith (α : Type) where
  zero : α
  one : α
  two : α
  half : α               -- the literal 0.5
  neg : α → α
  add : α → α → α
  sub : α → α → α
  mul : α → α → α
  div : α → α → α
  lt : α → α → Bool
  le : α → α → Bool
  beq : α → α → Bool      -- Go `==`
  equal : α → α → Bool    -- util.go Equal (within Epsilon)
  trunc : α → α           -- float64(int(x))
  sqrt2 : α               -- math.Sqrt2
  c1001 : α               -- the literal 1.001
  fmax : α → α → α        -- math.Max
  hypot1 : α → α          -- math.Hypot(x, 1)

/-- scalar + matrix/rectangle operations (util.go) + `Path.checkDash` (path.go, owned by C05) -/
structure Ops (α : Type) extends Arith α where
  ident : Mat α
  mmul : Mat α → Mat α → Mat α
  dot : Mat α → Pt α → Pt α
  translate : Mat α → α → α → Mat α
  scale : Mat α → α → α → Mat α
  shear : Mat α → α → α → Mat α
  reflectX : Mat α → Mat α
  reflectY : Mat α → Mat α
  reflectXAbout : Mat α → α → Mat α
  reflectYAbout : Mat α → α → Mat α
  scaleAbout : Mat α → α → α → α → α → Mat α
  shearAbout : Mat α → α → α → α → α → Mat α
  rectTransform : Rct α → Mat α → Rct α
  rectAdd : Rct α → Rct α → Rct α
  /-- which capper identities are a `SquareCapper` -/
  isSquareCap : Nat → Bool
  /-- `Limit` of the joiner identities that are a `MiterJoiner` or `ArcsJoiner` with a finite limit -/
  joinLimit : Nat → Option α
  /-- which of those joiner identities clip (`GapJoiner == nil`: MiterClipJoin) -/
  joinClips : Nat → Bool
  /-- `p.checkDash(offset, dashes)` as a function of the path's length -/
  checkDash : α → List α → α → List α × Bool

/-! ## dash canonicalisation (value semantics; path.go dashCanonical/dashStart/checkDash) -/
section Dash
variable {α : Type} (a : Arith α)

/-- the loop "remove zeros except first and last": `prev = d[i-1]`, `rest = d[i:]` -/
def remZeros (prev : α) : List α → List α
  | [] => [prev]
  | [x] => [prev, x]
  | x :: y :: tl => if a.equal x a.zero then remZeros (a.add prev y) tl else prev :: remZeros x (y :: tl)

def addLast (v : α) : List α → List α
  | [] => []
  | [x] => [a.add x v]
  | x :: xs => x :: addLast v xs

def firstZero (off : α) (d : List α) : Option (α × List α) :=
  match d with
  | d0 :: d1 :: d2 :: tl =>
    if a.equal d0 a.zero then some (a.sub off d1, addLast a d1 (d2 :: tl)) else some (off, d)
  | d0 :: _ => if a.equal d0 a.zero then none else some (off, d)
  | [] => some (off, d)

def lastZero (off : α) (d : List α) : Option (α × List α) :=
  match d.getLast? with
  | none => some (off, d)
  | some l =>
    if a.equal l a.zero then
      if d.length < 3 then none
      else
        let s := d.getD (d.length - 2) a.zero
        match d.take (d.length - 2) with
        | d0 :: tl => some (a.add off s, a.add d0 s :: tl)
        | [] => none
    else some (off, d)

def halves (fuel : Nat) (d : List α) : List α :=
  match fuel with
  | 0 => d
  | fuel + 1 =>
    if d.length % 2 == 0 then
      let mid := d.length / 2
      if (List.zipWith a.equal (d.take mid) (d.drop mid)).all id then halves fuel (d.take mid) else d
    else d

/-- dashCanonical: (offset, d) -/
def dashCanonical (off : α) (d : List α) : α × List α :=
  match d with
  | [] => (a.zero, [])
  | d0 :: rest =>
    let d := remZeros a d0 rest
    match firstZero a off d with
    | none => (a.zero, [a.zero])
    | some (off, d) =>
      match lastZero a off d with
      | none => (a.zero, [])
      | some (off, d) =>
        if d.any (fun x => a.lt x a.zero || a.equal x a.zero) then (a.zero, [a.zero])
        else (off, halves a d.length d)

/-- dashStart; `none` = fuel exhausted (never on the generated inputs) -/
def dashStartLoop (d : List α) : Nat → Nat → α → Option (Nat × α)
  | 0, _, _ => none
  | fuel + 1, i, off =>
    let di := d.getD i a.zero
    if a.le di off then
      let i := if i + 1 == d.length then 0 else i + 1
      dashStartLoop d fuel i (a.sub off di)
    else some (i, off)

def dashStart (off : α) (d : List α) : Option (Nat × α) :=
  match dashStartLoop a d 1000000 0 off with
  | none => none
  | some (i, off) =>
    if a.lt off a.zero then some (i, a.neg (a.add (d.foldl a.add a.zero) off))
    else some (i, a.neg off)

/-- Path.checkDash as a function of the path length (`fmod` = math.Mod): the pattern is dropped
(solid stroke) when the first dash covers the whole path, the stroke when the first space does -/
def checkDashImpl (fmod : α → α → α) (off : α) (d : List α) (len : α) : List α × Bool :=
  let (off, d) := dashCanonical a off d
  if d.isEmpty then ([], true)
  else if d.length == 1 && a.beq (d.getD 0 a.zero) a.zero then ([], false)
  else
    -- dashes and spaces alternate: an odd pattern repeats after twice its length (as in Dash)
    let dd := if d.length % 2 == 1 then d ++ d else d
    let total := dd.foldl a.add a.zero
    let off := fmod off total
    let off := if a.lt off a.zero then a.add off total else off
    match dashStart a off dd with
    | none => ([], false)
    | some (i, pos) =>
      -- pos is minus the part of dd[i] that lies before the start
      if a.le len (a.add (dd.getD i a.zero) pos) then ([], i % 2 == 0) else (d, true)
end Dash

/-! ## state -/

inductive CoordSys | I | II | III | IV
deriving DecidableEq, Repr, Inhabited

def CoordSys.flipX : CoordSys → Bool
  | .II => true | .III => true | _ => false
def CoordSys.flipY : CoordSys → Bool
  | .III => true | .IV => true | _ => false

/-- Paint: colour (premultiplied RGBA bytes) + opaque gradient / pattern identity (0 = nil) -/
structure Paint where
  r : Nat
  g : Nat
  b : Nat
  a : Nat
  grad : Nat
  pat : Nat
deriving DecidableEq, Repr, Inhabited

def Paint.none : Paint := ⟨0, 0, 0, 0, 0, 0⟩
def Paint.color (r g b a : Nat) : Paint := ⟨r, g, b, a, 0, 0⟩
def Paint.has (p : Paint) : Bool := p.a != 0 || p.grad != 0 || p.pat != 0

structure Style (α : Type) where
  fill : Paint
  stroke : Paint
  width : α
  cap : Nat
  join : Nat
  dashOff : α
  dashes : List α
  rule : Nat

variable {α : Type}

def defaultStyle (o : Ops α) : Style α :=
  { fill := Paint.color 0 0 0 255, stroke := Paint.none, width := o.one, cap := 0, join := 0,
    dashOff := o.zero, dashes := [], rule := 0 }

def Style.hasFill (s : Style α) : Bool := s.fill.has
def Style.hasStroke (o : Ops α) (s : Style α) : Bool := s.stroke.has && o.lt o.zero s.width

structure CState (α : Type) where
  style : Style α
  view : Mat α
  coordView : Mat α
  cs : CoordSys

/-- what the harness knows about a path object: identity, `Length()`, `Bounds()` -/
structure PathRef (α : Type) where
  id : Nat
  len : α
  bounds : Rct α
structure TextRef (α : Type) where
  id : Nat
  empty : Bool
  bounds : Rct α
/-- an image is identified by its pixel size -/
structure ImgRef (α : Type) where
  w : α
  h : α

inductive Item (α : Type)
  | path (p : PathRef α) (s : Style α)
  | text (t : TextRef α)
  | image (i : ImgRef α)

/-- one call received by a Renderer / one layer of a Canvas -/
structure Call (α : Type) where
  item : Item α
  m : Mat α

structure Canvas (α : Type) where
  layers : List (Int × List (Call α))
  z : Int
  W : α
  H : α
  log : List (Int × Call α)

structure Ctx (α : Type) where
  st : CState α
  stack : List (CState α)
  cv : Canvas α
  emitted : List (Call α)

def newCanvas (W H : α) : Canvas α := { layers := [], z := 0, W := W, H := H, log := [] }

def newContext (o : Ops α) (cv : Canvas α) : Ctx α :=
  { st := { style := defaultStyle o, view := o.ident, coordView := o.ident, cs := .I },
    stack := [], cv := cv, emitted := [] }

/-! ## Canvas -/

def assocAppend (z : Int) (c : Call α) : List (Int × List (Call α)) → List (Int × List (Call α))
  | [] => [(z, [c])]
  | (k, l) :: rest => if k = z then (k, l ++ [c]) :: rest else (k, l) :: assocAppend z c rest

def Canvas.render (cv : Canvas α) (c : Call α) : Canvas α :=
  { cv with layers := assocAppend cv.z c cv.layers, log := cv.log ++ [(cv.z, c)] }

def Call.pre (o : Ops α) (m : Mat α) (c : Call α) : Call α := { c with m := o.mmul m c.m }

def Canvas.transform (o : Ops α) (m : Mat α) (cv : Canvas α) : Canvas α :=
  { cv with layers := cv.layers.map (fun kl => (kl.1, kl.2.map (Call.pre o m))),
            log := cv.log.map (fun zc => (zc.1, Call.pre o m zc.2)) }

def Canvas.clip (o : Ops α) (r : Rct α) (cv : Canvas α) : Canvas α :=
  let cv := cv.transform o (o.translate o.ident (o.neg r.x0) (o.neg r.y0))
  { cv with W := o.sub r.x1 r.x0, H := o.sub r.y1 r.y0 }

def rectEmpty (o : Ops α) (r : Rct α) : Bool :=
  o.equal (o.sub r.x1 r.x0) o.zero || o.equal (o.sub r.y1 r.y0) o.zero

/-- how far `Fit` assumes the stroke to reach from the path: half the width, times √2 for square
caps (their corners), and at least `max(Limit, 1.001)` half-widths for miter/arcs joins (their tips),
`hypot(max(Limit, 1.001), 1)` for a clipping miter join (the corners of the cut) -/
def strokeExtent (o : Ops α) (s : Style α) : α :=
  let hw := o.div s.width o.two
  let hw := if o.isSquareCap s.cap then o.mul hw o.sqrt2 else hw
  match o.joinLimit s.join with
  | some lim =>
    let lim := o.fmax lim o.c1001
    -- the corners of a clipped miter lie up to one half width beside the bisector
    let lim := if o.joinClips s.join then o.hypot1 lim else lim
    o.fmax hw (o.div (o.mul lim s.width) o.two)
  | none => hw

def itemBounds (o : Ops α) : Item α → Rct α
  | .path p s =>
    if s.hasStroke o then
      let hw := strokeExtent o s
      ⟨o.sub p.bounds.x0 hw, o.sub p.bounds.y0 hw, o.add p.bounds.x1 hw, o.add p.bounds.y1 hw⟩
    else p.bounds
  | .text t => t.bounds
  | .image i => ⟨o.zero, o.zero, i.w, i.h⟩

def fitStep (o : Ops α) (rect : Rct α) (c : Call α) : Rct α :=
  if rectEmpty o (itemBounds o c.item) then rect
  else if rectEmpty o rect then o.rectTransform (itemBounds o c.item) c.m
  else o.rectAdd rect (o.rectTransform (itemBounds o c.item) c.m)

def fitRect (o : Ops α) (layers : List (Int × List (Call α))) : Rct α :=
  layers.foldl (fun r kl => kl.2.foldl (fitStep o) r) ⟨o.zero, o.zero, o.zero, o.zero⟩

def Canvas.fit (o : Ops α) (margin : α) (cv : Canvas α) : Canvas α :=
  let r := fitRect o cv.layers
  cv.clip o ⟨o.sub r.x0 margin, o.sub r.y0 margin, o.add r.x1 margin, o.add r.y1 margin⟩

def Canvas.reset (cv : Canvas α) : Canvas α := { cv with layers := [], log := [] }

def insertSorted (k : Int) : List Int → List Int
  | [] => [k]
  | x :: xs => if k ≤ x then k :: x :: xs else x :: insertSorted k xs

/-- sort.Ints -/
def sortInts (l : List Int) : List Int := l.foldr insertSorted []

def lookupZ (k : Int) : List (Int × List (Call α)) → List (Call α)
  | [] => []
  | (k', l) :: rest => if k' = k then l else lookupZ k rest

/-- Canvas.RenderViewTo: the calls the target renderer receives, in order -/
def Canvas.renderViewTo (o : Ops α) (view : Mat α) (cv : Canvas α) : List (Call α) :=
  (sortInts (cv.layers.map (·.1))).flatMap (fun k => (lookupZ k cv.layers).map (Call.pre o view))

/-- `src.RenderViewTo(dst, view)` with a Canvas as the target renderer (nested canvases): every
replayed call is recorded by `dst` under `dst`'s current z-index -/
def Canvas.renderInto (o : Ops α) (src : Canvas α) (view : Mat α) (dst : Canvas α) : Canvas α :=
  (src.renderViewTo o view).foldl Canvas.render dst

/-! ## Context -/

def csv (o : Ops α) (cs : CoordSys) (W H : α) : Mat α :=
  match cs with
  | .I => o.ident
  | .II => o.reflectXAbout o.ident (o.div W o.two)
  | .III => o.reflectYAbout (o.reflectXAbout o.ident (o.div W o.two)) (o.div H o.two)
  | .IV => o.reflectYAbout o.ident (o.div H o.two)

def Ctx.csv (o : Ops α) (c : Ctx α) : Mat α := Canvas.C15.csv o c.st.cs c.cv.W c.cv.H

/-- `CoordSystemView().Mul(view).Translate(coordView.Dot(x,y))` -/
def Ctx.baseMatrix (o : Ops α) (c : Ctx α) (x y : α) : Mat α :=
  let coord := o.dot c.st.coordView ⟨x, y⟩
  o.translate (o.mmul (c.csv o) c.st.view) coord.x coord.y

def Ctx.emit (c : Ctx α) (call : Call α) : Ctx α :=
  { c with emitted := c.emitted ++ [call], cv := c.cv.render call }

/-- what `DrawPath` makes of the dash pattern for one path of length `len` under stroke width `w`:
`checkDash` is asked in the units the renderers use (pattern and offset scaled by the stroke width,
`ScaleDash`); if dashing is needed the canonical *unscaled* pattern is recorded, otherwise none;
the Bool says whether the stroke paint is kept -/
def drawDashes (o : Ops α) (w off : α) (dashes : List α) (len : α) : List α × Bool :=
  let r := o.checkDash (o.mul off w) (dashes.map (fun d => o.mul d w)) len
  (if r.1.isEmpty then r.1 else (dashCanonical o.toArith off dashes).2, r.2)

/-- the loop of DrawPath: the code works on one copy `style` of the current style; per path it
overwrites `Dashes` with the result of checkDash, clears `Stroke` when the path gets no ink, and
restores `Stroke` after the renderer call — so every path is drawn from the same initial style -/
def drawPathLoop (o : Ops α) (off : α) (dashes : List α) (m : Mat α) :
    Style α → List (PathRef α) → Ctx α → Ctx α
  | _, [], c => c
  | style, p :: ps, c =>
    let r := drawDashes o style.width off dashes p.len
    let st := { style with dashes := r.1, stroke := if r.2 then style.stroke else Paint.none }
    drawPathLoop o off dashes m style ps (c.emit ⟨.path p st, m⟩)

def Ctx.drawPath (o : Ops α) (c : Ctx α) (x y : α) (ps : List (PathRef α)) : Ctx α :=
  if !c.st.style.hasFill && !c.st.style.hasStroke o then c
  else drawPathLoop o c.st.style.dashOff c.st.style.dashes (c.baseMatrix o x y) c.st.style ps c

def Ctx.drawText (o : Ops α) (c : Ctx α) (x y : α) (t : TextRef α) : Ctx α :=
  if t.empty then c else
  let m := c.baseMatrix o x y
  let m := if c.st.cs.flipY then o.reflectY m else m
  let m := if c.st.cs.flipX then o.reflectX m else m
  c.emit ⟨.text t, m⟩

/-- the image-origin compensation shared by DrawImage and FitImage -/
def imageFlip (o : Ops α) (cs : CoordSys) (m : Mat α) (w h : α) : Mat α :=
  let m := if cs.flipY then o.reflectYAbout m (o.div h o.two) else m
  if cs.flipX then o.reflectXAbout m (o.div w o.two) else m

def Ctx.drawImage (o : Ops α) (c : Ctx α) (x y : α) (i : ImgRef α) (res : α) : Ctx α :=
  if o.beq i.w o.zero && o.beq i.h o.zero then c else
  let m := c.baseMatrix o x y
  let m := o.scale m (o.div o.one res) (o.div o.one res)
  c.emit ⟨.image i, imageFlip o c.st.cs m i.w i.h⟩

/-- `min(int(v), (int(size)-1)/2)` of ImageCover: pixels cropped on each side, at least one row/column stays -/
def cropOf (o : Ops α) (v size : α) : α :=
  let a := o.trunc v
  let b := o.trunc (o.div (o.sub (o.trunc size) o.one) o.two)
  if o.lt a b then a else b

/-- FitImage; fit: 0 = ImageFill, 1 = ImageContain, 2 = ImageCover (the image is croppable) -/
def Ctx.fitImage (o : Ops α) (c : Ctx α) (i : ImgRef α) (r : Rct α) (fit : Nat) : Ctx α :=
  if (o.beq i.w o.zero && o.beq i.h o.zero) || rectEmpty o r then c else
  let rw := o.sub r.x1 r.x0
  let rh := o.sub r.y1 r.y0
  let xres := o.div i.w rw
  let yres := o.div i.h rh
  let (x, y, xres, yres, w, h) :=
    if fit = 1 then
      if o.lt xres yres then
        (o.add r.x0 (o.div (o.sub rw (o.div i.w yres)) o.two), r.y0, yres, yres, i.w, i.h)
      else
        (r.x0, o.add r.y0 (o.div (o.sub rh (o.div i.h xres)) o.two), xres, xres, i.w, i.h)
    else if fit = 2 then
      if o.lt xres yres then
        let dy := cropOf o (o.add (o.div (o.sub i.h (o.mul rh xres)) o.two) o.half) i.h
        let h' := o.sub i.h (o.mul o.two dy)
        (r.x0, r.y0, xres, o.div h' rh, i.w, h')
      else
        let dx := cropOf o (o.add (o.div (o.sub i.w (o.mul rw yres)) o.two) o.half) i.w
        let w' := o.sub i.w (o.mul o.two dx)
        (r.x0, r.y0, o.div w' rw, yres, w', i.h)
    else (r.x0, r.y0, xres, yres, i.w, i.h)
  -- SubImage of an empty rectangle is the empty image with Bounds() = (0,0)-(0,0)
  let (w, h) := if o.le w o.zero || o.le h o.zero then (o.zero, o.zero) else (w, h)
  let m := c.baseMatrix o x y
  let m := o.scale m (o.div o.one xres) (o.div o.one yres)
  c.emit ⟨.image ⟨w, h⟩, imageFlip o c.st.cs m w h⟩

/-- the calls of a history -/
inductive Op (α : Type)
  | push | pop
  | setCoordSystem (cs : CoordSys)
  | setCoordView (m : Mat α)
  | setCoordRect (r : Rct α) (w h : α)
  | setView (m : Mat α)
  | resetView
  | composeView (m : Mat α)
  | translate (x y : α)
  | reflectX | reflectY
  | reflectXAbout (x : α)
  | reflectYAbout (y : α)
  | rotate (sn cs : α)               -- sin and cos of the angle (math.Sincos evaluated by the caller)
  | rotateAbout (sn cs x y : α)
  | scale (sx sy : α)
  | scaleAbout (sx sy x y : α)
  | shear (sx sy : α)
  | shearAbout (sx sy x y : α)
  | setFill (p : Paint)              -- SetFill(x) after the type switch; SetFillColor/Gradient/Pattern
  | setStroke (p : Paint)
  | setStrokeWidth (w : α)
  | setStrokeCapper (k : Nat)
  | setStrokeJoiner (k : Nat)
  | setDashes (off : α) (d : List α)
  | setFillRule (r : Nat)
  | resetStyle
  | setZIndex (z : Int)
  | drawPath (x y : α) (ps : List (PathRef α))
  | drawText (x y : α) (t : TextRef α)
  | drawImage (x y : α) (i : ImgRef α) (res : α)
  | fitImage (i : ImgRef α) (r : Rct α) (fit : Nat)
  -- Fill/Stroke/FillStroke of the Context's current path `p` (built by MoveTo/LineTo/…; the builder is C10's subject)
  | fill (p : PathRef α)
  | stroke (p : PathRef α)
  | fillStroke (p : PathRef α)
  -- operations on the Canvas underneath
  | cvTransform (m : Mat α)
  | cvClip (r : Rct α)
  | cvFit (margin : α)
  | cvReset
  /-- `cv2 := New(W, H); cv.RenderViewTo(cv2, view)`, and `cv2` becomes the canvas under the Context -/
  | cvNest (view : Mat α)

def rotMat (o : Ops α) (sn cs : α) : Mat α := ⟨cs, o.neg sn, o.zero, sn, cs, o.zero⟩
/-- Matrix.Rotate with the sine and cosine supplied -/
def rotate (o : Ops α) (m : Mat α) (sn cs : α) : Mat α := o.mmul m (rotMat o sn cs)
def rotateAbout (o : Ops α) (m : Mat α) (sn cs x y : α) : Mat α :=
  o.translate (rotate o (o.translate m x y) sn cs) (o.neg x) (o.neg y)

def Ctx.withStyle (c : Ctx α) (s : Style α) : Ctx α := { c with st := { c.st with style := s } }

/-- `Fill()`/`Stroke()`: the paint not wanted is cleared, the current path is drawn at (0,0), and
the style is put back (the current path is reset: the next one is a new `PathRef`) -/
def Ctx.drawWith (o : Ops α) (c : Ctx α) (s : Style α) (p : PathRef α) : Ctx α :=
  ((c.withStyle s).drawPath o o.zero o.zero [p]).withStyle c.st.style

def Ctx.withView (c : Ctx α) (v : Mat α) : Ctx α := { c with st := { c.st with view := v } }
def Ctx.compose (o : Ops α) (c : Ctx α) (e : Mat α) : Ctx α := c.withView (o.mmul c.st.view e)

def step (o : Ops α) (op : Op α) (c : Ctx α) : Ctx α :=
  match op with
  | .push => { c with stack := c.st :: c.stack }
  | .pop =>
    match c.stack with
    | [] => c
    | s :: rest => { c with st := s, stack := rest }
  | .setCoordSystem cs => { c with st := { c.st with cs := cs } }
  | .setCoordView m => { c with st := { c.st with coordView := m } }
  | .setCoordRect r w h =>
    let cvw := o.scale (o.translate o.ident r.x0 r.y0) (o.div (o.sub r.x1 r.x0) w) (o.div (o.sub r.y1 r.y0) h)
    { c with st := { c.st with coordView := cvw } }
  | .setView m => c.withView m
  | .resetView => c.withView o.ident
  | .composeView m => c.compose o m
  | .translate x y => c.compose o (o.translate o.ident x y)
  | .reflectX => c.compose o (o.reflectX o.ident)
  | .reflectY => c.compose o (o.reflectY o.ident)
  | .reflectXAbout x => c.compose o (o.reflectXAbout o.ident x)
  | .reflectYAbout y => c.compose o (o.reflectYAbout o.ident y)
  | .rotate sn cs => c.compose o (rotate o o.ident sn cs)
  | .rotateAbout sn cs x y => c.compose o (rotateAbout o o.ident sn cs x y)
  | .scale sx sy => c.compose o (o.scale o.ident sx sy)
  | .scaleAbout sx sy x y => c.compose o (o.scaleAbout o.ident sx sy x y)
  | .shear sx sy => c.compose o (o.shear o.ident sx sy)
  | .shearAbout sx sy x y => c.compose o (o.shearAbout o.ident sx sy x y)
  | .setFill p => c.withStyle { c.st.style with fill := p }
  | .setStroke p => c.withStyle { c.st.style with stroke := p }
  | .setStrokeWidth w => c.withStyle { c.st.style with width := w }
  | .setStrokeCapper k => c.withStyle { c.st.style with cap := k }
  | .setStrokeJoiner k => c.withStyle { c.st.style with join := k }
  | .setDashes off d => c.withStyle { c.st.style with dashOff := off, dashes := d }
  | .setFillRule r => c.withStyle { c.st.style with rule := r }
  | .resetStyle => c.withStyle (defaultStyle o)
  | .setZIndex z => { c with cv := { c.cv with z := z } }
  | .drawPath x y ps => c.drawPath o x y ps
  | .drawText x y t => c.drawText o x y t
  | .drawImage x y i res => c.drawImage o x y i res
  | .fitImage i r fit => c.fitImage o i r fit
  | .fill p => c.drawWith o { c.st.style with stroke := Paint.none } p
  | .stroke p => c.drawWith o { c.st.style with fill := Paint.none } p
  | .fillStroke p => c.drawPath o o.zero o.zero [p]
  | .cvTransform m => { c with cv := c.cv.transform o m }
  | .cvClip r => { c with cv := c.cv.clip o r }
  | .cvFit margin => { c with cv := c.cv.fit o margin }
  | .cvReset => { c with cv := c.cv.reset }
  | .cvNest view => { c with cv := c.cv.renderInto o view (newCanvas c.cv.W c.cv.H) }

def run (o : Ops α) : List (Op α) → Ctx α → Ctx α
  | [], c => c
  | op :: ops, c => run o ops (step o op c)

end Canvas.C15
