import CanvasModel.Prelude
/-!
# C18 — hand-written (L2) models of the per-glyph bookkeeping of PDF font embedding, and the
# (L3) readers they are judged against.

L2 (models of /repo code, tied by correspondence on every run):
* `Sub`            — `FontSubsetter` of /repo/font.go (`IDs`, `IDMap`, `Get`)
* `encodeW`        — the `W` array run-length encoder in `writeFont` (/repo/renderers/pdf/writer.go)
* `encodeTU`       — the ToUnicode bfrange/bfchar builder in `writeFont`
* `tjAdjust`       — the TJ adjustment `-int(f*float64(dx)+0.5)` of `WriteText`
* `penRun`, `textWidthUnits` — pen positions of `FontFace.toPath` and `FontFace.textWidth`

L3 (specifications, not models of code):
* `lookupW`/`decodeW`  — PDF 32000-1 §9.7.4.3 (glyph metrics in CIDFonts)
* `tuLookup`           — PDF 32000-1 §9.10.3 (ToUnicode CMaps): bfchar, bfrange with last-byte increment
                         (the whole range is undefined when the last byte would pass 255), UTF-16BE.
Core Lean only.
-/
namespace Canvas.C18

/-! ## (a) FontSubsetter -/

structure Sub where
  ids : List Nat            -- IDs   []uint16 : old glyph IDs for increasing new glyph IDs
  map : List (Nat × Nat)    -- IDMap map[uint16]uint16 as an association list (old, new)
deriving Repr

/-- `NewFontSubsetter` -/
def Sub.new : Sub := ⟨[0], [(0, 0)]⟩

/-- `Get`: the new code is `uint16(len(IDs))`. -/
def Sub.get (s : Sub) (g : Nat) : Sub × Nat :=
  match s.map.lookup g with
  | some c => (s, c)
  | none => (⟨s.ids ++ [g], (g, s.ids.length % 65536) :: s.map⟩, s.ids.length % 65536)

/-- a history of `Get` calls; returns the final state and the returned codes -/
def Sub.run (s : Sub) : List Nat → Sub × List Nat
  | [] => (s, [])
  | g :: h => let r := (s.get g); let q := r.1.run h; (q.1, r.2 :: q.2)

/-! ## (b) W array -/

inductive WEnt where
  | arr (start : Nat) (ws : List Int)          -- c [w1 … wn]
  | range (first last : Nat) (w : Int)         -- cfirst clast w
deriving Repr, BEq, DecidableEq

structure WSt where
  i : Nat
  j : Nat
  out : List WEnt
deriving Repr

/-- one iteration `for k, width := range widths` of the encoder (`thr` = 4 in the source) -/
def wStep (thr : Nat) (widths : List Int) (dw : Int) (st : WSt) (k : Nat) : WSt :=
  if k ≠ 0 ∧ widths.getD k 0 ≠ widths.getD st.j 0 then
    if thr < k - st.j then
      let out1 := if st.i < st.j then st.out ++ [WEnt.arr st.i ((widths.drop st.i).take (st.j - st.i))] else st.out
      let out2 := if widths.getD st.j 0 ≠ dw then out1 ++ [WEnt.range st.j (k - 1) (widths.getD st.j 0)] else out1
      ⟨k, k, out2⟩
    else ⟨st.i, k, st.out⟩
  else st

def wLoop (thr : Nat) (widths : List Int) (dw : Int) (m : Nat) : WSt :=
  (List.range m).foldl (wStep thr widths dw) ⟨1, 1, []⟩

/-- `widths := make([]int, len(glyphIDs)+1)`: the real list plus one trailing zero -/
def wWidths (ws : List Int) : List Int := ws ++ [0]

def wFinish (widths : List Int) (st : WSt) : List WEnt :=
  if st.i < widths.length then st.out ++ [WEnt.arr st.i (widths.drop st.i)] else st.out

/-- returns (DW, W); `thr` is the run length above which the `cfirst clast w` form is used
(`4 < k-j` in the source; the theorems hold for every threshold, so retuning it is harmless) -/
def encodeWT (thr : Nat) (ws : List Int) : Int × List WEnt :=
  let widths := wWidths ws
  let dw := widths.getD 0 0
  (dw, wFinish widths (wLoop thr widths dw widths.length))

/-- the encoder as written in /repo/renderers/pdf/writer.go -/
def encodeW (ws : List Int) : Int × List WEnt := encodeWT 4 ws

/-- L3: width an entry assigns to a CID, if any (§9.7.4.3) -/
def WEnt.width? : WEnt → Nat → Option Int
  | .arr s ws, cid => if s ≤ cid then ws[cid - s]? else none
  | .range a b w, cid => if a ≤ cid ∧ cid ≤ b then some w else none

def wLook (W : List WEnt) (cid : Nat) : Option Int := W.findSome? (fun e => e.width? cid)

/-- L3: the width a reader uses for a CID: the W entry if there is one, else DW -/
def lookupW (dw : Int) (W : List WEnt) (cid : Nat) : Int := (wLook W cid).getD dw

def decodeW (dw : Int) (W : List WEnt) (n : Nat) : List Int := (List.range n).map (lookupW dw W)

/-! ## (c) ToUnicode -/

/-- the uint32 the builder prints for a code point: UTF-16 surrogate pair packed in one word -/
def pack (u : Nat) : Nat :=
  if 0x10000 ≤ u ∧ u ≤ 0x10FFFF then
    (0xD800 + (u - 0x10000) / 1024 % 1024) * 65536 + 0xDC00 + (u - 0x10000) % 1024
  else u

structure TU where
  sc : Nat                         -- startGlyphID
  su : Nat                         -- startUnicode
  len : Nat                        -- length
  ranges : List (Nat × Nat × Nat)  -- <lo> <hi> <dst>
  chars : List (Nat × Nat)         -- <code> <dst>
deriving Repr

def TU.flush (t : TU) : List (Nat × Nat × Nat) × List (Nat × Nat) :=
  if 1 < t.len then (t.ranges ++ [(t.sc, t.sc + t.len - 1, t.su)], t.chars)
  else (t.ranges, t.chars ++ [(t.sc, t.su)])

/-- one iteration for subset code `c` with packed unicode `v`; a run is only extended while the low byte
of the destination does not wrap (`unicode&0xFF != 0`, /repo 6081df5) -/
def tuStep (t : TU) (c v : Nat) : TU :=
  if c = t.sc + t.len ∧ v = t.su + t.len ∧ v % 256 ≠ 0 then { t with len := t.len + 1 }
  else ⟨c, v, 1, t.flush.1, t.flush.2⟩

def tuLoop : TU → Nat → List Nat → TU
  | t, _, [] => t
  | t, c, v :: vs => tuLoop (tuStep t c v) (c + 1) vs

def TU.init : TU := ⟨0, 0xFFFD, 1, [], []⟩

/-- packed level (input already packed) -/
def encodeTUP (vs : List Nat) : List (Nat × Nat × Nat) × List (Nat × Nat) := (tuLoop TU.init 1 vs).flush

/-- the builder on the code points of subset codes 1, 2, … -/
def encodeTU (us : List Nat) : List (Nat × Nat × Nat) × List (Nat × Nat) := encodeTUP (us.map pack)

/-- destination strings as the builder prints them (`%04X`): two bytes, or four for a packed pair -/
inductive Dst where
  | two (a b : Nat)
  | four (a b c d : Nat)
deriving Repr, BEq, DecidableEq

def dst (v : Nat) : Dst :=
  if v < 0x10000 then .two (v / 256) (v % 256)
  else .four (v / 16777216 % 256) (v / 65536 % 256) (v / 256 % 256) (v % 256)

def Dst.last : Dst → Nat
  | .two _ b => b
  | .four _ _ _ d => d

/-- L3 §9.10.3: "the last byte of the string shall be incremented" -/
def Dst.inc : Dst → Nat → Dst
  | .two a b, k => .two a (b + k)
  | .four a b c d, k => .four a b c (d + k)

/-- L3: UTF-16BE string holding exactly one Unicode scalar value -/
def Dst.scalar? : Dst → Option Nat
  | .two a b =>
    if a < 256 ∧ b < 256 ∧ ¬ (0xD800 ≤ a * 256 + b ∧ a * 256 + b ≤ 0xDFFF) then some (a * 256 + b) else none
  | .four a b c d =>
    if a < 256 ∧ b < 256 ∧ c < 256 ∧ d < 256 ∧ 0xD800 ≤ a * 256 + b ∧ a * 256 + b ≤ 0xDBFF ∧
        0xDC00 ≤ c * 256 + d ∧ c * 256 + d ≤ 0xDFFF then
      some (0x10000 + (a * 256 + b - 0xD800) * 1024 + (c * 256 + d - 0xDC00))
    else none

def inRange (code : Nat) (r : Nat × Nat × Nat) : Bool := decide (r.1 ≤ code ∧ code ≤ r.2.1)

/-- L3 strict reader: a bfrange is only defined when the last byte of its destination is
≤ 255 − (hi − lo) ("otherwise the result of mapping is undefined"); bfrange is consulted before bfchar. -/
def tuLookup (R : List (Nat × Nat × Nat)) (C : List (Nat × Nat)) (code : Nat) : Option Nat :=
  match R.find? (inRange code) with
  | some r => if (dst r.2.2).last + (r.2.1 - r.1) ≤ 255 then ((dst r.2.2).inc (code - r.1)).scalar? else none
  | none =>
    match C.find? (fun c => c.1 == code) with
    | some c => (dst c.2).scalar?
    | none => none

def decodeTU (R : List (Nat × Nat × Nat)) (C : List (Nat × Nat)) (n : Nat) : List (Option Nat) :=
  (List.range n).map (fun k => tuLookup R C (k + 1))

def validScalar (u : Nat) : Bool := decide (u ≤ 0x10FFFF ∧ ¬ (0xD800 ≤ u ∧ u ≤ 0xDFFF))

/-! ## (d) TJ adjustment -/

/-- `-int(f*float64(dx)+0.5)` with `f = 1000/upm` in exact arithmetic; Go's `int()` truncates. -/
def tjAdjust (upm dx : Int) : Int := -((2000 * dx + upm).tdiv (2 * upm))

/-- `int(f*float64(adv)+0.5)` for the W array (advances are unsigned) -/
def wWidth (upm adv : Int) : Int := (2000 * adv + upm).tdiv (2 * upm)

/-! ## (e) pen positions of `toPath`, `textWidth` (font units) -/

structure G where
  xadv : Int
  yadv : Int
  xoff : Int
  yoff : Int
  vert : Bool
deriving Repr

/-- positions handed to `GlyphPath` (before the factor `f`) and the final pen `x` -/
def penRun : Int → Int → List G → List (Int × Int) × Int
  | x, _, [] => ([], x)
  | x, y, g :: gs => let r := penRun (x + g.xadv) (y + g.yadv) gs; ((x + g.xoff, y + g.yoff) :: r.1, r.2)

def textWidthUnits : List G → Int
  | [] => 0
  | g :: gs => (if g.vert then - g.yadv else g.xadv) + textWidthUnits gs

/-! ## (f) outline placement and scaling of `toPath` (font units; `f` = the face's `MmPerEm`)

`GlyphPath(p, id, ppem, f*(x+xoff), f*(y+yoff), f, NoHinting)` draws the point `c` of the glyph outline at
`f*(x+xoff) + f*c`. The model is a function of the face scale, the face offsets, the glyphs and their
outlines only — in particular it has no memory of earlier calls or faces, and `ppem` does not occur. -/

/-- the outline points of one glyph drawn with pen `(px,py)` (pen + glyph offset) at scale `f` -/
def glyphPts (f px py : Int) (outline : List (Int × Int)) : List (Int × Int) :=
  outline.map (fun c => (f * px + f * c.1, f * py + f * c.2))

/-- all outline points `toPath` emits, in order -/
def toPathPts (f : Int) : Int → Int → List (G × List (Int × Int)) → List (Int × Int)
  | _, _, [] => []
  | x, y, (g, o) :: gs => glyphPts f (x + g.xoff) (y + g.yoff) o ++ toPathPts f (x + g.xadv) (y + g.yadv) gs

def scalePts (k : Int) (ps : List (Int × Int)) : List (Int × Int) := ps.map (fun p => (k * p.1, k * p.2))

/-! ## (g) content-stream strings: glyph codes as escaped literal strings (`write` closure of `WriteText`)

L2: `escByte`/`escCodes` model the byte loop of /repo/renderers/pdf/writer.go (`subset != nil` branch):
every subset code is written big-endian as two bytes, with `\n \r \t \b \f \\ \( \)` escaped.
L3: `readLit` is a reader for PDF literal strings per PDF 32000-1 §7.3.4.2 (escapes, octal `\ddd`,
balanced parentheses, line continuation, end-of-line normalisation), one byte per step. -/

def escByte (b : Nat) : List Nat :=
  if b = 10 then [92, 110] else if b = 13 then [92, 114] else if b = 9 then [92, 116]
  else if b = 8 then [92, 98] else if b = 12 then [92, 102]
  else if b = 92 ∨ b = 40 ∨ b = 41 then [92, b] else [b]

/-- the two bytes of a code, as `uint8((glyphID & 0xff00) >> 8), uint8(glyphID & 0x00ff)` -/
def codeBytes (c : Nat) : List Nat := [c / 256 % 256, c % 256]

def escCodes : List Nat → List Nat
  | [] => []
  | c :: cs => escByte (c / 256 % 256) ++ escByte (c % 256) ++ escCodes cs

def allCodeBytes : List Nat → List Nat
  | [] => []
  | c :: cs => codeBytes c ++ allCodeBytes cs

inductive LMode where
  | normal
  | esc                 -- after a backslash
  | oct (v n : Nat)     -- inside `\ddd`, n digits read
  | cr                  -- after an unescaped CR (a following LF belongs to the same end-of-line)
  | escCr               -- after backslash CR (line continuation, a following LF is skipped too)
deriving Repr, DecidableEq

structure LSt where
  mode : LMode
  depth : Nat
  acc : List Nat
deriving Repr

/-- one byte in `normal` mode -/
def litNormal (depth : Nat) (acc : List Nat) (b : Nat) : LSt ⊕ List Nat :=
  if b = 92 then .inl ⟨.esc, depth, acc⟩
  else if b = 40 then .inl ⟨.normal, depth + 1, acc ++ [40]⟩
  else if b = 41 then (if depth = 0 then .inr acc else .inl ⟨.normal, depth - 1, acc ++ [41]⟩)
  else if b = 13 then .inl ⟨.cr, depth, acc ++ [10]⟩
  else .inl ⟨.normal, depth, acc ++ [b]⟩

/-- L3 §7.3.4.2, one byte per step; `.inr s` = the closing parenthesis was read, `s` is the string -/
def litStep (st : LSt) (b : Nat) : LSt ⊕ List Nat :=
  match st.mode with
  | .normal => litNormal st.depth st.acc b
  | .cr => if b = 10 then .inl ⟨.normal, st.depth, st.acc⟩ else litNormal st.depth st.acc b
  | .escCr => if b = 10 then .inl ⟨.normal, st.depth, st.acc⟩ else litNormal st.depth st.acc b
  | .esc =>
    if b = 110 then .inl ⟨.normal, st.depth, st.acc ++ [10]⟩
    else if b = 114 then .inl ⟨.normal, st.depth, st.acc ++ [13]⟩
    else if b = 116 then .inl ⟨.normal, st.depth, st.acc ++ [9]⟩
    else if b = 98 then .inl ⟨.normal, st.depth, st.acc ++ [8]⟩
    else if b = 102 then .inl ⟨.normal, st.depth, st.acc ++ [12]⟩
    else if b = 40 ∨ b = 41 ∨ b = 92 then .inl ⟨.normal, st.depth, st.acc ++ [b]⟩
    else if 48 ≤ b ∧ b ≤ 55 then .inl ⟨.oct (b - 48) 1, st.depth, st.acc⟩
    else if b = 10 then .inl ⟨.normal, st.depth, st.acc⟩
    else if b = 13 then .inl ⟨.escCr, st.depth, st.acc⟩
    else .inl ⟨.normal, st.depth, st.acc ++ [b]⟩      -- "the REVERSE SOLIDUS shall be ignored"
  | .oct v n =>
    if 48 ≤ b ∧ b ≤ 55 ∧ n < 3 then
      (if n + 1 = 3 then .inl ⟨.normal, st.depth, st.acc ++ [(v * 8 + (b - 48)) % 256]⟩
       else .inl ⟨.oct (v * 8 + (b - 48)) (n + 1), st.depth, st.acc⟩)
    else litNormal st.depth (st.acc ++ [v % 256]) b

/-- read a literal string body (the opening parenthesis already consumed); returns (string, rest) -/
def readLit : LSt → List Nat → Option (List Nat × List Nat)
  | _, [] => none
  | st, b :: rest =>
    match litStep st b with
    | .inl st' => readLit st' rest
    | .inr s => some (s, rest)

def LSt.start : LSt := ⟨.normal, 0, []⟩

/-- L3: Identity-H / Identity-V are two-byte CMaps: the shown string is a sequence of big-endian codes -/
def codesOfBytes : List Nat → Option (List Nat)
  | [] => some []
  | [_] => none
  | hi :: lo :: rest => (codesOfBytes rest).map (fun cs => (hi * 256 + lo) :: cs)

/-- what a TJ array must say about a glyph laid out with advance difference `dx`: its code and the
adjustment following it -/
def tjSpec (upm : Int) (g : Nat × Int) : Nat × Int := (g.1, if g.2 = 0 then 0 else tjAdjust upm g.2)

/-! ## (h) the TJ array of `WriteText` (glyph branch) and its reading per §9.4.3 -/

inductive TJItem where
  | str (codes : List Nat)
  | num (n : Int)
deriving Repr, BEq, DecidableEq

/-- `for j, glyph := range val { if glyph.XAdvance != orig { write(val[i:j+1]); " %d"; i = j+1 } }; write(val[i:])`
over (code, dx) with `dx = XAdvance − font advance` (resp. the vertical pair); `pending` = `val[i:j]` -/
def tjGo (upm : Int) : List Nat → List (Nat × Int) → List TJItem
  | pending, [] => [.str pending]
  | pending, (c, dx) :: gs =>
    if dx ≠ 0 then .str (pending ++ [c]) :: .num (tjAdjust upm dx) :: tjGo upm [] gs
    else tjGo upm (pending ++ [c]) gs

def tjBuild (upm : Int) (gs : List (Nat × Int)) : List TJItem := tjGo upm [] gs

/-- L3 §9.4.3 TJ: each string shows its glyphs in order; a number moves the pen by −n/1000 (it belongs to
the glyph shown before it). Result: (code, total adjustment after that glyph), plus a leading adjustment. -/
def tjAttach : List Nat → Int → List (Nat × Int)
  | [], _ => []
  | [c], a => [(c, a)]
  | c :: c' :: cs, a => (c, 0) :: tjAttach (c' :: cs) a

def tjRead : List TJItem → Int × List (Nat × Int)
  | [] => (0, [])
  | .str cs :: rest =>
    let r := tjRead rest
    if cs = [] then r   -- an empty string shows nothing: numbers after it still follow the previous glyph
    else (0, tjAttach cs r.1 ++ r.2)
  | .num n :: rest => let r := tjRead rest; (n + r.1, r.2)

/-- bytes of the array as written: `[`, `(`…`)` chunks separated by one space, ` %d` numbers, `]TJ` -/
def decDigits (n : Nat) : List Nat := (Nat.toDigits 10 n).map Char.toNat
def intBytes (n : Int) : List Nat := if n < 0 then 45 :: decDigits n.natAbs else decDigits n.natAbs

def tjBytesGo : Bool → List TJItem → List Nat
  | _, [] => []
  | first, .str cs :: rest => (if first then [40] else [32, 40]) ++ escCodes cs ++ [41] ++ tjBytesGo false rest
  | first, .num n :: rest => 32 :: intBytes n ++ tjBytesGo first rest

def tjBytes (items : List TJItem) : List Nat := 91 :: tjBytesGo true items ++ [93, 84, 74]

/-! ## (i) CIDToGIDMap (written when fonts are not subsetted) and code → glyph selection -/

/-- `cidToGIDMap[2j] = byte((glyphID & 0xFF00) >> 8); cidToGIDMap[2j+1] = byte(glyphID & 0x00FF)` -/
def encodeCidMap : List Nat → List Nat
  | [] => []
  | g :: gs => (g / 256 % 256) :: (g % 256) :: encodeCidMap gs

/-- L3 §9.7.4.2 Table 117: "the glyph index for a particular CID value c shall be a 2-byte value stored in
bytes 2×c and 2×c+1, where the first byte shall be the high-order byte"; CIDs beyond the stream: undefined -/
def cidToGid (bytes : List Nat) (cid : Nat) : Option Nat :=
  match bytes[2 * cid]?, bytes[2 * cid + 1]? with
  | some hi, some lo => some (hi * 256 + lo)
  | _, _ => none

/-- which glyph of the SOURCE font a content-stream code shows to a conforming reader.
`subset` = a subset program is embedded: it holds the glyphs `IDs` in order (contract of `sfnt.Subset`) and
CID = GID. Otherwise the full program is embedded and the CIDToGIDMap stream translates — but only for
Type 2 (TrueType) CIDFonts (Table 117); for a CIDFontType0 with a name-keyed CFF the CID is the glyph index
(§9.7.4.2). -/
def codeGlyph (subset trueType : Bool) (ids : List Nat) (code : Nat) : Option Nat :=
  if subset then ids[code]?
  else if trueType then cidToGid (encodeCidMap ids) code
  else some code

/-- `writeFont`: a subset program is embedded iff subsetting was asked for AND `sfnt.Subset` succeeded
(`subset := w.subset; … else { subset = false }`, /repo 788048f); the CIDToGIDMap stream is written iff not. -/
def embedsSubset (wanted subsetOK : Bool) : Bool := wanted && subsetOK

def fontCodeGlyph (wanted subsetOK trueType : Bool) (ids : List Nat) (code : Nat) : Option Nat :=
  codeGlyph (embedsSubset wanted subsetOK) trueType ids code

/-- W array of a font: widths are `int(f*advance+0.5)` of the glyphs in code order -/
def fontW (upm : Int) (advs : List Int) : Int × List WEnt := encodeW (advs.map (wWidth upm))

/-! ## (j) verdict on the font tables of a PDF font object (decided in Lean on the raw observation)

Observation: for every code `0 … n-1` used with the font, the source glyph's advance and (if the glyph
has a cmap entry) its Unicode scalar value; the font object's DW, W and ToUnicode entries. -/

structure FontObs where
  upm : Int
  advs : List Int                 -- advance of the glyph behind code k
  unis : List (Option Nat)        -- its rune, `none` = not judged (no cmap entry / .notdef)
  dw : Int
  w : List WEnt
  ranges : List (Nat × Nat × Nat)
  chars : List (Nat × Nat)

def codeOK (o : FontObs) (k : Nat) : Bool :=
  (lookupW o.dw o.w k == wWidth o.upm (o.advs.getD k 0)) &&
  (match o.unis.getD k none with
   | none => true
   | some u => tuLookup o.ranges o.chars k == some u)

/-- first code whose width or Unicode value a reader would get wrong, if any -/
def fontVerdict (o : FontObs) : Option Nat := (List.range o.advs.length).find? (fun k => !codeOK o k)

end Canvas.C18
