import CanvasModel.Prelude
/-!
# C18 — hand-written (L2) models of the per-glyph bookkeeping of PDF font embedding, and the
# (L3) readers they are judged against.

L2 (models of /repo code, tied by correspondence on every run):
* `Sub`            — `FontSubsetter` of /repo/font.go (`IDs`, `IDMap`, `Get`)
* `encodeW`        — the `W` array run-length encoder in `writeFont` (/repo/renderers/pdf/writer.go)
* `encodeTU`       — the ToUnicode bfrange/bfchar builder in `writeFont`
* `tjAdjust`       — the TJ adjustment `-int(f*float64(dx)+0.5)` of `WriteText`
* `penRun`, `textWidthUnits` — pen positions of `FontFace.toPath` and `FontFace.textWidth`

L3 (specifications, not models of code):
* `lookupW`/`decodeW`  — PDF 32000-1 §9.7.4.3 (glyph metrics in CIDFonts)
* `tuLookup`           — PDF 32000-1 §9.10.3 (ToUnicode CMaps): bfchar, bfrange with last-byte increment
                         (the whole range is undefined when the last byte would pass 255), UTF-16BE.
Core Lean only.
-/
namespace Canvas.C18

/-! ## (a) FontSubsetter -/

structure Sub where
  ids : List Nat            -- IDs   []uint16 : old glyph IDs for increasing new glyph IDs
  map : List (Nat × Nat)    -- IDMap map[uint16]uint16 as an association list (old, new)
deriving Repr

/-- `NewFontSubsetter` -/
def Sub.new : Sub := ⟨[0], [(0, 0)]⟩

/-- `Get`: the new code is `uint16(len(IDs))`. -/
def Sub.get (s : Sub) (g : Nat) : Sub × Nat :=
  match s.map.lookup g with
  | some c => (s, c)
  | none => (⟨s.ids ++ [g], (g, s.ids.length % 65536) :: s.map⟩, s.ids.length % 65536)

/-- a history of `Get` calls; returns the final state and the returned codes -/
def Sub.run (s : Sub) : List Nat → Sub × List Nat
  | [] => (s, [])
  | g :: h => let r := (s.get g); let q := r.1.run h; (q.1, r.2 :: q.2)

/-! ## (b) W array -/

inductive WEnt where
  | arr (start : Nat) (ws : List Int)          -- c [w1 … wn]
  | range (first last : Nat) (w : Int)         -- cfirst clast w
deriving Repr, BEq, DecidableEq

structure WSt where
  i : Nat
  j : Nat
  out : List WEnt
deriving Repr

/-- one iteration `for k, width := range widths` of the encoder (`thr` = 4 in the source) -/
def wStep (thr : Nat) (widths : List Int) (dw : Int) (st : WSt) (k : Nat) : WSt :=
  if k ≠ 0 ∧ widths.getD k 0 ≠ widths.getD st.j 0 then
    if thr < k - st.j then
      let out1 := if st.i < st.j then st.out ++ [WEnt.arr st.i ((widths.drop st.i).take (st.j - st.i))] else st.out
      let out2 := if widths.getD st.j 0 ≠ dw then out1 ++ [WEnt.range st.j (k - 1) (widths.getD st.j 0)] else out1
      ⟨k, k, out2⟩
    else ⟨st.i, k, st.out⟩
  else st

def wLoop (thr : Nat) (widths : List Int) (dw : Int) (m : Nat) : WSt :=
  (List.range m).foldl (wStep thr widths dw) ⟨1, 1, []⟩

/-- `widths := make([]int, len(glyphIDs)+1)`: the real list plus one trailing zero -/
def wWidths (ws : List Int) : List Int := ws ++ [0]

def wFinish (widths : List Int) (st : WSt) : List WEnt :=
  if st.i < widths.length then st.out ++ [WEnt.arr st.i (widths.drop st.i)] else st.out

/-- returns (DW, W); `thr` is the run length above which the `cfirst clast w` form is used
(`4 < k-j` in the source; the theorems hold for every threshold, so retuning it is harmless) -/
def encodeWT (thr : Nat) (ws : List Int) : Int × List WEnt :=
  let widths := wWidths ws
  let dw := widths.getD 0 0
  (dw, wFinish widths (wLoop thr widths dw widths.length))

/-- the encoder as written in /repo/renderers/pdf/writer.go -/
def encodeW (ws : List Int) : Int × List WEnt := encodeWT 4 ws

/-- L3: width an entry assigns to a CID, if any (§9.7.4.3) -/
def WEnt.width? : WEnt → Nat → Option Int
  | .arr s ws, cid => if s ≤ cid then ws[cid - s]? else none
  | .range a b w, cid => if a ≤ cid ∧ cid ≤ b then some w else none

def wLook (W : List WEnt) (cid : Nat) : Option Int := W.findSome? (fun e => e.width? cid)

/-- L3: the width a reader uses for a CID: the W entry if there is one, else DW -/
def lookupW (dw : Int) (W : List WEnt) (cid : Nat) : Int := (wLook W cid).getD dw

def decodeW (dw : Int) (W : List WEnt) (n : Nat) : List Int := (List.range n).map (lookupW dw W)

/-! ## (c) ToUnicode -/

/-- the uint32 the builder prints for a code point: UTF-16 surrogate pair packed in one word -/
def pack (u : Nat) : Nat :=
  if 0x10000 ≤ u ∧ u ≤ 0x10FFFF then
    (0xD800 + (u - 0x10000) / 1024 % 1024) * 65536 + 0xDC00 + (u - 0x10000) % 1024
  else u

structure TU where
  sc : Nat                         -- startGlyphID
  su : Nat                         -- startUnicode
  len : Nat                        -- length
  ranges : List (Nat × Nat × Nat)  -- <lo> <hi> <dst>
  chars : List (Nat × Nat)         -- <code> <dst>
deriving Repr

def TU.flush (t : TU) : List (Nat × Nat × Nat) × List (Nat × Nat) :=
  if 1 < t.len then (t.ranges ++ [(t.sc, t.sc + t.len - 1, t.su)], t.chars)
  else (t.ranges, t.chars ++ [(t.sc, t.su)])

/-- one iteration for subset code `c` with packed unicode `v`; a run is only extended while the low byte
of the destination does not wrap (`unicode&0xFF != 0`, /repo 6081df5) -/
def tuStep (t : TU) (c v : Nat) : TU :=
  if c = t.sc + t.len ∧ v = t.su + t.len ∧ v % 256 ≠ 0 then { t with len := t.len + 1 }
  else ⟨c, v, 1, t.flush.1, t.flush.2⟩

def tuLoop : TU → Nat → List Nat → TU
  | t, _, [] => t
  | t, c, v :: vs => tuLoop (tuStep t c v) (c + 1) vs

def TU.init : TU := ⟨0, 0xFFFD, 1, [], []⟩

/-- packed level (input already packed) -/
def encodeTUP (vs : List Nat) : List (Nat × Nat × Nat) × List (Nat × Nat) := (tuLoop TU.init 1 vs).flush

/-- the builder on the code points of subset codes 1, 2, … -/
def encodeTU (us : List Nat) : List (Nat × Nat × Nat) × List (Nat × Nat) := encodeTUP (us.map pack)

/-- destination strings as the builder prints them (`%04X`): two bytes, or four for a packed pair -/
inductive Dst where
  | two (a b : Nat)
  | four (a b c d : Nat)
deriving Repr, BEq, DecidableEq

def dst (v : Nat) : Dst :=
  if v < 0x10000 then .two (v / 256) (v % 256)
  else .four (v / 16777216 % 256) (v / 65536 % 256) (v / 256 % 256) (v % 256)

def Dst.last : Dst → Nat
  | .two _ b => b
  | .four _ _ _ d => d

/-- L3 §9.10.3: "the last byte of the string shall be incremented" -/
def Dst.inc : Dst → Nat → Dst
  | .two a b, k => .two a (b + k)
  | .four a b c d, k => .four a b c (d + k)

/-- L3: UTF-16BE string holding exactly one Unicode scalar value -/
def Dst.scalar? : Dst → Option Nat
  | .two a b =>
    if a < 256 ∧ b < 256 ∧ ¬ (0xD800 ≤ a * 256 + b ∧ a * 256 + b ≤ 0xDFFF) then some (a * 256 + b) else none
  | .four a b c d =>
    if a < 256 ∧ b < 256 ∧ c < 256 ∧ d < 256 ∧ 0xD800 ≤ a * 256 + b ∧ a * 256 + b ≤ 0xDBFF ∧
        0xDC00 ≤ c * 256 + d ∧ c * 256 + d ≤ 0xDFFF then
      some (0x10000 + (a * 256 + b - 0xD800) * 1024 + (c * 256 + d - 0xDC00))
    else none

def inRange (code : Nat) (r : Nat × Nat × Nat) : Bool := decide (r.1 ≤ code ∧ code ≤ r.2.1)

/-- L3 strict reader: a bfrange is only defined when the last byte of its destination is
≤ 255 − (hi − lo) ("otherwise the result of mapping is undefined"); bfrange is consulted before bfchar. -/
def tuLookup (R : List (Nat × Nat × Nat)) (C : List (Nat × Nat)) (code : Nat) : Option Nat :=
  match R.find? (inRange code) with
  | some r => if (dst r.2.2).last + (r.2.1 - r.1) ≤ 255 then ((dst r.2.2).inc (code - r.1)).scalar? else none
  | none =>
    match C.find? (fun c => c.1 == code) with
    | some c => (dst c.2).scalar?
    | none => none

def decodeTU (R : List (Nat × Nat × Nat)) (C : List (Nat × Nat)) (n : Nat) : List (Option Nat) :=
  (List.range n).map (fun k => tuLookup R C (k + 1))

def validScalar (u : Nat) : Bool := decide (u ≤ 0x10FFFF ∧ ¬ (0xD800 ≤ u ∧ u ≤ 0xDFFF))

/-! ## (d) TJ adjustment -/

/-- `-int(f*float64(dx)+0.5)` with `f = 1000/upm` in exact arithmetic; Go's `int()` truncates. -/
def tjAdjust (upm dx : Int) : Int := -((2000 * dx + upm).tdiv (2 * upm))

/-- `int(f*float64(adv)+0.5)` for the W array (advances are unsigned) -/
def wWidth (upm adv : Int) : Int := (2000 * adv + upm).tdiv (2 * upm)

/-! ## (e) pen positions of `toPath`, `textWidth` (font units) -/

structure G where
  xadv : Int
  yadv : Int
  xoff : Int
  yoff : Int
  vert : Bool
deriving Repr

/-- positions handed to `GlyphPath` (before the factor `f`) and the final pen `x` -/
def penRun : Int → Int → List G → List (Int × Int) × Int
  | x, _, [] => ([], x)
  | x, y, g :: gs => let r := penRun (x + g.xadv) (y + g.yadv) gs; ((x + g.xoff, y + g.yoff) :: r.1, r.2)

def textWidthUnits : List G → Int
  | [] => 0
  | g :: gs => (if g.vert then - g.yadv else g.xadv) + textWidthUnits gs

/-! ## (f) outline placement and scaling of `toPath` (font units; `f` = the face's `MmPerEm`)

`GlyphPath(p, id, ppem, f*(x+xoff), f*(y+yoff), f, NoHinting)` draws the point `c` of the glyph outline at
`f*(x+xoff) + f*c`. The model is a function of the face scale, the face offsets, the glyphs and their
outlines only — in particular it has no memory of earlier calls or faces, and `ppem` does not occur. -/

/-- the outline points of one glyph drawn with pen `(px,py)` (pen + glyph offset) at scale `f` -/
def glyphPts (f px py : Int) (outline : List (Int × Int)) : List (Int × Int) :=
  outline.map (fun c => (f * px + f * c.1, f * py + f * c.2))

/-- all outline points `toPath` emits, in order -/
def toPathPts (f : Int) : Int → Int → List (G × List (Int × Int)) → List (Int × Int)
  | _, _, [] => []
  | x, y, (g, o) :: gs => glyphPts f (x + g.xoff) (y + g.yoff) o ++ toPathPts f (x + g.xadv) (y + g.yadv) gs

def scalePts (k : Int) (ps : List (Int × Int)) : List (Int × Int) := ps.map (fun p => (k * p.1, k * p.2))

end Canvas.C18
