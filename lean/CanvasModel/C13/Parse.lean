import CanvasModel.C13
import CanvasModel.C13.Reader
/-
C13 — a list-based object parser with the same token rules as the L3 reader's `parseObj`
(white space, delimiters, regular characters, literal strings by `readLit`, the `n g R` look-ahead),
written by structural recursion on fuel so that theorems can be proved about it:
`CanvasProofs/Lemmas/C13Parse*.lean` prove `parseVal f (ser v ++ tail) = some (norm v, tail)`.
Numbers are kept as their text (`Val.num`); hex strings, comments and `null` are not needed for the
writer's output and are not parsed here (the ByteArray reader handles them).
-/
namespace Canvas.C13.P
open Canvas.C13 Canvas.C13.Rd

def skipWs : Bytes → Bytes
  | [] => []
  | c :: r => if isWS c then skipWs r else c :: r

/-- longest prefix of regular characters, and the rest -/
def spanReg : Bytes → Bytes × Bytes
  | [] => ([], [])
  | c :: r => if isReg c then ((spanReg r).1 |> (c :: ·), (spanReg r).2) else ([], c :: r)

def kTrue : Bytes := asc "true"
def kFalse : Bytes := asc "false"

/-- the `n g R` look-ahead after a non-negative integer token: the input after `R`, if present -/
def refAhead (r : Bytes) : Option Bytes :=
  let r1 := skipWs r
  let t2 := (spanReg r1).1
  let r2 := (spanReg r1).2
  let r3 := skipWs r2
  if isNatTok t2 && r1.length < r.length && r3.length < r2.length then
    match r3 with
    | c :: r4 =>
      if c == 0x52 then
        match r4 with
        | [] => some r4
        | d :: _ => if isReg d then none else some r4
      else none
    | [] => none
  else none

mutual
  def parseVal : Nat → Bytes → Option (Val × Bytes)
    | 0, _ => none
    | f + 1, inp =>
      match skipWs inp with
      | [] => none
      | c :: rest =>
        if c = 0x2F then some (.name (unescName (spanReg rest).1), (spanReg rest).2)
        else if c = 0x28 then
          match readLit 0 rest with
          | some (s, r) => some (.str s, r)
          | none => none
        else if c = 0x5B then
          match parseList f rest with
          | some (xs, r) => some (.arr xs, r)
          | none => none
        else if c = 0x3C then
          match rest with
          | d :: r1 =>
            if d = 0x3C then
              match parseKvs f r1 with
              | some (kvs, r) => some (.dict kvs, r)
              | none => none
            else none
          | [] => none
        else if isReg c then
          let t := (spanReg (c :: rest)).1
          let r := (spanReg (c :: rest)).2
          if isNatTok t then
            match refAhead r with
            | some r' => some (.ref (natOf t), r')
            | none => some (.num t, r)
          else if t = kTrue then some (.bool true, r)
          else if t = kFalse then some (.bool false, r)
          else if isNumTok t then some (.num t, r)
          else none            -- `NaN`, `Inf`, operators … are not objects
        else none
  def parseList : Nat → Bytes → Option (List Val × Bytes)
    | 0, _ => none
    | f + 1, inp =>
      match skipWs inp with
      | [] => none
      | c :: rest =>
        if c = 0x5D then some ([], rest)
        else
          match parseVal f (c :: rest) with
          | some (v, r) =>
            match parseList f r with
            | some (vs, r') => some (v :: vs, r')
            | none => none
          | none => none
  def parseKvs : Nat → Bytes → Option (List (Bytes × Val) × Bytes)
    | 0, _ => none
    | f + 1, inp =>
      match skipWs inp with
      | [] => none
      | c :: rest =>
        if c = 0x3E then
          match rest with
          | d :: r => if d = 0x3E then some ([], r) else none
          | [] => none
        else if c = 0x2F then
          match parseVal f (spanReg rest).2 with
          | some (v, r) =>
            match parseKvs f r with
            | some (kvs, r') => some ((unescName (spanReg rest).1, v) :: kvs, r')
            | none => none
          | none => none
        else none
end

-- what the parser returns for a serialised value: integers become number text
mutual
  def norm : Val → Val
    | .int i => .num (intBytes i)
    | .arr xs => .arr (normList xs)
    | .dict kvs => .dict (normKvs kvs)
    | .stream kvs body => .stream (normKvs kvs) body
    | v => v
  def normList : List Val → List Val
    | [] => []
    | v :: vs => norm v :: normList vs
  def normKvs : List (Bytes × Val) → List (Bytes × Val)
    | [] => []
    | (k, v) :: r => (k, norm v) :: normKvs r
end

-- number of nodes: enough fuel for `parseVal`
mutual
  def size : Val → Nat
    | .arr xs => 1 + sizeList xs
    | .dict kvs => 1 + sizeKvs kvs
    | .stream kvs _ => 1 + sizeKvs kvs
    | _ => 1
  def sizeList : List Val → Nat
    | [] => 1
    | v :: vs => 1 + size v + sizeList vs
  def sizeKvs : List (Bytes × Val) → Nat
    | [] => 1
    | (_, v) :: r => 1 + size v + sizeKvs r
end

-- canonical text of a value tree (for the driver: compare parse results across implementations)
mutual
  def show' : Val → Bytes
    | .bool b => if b then asc "T" else asc "F"
    | .int i => 0x23 :: intBytes i
    | .num p => 0x23 :: p
    | .str s => 0x28 :: asc (Rd.hexOf s) ++ [0x29]
    | .ref n => 0x52 :: natBytes n
    | .name s => 0x2F :: asc (Rd.hexOf s)
    | .arr xs => 0x5B :: showList xs ++ [0x5D]
    | .dict kvs => 0x7B :: showKvs kvs ++ [0x7D]
    | .stream kvs _ => 0x7B :: showKvs kvs ++ [0x7D]
  def showList : List Val → Bytes
    | [] => []
    | v :: vs => show' v ++ 0x20 :: showList vs
  def showKvs : List (Bytes × Val) → Bytes
    | [] => []
    | (k, v) :: r => asc (Rd.hexOf k) ++ 0x3D :: show' v ++ 0x20 :: showKvs r
end

/-! ### stream objects -/

def dropPrefix : Bytes → Bytes → Option Bytes
  | [], inp => some inp
  | _ :: _, [] => none
  | p :: ps, c :: r => if p = c then dropPrefix ps r else none

/-- the direct, non-negative integer `/Length` of a parsed stream dictionary -/
def lookupLen (kvs : List (Bytes × Val)) : Option Nat :=
  match kvs.find? (fun e => e.1 == kLength) with
  | some (_, .num t) => if isNatTok t then some (natOf t) else none
  | _ => none

/-- after the dictionary: `stream`, one end-of-line marker (LF or CR LF), exactly `len` bytes, an
optional end-of-line marker, `endstream` (7.3.8.1). Returns the bytes and the input after `endstream`. -/
def readStream (len : Nat) (inp : Bytes) : Option (Bytes × Bytes) :=
  match dropPrefix (asc "stream") (skipWs inp) with
  | none => none
  | some r =>
    let r1 := match r with
      | 0x0D :: 0x0A :: r' => some r'
      | 0x0A :: r' => some r'
      | _ => none
    match r1 with
    | none => none
    | some r1 =>
      if r1.length < len then none else
      let body := r1.take len
      let r2 := r1.drop len
      let r3 := match r2 with
        | 0x0D :: 0x0A :: r' => r'
        | 0x0A :: r' => r'
        | 0x0D :: r' => r'
        | r' => r'
      (dropPrefix (asc "endstream") r3).map (fun rest => (body, rest))

/-- a stream object body: dictionary, then the stream data delimited by `/Length` -/
def parseStreamObj (f : Nat) (inp : Bytes) : Option (List (Bytes × Val) × Bytes × Bytes) :=
  match parseVal f inp with
  | some (.dict kvs, r) =>
    match lookupLen kvs with
    | some len => (readStream len r).map (fun (body, rest) => (kvs, body, rest))
    | none => none
  | _ => none

/-! ### shape of printed numbers -/

/-- what a decimal printer emits for a finite number: optional minus sign, integer digits, and a
point followed by fraction digits when there are any (`dec` drops a zero integer part: `.5`) -/
def decShape (neg : Bool) (ip fr : Bytes) : Bytes :=
  (if neg then [0x2D] else []) ++ (ip ++ (if fr.isEmpty then [] else 0x2E :: fr))

def spanDigits : Bytes → Bytes × Bytes
  | [] => ([], [])
  | c :: r => if isDigit c then ((spanDigits r).1 |> (c :: ·), (spanDigits r).2) else ([], c :: r)

/-- decompose a printed number into sign, integer digits, fraction digits; `none` if it is not of
the shape `-?d*(.d+)?` with at least one digit -/
def decParse (p : Bytes) : Option (Bool × Bytes × Bytes) :=
  let neg := p.head? == some 0x2D
  let q := if neg then p.drop 1 else p
  let ip := (spanDigits q).1
  match (spanDigits q).2 with
  | [] => if ip.isEmpty then none else some (neg, ip, [])
  | c :: fr => if c == 0x2E && !fr.isEmpty && fr.all isDigit then some (neg, ip, fr) else none

end Canvas.C13.P
