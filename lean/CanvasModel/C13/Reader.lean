import CanvasModel.C13
/-
C13 — L3: a minimal, independent PDF reader (specification side). It reads a whole file the way
PDF 32000-1 prescribes — `startxref` → cross-reference table → trailer → indirect objects at the
recorded offsets → catalog → page tree → resources → content streams — and reports either a
summary (`ok …`) or the sorted set of structural error classes (`bad …`). It shares NO code with the
writer model except the literal-string reader `readLit` (the §7.3.4.2 rules the theorems are about).
Core Lean only; all recursion is by fuel so every function is total.
-/
namespace Canvas.C13.Rd
open Canvas.C13

inductive PV where
  | null
  | bool (b : Bool)
  | num (txt : Bytes)
  | str (s : Bytes)
  | name (s : Bytes)
  | arr (xs : List PV)
  | dict (kvs : List (Bytes × PV))
  | ref (n : Nat)
  | kw (s : Bytes)
deriving Inhabited

def isWS (c : UInt8) : Bool := c == 0 || c == 9 || c == 10 || c == 12 || c == 13 || c == 32
def isDelim (c : UInt8) : Bool :=
  c == 0x28 || c == 0x29 || c == 0x3C || c == 0x3E || c == 0x5B || c == 0x5D || c == 0x7B || c == 0x7D || c == 0x2F || c == 0x25
def isReg (c : UInt8) : Bool := !(isWS c) && !(isDelim c)
def isDigit (c : UInt8) : Bool := 0x30 ≤ c && c ≤ 0x39

def at' (b : ByteArray) (i : Nat) : UInt8 := if i < b.size then b.get! i else 0

def skipToEol (b : ByteArray) : Nat → Nat → Nat
  | 0, i => i
  | f + 1, i => if i < b.size then (if at' b i == 10 || at' b i == 13 then i else skipToEol b f (i + 1)) else i

/-- skip white space and comments -/
def skipWS (b : ByteArray) : Nat → Nat → Nat
  | 0, i => i
  | f + 1, i =>
    if i < b.size then
      let c := at' b i
      if isWS c then skipWS b f (i + 1)
      else if c == 0x25 then skipWS b f (skipToEol b (b.size - i) i)
      else i
    else i

/-- skip white space only (used where a `%` must not start a comment: before `%%EOF`) -/
def skipSpace (b : ByteArray) : Nat → Nat → Nat
  | 0, i => i
  | f + 1, i => if i < b.size && isWS (at' b i) then skipSpace b f (i + 1) else i

def sws (b : ByteArray) (i : Nat) : Nat := skipWS b (2 * (b.size - i) + 2) i

def regEnd (b : ByteArray) : Nat → Nat → Nat
  | 0, i => i
  | f + 1, i => if i < b.size && isReg (at' b i) then regEnd b f (i + 1) else i

def slice (b : ByteArray) (i j : Nat) : Bytes := (b.extract i j).toList

def isNatTok (t : Bytes) : Bool := !t.isEmpty && t.all isDigit
def natOf (t : Bytes) : Nat := t.foldl (fun a c => a * 10 + (c.toNat - 48)) 0

def hexVal (c : UInt8) : Option Nat :=
  if 0x30 ≤ c && c ≤ 0x39 then some (c.toNat - 0x30)
  else if 0x41 ≤ c && c ≤ 0x46 then some (c.toNat - 0x41 + 10)
  else if 0x61 ≤ c && c ≤ 0x66 then some (c.toNat - 0x61 + 10)
  else none

def stripSign : Bytes → Bytes
  | [] => []
  | c :: r => if c == 0x2B || c == 0x2D then r else c :: r

def numBody (t1 : Bytes) : Bool :=
  !t1.isEmpty && t1.all (fun c => isDigit c || c == 0x2E) && (t1.filter (· == 0x2E)).length ≤ 1 && t1.any isDigit

/-- PDF number syntax (7.3.3): optional sign, digits with at most one point, at least one digit -/
def isNumTok (t : Bytes) : Bool := numBody (stripSign t)

/-- name objects (7.3.5): `#xx` with two hexadecimal digits stands for the byte xx -/
def unescName : Bytes → Bytes
  | c :: h1 :: h2 :: r2 =>
    if c == 0x23 then
      match hexVal h1, hexVal h2 with
      | some a, some b => (a * 16 + b).toUInt8 :: unescName r2
      | _, _ => c :: unescName (h1 :: h2 :: r2)
    else c :: unescName (h1 :: h2 :: r2)
  | c :: r => c :: unescName r
  | [] => []

def startsAt (b : ByteArray) (i : Nat) (s : Bytes) : Bool := slice b i (i + s.length) == s

def hexPairs : List Nat → Bytes
  | a :: b :: r => (a * 16 + b).toUInt8 :: hexPairs r
  | [a] => [(a * 16).toUInt8]
  | [] => []

/-- One object (or keyword) starting at or after `i`. `refs` = recognise `n g R`. -/
def parseObj (b : ByteArray) (refs : Bool) : Nat → Nat → Option (PV × Nat)
  | 0, _ => none
  | f + 1, i0 =>
    let i := sws b i0
    if i ≥ b.size then none else
    let c := at' b i
    if c == 0x2F then
      let j := regEnd b (b.size - i) (i + 1)
      some (.name (unescName (slice b (i + 1) j)), j)
    else if c == 0x28 then
      let rest := slice b (i + 1) b.size
      match readLit 0 rest with
      | none => none
      | some (s, r) => some (.str s, b.size - r.length)
    else if c == 0x3C then
      if at' b (i + 1) == 0x3C then
        -- dictionary
        let rec loop (g : Nat) (k : Nat) (acc : List (Bytes × PV)) : Option (PV × Nat) :=
          match g with
          | 0 => none
          | g + 1 =>
            let k1 := sws b k
            if at' b k1 == 0x3E && at' b (k1 + 1) == 0x3E then some (.dict acc.reverse, k1 + 2)
            else match parseObj b refs f k1 with
              | some (.name key, k2) =>
                match parseObj b refs f k2 with
                | some (v, k3) => loop g k3 ((key, v) :: acc)
                | none => none
              | _ => none
        loop (b.size - i + 1) (i + 2) []
      else
        -- hex string
        let j := (List.range (b.size - i)).find? (fun d => at' b (i + 1 + d) == 0x3E)
        match j with
        | none => none
        | some d =>
          let body := (slice b (i + 1) (i + 1 + d)).filter (fun c => !(isWS c))
          if body.all (fun c => (hexVal c).isSome) then
            some (.str (hexPairs (body.filterMap hexVal)), i + 2 + d)
          else none
    else if c == 0x5B then
      let rec aloop (g : Nat) (k : Nat) (acc : List PV) : Option (PV × Nat) :=
        match g with
        | 0 => none
        | g + 1 =>
          let k1 := sws b k
          if at' b k1 == 0x5D then some (.arr acc.reverse, k1 + 1)
          else match parseObj b refs f k1 with
            | some (v, k2) => aloop g k2 (v :: acc)
            | none => none
      aloop (b.size - i + 1) (i + 1) []
    else if isReg c then
      let j := regEnd b (b.size - i) i
      let t := slice b i j
      if isNatTok t && refs then
        -- look ahead for "g R"
        let k1 := sws b j
        let k2 := regEnd b (b.size - k1) k1
        let t2 := slice b k1 k2
        let k3 := sws b k2
        if isNatTok t2 && k1 > j && k3 > k2 && at' b k3 == 0x52 && !(isReg (at' b (k3 + 1)) && k3 + 1 < b.size) then
          some (.ref (natOf t), k3 + 1)
        else some (.num t, j)
      else if isNumTok t then some (.num t, j)
      else if t == asc "true" then some (.bool true, j)
      else if t == asc "false" then some (.bool false, j)
      else if t == asc "null" then some (.null, j)
      else some (.kw t, j)
    else none

def PV.get (v : PV) (k : String) : Option PV :=
  match v with
  | .dict kvs => (kvs.find? (fun e => e.1 == asc k)).map (·.2)
  | _ => none

def PV.isName (v : Option PV) (n : String) : Bool :=
  match v with
  | some (.name s) => s == asc n
  | _ => false

def PV.nat? : Option PV → Option Nat
  | some (.num t) => if isNatTok t then some (natOf t) else none
  | _ => none

structure Obj where
  val : PV
  body : Option Bytes
deriving Inhabited

structure Ent where
  off : Nat
  inUse : Bool
deriving Inhabited

/-- 20-byte xref entry at `i` -/
def parseEntry (b : ByteArray) (i : Nat) : Option Ent :=
  let s := slice b i (i + 20)
  if s.length != 20 then none else
  let o := s.take 10
  let g := (s.drop 11).take 5
  let t := s.getD 17 0
  let e1 := s.getD 18 0
  let e2 := s.getD 19 0
  if o.all isDigit && g.all isDigit && s.getD 10 0 == 32 && s.getD 16 0 == 32 && (t == 0x6E || t == 0x66)
      && ((e1 == 32 && (e2 == 10 || e2 == 13)) || (e1 == 13 && e2 == 10)) then
    some { off := natOf o, inUse := t == 0x6E }
  else none

def findLast (b : ByteArray) (s : Bytes) : Option Nat :=
  (List.range (b.size + 1)).reverse.find? (fun i => startsAt b i s)

def adler32 (bs : Bytes) : Nat :=
  let (a, b) := bs.foldl (fun (p : Nat × Nat) c => let a := (p.1 + c.toNat) % 65521; (a, (p.2 + a) % 65521)) (1, 0)
  b * 65536 + a

def hasFlate (d : PV) : Bool :=
  match d.get "Filter" with
  | some (.name s) => s == asc "FlateDecode"
  | some (.arr xs) => xs.any (fun x => match x with | .name s => s == asc "FlateDecode" | _ => false)
  | _ => false

/-- all references inside a value -/
def refsOf : Nat → PV → List Nat
  | 0, _ => []
  | _ + 1, .ref n => [n]
  | f + 1, .arr xs => xs.flatMap (refsOf f)
  | f + 1, .dict kvs => kvs.flatMap (fun e => refsOf f e.2)
  | _, _ => []

/-- bare keywords inside a value (e.g. `NaN` where a number is required) -/
def kwsOf : Nat → PV → List Bytes
  | 0, _ => []
  | _ + 1, .kw s => [s]
  | f + 1, .arr xs => xs.flatMap (kwsOf f)
  | f + 1, .dict kvs => kvs.flatMap (fun e => kwsOf f e.2)
  | _, _ => []

structure Doc where
  size : Nat
  objs : List (Nat × Obj)
  trailer : PV

def Doc.obj (d : Doc) (n : Nat) : Option Obj := (d.objs.find? (fun e => e.1 == n)).map (·.2)

/-- resolve one level of indirection -/
def Doc.deref (d : Doc) : Option PV → Option PV
  | some (.ref n) => (d.obj n).map (·.val)
  | v => v

def toStr (b : Bytes) : String := String.mk (b.map (fun c => Char.ofNat c.toNat))

/-- operator table: name ↦ number of operands (none = variable) -/
def opTable : List (String × Option Nat) := [
  ("q", some 0), ("Q", some 0), ("cm", some 6), ("w", some 1), ("J", some 1), ("j", some 1), ("M", some 1),
  ("d", some 2), ("ri", some 1), ("i", some 1), ("gs", some 1),
  ("m", some 2), ("l", some 2), ("c", some 6), ("v", some 4), ("y", some 4), ("h", some 0), ("re", some 4),
  ("S", some 0), ("s", some 0), ("f", some 0), ("F", some 0), ("f*", some 0), ("B", some 0), ("B*", some 0),
  ("b", some 0), ("b*", some 0), ("n", some 0), ("W", some 0), ("W*", some 0),
  ("BT", some 0), ("ET", some 0), ("Tc", some 1), ("Tw", some 1), ("Tz", some 1), ("TL", some 1), ("Tf", some 2),
  ("Tr", some 1), ("Ts", some 1), ("Td", some 2), ("TD", some 2), ("Tm", some 6), ("T*", some 0),
  ("Tj", some 1), ("TJ", some 1), ("'", some 1), ("\"", some 3),
  ("CS", some 1), ("cs", some 1), ("SC", none), ("SCN", none), ("sc", none), ("scn", none),
  ("G", some 1), ("g", some 1), ("RG", some 3), ("rg", some 3), ("K", some 4), ("k", some 4),
  ("sh", some 1), ("Do", some 1)]

def textOps : List String := ["Tc", "Tw", "Tz", "TL", "Tf", "Tr", "Ts", "Td", "TD", "Tm", "T*", "Tj", "TJ", "'", "\""]

structure CS where
  errs : List String := []
  ops : Nat := 0
  resUses : Nat := 0
  inText : Bool := false
  depth : Nat := 0
  stack : List PV := []

def resHas (d : Doc) (res : PV) (cat : String) (name : Bytes) : Bool :=
  match d.deref (res.get cat) with
  | some (.dict kvs) => kvs.any (fun e => e.1 == name)
  | _ => false

def csStep (d : Doc) (res : PV) (st : CS) (tok : PV) : CS :=
  match tok with
  | .kw t =>
    let name := toStr t
    if name == "NaN" || name == "Inf" || name == "+Inf" || name == "-Inf" then
      -- a non-finite number printed by Go: not a PDF number; keep it as an operand so that the
      -- operator that follows is not blamed as well
      { st with errs := ("cs-number:" ++ name) :: st.errs, stack := .num t :: st.stack }
    else
    let args := st.stack.reverse
    let st := { st with stack := [], ops := st.ops + 1 }
    match opTable.find? (fun e => e.1 == name) with
    | none => { st with errs := ("op-unknown:" ++ name) :: st.errs }
    | some (_, ar) =>
      let st := match ar with
        | some n => if args.length == n then st else { st with errs := ("op-arity:" ++ name) :: st.errs }
        | none => st
      let st := if textOps.contains name && !st.inText then { st with errs := ("text-op-outside:" ++ name) :: st.errs } else st
      let useRes (st : CS) (cat : String) (a : Option PV) : CS :=
        match a with
        | some (.name n) => if resHas d res cat n then { st with resUses := st.resUses + 1 } else { st with errs := ("res:" ++ cat) :: st.errs }
        | _ => { st with errs := ("op-operand:" ++ name) :: st.errs }
      if name == "BT" then
        if st.inText then { st with errs := "bt-nested" :: st.errs } else { st with inText := true }
      else if name == "ET" then
        if st.inText then { st with inText := false } else { st with errs := "et-unmatched" :: st.errs }
      else if name == "q" then
        let st := if st.inText then { st with errs := "q-in-text" :: st.errs } else st
        { st with depth := st.depth + 1 }
      else if name == "Q" then
        let st := if st.inText then { st with errs := "q-in-text" :: st.errs } else st
        if st.depth == 0 then { st with errs := "q-underflow" :: st.errs } else { st with depth := st.depth - 1 }
      else if name == "gs" then useRes st "ExtGState" args.head?
      else if name == "Tf" then useRes st "Font" args.head?
      else if name == "Do" then useRes st "XObject" args.head?
      else if name == "sh" then useRes st "Shading" args.head?
      else if name == "cs" || name == "CS" then
        match args.head? with
        | some (.name n) =>
          if n == asc "DeviceGray" || n == asc "DeviceRGB" || n == asc "DeviceCMYK" || n == asc "Pattern" then st
          else useRes st "ColorSpace" args.head?
        | _ => { st with errs := ("op-operand:" ++ name) :: st.errs }
      else if name == "scn" || name == "SCN" then
        match args.getLast? with
        | some (.name _) => useRes st "Pattern" args.getLast?
        | _ => st
      else
        -- every other operator takes numbers only (strings/arrays for the text-showing and dash operators)
        let okArg (a : PV) : Bool := match a with
          | .num _ => true
          | .str _ => name == "Tj" || name == "'" || name == "\""
          | .arr _ => name == "TJ" || name == "d"
          | _ => false
        if args.all okArg then st else { st with errs := ("op-operand:" ++ name) :: st.errs }
  | v => { st with stack := v :: st.stack }

def csLoop (d : Doc) (res : PV) (b : ByteArray) : Nat → Nat → CS → CS
  | 0, _, st => st
  | f + 1, i, st =>
    let i1 := sws b i
    if i1 ≥ b.size then st else
    match parseObj b false (b.size + 2) i1 with
    | none => { st with errs := "cs-token" :: st.errs }
    | some (tok, j) => if j ≤ i1 then { st with errs := "cs-token" :: st.errs } else csLoop d res b f j (csStep d res st tok)

def checkContent (d : Doc) (res : PV) (content : Bytes) : CS :=
  let b := ByteArray.mk content.toArray
  let st := csLoop d res b (b.size + 1) 0 {}
  let st := if st.inText then { st with errs := "bt-open" :: st.errs } else st
  let st := if st.depth != 0 then { st with errs := "q-open" :: st.errs } else st
  if st.stack.isEmpty then st else { st with errs := "cs-trailing-operands" :: st.errs }

def isNums (v : Option PV) (n : Nat) : Bool :=
  match v with
  | some (.arr xs) => xs.length == n && xs.all (fun x => match x with | .num _ => true | _ => false)
  | _ => false

structure Acc where
  errs : List String := []
  pages : Nat := 0
  ops : Nat := 0
  resUses : Nat := 0

def streamData (infl : List (Nat × Bytes)) (n : Nat) (o : Obj) : Except String Bytes :=
  match o.body with
  | none => .error "contents"
  | some body =>
    if hasFlate o.val then
      match infl.find? (fun e => e.1 == n) with
      | some (_, data) => .ok data
      | none => .error "no-inflated"
    else if (o.val.get "Filter").isSome then .error "contents-filter"
    else .ok body

def checkPage (d : Doc) (infl : List (Nat × Bytes)) (parent : Nat) (pg : PV) (acc : Acc) : Acc :=
  let acc := { acc with pages := acc.pages + 1 }
  let acc := match pg.get "Parent" with
    | some (.ref p) => if p == parent then acc else { acc with errs := "page-parent" :: acc.errs }
    | _ => { acc with errs := "page-parent" :: acc.errs }
  let acc := if isNums (pg.get "MediaBox") 4 then acc else { acc with errs := "mediabox" :: acc.errs }
  let res := (d.deref (pg.get "Resources")).getD .null
  let acc := match res with
    | .dict _ => acc
    | _ => { acc with errs := "resources" :: acc.errs }
  let acc := match d.deref (pg.get "Annots") with
    | none => acc
    | some (.arr xs) =>
      if xs.all (fun a => match d.deref (some a) with
          | some (.dict kvs) => PV.isName ((PV.dict kvs).get "Subtype") "Link" && isNums ((PV.dict kvs).get "Rect") 4
          | _ => false) then acc else { acc with errs := "annot" :: acc.errs }
    | _ => { acc with errs := "annot" :: acc.errs }
  let crefs : List Nat := match pg.get "Contents" with
    | some (.ref n) => [n]
    | some (.arr xs) => xs.filterMap (fun x => match x with | .ref n => some n | _ => none)
    | _ => []
  if crefs.isEmpty then { acc with errs := "contents" :: acc.errs } else
  let datas := crefs.map (fun n => match d.obj n with
    | none => Except.error "contents"
    | some o => streamData infl n o)
  let firstErr : Option String := datas.findSome? (fun e => match e with | Except.error m => some m | Except.ok _ => none)
  match firstErr with
  | some e => { acc with errs := e :: acc.errs }
  | none =>
    let content := datas.foldl (fun a e => match e with | Except.ok x => a ++ [0x0A] ++ x | Except.error _ => a) []
    let cs := checkContent d res content
    { acc with errs := cs.errs ++ acc.errs, ops := acc.ops + cs.ops, resUses := acc.resUses + cs.resUses }

/-- walk a page-tree node; returns the accumulator and the number of leaves below -/
def walkPages (d : Doc) (infl : List (Nat × Bytes)) : Nat → Nat → Nat → Acc → Acc
  | 0, _, _, acc => { acc with errs := "page-tree-depth" :: acc.errs }
  | f + 1, parent, n, acc =>
    match d.obj n with
    | none => { acc with errs := "page-tree" :: acc.errs }
    | some o =>
      if PV.isName (o.val.get "Type") "Page" then checkPage d infl parent o.val acc
      else if PV.isName (o.val.get "Type") "Pages" then
        let before := acc.pages
        let acc := match o.val.get "Kids" with
          | some (.arr xs) => xs.foldl (fun a x => match x with
              | .ref k => walkPages d infl f n k a
              | _ => { a with errs := "page-tree" :: a.errs }) acc
          | _ => { acc with errs := "page-tree" :: acc.errs }
        match PV.nat? (o.val.get "Count") with
        | some c => if c == acc.pages - before then acc else { acc with errs := "page-count" :: acc.errs }
        | none => { acc with errs := "page-count" :: acc.errs }
      else { acc with errs := "page-type" :: acc.errs }

def hexOf (b : Bytes) : String :=
  String.mk (b.flatMap (fun c => [Nat.digitChar (c.toNat / 16), Nat.digitChar (c.toNat % 16)]))

def insertSorted (s : String) : List String → List String
  | [] => [s]
  | x :: xs => if s < x then s :: x :: xs else if s == x then x :: xs else x :: insertSorted s xs

def fmtErrs (errs : List String) : String :=
  "bad " ++ ",".intercalate (errs.foldl (fun a e => insertSorted e a) [])

def strField (d : Doc) (v : Option PV) (k : String) : String :=
  match v with
  | some dv => match d.deref (dv.get k) with
    | some (.str s) => if s.isEmpty then "e" else hexOf s
    | some _ => "?"
    | none => "-"
  | none => "-"

/-- The whole reader. `infl` = inflated data of Flate-compressed streams, by object number
(zlib is outside the reader; its Adler-32 trailer is checked against the supplied data). -/
def verdict (b : ByteArray) (infl : List (Nat × Bytes)) : String := Id.run do
  if !(startsAt b 0 (asc "%PDF-1.")) then return fmtErrs ["header"]
  let some sx := findLast b (asc "startxref") | return fmtErrs ["startxref"]
  let i1 := sws b (sx + 9)
  let i2 := regEnd b (b.size - i1) i1
  let xt := slice b i1 i2
  if !(isNatTok xt) then return fmtErrs ["startxref"]
  let x := natOf xt
  let mut errs : List String := []
  let i3 := skipSpace b (b.size - i2 + 1) i2
  if !(startsAt b i3 (asc "%%EOF")) then errs := "eof" :: errs
  if (slice b (i3 + 5) b.size).any (fun c => !(isWS c)) then errs := "eof-trailing" :: errs
  if !(startsAt b x (asc "xref")) then return fmtErrs ("xref-offset" :: errs)
  let j1 := sws b (x + 4)
  let j2 := regEnd b (b.size - j1) j1
  let j3 := sws b j2
  let j4 := regEnd b (b.size - j3) j3
  let t1 := slice b j1 j2
  let t2 := slice b j3 j4
  if !(isNatTok t1 && isNatTok t2) then return fmtErrs ("xref-format" :: errs)
  if natOf t1 != 0 then return fmtErrs ("xref-format" :: errs)
  let n := natOf t2
  -- exactly one end-of-line marker after the subsection header
  let e0 := if at' b j4 == 13 && at' b (j4 + 1) == 10 then j4 + 2 else if at' b j4 == 10 || at' b j4 == 13 then j4 + 1 else j4
  if e0 == j4 then return fmtErrs ("xref-format" :: errs)
  let ents := (List.range n).map (fun k => parseEntry b (e0 + 20 * k))
  if ents.any (·.isNone) then return fmtErrs ("xref-format" :: errs)
  let ents : List Ent := ents.map (·.getD default)
  if n == 0 then return fmtErrs ("xref-format" :: errs)
  if (ents.getD 0 default).inUse then errs := "xref-free" :: errs
  let tpos := sws b (e0 + 20 * n)
  if !(startsAt b tpos (asc "trailer")) then return fmtErrs ("trailer" :: errs)
  let some (tr, _) := parseObj b true (b.size + 2) (tpos + 7) | return fmtErrs ("trailer" :: errs)
  match PV.nat? (tr.get "Size") with
  | some sz => if sz != n then errs := "size" :: errs
  | none => errs := "size" :: errs
  -- objects
  let mut objs : List (Nat × Obj) := []
  for k in List.range n do
    if k == 0 then continue
    let e := ents.getD k default
    if !e.inUse then
      errs := "xref-entry-free" :: errs
      continue
    let p1 := e.off
    let p2 := regEnd b (b.size - p1) p1
    let q1 := sws b p2
    let q2 := regEnd b (b.size - q1) q1
    let r1 := sws b q2
    let numTok := slice b p1 p2
    let genTok := slice b q1 q2
    if !(isNatTok numTok && natOf numTok == k && numTok.head? != some 0x2B && isNatTok genTok && natOf genTok == 0 && startsAt b r1 (asc "obj")
         && p1 < b.size && q1 > p2 && r1 > q2) then
      errs := "xref-offset-obj" :: errs
      continue
    match parseObj b true (b.size + 2) (r1 + 3) with
    | none => errs := "obj-parse" :: errs
    | some (v, p3) =>
      let p4 := sws b p3
      if startsAt b p4 (asc "stream") then
        let s0 := p4 + 6
        let s1 := if at' b s0 == 13 && at' b (s0 + 1) == 10 then s0 + 2 else if at' b s0 == 10 then s0 + 1 else s0
        if s1 == s0 then errs := "stream-eol" :: errs
        match PV.nat? (v.get "Length") with
        | none =>
          errs := "length" :: errs
          objs := (k, { val := v, body := none }) :: objs
        | some len =>
          let body := slice b s1 (s1 + len)
          let a0 := s1 + len
          let a1 := if at' b a0 == 13 && at' b (a0 + 1) == 10 then a0 + 2 else if at' b a0 == 10 || at' b a0 == 13 then a0 + 1 else a0
          if !(startsAt b a1 (asc "endstream")) || body.length != len then errs := "length" :: errs
          else
            let a2 := sws b (a1 + 9)
            if !(startsAt b a2 (asc "endobj")) then errs := "endobj" :: errs
          if hasFlate v then
            let c0 := body.getD 0 0
            let c1 := body.getD 1 0
            if !(c0.toNat % 16 == 8 && (c0.toNat * 256 + c1.toNat) % 31 == 0 && body.length ≥ 6) then errs := "flate" :: errs
            match infl.find? (fun e => e.1 == k) with
            | some (_, data) =>
              let t := body.drop (body.length - 4)
              let ad := t.foldl (fun a c => a * 256 + c.toNat) 0
              if adler32 data != ad then errs := "flate-adler" :: errs
            | none => pure ()
          objs := (k, { val := v, body := some body }) :: objs
      else
        if !(startsAt b p4 (asc "endobj")) then errs := "endobj" :: errs
        objs := (k, { val := v, body := none }) :: objs
  let d : Doc := { size := n, objs := objs, trailer := tr }
  -- every reference resolves
  let allRefs := (refsOf 64 tr) ++ objs.flatMap (fun e => refsOf 64 e.2.val)
  if allRefs.any (fun r => (d.obj r).isNone) then errs := "ref" :: errs
  errs := ((kwsOf 64 tr) ++ objs.flatMap (fun e => kwsOf 64 e.2.val)).map (fun k => "obj-keyword:" ++ toStr k) ++ errs
  -- catalog and page tree
  let root := tr.get "Root"
  let cat := d.deref root
  let mut acc : Acc := {}
  match root, cat with
  | some (.ref _), some c =>
    if !(PV.isName (c.get "Type") "Catalog") then errs := "catalog" :: errs
    match c.get "Pages" with
    | some (.ref p) =>
      if !(PV.isName (((d.obj p).map (·.val)).bind (fun v => v.get "Type")) "Pages") then errs := "pages-type" :: errs
      else acc := walkPages d infl 16 0 p acc
    | _ => errs := "catalog-pages" :: errs
  | _, _ => errs := "root" :: errs
  errs := acc.errs ++ errs
  if !errs.isEmpty then return fmtErrs errs
  let info := d.deref (tr.get "Info")
  return s!"ok n={n} pages={acc.pages} ops={acc.ops} res={acc.resUses} T={strField d info "Title"} S={strField d info "Subject"} K={strField d info "Keywords"} A={strField d info "Author"} C={strField d info "Creator"} L={strField d cat "Lang"}"

end Canvas.C13.Rd
