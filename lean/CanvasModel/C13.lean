/-
C13 — L2 model of /repo/renderers/pdf/writer.go (pdfWriter bookkeeping) over bytes. Core Lean only.

What is modelled (and tied to the real code by the HIST / STR correspondence lines of harness/c13):
  * `write`/`writeBytes` + `pos`            → `emit`
  * `writeVal` for every pdf value kind      → `ser` (numbers printed by `dec` are carried as text)
  * `writeObject`, reservation in `getFont`, the late "objOffsets[ref-1] = pos" writes of
    `writeFont` and `Close`                  → `writeObject`, `reserve`, `lateWrite`
  * `NewPage`/`writePage`, page resources (Font, ExtGState), annotations, the text-object flag
  * `Close`: fonts, catalog, info (with the `encode` closure), page tree, xref, trailer, startxref
The zlib/ascii85 filters, `time.Now` and the *contents* of the font objects are parameters (`Env`).
-/
namespace Canvas.C13

abbrev Bytes := List UInt8

/-- ASCII constant. -/
def asc (s : String) : Bytes := s.toList.map (fun c => c.toNat.toUInt8)

/-- Go `%d`/`%v` of a non-negative int. -/
def natBytes (n : Nat) : Bytes :=
  if n < 10 then [(48 + n).toUInt8] else natBytes (n / 10) ++ [(48 + n % 10).toUInt8]
termination_by n
decreasing_by omega

def intBytes (i : Int) : Bytes :=
  if i < 0 then 0x2D :: natBytes i.natAbs else natBytes i.natAbs

/-- Go `%010d` of a non-negative int. -/
def pad10 (n : Nat) : Bytes :=
  let d := natBytes n
  List.replicate (10 - d.length) 0x30 ++ d

/-! ## Values and their serialisation (`writeVal`) -/

inductive Val where
  | bool (b : Bool)
  | int (i : Int)
  | num (printed : Bytes)          -- float64 printed by `dec` (text is a parameter)
  | str (s : Bytes)
  | ref (n : Nat)
  | name (s : Bytes)               -- pdfName and pdfFilter
  | arr (xs : List Val)
  | dict (kvs : List (Bytes × Val))
  | stream (kvs : List (Bytes × Val)) (body : Bytes)   -- body = bytes after the filters were applied
deriving Inhabited

/-- `pdfValContinuesName`: a space is needed between a key and these values. -/
def Val.continues : Val → Bool
  | .str _ | .name _ | .arr _ | .dict _ | .stream _ _ => false
  | _ => true

/-- literal-string escaping of `writeVal(string)`: four sequential `strings.Replace`
(backslash, both parentheses, and CARRIAGE RETURN → `\r`). -/
def escStr : Bytes → Bytes
  | [] => []
  | c :: cs =>
    if c = 0x5C then 0x5C :: 0x5C :: escStr cs
    else if c = 0x28 then 0x5C :: 0x28 :: escStr cs
    else if c = 0x29 then 0x5C :: 0x29 :: escStr cs
    else if c = 0x0D then 0x5C :: 0x72 :: escStr cs
    else c :: escStr cs

def writeString (s : Bytes) : Bytes := 0x28 :: escStr s ++ [0x29]

/-- Go string `<` (bytewise lexicographic). -/
def bytesLt : Bytes → Bytes → Bool
  | [], [] => false
  | [], _ :: _ => true
  | _ :: _, [] => false
  | a :: as, b :: bs => if a < b then true else if b < a then false else bytesLt as bs

/-- a serialised dictionary entry: key, "value continues the name" flag, serialised value -/
abbrev Entry := Bytes × Bool × Bytes

def insertEntry (e : Entry) : List Entry → List Entry
  | [] => [e]
  | x :: xs => if bytesLt e.1 x.1 then e :: x :: xs else x :: insertEntry e xs

def sortEntries : List Entry → List Entry
  | [] => []
  | e :: es => insertEntry e (sortEntries es)

def entryBytes (e : Entry) : Bytes :=
  0x2F :: e.1 ++ (if e.2.1 then [0x20] else []) ++ e.2.2

def kType : Bytes := asc "Type"
def kSubtype : Bytes := asc "Subtype"
def kLength : Bytes := asc "Length"

def findEntry (k : Bytes) (es : List Entry) : Option Entry := es.find? (fun e => e.1 == k)

def optBytes : Option Entry → Bytes
  | none => []
  | some e => entryBytes e

/-- `case pdfDict` of writeVal: Type, Subtype, then the other keys sorted. -/
def dictBytes (es : List Entry) : Bytes :=
  asc "<<" ++ optBytes (findEntry kType es) ++ optBytes (findEntry kSubtype es)
    ++ ((sortEntries (es.filter (fun e => e.1 != kType && e.1 != kSubtype))).map entryBytes).flatten
    ++ asc ">>"

/-- `v.dict["Length"] = len(b)` on serialised entries -/
def setLength (es : List Entry) (n : Nat) : List Entry :=
  es.filter (fun e => e.1 != kLength) ++ [(kLength, true, natBytes n)]

def joinSp : List Bytes → Bytes
  | [] => []
  | [x] => x
  | x :: y :: r => x ++ 0x20 :: joinSp (y :: r)

def streamBytes (es : List Entry) (body : Bytes) : Bytes :=
  dictBytes (setLength es body.length) ++ asc "stream\n" ++ body ++ asc "\nendstream\n"

mutual
  def ser : Val → Bytes
    | .bool b => if b then asc "true" else asc "false"
    | .int i => intBytes i
    | .num p => p
    | .str s => writeString s
    | .ref n => natBytes n ++ asc " 0 R"
    | .name s => 0x2F :: s
    | .arr xs => 0x5B :: joinSp (serList xs) ++ [0x5D]
    | .dict kvs => dictBytes (serKvs kvs)
    | .stream kvs body => streamBytes (serKvs kvs) body
  def serList : List Val → List Bytes
    | [] => []
    | v :: vs => ser v :: serList vs
  def serKvs : List (Bytes × Val) → List Entry
    | [] => []
    | (k, v) :: r => (k, v.continues, ser v) :: serKvs r
end

/-! ## Literal-string reader of PDF 32000-1 §7.3.4.2 (specification, L3) -/

def isOct (c : UInt8) : Bool := 0x30 ≤ c && c ≤ 0x37
def octVal (c : UInt8) : Nat := c.toNat - 0x30

def consRes (c : UInt8) : Option (Bytes × Bytes) → Option (Bytes × Bytes)
  | none => none
  | some (s, r) => some (c :: s, r)

/-- Reads a literal string whose opening parenthesis was consumed; `depth` = open inner
parentheses. Returns the string and the input after the closing parenthesis. -/
def readLit : Nat → Bytes → Option (Bytes × Bytes)
  | _, [] => none
  | depth, c :: rest =>
    if c = 0x29 then
      match depth with
      | 0 => some ([], rest)
      | d + 1 => consRes c (readLit d rest)
    else if c = 0x28 then consRes c (readLit (depth + 1) rest)
    else if c = 0x0D then
      -- an unescaped end-of-line marker (CR, LF or CR LF) is read as one LF
      match rest with
      | [] => consRes 0x0A (readLit depth [])
      | l :: rest' =>
        if l = 0x0A then consRes 0x0A (readLit depth rest') else consRes 0x0A (readLit depth (l :: rest'))
    else if c = 0x5C then
      match rest with
      | [] => none
      | e :: rest' =>
        if e = 0x6E then consRes 0x0A (readLit depth rest')
        else if e = 0x72 then consRes 0x0D (readLit depth rest')
        else if e = 0x74 then consRes 0x09 (readLit depth rest')
        else if e = 0x62 then consRes 0x08 (readLit depth rest')
        else if e = 0x66 then consRes 0x0C (readLit depth rest')
        else if e = 0x0A then readLit depth rest'            -- line continuation
        else if e = 0x0D then
          match rest' with
          | [] => readLit depth []
          | l :: r2 => if l = 0x0A then readLit depth r2 else readLit depth (l :: r2)
        else if isOct e then
          match rest' with
          | [] => consRes (octVal e).toUInt8 (readLit depth [])
          | d2 :: r2 =>
            if isOct d2 then
              match r2 with
              | [] => consRes (octVal e * 8 + octVal d2).toUInt8 (readLit depth [])
              | d3 :: r3 =>
                if isOct d3 then consRes ((octVal e * 64 + octVal d2 * 8 + octVal d3) % 256).toUInt8 (readLit depth r3)
                else consRes (octVal e * 8 + octVal d2).toUInt8 (readLit depth (d3 :: r3))
            else consRes (octVal e).toUInt8 (readLit depth (d2 :: r2))
        else consRes e (readLit depth rest')               -- `\(`, `\)`, `\\`, and "ignore the backslash"
    else consRes c (readLit depth rest)

/-- Reads a literal string starting at its opening parenthesis. -/
def readString : Bytes → Option (Bytes × Bytes)
  | 0x28 :: r => readLit 0 r
  | _ => none

/-! ## Text strings (`encode` closure of Close; PDF 32000-1 §7.9.2.2) -/

def utf16Unit (u : Nat) : Bytes := [(u / 256).toUInt8, (u % 256).toUInt8]

/-- Go `utf16.Encode` of one rune, big endian. -/
def utf16Rune (r : Nat) : Bytes :=
  if r < 0xD800 then utf16Unit r
  else if r < 0xE000 then utf16Unit 0xFFFD
  else if r < 0x10000 then utf16Unit r
  else if r < 0x110000 then utf16Unit (0xD800 + (r - 0x10000) / 1024) ++ utf16Unit (0xDC00 + (r - 0x10000) % 1024)
  else utf16Unit 0xFFFD

def encodeText (rs : List Nat) : Bytes :=
  if rs.all (· < 0x80) then rs.map Nat.toUInt8
  else 0xFE :: 0xFF :: (rs.map utf16Rune).flatten

/-- Reader side: UTF-16BE (with surrogate pairs) → code points; malformed tails are dropped. -/
def decodeUtf16 : Bytes → List Nat
  | a :: b :: c :: d :: rest =>
    let u := a.toNat * 256 + b.toNat
    let v := c.toNat * 256 + d.toNat
    if 0xD800 ≤ u ∧ u < 0xDC00 ∧ 0xDC00 ≤ v ∧ v < 0xE000 then
      (0x10000 + (u - 0xD800) * 1024 + (v - 0xDC00)) :: decodeUtf16 rest
    else u :: decodeUtf16 (c :: d :: rest)
  | [a, b] => [a.toNat * 256 + b.toNat]
  | _ => []

/-- text-string decoding: BOM FE FF → UTF-16BE, otherwise bytes are taken as code points
(PDFDocEncoding restricted to its ASCII-compatible part). -/
def decodeText : Bytes → List Nat
  | 0xFE :: 0xFF :: r => decodeUtf16 r
  | bs => bs.map UInt8.toNat

/-! ## Writer state and primitives -/

structure Core where
  out : Bytes
  pos : Nat
  offs : List Nat
deriving Inhabited

def Core.emit (s : Core) (b : Bytes) : Core := { s with out := s.out ++ b, pos := s.pos + b.length }

def sObj : Bytes := asc " 0 obj\n"
def sEndobj : Bytes := asc "\nendobj\n"

def objHeader (n : Nat) : Bytes := natBytes n ++ sObj

/-- `writeObject`: record pos, header with the new length, value, endobj. -/
def Core.writeObject (s : Core) (v : Val) : Core :=
  let s1 := { s with offs := s.offs ++ [s.pos] }
  ((s1.emit (objHeader s1.offs.length)).emit (ser v)).emit sEndobj

/-- the reservation in `getFont`: `objOffsets = append(objOffsets, 0)` -/
def Core.reserve (s : Core) : Core := { s with offs := s.offs ++ [0] }

/-- late write of a reserved object (`writeFont` tail, catalog/info/page tree in `Close`) -/
def Core.lateWrite (s : Core) (ref : Nat) (v : Val) : Core :=
  let s1 := { s with offs := s.offs.set (ref - 1) s.pos }
  ((s1.emit (objHeader ref)).emit (ser v)).emit sEndobj

/-- `%PDF-1.7\n%Ŧǟċơ\n` (UTF-8) -/
def pdfHeader : Bytes :=
  asc "%PDF-1.7\n%" ++ [0xC5, 0xA6, 0xC7, 0x9F, 0xC4, 0x8B, 0xC6, 0xA1, 0x0A]

def Core.init : Core := ({ out := [], pos := 0, offs := [0, 0, 0] } : Core).emit pdfHeader

/-! ## Pages -/

structure Page where
  buf : Bytes := []
  wPr : Bytes := []
  hPr : Bytes := []
  hasFontDict : Bool := false
  fonts : List (Bytes × Nat) := []            -- resources["Font"]
  gstates : List (Bytes × Bytes × Bytes) := []  -- alpha identity, name, printed alpha
  xobjs : List (Bytes × Nat) := []             -- resources["XObject"]
  patterns : List (Bytes × Bytes × Val) := []  -- resources["Pattern"]: gradient value key, name, pattern dictionary
  fillKey : Option Bytes := none               -- current fill / stroke paint when it is a gradient
  strokeKey : Option Bytes := none
  /-- ghost: (category, name) of every resource name the resource operators emitted into `buf`;
  categories 0 Font, 1 ExtGState, 2 XObject, 3 Pattern -/
  uses : List (Nat × Bytes) := []
  annots : List Val := []
  alpha : Bytes := []                          -- identity (bit pattern) of the current alpha
  inText : Bool := false
  curFont : Option (Nat × Bytes × Bool) := none
  renderMode : Int := 0
deriving Inhabited

structure St where
  core : Core := Core.init
  pages : List Nat := []
  page : Option Page := none
  fontsH : List (Nat × Nat) := []   -- font identity ↦ ref, in order of reservation (= ascending ref)
  fontsV : List (Nat × Nat) := []
  images : List (Nat × Nat) := []   -- image identity ↦ ref (`w.pdf.images`)
  done : List Page := []            -- ghost: the pages written so far, as they were when `writePage` ran
  compress : Bool := true
  info : List (List Nat) := [[], [], [], [], [], []]  -- title subject keywords author creator lang
deriving Inhabited

/-- What the model does not look inside. -/
structure Env where
  flate : Bytes → Bytes                       -- zlib at default level
  fontVals : Nat → List Val × Val             -- ref ↦ objects written before the font dict, and the font dict
  imageVals : Nat → List Val                  -- image identity ↦ objects `embedImage` writes (soft mask?, image)
  patternVals : Bytes → Val                   -- gradient value ↦ the pattern dictionary `getPattern` builds
  date : Bytes                                -- time.Now().Format("D:20060102150405Z0700")
  alpha1 : Bytes                              -- identity of the float 1.0

inductive Op where
  | setCompress (b : Bool)
  | setMeta (k : Nat) (rs : List Nat)
  | writeObj (v : Val)
  | getFont (id : Nat) (vert : Bool)
  | newPage (wPr hPr : Bytes) (cm : Bytes)
  | pageWrite (bs : Bytes)
  | setAlpha (key pr : Bytes)
  | addURI (uri : Bytes) (r0 r1 r2 r3 : Bytes)
  | startText
  | endText
  | setRenderMode (m : Int)
  | setFont (id : Nat) (sizeKey sizePr : Bytes) (vert : Bool)
  | drawImage (id : Nat) (clip cm a1pr : Bytes)   -- clip path text, the six `cm` numbers, printed 1.0
  | setGradient (stroke : Bool) (key a1pr : Bytes)   -- SetFill/SetStroke with a gradient paint (value key)
deriving Inhabited

def resourcesVal (p : Page) : Val :=
  .dict ((if p.hasFontDict then [(asc "Font", Val.dict (p.fonts.map fun (n, r) => (n, Val.ref r)))] else [])
    ++ (if p.gstates.isEmpty then [] else
        [(asc "ExtGState", Val.dict (p.gstates.map fun (_, n, pr) =>
            (n, Val.dict [(asc "CA", .num pr), (asc "ca", .num pr)])))])
    ++ (if p.xobjs.isEmpty then [] else [(asc "XObject", Val.dict (p.xobjs.map fun (n, r) => (n, Val.ref r)))])
    ++ (if p.patterns.isEmpty then [] else [(asc "Pattern", Val.dict (p.patterns.map fun (_, n, v) => (n, v)))]))

def pageDict (p : Page) (parent contents : Nat) : Val :=
  .dict ([(asc "Type", .name (asc "Page")),
          (asc "Parent", .ref parent),
          (asc "MediaBox", .arr [.num (asc "0"), .num (asc "0"), .num p.wPr, .num p.hPr]),
          (asc "Resources", resourcesVal p),
          (asc "Group", .dict [(asc "Type", .name (asc "Group")), (asc "S", .name (asc "Transparency")),
                               (asc "I", .bool true), (asc "CS", .name (asc "DeviceRGB"))]),
          (asc "Contents", .ref contents)]
         ++ (if p.annots.isEmpty then [] else [(asc "Annots", .arr p.annots)]))

def kFilter : Bytes := asc "Filter"
def nFlate : Bytes := asc "FlateDecode"

/-- `writePage`: content stream object, then the page object; returns the page's ref. -/
def writePage (env : Env) (compress : Bool) (c : Core) (p : Page) : Core × Nat :=
  let b := match p.buf with
    | 0x20 :: r => r
    | b => b
  let stream : Val := if compress then .stream [(kFilter, .name nFlate)] (env.flate b) else .stream [] b
  let c1 := c.writeObject stream
  let contents := c1.offs.length
  let c2 := c1.writeObject (pageDict p 3 contents)
  (c2, c2.offs.length)

/-- `if w.page != nil { w.pages = append(w.pages, w.page.writePage(3)) }` -/
def flushPage (env : Env) (s : St) : St :=
  match s.page with
  | none => s
  | some p =>
    let (c, r) := writePage env s.compress s.core p
    { s with core := c, pages := s.pages ++ [r], page := none, done := s.done ++ [p] }

def lookupFont (id : Nat) (m : List (Nat × Nat)) : Option Nat := (m.find? (fun e => e.1 == id)).map (·.2)

/-- `getFont` for embedded (non-standard) fonts. -/
def getFont (s : St) (id : Nat) (vert : Bool) : St × Nat :=
  let m := if vert then s.fontsV else s.fontsH
  match lookupFont id m with
  | some r => (s, r)
  | none =>
    let c := s.core.reserve
    let r := c.offs.length
    if vert then ({ s with core := c, fontsV := s.fontsV ++ [(id, r)] }, r)
    else ({ s with core := c, fontsH := s.fontsH ++ [(id, r)] }, r)

def Page.write (p : Page) (b : Bytes) : Page := { p with buf := p.buf ++ b }

/-- `SetAlpha` + `getOpacityGS` -/
def Page.setAlpha (p : Page) (key pr : Bytes) : Page :=
  if key = p.alpha then p else
  match p.gstates.find? (fun g => g.1 == key) with
  | some (_, n, _) => { (p.write (asc " /" ++ n ++ asc " gs")) with alpha := key, uses := p.uses ++ [(1, n)] }
  | none =>
    let n := 0x41 :: natBytes p.gstates.length
    { (p.write (asc " /" ++ n ++ asc " gs")) with alpha := key, gstates := p.gstates ++ [(key, n, pr)],
                                                   uses := p.uses ++ [(1, n)] }

/-- `SetFill`/`SetStroke` with a gradient: alpha back to 1, nothing more if the paint is unchanged,
otherwise `getPattern` (page-local name: reuse the name of an equal pattern of THIS page, else
`P<number of patterns of this page>`) and the colour-space / colour operators -/
def Page.setGradient (env : Env) (p : Page) (stroke : Bool) (key a1pr : Bytes) : Page :=
  let p1 := p.setAlpha env.alpha1 a1pr
  if (if stroke then p1.strokeKey else p1.fillKey) = some key then p1 else
  let name : Bytes := match p1.patterns.find? (fun e => e.1 == key) with
    | some (_, n, _) => n
    | none => 0x50 :: natBytes p1.patterns.length
  let pats := if (p1.patterns.find? (fun e => e.1 == key)).isSome then p1.patterns
              else p1.patterns ++ [(key, name, env.patternVals key)]
  let p2 := { p1 with patterns := pats, uses := p1.uses ++ [(3, name)] }
  let p3 := if stroke then { p2 with strokeKey := some key } else { p2 with fillKey := some key }
  p3.write (if stroke then asc " /Pattern CS /" ++ name ++ asc " SCN" else asc " /Pattern cs /" ++ name ++ asc " scn")

def uriAnnot (uri r0 r1 r2 r3 : Bytes) : Val :=
  .dict [(asc "Type", .name (asc "Annot")), (asc "Subtype", .name (asc "Link")),
         (asc "Border", .arr [.int 0, .int 0, .int 0]),
         (asc "Rect", .arr [.num r0, .num r1, .num r2, .num r3]),
         (asc "Contents", .str uri),
         (asc "A", .dict [(asc "S", .name (asc "URI")), (asc "URI", .str uri)])]

/-- `embedImage`: cached ref, or write the image objects now -/
def embedImage (env : Env) (s : St) (id : Nat) : St × Nat :=
  match lookupFont id s.images with
  | some r => (s, r)
  | none =>
    let c := (env.imageVals id).foldl Core.writeObject s.core
    ({ s with core := c, images := s.images ++ [(id, c.offs.length)] }, c.offs.length)

/-- `DrawImage` -/
def drawImage (env : Env) (s : St) (p : Page) (id : Nat) (clip cm a1pr : Bytes) : St :=
  let p0 := p.setAlpha env.alpha1 a1pr      -- before `q` (5295a66)
  let p1 := p0.write clip
  let e := embedImage env s id
  let name : Bytes := asc "Im" ++ natBytes p1.xobjs.length
  let p2 := { p1 with xobjs := p1.xobjs ++ [(name, e.2)], uses := p1.uses ++ [(2, name)] }
  { e.1 with page := some (p2.write (cm ++ asc " cm /" ++ name ++ asc " Do Q")) }

/-- One writer/page operation; `none` = the real code panics. -/
def step (env : Env) (s : St) : Op → Option St
  | .setCompress b => some { s with compress := b }
  | .setMeta k rs => some { s with info := s.info.set k rs }
  | .writeObj v => some { s with core := s.core.writeObject v }
  | .getFont id vert => some (getFont s id vert).1
  | .newPage wPr hPr cm =>
    let s1 := flushPage env s
    some { s1 with page := some { buf := cm, wPr := wPr, hPr := hPr, alpha := env.alpha1 } }
  | .pageWrite bs => s.page.map fun p => { s with page := some (p.write bs) }
  | .setAlpha key pr => s.page.map fun p => { s with page := some (p.setAlpha key pr) }
  | .addURI uri r0 r1 r2 r3 =>
    s.page.map fun p => { s with page := some { p with annots := p.annots ++ [uriAnnot uri r0 r1 r2 r3] } }
  | .startText =>
    match s.page with
    | none => none
    | some p => if p.inText then none else some { s with page := some { (p.write (asc " BT")) with inText := true } }
  | .endText =>
    match s.page with
    | none => none
    | some p => if p.inText then some { s with page := some { (p.write (asc " ET")) with inText := false } } else none
  | .setRenderMode m =>
    match s.page with
    | none => none
    | some p =>
      if !p.inText then none
      else if p.renderMode = m then some s
      else some { s with page := some { (p.write (asc " " ++ intBytes m ++ asc " Tr")) with renderMode := m } }
  | .setFont id sizeKey sizePr vert =>
    match s.page with
    | none => none
    | some p =>
      if !p.inText then none
      else if p.curFont = some (id, sizeKey, vert) then some s
      else
        let (s1, ref) := getFont s id vert
        let p1 := { p with curFont := some (id, sizeKey, vert) }
        let name : Bytes :=
          match p1.fonts.find? (fun e => e.2 == ref) with
          | some (n, _) => n
          | none => 0x46 :: natBytes p1.fonts.length
        let fonts := if (p1.fonts.find? (fun e => e.2 == ref)).isSome then p1.fonts else p1.fonts ++ [(name, ref)]
        let p2 := { p1 with hasFontDict := true, fonts := fonts, uses := p1.uses ++ [(0, name)] }
        some { s1 with page := some (p2.write (asc " /" ++ name ++ asc " " ++ sizePr ++ asc " Tf")) }
  | .drawImage id clip cm a1pr =>
    match s.page with
    | none => none
    | some p => some (drawImage env s p id clip cm a1pr)
  | .setGradient stroke key a1pr => s.page.map fun p => { s with page := some (p.setGradient env stroke key a1pr) }

/-- the names a page's resource dictionary defines, per category -/
def Page.names (p : Page) : Nat → List Bytes
  | 0 => p.fonts.map (·.1)
  | 1 => p.gstates.map (·.2.1)
  | 2 => p.xobjs.map (·.1)
  | 3 => p.patterns.map (·.2.1)
  | _ => []

def run (env : Env) : St → List Op → Option St
  | s, [] => some s
  | s, op :: ops => match step env s op with
    | none => none
    | some s1 => run env s1 ops

/-! ## Close -/

/-- `writeFont` as far as the object table is concerned: the objects written first, then the late
write of the reserved font dictionary. -/
def writeFontObjs (env : Env) (c : Core) (ref : Nat) : Core :=
  let (pre, d) := env.fontVals ref
  (pre.foldl Core.writeObject c).lateWrite ref d

def writeFonts (env : Env) (c : Core) (refs : List Nat) : Core := refs.foldl (writeFontObjs env) c

def metaGet (s : St) (k : Nat) : List Nat := s.info.getD k []

def infoEntry (s : St) (k : Nat) (key : Bytes) : List (Bytes × Val) :=
  if (metaGet s k).isEmpty then [] else [(key, Val.str (encodeText (metaGet s k)))]

def infoEntries (s : St) : List (Bytes × Val) :=
  infoEntry s 0 (asc "Title") ++ infoEntry s 1 (asc "Subject") ++ infoEntry s 2 (asc "Keywords")
    ++ infoEntry s 3 (asc "Author") ++ infoEntry s 4 (asc "Creator")

def infoKvs (env : Env) (s : St) : List (Bytes × Val) :=
  [(asc "Producer", .str (asc "tdewolff/canvas")), (asc "CreationDate", .str env.date)] ++ infoEntries s

def infoDict (env : Env) (s : St) : Val :=
  .dict (infoKvs env s)

def catalogKvs (s : St) : List (Bytes × Val) :=
  [(asc "Type", .name (asc "Catalog")), (asc "Pages", .ref 3)]
    ++ (if (metaGet s 5).isEmpty then [] else [(asc "Lang", .str (encodeText (metaGet s 5)))])

def catalogDict (s : St) : Val := .dict (catalogKvs s)

def pagesDict (pages : List Nat) : Val :=
  .dict [(asc "Type", .name (asc "Pages")), (asc "Kids", .arr (pages.map Val.ref)), (asc "Count", .int pages.length)]

def xrefEntry (off : Nat) : Bytes := pad10 off ++ asc " 00000 n \n"

def trailerDict (size : Nat) : Val :=
  .dict [(asc "Root", .ref 1), (asc "Size", .int size), (asc "Info", .ref 2)]

def xrefSection (offs : List Nat) : Bytes :=
  asc "xref\n0 " ++ natBytes (offs.length + 1) ++ asc "\n0000000000 65535 f \n" ++ (offs.map xrefEntry).flatten

def tailBytes (offs : List Nat) (xrefOffset : Nat) : Bytes :=
  xrefSection offs ++ asc "trailer\n" ++ ser (trailerDict (offs.length + 1))
    ++ asc "\nstartxref\n" ++ natBytes xrefOffset ++ asc "\n%%EOF\n"

/-- everything `Close` writes before the xref table -/
def closeBody (env : Env) (s : St) : St :=
  let s1 := flushPage env s
  let c1 := writeFonts env s1.core (s1.fontsH.map (·.2))
  let c2 := writeFonts env c1 (s1.fontsV.map (·.2))
  let c3 := c2.lateWrite 1 (catalogDict s1)
  let c4 := c3.lateWrite 2 (infoDict env s1)
  let c5 := c4.lateWrite 3 (pagesDict s1.pages)
  { s1 with core := c5 }

structure Closed where
  st : St
  xrefOffset : Nat
deriving Inhabited

def close (env : Env) (s : St) : Closed :=
  let s2 := closeBody env s
  let x := s2.core.pos
  { st := { s2 with core := s2.core.emit (tailBytes s2.core.offs x) }, xrefOffset := x }

end Canvas.C13
