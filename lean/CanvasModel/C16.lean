import CanvasModel.Prelude
/-!
# C16 — hand-written models of the text-layout bookkeeping (core Lean only)

* `toItems`      — text.GlyphsToItems (/repo/text/linebreak.go:559-733) as a function of a glyph-class
                   list (class, '-' flag, spaceless-script flag, text class for the sentence factor,
                   advance, hyphen width); all item fields are produced (Float arithmetic is the
                   code's), the theorems only look at kinds and `Size`.
* `slice`        — the line slicing inside RichText.ToText (/repo/text.go:708-879): the
                   ai/ag/bi/bg/eolSkip bookkeeping from items + breakpoints; a Go index/slice panic is
                   the explicit outcome `none`.
* `reorder`      — reorderSpans (/repo/text.go:282-312, mirror-within-extent version), generic over the coordinate type.
* `itemize`      — text.ScriptItemizer (/repo/text/text.go:21-78) over abstract runes
                   (script code, embedding level, ZWJ/ZWNJ flag, replacement-char flag).
* `indexOf`      — indexer.index (/repo/text.go:394-401).
* `alignLine`    — X of the spans of a line from their widths (indent, Right/Center shift), generic scalar.
* CanvasModel/C16/Stack.lean (line stacking, vertical alignment, Heights, Bounds), CanvasModel/C16/Glue.lean
  (glue adjustment, character-conservation verdict).
-/
namespace Canvas.C16

inductive Ty | box | glue | pen
deriving DecidableEq, Repr

inductive Align | left | right | centered | justified
deriving DecidableEq, Repr

/-! ## (a) GlyphsToItems -/

/-- glyph kinds distinguished by GlyphsToItems: IsSpace, '\r', '\n', other IsNewline, U+00AD, U+200B, anything else -/
inductive GK | sp | cr | lf | nl | shy | zwsp | ch
deriving DecidableEq, Repr

structure G where
  k : GK
  hy : Bool      -- glyph.Text == '-'
  sl : Bool      -- IsSpacelessScript(glyph.Script)
  tc : Nat       -- 1 closer )]'"  2 upper-case  3 .!?  4 :  5 ;  6 ,  0 other
  adv : Float    -- glyph.Advance()
  hw : Float     -- width of the face's hyphen (used for U+00AD only)

structure Item where
  ty : Ty
  w : Float := 0.0
  y : Float := 0.0
  z : Float := 0.0
  p : Float := 0.0
  fl : Bool := false
  size : Nat := 0

def mkBox (w : Float) : Item := { ty := .box, w := w }
def mkGlue (w y z : Float) : Item := { ty := .glue, w := w, y := y, z := z }
def mkPen (w p : Float) (fl : Bool) : Item := { ty := .pen, w := w, p := p, fl := fl }

/-- the item slice under construction: never empty (it starts with Box(indent)); last item first -/
structure St where
  last : Item
  rest : List Item

def St.push (s : St) (it : Item) : St := ⟨it, s.last :: s.rest⟩
def St.inc (s : St) : St := { s with last := { s.last with size := s.last.size + 1 } }
def St.len (s : St) : Nat := s.rest.length + 1
def St.toList (s : St) : List Item := (s.last :: s.rest).reverse

def sizes : List Item → Nat
  | [] => 0
  | it :: r => it.size + sizes r

def St.total (s : St) : Nat := s.last.size + sizes s.rest

def isSp (g : G) : Bool := g.k == GK.sp

def infinity : Float := 1000.0
def hyphenPenalty : Float := 50.0

def stretchWidth (al : Align) (gs : List G) : Float :=
  if al = .justified then 0.0 else
    let acc := gs.foldl (fun (acc : Float × Float) g => if isSp g then (acc.1 + g.adv, acc.2 + 1.0) else acc) (0.0, 0.0)
    if 1e-8 < acc.2 then acc.1 / acc.2 else acc.1

def tcAt (gs : Array G) (j : Nat) : Nat := (gs[j]?.map (·.tc)).getD 0

def punctFactor (t : Nat) : Float :=
  if t = 3 then 3.0 else if t = 4 then 2.0 else if t = 5 then 1.5 else if t = 6 then 1.25 else 1.0

/-- the sentence/colon/semicolon/comma factor looked up behind the space at index `i` -/
def spaceFactor (gs : Array G) (i : Nat) : Float :=
  if i = 0 then 1.0 else
  let j := i - 1
  if tcAt gs j = 1 then
    (if j = 0 then 1.0 else
      let j := j - 1
      if j = 0 ∨ tcAt gs (j - 1) ≠ 2 then punctFactor (tcAt gs j) else 1.0)
  else
    (if j = 0 ∨ tcAt gs (j - 1) ≠ 2 then punctFactor (tcAt gs j) else 1.0)

def addGlue (s : St) (w y z : Float) : St :=
  if s.last.ty = .glue then
    { s with last := { s.last with w := s.last.w + w, y := s.last.y + y, z := s.last.z + z } }
  else s.push (mkGlue w y z)

def stepSpace (al : Align) (sw : Float) (gs : Array G) (i : Nat) (g : G) (s : St) : St :=
  let spw := g.adv
  match al with
  | .justified =>
    let f := spaceFactor gs i
    (addGlue s spw (spw * (1.0 / 2.0) * f) (spw * (1.0 / 3.0) / f)).inc
  | .left | .right =>
    (((addGlue s 0.0 sw 0.0).push (mkPen 0.0 0.0 false)).push (mkGlue spw (-sw) 0.0)).inc
  | .centered =>
    ((((((addGlue s 0.0 sw 0.0).push (mkPen 0.0 0.0 false)).push (mkGlue spw (-sw) 0.0)).inc).push (mkBox 0.0)).push
      (mkPen 0.0 infinity false)).push (mkGlue 0.0 sw 0.0)

def prevIsCR (gs : Array G) (i : Nat) : Bool :=
  if i = 0 then false else (gs[i - 1]?.map (fun g => g.k == GK.cr)).getD false

def prevSl (gs : Array G) (i : Nat) : Bool :=
  if i = 0 then false else (gs[i - 1]?.map (·.sl)).getD false

def stepNl (al : Align) (sw : Float) (gs : Array G) (i : Nat) (g : G) (s : St) : St :=
  let s := if g.k ≠ GK.lf ∨ prevIsCR gs i = false then
      (if al = .centered then (s.push (mkGlue 0.0 sw 0.0)).push (mkPen 0.0 (-infinity) false)
       else (s.push (mkGlue 0.0 infinity 0.0)).push (mkPen 0.0 (-infinity) false))
    else s
  s.inc

def stepHyph (al : Align) (sw : Float) (g : G) (s : St) : St :=
  let hw := if g.k = GK.shy then g.hw else 0.0
  match al with
  | .justified => (s.push (mkPen hw hyphenPenalty true)).inc
  | .left | .right =>
    ((((s.push (mkPen 0.0 infinity false)).push (mkGlue 0.0 sw 0.0)).push (mkPen hw (10.0 * hyphenPenalty) true)).inc).push
      (mkGlue 0.0 (-sw) 0.0)
  | .centered => (s.push (mkPen 0.0 infinity false)).inc   -- no break opportunity, but the glyph is counted

def stepCh (gs : Array G) (i : Nat) (g : G) (s : St) : St :=
  let s := if 1 < s.len ∧ s.last.ty = .box then
      (if g.sl ∨ prevSl gs i then (s.push (mkPen 0.0 0.0 false)).push (mkBox g.adv)
       else { s with last := { s.last with w := s.last.w + g.adv } })
    else s.push (mkBox g.adv)
  let s := s.inc
  if g.hy then s.push (mkPen 0.0 hyphenPenalty true) else s

def step (al : Align) (sw : Float) (gs : Array G) (i : Nat) (g : G) (s : St) : St :=
  match g.k with
  | .sp => stepSpace al sw gs i g s
  | .cr | .lf | .nl => stepNl al sw gs i g s
  | .shy | .zwsp => stepHyph al sw g s
  | .ch => stepCh gs i g s

def loop (al : Align) (sw : Float) (gs : Array G) : Nat → List G → St → St
  | _, [], s => s
  | i, g :: r, s => loop al sw gs (i + 1) r (step al sw gs i g s)

def padW (l : List G) : Float := l.foldl (fun a g => a + g.adv) 0.0

def finish (al : Align) (sw : Float) (s : St) : St :=
  if al = .centered then (s.push (mkGlue 0.0 sw 0.0)).push (mkPen 0.0 (-infinity) false)
  else (s.push (mkGlue 0.0 infinity 0.0)).push (mkPen 0.0 (-infinity) false)

def toItems (al : Align) (indent : Float) (gs : List G) : List Item :=
  if gs.isEmpty then [] else
  let sw := stretchWidth al gs
  let arr := gs.toArray
  let lead := gs.takeWhile isSp
  let first := lead.length
  let after := gs.drop first
  let trail := after.reverse.takeWhile isSp       -- in the order the code visits them (from the end)
  let mid := after.take (after.length - trail.length)
  let s0 : St := ⟨mkBox indent, []⟩
  let s1 : St := if first ≠ 0 then
      St.push ⟨{ (mkBox indent) with w := indent + padW lead, size := first }, []⟩ (mkPen 0.0 0.0 false)
    else s0
  let s2 := if al = .centered then s1.push (mkGlue 0.0 sw 0.0) else s1
  let s3 := loop al sw arr first mid s2
  let s4 := if trail.length ≠ 0 then s3.push { (mkBox (padW trail)) with size := trail.length } else s3
  (finish al sw s4).toList

/-! ## (b) line slicing of ToText -/

structure It where
  ty : Ty
  size : Nat
deriving DecidableEq, Repr

structure Line where
  start : Nat      -- first glyph of the line (ag after skipping leading glue/penalties)
  stop : Nat       -- bg - eolSkip: one past the last glyph shown
  hyph : Bool      -- the break is a soft hyphen turned into '-'
  hpos : Nat       -- glyph index of the break item (where the '-' is written when `hyph`)
deriving DecidableEq, Repr

def isz : List It → Nat
  | [] => 0
  | it :: r => it.size + isz r

/-- `for ai < pos && items[ai].Type != BoxType { ag += size; ai++ }` on the remaining items, `k = pos - ai`.
Returns (number skipped, size skipped). -/
def skipLead : List It → Nat → Nat × Nat
  | it :: r, k + 1 => if it.ty ≠ .box then
      let q := skipLead r k
      (q.1 + 1, q.2 + it.size) else (0, 0)
  | _, _ => (0, 0)

/-- `for item in items[ai:bi] { if box {eolSkip = 0} else {eolSkip += size} }` -/
def eolAcc : Nat → List It → Nat
  | e, [] => e
  | e, it :: r => if it.ty = .box then eolAcc 0 r else eolAcc (e + it.size) r

structure LineOut where
  line : Line
  used : Nat        -- items consumed by this line (skipped + body + break + absorbed glue)
  ag' : Nat         -- glyph index after the line

/-- one iteration of the `for j := range breaks` loop; `rest = items[ai:]`, `k = pos - ai`,
`n` = number of glyphs (the glyph slice has n+1 entries), `shy g` = glyphs[g].Text == U+00AD -/
def sliceLine (shy : Nat → Bool) (n : Nat) (rest : List It) (k : Nat) (ag : Nat) : Option LineOut :=
  let sk := skipLead rest k
  let rest1 := rest.drop sk.1
  let k1 := k - sk.1
  let ag1 := ag + sk.2
  match rest1.drop k1 with
  | [] => none                                   -- items[bi] out of range
  | brk :: after =>
    let body := rest1.take k1
    let bg := ag1 + isz body
    let e := eolAcc 0 body
    if brk.ty = .pen ∧ brk.size = 1 ∧ n < bg then none   -- glyphs[bg] out of range
    else
      let hyph : Bool := brk.ty = .pen ∧ brk.size = 1 ∧ shy bg
      let e1 := if hyph then 0 else e + brk.size   -- `eolSkip = 0` when the break is hyphenated
      let gl := after.takeWhile (fun it => it.ty = .glue)
      let bg2 := bg + brk.size + isz gl
      let e2 := e1 + isz gl
      some ⟨⟨ag1, bg2 - e2, hyph, bg⟩, sk.1 + k1 + 1 + gl.length, bg2⟩

structure SliceOut where
  lines : List Line
  used : Nat        -- items consumed by all lines
  ag : Nat          -- glyph index after the last line
deriving Repr

/-- all lines; `ai` items already consumed, `rest = items[ai:]`; a break position before `ai` makes
`items[ai:bi]` panic -/
def slice (shy : Nat → Bool) (n : Nat) : Nat → List It → Nat → List Nat → Option SliceOut
  | _, _, ag, [] => some ⟨[], 0, ag⟩
  | ai, rest, ag, p :: ps =>
    if p < ai then none else
    match sliceLine shy n rest (p - ai) ag with
    | none => none
    | some o =>
      match slice shy n (ai + o.used) (rest.drop o.used) o.ag' ps with
      | none => none
      | some r => some ⟨o.line :: r.lines, o.used + r.used, r.ag⟩

/-! ## (c) reorderSpans -/

structure Span (α : Type) where
  level : Nat
  x : α
  w : α

section reorder
variable {α : Type} [Add α] [Sub α] [LT α] [∀ a b : α, Decidable (a < b)]

/-- `lo, hi` of a run: least X and greatest X+Width, scanned like the Go loop (seeded with the first span) -/
def extent (s : Span α) (r : List (Span α)) : α × α :=
  r.foldl (fun (lh : α × α) t =>
    (if t.x < lh.1 then t.x else lh.1, if lh.2 < t.x + t.w then t.x + t.w else lh.2)) (s.x, s.x + s.w)

def mir (lo hi : α) (t : Span α) : Span α := { t with x := lo + hi - t.x - t.w }

/-- `if 1 < last-first { …; spans[i].X = lo + hi - spans[i].X - spans[i].Width }` -/
def mirror : List (Span α) → List (Span α)
  | [] => []
  | [s] => [s]
  | s :: t :: r => (s :: t :: r).map (mir (extent s (t :: r)).1 (extent s (t :: r)).2)

/-- the `first` loop of reorderSpans: at a span above `prev` the run at level `prev+1` or deeper is
mirrored within its extent, deeper levels are handled inside the run, then the loop continues behind
the run (whose first span is at level ≤ prev, so no run starts there) -/
def fixGo : Nat → Nat → List (Span α) → List (Span α)
  | 0, _, l => l
  | _, _, [] => []
  | fuel + 1, prev, s :: rest =>
    if prev < s.level then
      let inRun := rest.takeWhile (fun t => decide (prev + 1 ≤ t.level))
      let tail := rest.drop inRun.length
      fixGo fuel (prev + 1) (mirror (s :: inRun)) ++ fixGo fuel prev tail
    else s :: fixGo fuel s.level rest

def fuelFor (l : List (Span α)) : Nat := (l.length + 1) * ((l.map (·.level)).foldl max 0 + 2)

def reorder (l : List (Span α)) : List (Span α) := fixGo (fuelFor l) 0 l
end reorder

/-! ## (d) ScriptItemizer -/

/-- abstract rune: script code (1 = Inherited, 2 = Unknown, 3 = Common, other = a concrete script),
embedding level, is U+200C/U+200D, is U+FFFD, identity -/
structure R where
  sc : Nat
  lv : Nat
  zw : Bool
  repl : Bool
  id : Nat
deriving DecidableEq, Repr

structure SItem where
  sc : Nat
  lv : Nat
  text : List R
deriving Repr

structure SStep where
  scripts : List Nat
  script : Nat
  prevScript : Nat
  prevLevel : Nat

def neutral (s : Nat) : Bool := s == 2 || s == 3

def sstep (scripts : List Nat) (r : R) : SStep :=
  let script := if r.sc = 1 then
      (if r.zw then 3 else if r.lv < scripts.length then scripts.getD r.lv 2 else 2)
    else r.sc
  let prevScript := scripts.getLastD 2
  let prevLevel := scripts.length - 1
  if scripts.length - 1 < r.lv then
    ⟨scripts ++ List.replicate (r.lv - scripts.length) 2 ++ [script], script, prevScript, prevLevel⟩
  else if r.lv < scripts.length - 1 then
    ⟨(scripts.set r.lv script).take (r.lv + 1), script, prevScript, prevLevel⟩
  else if neutral script then
    ⟨scripts, prevScript, prevScript, prevLevel⟩
  else
    ⟨scripts.set r.lv script, script, if neutral prevScript then script else prevScript, prevLevel⟩

/-- `cur` = runes[i:j] reversed, `acc` = finished items reversed -/
def sloop : List Nat → Bool → Bool → List R → List SItem → List R → List SItem
  | scripts, _, _, cur, acc, [] => (⟨scripts.getLastD 2, scripts.length - 1, cur.reverse⟩ :: acc).reverse
  | scripts, started, prevRepl, cur, acc, r :: rs =>
    let st := sstep scripts r
    let boundary := st.script != st.prevScript || r.lv != st.prevLevel || r.repl || prevRepl
    if started && boundary then
      sloop st.scripts true r.repl [r] (⟨st.prevScript, st.prevLevel, cur.reverse⟩ :: acc) rs
    else
      sloop st.scripts true r.repl (r :: cur) acc rs

def itemize (rs : List R) : List SItem :=
  if rs.isEmpty then [] else sloop [2] false false [] [] rs

/-! ## indexer.index -/

def indexGo (loc : Int) : Int → List Int → Option Int
  | _, [] => none
  | i, s :: r => if loc < s then some (i - 1) else indexGo loc (i + 1) r

def indexOf (ix : List Int) (loc : Int) : Int := (indexGo loc 0 ix).getD (ix.length - 1)

/-! ## (e) horizontal placement of the spans of a line (ToText "build text spans of line" … "align by
the width of the spans shown"); the vertical stacking is in CanvasModel/C16/Stack.lean -/

inductive HAlign | left | right | center | justify
deriving DecidableEq, Repr

/-- `X: x; x += w` for every span -/
def layoutFrom {α : Type} [Add α] : α → List α → List α × α
  | x, [] => ([], x)
  | x, w :: r => let q := layoutFrom (x + w) r; (x :: q.1, q.2)

/-- X of every span of line j (logical order, before reorderSpans) from the span widths -/
def alignLine {α : Type} [Add α] [Sub α] [Div α] [OfNat α 0] [OfNat α 2] (h : HAlign) (width indent : α) (first : Bool) (ws : List α) : List α :=
  let x0 : α := if first then 0 + indent else 0
  let q := layoutFrom x0 ws
  match h with
  | .right => q.1.map (· + (width - q.2))
  | .center => q.1.map (· + (width - q.2) / 2)
  | _ => q.1

end Canvas.C16
