import CanvasModel.Prelude
/-! Line-protocol loop shared by the per-property model drivers: one line in, one line out. -/
namespace Canvas

partial def driverLoop (handle : List String → Option String) (h out : IO.FS.Stream) : IO Unit := do
  let line ← h.getLine
  if line.isEmpty then return ()
  let l := if line.back == '\n' then line.dropRight 1 else line
  out.putStrLn ((handle (words l)).getD "ERR")
  driverLoop handle h out

def runDriver (handle : List String → Option String) : IO Unit := do
  let out ← IO.getStdout
  driverLoop handle (← IO.getStdin) out
  out.flush

end Canvas
