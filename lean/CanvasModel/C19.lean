import CanvasModel.Prelude
/-!
# C19 — hand-written (L2) model of the semantic layer of `ParseSVG` (/repo/svg.go)

The model works on an **already lexed** element tree: XML/CSS tokenisation, number and colour
lexing (tdewolff/parse, strconv, `parseColor`) and `ParseSVGPath` (property C11) are outside it.
Attribute values arrive as the structured values those lexers produce (`Val`).  What *is* modelled:
the document walk with push/pop per element, `<style>` rules and `cssSelector.AppliesTo`,
`setStyling` precedence, `setAttribute`, `parseTransform` composition, `parseViewBox`/`init`,
`parseDimension`, `drawShape` with the path-builder calls of shapes.go, and `Context.DrawPath`
recording layers into the canvas.

Generic in the scalar type `α`: all arithmetic, the matrix functions of util.go and the few geometric
predicates of the path builder come from a record `Ops α`.  The driver instantiates it with `Float`
and the generated (`GenF`) translations of util.go; the proofs instantiate it with the generated
`GenK` definitions over an arbitrary ordered field.  Core Lean only.
-/
namespace Canvas.C19

/-! ## scalar and geometry operations -/

structure Arith (α : Type) where
  zero : α
  one : α
  nat : Nat → α           -- float64 literal of a small natural number
  c25_4 : α               -- 25.4
  c0_25 : α               -- 0.25
  mmPerPx : α             -- the Go constant 25.4 / 96.0
  pi : α
  neg : α → α
  add : α → α → α
  sub : α → α → α
  mul : α → α → α
  div : α → α → α
  lt : α → α → Bool
  le : α → α → Bool
  beq : α → α → Bool       -- Go `==`
  equal : α → α → Bool     -- util.go Equal (within Epsilon)
  min : α → α → α          -- math.Min
  sqrt : α → α
  isInf : α → Bool

structure Ops (α : Type) extends Arith α where
  ident : Mat α
  mmul : Mat α → Mat α → Mat α
  translate : Mat α → α → α → Mat α
  scale : Mat α → α → α → Mat α
  reflectYAbout : Mat α → α → Mat α
  /-- `math.Sincos` -/
  sincos : α → α × α
  /-- `math.Tan` -/
  tan : α → α
  dot : Mat α → Pt α → Pt α
  /-- the arc case of `Path.Transform` (path.go, property C07): matrix, rx, ry, phi, sweep ↦ rx, ry, phi, sweep -/
  transformArc : Mat α → α → α → α → Bool → α × α × α × Bool
  /-- LineTo's merge test (path.go:400-425): previous line start, current position, new end -/
  lineExtends : Pt α → Pt α → Pt α → Bool
  /-- Close's merge test (path.go:562-575): `Equal(end.Sub(start).AngleBetween(start.Sub(prev)), 0)` -/
  closeExtends : Pt α → Pt α → Pt α → Bool
  /-- ArcTo's canonicalisation for rot = 0 (path.go:489-508): start, rx, ry, end ↦ rx, ry, phi -/
  arcFix : Pt α → α → α → Pt α → α × α × α
  /-- the dash decision of `Context.DrawPath` (canvas.go:658-668, since 7030ab4): stroke width, offset, dashes,
  path length ↦ `checkDash(ScaleDash(width, offset, dashes))`, with the canonical UNSCALED pattern
  (`dashCanonical`) put back when a pattern remains (path.go, properties C05/C15) -/
  checkDash : α → α → List α → α → List α × Bool

/-! ## lexed document -/

structure RGBA where
  r : Nat
  g : Nat
  b : Nat
  a : Nat
deriving DecidableEq, Repr, Inhabited

def transparent : RGBA := ⟨0, 0, 0, 0⟩
def black : RGBA := ⟨0, 0, 0, 255⟩

inductive Cap | butt | round | square
deriving DecidableEq, Repr, Inhabited

inductive Join (α : Type) where
  | bevel
  | round
  | arcs
  | miter (limit : α)
  | miterClip (limit : α)
deriving Repr

inductive PCmd (α : Type) where
  | move (p : Pt α)
  | line (p : Pt α)
  | quad (c p : Pt α)
  | cube (c1 c2 p : Pt α)
  | arc (rx ry phi : α) (large sweep : Bool) (p : Pt α)
  | close (p : Pt α)
deriving Repr

/-- a lexed attribute value -/
inductive Val (α : Type) where
  | dim (num : α) (unit : String)               -- `parse.Dimension` + `strconv.ParseFloat`
  | kw (s : String)                             -- keyword (`none`, `round`, …)
  | color (c : RGBA)                            -- result of `parseColor`
  | nums (l : List α)                           -- result of `parsePoints`
  | xform (l : List (String × List α))          -- transform list: lower-cased name, `parsePoints` of the arguments
  | path (p : List (PCmd α))                    -- result of `ParseSVGPath` (C11), oldest first
  | str (s : String)
  | words (l : List String)                     -- `class`, split on spaces

inductive Attr (α : Type) where
  | plain (key : String) (v : Val α)
  | style (props : List (String × Val α))       -- `style="…"` after `parseStyleAttribute`

/-- attribute selector: op 0 = presence, 1 = `=`, 2 = `~`, 3 = `|` -/
structure AttrSel where
  op : Nat
  attr : String
  val : String
deriving Repr, Inhabited

structure SelNode where
  child : Bool              -- op '>' (false = descendant ' ')
  typ : String              -- "" or "*" = universal
  attrs : List AttrSel
deriving Repr, Inhabited

abbrev Selector := List SelNode

structure Rule (α : Type) where
  selectors : List Selector
  props : List (String × Val α)

inductive Tree (α : Type) where
  | elem (tag : String) (attrs : List (Attr α)) (children : List (Tree α))
  | css (rules : List (Rule α))                  -- a `<style>` element after `parseStyle`

/-! ## parser state -/

structure CState (α : Type) where
  fill : RGBA
  evenOdd : Bool
  stroke : RGBA
  sw : α
  cap : Cap
  join : Join α
  dashOff : α
  dashes : List α
  view : Mat α

structure SState (α : Type) where
  miter : α

/-- element on `elemStack`, as far as selectors look at it -/
structure Elem where
  tag : String
  keys : List String                      -- names of the attributes present
  vals : List (String × String)           -- attribute values as written
  words : List (String × List String)     -- attribute values split on spaces (`strings.Split(v, " ")`)
deriving Repr, Inhabited

structure Layer (α : Type) where
  path : List (PCmd α)
  fill : RGBA
  evenOdd : Bool
  stroke : RGBA
  sw : α
  cap : Cap
  join : Join α
  dashOff : α
  dashes : List α
  m : Mat α

structure P (α : Type) where
  err : Bool
  cw : α
  ch : α
  width : α
  height : α
  diagonal : α
  ctx : CState α
  ctxStack : List (CState α)
  st : SState α
  stStack : List (SState α)
  elems : List Elem               -- innermost first
  rules : List (Rule α)           -- document order
  layers : List (Layer α)         -- newest first
  lens : List α                   -- lengths of the paths still to be drawn (input of `checkDash`)

section Model
variable {α : Type} (o : Ops α)

/-! ## parseDimension (svg.go:149-199) -/

/-- value and "unknown dimension" flag -/
def parseDimension (num : α) (unit : String) (parent : α) : α × Bool :=
  match unit with
  | "cm" => (o.div (o.mul (o.mul num (o.nat 10)) (o.nat 96)) o.c25_4, false)
  | "mm" => (o.div (o.mul num (o.nat 96)) o.c25_4, false)
  | "q" => (o.div (o.mul (o.mul num o.c0_25) (o.nat 96)) o.c25_4, false)
  | "in" => (o.mul num (o.nat 96), false)
  | "pc" => (o.div (o.mul num (o.nat 96)) (o.nat 6), false)
  | "pt" => (o.div (o.mul num (o.nat 96)) (o.nat 72), false)
  | "" => (num, false)
  | "px" => (num, false)
  | "deg" => (num, false)
  | "grad" => (o.mul (o.div num (o.nat 400)) (o.nat 360), false)
  | "rad" => (o.mul (o.div num o.pi) (o.nat 180), false)
  | "turn" => (o.mul num (o.nat 360), false)
  | "%" => (o.div (o.mul num parent) (o.nat 100), false)
  | _ => (o.zero, true)

def lookup (attrs : List (Attr α)) (key : String) : Option (Val α) :=
  attrs.foldl (fun acc a => match a with
    | .plain k v => if k == key then some v else acc
    | .style _ => acc) none

/-- `svg.parseDimension(attrs[key], parent)` on the state -/
def dimAttr (p : P α) (attrs : List (Attr α)) (key : String) (parent : α) : α × P α :=
  match lookup attrs key with
  | some (.dim n u) =>
    let (v, e) := parseDimension o n u parent
    (v, { p with err := p.err || e })
  | _ => (o.zero, p)

/-! ## parseTransform (svg.go:285-344) -/

def rotate (m : Mat α) (deg : α) : Mat α :=
  let (s, c) := o.sincos (o.div (o.mul deg o.pi) (o.nat 180))
  o.mmul m ⟨c, o.neg s, o.zero, s, c, o.zero⟩

def xformStep (acc : Mat α × Bool) (f : String × List α) : Mat α × Bool :=
  let (m, e) := acc
  match f.1, f.2 with
  | "matrix", [a, b, c, d, e', f'] => (o.mmul m ⟨a, c, e', b, d, f'⟩, e)
  | "matrix", _ => (m, true)
  | "translate", [x] => (o.translate m x o.zero, e)
  | "translate", [x, y] => (o.translate m x y, e)
  | "translate", _ => (m, true)
  | "scale", [x] => (o.scale m x x, e)
  | "scale", [x, y] => (o.scale m x y, e)
  | "scale", _ => (m, true)
  | "rotate", [a] => (rotate o m a, e)
  | "rotate", [a, x, y] => (o.translate (rotate o (o.translate m x y) a) (o.neg x) (o.neg y), e)
  | "rotate", _ => (m, true)
  | "skewx", [a] => (o.mmul m ⟨o.one, o.tan (o.div (o.mul a o.pi) (o.nat 180)), o.zero, o.zero, o.one, o.zero⟩, e)
  | "skewx", _ => (m, true)
  | "skewy", [a] => (o.mmul m ⟨o.one, o.zero, o.zero, o.tan (o.div (o.mul a o.pi) (o.nat 180)), o.one, o.zero⟩, e)
  | "skewy", _ => (m, true)
  | _, _ => (m, e)

def parseTransform (l : List (String × List α)) : Mat α × Bool :=
  l.foldl (xformStep o) (o.ident, false)

/-! ## setAttribute (svg.go:727-798) -/

/-- what a declaration can change: the context's style and view, the importer's own state, the error flag -/
structure Sty (α : Type) where
  ctx : CState α
  st : SState α
  err : Bool

def attrCore (diag : α) (s : Sty α) (key : String) (v : Val α) : Sty α :=
  match key, v with
  | "fill", .color c => { s with ctx := { s.ctx with fill := c } }
  | "fill", .kw "none" => { s with ctx := { s.ctx with fill := transparent } }
  | "fill-rule", .kw "evenodd" => { s with ctx := { s.ctx with evenOdd := true } }
  | "fill-rule", .kw "nonzero" => { s with ctx := { s.ctx with evenOdd := false } }
  | "stroke", .color c => { s with ctx := { s.ctx with stroke := c } }
  | "stroke", .kw "none" => { s with ctx := { s.ctx with stroke := transparent } }
  | "stroke-width", .dim n u =>
    let (w, e) := parseDimension o n u diag
    { s with err := s.err || e, ctx := { s.ctx with sw := w } }
  | "stroke-dashoffset", .dim n u =>
    let (w, e) := parseDimension o n u diag
    { s with err := s.err || e, ctx := { s.ctx with dashOff := w } }
  | "stroke-dasharray", .kw "none" => { s with ctx := { s.ctx with dashes := [] } }
  | "stroke-dasharray", .nums l => { s with ctx := { s.ctx with dashes := l } }
  | "stroke-linecap", .kw "butt" => { s with ctx := { s.ctx with cap := .butt } }
  | "stroke-linecap", .kw "round" => { s with ctx := { s.ctx with cap := .round } }
  | "stroke-linecap", .kw "square" => { s with ctx := { s.ctx with cap := .square } }
  | "stroke-linejoin", .kw "arcs" => { s with ctx := { s.ctx with join := .arcs } }
  | "stroke-linejoin", .kw "bevel" => { s with ctx := { s.ctx with join := .bevel } }
  | "stroke-linejoin", .kw "miter" => { s with ctx := { s.ctx with join := .miter s.st.miter } }
  | "stroke-linejoin", .kw "miter-clip" => { s with ctx := { s.ctx with join := .miterClip s.st.miter } }
  | "stroke-linejoin", .kw "round" => { s with ctx := { s.ctx with join := .round } }
  | "stroke-miterlimit", .dim n u =>
    -- the limit also reaches a miter joiner that is in use (both gap joiners are `MiterJoiner`)
    let (w, e) := parseDimension o n u diag
    let j := match s.ctx.join with
      | .miter _ => .miter w
      | .miterClip _ => .miterClip w
      | j => j
    { s with err := s.err || e, st := { s.st with miter := w }, ctx := { s.ctx with join := j } }
  | "transform", .xform l =>
    let (m, e) := parseTransform o l
    { s with err := s.err || e, ctx := { s.ctx with view := o.mmul s.ctx.view m } }
  | _, _ => s


def sty (p : P α) : Sty α := ⟨p.ctx, p.st, p.err⟩
def withSty (p : P α) (s : Sty α) : P α := { p with ctx := s.ctx, st := s.st, err := s.err }

def setAttribute (p : P α) (key : String) (v : Val α) : P α :=
  withSty p (attrCore o p.diagonal (sty p) key v)

def setProps (p : P α) (props : List (String × Val α)) : P α :=
  props.foldl (fun p kv => setAttribute o p kv.1 kv.2) p

/-! ## CSS selectors (svg.go:987-1096) -/

def AttrSel.applies (s : AttrSel) (e : Elem) : Bool :=
  match s.op with
  | 0 => e.keys.contains s.attr
  | 1 => (e.vals.lookup s.attr).getD "" == s.val
  | 2 => ((e.words.lookup s.attr).getD []).any (fun w => w != "" && w == s.val)
  | 3 => let v := (e.vals.lookup s.attr).getD ""
         v == s.val || v.startsWith (s.val ++ "-")
  | _ => false

def SelNode.applies (s : SelNode) (e : Elem) : Bool :=
  if s.typ != "*" && s.typ != "" && s.typ != e.tag then false
  else s.attrs.all (fun a => a.applies e)

/-- the inner `for` of the descendant case: index after the first matching element at or after `i` -/
def scanList (s : SelNode) : List Elem → Nat → Option Nat
  | [], _ => none
  | e :: es, i => if s.applies e then some (i + 1) else scanList s es (i + 1)

def scan (s : SelNode) (elems : List Elem) (i : Nat) : Option Nat := scanList s (elems.drop i) i

/-- one pass of the `for isel < len(sels) && ielem < len(elems)` loop.
`inl b` = loop left normally with `isel == len(sels)` iff `b`; `inr n` = `goto Retry` with `ielem = n` -/
def attempt (elems : List Elem) : List SelNode → Nat → Nat → Bool ⊕ Nat
  | [], _, _ => .inl true
  | s :: rest, ielem, ielemNext =>
    if ielem < elems.length then
      if s.child then
        match elems.drop ielem with
        | e :: _ => if s.applies e then attempt elems rest (ielem + 1) ielemNext else .inr ielemNext
        | [] => .inl false
      else
        match scan s elems ielem with
        | none => .inr ielemNext
        | some j => attempt elems rest j (if ielemNext == elems.length then j else ielemNext)
    else .inl false

def selApplies (elems : List Elem) (sels : Selector) : Nat → Nat → Bool
  | 0, _ => false
  | fuel + 1, start =>
    match attempt elems sels start elems.length with
    | .inl b => sels.length != 0 && b
    | .inr n => selApplies elems sels fuel n

/-- `cssRule.AppliesTo(svg.elemStack)`; `elems` innermost first -/
def ruleApplies (r : Rule α) (elems : List Elem) : Bool :=
  let es := elems.reverse
  r.selectors.any (fun s =>
    -- the subject of the selector (its last compound) must be the element itself
    (match s.getLast?, elems.head? with
     | some n, some e => n.applies e
     | _, _ => false) && selApplies es s (es.length + 2) 0)

/-! ## setStyling (svg.go:691-712) -/

/-! ## specificity and the order in which matching rules apply (svg.go cssRule.specificity, setStyling; aecc30a) -/

/-- specificity of a selector: id selectors, then class/attribute selectors, then type names -/
def specificity (s : Selector) : Nat :=
  s.foldl (fun n nd =>
    nd.attrs.foldl (fun m a => m + (if a.attr == "id" && a.op == 1 then 2 ^ 20 else 2 ^ 10))
      (n + (if nd.typ != "" && nd.typ != "*" then 1 else 0))) 0

/-- the highest specificity among the selectors of the rule that apply to the element (`none`: the rule does not apply) -/
def ruleSpec (r : Rule α) (elems : List Elem) : Option Nat :=
  r.selectors.foldl (fun best s =>
    if ruleApplies (⟨[s], r.props⟩ : Rule α) elems then
      match best with
      | none => some (specificity s)
      | some b => some (max b (specificity s))
    else best) none

/-- `x` precedes everything in the list: it goes in front of the first element whose key is not smaller -/
def insFront {β : Type} (key : β → Nat) (x : β) : List β → List β
  | [] => [x]
  | y :: ys => if key x ≤ key y then x :: y :: ys else y :: insFront key x ys

/-- stable sort by key: equal keys keep their order of appearance -/
def stableSort {β : Type} (key : β → Nat) (l : List β) : List β := l.foldr (insFront key) []

/-- the rules that apply to the element, with their specificity, in order of appearance -/
def matching (rules : List (Rule α)) (elems : List Elem) : List (Nat × Rule α) :=
  rules.filterMap (fun r => (ruleSpec r elems).map (fun n => (n, r)))

/-- the matching rules apply in order of specificity and, for equal specificity, of appearance (`sort.SliceStable`) -/
def applyRules (p : P α) (rules : List (Rule α)) : P α :=
  (stableSort (fun nr => nr.1) (matching rules p.elems)).foldl (fun p nr => setProps o p nr.2.props) p

/-- first pass: presentation attributes (lowest precedence) -/
def applyPlain (p : P α) (a : Attr α) : P α :=
  match a with
  | .plain k v => setAttribute o p k v
  | .style _ => p

/-- last pass: the style attribute (overrides attributes and rules) -/
def applyStyle (p : P α) (a : Attr α) : P α :=
  match a with
  | .plain _ _ => p
  | .style props => setProps o p props

def setStyling (p : P α) (attrs : List (Attr α)) : P α :=
  let p1 := attrs.foldl (applyPlain o) p
  attrs.foldl (applyStyle o) (applyRules o p1 p1.rules)

/-! ## mini path builder (path.go MoveTo/LineTo/ArcTo/Close), newest command first -/

abbrev RPath (α : Type) := List (PCmd α)

def PCmd.endp : PCmd α → Pt α
  | .move p => p
  | .line p => p
  | .quad _ p => p
  | .cube _ _ p => p
  | .arc _ _ _ _ _ p => p
  | .close p => p

def origin : Pt α := ⟨o.zero, o.zero⟩

def pos : RPath α → Pt α
  | [] => origin o
  | c :: _ => c.endp

def startPos : RPath α → Pt α
  | [] => origin o
  | .move p :: _ => p
  | _ :: cs => startPos cs

def ptEquals (p q : Pt α) : Bool := o.equal p.x q.x && o.equal p.y q.y

def moveTo (q : Pt α) : RPath α → RPath α
  | .move _ :: cs => .move q :: cs
  | cs => .move q :: cs

/-- the implicit MoveTo before a drawing command -/
def prep : RPath α → RPath α
  | [] => [.move (origin o)]
  | .close q :: cs => .move q :: .close q :: cs
  | cs => cs

def lineTo (q : Pt α) (cs : RPath α) : RPath α :=
  let start := pos o cs
  if ptEquals o start q then cs else
  match cs with
  | .line _ :: rest =>
    if o.lineExtends (pos o rest) start q then .line q :: rest else .line q :: cs
  | _ => .line q :: prep o cs

def arcTo0 (rx ry : α) (large sweep : Bool) (q : Pt α) (cs : RPath α) : RPath α :=
  let start := pos o cs
  if ptEquals o start q then cs
  else if o.equal rx o.zero || o.isInf rx || o.equal ry o.zero || o.isInf ry then lineTo o q cs
  else
    let (rx', ry', phi) := o.arcFix start rx ry q
    .arc rx' ry' phi large sweep q :: prep o cs

def close (cs : RPath α) : RPath α :=
  match cs with
  | [] => []
  | .close _ :: _ => cs
  | .move _ :: rest => rest
  | .line q :: rest =>
    let e := startPos o cs
    if o.equal q.x e.x && o.equal q.y e.y then .close q :: rest
    else if o.closeExtends (pos o rest) q e then .close e :: rest
    else .close e :: cs
  | _ => .close (startPos o cs) :: cs

/-! ## shapes.go -/

def rectangle (w h : α) : RPath α :=
  if o.equal w o.zero || o.equal h o.zero then [] else
  close o (lineTo o ⟨o.zero, h⟩ (lineTo o ⟨w, h⟩ (lineTo o ⟨w, o.zero⟩ [])))

def roundedRectangle (w h r : α) : RPath α :=
  if o.equal w o.zero || o.equal h o.zero then []
  else if o.equal r o.zero then rectangle o w h
  else
    let sweep := !(o.lt r o.zero)
    let r := if o.lt r o.zero then o.neg r else r
    let r := o.min r (o.div w (o.nat 2))
    let r := o.min r (o.div h (o.nat 2))
    let z := o.zero
    let p := moveTo ⟨z, r⟩ []
    let p := arcTo0 o r r false sweep ⟨r, z⟩ p
    let p := lineTo o ⟨o.sub w r, z⟩ p
    let p := arcTo0 o r r false sweep ⟨w, r⟩ p
    let p := lineTo o ⟨w, o.sub h r⟩ p
    let p := arcTo0 o r r false sweep ⟨o.sub w r, h⟩ p
    let p := lineTo o ⟨r, h⟩ p
    let p := arcTo0 o r r false sweep ⟨z, o.sub h r⟩ p
    close o p

/-- `Path.Transform(m)` on the commands a rounded rectangle consists of (path.go, property C07) -/
def transformPath (m : Mat α) (cs : RPath α) : RPath α :=
  cs.map (fun c => match c with
    | .move q => .move (o.dot m q)
    | .line q => .line (o.dot m q)
    | .close q => .close (o.dot m q)
    | .quad c q => .quad (o.dot m c) (o.dot m q)
    | .cube c1 c2 q => .cube (o.dot m c1) (o.dot m c2) (o.dot m q)
    | .arc rx ry phi large sweep q =>
      let (rx', ry', phi', sweep') := o.transformArc m rx ry phi sweep
      .arc rx' ry' phi' large sweep' (o.dot m q))

def ellipse (rx ry : α) : RPath α :=
  if o.equal rx o.zero || o.equal ry o.zero then [] else
  let p := moveTo ⟨rx, o.zero⟩ []
  let p := arcTo0 o rx ry false true ⟨o.neg rx, o.zero⟩ p
  let p := arcTo0 o rx ry false true ⟨rx, o.zero⟩ p
  close o p

/-- the loop of the polygon/polyline case; `first` = (i == 0) -/
def polyPoints (first : Bool) : List α → RPath α → RPath α
  | x :: y :: rest, p => polyPoints false rest (if first then moveTo ⟨x, y⟩ p else lineTo o ⟨x, y⟩ p)
  | _, p => p

/-! ## Context.DrawPath → Canvas.RenderPath (canvas.go:635-667, 753-756) -/

def hasFill (c : CState α) : Bool := c.fill.a != 0
def hasStroke (c : CState α) : Bool := c.stroke.a != 0 && o.lt o.zero c.sw

def drawPath (p : P α) (x y : α) (path : RPath α) : P α :=
  let c := p.ctx
  if !(hasFill c) && !(hasStroke o c) then p else
  let m := o.translate (o.mmul (o.reflectYAbout o.ident (o.div p.ch (o.nat 2))) c.view) x y
  let len := p.lens.headD o.zero
  let (d, ok) := o.checkDash c.sw c.dashOff c.dashes len
  let l : Layer α := { path := path.reverse, fill := c.fill, evenOdd := c.evenOdd, stroke := if ok then c.stroke else transparent,
                       sw := c.sw, cap := c.cap, join := c.join, dashOff := c.dashOff, dashes := d, m := m }
  { p with layers := l :: p.layers, lens := p.lens.tail }

/-! ## drawShape (svg.go:813-877) -/

def drawShapeCore (p : P α) (tag : String) (attrs : List (Attr α)) : P α :=
  match tag with
  | "circle" =>
    let a := dimAttr o p attrs "cx" p.width
    let b := dimAttr o a.2 attrs "cy" a.2.height
    let c := dimAttr o b.2 attrs "r" b.2.diagonal
    drawPath o c.2 a.1 b.1 (ellipse o c.1 c.1)
  | "ellipse" =>
    let a := dimAttr o p attrs "cx" p.width
    let b := dimAttr o a.2 attrs "cy" a.2.height
    let c := dimAttr o b.2 attrs "rx" b.2.width
    let d := dimAttr o c.2 attrs "ry" c.2.height
    drawPath o d.2 a.1 b.1 (ellipse o c.1 d.1)
  | "path" =>
    match lookup attrs "d" with
    | some (.path d) => drawPath o p o.zero o.zero d.reverse
    | _ => drawPath o p o.zero o.zero []
  | "polygon" =>
    match lookup attrs "points" with
    | some (.nums l) => drawPath o p o.zero o.zero (close o (polyPoints o true l []))
    | _ => drawPath o p o.zero o.zero []
  | "polyline" =>
    match lookup attrs "points" with
    | some (.nums l) => drawPath o p o.zero o.zero (polyPoints o true l [])
    | _ => drawPath o p o.zero o.zero []
  | "line" =>
    let a := dimAttr o p attrs "x1" p.width
    let b := dimAttr o a.2 attrs "y1" a.2.height
    let c := dimAttr o b.2 attrs "x2" b.2.width
    let d := dimAttr o c.2 attrs "y2" c.2.height
    drawPath o d.2 o.zero o.zero (lineTo o ⟨c.1, d.1⟩ (moveTo ⟨a.1, b.1⟩ []))
  | "rect" =>
    let a := dimAttr o p attrs "x" p.width
    let b := dimAttr o a.2 attrs "y" a.2.height
    let c := dimAttr o b.2 attrs "width" b.2.width
    let d := dimAttr o c.2 attrs "height" c.2.height
    match lookup attrs "rx", lookup attrs "ry" with
    | none, none => drawPath o d.2 a.1 b.1 (rectangle o c.1 d.1)
    | hx, hy =>
      let r1 := dimAttr o d.2 attrs "rx" d.2.width
      let r2 := dimAttr o r1.2 attrs "ry" r1.2.height
      -- a missing radius takes the value of the other; each is limited to half its own side
      let rx := if hx.isNone then r2.1 else r1.1
      let ry := if hx.isNone then r2.1 else if hy.isNone then r1.1 else r2.1
      let rx := o.min rx (o.div c.1 (o.nat 2))
      let ry := o.min ry (o.div d.1 (o.nat 2))
      drawPath o r2.2 a.1 b.1
        (if o.equal rx o.zero || o.equal ry o.zero then rectangle o c.1 d.1
         else
           -- elliptical corners: circular ones on a rectangle of width w·ry/rx, scaled by rx/ry in x
           transformPath o (o.scale o.ident (o.div rx ry) o.one) (roundedRectangle o (o.div (o.mul c.1 ry) rx) d.1 ry))
  | _ => p

/-- SVG dash lengths are in user units, canvas dash lengths in multiples of the stroke width: for the
shape itself offset and array are divided by the current stroke width (`ScaleDash(1/w, …)`), and
restored afterwards (svg.go drawShape, the `defer`) -/
def drawShape (p : P α) (tag : String) (attrs : List (Attr α)) : P α :=
  let w := p.ctx.sw
  if !p.ctx.dashes.isEmpty && o.lt o.zero w && !(o.beq w o.one) then
    let f := o.div o.one w
    let q := drawShapeCore o { p with ctx := { p.ctx with dashOff := o.mul p.ctx.dashOff f, dashes := p.ctx.dashes.map (fun d => o.mul d f) } } tag attrs
    { q with ctx := { q.ctx with dashOff := p.ctx.dashOff, dashes := p.ctx.dashes } }
  else drawShapeCore o p tag attrs

/-! ## push / pop (svg.go:111-126) and the document walk (svg.go:879-978) -/

def elemOf (tag : String) (attrs : List (Attr α)) : Elem :=
  { tag := tag,
    keys := attrs.map (fun a => match a with | .plain k _ => k | .style _ => "style"),
    vals := (match lookup attrs "id" with | some (.str s) => [("id", s)] | _ => []) ++
            (match lookup attrs "class" with | some (.words l) => [("class", " ".intercalate l)] | _ => []),
    words := (match lookup attrs "id" with | some (.str s) => [("id", [s])] | _ => []) ++
             (match lookup attrs "class" with | some (.words l) => [("class", l)] | _ => []) }

def push (p : P α) (tag : String) (attrs : List (Attr α)) : P α :=
  { p with ctxStack := p.ctx :: p.ctxStack, stStack := p.st :: p.stStack, elems := elemOf tag attrs :: p.elems }

def pop (p : P α) : P α :=
  match p.stStack with
  | [] => { p with err := true }
  | s :: ss =>
    let p := { p with elems := p.elems.tail, st := s, stStack := ss }
    match p.ctxStack with
    | [] => p
    | c :: cs => { p with ctx := c, ctxStack := cs }

mutual
def walk : Tree α → P α → P α
  | .elem tag attrs children, p =>
    pop (walkList children (drawShape o (setStyling o (push p tag attrs) attrs) tag attrs))
  | .css rules, p => { p with rules := p.rules ++ rules }
def walkList : List (Tree α) → P α → P α
  | [], p => p
  | t :: ts, p => walkList ts (walk t p)
end

/-! ## parseViewBox / init (svg.go:66-109) -/

structure SvgHead (α : Type) where
  width : Option (α × String)
  height : Option (α × String)
  viewBox : Option (α × α × α × α)
  par : String                              -- the preserveAspectRatio attribute ("" if absent)

/-- width, height (as handed to `init`), the view box array and the error flag -/
def parseViewBox (h : SvgHead α) : α × α × (α × α × α × α) × Bool :=
  let vb := h.viewBox.getD (o.zero, o.zero, o.zero, o.zero)
  let fromVB (len : α) : α := o.div (o.mul len o.c25_4) (o.nat 96)   -- viewBox is min-x min-y width height
  let (w, e1) := match h.width with
    | some (n, u) => if u == "%" then (fromVB vb.2.2.1, false) else parseDimension o n u o.one
    | none => (fromVB vb.2.2.1, false)
  let (hh, e2) := match h.height with
    | some (n, u) => if u == "%" then (fromVB vb.2.2.2, false) else parseDimension o n u o.one
    | none => (fromVB vb.2.2.2, false)
  (w, hh, vb, e1 || e2)

def defaultCtx : CState α :=
  { fill := black, evenOdd := false, stroke := transparent, sw := o.one, cap := .butt, join := .miter (o.nat 4),
    dashOff := o.zero, dashes := [], view := o.ident }

def init (width height : α) (vb : α × α × α × α) (err : Bool) (lens : List α) : P α :=
  let w := o.div (o.mul width (o.nat 96)) o.c25_4
  let h := o.div (o.mul height (o.nat 96)) o.c25_4
  let dw := vb.2.2.1
  let dh := vb.2.2.2
  let view := if o.lt o.zero dw && o.lt o.zero dh then
      o.translate (o.scale o.ident (o.div width dw) (o.div height dh)) (o.neg vb.1) (o.neg vb.2.1)
    else o.ident
  { err := err, cw := width, ch := height, width := w, height := h,
    diagonal := o.sqrt (o.div (o.add (o.mul w w) (o.mul h h)) (o.nat 2)),
    ctx := { defaultCtx o with view := view }, ctxStack := [],
    st := { miter := o.nat 4 }, stStack := [], elems := [], rules := [], layers := [], lens := lens }

/-- default preserveAspectRatio (xMidYMid meet, svg.go ParseSVG since 94ad01a): the view box is widened
symmetrically in the slack direction so that `init`'s two scale factors coincide -/
def fitViewBox (w hh : α) (vb : α × α × α × α) : α × α × α × α :=
  if o.lt o.zero vb.2.2.1 && o.lt o.zero vb.2.2.2 && o.lt o.zero w && o.lt o.zero hh then
    let sx := o.div w vb.2.2.1
    let sy := o.div hh vb.2.2.2
    if o.lt sx sy then
      (vb.1, o.sub vb.2.1 (o.div (o.sub (o.div hh sx) vb.2.2.2) (o.nat 2)), vb.2.2.1, o.div hh sx)
    else if o.lt sy sx then
      (o.sub vb.1 (o.div (o.sub (o.div w sy) vb.2.2.1) (o.nat 2)), vb.2.1, o.div w sy, vb.2.2.2)
    else vb
  else vb

/-- `ParseSVG` on a document whose root is `<svg>` (the root's own attributes are `attrs`) -/
def parseSVG (h : SvgHead α) (attrs : List (Attr α)) (children : List (Tree α)) (lens : List α) : P α :=
  let (w, hh, vb, e) := parseViewBox o h
  -- a given width/height is in px (the user unit when there is no viewBox, i.e. no positive width/height
  -- in the view box: 4deb0ae), the canvas is in mm (svg.go ParseSVG)
  let given (d : Option (α × String)) : Bool := match d with | some (_, u) => u != "%" | none => false
  let (w, vb) := if given h.width then
      (o.mul w o.mmPerPx, if o.le vb.2.2.1 o.zero then (vb.1, vb.2.1, o.add vb.1 w, vb.2.2.2) else vb)
    else (w, vb)
  let (hh, vb) := if given h.height then
      (o.mul hh o.mmPerPx, if o.le vb.2.2.2 o.zero then (vb.1, vb.2.1, vb.2.2.1, o.add vb.2.1 hh) else vb)
    else (hh, vb)
  let vb := if h.par != "none" then fitViewBox o w hh vb else vb
  walk o (.elem "svg" attrs children) (init o w hh vb e lens)

end Model
end Canvas.C19
