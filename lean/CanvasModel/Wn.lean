import CanvasModel.Prelude
/-!
L3 exact specification: winding number of closed polygons, fill rules, region algebra — over `Int`
coordinates (float64 inputs are decoded bit-exactly to dyadic rationals and brought to one common
exponent, see `Dyadic` below; no division, no square root, no rounding anywhere).

Half-open rule: an edge a→b counts for the query point p iff
  a.y ≤ p.y < b.y (upward) and p strictly left of a→b   → +1
  b.y ≤ p.y < a.y (downward) and p strictly right of a→b → −1
which is the signed number of crossings of the ray from p towards +x.
-/
namespace Canvas.Wn

structure IPt where
  x : Int
  y : Int
deriving Repr, BEq, DecidableEq, Inhabited

/-- twice the signed area of triangle (a, b, p): > 0 iff p is left of a→b -/
def isLeft (a b p : IPt) : Int := (b.x - a.x) * (p.y - a.y) - (p.x - a.x) * (b.y - a.y)

def edgeW (p a b : IPt) : Int :=
  if a.y ≤ p.y ∧ p.y < b.y then (if 0 < isLeft a b p then 1 else 0)
  else if b.y ≤ p.y ∧ p.y < a.y then (if isLeft a b p < 0 then -1 else 0)
  else 0

/-- sum over consecutive pairs of an open vertex chain -/
def chainW (p : IPt) : List IPt → Int
  | a :: b :: rest => edgeW p a b + chainW p (b :: rest)
  | _ => 0

/-- winding number of one contour (implicitly closed: last vertex connects to the first) -/
def wn1 (p : IPt) (poly : List IPt) : Int :=
  match poly with
  | [] => 0
  | a :: _ => chainW p (poly ++ [a])

/-- winding number of a multi-contour polygon -/
def wn (p : IPt) (polys : List (List IPt)) : Int :=
  (polys.map (wn1 p)).foldl (· + ·) 0

inductive Rule | nonZero | evenOdd | positive | negative
deriving Repr, DecidableEq

def Rule.fills : Rule → Int → Bool
  | .nonZero, w => decide (w ≠ 0)
  | .evenOdd, w => decide (w % 2 ≠ 0)
  | .positive, w => decide (0 < w)
  | .negative, w => decide (w < 0)

def Rule.ofNat? : Nat → Option Rule
  | 0 => some .nonZero | 1 => some .evenOdd | 2 => some .positive | 3 => some .negative | _ => none

inductive Op | and | or | not | xor | div
deriving Repr, DecidableEq

def Op.ofString? : String → Option Op
  | "and" => some .and | "or" => some .or | "not" => some .not | "xor" => some .xor | "div" => some .div
  | _ => none

/-- region algebra: is a point filled by `P op Q`, given whether P and Q fill it -/
def regionOp : Op → Bool → Bool → Bool
  | .and, a, b => a && b
  | .or, a, b => a || b
  | .not, a, b => a && !b
  | .xor, a, b => a != b
  | .div, a, _ => a

def filled (r : Rule) (polys : List (List IPt)) (p : IPt) : Bool := r.fills (wn p polys)

/-! ### exact distance tests (no square roots): is p farther than δ from segment ab? -/

def dot (ax ay bx «by» : Int) : Int := ax * bx + ay * «by»

/-- squared distance from p to segment ab exceeds d2 (all in the same integer scale) -/
def farFromSeg (p a b : IPt) (d2 : Int) : Bool :=
  let abx := b.x - a.x; let aby := b.y - a.y
  let apx := p.x - a.x; let apy := p.y - a.y
  let l2 := abx * abx + aby * aby
  let t := apx * abx + apy * aby
  if l2 == 0 || t ≤ 0 then decide (apx * apx + apy * apy > d2)
  else if t ≥ l2 then
    let bpx := p.x - b.x; let bpy := p.y - b.y
    decide (bpx * bpx + bpy * bpy > d2)
  else
    let c := abx * apy - aby * apx
    decide (c * c > d2 * l2)

def farFromChain (p : IPt) (d2 : Int) : List IPt → Bool
  | a :: b :: rest => farFromSeg p a b d2 && farFromChain p d2 (b :: rest)
  | _ => true

def farFromPoly (p : IPt) (d2 : Int) (poly : List IPt) : Bool :=
  match poly with
  | [] => true
  | [a] => farFromSeg p a a d2
  | a :: _ => farFromChain p d2 (poly ++ [a])

def farFromAll (p : IPt) (d2 : Int) (polys : List (List IPt)) : Bool :=
  polys.all (farFromPoly p d2)

/-- twice the signed area (shoelace) of one contour -/
def area2Chain : List IPt → Int
  | a :: b :: rest => (a.x * b.y - b.x * a.y) + area2Chain (b :: rest)
  | _ => 0

def area2 (poly : List IPt) : Int :=
  match poly with
  | [] => 0
  | a :: _ => area2Chain (poly ++ [a])

/-! ### proper crossing test between two segments (exact) -/

def sgn (x : Int) : Int := if x > 0 then 1 else if x < 0 then -1 else 0

/-- segments ab and cd cross at a single interior point of both -/
def properCross (a b c d : IPt) : Bool :=
  let d1 := sgn (isLeft a b c); let d2 := sgn (isLeft a b d)
  let d3 := sgn (isLeft c d a); let d4 := sgn (isLeft c d b)
  d1 * d2 < 0 && d3 * d4 < 0

/-! ### dyadic decoding of float64 -/

/-- a finite float64 as (mantissa, exponent) with value = m · 2^e; none for NaN/Inf -/
def decodeFloat (bits : Nat) : Option (Int × Int) :=
  let sign : Nat := bits / 2^63
  let ex : Nat := (bits / 2^52) % 2048
  let frac : Nat := bits % 2^52
  if ex == 2047 then none
  else
    let (m, e) : Nat × Int := if ex == 0 then (frac, -1074) else (frac + 2^52, (ex : Int) - 1075)
    some (if sign == 1 then -(m : Int) else (m : Int), e)

/-- scale a decoded float to exponent `e0` (e0 ≤ every exponent in use) -/
def scaleTo (e0 : Int) (v : Int × Int) : Int := v.1 * (2 : Int) ^ (v.2 - e0).toNat

/-- smallest useful common exponent: zero mantissas do not constrain it -/
def minExp (vs : List (Int × Int)) : Int :=
  vs.foldl (fun acc v => if v.1 == 0 then acc else min acc v.2) 0

end Canvas.Wn
