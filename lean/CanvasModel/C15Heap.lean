import CanvasModel.C15
/-!
# C15 — explicit heap model of the slice-typed style field `Style.Dashes`

The main model (`CanvasModel/C15.lean`) gives Go slices value semantics (Lists).  This file models
what the code really does with the dash slice: slice *headers* (array identity, offset, length) are
copied by `SetDashes` (the variadic argument is stored as it is: no copy), by `Push`/`Pop` (a
`ContextState` is copied by value: the header is copied, the backing array is shared) and into the
recorded layer, while `DrawPath` hands the slice to `checkDash`, whose `dashCanonical` works on a
fresh copy.  Arrays live in a heap indexed by allocation order; the only writer is the *caller*,
mutating an array it allocated itself (`callerWrite`), which is how aliasing becomes observable.
The Go harness replays the same operation lines ("aliasing probes") on the real Context/Canvas with
caller-owned slices and compares every observation bit-exactly.  Core Lean only.
-/
namespace Canvas.C15.Heap

/-- a Go slice header -/
structure Slice where
  arr : Nat
  off : Nat
  len : Nat
deriving DecidableEq, Repr, Inhabited

/-- arrays by identity (= allocation order); an array is never moved, resized or freed -/
abbrev Heap (α : Type) := List (List α)

variable {α : Type}

def deref (h : Heap α) (s : Slice) : List α := ((h.getD s.arr []).drop s.off).take s.len

def alloc (h : Heap α) (a : List α) : Heap α × Slice := (h ++ [a], ⟨h.length, 0, a.length⟩)

def write (h : Heap α) (arr i : Nat) (v : α) : Heap α := h.set arr ((h.getD arr []).set i v)

/-- the dash-relevant part of a `Style` -/
structure HStyle (α : Type) where
  dashOff : α
  dashes : Slice

/-- a recorded layer: dash offset, dash slice and whether the stroke paint was kept -/
structure HLayer (α : Type) where
  dashOff : α
  dashes : Slice
  stroke : Bool

structure State (α : Type) where
  heap : Heap α
  owned : List Nat          -- arrays allocated by the caller (the only ones it can write)
  cur : HStyle α
  stack : List (HStyle α)
  layers : List (HLayer α)

/-- array 0 is the backing array of the package-level `DefaultStyle.Dashes = []float64{}` -/
def init (zero : α) : State α :=
  { heap := [[]], owned := [], cur := ⟨zero, ⟨0, 0, 0⟩⟩, stack := [], layers := [] }

inductive Op (α : Type)
  | callerAlloc (a : List α)                 -- d := []float64{…}
  | callerWrite (arr i : Nat) (v : α)        -- d[i] = v   (ignored unless `arr` is caller-owned and i in range)
  | setDashes (off : α) (s : Slice)          -- ctx.SetDashes(off, d[lo:hi]...)  (ignored unless caller-owned and in range)
  | push | pop
  | resetStyle
  | drawPath (len : α)                        -- DrawPath of one stroked path of that length

def inRange (h : Heap α) (s : Slice) : Bool := s.off + s.len ≤ (h.getD s.arr []).length

/-- `checkDash : offset → dashes → path length → (dashes', ok)` is the value-level function of the main model -/
def step (zero : α) (checkDash : α → List α → α → List α × Bool) (op : Op α) (s : State α) : State α :=
  match op with
  | .callerAlloc a => { s with heap := s.heap ++ [a], owned := s.owned ++ [s.heap.length] }
  | .callerWrite arr i v =>
    if s.owned.contains arr && decide (i < (s.heap.getD arr []).length) then { s with heap := write s.heap arr i v } else s
  | .setDashes off sl =>
    if s.owned.contains sl.arr && inRange s.heap sl then { s with cur := ⟨off, sl⟩ } else s
  | .push => { s with stack := s.cur :: s.stack }
  | .pop =>
    match s.stack with
    | [] => s
    | t :: rest => { s with cur := t, stack := rest }
  | .resetStyle => { s with cur := ⟨zero, ⟨0, 0, 0⟩⟩ }
  | .drawPath len =>
    let r := checkDash s.cur.dashOff (deref s.heap s.cur.dashes) len
    -- dashCanonical copies: the slice stored in the layer lives in an array allocated by this call
    { s with heap := s.heap ++ [r.1],
             layers := s.layers ++ [⟨s.cur.dashOff, ⟨s.heap.length, 0, r.1.length⟩, r.2⟩] }

def run (zero : α) (cd : α → List α → α → List α × Bool) : List (Op α) → State α → State α
  | [], s => s
  | op :: ops, s => run zero cd ops (step zero cd op s)

/-- what an observer sees: the current dashes and the dashes of every recorded layer -/
def observe (s : State α) : List α × List (List α × Bool) :=
  (deref s.heap s.cur.dashes, s.layers.map (fun l => (deref s.heap l.dashes, l.stroke)))

end Canvas.C15.Heap
