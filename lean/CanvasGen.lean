import CanvasGen.F
import CanvasGen.K
