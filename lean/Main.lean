import CanvasModel
import CanvasGen.F
/-! canvasdrv: one protocol line in, one canonical line out. -/
open Canvas

def handle (line : String) : String :=
  match words line with
  | "L1" :: name :: args => (GenF.dispatch name args).getD "ERR"
  | tag :: args => (Canvas.dispatchModel tag args).getD "ERR"
  | [] => "ERR"

partial def loop (h : IO.FS.Stream) (out : IO.FS.Stream) : IO Unit := do
  let line ← h.getLine
  if line.isEmpty then return ()
  out.putStrLn (handle (line.dropRightWhile (· == '\n')))
  loop h out

def main : IO Unit := do
  let out ← IO.getStdout
  loop (← IO.getStdin) out
  out.flush
