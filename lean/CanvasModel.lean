import CanvasModel.Prelude
import CanvasModel.Driver
