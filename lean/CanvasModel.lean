import CanvasModel.Prelude
import CanvasModel.Dispatch
