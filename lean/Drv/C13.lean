import CanvasModel.Driver
import CanvasModel.C13
import CanvasModel.C13.Reader
import CanvasModel.C13.Parse
open Canvas Canvas.C13

/-! Driver for C13: STR / TXT / HIST lines run the writer model, DOC lines run the L3 reader. -/
namespace C13Drv

def sDrop (s : String) (n : Nat) : String := String.ofList (s.toList.drop n)
def sTake (s : String) (n : Nat) : String := String.ofList (s.toList.take n)

def hexNib (c : Char) : Option UInt8 :=
  if '0' ≤ c ∧ c ≤ '9' then some (c.toNat - 48).toUInt8
  else if 'a' ≤ c ∧ c ≤ 'f' then some (c.toNat - 87).toUInt8
  else none

/-- hex string → bytes ("-" = empty) -/
def unhexBA (s : String) : Option ByteArray :=
  if s == "-" then some ByteArray.empty else
  let r := s.foldl (fun (st : Option (ByteArray × Option UInt8)) c =>
    match st with
    | none => none
    | some (ba, pend) =>
      match hexNib c with
      | none => none
      | some v => match pend with
        | none => some (ba, some v)
        | some h => some (ba.push (h * 16 + v), none)) (some (ByteArray.emptyWithCapacity (s.length / 2), none))
  match r with
  | some (ba, none) => some ba
  | _ => none

def unhex (s : String) : Option Bytes := (unhexBA s).map (·.toList)

def hexB (b : Bytes) : String := if b.isEmpty then "-" else Rd.hexOf b

def fnv64 (b : Bytes) : UInt64 :=
  b.foldl (fun h c => (h ^^^ c.toUInt64) * 0x100000001b3) 0xcbf29ce484222325

def parseRunes (s : String) : Option (List Nat) :=
  if s == "-" then some [] else (s.splitOn ",").mapM (·.toNat?)

/-- value parser over tokens (fuel = number of tokens) -/
def parseVal : Nat → List String → Option (Val × List String)
  | 0, _ => none
  | _, [] => none
  | f + 1, t :: ts =>
    if t == "b0" then some (.bool false, ts)
    else if t == "b1" then some (.bool true, ts)
    else if t == "[" then
      let rec arr (g : Nat) (ts : List String) (acc : List Val) : Option (Val × List String) :=
        match g, ts with
        | 0, _ => none
        | _, [] => none
        | g + 1, t :: r => if t == "]" then some (.arr acc.reverse, r) else
          match parseVal f (t :: r) with
          | some (v, r2) => arr g r2 (v :: acc)
          | none => none
      arr (ts.length + 1) ts []
    else if t == "<<" || t == "S" then
      let ts1 := if t == "S" then ts.drop 1 else ts
      let rec dict (g : Nat) (ts : List String) (acc : List (Bytes × Val)) : Option (List (Bytes × Val) × List String) :=
        match g, ts with
        | 0, _ => none
        | _, [] => none
        | g + 1, t :: r => if t == ">>" then some (acc.reverse, r) else
          if t.startsWith "k" then
            match unhex (sDrop t 1), parseVal f r with
            | some k, some (v, r2) => dict g r2 ((k, v) :: acc)
            | _, _ => none
          else none
      match dict (ts1.length + 1) ts1 [] with
      | none => none
      | some (kvs, r) =>
        if t == "S" then
          match r with
          | x :: r2 => if x.startsWith "x" then (unhex (let h := sDrop x 1; if h.isEmpty then "-" else h)).map (fun body => (.stream kvs body, r2)) else none
          | [] => none
        else some (.dict kvs, r)
    else
      let tag := sTake t 1
      let rest := sDrop t 1
      let hx := if rest.isEmpty then "-" else rest
      if tag == "i" then rest.toInt?.map (fun i => (.int i, ts))
      else if tag == "f" then (unhex hx).map (fun b => (.num b, ts))
      else if tag == "s" then (unhex hx).map (fun b => (.str b, ts))
      else if tag == "n" then (unhex hx).map (fun b => (.name b, ts))
      else if tag == "r" then rest.toNat?.map (fun n => (.ref n, ts))
      else none

def parseVals : Nat → List String → Option (List Val × List String)
  | 0, ts => some ([], ts)
  | n + 1, ts => match parseVal (ts.length + 1) ts with
    | none => none
    | some (v, r) => (parseVals n r).map (fun (vs, r2) => (v :: vs, r2))

def parseOp : List String → Option (Op × List String)
  | "SC" :: b :: r => some (.setCompress (b == "1"), r)
  | "MT" :: k :: rs :: r => match k.toNat?, parseRunes rs with
    | some k, some rs => some (.setMeta k rs, r)
    | _, _ => none
  | "W" :: r => (parseVal (r.length + 1) r).map (fun (v, r2) => (.writeObj v, r2))
  | "GF" :: id :: v :: r => id.toNat?.map (fun id => (.getFont id (v == "1"), r))
  | "NP" :: w :: h :: cm :: r => match unhex w, unhex h, unhex cm with
    | some w, some h, some cm => some (.newPage w h cm, r)
    | _, _, _ => none
  | "PW" :: b :: r => (unhex b).map (fun b => (.pageWrite b, r))
  | "SA" :: k :: p :: r => match unhex k, unhex p with
    | some k, some p => some (.setAlpha k p, r)
    | _, _ => none
  | "URI" :: u :: a :: b :: c :: d :: r => match unhex u, unhex a, unhex b, unhex c, unhex d with
    | some u, some a, some b, some c, some d => some (.addURI u a b c d, r)
    | _, _, _, _, _ => none
  | "BT" :: r => some (.startText, r)
  | "ET" :: r => some (.endText, r)
  | "TR" :: m :: r => m.toInt?.map (fun m => (.setRenderMode m, r))
  | "TF" :: id :: k :: p :: v :: r => match id.toNat?, unhex k, unhex p with
    | some id, some k, some p => some (.setFont id k p (v == "1"), r)
    | _, _, _ => none
  | "SG" :: st :: k :: a1 :: r => match unhex k, unhex a1 with
    | some k, some a1 => some (.setGradient (st == "1") k a1, r)
    | _, _ => none
  | "DI" :: id :: clip :: cm :: a1 :: r => match id.toNat?, unhex clip, unhex cm, unhex a1 with
    | some id, some clip, some cm, some a1 => some (.drawImage id clip cm a1, r)
    | _, _, _, _ => none
  | _ => none

def parseOps : Nat → List String → Option (List Op)
  | _, [] => some []
  | 0, _ => none
  | f + 1, ts => match parseOp ts with
    | none => none
    | some (op, r) => (parseOps f r).map (op :: ·)

def parsePairs : Nat → List String → Option (List (Bytes × Bytes) × List String)
  | 0, ts => some ([], ts)
  | n + 1, a :: b :: r => match unhex a, unhex b, parsePairs n r with
    | some a, some b, some (ps, r2) => some ((a, b) :: ps, r2)
    | _, _, _ => none
  | _, _ => none

def parseFonts : Nat → List String → Option (List (Nat × List Val × Val) × List String)
  | 0, ts => some ([], ts)
  | n + 1, ref :: npre :: r => match ref.toNat?, npre.toNat? with
    | some ref, some npre =>
      match parseVals (npre + 1) r with
      | some (vs, r2) =>
        match parseFonts n r2 with
        | some (fs, r3) => some ((ref, vs.dropLast, vs.getLastD (.bool false)) :: fs, r3)
        | none => none
      | none => none
    | _, _ => none
  | _, _ => none

def parseImages : Nat → List String → Option (List (Nat × List Val) × List String)
  | 0, ts => some ([], ts)
  | n + 1, id :: nv :: r => match id.toNat?, nv.toNat? with
    | some id, some nv =>
      match parseVals nv r with
      | some (vs, r2) => (parseImages n r2).map (fun (is, r3) => ((id, vs) :: is, r3))
      | none => none
    | _, _ => none
  | _, _ => none

def parsePatterns : Nat → List String → Option (List (Bytes × Val) × List String)
  | 0, ts => some ([], ts)
  | n + 1, k :: r => match unhex k, parseVal (r.length + 1) r with
    | some k, some (v, r2) => (parsePatterns n r2).map (fun (ps, r3) => ((k, v) :: ps, r3))
    | _, _ => none
  | _, _ => none

/-- HIST date alpha1 nz (raw comp)* nf (ref npre vals)* ni (id nvals vals)* close(0/1) ops… -/
def hist (ts : List String) : Option String := do
  let date :: a1 :: nz :: r := ts | none
  let date ← unhex date
  let a1 ← unhex a1
  let nz ← nz.toNat?
  let (zs, r) ← parsePairs nz r
  let nf :: r := r | none
  let nf ← nf.toNat?
  let (fs, r) ← parseFonts nf r
  let ni :: r := r | none
  let ni ← ni.toNat?
  let (imgs, r) ← parseImages ni r
  let np :: r := r | none
  let np ← np.toNat?
  let (pats, r) ← parsePatterns np r
  let doClose :: r := r | none
  let ops ← parseOps (r.length + 1) r
  let missing : Bytes := asc "<<MISSING>>"
  let env : Env := {
    flate := fun raw => match zs.find? (fun e => e.1 == raw) with
      | some (_, c) => c
      | none => missing
    fontVals := fun ref => match fs.find? (fun e => e.1 == ref) with
      | some (_, pre, d) => (pre, d)
      | none => ([], .name missing)
    imageVals := fun id => match imgs.find? (fun e => e.1 == id) with
      | some (_, vs) => vs
      | none => []
    patternVals := fun k => match pats.find? (fun e => e.1 == k) with
      | some (_, v) => v
      | none => .name missing
    date := date
    alpha1 := a1 }
  match run env {} ops with
  | none => some "PANIC"
  | some s =>
    if doClose == "1" then
      let c := close env s
      let out := c.st.core.out
      some s!"{out.length} {Canvas.hexOfNat (fnv64 out).toNat 16} x={c.xrefOffset} pos={c.st.core.pos} o={",".intercalate (c.st.core.offs.map toString)} p={",".intercalate (c.st.pages.map toString)}"
    else
      let out := s.core.out
      some s!"{out.length} {Canvas.hexOfNat (fnv64 out).toNat 16} pos={s.core.pos} o={",".intercalate (s.core.offs.map toString)} p={",".intercalate (s.pages.map toString)}"

def parseInfl : List String → Option (List (Nat × Bytes))
  | [] => some []
  | t :: r => match t.splitOn ":" with
    | [n, h] => match n.toNat?, unhex h, parseInfl r with
      | some n, some b, some rest => some ((n, b) :: rest)
      | _, _, _ => none
    | _ => none

partial def showPV : Rd.PV → String
  | .null => "null"
  | .bool b => if b then "T" else "F"
  | .num t => "#" ++ Rd.toStr t
  | .str s => "(" ++ Rd.hexOf s ++ ")"
  | .name s => "/" ++ Rd.hexOf s
  | .ref n => "R" ++ toString n
  | .kw s => "?" ++ Rd.toStr s
  | .arr xs => "[" ++ String.join (xs.map (fun x => showPV x ++ " ")) ++ "]"
  | .dict kvs => "{" ++ String.join (kvs.map (fun e => Rd.hexOf e.1 ++ "=" ++ showPV e.2 ++ " ")) ++ "}"

def handle : List String → Option String
  | ["STR", h] => do
    let s ← unhex h
    let w := writeString s
    let r := match readString w with
      | some (x, []) => hexB x
      | _ => "none"
    some s!"w={hexB w} r={r}"
  | ["TXT", rs] => do
    let rs ← parseRunes rs
    let w := writeString (encodeText rs)
    let d := match readString w with
      | some (x, []) => ",".intercalate ((decodeText x).map toString)
      | _ => "none"
    some s!"w={hexB w} d={d}"
  | ["NUM", h] => do
    let p ← unhex h
    match P.decParse p with
    | some (n, ip, fr) => some (if P.decShape n ip fr == p && ip.all Rd.isDigit && fr.all Rd.isDigit then "1" else "0")
    | none => some "0"
  | ["PARSE", h] => do
    let b ← unhexBA h
    let bs := b.toList
    let a := match P.parseVal (bs.length + 1) bs with
      | some (v, []) => Rd.toStr (P.show' v)
      | some _ => "trailing"
      | none => "none"
    let c := match Rd.parseObj b true (b.size + 2) 0 with
      | some (pv, j) => if j == b.size then showPV pv else "trailing"
      | none => "none"
    some s!"{a} same={a == c}"
  | ["PSTRM", h] => do
    let bs ← unhex h
    match P.parseStreamObj (bs.length + 1) bs with
    | some (kvs, body, rest) => some s!"{Rd.toStr (P.show' (.dict kvs))} body={hexB body} rest={hexB rest}"
    | none => some "none"
  | "HIST" :: ts => hist ts
  | "DOC" :: h :: infl => do
    let b ← unhexBA h
    let infl ← parseInfl infl
    some (Rd.verdict b infl)
  | _ => none

end C13Drv

def main : IO Unit := runDriver C13Drv.handle
