import CanvasModel.Driver
import CanvasModel.C12
import CanvasModel.C12.Verdict
/-!
Driver for C12. One line = one drawing program for one back-end:

  `<PDF|PS|SVG|PDFI|PSI|SVGI> <k> (hex text)^k <n> draw^n`
  draw := fill stroke width cap join off nd dash^nd eo m^6 closed pid
  paint := `n` | `c:r:g:b:a` | `g:id`;  join := `B` | `R` | `M:gap:limit` | `A:gap:limit` (limit hex or `nan`)

The answer is the token text of every draw's output (draws separated by `|`), numbers printed
through the `hex -> text` dictionary of the line (the real `dec` printer, as in C13).  The `…I`
variants answer with the painted items the Lean interpreters produce for the model's operators.
-/
open Canvas Canvas.C12

def floatNum : Num Float :=
  { zero := 0.0, one := 1.0, ten := 10.0, mul := (· * ·), add := (· + ·), beq := (· == ·), lt := fun a b => decide (a < b),
    near4 := fun x => if x < 4.0 then decide (4.0 - x <= 1e-10) else decide (x - 4.0 <= 1e-10) }

abbrev Dict := List (String × String)

def pr (dict : Dict) (x : Float) : String :=
  let h := hexOfFloat x
  match dict.lookup h with
  | some t => t
  | none => "?" ++ h

/-! token stream parser -/
abbrev P := StateT (List String) Option

def tok : P String := do
  match (← get) with
  | t :: ts => set ts; pure t
  | [] => failure

def pNat : P Nat := do
  match (← tok).toNat? with
  | some n => pure n
  | none => failure

def pFloat : P Float := do
  match floatOfHex? (← tok) with
  | some f => pure f
  | none => failure

def pBool : P Bool := do
  let t ← tok
  if t == "1" then pure true else if t == "0" then pure false else failure

def pMany {α : Type} (p : P α) : Nat → P (List α)
  | 0 => pure []
  | n + 1 => do
    let x ← p
    let xs ← pMany p n
    pure (x :: xs)

def pPaint : P Paint := do
  let t ← tok
  match t.splitOn ":" with
  | ["n"] => pure .none
  | ["c", r, g, b, a] =>
    match r.toNat?, g.toNat?, b.toNat?, a.toNat? with
    | some r, some g, some b, some a => pure (.col ⟨r, g, b, a⟩)
    | _, _, _, _ => failure
  | ["g", i] => match i.toNat? with | some i => pure (.grad i) | none => failure
  | _ => failure

def pLimit (s : String) : Option (Option Float) :=
  if s == "nan" then some none else (floatOfHex? s).map some

def pJoin : P (Join Float) := do
  let t ← tok
  match t.splitOn ":" with
  | ["B"] => pure .bevel
  | ["R"] => pure .round
  | ["M", g, l] => match g.toNat?, pLimit l with | some g, some l => pure (.miter g l) | _, _ => failure
  | ["A", g, l] => match g.toNat?, pLimit l with | some g, some l => pure (.arcs g l) | _, _ => failure
  | _ => failure

def goEqual (a b : Float) : Bool := if a < b then decide (b - a <= 1e-10) else decide (a - b <= 1e-10)

def pDraw : P (Draw Float) := do
  let fill ← pPaint
  let stroke ← pPaint
  let width ← pFloat
  let cap ← pNat
  let join ← pJoin
  let off ← pFloat
  let nd ← pNat
  let dashes ← pMany pFloat nd
  let eo ← pBool
  let m ← pMany pFloat 6
  let closed ← pBool
  let pid ← pNat
  let oe ← pBool
  match m with
  | [a, b, _, c, d, _] =>
    -- Matrix.IsSimilarity and Det (util.go): m = [[a b _] [c d _]]
    let s1 := a * a + b * b
    let s2 := c * c + d * d
    let s3 := a * c + b * d
    let sim := goEqual s1 s2 && goEqual s3 0.0
    let det := a * d - b * c
    pure { fill, stroke, width, cap, join, dashOff := off, dashes, evenOdd := eo, sim, scale := Float.sqrt (Float.abs det),
           closed, pid, outlineEmpty := oe }
  | _ => failure

def pDictEntry : P (String × String) := do
  let h ← tok
  let t ← tok
  pure (h, t)

/-- one recorded call: `D <draw>` | `I` (image) | `N` (new page, PDF only) -/
inductive Rec where
  | draw (d : Draw Float)
  | image
  | page

def pRec : P Rec := do
  let t ← tok
  if t == "D" then (do let d ← pDraw; pure (Rec.draw d))
  else if t == "I" then pure Rec.image
  else if t == "N" then pure Rec.page
  else failure

def draws (rs : List Rec) : List (Draw Float) :=
  rs.filterMap (fun r => match r with | .draw d => some d | _ => none)

def pLine : P (Dict × List Rec) := do
  let k ← pNat
  let dict ← pMany pDictEntry k
  let n ← pNat
  let rs ← pMany pRec n
  pure (dict, rs)

/-! rendering -/

def comp (x a : Nat) : Float := Float.ofNat x / 255.0 / (Float.ofNat a / 255.0)

def idxOf (x : Nat) (l : List Nat) : Nat := l.idxOf x

def pkText : PK → String
  | .f => "f" | .fstar => "f*" | .S => "S" | .s => "s" | .B => "B" | .Bstar => "B*" | .b => "b" | .bstar => "b*"
  | .Sstar => "S*" | .sstar => "s*"

def renderP (dict : Dict) (w : PW Float) : POp Float → List String
  | .g c => [pr dict (comp c.r c.a), "g"]
  | .rg c => [pr dict (comp c.r c.a), pr dict (comp c.g c.a), pr dict (comp c.b c.a), "rg"]
  | .G c => [pr dict (comp c.r c.a), "G"]
  | .RG c => [pr dict (comp c.r c.a), pr dict (comp c.g c.a), pr dict (comp c.b c.a), "RG"]
  | .gs a => ["/A" ++ toString (idxOf a w.gstates), "gs"]
  | .cs i => ["/Pattern", "cs", "/P" ++ toString (idxOf i w.patterns), "scn"]
  | .CS i => ["/Pattern", "CS", "/P" ++ toString (idxOf i w.patterns), "SCN"]
  | .w x => [pr dict x, "w"]
  | .J n => [toString n, "J"]
  | .j n => [toString n, "j"]
  | .M x => [pr dict x, "M"]
  | .d a p => if a.isEmpty then ["[", "]", "0", "d"] else ["["] ++ a.map (pr dict) ++ ["]", pr dict p, "d"]
  | .path (.orig _) => ["P"]
  | .path (.outline _) => ["Ph"]
  | .paint k => [pkText k]
  | .panic => ["PANIC"]
  | .q => ["q"]
  | .Q => ["Q"]
  | .clip h => [if h then "Ph" else "P", "W", "n"]
  | .cm => ["M", "cm"]
  | .doIm k => ["/Im" ++ toString k, "Do"]

def renderS (dict : Dict) : SOp Float → List String
  | .setgray v => [pr dict (Float.ofNat v / 255.0), "setgray"]
  | .setrgbcolor r g b => [pr dict (Float.ofNat r / 255.0), pr dict (Float.ofNat g / 255.0), pr dict (Float.ofNat b / 255.0), "setrgbcolor"]
  | .setlinewidth x => [pr dict x, "setlinewidth"]
  | .setlinecap n => [toString n, "setlinecap"]
  | .setlinejoin n => [toString n, "setlinejoin"]
  | .setmiterlimit x => [pr dict x, "setmiterlimit"]
  | .setdash a o => ["["] ++ a.map (pr dict) ++ ["]", pr dict o, "setdash"]
  | .path _ => ["P"]
  | .gsave => ["gsave"]
  | .grestore => ["grestore"]
  | .fill => ["fill"]
  | .eofill => ["eofill"]
  | .stroke => ["stroke"]
  | .panic => ["PANIC"]

def hex2 (n : Nat) : String := hexOfNat n 2

/-- canvas.CSSColor (util.go 171-190) -/
def cssColor (dict : Dict) (c : Col) : String :=
  if c.a == 255 then
    let s := hex2 c.r ++ hex2 c.g ++ hex2 c.b
    match s.toList with
    | [a, b, c', d, e, f] => if a == b && c' == d && e == f then String.ofList ['#', a, c', e] else "#" ++ s
    | _ => "#" ++ s
  else if c.a == 0 then "rgba(0,0,0,0)"
  else
    let a := Float.ofNat c.a / 255.0
    let q := fun (x : Nat) => toString (Float.ofNat x / a).toUInt64.toNat
    "rgba(" ++ q c.r ++ "," ++ q c.g ++ "," ++ q c.b ++ "," ++ pr dict a ++ ")"

def paintText (dict : Dict) (pats : List Nat) : Paint → String
  | .col c => cssColor dict c
  | .grad i => "url(#p" ++ toString (idxOf i pats + 1) ++ ")"
  | .none => ""

def svgJoinText : SvgJoin → String
  | .miter => "miter" | .round => "round" | .bevel => "bevel" | .arcs => "arcs"

def itemText (dict : Dict) (pats : List Nat) (sep : String) : SItem Float → String
  | .fill p => "fill" ++ sep ++ paintText dict pats p
  | .fillNone => "fill" ++ sep ++ "none"
  | .evenodd => "fill-rule" ++ sep ++ "evenodd"
  | .stroke p => "stroke" ++ sep ++ paintText dict pats p
  | .width x => "stroke-width" ++ sep ++ pr dict x
  | .cap n => "stroke-linecap" ++ sep ++ (if n == 1 then "round" else "square")
  | .join j => "stroke-linejoin" ++ sep ++ svgJoinText j
  | .miterlimit x => "stroke-miterlimit" ++ sep ++ pr dict x
  | .dasharray a => "stroke-dasharray" ++ sep ++ ",".intercalate (a.map (pr dict))
  | .dashoffset x => "stroke-dashoffset" ++ sep ++ pr dict x
  | .panic => "PANIC"

def renderElem (dict : Dict) (pats : List Nat) (e : SElem Float) : List String :=
  ["path", "d=P"] ++
  (if e.inStyle then
    (if e.items.isEmpty then [] else ["style=" ++ ";".intercalate (e.items.map (itemText dict pats ":"))])
   else e.items.map (itemText dict pats "="))

def svgProgText (dict : Dict) : List (Draw Float) → List Nat → List (List String)
  | [], _ => []
  | d :: ds, pats =>
    let r := svgDefs floatNum d pats
    ((r.2.map (fun i => "defs:p" ++ toString (idxOf i r.1 + 1))) ++ (svgDraw floatNum d).flatMap (renderElem dict r.1)) ::
      svgProgText dict ds r.1

def pdfProgText (dict : Dict) : List Rec → PPage Float → List (List String)
  | [], _ => []
  | .draw d :: rs, pg =>
    let r := pdfItem floatNum (.draw d) pg
    (r.2.flatMap (renderP dict r.1.w)) :: pdfProgText dict rs r.1
  | .image :: rs, pg =>
    let r := pdfItem floatNum .image pg
    (r.2.flatMap (renderP dict r.1.w)) :: pdfProgText dict rs r.1
  | .page :: rs, _ =>
    -- NewPage: a fresh page writer (cache, resources) whose content starts with the mm -> pt matrix
    ["M", "cm"] :: pdfProgText dict rs ⟨pw0 floatNum, 0⟩

def psProgText (dict : Dict) : List (Draw Float) → SW Float → List (List String)
  | [], _ => []
  | d :: ds, w =>
    let r := psDraw floatNum d w
    (r.2.flatMap (renderS dict)) :: psProgText dict ds r.1

def joinDraws (l : List (List String)) : String := " | ".intercalate (l.map (" ".intercalate ·))

/-! painted items as text (interpreter tie) -/

def refText : PathRef → String
  | .orig p => "p" ++ toString p
  | .outline p => "o" ++ toString p

def shadeText : Shade → String
  | .rgb r g b a => "rgb:" ++ toString r ++ ":" ++ toString g ++ ":" ++ toString b ++ ":" ++ toString a
  | .pat i => "pat:" ++ toString i

def paintedText : Painted Float → String
  | .fill p eo sh a => "fill " ++ "+".intercalate (p.map refText) ++ " " ++ (if eo then "eo" else "nz") ++ " " ++ shadeText sh ++ " a" ++ toString a
  | .stroke p cl sh a lw c j ml da ph =>
    "stroke " ++ "+".intercalate (p.map refText) ++ " " ++ (if cl then "closes" else "asis") ++ " " ++ shadeText sh ++ " a" ++ toString a ++
    " " ++ hexOfFloat lw ++ " c" ++ toString c ++ " j" ++ toString j ++ " " ++ (match ml with | some x => hexOfFloat x | none => "-") ++
    " [" ++ ",".intercalate (da.map hexOfFloat) ++ "] " ++ hexOfFloat ph
  | .image k a => "image " ++ toString k ++ " a" ++ toString a
  | .invalid why => "invalid(" ++ why.replace " " "_" ++ ")"

def paintedLine (l : List (List (Painted Float))) : String :=
  " | ".intercalate (l.map (fun ps => " ; ".intercalate (ps.map paintedText)))

def pdfPainted : List (Draw Float) → PW Float → PG Float → List (List (Painted Float))
  | [], _, _ => []
  | d :: ds, w, g =>
    let r := pdfDraw floatNum d w
    let i := pdfRun g r.2
    i.2 :: pdfPainted ds r.1 i.1

def psItems : List (Draw Float) → SW Float → SG Float → List (List (Painted Float))
  | [], _, _ => []
  | d :: ds, w, g =>
    let r := psDraw floatNum d w
    let i := psRun g r.2
    i.2 :: psItems ds r.1 i.1

/-! verdict lines: `PDFV <dict> <n> item^n OBS <npages> page^npages <ncalls> (<ntok> tok^ntok)^ncalls`,
page := `<nExt> (name CA ca)^nExt <nPat> name^nPat <nXo> name^nXo` (numbers as printed text) -/
open Canvas.C12.Verdict in
def pPage : P Res := do
  let ne ← pNat
  let ext ← pMany (do
    let n ← tok
    let a ← tok
    let b ← tok
    match parseDec a, parseDec b with
    | some x, some y => pure (n, x, y)
    | _, _ => failure) ne
  let np ← pNat
  let pats ← pMany tok np
  let nx ← pNat
  let xo ← pMany tok nx
  pure { ext := ext, pats := pats, xobjs := xo }

def pCallToks : P (List String) := do
  let n ← pNat
  pMany tok n

open Canvas.C12.Verdict in
/-- walk the calls: the model supplies the reference items, the interpreter the observed ones -/
def verdictLoop : List Rec → List (List String) → List Res → Res → TG → Bind → Nat → Nat → String
  | [], _, _, _, _, _, i, n => "ok " ++ toString i ++ " " ++ toString n
  | _ :: _, [], _, _, _, _, i, _ => "FAIL protocol call=" ++ toString i
  | r :: rs, toks :: tss, pages, res, g, b, i, n =>
    match r with
    | .page =>
      match pages with
      | res' :: pages' =>
        let o := tokRun res' tg0 (dropM toks)
        if o.2.isEmpty then verdictLoop rs tss pages' res' o.1 [] (i + 1) n
        else "FAIL page-prefix call=" ++ toString i
      | [] => "FAIL protocol call=" ++ toString i
    | .image =>
      let o := tokRun res g (dropM toks)
      match matchItems fclose b [TItem.image 1.0] o.2 with
      | (some c, _) => "FAIL " ++ c ++ " call=" ++ toString i
      | (none, b') => verdictLoop rs tss pages res o.1 b' (i + 1) (n + 1)
    | .draw d =>
      let o := tokRun res g (dropM toks)
      let e := (pdfRef floatNum d).map expected
      match matchItems fclose b e o.2 with
      | (some c, _) => "FAIL " ++ c ++ " call=" ++ toString i
      | (none, b') => verdictLoop rs tss pages res o.1 b' (i + 1) (n + e.length)

open Canvas.C12.Verdict in
def pVerdict : P String := do
  let (_, rs) ← pLine
  let t ← tok
  if t != "OBS" then failure
  let np ← pNat
  let pages ← pMany pPage np
  let nc ← pNat
  let tss ← pMany pCallToks nc
  let pre ← pCallToks          -- the first page's content before the first call (` … cm`)
  match pages with
  | res :: rest =>
    let o := tokRun res tg0 (dropM pre)
    pure (verdictLoop rs tss rest res o.1 [] 0 0)
  | [] => failure

def handle : List String → Option String
  | "PDFV" :: rest =>
    match pVerdict.run rest with
    | some (v, []) => some v
    | _ => none
  | tag :: rest =>
    match (pLine.run rest) with
    | some ((dict, rs), []) =>
      let ds := draws rs
      if tag == "PDF" then some (joinDraws (pdfProgText dict rs ⟨pw0 floatNum, 0⟩))
      else if tag == "PS" then some (joinDraws (psProgText dict ds (sw0 floatNum)))
      else if tag == "SVG" then some (joinDraws (svgProgText dict ds []))
      else if tag == "PDFI" then some (paintedLine (pdfPainted ds (pw0 floatNum) (pg0 floatNum)))
      else if tag == "PSI" then some (paintedLine (psItems ds (sw0 floatNum) (sg0 floatNum)))
      else if tag == "SVGI" then some (paintedLine (ds.map (fun d => svgRun floatNum (svgDraw floatNum d))))
      else if tag == "PDFR" then some (paintedLine (ds.map (pdfRef floatNum)))
      else if tag == "PSR" then some (paintedLine (ds.map (psRef floatNum)))
      else if tag == "SVGR" then some (paintedLine (ds.map (svgRef floatNum)))
      else none
    | _ => none
  | [] => none

def main : IO Unit := runDriver handle
