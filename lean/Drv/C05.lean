import CanvasModel.Driver
import CanvasModel.C05
open Canvas Canvas.C05

def epsF : Float := 1e-10
def fuelF : Nat := 2000000

/-- Go `math.Mod(x, y)` for finite `x` and finite `y > 0`, computed exactly in floats: repeatedly
subtract the largest `y·2^k ≤ r` (the scaling by a power of two and, by Sterbenz, the subtraction
are exact). NaN for `y ≤ 0`, non-finite arguments as Go where it matters here. -/
def fmodUp (r : Float) : Nat → Float → Float
  | 0, s => s
  | n + 1, s => if s + s ≤ r then fmodUp r n (s + s) else s
def fmodPos : Nat → Float → Float → Float
  | 0, r, _ => r
  | n + 1, r, y => if r < y then r else fmodPos n (r - fmodUp r 2200 y) y
def fmodF (x y : Float) : Float :=
  if x.isNaN || y.isNaN || x.isInf || !(y > 0) then (0.0 / 0.0)
  else if y.isInf then x
  else if x < 0 then -(fmodPos 2200 (-x) y) else fmodPos 2200 x y

def floats? : List String → Option (List Float)
  | [] => some []
  | s :: r => do
    let x ← floatOfHex? s
    let xs ← floats? r
    pure (x :: xs)

/-- parse `<n> x1 … xn rest…` -/
def counted? (ws : List String) : Option (List Float × List String) := do
  match ws with
  | [] => none
  | n :: r =>
    let k ← n.toNat?
    if r.length < k then none else
    let xs ← floats? (r.take k)
    pure (xs, r.drop k)

/-- parse `<k> a1 b1 … ak bk rest…` -/
def counted2? (ws : List String) : Option (List (Float × Float) × List String) := do
  match ws with
  | [] => none
  | n :: r =>
    let k ← n.toNat?
    if r.length < 2 * k then none else
    let xs ← floats? (r.take (2 * k))
    let rec pairs : List Float → List (Float × Float)
      | a :: b :: t => (a, b) :: pairs t
      | _ => []
    pure (pairs xs, r.drop (2 * k))

def subs? : List String → Option (List (Float × Bool))
  | [] => some []
  | l :: c :: r => do
    let x ← floatOfHex? l
    let rest ← subs? r
    pure ((x, c == "1") :: rest)
  | _ => none

def showFloats (xs : List Float) : String := " ".intercalate (xs.map hexOfFloat)

def handle : List String → Option String
  | "CANON" :: off :: r => do
    let o ← floatOfHex? off
    let (d, _) ← counted? r
    match dashCanonical epsF o d with
    | none => pure "PANIC"
    | some (o', d') =>
      pure s!"{hexOfFloat o'} {d'.length} {showFloats d'} A {showFloats (canonArg epsF d)}"
  | "START" :: off :: r => do
    let o ← floatOfHex? off
    let (d, _) ← counted? r
    match dashStart fmodF fuelF o d with
    | none => pure "PANIC"
    | some (i0, pos0) => pure s!"{i0} {hexOfFloat pos0}"
  | "DASH" :: off :: r => do
    let o ← floatOfHex? off
    let (d, r') ← counted? r
    match r' with
    | [] => none
    | _ :: r'' =>
      let ss ← subs? r''
      match dash fmodF epsF fuelF o d ss with
      | .whole => pure "W"
      | .stuck => pure "STUCK"
      | .pieces ps =>
        pure (s!"P {ps.length}" ++ String.join (ps.map fun (k, a, b) => s!" {k} {hexOfFloat a} {hexOfFloat b}"))
  | "VERDICT" :: off :: r => do
    -- VERDICT <offset> <n> d… <length> <k> a1 b1 … ak bk : observed arc-length intervals of one
    -- straight subpath; decided against the pattern semantics with τ = 1e-7·length + 1e-9
    let o ← floatOfHex? off
    let (d, r1) ← counted? r
    match r1 with
    | len :: r2 =>
      let L ← floatOfHex? len
      let (ab, _) ← counted2? r2
      let τ := 1e-7 * L + 1e-9
      match verdictBad fmodF (· / 2) fuelF o (doubled d) L τ ab with
      | none => pure "skip stuck"
      | some [] => pure "ok"
      | some (x :: _) => pure s!"FAIL pattern-mismatch at arc length {x} of {L} (tolerance {τ})"
    | _ => none
  | _ => none
def main : IO Unit := runDriver handle
