import CanvasModel.Driver
import CanvasModel.C05
open Canvas Canvas.C05

def epsF : Float := 1e-10
def fuelF : Nat := 2000000

def floats? : List String → Option (List Float)
  | [] => some []
  | s :: r => do
    let x ← floatOfHex? s
    let xs ← floats? r
    pure (x :: xs)

/-- parse `<n> x1 … xn rest…` -/
def counted? (ws : List String) : Option (List Float × List String) := do
  match ws with
  | [] => none
  | n :: r =>
    let k ← n.toNat?
    if r.length < k then none else
    let xs ← floats? (r.take k)
    pure (xs, r.drop k)

def subs? : List String → Option (List (Float × Bool))
  | [] => some []
  | l :: c :: r => do
    let x ← floatOfHex? l
    let rest ← subs? r
    pure ((x, c == "1") :: rest)
  | _ => none

def showFloats (xs : List Float) : String := " ".intercalate (xs.map hexOfFloat)

def handle : List String → Option String
  | "CANON" :: off :: r => do
    let o ← floatOfHex? off
    let (d, _) ← counted? r
    match dashCanonical epsF o d with
    | none => pure "PANIC"
    | some (o', d') =>
      pure s!"{hexOfFloat o'} {d'.length} {showFloats d'} A {showFloats (canonArg epsF d)}"
  | "START" :: off :: r => do
    let o ← floatOfHex? off
    let (d, _) ← counted? r
    match dashStart fuelF o d with
    | none => pure "PANIC"
    | some (i0, pos0) => pure s!"{i0} {hexOfFloat pos0}"
  | "DASH" :: off :: r => do
    let o ← floatOfHex? off
    let (d, r') ← counted? r
    match r' with
    | [] => none
    | _ :: r'' =>
      let ss ← subs? r''
      match dash epsF fuelF o d ss with
      | .whole => pure "W"
      | .stuck => pure "STUCK"
      | .pieces ps =>
        pure (s!"P {ps.length}" ++ String.join (ps.map fun (k, a, b) => s!" {k} {hexOfFloat a} {hexOfFloat b}"))
  | _ => none
def main : IO Unit := runDriver handle
