import CanvasModel.Driver
import CanvasModel.C18
open Canvas Canvas.C18

namespace DrvC18

def nats? (ts : List String) : Option (List Nat) := ts.mapM String.toNat?
def ints? (ts : List String) : Option (List Int) := ts.mapM String.toInt?

def joinS (xs : List String) : String := " ".intercalate xs

def showEnt : WEnt → String
  | .arr s ws => joinS (["A", toString s, toString ws.length] ++ ws.map toString)
  | .range a b w => joinS ["R", toString a, toString b, toString w]

/-- parse `A s n w…` / `R a b w` entries -/
partial def parseEnts : List String → Option (List WEnt)
  | [] => some []
  | "A" :: s :: n :: rest => do
    let s ← s.toNat?
    let n ← n.toNat?
    if rest.length < n then none else
    let ws ← ints? (rest.take n)
    let tl ← parseEnts (rest.drop n)
    pure (WEnt.arr s ws :: tl)
  | "R" :: a :: b :: w :: rest => do
    let a ← a.toNat?
    let b ← b.toNat?
    let w ← w.toInt?
    let tl ← parseEnts rest
    pure (WEnt.range a b w :: tl)
  | _ => none

partial def parseTU : List String → Option (List (Nat × Nat × Nat) × List (Nat × Nat))
  | [] => some ([], [])
  | "R" :: a :: b :: v :: rest => do
    let a ← a.toNat?
    let b ← b.toNat?
    let v ← v.toNat?
    let (r, c) ← parseTU rest
    pure ((a, b, v) :: r, c)
  | "C" :: a :: v :: rest => do
    let a ← a.toNat?
    let v ← v.toNat?
    let (r, c) ← parseTU rest
    pure (r, (a, v) :: c)
  | _ => none

def showTU (rc : List (Nat × Nat × Nat) × List (Nat × Nat)) : String :=
  joinS (rc.1.map (fun r => joinS ["R", toString r.1, toString r.2.1, toString r.2.2]) ++
         rc.2.map (fun c => joinS ["C", toString c.1, toString c.2]))

/-- six tokens per glyph: xadv yadv xoff yoff vertical observable; `observable` = the glyph has an outline,
so its position can be read off the real path (whitespace glyphs move the pen but leave no mark) -/
partial def parseG : List String → Option (List (G × Bool))
  | [] => some []
  | a :: b :: c :: d :: v :: o :: rest => do
    let a ← a.toInt?
    let b ← b.toInt?
    let c ← c.toInt?
    let d ← d.toInt?
    let tl ← parseG rest
    pure ((⟨a, b, c, d, v == "1"⟩, o == "1") :: tl)
  | _ => none

/-- `xadv yadv xoff yoff k x1 y1 … xk yk` per glyph -/
partial def parseGO : List String → Option (List (G × List (Int × Int)))
  | [] => some []
  | a :: b :: c :: d :: k :: rest => do
    let a ← a.toInt?
    let b ← b.toInt?
    let c ← c.toInt?
    let d ← d.toInt?
    let k ← k.toNat?
    if rest.length < 2 * k then none else
    let cs ← ints? (rest.take (2 * k))
    let rec pairs : List Int → List (Int × Int)
      | x :: y :: r => (x, y) :: pairs r
      | _ => []
    let tl ← parseGO (rest.drop (2 * k))
    pure ((⟨a, b, c, d, false⟩, pairs cs) :: tl)
  | _ => none

/-- `S k c1 … ck` / `N v` -/
partial def parseTJ : List String → Option (List TJItem)
  | [] => some []
  | "S" :: k :: rest => do
    let k ← k.toNat?
    if rest.length < k then none else
    let cs ← nats? (rest.take k)
    let tl ← parseTJ (rest.drop k)
    pure (TJItem.str cs :: tl)
  | "N" :: v :: rest => do
    let v ← v.toInt?
    let tl ← parseTJ rest
    pure (TJItem.num v :: tl)
  | _ => none

partial def pairsNI : List String → Option (List (Nat × Int))
  | [] => some []
  | a :: b :: rest => do
    let a ← a.toNat?
    let b ← b.toInt?
    let tl ← pairsNI rest
    pure ((a, b) :: tl)
  | _ => none

def splitBar (ts : List String) : List String × List String :=
  (ts.takeWhile (· ≠ "|"), (ts.dropWhile (· ≠ "|")).drop 1)

def handle : List String → Option String
  | "SUB" :: ts => do
    let gs ← nats? ts
    let r := Sub.new.run gs
    pure (joinS (r.2.map toString ++ ["|"] ++ r.1.ids.map toString))
  | "W" :: ts => do
    let ws ← ints? ts
    let r := encodeW ws
    pure (joinS (toString r.1 :: r.2.map showEnt))
  | "WM" :: n :: ts => do
    -- real encoder output vs the model family: equal to `encodeWT thr ws` for some threshold
    let n ← n.toNat?
    if ts.length < n + 1 then none else
    let ws ← ints? (ts.take n)
    let dw ← (ts.drop n).head? >>= String.toInt?
    let es ← parseEnts (ts.drop (n + 1))
    match (List.range 41).find? (fun thr => encodeWT thr ws == (dw, es)) with
    | some _ => pure "ok"
    | none => let r := encodeW ws; pure (joinS ("model:" :: toString r.1 :: r.2.map showEnt))
  | "WDEC" :: n :: dw :: ts => do
    let n ← n.toNat?
    let dw ← dw.toInt?
    let es ← parseEnts ts
    pure (joinS ((decodeW dw es n).map toString))
  | "TU" :: ts => do
    let us ← nats? ts
    pure (showTU (encodeTU us))
  | "TUDEC" :: n :: ts => do
    let n ← n.toNat?
    let (r, c) ← parseTU ts
    pure (joinS ((decodeTU r c n).map (fun o => match o with | some u => toString u | none => "x")))
  | ["TJ", upm, dx] => do
    let upm ← upm.toInt?
    let dx ← dx.toInt?
    pure (toString (tjAdjust upm dx))
  | ["WW", upm, adv] => do
    let upm ← upm.toInt?
    let adv ← adv.toInt?
    pure (toString (wWidth upm adv))
  | "TJB" :: upm :: ts => do
    -- the whole TJ array, byte for byte
    let upm ← upm.toInt?
    let gs ← pairsNI ts
    pure (joinS ((tjBytes (tjBuild upm gs)).map toString))
  | "TJR" :: ts => do
    -- L3 §9.4.3 reading of an observed array
    let items ← parseTJ ts
    let r := tjRead items
    pure (joinS (toString r.1 :: r.2.map (fun p => toString p.1 ++ " " ++ toString p.2)))
  | "LIT" :: ts => do
    -- L3 §7.3.4.2 reader on observed raw bytes (after the opening parenthesis)
    let bs ← nats? ts
    match readLit LSt.start bs with
    | some (s, rest) => pure (joinS (s.map toString ++ ["|", toString rest.length]))
    | none => pure "unterminated"
  | "CM" :: ts => do
    let ids ← nats? ts
    pure (joinS ((encodeCidMap ids).map toString))
  | "CG" :: sub :: ts => do
    -- end to end: Get history -> codes -> glyph shown by each code (0 TrueType whole, 1 subset, 2 CFF whole)
    let h ← nats? ts
    let r := Sub.new.run h
    pure (joinS (r.2.map (fun c => match codeGlyph (sub == "1") (sub != "2") r.1.ids c with | some g => toString g | none => "x")))
  | "WFM" :: upm :: n :: ts => do
    let upm ← upm.toInt?
    let n ← n.toNat?
    if ts.length < n + 1 then none else
    let advs ← ints? (ts.take n)
    let dw ← (ts.drop n).head? >>= String.toInt?
    let es ← parseEnts (ts.drop (n + 1))
    let ws := advs.map (wWidth upm)
    match (List.range 41).find? (fun thr => encodeWT thr ws == (dw, es)) with
    | some _ => pure "ok"
    | none => let r := fontW upm advs; pure (joinS ("model:" :: toString r.1 :: r.2.map showEnt))
  | "FV" :: upm :: n :: ts => do
    -- verdict on a font object: n (adv uni|-1) pairs | dw W… | TU…
    let upm ← upm.toInt?
    let n ← n.toNat?
    if ts.length < 2 * n then none else
    let au ← ints? (ts.take (2 * n))
    let rec split : List Int → List Int × List (Option Nat)
      | a :: u :: r => let q := split r; (a :: q.1, (if u < 0 then none else some u.toNat) :: q.2)
      | _ => ([], [])
    let (advs, unis) := split au
    let (_, r1) := splitBar (ts.drop (2 * n))
    let (wt, tt) := splitBar r1
    let dw ← wt.head? >>= String.toInt?
    let es ← parseEnts (wt.drop 1)
    let (rg, ch) ← parseTU tt
    match fontVerdict ⟨upm, advs, unis, dw, es, rg, ch⟩ with
    | none => pure "ok"
    | some k => pure s!"bad code {k}: W {lookupW dw es k} want {wWidth upm (advs.getD k 0)}, ToUnicode {repr (tuLookup rg ch k)} want {repr (unis.getD k none)}"
  | "PATH" :: f :: x :: y :: ts => do
    let f ← f.toInt?
    let x ← x.toInt?
    let y ← y.toInt?
    let gs ← parseGO ts
    pure (joinS ((toPathPts f x y gs).map (fun p => toString p.1 ++ " " ++ toString p.2)))
  | "PEN" :: x :: y :: ts => do
    let x ← x.toInt?
    let y ← y.toInt?
    let gos ← parseG ts
    let gs := gos.map (·.1)
    let r := penRun x y gs
    let seen := (r.1.zip (gos.map (·.2))).filter (·.2)
    pure (joinS (seen.map (fun p => toString p.1.1 ++ " " ++ toString p.1.2) ++ ["|", toString r.2, toString (textWidthUnits gs)]))
  | _ => none

end DrvC18

def main : IO Unit := runDriver DrvC18.handle
