import CanvasModel.Driver
import CanvasModel.C18
open Canvas Canvas.C18

namespace DrvC18

def nats? (ts : List String) : Option (List Nat) := ts.mapM String.toNat?
def ints? (ts : List String) : Option (List Int) := ts.mapM String.toInt?

def joinS (xs : List String) : String := " ".intercalate xs

def showEnt : WEnt → String
  | .arr s ws => joinS (["A", toString s, toString ws.length] ++ ws.map toString)
  | .range a b w => joinS ["R", toString a, toString b, toString w]

/-- parse `A s n w…` / `R a b w` entries -/
partial def parseEnts : List String → Option (List WEnt)
  | [] => some []
  | "A" :: s :: n :: rest => do
    let s ← s.toNat?
    let n ← n.toNat?
    if rest.length < n then none else
    let ws ← ints? (rest.take n)
    let tl ← parseEnts (rest.drop n)
    pure (WEnt.arr s ws :: tl)
  | "R" :: a :: b :: w :: rest => do
    let a ← a.toNat?
    let b ← b.toNat?
    let w ← w.toInt?
    let tl ← parseEnts rest
    pure (WEnt.range a b w :: tl)
  | _ => none

partial def parseTU : List String → Option (List (Nat × Nat × Nat) × List (Nat × Nat))
  | [] => some ([], [])
  | "R" :: a :: b :: v :: rest => do
    let a ← a.toNat?
    let b ← b.toNat?
    let v ← v.toNat?
    let (r, c) ← parseTU rest
    pure ((a, b, v) :: r, c)
  | "C" :: a :: v :: rest => do
    let a ← a.toNat?
    let v ← v.toNat?
    let (r, c) ← parseTU rest
    pure (r, (a, v) :: c)
  | _ => none

def showTU (rc : List (Nat × Nat × Nat) × List (Nat × Nat)) : String :=
  joinS (rc.1.map (fun r => joinS ["R", toString r.1, toString r.2.1, toString r.2.2]) ++
         rc.2.map (fun c => joinS ["C", toString c.1, toString c.2]))

/-- six tokens per glyph: xadv yadv xoff yoff vertical observable; `observable` = the glyph has an outline,
so its position can be read off the real path (whitespace glyphs move the pen but leave no mark) -/
partial def parseG : List String → Option (List (G × Bool))
  | [] => some []
  | a :: b :: c :: d :: v :: o :: rest => do
    let a ← a.toInt?
    let b ← b.toInt?
    let c ← c.toInt?
    let d ← d.toInt?
    let tl ← parseG rest
    pure ((⟨a, b, c, d, v == "1"⟩, o == "1") :: tl)
  | _ => none

/-- `xadv yadv xoff yoff k x1 y1 … xk yk` per glyph -/
partial def parseGO : List String → Option (List (G × List (Int × Int)))
  | [] => some []
  | a :: b :: c :: d :: k :: rest => do
    let a ← a.toInt?
    let b ← b.toInt?
    let c ← c.toInt?
    let d ← d.toInt?
    let k ← k.toNat?
    if rest.length < 2 * k then none else
    let cs ← ints? (rest.take (2 * k))
    let rec pairs : List Int → List (Int × Int)
      | x :: y :: r => (x, y) :: pairs r
      | _ => []
    let tl ← parseGO (rest.drop (2 * k))
    pure ((⟨a, b, c, d, false⟩, pairs cs) :: tl)
  | _ => none

def handle : List String → Option String
  | "SUB" :: ts => do
    let gs ← nats? ts
    let r := Sub.new.run gs
    pure (joinS (r.2.map toString ++ ["|"] ++ r.1.ids.map toString))
  | "W" :: ts => do
    let ws ← ints? ts
    let r := encodeW ws
    pure (joinS (toString r.1 :: r.2.map showEnt))
  | "WM" :: n :: ts => do
    -- real encoder output vs the model family: equal to `encodeWT thr ws` for some threshold
    let n ← n.toNat?
    if ts.length < n + 1 then none else
    let ws ← ints? (ts.take n)
    let dw ← (ts.drop n).head? >>= String.toInt?
    let es ← parseEnts (ts.drop (n + 1))
    match (List.range 41).find? (fun thr => encodeWT thr ws == (dw, es)) with
    | some _ => pure "ok"
    | none => let r := encodeW ws; pure (joinS ("model:" :: toString r.1 :: r.2.map showEnt))
  | "WDEC" :: n :: dw :: ts => do
    let n ← n.toNat?
    let dw ← dw.toInt?
    let es ← parseEnts ts
    pure (joinS ((decodeW dw es n).map toString))
  | "TU" :: ts => do
    let us ← nats? ts
    pure (showTU (encodeTU us))
  | "TUDEC" :: n :: ts => do
    let n ← n.toNat?
    let (r, c) ← parseTU ts
    pure (joinS ((decodeTU r c n).map (fun o => match o with | some u => toString u | none => "x")))
  | ["TJ", upm, dx] => do
    let upm ← upm.toInt?
    let dx ← dx.toInt?
    pure (toString (tjAdjust upm dx))
  | ["WW", upm, adv] => do
    let upm ← upm.toInt?
    let adv ← adv.toInt?
    pure (toString (wWidth upm adv))
  | "PATH" :: f :: x :: y :: ts => do
    let f ← f.toInt?
    let x ← x.toInt?
    let y ← y.toInt?
    let gs ← parseGO ts
    pure (joinS ((toPathPts f x y gs).map (fun p => toString p.1 ++ " " ++ toString p.2)))
  | "PEN" :: x :: y :: ts => do
    let x ← x.toInt?
    let y ← y.toInt?
    let gos ← parseG ts
    let gs := gos.map (·.1)
    let r := penRun x y gs
    let seen := (r.1.zip (gos.map (·.2))).filter (·.2)
    pure (joinS (seen.map (fun p => toString p.1.1 ++ " " ++ toString p.1.2) ++ ["|", toString r.2, toString (textWidthUnits gs)]))
  | _ => none

end DrvC18

def main : IO Unit := runDriver DrvC18.handle
