import CanvasModel.Driver
import CanvasModel.C16
import CanvasModel.C16.Stack
import CanvasModel.C16.Glue
open Canvas Canvas.C16

/-! Line protocol of the C16 driver

`G2I <align 0..3> <indent> (<KHST> <adv> <hw>)*`  K ∈ S R N L H Z C, H/S flags 0/1, T text class
      → `n (B|G|P):size:fl:w:y:z:p …`
`SL <n> items… | shyPositions… | breaks…`  items `B3 G1 P0`
      → `PANIC` | `ok (e | start:stop:hyphenShown) …`  (e = line without glyphs)
`RO (level x w)*`  → new x of every span
`SI (sc lv zw repl)*` → `sc:lv:len …`
`IX loc starts…` → index
`ST ls height valign (asc desc bot empty)*` → `k y… | Height | top bottom`   (stacking, Text.Heights)
`BD (x w y asc desc)*` → Bounds `x0 y0 x1 y1`
`GA ratio m | (B|G|P):size:w:y:z … | XAdvance…` → the first m adjusted advances
`AL (L|R|C|J) width indent first w…` → X of every span of the line (before reorderSpans)
`CV classes | a:b a:b / a:b / / …`  (verdict line) → `ok` | `FAIL kind pos`
-/

def parseAlign? : String → Option Align
  | "0" => some .left | "1" => some .right | "2" => some .centered | "3" => some .justified | _ => none

def parseGK? : Char → Option GK
  | 'S' => some .sp | 'R' => some .cr | 'N' => some .lf | 'L' => some .nl
  | 'H' => some .shy | 'Z' => some .zwsp | 'C' => some .ch | _ => none

partial def parseGlyphs : List String → List G → Option (List G)
  | [], acc => some acc.reverse
  | c :: adv :: hw :: rest, acc => do
    let cs := c.toList
    match cs with
    | [k, h, s, t] =>
      let k ← parseGK? k
      let adv ← floatOfHex? adv
      let hw ← floatOfHex? hw
      parseGlyphs rest (⟨k, h == '1', s == '1', t.toNat - '0'.toNat, adv, hw⟩ :: acc)
    | _ => none
  | _, _ => none

def showItem (it : Item) : String :=
  let t := match it.ty with | .box => "B" | .glue => "G" | .pen => "P"
  s!"{t}:{it.size}:{if it.fl then 1 else 0}:{hexOfFloat it.w}:{hexOfFloat it.y}:{hexOfFloat it.z}:{hexOfFloat it.p}"

def parseIt? (s : String) : Option It :=
  match s.toList with
  | 'B' :: r => (String.ofList r).toNat?.map (⟨.box, ·⟩)
  | 'G' :: r => (String.ofList r).toNat?.map (⟨.glue, ·⟩)
  | 'P' :: r => (String.ofList r).toNat?.map (⟨.pen, ·⟩)
  | _ => none

def splitBar (l : List String) : List (List String) :=
  let r := l.foldr (fun s (acc : List String × List (List String)) => if s == "|" then ([], acc.1 :: acc.2) else (s :: acc.1, acc.2)) ([], [])
  r.1 :: r.2

def showLine (l : Line) : String :=
  if l.start == l.stop then "e" else s!"{l.start}:{l.stop}:{if l.hyph && l.stop == l.hpos + 1 then 1 else 0}"

partial def parseSpans : List String → List (Span Float) → Option (List (Span Float))
  | [], acc => some acc.reverse
  | l :: x :: w :: rest, acc => do
    let l ← l.toNat?
    let x ← floatOfHex? x
    let w ← floatOfHex? w
    parseSpans rest (⟨l, x, w⟩ :: acc)
  | _, _ => none

partial def parseRunes : Nat → List String → List R → Option (List R)
  | _, [], acc => some acc.reverse
  | i, sc :: lv :: zw :: rp :: rest, acc => do
    let sc ← sc.toNat?
    let lv ← lv.toNat?
    parseRunes (i + 1) rest (⟨sc, lv, zw == "1", rp == "1", i⟩ :: acc)
  | _, _, _ => none

partial def parseLMs : List String → List (LM Float) → Option (List (LM Float))
  | [], acc => some acc.reverse
  | a :: d :: b :: e :: rest, acc => do
    parseLMs rest (⟨← floatOfHex? a, ← floatOfHex? d, ← floatOfHex? b, e == "1"⟩ :: acc)
  | _, _ => none

def parseVA? : String → Option VAlign
  | "T" => some .top | "C" => some .center | "B" => some .bottom | "J" => some .justify | _ => none

partial def parseRects : List String → List (R4 Float) → Option (List (R4 Float))
  | [], acc => some acc.reverse
  | x :: w :: y :: a :: d :: rest, acc => do
    parseRects rest (spanRect (← floatOfHex? x) (← floatOfHex? w) (← floatOfHex? y) (← floatOfHex? a) (← floatOfHex? d) :: acc)
  | _, _ => none

def parseGItem? (s : String) : Option (GItem Float) :=
  match s.splitOn ":" with
  | [t, sz, w, y, z] => do
    let ty ← (match t with | "B" => some Ty.box | "G" => some Ty.glue | "P" => some Ty.pen | _ => none)
    some ⟨ty, ← sz.toNat?, ← floatOfHex? w, ← floatOfHex? y, ← floatOfHex? z⟩
  | _ => none

def parseRC? : Char → Option RC
  | 's' => some .sp | 'r' => some .cr | 'l' => some .lf | 'n' => some .nl | 'z' => some .zw | 'h' => some .shy | 'c' => some .ch | _ => none

def parseSpan? (s : String) : Option (Nat × Nat) :=
  match s.splitOn ":" with
  | [a, b] => do some (← a.toNat?, ← b.toNat?)
  | _ => none

def splitSlash (l : List String) : List (List String) :=
  let r := l.foldr (fun s (acc : List String × List (List String)) => if s == "/" then ([], acc.1 :: acc.2) else (s :: acc.1, acc.2)) ([], [])
  r.1 :: r.2

def showInt (x : Float) : String := toString (Float.toInt64 x).toInt

def handle : List String → Option String
  | "ST" :: ls :: height :: va :: rest => do
    let ls ← floatOfHex? ls
    let height ← floatOfHex? height
    let va ← parseVA? va
    let lines ← parseLMs rest []
    let r := stackLines (fun n => Float.ofNat n) ls height va lines
    let hs := textHeights r.ys (lines.take r.ys.length)
    some (String.intercalate " " ([toString r.ys.length] ++ r.ys.map hexOfFloat ++ ["|", hexOfFloat r.height, "|", hexOfFloat hs.1, hexOfFloat hs.2]))
  | "BD" :: rest => do
    let rs ← parseRects rest []
    let b := boundsOf goMin goMax rs
    some s!"{hexOfFloat b.x0} {hexOfFloat b.y0} {hexOfFloat b.x1} {hexOfFloat b.y1}"
  | "GA" :: ratio :: m :: rest => do
    let ratio ← floatOfHex? ratio
    let m ← m.toNat?
    match splitBar rest with
    | [_, its, advs] =>
      let items ← its.mapM parseGItem?
      let advs ← advs.mapM (fun s => s.toInt?.map Float.ofInt)
      let out := adjustLine Float.isInf incFloat (fun r => r == 0.0) ratio items advs
      some (String.intercalate " " ("a" :: (out.take m).map showInt))
    | _ => none
  | "AL" :: h :: width :: indent :: first :: rest => do
    let h ← (match h with | "L" => some HAlign.left | "R" => some HAlign.right | "C" => some HAlign.center | "J" => some HAlign.justify | _ => none)
    let ws ← rest.mapM floatOfHex?
    some (String.intercalate " " ("x" :: (alignLine h (← floatOfHex? width) (← floatOfHex? indent) (first == "1") ws).map hexOfFloat))
  | "CV" :: cls :: rest => do
    let cls ← (cls.toList.drop 1).mapM parseRC?
    match rest with
    | "|" :: ls =>
      let lines ← (splitSlash ls).dropLast.mapM (fun l => l.mapM parseSpan?)
      match conserve cls lines with
      | .ok => some "ok"
      | .fail k p => some s!"FAIL {k} at={p}"
    | _ => none
  | "G2I" :: al :: indent :: rest => do
    let al ← parseAlign? al
    let indent ← floatOfHex? indent
    let gs ← parseGlyphs rest []
    let items := toItems al indent gs
    some (String.intercalate " " (toString items.length :: items.map showItem))
  | "SL" :: n :: rest => do
    let n ← n.toNat?
    match splitBar rest with
    | [its, shys, brs] =>
      let items ← its.mapM parseIt?
      let shys ← shys.mapM (·.toNat?)
      let brs ← brs.mapM (·.toNat?)
      match slice (fun g => shys.contains g) n 0 items 0 brs with
      | none => some "PANIC"
      | some r => some (String.intercalate " " ("ok" :: r.lines.map showLine))
    | _ => none
  | "RO" :: rest => do
    let sp ← parseSpans rest []
    some (String.intercalate " " ("x" :: (reorder sp).map (fun s => hexOfFloat s.x)))
  | "SI" :: rest => do
    let rs ← parseRunes 0 rest []
    some (String.intercalate " " ("it" :: (itemize rs).map (fun it => s!"{it.sc}:{it.lv}:{it.text.length}")))
  | "IX" :: loc :: rest => do
    let loc ← loc.toInt?
    let ix ← rest.mapM (·.toInt?)
    some (toString (indexOf ix loc))
  | _ => none

def main : IO Unit := runDriver handle
