import CanvasModel.Driver
import CanvasModel.C09.Proto
import CanvasGen.BezierF
open Canvas
def handle : List String → Option String
  | "L1" :: name :: args => (GenF.dispatchCore name args) <|> (GenF.dispatchBezier name args)
  | ts => Canvas.C09.handle ts
def main : IO Unit := runDriver handle
