import CanvasModel.Driver
import CanvasModel.C01
import CanvasModel.C01Avl
import CanvasModel.C01Heap
import CanvasModel.C01Cmp
import CanvasModel.C01Merge
import CanvasModel.C01Split
import CanvasGen.SweepF
open Canvas
def handle : List String → Option String
  | "L1" :: name :: args => GenF.dispatchSweep name args
  -- second wave: sweep-line data structures (AVL status, event heap, comparators, mergeOverlapping)
  | "AVLI" :: rest => Canvas.C01Avl.handle ("AVLI" :: rest)
  | "AVLR" :: rest => Canvas.C01Avl.handle ("AVLR" :: rest)
  | "AVLQ" :: rest => Canvas.C01Avl.handle ("AVLQ" :: rest)
  | "HEAP" :: rest => Canvas.C01Heap.handle ("HEAP" :: rest)
  | "CMP" :: rest => Canvas.C01Cmp.handle ("CMP" :: rest)
  | "IPY" :: rest => Canvas.C01Cmp.handle ("IPY" :: rest)
  | "MRG" :: rest => Canvas.C01Merge.handle ("MRG" :: rest)
  | "ADDX" :: rest => Canvas.C01Split.handle ("ADDX" :: rest)
  | ts => Canvas.C01.handle ts
def main : IO Unit := runDriver handle
