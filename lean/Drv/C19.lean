import CanvasModel.Driver
import CanvasModel.C19
import CanvasModel.C19.Dash
import CanvasGen.CoreF
open Canvas Canvas.C19

/-! Driver for C19: the generic SVG-import model instantiated with `Float` and the generated (`GenF`)
translations of /repo/util.go.  One document per line (`DOC …`, grammar in harness/c19/doc.go). -/

def signbit (x : Float) : Bool := x.toBits >>> 63 == 1

def arithF : Arith Float :=
  { zero := 0.0, one := 1.0, nat := fun n => Float.ofNat n, c25_4 := 25.4, c0_25 := 0.25, mmPerPx := 0.26458333333333334, pi := goPi,
    neg := fun x => -x, add := (· + ·), sub := (· - ·), mul := (· * ·), div := (· / ·),
    lt := fun a b => a < b, le := fun a b => a ≤ b, beq := fun a b => a == b,
    equal := GenF.Equal, min := goMin, sqrt := Float.sqrt, isInf := Float.isInf }

def decodeF (x : Float) : Nat × Int :=
  let b := x.toBits.toNat % 2 ^ 63
  let ex : Nat := b / 2 ^ 52
  let fr : Nat := b % 2 ^ 52
  if ex == 0 then (fr, -1074) else (fr + 2 ^ 52, Int.ofNat ex - 1075)

/-- math.Mod, exact (the remainder of two doubles is a double; sign of x) -/
def fmodF (x y : Float) : Float :=
  if y == 0 || x.isInf || x.isNaN || y.isNaN then (0.0 / 0.0)
  else if y.isInf then x
  else
    let (mx, ex) := decodeF x
    let (my, ey) := decodeF y
    let e := min ex ey
    let X := mx * 2 ^ (ex - e).toNat
    let Y := my * 2 ^ (ey - e).toNat
    let r := (Float.ofNat (X % Y)).scaleB e
    if x.toBits >>> 63 == 1 then -r else r

def psub (p q : Pt Float) : Pt Float := ⟨p.x - q.x, p.y - q.y⟩

/-- path.go:400-425 -/
def lineExtendsF (prev start e : Pt Float) : Bool :=
  let da := psub start prev
  let db := psub e start
  let div := GenF.Point.PerpDot da db
  let length := goHypot da.x da.y * goHypot db.x db.y
  if GenF.Equal (div / length) 0.0 then
    -- the dominant axis by magnitude (219108c)
    if da.y.abs < da.x.abs then signbit da.x == signbit db.x else signbit da.y == signbit db.y
  else false

/-- path.go:562-575 -/
def closeExtendsF (prev start e : Pt Float) : Bool :=
  let a := psub e start
  let b := psub start prev
  GenF.Equal (Float.atan2 (GenF.Point.PerpDot a b) (GenF.Point.Dot a b)) 0.0

/-- path.go:489-508 with rot = 0, path_util.go ellipseRadiiCorrection -/
def arcFixF (start : Pt Float) (rx ry : Float) (e : Pt Float) : Float × Float × Float :=
  let rx := rx.abs
  let ry := ry.abs
  let (rx, ry, rot) := if GenF.Equal rx ry then (rx, ry, 0.0) else if rx < ry then (ry, rx, 90.0) else (rx, ry, 0.0)
  let phi := rot * goPi / 180.0
  let diff := psub start e
  let sinphi := Float.sin phi
  let cosphi := Float.cos phi
  let x1p := (cosphi * diff.x + sinphi * diff.y) / 2.0
  let y1p := (-sinphi * diff.x + cosphi * diff.y) / 2.0
  let lambda := Float.sqrt (x1p * x1p / rx / rx + y1p * y1p / ry / ry)
  if lambda > 1.0 then (rx * lambda, ry * lambda, phi) else (rx, ry, phi)

/-- the arc case of Path.Transform (path.go:1303-1346) with util.go Matrix.Rotate/Inv/T/Eigen/Decompose.
Only the branch of Eigen for a diagonal matrix is replicated (axis-parallel scaling of unrotated arcs, the
only use the importer makes of it); anything else yields NaN radii, i.e. a correspondence mismatch. -/
def transformArcF (m : Mat Float) (rx ry phi : Float) (sweep : Bool) : Float × Float × Float × Bool :=
  let rot := phi * 180.0 / goPi * goPi / 180.0
  let T := GenF.Matrix.Mul m ⟨Float.cos rot, -Float.sin rot, 0.0, Float.sin rot, Float.cos rot, 0.0⟩
  let invT := GenF.Matrix.Inv T
  let Q := GenF.Matrix.Scale ⟨1.0, 0.0, 0.0, 0.0, 1.0, 0.0⟩ (1.0 / rx / rx) (1.0 / ry / ry)
  let Q := GenF.Matrix.Mul (GenF.Matrix.Mul (GenF.Matrix.T invT) Q) invT
  let nan : Float := 0.0 / 0.0
  if GenF.Equal Q.d 0.0 && GenF.Equal Q.b 0.0 then
    let rx' := 1.0 / Float.sqrt Q.a
    let ry' := 1.0 / Float.sqrt Q.e
    -- v1 = (1,0): Angle = 0; v2 = (0,1): Angle = atan2(1,0) = pi/2
    let (rx', ry', phi') := if rx' < ry' then (ry', rx', goPi / 2.0) else (rx', ry', 0.0)
    let (_, _, _, xs, ys, _) := GenF.Matrix.Decompose m
    (rx', ry', phi', if xs * ys < 0.0 then !sweep else sweep)
  else (nan, nan, nan, sweep)

def opsF : Ops Float :=
  { arithF with
    ident := ⟨1.0, 0.0, 0.0, 0.0, 1.0, 0.0⟩,
    mmul := GenF.Matrix.Mul, translate := GenF.Matrix.Translate, scale := GenF.Matrix.Scale,
    reflectYAbout := GenF.Matrix.ReflectYAbout,
    sincos := fun x => (Float.sin x, Float.cos x),
    tan := Float.tan, dot := GenF.Matrix.Dot, transformArc := transformArcF,
    lineExtends := lineExtendsF, closeExtends := closeExtendsF, arcFix := arcFixF,
    checkDash := fun sw off d len =>
      -- canvas.go DrawPath: checkDash on the pattern scaled by the stroke width; a remaining pattern is
      -- replaced by the canonical unscaled one
      let (d', ok) := checkDashImpl arithF fmodF (off * sw) (d.map (· * sw)) len
      if d'.isEmpty then (d', ok) else ((dashCanonical arithF off d).2, ok) }

/-! ## line parser -/

abbrev Toks := List String
abbrev Pr (β : Type) := Toks → Option (β × Toks)

def fl : Pr Float
  | t :: ts => (floatOfHex? t).map (·, ts)
  | [] => none

def nat : Pr Nat
  | t :: ts => t.toNat?.map (·, ts)
  | [] => none

def str : Pr String
  | t :: ts => some (if t == "_" then "" else t, ts)
  | [] => none

def pbool : Pr Bool
  | "1" :: ts => some (true, ts)
  | "0" :: ts => some (false, ts)
  | _ => none

def many {β : Type} (p : Pr β) : Nat → Pr (List β)
  | 0, ts => some ([], ts)
  | n + 1, ts => do
    let (x, ts) ← p ts
    let (xs, ts) ← many p n ts
    pure (x :: xs, ts)

def counted {β : Type} (p : Pr β) : Pr (List β) := fun ts => do
  let (n, ts) ← nat ts
  many p n ts

def pt : Pr (Pt Float) := fun ts => do
  let (x, ts) ← fl ts
  let (y, ts) ← fl ts
  pure (⟨x, y⟩, ts)

def pcmd : Pr (PCmd Float)
  | "M" :: ts => do let (p, ts) ← pt ts; pure (.move p, ts)
  | "L" :: ts => do let (p, ts) ← pt ts; pure (.line p, ts)
  | "Q" :: ts => do let (c, ts) ← pt ts; let (p, ts) ← pt ts; pure (.quad c p, ts)
  | "C" :: ts => do let (c1, ts) ← pt ts; let (c2, ts) ← pt ts; let (p, ts) ← pt ts; pure (.cube c1 c2 p, ts)
  | "A" :: ts => do
    let (rx, ts) ← fl ts; let (ry, ts) ← fl ts; let (phi, ts) ← fl ts
    let (l, ts) ← pbool ts; let (s, ts) ← pbool ts; let (p, ts) ← pt ts
    pure (.arc rx ry phi l s p, ts)
  | "z" :: ts => do let (p, ts) ← pt ts; pure (.close p, ts)
  | _ => none

def xfn : Pr (String × List Float) := fun ts => do
  let (n, ts) ← str ts
  let (a, ts) ← counted fl ts
  pure ((n, a), ts)

def val : Pr (Val Float)
  | "D" :: ts => do let (n, ts) ← fl ts; let (u, ts) ← str ts; pure (.dim n u, ts)
  | "K" :: ts => do let (s, ts) ← str ts; pure (.kw s, ts)
  | "C" :: ts => do
    let (r, ts) ← nat ts; let (g, ts) ← nat ts; let (b, ts) ← nat ts; let (a, ts) ← nat ts
    pure (.color ⟨r, g, b, a⟩, ts)
  | "N" :: ts => do let (l, ts) ← counted fl ts; pure (.nums l, ts)
  | "X" :: ts => do let (l, ts) ← counted xfn ts; pure (.xform l, ts)
  | "P" :: ts => do let (l, ts) ← counted pcmd ts; pure (.path l, ts)
  | "T" :: ts => do let (s, ts) ← str ts; pure (.str s, ts)
  | "W" :: ts => do let (l, ts) ← counted str ts; pure (.words l, ts)
  | _ => none

def prop : Pr (String × Val Float) := fun ts => do
  let (k, ts) ← str ts
  let (v, ts) ← val ts
  pure ((k, v), ts)

def attr : Pr (Attr Float)
  | "A" :: ts => do let ((k, v), ts) ← prop ts; pure (.plain k v, ts)
  | "Y" :: ts => do let (l, ts) ← counted prop ts; pure (.style l, ts)
  | _ => none

def attrSel : Pr AttrSel := fun ts => do
  let (op, ts) ← nat ts; let (a, ts) ← str ts; let (v, ts) ← str ts
  pure (⟨op, a, v⟩, ts)

def selNode : Pr SelNode := fun ts => do
  let (c, ts) ← pbool ts; let (t, ts) ← str ts; let (a, ts) ← counted attrSel ts
  pure (⟨c, t, a⟩, ts)

def rule : Pr (Rule Float) := fun ts => do
  let (sels, ts) ← counted (counted selNode) ts
  let (props, ts) ← counted prop ts
  pure (⟨sels, props⟩, ts)

mutual
partial def tree : Pr (Tree Float)
  | "E" :: ts => do
    let (tag, ts) ← str ts
    let (attrs, ts) ← counted attr ts
    let (n, ts) ← nat ts
    let (ch, ts) ← trees n ts
    pure (.elem tag attrs ch, ts)
  | "S" :: ts => do let (rs, ts) ← counted rule ts; pure (.css rs, ts)
  | _ => none
partial def trees : Nat → Pr (List (Tree Float))
  | 0, ts => some ([], ts)
  | n + 1, ts => do
    let (t, ts) ← tree ts
    let (rest, ts) ← trees n ts
    pure (t :: rest, ts)
end

def optDim : Pr (Option (Float × String))
  | "-" :: ts => some (none, ts)
  | "D" :: ts => do let (n, ts) ← fl ts; let (u, ts) ← str ts; pure (some (n, u), ts)
  | _ => none

def optVB : Pr (Option (Float × Float × Float × Float))
  | "-" :: ts => some (none, ts)
  | "V" :: ts => do
    let (a, ts) ← fl ts; let (b, ts) ← fl ts; let (c, ts) ← fl ts; let (d, ts) ← fl ts
    pure (some (a, b, c, d), ts)
  | _ => none

/-! ## output -/

def h (x : Float) : String := hexOfFloat x
def b01 (b : Bool) : String := if b then "1" else "0"

def showCmd : PCmd Float → String
  | .move p => s!"M {h p.x} {h p.y}"
  | .line p => s!"L {h p.x} {h p.y}"
  | .quad c p => s!"Q {h c.x} {h c.y} {h p.x} {h p.y}"
  | .cube c1 c2 p => s!"C {h c1.x} {h c1.y} {h c2.x} {h c2.y} {h p.x} {h p.y}"
  | .arc rx ry phi l s p => s!"A {h rx} {h ry} {h phi} {b01 l} {b01 s} {h p.x} {h p.y}"
  | .close p => s!"z {h p.x} {h p.y}"

def showRGBA (c : RGBA) : String := s!"{c.r} {c.g} {c.b} {c.a}"

def showCap : Cap → String
  | .butt => "butt" | .round => "round" | .square => "square"

def showJoin : Join Float → String
  | .bevel => "bevel" | .round => "round" | .arcs => "arcs"
  | .miter l => s!"miter {h l}" | .miterClip l => s!"miterclip {h l}"

def showLayer (l : Layer Float) : String :=
  let cmds := String.intercalate " " (l.path.map showCmd)
  let ds := String.intercalate " " (l.dashes.map h)
  s!"P {l.path.length} {cmds} F {showRGBA l.fill} {if l.evenOdd then "evenodd" else "nonzero"} S {showRGBA l.stroke} {h l.sw} {showCap l.cap} {showJoin l.join} O {h l.dashOff} D {l.dashes.length} {ds} M {h l.m.a} {h l.m.b} {h l.m.c} {h l.m.d} {h l.m.e} {h l.m.f}"

def showDoc (p : P Float) : String :=
  if (p.cw == 0.0 || p.ch == 0.0) && !p.err then "FIT 0" else
  let ls := String.intercalate " " (p.layers.reverse.map showLayer)
  s!"{h p.cw} {h p.ch} {b01 p.err} {p.layers.length} {ls}"

def pelem : Pr Elem := fun ts => do
  let (tag, ts) ← str ts
  let (keys, ts) ← counted str ts
  let kv : Pr (String × String) := fun ts => do
    let (k, ts) ← str ts; let (v, ts) ← str ts; pure ((k, v), ts)
  let (vals, ts) ← counted kv ts
  let kw : Pr (String × List String) := fun ts => do
    let (k, ts) ← str ts; let (w, ts) ← counted str ts; pure ((k, w), ts)
  let (words, ts) ← counted kw ts
  pure (⟨tag, keys, vals, words⟩, ts)

def handle : List String → Option String
  -- the pieces of the semantic layer on their own (inputs from the real functions through hooks)
  | "XF" :: ts => do
    let (l, ts) ← counted xfn ts
    if ts != [] then none else
    let (m, e) := parseTransform opsF l
    pure s!"{h m.a} {h m.b} {h m.c} {h m.d} {h m.e} {h m.f} {b01 e}"
  | "DIM" :: ts => do
    let (n, ts) ← fl ts; let (u, ts) ← str ts; let (par, ts) ← fl ts
    if ts != [] then none else
    let (v, e) := parseDimension opsF n u par
    pure s!"{h v} {b01 e}"
  | "SPEC" :: ts => do
    let (sels, ts) ← counted (counted selNode) ts
    let (elems, ts) ← counted pelem ts
    if ts != [] then none else
    pure (match ruleSpec (⟨sels, []⟩ : Rule Float) elems.reverse with
      | none => "-1"
      | some n => toString n)
  | "SEL" :: ts => do
    let (sel, ts) ← counted selNode ts
    let (elems, ts) ← counted pelem ts
    if ts != [] then none else
    pure (b01 (ruleApplies (⟨[sel], []⟩ : Rule Float) elems.reverse))
  | "DOC" :: ts => do
    let (lens, ts) ← counted fl ts
    let (w, ts) ← optDim ts
    let (hh, ts) ← optDim ts
    let (vb, ts) ← optVB ts
    let (par, ts) ← str ts
    let (attrs, ts) ← counted attr ts
    let (n, ts) ← nat ts
    let (ch, ts) ← trees n ts
    if ts != [] then none else
    pure (showDoc (parseSVG opsF ⟨w, hh, vb, par⟩ attrs ch lens))
  | _ => none

def main : IO Unit := runDriver handle
