import CanvasModel.Driver
import CanvasModel.C01
import CanvasModel.C02
import CanvasModel.C02.Verdict
import CanvasModel.C02.Trace
import CanvasModel.C02.Endpoints
import CanvasGen.SweepF
open Canvas
def handle : List String → Option String
  | "L1" :: name :: args => GenF.dispatchSweep name args
  | "SCOL" :: rest => Canvas.C02.handleSCol rest
  | "SMRG" :: rest => Canvas.C02.handleSMrg rest
  | "SETTLE" :: rest => Canvas.C02.handleSettle rest
  | "STRACE" :: rest => Canvas.C02.handleTrace rest
  | "EPTS" :: rest => Canvas.C02.handleEpts rest
  | ts => Canvas.C01.handle ts
def main : IO Unit := runDriver handle
