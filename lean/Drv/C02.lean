import CanvasModel.Driver
import CanvasModel.C01
import CanvasGen.SweepF
open Canvas
def handle : List String → Option String
  | "L1" :: name :: args => GenF.dispatchSweep name args
  | ts => Canvas.C01.handle ts
def main : IO Unit := runDriver handle
