import CanvasModel.Driver
import CanvasModel.C03
import CanvasGen.CoreF
import CanvasGen.BezierF
/-! Model driver for C03: the polymorphic L2 loops of `CanvasModel/C03.lean` instantiated at `Float`
with the step rules of /repo/path_util.go and the generated (L1) split functions. -/
open Canvas Canvas.C03

namespace C03F

/-- math.Hypot on amd64 (hypot_amd64.s): p·sqrt(1+(q/p)²) with p = max(|x|,|y|); bit-identical for
finite arguments (checked against math.Hypot on 2·10⁶ random pairs). -/
def hypotGo (x y : Float) : Float :=
  let p := x.abs
  let q := y.abs
  let (p, q) := if p < q then (q, p) else (p, q)
  if p == 0 then 0 else
    let q := q / p
    p * Float.sqrt (1 + q * q)

def signbit (x : Float) : Bool := x.toBits >>> 63 == 1

def ptEquals (p q : Pt Float) : Bool := GenF.Equal p.x q.x && GenF.Equal p.y q.y

def len (p : Pt Float) : Float := hypotGo p.x p.y

/-- `Path.LineTo` (path.go:395) on a path that consists of a MoveTo followed by LineTos, kept as the
reversed list of its points. -/
def lineTo (rev : List (Pt Float)) (e : Pt Float) : List (Pt Float) :=
  match rev with
  | [] => [e]
  | s :: rest =>
    if ptEquals s e then rev else
    match rest with
    | [] => e :: rev
    | prev :: _ =>
      let da := GenF.Point.Sub s prev
      let db := GenF.Point.Sub e s
      let div := GenF.Point.PerpDot da db
      let length := len da * len db
      if GenF.Equal (div / length) 0.0 then
        let ext := if da.y.abs < da.x.abs then signbit da.x == signbit db.x else signbit da.y == signbit db.y
        if ext then e :: rest else e :: rev
      else e :: rev

def fuel : Nat := 2000000

/-! flattenQuadraticBezier -/

def quadStep (tol : Float) (p0 p1 p2 : Pt Float) : Option Float :=
  if ptEquals p0 p1 then none else
    let D := GenF.Point.Sub p1 p0
    let denom := hypotGo D.x D.y
    let s2nom := GenF.Point.PerpDot D (GenF.Point.Sub p2 p0)
    let t := 2.0 * Float.sqrt (tol * Float.abs (denom / s2nom))
    -- do not step past the point where the curve has turned by 90 degrees from the start tangent
    let turn := GenF.Point.Dot D (GenF.Point.Sub p2 p1)
    let t := if turn < 0.0 then goMin t (GenF.Point.Dot D D / (GenF.Point.Dot D D - turn)) else t
    if t >= 1.0 then none else some t

def quadSplitR (p0 p1 p2 : Pt Float) (t : Float) : Pt Float × Pt Float × Pt Float :=
  let r := GenF.quadraticBezierSplit p0 p1 p2 t
  (r.2.2.2.1, r.2.2.2.2.1, r.2.2.2.2.2)

/-- raw vertices, then the path `M p0 L v1 … L p2` as built through `LineTo` -/
def flattenQuad (p0 p1 p2 : Pt Float) (tol : Float) : Option (List (Pt Float)) :=
  (flattenQuadLoop (quadStep tol) quadSplitR fuel p0 p1 p2).map fun vs =>
    (vs.foldl lineTo [p0]).reverse

/-! flattenSmoothCubicBezier / strokeCubicBezier with d = 0 -/

def cubKeep (c : Cub Float) : Bool :=
  !(ptEquals c.p0 c.p3 && (ptEquals c.p0 c.p1 || ptEquals c.p0 c.p2))

def cubSplit (c : Cub Float) (t : Float) : Cub Float × Cub Float :=
  let r := GenF.cubicBezierSplit c.p0 c.p1 c.p2 c.p3 t
  (⟨r.1, r.2.1, r.2.2.1, r.2.2.2.1⟩, ⟨r.2.2.2.2.1, r.2.2.2.2.2.1, r.2.2.2.2.2.2.1, r.2.2.2.2.2.2.2⟩)

def cubSplitR (c : Cub Float) (t : Float) : Cub Float := (cubSplit c t).2
def cubSplitL (c : Cub Float) (t : Float) : Cub Float := (cubSplit c t).1

/-- Point.Norm(1.0) (util.go:336) -/
def norm1 (p : Pt Float) : Pt Float :=
  let d := len p
  if d == 0.0 then ⟨0.0, 0.0⟩ else ⟨p.x / d * 1.0, p.y / d * 1.0⟩

/-- cubicBezierDeviation (path_util.go:702, f410714 + 07f2911): 3/4 of the larger distance of the inner
control points from the chord SEGMENT, plus |d|·(1 − cos α) for an offset curve -/
def cubicDeviation (c : Cub Float) (d : Float) : Float :=
  let chord := GenF.Point.Sub c.p3 c.p0
  let dist (q : Pt Float) : Float :=
    let q := GenF.Point.Sub q c.p0
    let u := GenF.Point.Dot q chord
    if u <= 0.0 then len q
    else if GenF.Point.Dot chord chord <= u then len (GenF.Point.Sub q chord)
    else Float.abs (GenF.Point.PerpDot chord q) / len chord
  let dev := 0.75 * goMax (dist c.p1) (dist c.p2)
  if d != 0.0 then
    let n := norm1 chord
    let eps := 1e-14 * (Float.abs c.p0.x + Float.abs c.p0.y + Float.abs c.p3.x + Float.abs c.p3.y)
    let legs := [GenF.Point.Sub c.p1 c.p0, GenF.Point.Sub c.p2 c.p1, GenF.Point.Sub c.p3 c.p2]
    let cos := legs.foldl (fun cos leg =>
      let l := len leg
      if eps < l then goMin cos (GenF.Point.Dot leg n / l) else cos) 1.0
    dev + Float.abs d * (1.0 - cos)
  else dev

/-- the step-halving loop of flattenSmoothCubicBezier (at most 20 halvings) -/
def halve (tol : Float) (c : Cub Float) : Nat → Float → Float
  | 0, t => t
  | n + 1, t => if 4.0 * tol < cubicDeviation (cubSplitL c t) 0.0 then halve tol c n (t / 2.0) else t

def cubStep (tol : Float) (c : Cub Float) : CStep Float :=
  let body (D : Pt Float) : CStep Float :=
    let denom := len D
    let s2nom := GenF.Point.PerpDot D (GenF.Point.Sub c.p2 c.p0)
    let s2inv := denom / s2nom
    let t2 := 2.0 * Float.sqrt (tol * Float.abs s2inv / 3.0)
    let s3nom := GenF.Point.PerpDot D (GenF.Point.Sub c.p3 c.p0)
    let s3inv := denom / s3nom
    let t3 := 2.0 * Float.cbrt (tol * Float.abs s3inv)
    let t := goMin (goMin t2 t3) 1.0
    -- f410714: shorten the step until the piece is flat with respect to its chord
    let t := halve tol c 20 t
    if 1.0 <= t then .stop else .cut t
  if ptEquals c.p0 c.p1 then
    if ptEquals c.p0 c.p2 then .straight else body (GenF.Point.Sub c.p2 c.p0)
  else body (GenF.Point.Sub c.p1 c.p0)

/-- flattenSmoothCubicBezier appended to the reversed polyline `rev` -/
def smooth (rev : List (Pt Float)) (c : Cub Float) (tol : Float) : Option (List (Pt Float)) :=
  (flattenCubicLoop (cubStep tol) cubKeep cubSplitR fuel c).map fun vs => vs.foldl lineTo rev

def nan : Float := 0.0 / 0.0

/-- solveQuadraticFormula (util.go:921) -/
def solveQuadraticFormula (a b c : Float) : Float × Float :=
  if GenF.Equal a 0.0 then
    if GenF.Equal b 0.0 then
      if GenF.Equal c 0.0 then (0.0, nan) else (nan, nan)
    else (-c / b, nan)
  else if GenF.Equal c 0.0 then
    if GenF.Equal b 0.0 then (0.0, nan) else (0.0, -b / a)
  else
    let disc := b * b - 4.0 * a * c
    if disc < 0.0 then (nan, nan)
    else if GenF.Equal disc 0.0 then (-b / (2.0 * a), nan)
    else
      let q := Float.sqrt disc
      let q := if b < 0.0 then -q else q
      let x1 := -(b + q) / (2.0 * a)
      let x2 := c / (a * x1)
      if x2 < x1 then (x2, x1) else (x1, x2)

/-- findInflectionPointsCubicBezier (path_util.go:817) -/
def findInflectionPoints (c : Cub Float) : Float × Float :=
  let ax := -c.p0.x + 3.0 * c.p1.x - 3.0 * c.p2.x + c.p3.x
  let ay := -c.p0.y + 3.0 * c.p1.y - 3.0 * c.p2.y + c.p3.y
  let bx := c.p0.x - 2.0 * c.p1.x + c.p2.x
  let by' := c.p0.y - 2.0 * c.p1.y + c.p2.y
  let cx := -c.p0.x + c.p1.x
  let cy := -c.p0.y + c.p1.y
  let a := ay * bx - ax * by'
  let b := ay * cx - ax * cy
  let cc := by' * cx - bx * cy
  -- 33b2fe8: the coefficients are normalised before the absolute zero tests of the solver
  let m := goMax (Float.abs a) (goMax (Float.abs b) (Float.abs cc))
  let (a, b, cc) := if 0.0 < m then (a / m, b / m, cc / m) else (a, b, cc)
  let (x1, x2) := solveQuadraticFormula a b cc
  let eps2 := GenF.Epsilon / 2.0
  let x1 := if x1 < eps2 || 1.0 - eps2 < x1 then nan else x1
  if x2 < eps2 || 1.0 - eps2 < x2 then (x1, nan)
  else if x1.isNaN then (x2, x1) else (x1, x2)

def inf : Float := 1.0 / 0.0

/-- findInflectionPointRangeCubicBezier (path_util.go:842); the panic for t outside [0,1] cannot
be reached from `findInflectionPoints` and is reported as `none`. -/
def inflectionRange (c : Cub Float) (t tol : Float) : Option (Float × Float) :=
  if t.isNaN then some (inf, inf)
  else if t < 0.0 || t > 1.0 then none
  else
    let c := if !GenF.Equal t 0.0 then cubSplitR c t else c
    let nr := GenF.Point.Sub c.p1 c.p0
    let ns := GenF.Point.Sub c.p3 c.p0
    let nr := if GenF.Equal nr.x 0.0 && GenF.Equal nr.y 0.0 then GenF.Point.Sub c.p2 c.p0 else nr
    if GenF.Equal nr.x 0.0 && GenF.Equal nr.y 0.0 then some (t, 1.0)
    else
      let s3 := Float.abs (ns.x * nr.y - ns.y * nr.x) / hypotGo nr.x nr.y
      if GenF.Equal s3 0.0 then some (t, 1.0)
      else
        let tf := Float.cbrt (tol / s3)
        some (t - tf * (1.0 - t), t + tf * (1.0 - t))

def shrinkRange (c : Cub Float) (tol t : Float) : Nat → Float → Float → Float × Float
  | 0, tmin, tmax => (tmin, tmax)
  | n + 1, tmin, tmax =>
    if t.isNaN then (tmin, tmax) else
    let a := goMax tmin 0.0
    let b := goMin tmax 1.0
    let q := cubSplitL (cubSplitR c a) ((b - a) / (1.0 - a))
    if cubicDeviation q 0.0 <= 4.0 * tol then (tmin, tmax)
    else shrinkRange c tol t n ((a + t) / 2.0) ((b + t) / 2.0)

/-- addCubicBezierLine with d = 0 -/
def addLine (rev : List (Pt Float)) (c : Cub Float) (atEnd : Bool) : List (Pt Float) :=
  if !cubKeep c then rev else lineTo rev (if atEnd then c.p3 else c.p0)

/-- strokeCubicBezier(p0,p1,p2,p3, 0, tolerance) = flattenCubicBezier (path_util.go:886) -/
def flattenCubic (c : Cub Float) (tol : Float) : Option (List (Pt Float)) := do
  let tol := goMax tol GenF.Epsilon
  let rev : List (Pt Float) := [c.p0]
  let (t1, t2) := findInflectionPoints c
  if t1.isNaN && t2.isNaN then
    return (← smooth rev c tol).reverse
  let (t1min, t1max) ← inflectionRange c t1 tol
  let (t2min, t2max) ← inflectionRange c t2 tol
  -- f410714: shrink a flat range around its inflection point until it is flat with respect to its chord
  let (t1min, t1max) := shrinkRange c tol t1 20 t1min t1max
  let (t2min, t2max) := shrinkRange c tol t2 20 t2min t2max
  if t2.isNaN && t1min <= 0.0 && 1.0 <= t1max then
    return (addLine rev c true).reverse
  let rev ← if 0.0 < t1min then smooth rev (cubSplitL c t1min) tol else pure rev
  -- first inflection range
  let step2 : Option (List (Pt Float) × Bool) :=
    if 0.0 < t1max && t1max < 1.0 && t1max < t2min then
      let q := cubSplitR c t1max
      let rev := addLine rev q false
      if 1.0 <= t2min then (smooth rev q tol).map (fun r => (r, true)) else some (rev, false)
    else if 1.0 <= t2min then some (addLine rev c true, true)
    else some (rev, false)
  let (rev, done) ← step2
  if done then return rev.reverse
  let rev ← if 0.0 < t2min then
      if t2min < t1max then
        if 1.0 <= t1max then
          -- t1 range extends beyond the end of the curve: approximate the rest linearly
          return (addLine rev c true).reverse
        pure (addLine rev (cubSplitR c t1max) false)
      else
        let q := cubSplitR c t1max
        let t2minq := (t2min - t1max) / (1.0 - t1max)
        smooth rev (cubSplitL q t2minq) tol
    else pure rev
  -- t2 range ends inside t1 range: continue after the t1 range
  let t2max := if t2max < t1max then t1max else t2max
  if t2max < 1.0 then
    let q := cubSplitR c t2max
    let rev := addLine rev q false
    return (← smooth rev q tol).reverse
  else
    return (addLine rev c true).reverse

/-! the circular branch of flattenEllipticArc (path_util.go:345), with ellipseToCenter (path_util.go:65) -/

def pi : Float := goPi

def angleNorm (theta : Float) : Float :=
  -- math.Mod(theta, 2π) for |theta| < 2π is the identity; outside that range use truncated division
  let tp := 2.0 * pi
  let m := if theta.abs < tp then theta else theta - tp * (if theta / tp < 0 then Float.ceil (theta / tp) else Float.floor (theta / tp))
  if m < 0.0 then m + tp else m

def ellipseToCenter (x1 y1 rx ry phi : Float) (large sweep : Bool) (x2 y2 : Float) : Float × Float × Float × Float :=
  if GenF.Equal x1 x2 && GenF.Equal y1 y2 then (x1, y1, 0.0, 0.0)
  else if GenF.Equal (Float.abs (x2 - x1)) rx && GenF.Equal y1 y2 && GenF.Equal phi 0.0 then
    let cx := x1 + (x2 - x1) / 2.0
    let theta := if x1 < x2 then pi else 0.0
    let delta := if !sweep then -pi else pi
    (cx, y1, theta, theta + delta)
  else
    let sinphi := Float.sin phi
    let cosphi := Float.cos phi
    let x1p := cosphi * (x1 - x2) / 2.0 + sinphi * (y1 - y2) / 2.0
    let y1p := -sinphi * (x1 - x2) / 2.0 + cosphi * (y1 - y2) / 2.0
    let radiiCheck := x1p * x1p / rx / rx + y1p * y1p / ry / ry
    let (rx, ry) := if 1.0 < radiiCheck then
        let s := Float.sqrt radiiCheck
        (rx * s, ry * s) else (rx, ry)
    let sq := (rx * rx * ry * ry - rx * rx * y1p * y1p - ry * ry * x1p * x1p) / (rx * rx * y1p * y1p + ry * ry * x1p * x1p)
    let sq := if sq <= GenF.Epsilon then 0.0 else sq
    let coef := Float.sqrt sq
    let coef := if large == sweep then -coef else coef
    let cxp := coef * rx * y1p / ry
    let cyp := coef * -ry * x1p / rx
    let cx := cosphi * cxp - sinphi * cyp + (x1 + x2) / 2.0
    let cy := sinphi * cxp + cosphi * cyp + (y1 + y2) / 2.0
    let ux := (x1p - cxp) / rx
    let uy := (y1p - cyp) / ry
    let vx := -(x1p + cxp) / rx
    let vy := -(y1p + cyp) / ry
    let theta := Float.acos (ux / Float.sqrt (ux * ux + uy * uy))
    let theta := if uy < 0.0 then -theta else theta
    let theta := angleNorm theta
    let deltaAcos := (ux * vx + uy * vy) / Float.sqrt ((ux * ux + uy * uy) * (vx * vx + vy * vy))
    let deltaAcos := goMin 1.0 (goMax (-1.0) deltaAcos)
    let delta := Float.acos deltaAcos
    let delta := if ux * vy - uy * vx < 0.0 then -delta else delta
    let delta := if !sweep && 0.0 < delta then delta - 2.0 * pi
      else if sweep && delta < 0.0 then delta + 2.0 * pi else delta
    (cx, cy, theta, theta + delta)

def copysign (x s : Float) : Float := if signbit s then -(x.abs) else x.abs

/-- EllipsePos (path_util.go:8) -/
def ellipsePosArc (rx ry phi cx cy theta : Float) : Pt Float :=
  let st := Float.sin theta
  let ct := Float.cos theta
  let sp := Float.sin phi
  let cp := Float.cos phi
  ⟨cx + rx * ct * cp - ry * st * sp, cy + rx * ct * sp + ry * st * cp⟩

/-- the loop of the circular branch: `some (n, points)`; `none` when rx ≠ ry (cubic route) -/
def flattenCircle (start : Pt Float) (rx ry phi : Float) (large sweep : Bool) (e : Pt Float) (tol : Float) :
    Option (List (Pt Float)) :=
  -- f749928: every arc is flattened as the image of the circle with its major radius
    let circle := GenF.Equal rx ry
    let r := goMax rx ry
    let (cx, cy, theta0, theta1) := ellipseToCenter start.x start.y rx ry phi large sweep e.x e.y
    let theta0 := if circle then theta0 + phi else theta0
    let theta1 := if circle then theta1 + phi else theta1
    let dtheta := Float.abs (theta1 - theta0)
    let thetaEnd := Float.acos ((r - tol) / r)
    let thetaMid := Float.acos ((r - tol) / (r + tol))
    let n := Float.ceil ((dtheta - thetaEnd * 2.0) / (thetaMid * 2.0))
    let ratio := dtheta / (thetaEnd * 2.0 + thetaMid * 2.0 * n)
    let thetaEnd := thetaEnd * ratio
    let thetaMid := thetaMid * ratio
    let scale := (r + ratio * tol) / r
    let r := r + ratio * tol
    -- int(n): NaN / negative give no iterations
    let cnt : Nat := if n.isNaN || n < 1.0 then 0 else n.toUInt64.toNat
    if cnt > 1000000 then none else
    let rec go (k : Nat) (theta : Float) (rev : List (Pt Float)) : List (Pt Float) :=
      match k with
      | 0 => rev
      | k + 1 =>
        let t := theta0 + copysign theta (theta1 - theta0)
        let pos : Pt Float := if circle then ⟨r * Float.cos t + cx, r * Float.sin t + cy⟩
          else ellipsePosArc (rx * scale) (ry * scale) phi cx cy t
        go k (theta + 2.0 * thetaMid) (lineTo rev pos)
    some ((lineTo (go cnt (thetaEnd + thetaMid) [start]) e).reverse)

/-! protocol helpers -/

def floats (toks : List String) : Option (List Float) := toks.mapM floatOfHex?

def showPts (ps : List (Pt Float)) : String :=
  String.intercalate " " (ps.map fun p => hexOfFloat p.x ++ " " ++ hexOfFloat p.y)

/-- the answer lists the points of the path after the MoveTo -/
def answer (r : Option (List (Pt Float))) : String :=
  match r with
  | none => "FUEL"
  | some ps => toString (ps.length - 1) ++ " " ++ showPts (ps.drop 1)

/-- tolerant lines: coordinates divided by the power-of-two scale sent with the case (exact division) -/
def answerScaled (r : Option (List (Pt Float))) (sc : Float) : String :=
  answer (r.map fun ps => ps.map fun p => ⟨p.x / sc, p.y / sc⟩)

/-- SIG line: tokens `M x y`, `L x y`, `Z x y`, `K x y` (K = any curve, payload irrelevant) -/
def parseCmds : List String → Option (List (Cmd Float Unit))
  | [] => some []
  | k :: x :: y :: rest => do
    let p : Pt Float := ⟨← floatOfHex? x, ← floatOfHex? y⟩
    let tl ← parseCmds rest
    if k == "M" then pure (Cmd.M p :: tl)
    else if k == "L" then pure (Cmd.L p :: tl)
    else if k == "Z" then pure (Cmd.Z p :: tl)
    else if k == "K" then pure (Cmd.Curve () p :: tl)
    else none
  | _ => none

def showSig (s : List (SubSig Float)) : String :=
  toString s.length ++ " " ++ String.intercalate " " (s.map fun g =>
    hexOfFloat g.start.x ++ " " ++ hexOfFloat g.start.y ++ " " ++ hexOfFloat g.last.x ++ " " ++ hexOfFloat g.last.y ++ " " ++ (if g.closed then "1" else "0"))

/-! ellipseToCubicBeziers / arcToCube (path_util.go:287): control points handed to CubeTo -/

def ellipsePos (rx ry phi cx cy theta : Float) : Pt Float :=
  let st := Float.sin theta
  let ct := Float.cos theta
  let sp := Float.sin phi
  let cp := Float.cos phi
  ⟨cx + rx * ct * cp - ry * st * sp, cy + rx * ct * sp + ry * st * cp⟩

def ellipseDeriv (rx ry phi : Float) (sweep : Bool) (theta : Float) : Pt Float :=
  let st := Float.sin theta
  let ct := Float.cos theta
  let sp := Float.sin phi
  let cp := Float.cos phi
  let dx := -rx * st * cp - ry * ct * sp
  let dy := -rx * st * sp + ry * ct * cp
  if !sweep then ⟨-dx, -dy⟩ else ⟨dx, dy⟩

def arcToCube (start : Pt Float) (rx ry phi : Float) (large sweep : Bool) (e : Pt Float) : Option (List (Pt Float)) :=
  let (cx, cy, theta0, theta1) := ellipseToCenter start.x start.y rx ry phi large sweep e.x e.y
  let nF := Float.ceil (Float.abs (theta1 - theta0) / (pi / 2.0))
  if nF.isNaN || nF < 1.0 || nF > 64.0 then (if nF < 1.0 then some [] else none) else
  let n := nF.toUInt64.toNat
  let dtheta := Float.abs (theta1 - theta0) / nF
  let tn := Float.tan (dtheta / 2.0)
  let kappa := Float.sin dtheta * (Float.sqrt (4.0 + 3.0 * (tn * tn)) - 1.0) / 3.0
  let dtheta := if !sweep then -dtheta else dtheta
  let rec go (i : Nat) (k : Nat) (st : Pt Float) (sd : Pt Float) (acc : List (Pt Float)) : List (Pt Float) :=
    match k with
    | 0 => acc.reverse
    | k + 1 =>
      let theta := theta0 + i.toFloat * dtheta
      let en := ellipsePos rx ry phi cx cy theta
      let ed := ellipseDeriv rx ry phi sweep theta
      let cp1 := GenF.Point.Add st (GenF.Point.Mul sd kappa)
      let cp2 := GenF.Point.Sub en (GenF.Point.Mul ed kappa)
      go (i + 1) k en ed (en :: cp2 :: cp1 :: acc)
  some (go 1 n start (ellipseDeriv rx ry phi sweep theta0) [])

/-! xmonotoneQuadraticBezier (path_util.go:705) / xmonotoneCubicBezier (path_util.go:751): the control
points handed to QuadTo / CubeTo. The K transcription of the quadratic one is `C03L.xmonoQuadK`. -/

def xmonoQuad (p0 p1 p2 : Pt Float) : List (Pt Float) :=
  let tdenom := p0.x - 2.0 * p1.x + p2.x
  let whole := [p1, p2]
  if !GenF.Equal tdenom 0.0 then
    let t := (p0.x - p1.x) / tdenom
    if 0.0 < t && t < 1.0 then
      let r := GenF.quadraticBezierSplit p0 p1 p2 t
      [r.2.1, r.2.2.1, r.2.2.2.2.1, r.2.2.2.2.2]
    else whole
  else whole

def xmonoCubic (c : Cub Float) : List (Pt Float) :=
  let a := -c.p0.x + 3.0 * c.p1.x - 3.0 * c.p2.x + c.p3.x
  let b := 2.0 * c.p0.x - 4.0 * c.p1.x + 2.0 * c.p2.x
  let cc := -c.p0.x + c.p1.x
  -- 2a055fa: coefficients divided by their largest magnitude before the solver's absolute tests
  let m := goMax (Float.abs a) (goMax (Float.abs b) (Float.abs cc))
  let (a, b, cc) := if 0.0 < m then (a / m, b / m, cc / m) else (a, b, cc)
  let (t1, t2) := solveQuadraticFormula a b cc
  let first := !t1.isNaN && GenF.IntervalExclusive t1 0.0 1.0
  let (out1, cur) := if first then
      let l := cubSplitL c t1
      ([l.p1, l.p2, l.p3], cubSplitR c t1) else ([], c)
  if !t2.isNaN && GenF.IntervalExclusive t2 0.0 1.0 then
    let t2 := if first then (t2 - t1) / (1.0 - t1) else t2
    let l := cubSplitL cur t2
    let r := cubSplitR cur t2
    out1 ++ [l.p1, l.p2, l.p3, r.p1, r.p2, r.p3]
  else out1 ++ [cur.p1, cur.p2, cur.p3]

/-- Path.CubeTo / Path.QuadTo drop a piece whose control and end points all `Equals` the current position
(path.go:441, 462); `pos` is the current position of the path being built -/
def dropGo (k : Nat) : Nat → Pt Float → List (Pt Float) → List (Pt Float)
  | 0, _, _ => []
  | fuel + 1, pos, pts =>
    if k == 0 || pts.length < k then [] else
    let piece := pts.take k
    let rest := pts.drop k
    if piece.all (fun q => ptEquals pos q) then dropGo k fuel pos rest
    else piece ++ dropGo k fuel (piece.getLast?.getD pos) rest

def dropDegenerate (k : Nat) (pos : Pt Float) (pts : List (Pt Float)) : List (Pt Float) :=
  dropGo k (pts.length + 1) pos pts

/-! verdict lines: the curve is sampled here (generated Bernstein evaluators), the polyline is the real
code's output; `coveredBy` is the specification proved sound in CanvasProofs/C03.lean -/

def pairs : List Float → List (Pt Float)
  | x :: y :: rest => ⟨x, y⟩ :: pairs rest
  | _ => []

def sampleParams (n : Nat) : List Float := (List.range (n + 1)).map fun k => k.toFloat / n.toFloat

/-- `HD deg ctrl… tol bound round poly…` -/
def hausdorffVerdict (deg : String) (fs : List Float) : Option String := do
  let nctrl := if deg == "2" then 6 else if deg == "3" then 8 else 0
  if nctrl == 0 || fs.length < nctrl + 3 then none
  let ctrl := pairs (fs.take nctrl)
  let rest := fs.drop nctrl
  match rest with
  | tol :: bound :: round :: polyF =>
    let poly := pairs polyF
    let pos : Float → Option (Pt Float) := fun t =>
      match ctrl with
      | [a, b, c] => some (GenF.quadraticBezierPos a b c t)
      | [a, b, c, d] => some (GenF.cubicBezierPos a b c d t)
      | _ => none
    let samples ← (sampleParams 256).mapM pos
    let r := bound * tol + round
    if poly.length < 2 then pure "skip polyline-of-one-point"
    else if coveredBy (r * r) samples poly then pure "ok"
    else
      -- report the worst sample for the replay
      let worst := samples.foldl (fun m s =>
        let d := (edges poly).foldl (fun acc e => let x := distSqPointSeg s e.1 e.2; if x < acc then x else acc) inf
        if d > m then d else m) 0.0
      pure ("FAIL hausdorff dev=" ++ toString (Float.sqrt worst) ++ " ratio=" ++ toString (Float.sqrt worst / tol) ++ " bound=" ++ toString bound)
  | _ => none

end C03F

open C03F in
def handle : List String → Option String
  | "L1" :: name :: args => (GenF.dispatchCore name args) <|> (GenF.dispatchBezier name args)
  | "FQ" :: args => do
    match ← floats args with
    | [a, b, c, d, e, f, tol] => pure (answer (flattenQuad ⟨a, b⟩ ⟨c, d⟩ ⟨e, f⟩ tol))
    | _ => none
  | "FS" :: args => do
    match ← floats args with
    | [a, b, c, d, e, f, g, h, tol, sc] =>
      pure (answerScaled ((smooth [⟨a, b⟩] ⟨⟨a, b⟩, ⟨c, d⟩, ⟨e, f⟩, ⟨g, h⟩⟩ tol).map List.reverse) sc)
    | _ => none
  | "FC" :: args => do
    match ← floats args with
    | [a, b, c, d, e, f, g, h, tol, sc] => pure (answerScaled (flattenCubic ⟨⟨a, b⟩, ⟨c, d⟩, ⟨e, f⟩, ⟨g, h⟩⟩ tol) sc)
    | _ => none
  | "DV" :: args => do
    match ← floats args with
    | [a, b, c, d, e, f, g, h, dd] => pure (hexOfFloat (cubicDeviation ⟨⟨a, b⟩, ⟨c, d⟩, ⟨e, f⟩, ⟨g, h⟩⟩ dd))
    | _ => none
  | "INF" :: args => do
    match ← floats args with
    | [a, b, c, d, e, f, g, h] =>
      let (t1, t2) := findInflectionPoints ⟨⟨a, b⟩, ⟨c, d⟩, ⟨e, f⟩, ⟨g, h⟩⟩
      pure (hexOfFloat t1 ++ " " ++ hexOfFloat t2)
    | _ => none
  | "FA" :: large :: sweep :: args => do
    match ← floats args with
    | [x1, y1, rx, ry, phi, x2, y2, tol, sc] =>
      match flattenCircle ⟨x1, y1⟩ rx ry phi (large == "1") (sweep == "1") ⟨x2, y2⟩ tol with
      | none => pure "TOO-MANY"
      | some ps => pure (answerScaled (some ps) sc)
    | _ => none
  | "AC" :: large :: sweep :: args => do
    match ← floats args with
    | [x1, y1, rx, ry, phi, x2, y2, sc] =>
      match arcToCube ⟨x1, y1⟩ rx ry phi (large == "1") (sweep == "1") ⟨x2, y2⟩ with
      | none => pure "TOO-MANY"
      | some ps => pure (showPts (ps.map fun p => ⟨p.x / sc, p.y / sc⟩))
    | _ => none
  | "XQ" :: args => do
    match ← floats args with
    | [a, b, c, d, e, f] => pure (showPts (dropDegenerate 2 ⟨a, b⟩ (xmonoQuad ⟨a, b⟩ ⟨c, d⟩ ⟨e, f⟩)))
    | _ => none
  | "XC" :: args => do
    match ← floats args with
    | [a, b, c, d, e, f, g, h] => pure (showPts (dropDegenerate 3 ⟨a, b⟩ (xmonoCubic ⟨⟨a, b⟩, ⟨c, d⟩, ⟨e, f⟩, ⟨g, h⟩⟩)))
    | _ => none
  | "HD" :: deg :: args => do
    hausdorffVerdict deg (← floats args)
  | "SIG" :: toks => do
    let cs ← parseCmds toks
    -- the signature of the spliced command list: LineTo's and Join's tests are both Point.Equals
    -- (any callback: interior vertices are irrelevant)
    pure (showSig (signature (replaceCmds ptEquals ptEquals (fun _ _ _ => []) ⟨0.0, 0.0⟩ cs)))
  | _ => none

def main : IO Unit := runDriver handle
