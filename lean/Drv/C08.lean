import CanvasModel.Driver
import CanvasModel.C08
import CanvasGen.CoreF
import CanvasGen.BezierF
open Canvas Canvas.C08

/-- executable instance: Go's `math.Min/Max`, the *generated* translations of `Equal`,
`IntervalExclusive`, `quadraticBezierPos`, `cubicBezierPos`, and the Float arc helpers -/
instance : Ops Float where
  mn := goMin
  mx := goMax
  equal := GenF.Equal
  ivx := GenF.IntervalExclusive
  quadPos := GenF.quadraticBezierPos
  cubePos := GenF.cubicBezierPos
  sqrt := Float.sqrt
  sincos := fun x => (Float.sin x, Float.cos x)
  atan2 := Float.atan2
  pi := goPi
  fmod := fmodF
  acos := Float.acos
  abs := Float.abs
  eps := GenF.Epsilon
  le := fun a b => a ≤ b

def hexs (fs : List Float) : String := String.intercalate " " (fs.map hexOfFloat)

def optHex : Option Float → String
  | some x => hexOfFloat x
  | none => "7ff8000000000001"

def rectToks (r : Rct Float) : List Float := [r.x0, r.y0, r.x1, r.y1]

def handle : List String → Option String
  | "B" :: toks => do
    let fs ← toks.mapM floatOfHex?
    let cmds ← decode fs.toArray 0 []
    pure (hexs (rectToks (fastBounds cmds) ++ rectToks (bounds cmds)))
  | ["SQ", a, b, c] => do
    let a ← floatOfHex? a
    let b ← floatOfHex? b
    let c ← floatOfHex? c
    let r := solveQuadratic a b c
    pure (optHex r.1 ++ " " ++ optHex r.2)
  | "V" :: tolC :: tolT :: rest => do
    let tolC ← floatOfHex? tolC
    let tolT ← floatOfHex? tolT
    let fs ← (rest.take 12).mapM floatOfHex?
    match fs with
    | [s0, s1, s2, s3, b0, b1, b2, b3, f0, f1, f2, f3] =>
      let ax (n : Nat) := if n == 0 then "x" else "y"
      pure (match verdict tolC tolT ⟨s0, s1, s2, s3⟩ ⟨b0, b1, b2, b3⟩ ⟨f0, f1, f2, f3⟩ with
        | .ok => "ok"
        | .notContaining n => "FAIL bounds-not-containing " ++ ax n
        | .notTight n => "FAIL bounds-not-tight " ++ ax n
        | .fastNotContaining n => "FAIL fastbounds-not-containing " ++ ax n)
    | _ => none
  | "VE" :: tol :: rest => do
    let tol ← floatOfHex? tol
    let fs ← (rest.take 8).mapM floatOfHex?
    match fs with
    | [a0, a1, a2, a3, b0, b1, b2, b3] =>
      pure (if rectNear tol ⟨a0, a1, a2, a3⟩ ⟨b0, b1, b2, b3⟩ then "ok" else "FAIL differs")
    | _ => none
  | ["AB", th, lo, up] => do
    let th ← floatOfHex? th
    let lo ← floatOfHex? lo
    let up ← floatOfHex? up
    pure (if angleBetween th lo up then "1" else "0")
  | ["AN", th] => do
    let th ← floatOfHex? th
    pure (hexOfFloat (angleNorm th))
  | ["EC", x1, y1, rx, ry, phi, large, sweep, x2, y2] => do
    let x1 ← floatOfHex? x1
    let y1 ← floatOfHex? y1
    let rx ← floatOfHex? rx
    let ry ← floatOfHex? ry
    let phi ← floatOfHex? phi
    let x2 ← floatOfHex? x2
    let y2 ← floatOfHex? y2
    let r := ellipseToCenter x1 y1 rx ry phi (large == "1") (sweep == "1") x2 y2
    pure (hexs [r.1, r.2.1, r.2.2.1, r.2.2.2])
  | ["ECC", x1, y1, rx, ry, phi, large, sweep, x2, y2] => do
    let x1 ← floatOfHex? x1
    let y1 ← floatOfHex? y1
    let rx ← floatOfHex? rx
    let ry ← floatOfHex? ry
    let phi ← floatOfHex? phi
    let x2 ← floatOfHex? x2
    let y2 ← floatOfHex? y2
    let r := ellipseToCenter x1 y1 rx ry phi (large == "1") (sweep == "1") x2 y2
    pure (hexs [r.1, r.2.1])
  | _ => none

def main : IO Unit := runDriver handle
