import CanvasModel.Driver
import CanvasModel.C06Proto
import CanvasGen.SweepF
open Canvas
def handle : List String → Option String
  | "L1" :: name :: args => GenF.dispatchSweep name args
  | ts => Canvas.C06.handleAll ts
def main : IO Unit := runDriver handle
