import CanvasModel.Driver
import CanvasModel.C06
import CanvasGen.SweepF
open Canvas
def handle : List String → Option String
  | "L1" :: name :: args => GenF.dispatchSweep name args
  | ts => Canvas.C06.handle ts
def main : IO Unit := runDriver handle
