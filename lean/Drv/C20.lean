import CanvasModel.Driver
import CanvasModel.C20
import CanvasModel.C20.Pool
import CanvasGen.FactsC20
open Canvas Canvas.C20 Canvas.FactsC20

/-- `0:r.x`, `1:l.m`, `2:g.p.1`, `0:o.o`, `1:a.c` -/
def parseEv (s : String) : Option (Tid × Ev) :=
  match s.splitOn ":" with
  | [t, e] =>
    match t.toNat?, e.splitOn "." with
    | some t, ["r", x] => some (t, .read x)
    | some t, ["w", x] => some (t, .write x)
    | some t, ["l", m] => some (t, .lock m)
    | some t, ["u", m] => some (t, .unlock m)
    | some t, ["o", o] => some (t, .onceDo o)
    | some t, ["a", x] => some (t, .atomicOp x)
    | some t, ["g", p, v] => v.toNat?.map fun v => (t, .poolGet p v)
    | some t, ["p", p, v] => v.toNat?.map fun v => (t, .poolPut p v)
    | _, _ => none
  | _ => none

def b01 (b : Bool) : String := if b then "1" else "0"

/-- the fixed world of the generated traces -/
def trBody (o : String) : List String := if o == "o" then ["z"] else []

def handleTrace (toks : List String) : Option String := do
  let tr ← toks.mapM parseEv
  let rs := races trBody ["x", "y", "z", "w", "c"] tr
  let rtxt := if rs.isEmpty then "-" else
    ",".intercalate (rs.map fun (i, j, x) => s!"{i}:{j}:{x}")
  let ob := b01 (obeysB trBody (.guarded (.mu "m")) tr "x") ++ b01 (obeysB trBody (.guarded (.obj "p" 1)) tr "y") ++
    b01 (obeysB trBody (.byOnce "o") tr "z") ++ b01 (obeysB trBody .readOnly tr "w") ++ b01 (obeysB trBody .atomicOnly tr "c")
  return s!"wf={b01 (wfB tr)} obeys={ob} races={rtxt}"

def sitePositions (v : VarFact) : List String := (v.writes ++ v.reads ++ v.addrs).map (·.pos)

/-- `file:line` lies in a source file that takes objects from / returns them to a pool. Goroutines
working on independent inputs share nothing in such a file but package-level variables (looked up
first) and the objects that travel through the pools. -/
def inPoolFile (pos : String) : Bool :=
  match pos.splitOn ":" with
  | [f, _] => poolFuncs.any fun (pf, _, _, _) => pf == f
  | _ => false

/-- verdict on one race report: which extracted variable do the two top frames belong to -/
def handleRace (a b : String) : String :=
  match vars.find? (fun v => (sitePositions v).contains a && (sitePositions v).contains b) with
  | some v =>
    if v.disciplined then s!"FAIL table-missed-{v.name} race reported on a variable the table calls disciplined"
    else s!"FAIL {v.name} race on {v.qname} ({a}, {b}): the table has it undisciplined"
  | none =>
    match getSites.find? (fun g => g.initPos.contains a || g.initPos.contains b) with
    | some g => s!"FAIL pooled-{g.typ}-use-after-put a {g.typ} is overwritten by the initialisation after {g.pool}.Get in {g.fn} while another goroutine still uses it ({a}, {b})"
    | none =>
      -- a dependency frame in a file that contains an alias copy `&(*e)` (the write side of the
      -- shared-font mutation) names the class; otherwise the first dependency frame
      let aliasFiles := aliasCopies.map fun c => (c.pos.splitOn ":").take 2
      let inAlias := fun (p : String) => aliasFiles.contains ((p.splitOn ":").take 2)
      match ([a, b].find? inAlias).orElse (fun _ => [a, b].find? (·.startsWith "mod:")) with
      | some m => s!"FAIL thirdparty:{((m.splitOn ":").getD 1 "?")} race inside a dependency ({a}, {b})"
      | none =>
        if inPoolFile a && inPoolFile b then
          s!"FAIL pooled-object-use-after-put two goroutines inside the pool-using sweep code touch one object ({a}, {b}): an object reached one of them after the other returned it to the pool"
        else s!"FAIL unlisted race at {a} / {b} is on no extracted package-level variable or pool site"

/-- raw junk-pool observation of one Get site: `f=v0|v1` per field. A field with v0 ≠ v1 kept what the
pool held. Verdict: FAIL if any field is stale (property), or if the field list differs from the
extracted one, or if the model's verdict (`initOk`) and the observation disagree in the unsafe
direction. -/
def handleGetObs (fn obj typ : String) (obs : List String) : String :=
  match getSites.find? (fun g => g.fn == fn && g.obj == obj) with
  | none => s!"FAIL unknown-get-site {fn} {obj} is not in the extracted table"
  | some g =>
    let parsed := obs.map fun o =>
      match o.splitOn "=" with
      | f :: rest =>
        let v := "=".intercalate rest
        match v.splitOn "|" with
        | [a, b] => (f, a != b)
        | _ => (f, true)
      | [] => ("?", true)
    match getObsVerdict g typ parsed with
    | .fieldList => s!"FAIL field-list-{typ} compiled fields {parsed.map (·.1)} differ from the extracted {g.fields}"
    | .modelMissed f => s!"FAIL model-missed-stale-{typ}.{f} the statement sequence is accepted by initOk but the field keeps what the pool held"
    | .stale f => s!"FAIL stale-field-{typ}.{f} {fn} ({obj}) leaves field {f} as the pool held it"
    | .ok => s!"ok {typ} {g.fields.length} fields re-initialised"
    | .modelRejects => s!"FAIL model-rejects-{typ} initOk rejects the sequence although no stale field was observed"

def handle : List String → Option String
  | ["FIELDS", t] => (pooledStructs.lookup t).map (" ".intercalate ·)
  | ["GETSITES"] => some (toString getSites.length)
  | ["GET", fn, obj] =>
    (getSites.find? (fun g => g.fn == fn && g.obj == obj)).map fun g =>
      g.typ ++ " " ++ " ".intercalate (g.fields.map fun f => f ++ "=" ++ (if (assignedBy g.fields g.steps []).contains f then "det" else "STALE"))
  | "GETOBS" :: fn :: obj :: typ :: obs => some (handleGetObs fn obj typ obs)
  | "TRACE" :: toks => handleTrace toks
  | "RACE" :: a :: b :: _ => some (handleRace a b)
  | _ => none

def main : IO Unit := runDriver handle
