import CanvasModel.Driver
import CanvasModel.C20
import CanvasGen.FactsC20
open Canvas Canvas.C20 Canvas.FactsC20

/-- `0:r.x`, `1:l.m`, `2:g.p.1`, `0:o.o`, `1:a.c` -/
def parseEv (s : String) : Option (Tid × Ev) :=
  match s.splitOn ":" with
  | [t, e] =>
    match t.toNat?, e.splitOn "." with
    | some t, ["r", x] => some (t, .read x)
    | some t, ["w", x] => some (t, .write x)
    | some t, ["l", m] => some (t, .lock m)
    | some t, ["u", m] => some (t, .unlock m)
    | some t, ["o", o] => some (t, .onceDo o)
    | some t, ["a", x] => some (t, .atomicOp x)
    | some t, ["g", p, v] => v.toNat?.map fun v => (t, .poolGet p v)
    | some t, ["p", p, v] => v.toNat?.map fun v => (t, .poolPut p v)
    | _, _ => none
  | _ => none

def b01 (b : Bool) : String := if b then "1" else "0"

/-- the fixed world of the generated traces -/
def trBody (o : String) : List String := if o == "o" then ["z"] else []

def handleTrace (toks : List String) : Option String := do
  let tr ← toks.mapM parseEv
  let rs := races trBody ["x", "y", "z", "w", "c"] tr
  let rtxt := if rs.isEmpty then "-" else
    ",".intercalate (rs.map fun (i, j, x) => s!"{i}:{j}:{x}")
  let ob := b01 (obeysB trBody (.guarded (.mu "m")) tr "x") ++ b01 (obeysB trBody (.guarded (.obj "p" 1)) tr "y") ++
    b01 (obeysB trBody (.byOnce "o") tr "z") ++ b01 (obeysB trBody .readOnly tr "w") ++ b01 (obeysB trBody .atomicOnly tr "c")
  return s!"wf={b01 (wfB tr)} obeys={ob} races={rtxt}"

def sitePositions (v : VarFact) : List String := (v.writes ++ v.reads ++ v.addrs).map (·.pos)

/-- `file:line` lies in a source file that takes objects from / returns them to a pool. Goroutines
working on independent inputs share nothing in such a file but package-level variables (looked up
first) and the objects that travel through the pools. -/
def inPoolFile (pos : String) : Bool :=
  match pos.splitOn ":" with
  | [f, _] => poolFuncs.any fun (pf, _, _, _) => pf == f
  | _ => false

/-- verdict on one race report: which extracted variable do the two top frames belong to -/
def handleRace (a b : String) : String :=
  match vars.find? (fun v => (sitePositions v).contains a && (sitePositions v).contains b) with
  | some v =>
    if v.disciplined then s!"FAIL table-missed-{v.name} race reported on a variable the table calls disciplined"
    else s!"FAIL {v.name} race on {v.qname} ({a}, {b}): the table has it undisciplined"
  | none =>
    match getSites.find? (fun g => g.initPos.contains a || g.initPos.contains b) with
    | some g => s!"FAIL pooled-{g.typ}-use-after-put a {g.typ} is overwritten by the initialisation after {g.pool}.Get in {g.fn} while another goroutine still uses it ({a}, {b})"
    | none =>
      match [a, b].find? (·.startsWith "mod:") with
      | some m => s!"FAIL thirdparty:{((m.splitOn ":").getD 1 "?")} race inside a dependency ({a}, {b})"
      | none =>
        if inPoolFile a && inPoolFile b then
          s!"FAIL pooled-object-use-after-put two goroutines inside the pool-using sweep code touch one object ({a}, {b}): an object reached one of them after the other returned it to the pool"
        else s!"FAIL unlisted race at {a} / {b} is on no extracted package-level variable or pool site"

def handle : List String → Option String
  | ["FIELDS", t] => (pooledStructs.lookup t).map (" ".intercalate ·)
  | ["GETSITES"] => some (toString getSites.length)
  | ["GET", fn, obj] =>
    (getSites.find? (fun g => g.fn == fn && g.obj == obj)).map fun g =>
      g.typ ++ " " ++ " ".intercalate (g.fields.map fun f => f ++ "=" ++ (if g.assigned.contains f then "det" else "STALE"))
  | "TRACE" :: toks => handleTrace toks
  | "RACE" :: a :: b :: _ => some (handleRace a b)
  | _ => none

def main : IO Unit := runDriver handle
