import CanvasModel.Driver
import CanvasModel.C17.Spec
open Canvas Canvas.C17

/-- items: `B w` | `G w y z` | `P w p f` -/
partial def parseItems : List String → List (Item Float) → Option (List (Item Float))
  | [], acc => some acc.reverse
  | "B" :: w :: rest, acc => do
    let w ← floatOfHex? w
    parseItems rest (⟨Ty.box, w, 0.0, 0.0, 0.0, false⟩ :: acc)
  | "G" :: w :: y :: z :: rest, acc => do
    let w ← floatOfHex? w; let y ← floatOfHex? y; let z ← floatOfHex? z
    parseItems rest (⟨Ty.glue, w, y, z, 0.0, false⟩ :: acc)
  | "P" :: w :: p :: f :: rest, acc => do
    let w ← floatOfHex? w; let p ← floatOfHex? p
    parseItems rest (⟨Ty.penalty, w, 0.0, 0.0, p, f == "1"⟩ :: acc)
  | _, _ => none

def showND (d : ND Float) : String :=
  s!"{d.pos} {d.line} {d.fit} {hexOfFloat d.width} {hexOfFloat d.ratio} {hexOfFloat d.dem}"

def showOutcome : Outcome Float → String
  | Outcome.panic => "PANIC"
  | Outcome.fuelOut => "FUEL"
  | Outcome.ok brs fit => String.intercalate " " ((if fit then "1" else "0") :: toString brs.length :: brs.map showND)

def handle : List String → Option String
  | "LB" :: loose :: lineW :: tol :: dl :: dfl :: dfit :: inf :: rest => do
    let loose ← parseInt? loose
    let lineW ← floatOfHex? lineW
    let P : Params Float := ⟨← floatOfHex? tol, ← floatOfHex? dl, ← floatOfHex? dfl, ← floatOfHex? dfit, ← floatOfHex? inf⟩
    let items ← parseItems rest []
    some (showOutcome (linebreak P items lineW loose))
  | "BEST" :: _loose :: lineW :: tol :: dl :: dfl :: dfit :: inf :: rest => do
    let lineW ← floatOfHex? lineW
    let P : Params Float := ⟨← floatOfHex? tol, ← floatOfHex? dl, ← floatOfHex? dfl, ← floatOfHex? dfit, ← floatOfHex? inf⟩
    let items ← parseItems rest []
    some (match best P items lineW with | some d => hexOfFloat d | none => "none")
  | _ => none

def main : IO Unit := runDriver handle
