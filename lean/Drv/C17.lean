import CanvasModel.Driver
import CanvasModel.C17.Spec
import CanvasModel.C17.BPList
import CanvasModel.C17.Verdict
open Canvas Canvas.C17

/-- items: `B w` | `G w y z` | `P w p f` -/
partial def parseItems : List String → List (Item Float) → Option (List (Item Float))
  | [], acc => some acc.reverse
  | "B" :: w :: rest, acc => do
    let w ← floatOfHex? w
    parseItems rest (⟨Ty.box, w, 0.0, 0.0, 0.0, false⟩ :: acc)
  | "G" :: w :: y :: z :: rest, acc => do
    let w ← floatOfHex? w; let y ← floatOfHex? y; let z ← floatOfHex? z
    parseItems rest (⟨Ty.glue, w, y, z, 0.0, false⟩ :: acc)
  | "P" :: w :: p :: f :: rest, acc => do
    let w ← floatOfHex? w; let p ← floatOfHex? p
    parseItems rest (⟨Ty.penalty, w, 0.0, 0.0, p, f == "1"⟩ :: acc)
  | _, _ => none

/-- operations of the `BP` lines: `kind list b at` quadruples -/
partial def parseOps : List String → List BP.Op → Option (List BP.Op)
  | [], acc => some acc.reverse
  | kd :: l :: b :: a :: rest, acc => do
    let l ← l.toNat?; let b ← b.toNat?; let a ← a.toNat?
    match kd with
    | "0" => parseOps rest (BP.Op.push l b :: acc)
    | "1" => parseOps rest (BP.Op.insertBefore l b a :: acc)
    | "2" => parseOps rest (BP.Op.remove l b :: acc)
    | "3" => parseOps rest (BP.Op.has l b :: acc)
    | _ => none
  | _, _ => none

def showND (d : ND Float) : String :=
  s!"{d.pos} {d.line} {d.fit} {hexOfFloat d.width} {hexOfFloat d.ratio} {hexOfFloat d.dem}"

def showOutcome : Outcome Float → String
  | Outcome.panic => "PANIC"
  | Outcome.fuelOut => "FUEL"
  | Outcome.ok brs fit => String.intercalate " " ((if fit then "1" else "0") :: toString brs.length :: brs.map showND)

def handle : List String → Option String
  | "LB" :: loose :: lineW :: tol :: dl :: dfl :: dfit :: inf :: rest => do
    let loose ← parseInt? loose
    let lineW ← floatOfHex? lineW
    let P : Params Float := ⟨← floatOfHex? tol, ← floatOfHex? dl, ← floatOfHex? dfl, ← floatOfHex? dfit, ← floatOfHex? inf, 1e-10⟩
    let items ← parseItems rest []
    some (showOutcome (linebreak P items lineW loose))
  | "BEST" :: _loose :: lineW :: tol :: dl :: dfl :: dfit :: inf :: rest => do
    let lineW ← floatOfHex? lineW
    let P : Params Float := ⟨← floatOfHex? tol, ← floatOfHex? dl, ← floatOfHex? dfl, ← floatOfHex? dfit, ← floatOfHex? inf, 1e-10⟩
    let items ← parseItems rest []
    some (match best P items lineW with | some d => hexOfFloat d | none => "none")
  | "VS" :: _loose :: _lineW :: tol :: dl :: dfl :: dfit :: inf :: rest => do
    let P : Params Float := ⟨← floatOfHex? tol, ← floatOfHex? dl, ← floatOfHex? dfl, ← floatOfHex? dfit, ← floatOfHex? inf, 1e-10⟩
    let itemToks := rest.takeWhile (· != "R")
    let posToks := (rest.dropWhile (· != "R")).drop 1
    let items ← parseItems itemToks []
    let pos ← posToks.mapM (·.toNat?)
    some (match structClass P items pos with
      | none => "ok structure"
      | some cls => "FAIL " ++ cls ++ " positions " ++ toString pos)
  | "BP" :: n :: rest => do
    let n ← n.toNat?
    let ops ← parseOps rest []
    some (match BP.run ⟨BP.emptyHeap, BP.emptyHdr, BP.emptyHdr⟩ [] ops with
      | some (s, obs) => BP.dump n s obs
      | none => "PANIC")
  | _ => none

def main : IO Unit := runDriver handle
