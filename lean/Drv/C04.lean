import CanvasModel.Driver
import CanvasModel.C04
import CanvasModel.C04.Spec
import CanvasGen.CoreF
import CanvasGen.StrokeF
/-! Driver of C04: the generic kernels / skeleton of `CanvasModel.C04` executed at `Float`, with the
scalar operations taken from the *generated* translations (`GenF.Equal`, `GenF.Point.Length`). -/
open Canvas Canvas.C04

instance : Ops Float where
  hypot := fun x y => GenF.Point.Length ⟨x, y⟩
  sqrt := Float.sqrt
  equal := GenF.Equal
  isZero := fun d => d == 0.0
  minLimit := 1.001

def nanF : Float := 0.0 / 0.0

def fl? (s : String) : Option Float := floatOfHex? s

def pt? : List String → Option (Pt Float × List String)
  | x :: y :: ts => do pure (⟨← fl? x, ← fl? y⟩, ts)
  | _ => none

def cmdToks : Cmd Float → List String
  | .L p => [hexOfFloat 2.0, hexOfFloat p.x, hexOfFloat p.y, hexOfFloat 2.0]
  | .A r sweep p => [hexOfFloat 16.0, hexOfFloat r, hexOfFloat r, hexOfFloat 0.0,
      hexOfFloat (if sweep then 2.0 else 0.0), hexOfFloat p.x, hexOfFloat p.y, hexOfFloat 16.0]

def cmdsStr (cs : List (Cmd Float)) : String := " ".intercalate (cs.flatMap cmdToks)

def evToks : Ev Float → List String
  | .join p n0 n1 r0 r1 => ["J", hexOfFloat p.x, hexOfFloat p.y, hexOfFloat n0.x, hexOfFloat n0.y,
      hexOfFloat n1.x, hexOfFloat n1.y, hexOfFloat r0, hexOfFloat r1]
  | .cap p n => ["C", hexOfFloat p.x, hexOfFloat p.y, hexOfFloat n.x, hexOfFloat n.y]

def protoStr : Option (Proto Float) → String
  | none => "NIL"
  | some pr =>
    " ".intercalate (pr.events.flatMap evToks ++
      ["END", if pr.rhsClosed then "1" else "0",
        match pr.lhs with | none => "nil" | some true => "1" | some false => "0"])

/-- raw path data (hex floats) of a flat subpath -/
partial def parseFlat : List String → Option (List (FCmd Float))
  | [] => some []
  | c :: x :: y :: _ :: ts => do
    let c ← fl? c
    let p : Pt Float := ⟨← fl? x, ← fl? y⟩
    let rest ← parseFlat ts
    if c == 1.0 then pure (.M p :: rest)
    else if c == 2.0 then pure (.L p :: rest)
    else if c == 32.0 then pure (.Z p :: rest)
    else none
  | _ => none

def parseSegs : Nat → List String → Option (List (Seg Float))
  | 0, _ => some []
  | n + 1, ts => do
    let (p0, ts) ← pt? ts
    let (p1, ts) ← pt? ts
    let (n0, ts) ← pt? ts
    let (n1, ts) ← pt? ts
    match ts with
    | r0 :: r1 :: ts => do
      let rest ← parseSegs n ts
      pure (⟨p0, p1, n0, n1, ← fl? r0, ← fl? r1⟩ :: rest)
    | _ => none

def eqNF (a b : Pt Float) : Bool := pointEquals a b

def handleKernel : List String → Option String
  | ["CAP", kind, hw, px, py, nx, ny] => do
    let hw ← fl? hw
    let pivot : Pt Float := ⟨← fl? px, ← fl? py⟩
    let n0 : Pt Float := ⟨← fl? nx, ← fl? ny⟩
    match kind with
    | "0" => pure (cmdsStr (buttCap pivot n0))
    | "1" => pure (cmdsStr (roundCap hw pivot n0))
    | "2" => pure (cmdsStr (squareCap pivot n0))
    | _ => none
  | "JOIN" :: kind :: limit :: hw :: ts => do
    let limit ← fl? limit
    let hw ← fl? hw
    let (pivot, ts) ← pt? ts
    let (n0, ts) ← pt? ts
    let (n1, ts) ← pt? ts
    let (rpos, ts) ← pt? ts
    let (lpos, _) ← pt? ts
    let r ← (match kind with
      | "0" => some (bevelJoin pivot n1)
      | "1" => some (roundJoin hw pivot n0 n1)
      | "2" => some (miterJoin true limit hw pivot n0 n1 rpos lpos)
      | "3" => some (miterJoin false limit hw pivot n0 n1 rpos lpos)
      -- ArcsJoiner with straight neighbours (r0 = r1 = NaN) is MiterJoiner(j)
      | "4" => some (miterJoin true limit hw pivot n0 n1 rpos lpos)
      | "5" => some (miterJoin false limit hw pivot n0 n1 rpos lpos)
      | _ => none)
    pure (cmdsStr r.1 ++ " | " ++ cmdsStr r.2)
  | "PROTO" :: so :: hw :: "D" :: ts => do
    let hw ← fl? hw
    let cmds ← parseFlat ts
    let st := flatStates hw nanF (⟨0.0, 0.0⟩ : Pt Float) cmds
    pure (protoStr (offsetProto eqNF st.1 st.2 (so == "1")))
  | "PROTOA" :: cl :: so :: n :: ts => do
    let n ← n.toNat?
    let segs ← parseSegs n ts
    pure (protoStr (offsetProto eqNF segs (cl == "1") (so == "1")))
  | _ => none

def parseSegsR : Nat → List String → Option (List (Seg Float) × List String)
  | 0, ts => some ([], ts)
  | n + 1, ts => do
    let (p0, ts) ← pt? ts
    let (p1, ts) ← pt? ts
    let (n0, ts) ← pt? ts
    let (n1, ts) ← pt? ts
    match ts with
    | r0 :: r1 :: ts => do
      let (rest, ts) ← parseSegsR n ts
      pure (⟨p0, p1, n0, n1, ← fl? r0, ← fl? r1⟩ :: rest, ts)
    | _ => none

def parseSubs : Nat → List String → Option (List (SubPath Float))
  | 0, _ => some []
  | k + 1, cl :: n :: ts => do
    let n ← n.toNat?
    let (segs, ts) ← parseSegsR n ts
    let rest ← parseSubs k ts
    pure ((segs, cl == "1") :: rest)
  | _, _ => none

/-- `PROTOM <stroke> <k> { <closed> <n> seg… }`: caps, joins and contours of a whole path -/
def handlePath : List String → Option String
  | "PROTOM" :: stroke :: k :: ts => do
    let k ← k.toNat?
    let subs ← parseSubs k ts
    let st := stroke == "1"
    let ev := pathEvents eqNF subs st
    pure s!"{(ev.filter Ev.isCap).length} {(ev.filter Ev.isJoin).length} {pathContours subs st}"
  | "PROTOMC" :: _ :: k :: ts => do
    let k ← k.toNat?
    let subs ← parseSubs k ts
    pure s!"{pathContours subs false}"
  | _ => none

def handle : List String → Option String
  | "L1" :: name :: args => (GenF.dispatchStroke name args) <|> (GenF.dispatchCore name args)
  | ts => (handleKernel ts) <|> (handlePath ts) <|> (Canvas.C04.handleRegion ts) <|> (Canvas.C04.Spec.handle ts)

def main : IO Unit := runDriver handle
