import CanvasModel.Driver
import CanvasModel.C15
import CanvasModel.C15Heap
import CanvasModel.C15Verdict
import CanvasGen.CoreF
open Canvas Canvas.C15

/-! Driver for C15: the generic Context/Canvas model instantiated with `Float` and the generated
(`GenF`) translations of /repo/util.go. One history per line. -/

def arithF : Arith Float :=
  { zero := 0.0, one := 1.0, two := 2.0, half := 0.5,
    neg := fun x => -x, add := (· + ·), sub := (· - ·), mul := (· * ·), div := (· / ·),
    lt := fun a b => a < b, le := fun a b => a ≤ b, beq := fun a b => a == b,
    equal := GenF.Equal,
    trunc := fun x => Float.ofInt (x.toInt64.toInt),
    sqrt2 := 1.4142135623730951, c1001 := 1.001, fmax := goMax,
    -- math.Hypot(x, 1) for x ≥ 1: p * sqrt(1 + (q/p)^2) with p = x, q = 1
    hypot1 := fun x => x * Float.sqrt (1.0 + (1.0 / x) * (1.0 / x)) }

def decodeF (x : Float) : Nat × Int :=
  let b := x.toBits.toNat % 2 ^ 63
  let ex : Nat := b / 2 ^ 52
  let fr : Nat := b % 2 ^ 52
  if ex == 0 then (fr, -1074) else (fr + 2 ^ 52, Int.ofNat ex - 1075)

/-- math.Mod, exact (the remainder of two doubles is a double; sign of x) -/
def fmodF (x y : Float) : Float :=
  if y == 0 || x.isInf || x.isNaN || y.isNaN then (0.0 / 0.0)
  else if y.isInf then x
  else
    let (mx, ex) := decodeF x
    let (my, ey) := decodeF y
    let e := min ex ey
    let X := mx * 2 ^ (ex - e).toNat
    let Y := my * 2 ^ (ey - e).toNat
    let r := (Float.ofNat (X % Y)).scaleB e
    if x.toBits >>> 63 == 1 then -r else r

def opsF : Ops Float :=
  { arithF with
    ident := ⟨1.0, 0.0, 0.0, 0.0, 1.0, 0.0⟩,
    mmul := GenF.Matrix.Mul, dot := GenF.Matrix.Dot, translate := GenF.Matrix.Translate,
    scale := GenF.Matrix.Scale, shear := GenF.Matrix.Shear,
    reflectX := GenF.Matrix.ReflectX, reflectY := GenF.Matrix.ReflectY,
    reflectXAbout := GenF.Matrix.ReflectXAbout, reflectYAbout := GenF.Matrix.ReflectYAbout,
    scaleAbout := GenF.Matrix.ScaleAbout, shearAbout := GenF.Matrix.ShearAbout,
    rectTransform := GenF.Rect.Transform, rectAdd := GenF.Rect.Add,
    -- identities used by the harness: cappers 0 Butt 1 Round 2 Square; joiners 0 Miter(4) 1 Bevel 2 Round 3 Arcs(4) 4 MiterClip(4)
    isSquareCap := fun k => k == 2,
    joinLimit := fun k => if k == 0 || k == 3 || k == 4 then some 4.0 else none,
    joinClips := fun k => k == 4,
    checkDash := checkDashImpl arithF fmodF }

inductive Cmd
  | op (o : Op Float)
  | obs

def fl? (s : String) : Option Float := floatOfHex? s
def nat? (s : String) : Option Nat := s.toNat?

def floats? : List String → Option (List Float)
  | [] => some []
  | t :: ts => do
    let v ← fl? t
    let vs ← floats? ts
    pure (v :: vs)

def mat? : List String → Option (Mat Float)
  | [a, b, c, d, e, f] => do pure ⟨← fl? a, ← fl? b, ← fl? c, ← fl? d, ← fl? e, ← fl? f⟩
  | _ => none

def rct? : List String → Option (Rct Float)
  | [a, b, c, d] => do pure ⟨← fl? a, ← fl? b, ← fl? c, ← fl? d⟩
  | _ => none

def paint? : List String → Option Paint
  | [r, g, b, a, gr, pt] => do pure ⟨← nat? r, ← nat? g, ← nat? b, ← nat? a, ← nat? gr, ← nat? pt⟩
  | _ => none

def cs? : String → Option CoordSys
  | "0" => some .I | "1" => some .II | "2" => some .III | "3" => some .IV | _ => none

def pathRefs? : Nat → List String → Option (List (PathRef Float) × List String)
  | 0, ts => some ([], ts)
  | n + 1, id :: len :: x0 :: y0 :: x1 :: y1 :: ts => do
    let p : PathRef Float := ⟨← nat? id, ← fl? len, ← rct? [x0, y0, x1, y1]⟩
    let (ps, rest) ← pathRefs? n ts
    pure (p :: ps, rest)
  | _, _ => none

partial def parse : List String → Option (List Cmd)
  | [] => some []
  | "OBS" :: ts => do pure (Cmd.obs :: (← parse ts))
  | "PU" :: ts => do pure (.op .push :: (← parse ts))
  | "PO" :: ts => do pure (.op .pop :: (← parse ts))
  | "CS" :: n :: ts => do pure (.op (.setCoordSystem (← cs? n)) :: (← parse ts))
  | "CV" :: a :: b :: c :: d :: e :: f :: ts => do pure (.op (.setCoordView (← mat? [a, b, c, d, e, f])) :: (← parse ts))
  | "CR" :: x0 :: y0 :: x1 :: y1 :: w :: h :: ts => do
    pure (.op (.setCoordRect (← rct? [x0, y0, x1, y1]) (← fl? w) (← fl? h)) :: (← parse ts))
  | "SV" :: a :: b :: c :: d :: e :: f :: ts => do pure (.op (.setView (← mat? [a, b, c, d, e, f])) :: (← parse ts))
  | "RV" :: ts => do pure (.op .resetView :: (← parse ts))
  | "MV" :: a :: b :: c :: d :: e :: f :: ts => do pure (.op (.composeView (← mat? [a, b, c, d, e, f])) :: (← parse ts))
  | "TR" :: x :: y :: ts => do pure (.op (.translate (← fl? x) (← fl? y)) :: (← parse ts))
  | "RX" :: ts => do pure (.op .reflectX :: (← parse ts))
  | "RY" :: ts => do pure (.op .reflectY :: (← parse ts))
  | "RXA" :: x :: ts => do pure (.op (.reflectXAbout (← fl? x)) :: (← parse ts))
  | "RYA" :: y :: ts => do pure (.op (.reflectYAbout (← fl? y)) :: (← parse ts))
  | "RO" :: s :: c :: ts => do pure (.op (.rotate (← fl? s) (← fl? c)) :: (← parse ts))
  | "ROA" :: s :: c :: x :: y :: ts => do pure (.op (.rotateAbout (← fl? s) (← fl? c) (← fl? x) (← fl? y)) :: (← parse ts))
  | "SC" :: x :: y :: ts => do pure (.op (.scale (← fl? x) (← fl? y)) :: (← parse ts))
  | "SCA" :: sx :: sy :: x :: y :: ts => do pure (.op (.scaleAbout (← fl? sx) (← fl? sy) (← fl? x) (← fl? y)) :: (← parse ts))
  | "SH" :: x :: y :: ts => do pure (.op (.shear (← fl? x) (← fl? y)) :: (← parse ts))
  | "SHA" :: sx :: sy :: x :: y :: ts => do pure (.op (.shearAbout (← fl? sx) (← fl? sy) (← fl? x) (← fl? y)) :: (← parse ts))
  | "FI" :: r :: g :: b :: a :: gr :: pt :: ts => do pure (.op (.setFill (← paint? [r, g, b, a, gr, pt])) :: (← parse ts))
  | "ST" :: r :: g :: b :: a :: gr :: pt :: ts => do pure (.op (.setStroke (← paint? [r, g, b, a, gr, pt])) :: (← parse ts))
  | "SW" :: w :: ts => do pure (.op (.setStrokeWidth (← fl? w)) :: (← parse ts))
  | "CAP" :: k :: ts => do pure (.op (.setStrokeCapper (← nat? k)) :: (← parse ts))
  | "JOIN" :: k :: ts => do pure (.op (.setStrokeJoiner (← nat? k)) :: (← parse ts))
  | "DA" :: off :: n :: ts => do
    let n ← nat? n
    if ts.length < n then none else
    pure (.op (.setDashes (← fl? off) (← floats? (ts.take n))) :: (← parse (ts.drop n)))
  | "FR" :: r :: ts => do pure (.op (.setFillRule (← nat? r)) :: (← parse ts))
  | "RS" :: ts => do pure (.op .resetStyle :: (← parse ts))
  | "Z" :: z :: ts => do pure (.op (.setZIndex (← parseInt? z)) :: (← parse ts))
  | "DP" :: x :: y :: n :: ts => do
    let (ps, rest) ← pathRefs? (← nat? n) ts
    pure (.op (.drawPath (← fl? x) (← fl? y) ps) :: (← parse rest))
  | "FL" :: id :: len :: x0 :: y0 :: x1 :: y1 :: ts => do
    pure (.op (.fill ⟨← nat? id, ← fl? len, ← rct? [x0, y0, x1, y1]⟩) :: (← parse ts))
  | "SK" :: id :: len :: x0 :: y0 :: x1 :: y1 :: ts => do
    pure (.op (.stroke ⟨← nat? id, ← fl? len, ← rct? [x0, y0, x1, y1]⟩) :: (← parse ts))
  | "FS" :: id :: len :: x0 :: y0 :: x1 :: y1 :: ts => do
    pure (.op (.fillStroke ⟨← nat? id, ← fl? len, ← rct? [x0, y0, x1, y1]⟩) :: (← parse ts))
  | "DT" :: x :: y :: id :: e :: x0 :: y0 :: x1 :: y1 :: ts => do
    pure (.op (.drawText (← fl? x) (← fl? y) ⟨← nat? id, e == "1", ← rct? [x0, y0, x1, y1]⟩) :: (← parse ts))
  | "DI" :: x :: y :: w :: h :: res :: ts => do
    pure (.op (.drawImage (← fl? x) (← fl? y) ⟨← fl? w, ← fl? h⟩ (← fl? res)) :: (← parse ts))
  | "FIM" :: w :: h :: x0 :: y0 :: x1 :: y1 :: fit :: ts => do
    pure (.op (.fitImage ⟨← fl? w, ← fl? h⟩ (← rct? [x0, y0, x1, y1]) (← nat? fit)) :: (← parse ts))
  | "CT" :: a :: b :: c :: d :: e :: f :: ts => do pure (.op (.cvTransform (← mat? [a, b, c, d, e, f])) :: (← parse ts))
  | "CC" :: x0 :: y0 :: x1 :: y1 :: ts => do pure (.op (.cvClip (← rct? [x0, y0, x1, y1])) :: (← parse ts))
  | "CF" :: m :: ts => do pure (.op (.cvFit (← fl? m)) :: (← parse ts))
  | "CX" :: ts => do pure (.op .cvReset :: (← parse ts))
  | "CN" :: a :: b :: c :: d :: e :: f :: ts => do pure (.op (.cvNest (← mat? [a, b, c, d, e, f])) :: (← parse ts))
  | _ => none

def showMat (m : Mat Float) : List String := [m.a, m.b, m.c, m.d, m.e, m.f].map hexOfFloat
def showPaint (p : Paint) : List String := [p.r, p.g, p.b, p.a, p.grad, p.pat].map toString
def showStyle (s : Style Float) : List String :=
  showPaint s.fill ++ showPaint s.stroke ++ [hexOfFloat s.width, toString s.cap, toString s.join,
    hexOfFloat s.dashOff, toString s.dashes.length] ++ s.dashes.map hexOfFloat ++ [toString s.rule]
def showCall (c : Call Float) : List String :=
  match c.item with
  | .path p s => ["P", toString p.id] ++ showMat c.m ++ showStyle s
  | .text t => ["T", toString t.id] ++ showMat c.m
  | .image i => ["I", hexOfFloat i.w, hexOfFloat i.h] ++ showMat c.m
def showCalls (tag : String) (cs : List (Call Float)) : List String :=
  [tag, toString cs.length] ++ cs.flatMap showCall

def exec (view : Mat Float) : List Cmd → Ctx Float → List String → List String
  | [], c, out =>
    out ++ showCalls "E" c.emitted ++ showCalls "R" (c.cv.renderViewTo opsF view)
      ++ ["S", hexOfFloat c.cv.W, hexOfFloat c.cv.H]
  | .obs :: rest, c, out =>
    exec view rest c (out ++ ["O"] ++ showMat c.st.view ++ showMat c.st.coordView ++ showMat (c.csv opsF)
      ++ showStyle c.st.style)
  | .op o :: rest, c, out => exec view rest (step opsF o c) out

/-! aliasing probes: the heap model of `Style.Dashes` (CanvasModel/C15Heap.lean) -/

inductive HCmd
  | op (o : Heap.Op Float)
  | obs

partial def parseH : List String → Option (List HCmd)
  | [] => some []
  | "OB" :: ts => do pure (.obs :: (← parseH ts))
  | "AL" :: n :: ts => do
    let n ← nat? n
    if ts.length < n then none else
    pure (.op (.callerAlloc (← floats? (ts.take n))) :: (← parseH (ts.drop n)))
  | "W" :: arr :: i :: v :: ts => do pure (.op (.callerWrite (← nat? arr) (← nat? i) (← fl? v)) :: (← parseH ts))
  | "SD" :: off :: arr :: lo :: len :: ts => do
    pure (.op (.setDashes (← fl? off) ⟨← nat? arr, ← nat? lo, ← nat? len⟩) :: (← parseH ts))
  | "PU" :: ts => do pure (.op .push :: (← parseH ts))
  | "PO" :: ts => do pure (.op .pop :: (← parseH ts))
  | "RS" :: ts => do pure (.op .resetStyle :: (← parseH ts))
  | "DP" :: len :: ts => do pure (.op (.drawPath (← fl? len)) :: (← parseH ts))
  | _ => none

def showObs (s : Heap.State Float) : List String :=
  let ob := Heap.observe s
  ["O", toString ob.1.length] ++ ob.1.map hexOfFloat ++ ["L", toString ob.2.length] ++
    ob.2.flatMap (fun l => [toString l.1.length] ++ l.1.map hexOfFloat ++ [if l.2 then "1" else "0"])

def execH : List HCmd → Heap.State Float → List String → List String
  | [], _, out => out
  | .obs :: rest, s, out => execH rest s (out ++ showObs s)
  | .op o :: rest, s, out => execH rest (Heap.step 0.0 (drawDashes opsF 1.0) o s) out

def pairs? : Nat → List String → Option (List (Int × Nat) × List String)
  | 0, ts => some ([], ts)
  | n + 1, z :: fp :: ts => do
    let (ps, rest) ← pairs? n ts
    pure ((← parseInt? z, ← nat? fp) :: ps, rest)
  | _, _ => none

def nats? : List String → Option (List Nat)
  | [] => some []
  | t :: ts => do pure ((← nat? t) :: (← nats? ts))

def handle : List String → Option String
  | "V" :: n :: ts => do
    let (recorded, rest) ← pairs? (← nat? n) ts
    match rest with
    | m :: fps =>
      let replayed ← nats? fps
      if replayed.length ≠ (← nat? m) then none else
      pure (replayVerdict recorded replayed).show
    | [] => none
  | "A" :: ts => do
    let cmds ← parseH ts
    pure (String.intercalate " " (execH cmds (Heap.init 0.0) []))
  | "H" :: w :: h :: a :: b :: c :: d :: e :: f :: ts => do
    let view ← mat? [a, b, c, d, e, f]
    let cmds ← parse ts
    let ctx := newContext opsF (newCanvas (← fl? w) (← fl? h))
    pure (String.intercalate " " (exec view cmds ctx []))
  | _ => none

def main : IO Unit := runDriver handle
