import CanvasModel.Driver
import CanvasModel.C14
open Canvas
def handle : List String → Option String := Canvas.C14.handle
def main : IO Unit := runDriver handle
