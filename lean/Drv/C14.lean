import CanvasModel.Driver
import CanvasModel.C14
import CanvasGen.CoreF
open Canvas Canvas.C14

def parseMat (ts : List String) : Option (Mat Float) :=
  match ts.mapM floatOfHex? with
  | some [a, b, c, d, e, f] => some ⟨a, b, c, d, e, f⟩
  | _ => none

def fmtMat (m : Mat Float) : String :=
  " ".intercalate ([m.a, m.b, m.c, m.d, m.e, m.f].map hexOfFloat)

def identF : Mat Float := ⟨1.0, 0.0, 0.0, 0.0, 1.0, 0.0⟩

/--
  PIPE hpx dpmm view×6 m×6 x y   → the 26.6 point the scanner receives for canvas point (x, y) of a layer
                                   with matrix m rendered through RenderViewTo(view)
  CSV cs W H                     → Context.CoordSystemView as 6 floats (cs = 0..3)
-/
def handleAll : List String → Option String
  | "PIPE" :: hpx :: dpmm :: ts => do
    let hpx ← hpx.toInt?
    let d ← floatOfHex? dpmm
    let view ← parseMat (ts.take 6)
    let m ← parseMat ((ts.drop 6).take 6)
    match (ts.drop 12).mapM floatOfHex? with
    | some [x, y] =>
      let q := pipelinePt GenF.Matrix.Mul GenF.Matrix.Dot G.pixelX G.pixelY view m (Float.ofInt hpx) d ⟨x, y⟩
      match G.fixedPoint q.x, G.fixedPoint q.y with
      | some a, some b => pure s!"{a} {b}"
      | _, _ => pure "range"
    | _ => none
  | ["CSV", cs, w, h] => do
    let cs ← cs.toNat?
    let w ← floatOfHex? w
    let h ← floatOfHex? h
    pure (fmtMat (coordSystemView identF GenF.Matrix.ReflectXAbout GenF.Matrix.ReflectYAbout (w / 2.0) (h / 2.0) cs))
  | ts => Canvas.C14.handle ts
def main : IO Unit := runDriver handleAll
