import CanvasModel.Driver
import CanvasModel.C10
open Canvas
def main : IO Unit := runDriver Canvas.C10.handle
