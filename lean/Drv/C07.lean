import CanvasModel.Driver
import CanvasModel.C07
import CanvasGen.CoreF
import CanvasGen.BezierF
open Canvas Canvas.C07

/-- `math.Mod` for the magnitudes that occur here (|x| a few multiples of y): exact when the
quotient truncates to 0, otherwise accurate to an ulp of x. -/
def fmodF (x y : Float) : Float :=
  let q := x / y
  let qi := if q ≥ 0 then q.floor else q.ceil
  if qi == 0 then x else x - qi * y

/-- executable instance: the *generated* translations of `Equal` and of the `Matrix` methods, libm -/
instance : Ops Float where
  equal := GenF.Equal
  mmul := GenF.Matrix.Mul
  minv := GenF.Matrix.Inv
  mT := GenF.Matrix.T
  mdet := GenF.Matrix.Det
  mdot := GenF.Matrix.Dot
  mscale := GenF.Matrix.Scale
  mtranslate := GenF.Matrix.Translate
  decompose := GenF.Matrix.Decompose
  sqrt := Float.sqrt
  hypot := goHypot
  atan2 := Float.atan2
  sin := Float.sin
  cos := Float.cos
  abs := Float.abs
  fmod := fmodF
  pi := goPi
  nan := 0.0 / 0.0

def hexs (fs : List Float) : String := String.intercalate " " (fs.map hexOfFloat)

def optF : Option Float → Float
  | some x => x
  | none => 0.0 / 0.0

def matToks (m : Mat Float) : List Float := [m.a, m.b, m.c, m.d, m.e, m.f]

def mat? : List Float → Option (Mat Float)
  | [a, b, c, d, e, f] => some ⟨a, b, c, d, e, f⟩
  | _ => none

def b01 (b : Bool) : String := if b then "1" else "0"

/-- direction-free description of an ellipse: radii and `w·cos 2φ, w·sin 2φ` with the relative
eccentricity `w = (rx - ry)/(rx + ry)`; continuous in the ellipse, also through circles -/
def ellipseToks (rx ry : Float) (c2 s2 : Float) : List Float :=
  let w := (rx - ry) / (rx + ry)
  [rx, ry, w * c2, w * s2]

def arcToks (m : Mat Float) (rx ry : Float) (sc : Float × Float) : List Float × String :=
  match arcCore m rx ry sc with
  | some r => (ellipseToks r.rx r.ry (r.v.x * r.v.x - r.v.y * r.v.y) (2 * r.v.x * r.v.y), toString r.branch ++ (if r.swapped then "s" else "n"))
  | none => ([0.0 / 0.0, 0.0 / 0.0, 0.0 / 0.0, 0.0 / 0.0], "nan")

/-- commands of an `XF` line: `M x y`, `L x y`, `Z x y`, `Q 4`, `C 6`, `A rx ry phi sin cos large sweep x y` -/
partial def parseCmds : List String → Option (List (Cmd Float))
  | [] => some []
  | "M" :: x :: y :: rest => do
    let x ← floatOfHex? x; let y ← floatOfHex? y
    let cs ← parseCmds rest; pure (.M ⟨x, y⟩ :: cs)
  | "L" :: x :: y :: rest => do
    let x ← floatOfHex? x; let y ← floatOfHex? y
    let cs ← parseCmds rest; pure (.L ⟨x, y⟩ :: cs)
  | "Z" :: x :: y :: rest => do
    let x ← floatOfHex? x; let y ← floatOfHex? y
    let cs ← parseCmds rest; pure (.Z ⟨x, y⟩ :: cs)
  | "Q" :: a :: b :: x :: y :: rest => do
    let a ← floatOfHex? a; let b ← floatOfHex? b
    let x ← floatOfHex? x; let y ← floatOfHex? y
    let cs ← parseCmds rest; pure (.Q ⟨a, b⟩ ⟨x, y⟩ :: cs)
  | "C" :: a :: b :: c :: d :: x :: y :: rest => do
    let a ← floatOfHex? a; let b ← floatOfHex? b
    let c ← floatOfHex? c; let d ← floatOfHex? d
    let x ← floatOfHex? x; let y ← floatOfHex? y
    let cs ← parseCmds rest; pure (.C ⟨a, b⟩ ⟨c, d⟩ ⟨x, y⟩ :: cs)
  | "A" :: rx :: ry :: phi :: s :: c :: large :: sweep :: x :: y :: rest => do
    let rx ← floatOfHex? rx; let ry ← floatOfHex? ry; let phi ← floatOfHex? phi
    let s ← floatOfHex? s; let c ← floatOfHex? c
    let x ← floatOfHex? x; let y ← floatOfHex? y
    let cs ← parseCmds rest; pure (.A rx ry phi (s, c) (large == "1") (sweep == "1") ⟨x, y⟩ :: cs)
  | _ => none

def cmdToks : Cmd Float → String
  | .M p => "M " ++ hexs [p.x, p.y]
  | .L p => "L " ++ hexs [p.x, p.y]
  | .Z p => "Z " ++ hexs [p.x, p.y]
  | .Q a p => "Q " ++ hexs [a.x, a.y, p.x, p.y]
  | .C a b p => "C " ++ hexs [a.x, a.y, b.x, b.y, p.x, p.y]
  | .A rx ry _ sc large sweep p =>
    -- sc = (v.y, v.x) of the unit axis vector
    "A " ++ hexs (ellipseToks rx ry (sc.2 * sc.2 - sc.1 * sc.1) (2 * sc.2 * sc.1)) ++ " " ++ b01 large ++ " " ++ b01 sweep
      ++ " " ++ hexs [p.x, p.y]

def svgOps? : List String → Option (List (SvgOp Float))
  | [] => some []
  | "t" :: x :: y :: rest => do
    let x ← floatOfHex? x; let y ← floatOfHex? y
    let r ← svgOps? rest; pure (.translate x y :: r)
  | "r" :: a :: rest => do
    let a ← floatOfHex? a
    let r ← svgOps? rest; pure (.rotate a :: r)
  | "s" :: x :: y :: rest => do
    let x ← floatOfHex? x; let y ← floatOfHex? y
    let r ← svgOps? rest; pure (.scale x y :: r)
  | "m" :: a :: b :: c :: d :: e :: f :: rest => do
    let a ← floatOfHex? a; let b ← floatOfHex? b; let c ← floatOfHex? c
    let d ← floatOfHex? d; let e ← floatOfHex? e; let f ← floatOfHex? f
    let r ← svgOps? rest; pure (.matrix a b c d e f :: r)
  | _ => none

def svgOpTag : SvgOp Float → String
  | .translate _ _ => "t" | .rotate _ => "r" | .scale _ _ => "s" | .matrix .. => "m"

def maxAbsDiff (p q : Mat Float) : Float :=
  let d := fun (x y : Float) => (x - y).abs
  [d p.a q.a, d p.b q.b, d p.c q.c, d p.d q.d, d p.e q.e, d p.f q.f].foldl (fun a b => if a < b || b.isNaN then b else a) 0.0

def matSize (m : Mat Float) : Float :=
  m.a.abs + m.b.abs + m.c.abs + m.d.abs + m.e.abs + m.f.abs

def handle : List String → Option String
  | "L1" :: name :: args => (GenF.dispatchCore name args) <|> (GenF.dispatchBezier name args)
  | "ROT" :: toks => do
    let fs ← toks.mapM floatOfHex?
    let m ← mat? (fs.take 6)
    let rot ← fs[6]?
    pure (hexs (matToks (rotate m rot)))
  | "ROTA" :: toks => do
    let fs ← toks.mapM floatOfHex?
    let m ← mat? (fs.take 6)
    pure (hexs (matToks (rotateAbout m (← fs[6]?) (← fs[7]?) (← fs[8]?))))
  | ["SQ", a, b, c] => do
    let r := solveQuadratic (← floatOfHex? a) (← floatOfHex? b) (← floatOfHex? c)
    pure (hexs [optF r.1, optF r.2])
  | "EIGL" :: toks => do
    let m ← mat? (← toks.mapM floatOfHex?)
    let e := eigen m
    pure (hexs [optF e.l1, optF e.l2] ++ " " ++ toString e.branch)
  | "EIGV" :: toks => do
    let m ← mat? (← toks.mapM floatOfHex?)
    let e := eigen m
    pure (hexs [e.v1.x, e.v1.y, e.v2.x, e.v2.y])
  | ["NORM1", x, y] => do
    let r := norm1 (⟨← floatOfHex? x, ← floatOfHex? y⟩ : Pt Float)
    pure (hexs [r.x, r.y])
  | ["ANGLE", x, y] => do
    pure (hexs [angle (⟨← floatOfHex? x, ← floatOfHex? y⟩ : Pt Float)])
  | ["ANORM", t] => do
    pure (hexs [angleNorm (← floatOfHex? t)])
  | "ARC" :: toks => do
    -- m(6) rx ry phi sin cos large sweep ex ey
    let fs ← (toks.take 11).mapM floatOfHex?
    let m ← mat? (fs.take 6)
    let rx ← fs[6]?; let ry ← fs[7]?; let s ← fs[9]?; let c ← fs[10]?
    let large ← toks[11]?; let sweep ← toks[12]?
    let ex ← floatOfHex? (← toks[13]?); let ey ← floatOfHex? (← toks[14]?)
    let (et, br) := arcToks m rx ry (s, c)
    let sw := if flips m then sweep != "1" else sweep == "1"
    let e := GenF.Matrix.Dot m ⟨ex, ey⟩
    pure (hexs et ++ " " ++ large ++ " " ++ b01 sw ++ " " ++ hexs [e.x, e.y] ++ " " ++ br)
  | "XF" :: toks => do
    let m ← mat? (← (toks.take 6).mapM floatOfHex?)
    let cs ← parseCmds (toks.drop 6)
    pure (String.intercalate " " ((transform m cs).map cmdToks))
  | "DEC" :: toks => do
    -- verdict: m(6) tol, the six results of the real Decompose: recomposition must give m back
    let fs ← toks.mapM floatOfHex?
    let m ← mat? (fs.take 6)
    let tol ← fs[6]?
    match fs.drop 7 with
    | [tx, ty, phi, sx, sy, theta] =>
      let r := recompose (tx, ty, phi, sx, sy, theta)
      let d := maxAbsDiff r m
      if d ≤ tol * (1 + matSize m) then pure "ok" else pure ("FAIL recompose " ++ hexs (matToks r))
    | _ => none
  | "SVG" :: h :: toks => do
    -- verdict: h m(6) tol, then the operations parsed from the string the real ToSVG returned
    let h ← floatOfHex? h
    let m ← mat? (← (toks.take 6).mapM floatOfHex?)
    let tol ← floatOfHex? (← toks[6]?)
    let ops ← svgOps? (toks.drop 7)
    -- the empty string stands for "no transformation" (svgInterp [] = identity)
    let got := svgInterp ops
    let want := svgTarget m h
    let wantNoH := svgTarget m 0
    let shape := if ops.isEmpty then "empty" else String.join (ops.map svgOpTag)
    if maxAbsDiff got want ≤ tol * (1 + matSize want) then pure ("ok " ++ shape)
    else if maxAbsDiff got wantNoH ≤ tol * (1 + matSize want) then pure ("FAIL height-dropped " ++ shape)
    else pure ("FAIL svg-transform " ++ shape ++ " " ++ hexs (matToks got))
  | "ARCV" :: toks => do
    -- verdict on what the real Path.Transform returned for one arc:
    -- m(6) rx ry c s large sweep ex ey | rx' ry' c' s' large' sweep' ex' ey' | rel
    let t := toks.toArray
    if t.size != 23 then none else
    let m ← mat? (← (toks.take 6).mapM floatOfHex?)
    let r? := fun (i : Nat) => ratOfHex? t[i]!
    if t[14]! == "7ff8000000000001" || t[15]! == "7ff8000000000001" then pure "FAIL nan-radii" else
    -- flags: large is kept, sweep flips exactly for orientation-reversing maps (sign of the exact determinant)
    let det := (← r? 0) * (← r? 4) - (← r? 1) * (← r? 3)
    let wantSweep := if det < 0 then t[11]! != "1" else t[11]! == "1"
    if t[18]! != t[10]! || (t[19]! == "1") != wantSweep then pure "FAIL flags" else
    -- end point: m.Dot(end), bit for bit
    let e := GenF.Matrix.Dot m ⟨← floatOfHex? t[12]!, ← floatOfHex? t[13]!⟩
    if hexOfFloat e.x != t[20]! || hexOfFloat e.y != t[21]! then pure "FAIL endpoint" else
    pure (arcVerdict (← r? 0) (← r? 1) (← r? 3) (← r? 4) (← r? 6) (← r? 7) (← r? 8) (← r? 9)
      (← r? 14) (← r? 15) (← r? 16) (← r? 17) (← r? 22))
  | _ => none

def main : IO Unit := runDriver handle
