import CanvasModel.Driver
import CanvasGen.CoreF
import CanvasGen.BezierF
open Canvas
def handle : List String → Option String
  | "L1" :: name :: args => (GenF.dispatchCore name args) <|> (GenF.dispatchBezier name args)
  | _ => none
def main : IO Unit := runDriver handle
