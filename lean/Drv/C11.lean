import CanvasModel.Driver
import CanvasModel.C11
import CanvasModel.C11.Builder
import CanvasModel.C11.Number
/-!
C11 model driver.
  P  <hexbytes|->                      byte-level ParseSVGPath model:  ok <data…> | err k cmd pos n | panic | fuel
  LX <hexbytes|->                      number lexer model:             <value> <len>
  NUM <prec> <x> <hexbytes>            verdict in exact arithmetic on what num(x) printed: ok | bad reasons…
  DEC <prec> <x> <hexbytes>            same for dec(x)
  STR <tol> <data…> | <tokens…>        L3: interpret the tokens of String() (cX nHEX f0 f1): every command must come back
  SVG <tol> <data…> | <tokens…>        L3: the tokens of ToSVG(): zero-length lines may be missing, radii may be swapped
  PDF <tol> <data…> | <tokens…>        L3: PDF operators (nHEX oNAME)
  PS  <tol> <data…> | <tokens…>        L3: PostScript operators
-/
open Canvas Canvas.C11

def hexBytes? (s : String) : Option (List Nat) :=
  if s == "-" then some [] else
  let cs := s.toList
  let rec go : List Char → List Nat → Option (List Nat)
    | [], acc => some acc.reverse
    | [_], _ => none
    | a :: b :: r, acc => match hexDigit? a, hexDigit? b with
      | some x, some y => go r ((x * 16 + y) :: acc)
      | _, _ => none
  go cs []

def showData (d : Array Float) : String :=
  d.foldl (fun acc f => acc ++ " " ++ hexOfFloat f) ""

def showRes (r : Res (Array Float)) : String :=
  match r with
  | .ok d => "ok" ++ showData d
  | .err e => s!"err {if e.kind == 5 then 2 else e.kind} {e.cmd} {e.pos} {e.n}"  -- kinds 2 and 5 share one message
  | .panic => "panic"
  | .fuel => "fuel"

/-! ### decoding a data array into commands -/

def cmdsOfData : Nat → List Float → Option (List (Cmd Float))
  | 0, _ => none
  | _, [] => some []
  | fuel + 1, c :: r =>
    let tail := fun (k : Nat) (cmd : Cmd Float) => (cmdsOfData fuel (r.drop k)).map (cmd :: ·)
    match r with
    | x :: y :: c' :: _ =>
      if c == 1.0 && c' == 1.0 then tail 3 (.move x y)
      else if c == 2.0 && c' == 2.0 then tail 3 (.line x y)
      else if c == 32.0 && c' == 32.0 then tail 3 (.close x y)
      else match r with
        | a :: b :: x :: y :: c' :: _ =>
          if c == 4.0 && c' == 4.0 then tail 5 (.quad a b x y)
          else match r with
            | a :: b :: cc :: d :: x :: y :: c' :: _ =>
              if c == 8.0 && c' == 8.0 then tail 7 (.cube a b cc d x y)
              else if c == 16.0 && c' == 16.0 then tail 7 (.arc a b cc (d == 1.0 || d == 3.0) (d == 2.0 || d == 3.0) x y)
              else none
            | _ => none
        | _ => none
    | _ => none

def splitBar (ws : List String) : List String × List String :=
  (ws.takeWhile (· ≠ "|"), (ws.dropWhile (· ≠ "|")).drop 1)

def floats? (ws : List String) : Option (List Float) := ws.mapM floatOfHex?

def svgTok? (w : String) : Option (Tok Float) :=
  match w.toList with
  | 'c' :: [c] => some (.cmd c)
  | 'f' :: ['0'] => some (.flag false)
  | 'f' :: ['1'] => some (.flag true)
  | 'n' :: r => (floatOfHex? (String.ofList r)).map .num
  | _ => none

def oTok? (w : String) : Option (OTok Float) :=
  match w.toList with
  | 'n' :: r => (floatOfHex? (String.ofList r)).map .num
  | 'o' :: r => some (.op (String.ofList r))
  | _ => none

/-! ### judging decoded segments against the data array (tolerance `tol·(1+|v|)` per number) -/

def fmax (a b : Float) : Float := if a < b then b else a
def fmin (a b : Float) : Float := if a < b then a else b
def close? (tol a b : Float) : Bool := (a - b).abs <= tol * (1.0 + fmax a.abs b.abs)

/-- start points: relative tolerance plus the absolute error inherited from a preceding centre-form arc -/
def closeS (tol carry a b : Float) : Bool := (a - b).abs <= tol * (1.0 + fmax a.abs b.abs) + carry

def deg (r : Float) : Float := r * 180.0 / goPi

/-- point of the ellipse (centre form, angles in degrees) -/
def ellipsePt (cx cy rx ry a rot : Float) : Float × Float :=
  let t := a * goPi / 180.0
  let p := rot * goPi / 180.0
  let ex := rx * Float.cos t
  let ey := ry * Float.sin t
  (cx + Float.cos p * ex - Float.sin p * ey, cy + Float.sin p * ex + Float.cos p * ey)

/-- two directed ellipse axes describe the same ellipse: equal, or radii swapped with a quarter turn -/
def sameEllipse (tol rx ry rot rx' ry' rot' : Float) : Bool :=
  -- a rotation error of d degrees moves points of the ellipse by at most |rx-ry|·d·π/180
  let dr := fun (a b : Float) =>
    let d := FB.fmod ((a - b).abs) 180.0
    (rx - ry).abs * (fmin d (180.0 - d)) * goPi / 180.0 <= 4.0 * tol * (1.0 + rx)
  (close? tol rx rx' && close? tol ry ry' && (close? tol rx ry || dr rot rot'))
  || (close? tol rx ry' && close? tol ry rx' && (close? tol rx ry || dr rot (rot' + 90.0)))

/-- `ts` is an absolute allowance for a segment's start point: in PostScript a segment starts at the
current point, which after an `ellipse` is where the printed centre form ends -/
def arcAllowance (tol cx cy rx ry : Float) : Float := 4.0 * tol * (1.0 + cx.abs + cy.abs + 16.0 * fmax rx ry)

def segClose (tol ts : Float) : Seg Float → Seg Float → Bool
  | .move x y, .move x' y' => close? tol x x' && close? tol y y'
  | .line a b x y, .line a' b' x' y' => closeS tol ts a a' && closeS tol ts b b' && close? tol x x' && close? tol y y'
  | .close a b x y, .close a' b' x' y' => closeS tol ts a a' && closeS tol ts b b' && close? tol x x' && close? tol y y'
  | .quad a b c d x y, .quad a' b' c' d' x' y' =>
    closeS tol ts a a' && closeS tol ts b b' && close? tol c c' && close? tol d d' && close? tol x x' && close? tol y y'
  | .cube a b c d e f x y, .cube a' b' c' d' e' f' x' y' =>
    closeS tol ts a a' && closeS tol ts b b' && close? tol c c' && close? tol d d' && close? tol e e' && close? tol f f'
      && close? tol x x' && close? tol y y'
  | .arc a b rx ry rot l s x y, .arc a' b' rx' ry' rot' l' s' x' y' =>
    closeS tol ts a a' && closeS tol ts b b' && close? tol x x' && close? tol y y' && l == l' && s == s'
      && sameEllipse tol rx ry rot rx' ry' rot'
  /- expected endpoint arc vs decoded centre arc: same radii/rotation, direction = sweep, the centre
     form starts at the current point and ends at the end point, and its extent matches `large` -/
  | .arc a b rx ry rot l s x y, .arcC cx cy rx' ry' a0 a1 rot' ccw =>
    let p0 := ellipsePt cx cy rx' ry' a0 rot'
    let p1 := ellipsePt cx cy rx' ry' a1 rot'
    -- printed centre, radii and angles (Precision significant digits each) move the end points by
    -- at most tol·(|c| + r·(1 + |angle| in radians)); angles are below 720°
    let t := arcAllowance tol cx cy rx' ry' + ts
    close? tol rx rx' && close? tol ry ry' && sameEllipse tol rx ry rot rx' ry' rot' && ccw == s
      && (p0.1 - a).abs <= t && (p0.2 - b).abs <= t && (p1.1 - x).abs <= t && (p1.2 - y).abs <= t
      && (if s then a0 <= a1 else a1 <= a0)
      && ((a1 - a0).abs <= 360.0 + 1e-6)
      && (((a1 - a0).abs - 180.0).abs <= 1e-4 || (decide ((a1 - a0).abs > 180.0)) == l)
  | _, _ => false

def segsClose (tol ts : Float) : List (Seg Float) → List (Seg Float) → Option String
  | [], [] => none
  | a :: as, b :: bs =>
    let ts' := match b with
      | .arcC cx cy rx ry _ _ _ _ => ts + arcAllowance tol cx cy rx ry
      | .move _ _ => 0.0
      | _ => ts
    if segClose tol ts a b then segsClose tol ts' as bs else some s!"segment {as.length} from the end differs: want {((repr a).pretty 100000).replace "\n" " "} got {((repr b).pretty 100000).replace "\n" " "}"
  | _, _ => some "segment count differs"

/-- what ToSVG may drop: zero-length lines (`Equal` on both coordinates) -/
def dropNullLines (tol : Float) : (Float × Float) → List (Cmd Float) → List (Cmd Float)
  | _, [] => []
  | cur, c :: cs =>
    match c with
    | .line x y => if (x - cur.1).abs <= tol && (y - cur.2).abs <= tol then dropNullLines tol cur cs else c :: dropNullLines tol (x, y) cs
    | c => c :: dropNullLines tol c.endPt cs

def degArcs (cs : List (Cmd Float)) : List (Cmd Float) :=
  cs.map fun c => match c with
    | .arc rx ry phi l s x y => .arc rx ry (deg phi) l s x y
    | c => c

def elevQuads : (Float × Float) → List (Cmd Float) → List (Cmd Float)
  | _, [] => []
  | cur, c :: cs =>
    (match c with
      | .quad a b x y =>
        let ip := fun (p q : Float) => p + (q - p) * (2.0 / 3.0)
        .cube (ip cur.1 a) (ip cur.2 b) (ip x a) (ip y b) x y
      | c => c) :: elevQuads c.endPt cs

def judge (tol ts : Float) (expected : List (Seg Float)) (got : Option (List (Seg Float))) : String :=
  match got with
  | none => "bad interpreter-rejects"
  | some g => match segsClose tol ts expected g with
    | none => "ok"
    | some m => "bad " ++ m

def arcEndF (cx cy rx ry a1 rot : Float) : Float × Float := ellipsePt cx cy rx ry a1 rot

def handle : List String → Option String
  | ["P", h] => do
    let b ← hexBytes? h
    pure (showRes (parseSVGPath lexFloat FB.floatNum FB.builder b))
  | ["LX", h] => do
    let b ← hexBytes? h
    let r := lexFloat b
    pure s!"{hexOfFloat r.1} {r.2}"
  | "SVG" :: tolS :: rest => do
    let tol ← floatOfHex? tolS
    let (ds, ts) := splitBar rest
    let data ← floats? ds
    let cmds ← cmdsOfData (data.length + 1) data
    let toks ← ts.mapM svgTok?
    let expected := segsFrom (0.0, 0.0) (dropNullLines 1e-10 (0.0, 0.0) (degArcs cmds))
    pure (judge tol 0.0 expected (svgInterp (· + ·) (fun p c => 2.0 * p - c) 0.0 toks))
  | ["NUM", prec, xh, h] => do
    let x ← floatOfHex? xh
    let b ← hexBytes? h
    pure (checkPrinted (numBound (← prec.toNat?)) x b).show
  | ["DEC", prec, xh, h] => do
    let x ← floatOfHex? xh
    let b ← hexBytes? h
    pure (decShow (checkPrinted (decBound (← prec.toNat?)) x b) b)
  | "STR" :: tolS :: rest => do
    let tol ← floatOfHex? tolS
    let (ds, ts) := splitBar rest
    let data ← floats? ds
    let cmds ← cmdsOfData (data.length + 1) data
    let toks ← ts.mapM svgTok?
    pure (judge tol 0.0 (segsFrom (0.0, 0.0) (degArcs cmds)) (svgInterp (· + ·) (fun p c => 2.0 * p - c) 0.0 toks))
  | "PDF" :: tolS :: rest => do
    let tol ← floatOfHex? tolS
    let (ds, ts) := splitBar rest
    let data ← floats? ds
    let cmds ← cmdsOfData (data.length + 1) data
    let toks ← ts.mapM oTok?
    let expected := segsFrom (0.0, 0.0) (elevQuads (0.0, 0.0) cmds)
    pure (judge tol 0.0 expected (opInterp (pdfOp (· + ·)) 0.0 toks))
  | "PS" :: tolS :: rest => do
    let tol ← floatOfHex? tolS
    let (ds, ts) := splitBar rest
    let data ← floats? ds
    let cmds ← cmdsOfData (data.length + 1) data
    let toks ← ts.mapM oTok?
    let expected := segsFrom (0.0, 0.0) (elevQuads (0.0, 0.0) (degArcs cmds))
    pure (judge tol 0.0 expected (opInterp (psOp arcEndF) 0.0 toks))
  | _ => none

def main : IO Unit := runDriver handle
