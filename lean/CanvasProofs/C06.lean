import CanvasModel.C06
import CanvasProofs.Lemmas.Wn

/-! # C06 — Containment and winding queries (partial)

`windings(zs)` is modelled by hand (tied by exhaustive correspondence over all intersection lists
of length ≤ 4 and random longer ones through hook VerifWindings). Proved: exactly which lists make
the look-ahead read past the end (a panic in the real code — and a witness that such a list is
produced for open subpaths), the generic case (no endpoint hits) is the signed crossing count, the
vertex-pair rule, boundary reporting, and reversal negates the specification's winding number.
Whole queries (Windings, Crossings, Contains, CCW, Filling) are refined against the exact
specification / independent oracles. -/
namespace C06
open Canvas Canvas.C06 Canvas.Wn

/-- endpoint hits come in adjacent pairs (what RayIntersections produces for closed subpaths);
`pending` = the previous element was an endpoint hit that still awaits its partner -/
def pairedAux : Bool → List Z → Bool
  | false, [] => true
  | true, [] => false
  | true, _ :: rest => pairedAux false rest
  | false, z :: rest =>
    if z.t0zero then pairedAux false rest
    else if !z.endpoint then pairedAux false rest
    else if rest.isEmpty && z.same then true   -- `z.Same || zs[i+1].Same` short-circuits
    else pairedAux true rest

def Paired (zs : List Z) : Prop := pairedAux false zs = true

/-- The look-ahead `zs[i+1]` leaves the list exactly when endpoint hits are not paired. -/
theorem go_panic_iff (zs : List Z) (n : Int) (b : Bool) (st : Bool × Bool) :
    go zs n b st = .panic ↔ ¬ Paired zs := by
  unfold Paired
  fun_induction go zs n b st <;> simp_all [pairedAux]

/-- totality of `windings` on paired lists -/
theorem windings_total (zs : List Z) (h : Paired zs) : windings zs ≠ .panic := by
  intro hp
  exact (go_panic_iff zs 0 false (false, false)).mp hp h

/-- and the defect: a single endpoint hit (what an OPEN subpath yields when the query point is
level with its first or last vertex) makes the real code index out of range -/
theorem windings_panics_on_unpaired_endpoint :
    windings [⟨false, false, true, false⟩] = .panic := by
  simp [windings, go]

/-- A path that comes from above, runs along the ray on a horizontal edge and leaves downwards
(hits: overlap end point + tangent end point, twice, both `into`) passes through the ray once and is
counted once, downwards; if it leaves the way it came (a U shape) nothing is counted. (Before /repo
commit "fix: windings counts a path that steps through the ray along a horizontal edge" both cases
counted nothing: L-shaped polygons were misjudged.) -/
theorem windings_horizontal_step :
    windings [⟨false, false, true, true⟩, ⟨false, true, true, false⟩,
              ⟨false, false, true, true⟩, ⟨false, true, true, false⟩] = .ok (-1) false ∧
    windings [⟨false, false, true, true⟩, ⟨false, true, true, false⟩,
              ⟨false, false, true, true⟩, ⟨false, false, true, false⟩] = .ok 0 false := by
  constructor <;> simp [windings, go]

/-- general form: entering an overlapping section with direction `e` and leaving it with direction
`l` (each end given as an overlap hit paired with a non-overlap end-point hit, in either order) adds
the crossing iff `e = l`. -/
theorem windings_overlap_section (z1 z2 z3 z4 : Z) (rest : List Z) (n : Int) (b : Bool) (st2 : Bool)
    (h1 : z1.t0zero = false ∧ z1.endpoint = true) (h3 : z3.t0zero = false ∧ z3.endpoint = true)
    (hs12 : z1.same ≠ z2.same) (hs34 : z3.same ≠ z4.same) :
    go (z1 :: z2 :: z3 :: z4 :: rest) n b (false, st2) =
      go rest (let e := if z1.same then z2.into else z1.into
               let l := if z3.same then z4.into else z3.into
               if l = e then (if l then n - 1 else n + 1) else n) b
        (false, if z1.same then z2.into else z1.into) := by
  have e1 : (z1.same || z2.same) = true := by cases h : z1.same <;> cases h' : z2.same <;> simp_all
  have e3 : (z3.same || z4.same) = true := by cases h : z3.same <;> cases h' : z4.same <;> simp_all
  have n12 : (z1.same != z2.same) = true := by cases h : z1.same <;> cases h' : z2.same <;> simp_all
  have n34 : (z3.same != z4.same) = true := by cases h : z3.same <;> cases h' : z4.same <;> simp_all
  simp only [go, h1.1, h1.2, h3.1, h3.2, e1, e3, n12, n34, Bool.false_eq_true, if_false, Bool.not_true,
    Bool.not_false, if_true]
  simp

def crossingSum : List Z → Int
  | [] => 0
  | z :: rest => dir z + crossingSum rest

theorem go_generic (zs : List Z) (n : Int) (b : Bool) (st : Bool × Bool)
    (h : ∀ z ∈ zs, z.t0zero = false ∧ z.endpoint = false ∧ z.same = false) :
    go zs n b st = .ok (n + crossingSum zs) b := by
  induction zs generalizing n with
  | nil => simp [go, crossingSum]
  | cons z rest ih =>
    have hz := h z (by simp)
    have hr : ∀ z ∈ rest, z.t0zero = false ∧ z.endpoint = false ∧ z.same = false :=
      fun z hz => h z (by simp [hz])
    rw [go.eq_def]
    simp only [hz.1, hz.2.1, hz.2.2, Bool.false_eq_true, if_false, Bool.not_false, if_true]
    rw [ih _ hr]
    simp only [crossingSum]
    congr 1; omega

/-- Generic case (no hit at a vertex, on an overlap or at the ray start): the result is the signed
number of crossings, +1 for each upward and −1 for each downward crossing, and not a boundary. -/
theorem windings_generic (zs : List Z)
    (h : ∀ z ∈ zs, z.t0zero = false ∧ z.endpoint = false ∧ z.same = false) :
    windings zs = .ok (crossingSum zs) false := by
  have := go_generic zs 0 false (false, false) h
  simpa [windings] using this

/-- Vertex-pair rule: two consecutive end-point hits (the two segments meeting at a vertex on the
ray) count once iff the path passes through the ray there (both go the same way), and not at all if
it only touches it; overlapping (horizontal) hits are ignored. -/
theorem windings_vertex_pair (z z2 : Z) (rest : List Z) (n : Int) (b : Bool) (st : Bool × Bool)
    (h0 : z.t0zero = false) (he : z.endpoint = true) (hs : (z.same || z2.same) = false) :
    go (z :: z2 :: rest) n b st =
      go rest (if z.into = z2.into then n + dir z else n) b st := by
  simp only [go, h0, he, hs, Bool.false_eq_true, if_false, Bool.not_true, Bool.not_false, if_true]
  congr 1
  by_cases hi : z.into = z2.into <;> simp_all

theorem go_boundary_mono (zs : List Z) (n : Int) (b : Bool) (st : Bool × Bool) (hb : b = true) :
    ∀ m b', go zs n b st = .ok m b' → b' = true := by
  fun_induction go zs n b st <;> simp_all

/-- A hit at the ray's start (the query point lies on the path) is reported as boundary. -/
theorem windings_boundary_reported (z : Z) (rest : List Z) (h : z.t0zero = true) (m : Int) (b' : Bool)
    (hr : windings (z :: rest) = .ok m b') : b' = true := by
  simp only [windings] at hr
  rw [go.eq_def] at hr
  simp only [h, if_true] at hr
  exact go_boundary_mono rest 0 true (false, false) rfl m b' hr

/-- Reverse negates the winding number of the specification around every point. -/
theorem reverse_negates (p : IPt) (polys : List (List IPt)) :
    wn p (polys.map List.reverse) = - wn p polys := wn_reverse p polys

/-- non-vacuity: a paired list exists and is evaluated -/
example : windings [⟨false, false, true, false⟩, ⟨false, false, true, false⟩, ⟨false, true, false, false⟩] = .ok 0 false := by
  simp [windings, go, dir]

end C06
