import CanvasModel.C06Proto
import CanvasProofs.Lemmas.Wn
import CanvasProofs.Lemmas.C06Path
import CanvasProofs.Lemmas.C06Boundary
import CanvasProofs.Lemmas.C06Cross
import CanvasGen.SweepF

/-! # C06 — Containment and winding queries (partial)

`windings(zs)` is modelled by hand (tied by exhaustive correspondence over all intersection lists
of length ≤ 4 and random longer ones through hook VerifWindings); since 0cf6beb it is total.
`RayIntersections` on flat subpaths is modelled in exact arithmetic (`rayHits`: the hits of every
segment with their flags, pre-checks, the rotation of the start vertex' end hit at Close (847036a),
stable sort by X; tied by exact correspondence of the real hit lists) and `windings ∘ rayHits` is
PROVED to be the winding number of the specification for every closed flat subpath and every point
off the path — rays through vertices, through the start vertex, along horizontal edges, and arbitrary
self-intersections included. On top: the boundary flag, Windings/Contains of a whole path, Filling's
inner loop, Crossings' count, CCW's vertex search and angle test (CCW = sign of the area for
triangles), FillRule.Fills as translated from source, and soundness of the Lean verdict that judges
the real library's answers. -/
namespace C06
open Canvas Canvas.C06 Canvas.Wn

/-- Since 0cf6beb `windings` is total: an end-point hit that is the last of the list (end point of an
open subpath, nothing to pair it with) stops the loop and counts nothing. (Before, the look-ahead
`zs[i+1]` left the list: index-out-of-range panic.) -/
theorem windings_unpaired_endpoint_ignored (z : Z) (n : Int) (b : Bool) (st : Bool × Bool)
    (h0 : z.t0zero = false) (he : z.endpoint = true) : go [z] n b st = .ok n b := by
  simp [go, h0, he]

/-- A path that comes from above, runs along the ray on a horizontal edge and leaves downwards
(hits: overlap end point + tangent end point, twice, both `into`) passes through the ray once and is
counted once, downwards; if it leaves the way it came (a U shape) nothing is counted. (Before /repo
commit "fix: windings counts a path that steps through the ray along a horizontal edge" both cases
counted nothing: L-shaped polygons were misjudged.) -/
theorem windings_horizontal_step :
    windings [⟨false, false, true, true⟩, ⟨false, true, true, false⟩,
              ⟨false, false, true, true⟩, ⟨false, true, true, false⟩] = .ok (-1) false ∧
    windings [⟨false, false, true, true⟩, ⟨false, true, true, false⟩,
              ⟨false, false, true, true⟩, ⟨false, false, true, false⟩] = .ok 0 false := by
  constructor <;> simp [windings, go]

/-- general form: entering an overlapping section with direction `e` and leaving it with direction
`l` (each end given as an overlap hit paired with a non-overlap end-point hit, in either order) adds
the crossing iff `e = l`. -/
theorem windings_overlap_section (z1 z2 z3 z4 : Z) (rest : List Z) (n : Int) (b : Bool) (st2 : Bool)
    (h1 : z1.t0zero = false ∧ z1.endpoint = true) (h3 : z3.t0zero = false ∧ z3.endpoint = true)
    (hs12 : z1.same ≠ z2.same) (hs34 : z3.same ≠ z4.same) :
    go (z1 :: z2 :: z3 :: z4 :: rest) n b (false, st2) =
      go rest (let e := if z1.same then z2.into else z1.into
               let l := if z3.same then z4.into else z3.into
               if l = e then (if l then n - 1 else n + 1) else n) b
        (false, if z1.same then z2.into else z1.into) := by
  have e1 : (z1.same || z2.same) = true := by cases h : z1.same <;> cases h' : z2.same <;> simp_all
  have e3 : (z3.same || z4.same) = true := by cases h : z3.same <;> cases h' : z4.same <;> simp_all
  have n12 : (z1.same != z2.same) = true := by cases h : z1.same <;> cases h' : z2.same <;> simp_all
  have n34 : (z3.same != z4.same) = true := by cases h : z3.same <;> cases h' : z4.same <;> simp_all
  simp only [go, h1.1, h1.2, h3.1, h3.2, e1, e3, n12, n34, Bool.false_eq_true, if_false, Bool.not_true,
    Bool.not_false, if_true]
  simp

def crossingSum : List Z → Int
  | [] => 0
  | z :: rest => dir z + crossingSum rest

theorem go_generic (zs : List Z) (n : Int) (b : Bool) (st : Bool × Bool)
    (h : ∀ z ∈ zs, z.t0zero = false ∧ z.endpoint = false ∧ z.same = false) :
    go zs n b st = .ok (n + crossingSum zs) b := by
  induction zs generalizing n with
  | nil => simp [go, crossingSum]
  | cons z rest ih =>
    have hz := h z (by simp)
    have hr : ∀ z ∈ rest, z.t0zero = false ∧ z.endpoint = false ∧ z.same = false :=
      fun z hz => h z (by simp [hz])
    rw [go.eq_def]
    simp only [hz.1, hz.2.1, hz.2.2, Bool.false_eq_true, if_false, Bool.not_false, if_true]
    rw [ih _ hr]
    simp only [crossingSum]
    congr 1; omega

/-- Generic case (no hit at a vertex, on an overlap or at the ray start): the result is the signed
number of crossings, +1 for each upward and −1 for each downward crossing, and not a boundary. -/
theorem windings_generic (zs : List Z)
    (h : ∀ z ∈ zs, z.t0zero = false ∧ z.endpoint = false ∧ z.same = false) :
    windings zs = .ok (crossingSum zs) false := by
  have := go_generic zs 0 false (false, false) h
  simpa [windings] using this

/-- Vertex-pair rule: two consecutive end-point hits (the two segments meeting at a vertex on the
ray) count once iff the path passes through the ray there (both go the same way), and not at all if
it only touches it; overlapping (horizontal) hits are ignored. -/
theorem windings_vertex_pair (z z2 : Z) (rest : List Z) (n : Int) (b : Bool) (st : Bool × Bool)
    (h0 : z.t0zero = false) (he : z.endpoint = true) (hs : (z.same || z2.same) = false) :
    go (z :: z2 :: rest) n b st =
      go rest (if z.into = z2.into then n + dir z else n) b st := by
  simp only [go, h0, he, hs, Bool.false_eq_true, if_false, Bool.not_true, Bool.not_false, if_true]
  congr 1
  by_cases hi : z.into = z2.into <;> simp_all

theorem go_boundary_mono (zs : List Z) (n : Int) (b : Bool) (st : Bool × Bool) (hb : b = true) :
    ∀ m b', go zs n b st = .ok m b' → b' = true := by
  fun_induction go zs n b st <;> simp_all

/-- A hit at the ray's start (the query point lies on the path) is reported as boundary. -/
theorem windings_boundary_reported (z : Z) (rest : List Z) (h : z.t0zero = true) (m : Int) (b' : Bool)
    (hr : windings (z :: rest) = .ok m b') : b' = true := by
  simp only [windings] at hr
  rw [go.eq_def] at hr
  simp only [h, if_true] at hr
  exact go_boundary_mono rest 0 true (false, false) rfl m b' hr

/-- Reverse negates the winding number of the specification around every point. -/
theorem reverse_negates (p : IPt) (polys : List (List IPt)) :
    wn p (polys.map List.reverse) = - wn p polys := wn_reverse p polys

/-- non-vacuity: a paired list exists and is evaluated -/
example : windings [⟨false, false, true, false⟩, ⟨false, false, true, false⟩, ⟨false, true, false, false⟩] = .ok 0 false := by
  simp [windings, go, dir]


/-! ## Second wave: RayIntersections model → winding number -/

/-- `windings` on a list in which the walk always finds an end-point partner (and no hit is at the
ray start): never reads past the end, and — when the overlapping sections close — twice the result is
the order-independent weight sum (2 per crossing inside a segment, 1 per end-point hit, 0 per
overlapping hit, signed by direction) plus what an open overlapping section owed. -/
theorem windings_is_half_weight_sum (zs : List Z) (n : Int) (b : Bool) (st : Bool × Bool)
    (hw : WPz zs = true) (hc : Clean zs) :
    ∃ m, go zs n b st = .ok m b ∧
      ((st.1 != decide (nsame zs % 2 = 1)) = false → 2 * m = 2 * n + phi st + W zs) :=
  go_weight zs n b st hw hc

example : WPz [⟨false, false, true, false⟩, ⟨false, true, true, true⟩] = true ∧
    Clean [⟨false, false, true, false⟩, ⟨false, true, true, true⟩] := by
  constructor
  · decide
  · intro z hz; simp at hz; rcases hz with rfl | rfl <;> simp

/-- The stable sort cannot separate partners: inserting a generic hit, or two end-point hits with the
same position one after the other, into a walk-paired list keeps it walk-paired. -/
theorem pairing_survives_sort (g z1 z2 : Hit) (s : List Hit) (hs : WP s = true)
    (hg : g.tb = .mid) (h1 : z1.tb ≠ .mid) (h2 : z2.tb ≠ .mid) (hx : z2.x = z1.x) :
    WP (ins g s) = true ∧ WP (ins z1 (ins z2 s)) = true :=
  ⟨WP_ins_mid g hg s hs, WP_ins_pair z1 z2 h1 h2 hx (rat_irrefl _) s hs⟩

example : WP [⟨3, false, true, .one, false⟩, ⟨3, false, false, .zero, false⟩] = true := by decide +kernel

/-- Off the segment, the hits of one segment are: none, one inside, one at its start, one at its end,
or the two overlapping end hits — with the geometric facts that go with each shape. -/
theorem segment_hits_classified (p a b : IPt) (hne : a ≠ b) (hoff : ¬ onSeg p a b) :
    EdgeCase p a b := edge_cases p a b hne hoff

example : ¬ onSeg ⟨0, 0⟩ ⟨2, -1⟩ ⟨2, 3⟩ := by simp [onSeg, isLeft]

/-- Along any vertex chain off the query point the hit weights are twice the specification's
crossing sum plus a telescoping term: [last vertex on the ray] − [first vertex on the ray]. -/
theorem hit_weights_telescope (p a : IPt) (rest : List IPt) (hoff : offChain p (a :: rest)) :
    W ((chainHits p (a :: rest)).map Hit.z) =
      2 * chainW p (a :: rest) + fI p ((a :: rest).getLast (by simp)) - fI p a :=
  chain_W p rest a hoff

example : offChain ⟨-1, 0⟩ [⟨0, 3⟩, ⟨0, 0⟩, ⟨4, 0⟩, ⟨4, -3⟩] := by
  simp [offChain, onSeg, isLeft]

/-- Full statement: for every closed flat subpath and every point off it, the model of
`windings(RayIntersections(x,y))` is the winding number. -/
def windings_refines_wn_statement : Prop :=
  ∀ (p : IPt) (poly : List IPt), offChain p (subpathVerts true poly) →
    windingsSub true p poly = .ok (wn1 p poly) false

/-- Closed flat subpath (any number of vertices, self-intersections, vertices and horizontal edges on
the ray, the start vertex on the ray), query point on no segment: `windings(RayIntersections)`
reports no boundary and returns the winding number. Full strength since 847036a (the two end-point
hits of the start vertex are kept adjacent). -/
theorem windings_refines_wn : windings_refines_wn_statement := by
  intro p poly hoff
  cases poly with
  | nil => simp [windingsSub, rayHits, subHits, isort, windings, go, wn1]
  | cons a r => exact windingsSub_refines p a r hoff

/-- non-vacuity: an L-shaped polygon, ray along a horizontal edge through which the path steps; and
the former start-vertex defect input (an edge passes through the start vertex, the point is level
with it), now evaluated to its winding number 0 -/
example : offChain ⟨-1, 0⟩ (subpathVerts true [⟨4, -3⟩, ⟨-2, -3⟩, ⟨-2, 3⟩, ⟨0, 3⟩, ⟨0, 0⟩, ⟨4, 0⟩]) := by
  simp [offChain, subpathVerts, onSeg, isLeft]

example : offChain ⟨-1, 0⟩ (subpathVerts true [⟨2, 0⟩, ⟨4, 2⟩, ⟨0, -2⟩, ⟨4, -2⟩, ⟨0, 2⟩]) ∧
    windingsSub true ⟨-1, 0⟩ [⟨2, 0⟩, ⟨4, 2⟩, ⟨0, -2⟩, ⟨4, -2⟩, ⟨0, 2⟩] = .ok 0 false := by
  refine ⟨by simp [offChain, subpathVerts, onSeg, isLeft], by decide +kernel⟩

/-- the rotation at the Close command: a hit list that starts with the start-hit and ends with the
end-hit of the subpath's start vertex is handed to the sort with the end-hit in front -/
theorem start_vertex_hits_made_adjacent (p v0 : IPt) (z0 e : Hit) (t : List Hit)
    (h0 : z0.tb = .zero) (h1 : e.tb = .one) (hy : v0.y = p.y)
    (hx0 : z0.x = (v0.x : Rat)) (hx1 : e.x = (v0.x : Rat)) :
    rotateStart p v0 (z0 :: (t ++ [e])) = e :: z0 :: t :=
  rotateStart_fire p v0 z0 e t h0 h1 hy hx0 hx1

/-- `Path.Windings` on closed flat subpaths, point off the path, is the winding number of the whole path -/
theorem windingsPath_refines (p : IPt) (subs : List Sub) (h : ∀ s ∈ subs, GoodSub p s) :
    windingsPath p subs = .ok (wn p (subs.map (·.2))) false := by
  have := windingsPathGo_refines p subs h 0
  simpa [windingsPath] using this

/-- `Path.Contains(x, y, rule)` is `rule.Fills(winding number)` -/
theorem contains_refines (rule : Rule) (p : IPt) (subs : List Sub)
    (h : ∀ s ∈ subs, GoodSub p s) :
    containsPath rule p subs = rule.fills (wn p (subs.map (·.2))) := by
  simp [containsPath, windingsPath_refines p subs h]

example : GoodSub ⟨1, 1⟩ (true, [⟨0, 0⟩, ⟨4, 0⟩, ⟨4, 4⟩, ⟨0, 4⟩]) := by
  refine ⟨rfl, ⟨0, 0⟩, [⟨4, 0⟩, ⟨4, 4⟩, ⟨0, 4⟩], rfl, ?_⟩
  simp [offChain, subpathVerts, onSeg, isLeft]

/-- `Path.Filling`, inner loop for subpath i: the sum over the other subpaths is the winding number
of the other contours around the start vertex of subpath i -/
theorem filling_others_refines (pos : IPt) (i : Nat) (subs : List Sub) (n : Int)
    (h : ∀ k (hk : k < subs.length), k ≠ i → GoodSub pos subs[k]) :
    othersGo pos i subs 0 n = n + wnOthers pos i (subs.map (·.2)) 0 :=
  othersGo_refines pos i subs 0 n (fun k hk hne => h k hk (by omega))

example : ∀ k (hk : k < [((true, [⟨5, 5⟩, ⟨6, 5⟩, ⟨6, 6⟩]) : Sub), (true, [⟨0, 0⟩, ⟨9, 0⟩, ⟨9, 9⟩, ⟨0, 9⟩])].length),
    k ≠ 0 → GoodSub ⟨5, 5⟩ [((true, [⟨5, 5⟩, ⟨6, 5⟩, ⟨6, 6⟩]) : Sub), (true, [⟨0, 0⟩, ⟨9, 0⟩, ⟨9, 9⟩, ⟨0, 9⟩])][k] := by
  intro k hk hne
  have : k = 1 := by simp at hk; omega
  subst this
  refine ⟨rfl, ⟨0, 0⟩, [⟨9, 0⟩, ⟨9, 9⟩, ⟨0, 9⟩], rfl, ?_⟩
  simp [offChain, subpathVerts, onSeg, isLeft]

/-! ## Crossings (13dd06a: walk along the path, count the side changes) -/

/-- only crossings strictly inside segments: every hit is one crossing -/
theorem crossings_generic (l : List Hit) (st : CSt) (n : Int) (b : Bool)
    (hg : ∀ h ∈ l, h.t0zero = false ∧ h.tb = .mid ∧ h.same = false) (pe : Option Hit) :
    crossWalk pe l st n b = (n + l.length, b, st) :=
  crossWalk_generic l st n b hg pe

/-- The invariant of the walk along ANY vertex chain off the query point: twice the count, plus what
the state (overlapping section entered / left before being entered) and the pending end hit still
owe, is the weight sum of the hits modulo 4; the pending hit exists exactly at a vertex on the ray;
the boundary flag is untouched. -/
theorem crossings_walk_invariant (p a : IPt) (rest : List IPt) (pe : Option Hit) (st : CSt) (n : Int)
    (b : Bool) (hoff : offChain p (a :: rest)) (hp : PendOK p a pe) (hi : CInv st pe) :
    ∃ n' st' pe', crossWalkP pe (chainHits p (a :: rest)) st n b = (n', b, st', pe') ∧
      PendOK p ((a :: rest).getLast (by simp)) pe' ∧ CInv st' pe' ∧
      (2 * n' + cphi st' + pw pe' -
        (2 * n + cphi st + pw pe + W ((chainHits p (a :: rest)).map Hit.z))) % 4 = 0 :=
  chain_cross p rest a pe st n b hoff hp hi

example : PendOK ⟨-1, 0⟩ ⟨2, 3⟩ none ∧ CInv {} none :=
  ⟨⟨fun h => by simp [fR] at h, fun _ => rfl⟩, ⟨fun h => by simp at h, fun e he => by simp at he⟩⟩

/-- Crossings of a closed flat subpath at EVERY point off the path (vertices, the start vertex,
horizontal edges on the ray, touching and crossing alike): the count has the parity of the winding
number, the boundary flag is left alone. -/
theorem crossings_parity_is_winding_parity (p a : IPt) (r : List IPt) (b : Bool)
    (hoff : offChain p (subpathVerts true (a :: r))) :
    (crossingsSub true p (a :: r) b).2 = b ∧
    ((crossingsSub true p (a :: r) b).1 - wn1 p (a :: r)) % 2 = 0 :=
  crossingsSub_parity p a r b hoff

/-- `Path.Crossings` decides the even-odd fill rule: for closed flat subpaths and a point off the path
no boundary is reported and EvenOdd.Fills(Crossings) = EvenOdd.Fills(winding number). -/
theorem crossings_decides_evenodd (p : IPt) (subs : List Sub) (h : ∀ s ∈ subs, GoodSub p s) :
    (crossingsPath p subs).2 = false ∧
    Rule.evenOdd.fills (crossingsPath p subs).1 = Rule.evenOdd.fills (wn p (subs.map (·.2))) := by
  have := crossingsPathGo_parity p subs h 0 false
  simp only [crossingsPath]
  refine ⟨this.1, ?_⟩
  have h2 := this.2
  simp only [Rule.fills]
  congr 1
  apply propext
  constructor <;> intro hh <;> omega

/-- the L-shaped polygon whose crossing along a horizontal edge the old half counts missed, a
triangle with a redundant vertex on its bottom edge (old count −1), and a ray touching a peak vertex
(now 0 crossings) -/
example : crossingsPath ⟨-2, 0⟩ [(true, [⟨0, 0⟩, ⟨8, 0⟩, ⟨8, -6⟩, ⟨-4, -6⟩, ⟨-4, 6⟩, ⟨0, 6⟩])] = (1, false) ∧
    crossingsPath ⟨-6, 0⟩ [(true, [⟨0, 0⟩, ⟨8, 0⟩, ⟨8, 8⟩, ⟨-4, 0⟩])] = (0, false) ∧
    crossingsPath ⟨-2, 6⟩ [(true, [⟨0, 0⟩, ⟨8, 0⟩, ⟨4, 6⟩])] = (0, false) := by
  refine ⟨by decide +kernel, by decide +kernel, by decide +kernel⟩

/-! ## CCW -/

/-- The vertex search of `CCW` ends on a vertex that no vertex of the subpath beats: none lies
further right, none equally far right lies lower (Close's end point is not a candidate). -/
theorem ccw_picks_bottom_right_most (v0 : IPt) (rest : List IPt) (d : IPt) :
    extreme (v0 :: rest) < (v0 :: rest).length ∧
    ∀ v ∈ v0 :: rest, better ((v0 :: rest).getD (extreme (v0 :: rest)) d) v = false :=
  extreme_is_bottom_right_most v0 rest d

/-- At such a vertex both neighbours lie to the left (or straight above), and there the comparison of
the two angles in [0,2π) is exactly the sign of the cross product of the two directions. -/
theorem ccw_angle_test_is_cross (v u w : IPt) (hu : better v u = false) (hw : better v w = false)
    (hune : u ≠ v) (hwne : w ≠ v) :
    angLt (vsub w v) (vsub u v) = decide (0 < cross (vsub w v) (vsub u v)) :=
  angLt_leftward _ _ (leftward_of_not_better v w hw hwne) (leftward_of_not_better v u hu hune)

example : better ⟨3, 0⟩ ⟨1, 2⟩ = false ∧ better ⟨3, 0⟩ ⟨3, 5⟩ = false := by decide

/-- Full statement: CCW of a simple closed polygon is the sign of its area. -/
def ccw_is_area_sign_statement : Prop :=
  ∀ vs : List IPt, isSimple vs = true → area2 vs ≠ 0 →
    ccwFlat true vs = some (decide (0 < area2 vs))

/-- proved for triangles (every vertex order, every start vertex); for more vertices the step from
"left turn at the bottom-right-most vertex" to "positive area" needs the Jordan curve theorem for
polygons and is only tested (verdict `CCWSPEC`) -/
theorem ccw_is_area_sign_partial (a b c : IPt) (hA : area2 [a, b, c] ≠ 0) :
    ccwFlat true [a, b, c] = some (decide (0 < area2 [a, b, c])) :=
  ccw_triangle_area a b c hA

example : area2 [(⟨0, 0⟩ : IPt), ⟨4, 0⟩, ⟨0, 3⟩] ≠ 0 := by decide

/-! ## the Lean verdict that judges the library's reported winding numbers -/

/-- verdict ok ⇒ every judged point (farther than δ from the path) was reported correctly -/
theorem verdict_ok_sound (P : List (List IPt)) (d2 : Int) (pts : List IPt) (reps : List Int)
    (c' s' : Nat) (h : judgeWind P d2 pts reps 0 0 0 = .ok c' s') :
    ∀ pr ∈ pts.zip reps, farFromAll pr.1 d2 P = true → wn pr.1 P = pr.2 :=
  judgeWind_sound P d2 pts reps 0 0 0 c' s' h

/-- verdict fail ⇒ there is a judged point whose reported value differs from the winding number -/
theorem verdict_fail_exhibits (P : List (List IPt)) (d2 : Int) (pts : List IPt) (reps : List Int)
    (i : Nat) (w r : Int) (h : judgeWind P d2 pts reps 0 0 0 = .fail i w r) :
    ∃ pr ∈ pts.zip reps, farFromAll pr.1 d2 P = true ∧ wn pr.1 P = w ∧ pr.2 = r ∧ w ≠ r :=
  judgeWind_fail P d2 pts reps 0 0 0 i w r h

example : judgeWind [[⟨0, 0⟩, ⟨4, 0⟩, ⟨4, 4⟩, ⟨0, 4⟩]] 1 [⟨2, 2⟩] [0] 0 0 0 = .fail 0 1 0 := by decide

/-- monotone in the tolerance: a point judged with the wider band is judged with every narrower one -/
theorem verdict_band_monotone (p : IPt) (d d' : Int) (hd : d ≤ d') (P : List (List IPt))
    (h : farFromAll p d' P = true) : farFromAll p d P = true :=
  farFromAll_mono p d d' hd P h

/-- the verdict's specification is invariant under translation and under the positive rescaling
used to decode float64 coordinates to integers -/
theorem verdict_spec_invariant (k : Int) (hk : 0 < k) (p t : IPt) (poly : List IPt) :
    wn1 (p.add t) (poly.map (·.add t)) = wn1 p poly ∧
    wn1 (IPt.smul k p) (poly.map (IPt.smul k)) = wn1 p poly :=
  ⟨wn1_translate p t poly, wn1_smul k hk p poly⟩

example : judgeWind [[⟨0, 0⟩, ⟨4, 0⟩, ⟨4, 4⟩, ⟨0, 4⟩]] 1 [⟨2, 2⟩, ⟨9, 9⟩] [1, 0] 0 0 0 = .ok 2 0 := by
  decide


/-! ## boundary reporting (every flat subpath, open or closed, every query point) -/

/-- every hit lies at or to the right of the query point, and carries T[0] = 0 exactly when it is at
the query point; such a hit exists exactly when the point lies on a segment of the chain -/
theorem hits_at_query_point_iff_on_path (p : IPt) (l : List IPt) :
    (∀ h ∈ chainHits p l, (p.x : Rat) ≤ h.x ∧ (h.t0zero = true ↔ h.x = (p.x : Rat))) ∧
    ((∃ h ∈ chainHits p l, h.t0zero = true) ↔ onChain p l) :=
  chain_boundary p l

/-- Whenever `windings(RayIntersections)` of a subpath returns, its boundary flag is set iff the query
point lies on one of the subpath's segments (the sort brings a hit at the query point to the front,
where `windings` cannot skip it as the partner of an end-point hit). -/
theorem boundary_reported_iff_on_path (closed : Bool) (p : IPt) (poly : List IPt) (m : Int) (b : Bool)
    (h : windingsSub closed p poly = .ok m b) :
    b = true ↔ onChain p (subpathVerts closed poly) :=
  boundary_flag_iff closed p poly m b h

example : windingsSub true ⟨2, 0⟩ [⟨0, 0⟩, ⟨4, 0⟩, ⟨4, 4⟩] = .ok 0 true ∧
    onChain ⟨2, 0⟩ (subpathVerts true [⟨0, 0⟩, ⟨4, 0⟩, ⟨4, 4⟩]) := by
  constructor
  · decide +kernel
  · simp [onChain, subpathVerts, onSeg, isLeft]


/-! ## the fill rule as translated from source -/

/-- `FillRule.Fills` regenerated from /repo on every run (L1) is the specification's `Rule.fills`
that `Contains`/`Filling` are stated with -/
theorem fills_translated_eq_spec (w : Int) :
    GenF.FillRule.Fills GenF.NonZero w = Rule.nonZero.fills w ∧
    GenF.FillRule.Fills GenF.EvenOdd w = Rule.evenOdd.fills w ∧
    GenF.FillRule.Fills GenF.Positive w = Rule.positive.fills w ∧
    GenF.FillRule.Fills GenF.Negative w = Rule.negative.fills w := by
  have hpar : (Int.tmod w 2 ≠ 0) ↔ (w % 2 ≠ 0) := by
    by_cases hw : 0 ≤ w
    · rw [Int.tmod_eq_emod_of_nonneg hw]
    · have hv : w = -(-w) := by omega
      have h1 : Int.tmod w 2 = -(Int.tmod (-w) 2) := by
        conv => lhs; rw [hv, Int.neg_tmod]
      rw [h1, Int.tmod_eq_emod_of_nonneg (by omega : 0 ≤ -w)]
      omega
  refine ⟨?_, ?_, ?_, ?_⟩ <;>
    simp [GenF.FillRule.Fills, GenF.NonZero, GenF.EvenOdd, GenF.Positive, GenF.Negative, Rule.fills, hpar]

end C06
