import CanvasModel.C06
import CanvasProofs.Lemmas.Wn

/-! # C06 — Containment and winding queries (partial)

`windings(zs)` is modelled by hand (tied by exhaustive correspondence over all intersection lists
of length ≤ 4 and random longer ones through hook VerifWindings). Proved: exactly which lists make
the look-ahead read past the end (a panic in the real code — and a witness that such a list is
produced for open subpaths), the generic case (no endpoint hits) is the signed crossing count, the
vertex-pair rule, boundary reporting, and reversal negates the specification's winding number.
Whole queries (Windings, Crossings, Contains, CCW, Filling) are refined against the exact
specification / independent oracles. -/
namespace C06
open Canvas Canvas.C06 Canvas.Wn

/-- endpoint hits come in adjacent pairs (what RayIntersections produces for closed subpaths);
`pending` = the previous element was an endpoint hit that still awaits its partner -/
def pairedAux : Bool → List Z → Bool
  | false, [] => true
  | true, [] => false
  | true, _ :: rest => pairedAux false rest
  | false, z :: rest =>
    if z.t0zero then pairedAux false rest
    else if !z.endpoint then pairedAux false rest
    else if rest.isEmpty && z.same then true   -- `z.Same || zs[i+1].Same` short-circuits
    else pairedAux true rest

def Paired (zs : List Z) : Prop := pairedAux false zs = true

/-- The look-ahead `zs[i+1]` leaves the list exactly when endpoint hits are not paired. -/
theorem go_panic_iff (zs : List Z) (n : Int) (b : Bool) : go zs n b = .panic ↔ ¬ Paired zs := by
  unfold Paired
  fun_induction go zs n b <;> simp_all [pairedAux]

/-- totality of `windings` on paired lists -/
theorem windings_total (zs : List Z) (h : Paired zs) : windings zs ≠ .panic := by
  intro hp
  exact (go_panic_iff zs 0 false).mp hp h

/-- and the defect: a single endpoint hit (what an OPEN subpath yields when the query point is
level with its first or last vertex) makes the real code index out of range -/
theorem windings_panics_on_unpaired_endpoint :
    windings [⟨false, false, true, false⟩] = .panic := by
  simp [windings, go]

/-- a second defect, at the level of the model: a path that comes from above, runs along the ray on
a horizontal edge and leaves downwards (hits: overlap end point + tangent end point, twice, both
`into`) passes through the ray once, but `windings` counts nothing (both pairs contain an overlap).
Replayed on the real code with `M0 0L4 0L4 -3L-2 -3L-2 3L0 3z` at (-1,0) and (-3,0). -/
theorem windings_misses_horizontal_step :
    windings [⟨false, false, true, true⟩, ⟨false, true, true, false⟩,
              ⟨false, false, true, true⟩, ⟨false, true, true, false⟩] = .ok 0 false := by
  simp [windings, go]

def crossingSum : List Z → Int
  | [] => 0
  | z :: rest => dir z + crossingSum rest

theorem go_generic (zs : List Z) (n : Int) (b : Bool)
    (h : ∀ z ∈ zs, z.t0zero = false ∧ z.endpoint = false ∧ z.same = false) :
    go zs n b = .ok (n + crossingSum zs) b := by
  induction zs generalizing n with
  | nil => simp [go, crossingSum]
  | cons z rest ih =>
    have hz := h z (by simp)
    have hr : ∀ z ∈ rest, z.t0zero = false ∧ z.endpoint = false ∧ z.same = false :=
      fun z hz => h z (by simp [hz])
    rw [go.eq_def]
    simp only [hz.1, hz.2.1, hz.2.2, Bool.false_eq_true, if_false, Bool.not_false, if_true]
    rw [ih _ hr]
    simp only [crossingSum]
    congr 1; omega

/-- Generic case (no hit at a vertex, on an overlap or at the ray start): the result is the signed
number of crossings, +1 for each upward and −1 for each downward crossing, and not a boundary. -/
theorem windings_generic (zs : List Z)
    (h : ∀ z ∈ zs, z.t0zero = false ∧ z.endpoint = false ∧ z.same = false) :
    windings zs = .ok (crossingSum zs) false := by
  have := go_generic zs 0 false h
  simpa [windings] using this

/-- Vertex-pair rule: two consecutive end-point hits (the two segments meeting at a vertex on the
ray) count once iff the path passes through the ray there (both go the same way), and not at all if
it only touches it; overlapping (horizontal) hits are ignored. -/
theorem windings_vertex_pair (z z2 : Z) (rest : List Z) (n : Int) (b : Bool)
    (h0 : z.t0zero = false) (he : z.endpoint = true) :
    go (z :: z2 :: rest) n b =
      go rest (if (z.same || z2.same) = false ∧ z.into = z2.into then n + dir z else n) b := by
  simp only [go, h0, he, Bool.false_eq_true, if_false, Bool.not_true]
  congr 1
  by_cases hs : (z.same || z2.same) = true <;> by_cases hi : z.into = z2.into <;> simp_all

theorem go_boundary_mono (zs : List Z) (n : Int) (b : Bool) (hb : b = true) :
    ∀ m b', go zs n b = .ok m b' → b' = true := by
  fun_induction go zs n b <;> simp_all

/-- A hit at the ray's start (the query point lies on the path) is reported as boundary. -/
theorem windings_boundary_reported (z : Z) (rest : List Z) (h : z.t0zero = true) (m : Int) (b' : Bool)
    (hr : windings (z :: rest) = .ok m b') : b' = true := by
  simp only [windings] at hr
  rw [go.eq_def] at hr
  simp only [h, if_true] at hr
  exact go_boundary_mono rest 0 true rfl m b' hr

/-- Reverse negates the winding number of the specification around every point. -/
theorem reverse_negates (p : IPt) (polys : List (List IPt)) :
    wn p (polys.map List.reverse) = - wn p polys := wn_reverse p polys

/-- non-vacuity: a paired list exists and is evaluated -/
example : windings [⟨false, false, true, false⟩, ⟨false, false, true, false⟩, ⟨false, true, false, false⟩] = .ok 0 false := by
  simp [windings, go, dir]

end C06
