import CanvasProofs.Lemmas.C17Term
import CanvasProofs.Lemmas.C17Sums
import CanvasProofs.Lemmas.C17Opt10
import CanvasProofs.Lemmas.C17BPList
import CanvasProofs.Lemmas.C17Relax
import CanvasProofs.Lemmas.C17Verdict
import Mathlib.Tactic.IntervalCases

/-! # C17 — `text.Linebreak` (Knuth–Plass line breaking)

Theorems about the hand-written model `Canvas.C17.linebreak` (CanvasModel/C17.lean), which is tied to
/repo/text/linebreak.go by bit-exact correspondence of its `Float` instance on every run.

The structural theorems hold for **every** scalar type and **every** interpretation of
`+ - * / < ≤ ==` (in particular for the `Float` instance that is compared with the Go code); the
only law used is reflexivity of `==` (`hrefl`, false only for NaN). The precondition of the
property — the paragraph ends in a forced break — is `hlen/hfo/hle`. -/
set_option linter.unusedSectionVars false
set_option linter.unusedVariables false
namespace C17
open Canvas.C17

section
variable {α : Type} [Add α] [Sub α] [Mul α] [Div α] [Neg α] [LT α] [LE α] [BEq α]
  [DecidableLT α] [DecidableLE α] [NatCast α]

/-- The returned breakpoints are strictly increasing and every one of them is a legal breakpoint
(a penalty below +Infinity, or glue directly after a box and not directly before a penalty). -/
theorem legal_increasing (hrefl : ∀ a : α, (a == a) = true) (P : Params α) (items : List (Item α)) (lineW : α)
    (loose : Int) (breaks : List (ND α)) (fit : Bool) (m : Nat) (hlen : items.length = m + 1)
    (hfo : forcedAt P items m = true) (hle : legalAt P items m = true)
    (h : linebreak P items lineW loose = Outcome.ok breaks fit) :
    (breaks.map (·.pos)).Pairwise (· < ·) ∧ ∀ d, d ∈ breaks → legalAt P items d.pos = true := by
  obtain ⟨tol, ovf0, lb, nb, _, hI, hnb, hb, _, _, _, _⟩ := run_chain hrefl P items lineW loose breaks fit m hlen hfo hle h
  have hch := (hI.act nb hnb).1
  subst hb
  constructor
  · rw [List.map_reverse, fixNonRoot_pos, List.pairwise_reverse]
    exact (chain_sorted hch).1
  · intro d hd
    have : d.pos ∈ nonRootPos (nb.d :: nb.anc) := by
      rw [← fixNonRoot_pos P]
      exact List.mem_map_of_mem (List.mem_reverse.mp hd)
    exact chain_legal hch _ this

/-- The breaking ends at the final forced break. -/
theorem ends_at_final (hrefl : ∀ a : α, (a == a) = true) (P : Params α) (items : List (Item α)) (lineW : α)
    (loose : Int) (breaks : List (ND α)) (fit : Bool) (m : Nat) (hlen : items.length = m + 1)
    (hfo : forcedAt P items m = true) (hle : legalAt P items m = true)
    (h : linebreak P items lineW loose = Outcome.ok breaks fit) :
    (breaks.getLast?).map (·.pos) = some m := by
  obtain ⟨tol, ovf0, lb, nb, _, hI, hnb, hb, _, hpos, hanc, _⟩ := run_chain hrefl P items lineW loose breaks fit m hlen hfo hle h
  subst hb
  cases ha : nb.anc with
  | nil => exact absurd ha hanc
  | cons p rest =>
    simp only [fixNonRoot, List.getLast?_reverse, List.head?_cons, Option.map_some]
    rw [clampRatio_pos, hpos]

/-- Every forced break is among the returned breakpoints — also when overflow is reported (the
overflow fallback only picks parents at or after the last forced break). -/
theorem forced_included (hrefl : ∀ a : α, (a == a) = true) (P : Params α) (items : List (Item α)) (lineW : α)
    (loose : Int) (breaks : List (ND α)) (fit : Bool) (m : Nat) (hlen : items.length = m + 1)
    (hfo : forcedAt P items m = true) (hle : legalAt P items m = true)
    (h : linebreak P items lineW loose = Outcome.ok breaks fit) :
    ∀ f, forcedAt P items f = true → legalAt P items f = true → f ∈ breaks.map (·.pos) := by
  obtain ⟨tol, ovf0, lb, nb, _, hI, hnb, hb, _, _, _, _⟩ := run_chain hrefl P items lineW loose breaks fit m hlen hfo hle h
  intro f hf hl
  have := hI.forced nb hnb f (legalAt_lt hl) hf hl
  subst hb
  rw [List.map_reverse, fixNonRoot_pos]
  exact List.mem_reverse.mpr this

/-- Every returned breakpoint — with or without overflow — reports the measures of its line
(`LinesAnyr`, breakpoints latest first): `Width` is the running width at the break (plus the width of
a penalty) minus the sums after the previous break; and either (`LineOK`) the line's adjustment
ratio `r`, computed from the same sums, lies in `[-1, tol]` for the tolerance `tol` of the pass that
completed and `Ratio` is `r` (0 if `r > Tolerance` after a relaxation), or (`LineFb`) the breakpoint
was made by the overflow fallback and reports `Ratio` 0 and class 1. -/
theorem reported_widths_ratios (hrefl : ∀ a : α, (a == a) = true) (P : Params α) (items : List (Item α))
    (lineW : α) (loose : Int) (breaks : List (ND α)) (fit : Bool) (m : Nat) (hlen : items.length = m + 1)
    (hfo : forcedAt P items m = true) (hle : legalAt P items m = true)
    (h : linebreak P items lineW loose = Outcome.ok breaks fit) :
    ∃ tol, LinesAnyr P items lineW tol breaks.reverse ∧ WidthsOKr P items breaks.reverse := by
  obtain ⟨tol, ovf0, lb, nb, _, hI, hnb, hb, _, _, _, _⟩ := run_chain hrefl P items lineW loose breaks fit m hlen hfo hle h
  have hch := (hI.act nb hnb).1
  subst hb
  rw [List.reverse_reverse]
  exact ⟨tol, chain_lines_any hch, linesAny_widths _ (chain_lines_any hch)⟩

/-- When no overflow is reported, no returned breakpoint is a fallback breakpoint: every one reports the measures of its line:
`Width` is the running width at the break (plus the width of a penalty) minus the sums after the
previous break, the line's adjustment ratio `r` computed from the same sums lies in `[-1, tol]` for
the tolerance `tol` of the pass that completed, and `Ratio` is `r` (or 0 if `r > Tolerance` after
a relaxation). `LinesOKr` lists the breakpoints latest first. -/
theorem reported_widths_ratios_ok (hrefl : ∀ a : α, (a == a) = true) (P : Params α) (items : List (Item α))
    (lineW : α) (loose : Int) (breaks : List (ND α)) (m : Nat) (hlen : items.length = m + 1)
    (hfo : forcedAt P items m = true) (hle : legalAt P items m = true)
    (h : linebreak P items lineW loose = Outcome.ok breaks true) :
    ∃ tol, LinesOKr P items lineW tol breaks.reverse := by
  obtain ⟨tol, ovf0, lb, nb, _, hI, hnb, hb, hfit, _, _, _⟩ := run_chain hrefl P items lineW loose breaks true m hlen hfo hle h
  have hov : lb.ovf = false := by
    cases ho : lb.ovf with
    | false => rfl
    | true => rw [ho] at hfit; cases hfit
  have hch := (hI.act nb hnb).1
  rw [hov] at hch
  subst hb
  exact ⟨tol, by rw [List.reverse_reverse]; exact chain_lines hch⟩

/-- Feasibility: if the first pass (at `Tolerance`) runs to completion and no overflow is reported,
every returned line has its adjustment ratio in `[-1, Tolerance]`. -/
theorem feasible (hrefl : ∀ a : α, (a == a) = true) (P : Params α) (items : List (Item α))
    (lineW : α) (loose : Int) (breaks : List (ND α)) (m : Nat) (lb : LB α) (hlen : items.length = m + 1)
    (hfo : forcedAt P items m = true) (hle : legalAt P items m = true)
    (hpass : passLoop P items lineW (some P.tolerance) 0 none items (initLB false) = PassRes.done lb)
    (h : linebreak P items lineW loose = Outcome.ok breaks true) :
    LinesOKr P items lineW (some P.tolerance) breaks.reverse := by
  have hI : Inv P items lineW (some P.tolerance) items.length lb :=
    passLoop_inv hrefl P items lineW _ items 0 (initLB false) lb rfl (Nat.zero_le _) (inv_init P items lineW _ false) hpass
  have hf : finish P items.length loose lb = Outcome.ok breaks true := by
    unfold linebreak fuelFor at h
    simp only [linebreakFuel, hpass] at h
    exact h
  obtain ⟨nb, hnb, hb, hfit, _, _, _⟩ := finish_spec P items lineW _ loose lb m hlen hfo hle hI breaks true hf
  have hov : lb.ovf = false := by
    cases ho : lb.ovf with
    | false => rfl
    | true => rw [ho] at hfit; cases hfit
  have hch := (hI.act nb hnb).1
  rw [hov] at hch
  subst hb
  rw [List.reverse_reverse]; exact chain_lines hch

/-- Soundness of the Lean verdict that judges the positions returned by the REAL `text.Linebreak`
(`!` lines of kind `structure`): verdict ok (`structClass = none`) implies that the observed positions
are non-empty, strictly increasing, all legal, end at the last item and contain every forced break. -/
theorem structVerdict_sound (P : Params α) (items : List (Item α)) (pos : List Nat)
    (h : structClass P items pos = none) :
    pos ≠ [] ∧ pos.Pairwise (· < ·) ∧ (∀ p, p ∈ pos → legalAt P items p = true) ∧
      pos.getLast? = some (items.length - 1) ∧
      (∀ f, forcedAt P items f = true → legalAt P items f = true → f ∈ pos) :=
  structClass_sound P items pos h

/-- The relaxation loop terminates: `linebreak` never runs out of passes. Each restart strictly
increases the tolerance, and the new tolerance is one of the finitely many ratios
`adjRatio (item b, sums at b, sums after a break or running sums)`; the pass at tolerance +∞ falls
back instead of restarting. Holds for every scalar whose `<` is irreflexive and transitive
(`Float` included). -/
theorem terminates (hrefl : ∀ a : α, (a == a) = true) (hirr : ∀ a : α, ¬ a < a)
    (htr : ∀ a b c : α, a < b → b < c → a < c) (P : Params α) (items : List (Item α)) (lineW : α) (loose : Int) :
    linebreak P items lineW loose ≠ Outcome.fuelOut := by
  unfold linebreak
  apply linebreakFuel_ne_fuelOut hrefl hirr htr
  have h1 := mu_le (Slist P items lineW) (some P.tolerance)
  have h2 := Slist_length P items lineW
  unfold fuelFor
  generalize items.length = n at *
  have e1 : n * (2 * n + 1) = 2 * (n * n) + n := by
    rw [Nat.mul_add, Nat.mul_one, ← Nat.mul_assoc, Nat.mul_comm n 2, Nat.mul_assoc]
  have e2 : (2 * n + 2) * n = 2 * (n * n) + 2 * n := by rw [Nat.add_mul, Nat.mul_assoc]
  omega

/-- Totality: if no glue item is the last item (in particular if the paragraph ends in a forced
break) the run never reads `items[b+1]` out of range and returns a breaking. -/
theorem total (hrefl : ∀ a : α, (a == a) = true) (hirr : ∀ a : α, ¬ a < a)
    (htr : ∀ a b c : α, a < b → b < c → a < c) (P : Params α) (items : List (Item α)) (lineW : α) (loose : Int)
    (hnp : ∀ b it, items[b]? = some it → it.ty = Ty.glue → b + 1 < items.length) :
    ∃ breaks fit, linebreak P items lineW loose = Outcome.ok breaks fit := by
  have h1 := terminates hrefl hirr htr P items lineW loose
  have h2 : linebreak P items lineW loose ≠ Outcome.panic :=
    linebreakFuel_ne_panic P items lineW loose hnp _ _ _
  cases h : linebreak P items lineW loose with
  | panic => exact absurd h h2
  | fuelOut => exact absurd h h1
  | ok breaks fit => exact ⟨breaks, fit, rfl⟩

end

/-! ## The doubly linked lists `Breakpoints` (active / inactive nodes)

Pointer-level model `Canvas.C17.BP` (CanvasModel/C17/BPList.lean), tied to the real methods
`Has/Push/InsertBefore/Remove` by exact correspondence of head/tail of both lists and prev/next of
every node over arbitrary operation histories (hook `text.VerifBreakpointsRun`). -/
section breakpoints
open Canvas.C17.BP

/-- Representation invariant over ALL disciplined histories (a node is named by an operation on one
list only while it is not a member of the other list — what `mainLoop` and the overflow fallback
do): starting from two empty lists, every history of `Push`, `InsertBefore`, `Remove`, `Has` runs
without nil dereference; afterwards each list header and the node pointers represent a duplicate-free
sequence (`head` = first, `tail` = last, `prev`/`next` link consecutive members, first `prev` and last
`next` are nil — so a stale `tail` or `prev` is impossible), the two sequences are disjoint, all other
nodes have nil pointers, and the sequences and `Has` answers are exactly those of the abstract list
operations append / insert-before / erase / membership (`absRun`). -/
theorem breakpoints_refine (ops : List Op) (h : DiscAll [] [] [] ops) :
    ∃ s obs, run ⟨emptyHeap, emptyHdr, emptyHdr⟩ [] ops = some (s, obs) ∧
      Rep2 s (absRun [] [] [] ops).1 (absRun [] [] [] ops).2.1 ∧ obs = (absRun [] [] [] ops).2.2 :=
  run_rep2 ops _ [] [] [] rep2_init h

/-- `Has` is membership for the list's own nodes and for free nodes (it inspects only the node's own
pointers and `head`, which is why it must not be asked about a member of the other list). -/
theorem breakpoints_has (h : Heap) (l : Hdr) (xs : List Nat) (b : Nat) (hr : Rep h l xs)
    (hf : b ∉ xs → Free h b) : has h l b = decide (b ∈ xs) :=
  has_iff_mem h l xs b hr hf

/-- non-vacuity: a history that pushes, inserts before a member, moves a node to the other list and asks `Has` -/
example : DiscAll [] [] [] [Op.push 0 0, Op.push 0 1, Op.insertBefore 0 2 1, Op.remove 0 0, Op.push 1 0, Op.has 0 1] ∧
    absRun [] [] [] [Op.push 0 0, Op.push 0 1, Op.insertBefore 0 2 1, Op.remove 0 0, Op.push 1 0, Op.has 0 1] =
      ([2, 1], [0], [true]) := by
  refine ⟨by simp [DiscAll, Disc, absStep, absPush, absInsert, insBefore], by
    simp [absRun, absStep, absPush, absInsert, insBefore]⟩

end breakpoints

/-! ## Arithmetic theorems over a linearly ordered field -/
section field
variable {K : Type} [Field K] [LinearOrder K] [IsStrictOrderedRing K]

/-- Over a field the reported `Width` of a (non-empty) line is the direct sum of the widths of the
boxes and glue between the first box after the previous break and the break, plus the width of a
penalty broken at: the L3 measure `lineNat`, not just a difference of running sums. -/
theorem reported_width_is_line_sum (P : Params K) (items : List (Item K)) (lineW : K) (tol : Option K)
    (prev : Option Nat) (d : ND K) (h : LineOK P items lineW tol prev d)
    (hs : lineStart P items prev ≤ d.pos) : d.width = (lineNat P items prev d.pos).1 := by
  obtain ⟨it, r, _, _, _, _, hw⟩ := h
  rw [hw]; exact width_eq_lineNat P items prev d.pos hs

/-- Sufficient well-formedness for optimality (`Canvas.C17.WF`): positive `Infinity` and line width,
non-negative `DemeritsFitness`; non-negative widths, glue with `0 ≤ shrink ≤ width` (known finding
`glue-shrink-exceeds-width`, see `feasible_missed_witness`) and non-negative stretch; a box between
any two legal breakpoints; an unflagged first item (the start node reads `items[0].Flagged`); no
glue as last item; and `snap`: the exact-fit guard of `computeAdjustmentRatio` (`|L−W| ≤ eps·W ⇒ L := W`,
`|r+1| ≤ eps ⇒ r := −1`, `eps = 1e-10` in the code, `Params.eps` in the model) changes the ratio of no
candidate line, i.e. no line lies strictly inside the guard band (trivial for `eps = 0`, decidable per
paragraph by `snapFreeB`). Penalties may have width (hyphens). -/
abbrev WellFormed (P : Params K) (items : List (Item K)) (lineW : K) : Prop := WF P items lineW

/-- **Optimality** (`C17.optimal` of the design), against the L3 specification: for a well-formed
paragraph (`WF`, with `Tolerance < Infinity`) and looseness 0, whenever the exhaustive specification
`best` — the least total demerits over ALL legal breakings whose lines, measured by direct summation
over their items, have their ratio in `[-1, Tolerance]` — finds a breaking with demerits `dOpt`,
`linebreak` reports no overflow, needs no relaxation, and the total demerits of the breaking it returns
are exactly `dOpt`. Ingredients: DP completeness (`optimal_over_breakings`: deactivation, fitness-class
pruning and line grouping lose nothing), `bestFrom` = minimum of `seqCost` over all breakings
(`bestFrom_attained`, `bestFrom_le`), equality of the direct-sum and running-sum measures
(`step_equiv`), and `Fitness = fitClass Ratio` with exact cost accounting for the returned chain. -/
theorem optimal (P : Params K) (items : List (Item K)) (lineW : K) (hwf : WF P items lineW)
    (htol : P.tolerance < P.infinity) (m : Nat) (hlen : items.length = m + 1)
    (hfo : forcedAt P items m = true) (hle : legalAt P items m = true) (dOpt : K)
    (hbest : best P items lineW = some dOpt) :
    ∃ breaks, linebreak P items lineW 0 = Outcome.ok breaks true ∧
      (breaks.getLast?).map (·.dem) = some dOpt :=
  optimal_core P items lineW hwf htol m hlen hfo hle dOpt hbest

/-- **DP completeness** (the hard half of optimality). For a well-formed paragraph and looseness 0:
for EVERY breaking `seq` — strictly increasing legal breakpoints that skip no forced break and end at
the final one — whose lines all have their adjustment ratio in `[-1, Tolerance]` (`seqCost`, lines
measured as the code measures them), `linebreak` reports no overflow, needs no relaxation, and returns
a breaking whose total demerits are at most the total demerits `d` of `seq`. Neither the
deactivation rule nor the fitness-class pruning (`D[c] ≤ Dmin + DemeritsFitness`) nor the line
grouping loses a better breaking. -/
theorem optimal_over_breakings (P : Params K) (items : List (Item K)) (lineW : K) (hwf : WF P items lineW)
    (m : Nat) (hlen : items.length = m + 1) (hfo : forcedAt P items m = true) (hle : legalAt P items m = true)
    (seq : List Nat) (d : K) (hpw : seq.Pairwise (· < ·)) (hns : NoSkip P items none seq)
    (hlast : seq.getLast? = some m)
    (hcost : seqCost P items lineW (some P.tolerance) none 1 0 seq = some d) :
    ∃ breaks dd, linebreak P items lineW 0 = Outcome.ok breaks true ∧
      (breaks.getLast?).map (·.dem) = some dd ∧ dd ≤ d := by
  obtain ⟨lbf, nb, breaks, _, _, _, _, hb, hrun, _, hanc, hle'⟩ :=
    opt_core P items lineW hwf m hlen hfo hle seq d hpw hns hlast hcost
  exact ⟨breaks, nb.d.dem, hrun, by rw [hb]; exact last_dem P nb hanc, hle'⟩

/-- **The stretch limit is relaxed only as far as needed** (any looseness). For a well-formed paragraph:
if some legal breaking that skips no forced break has all its line ratios in `[-1, t]` for a tolerance
`t ≥ Tolerance`, then `linebreak` reports no overflow and every line of the breaking it returns has its
ratio in `[-1, tf]` for the tolerance `tf ≤ t` of the pass that completed. So the largest ratio of the
result is at most the least `t` for which a breaking exists; in particular the restart tolerance
`nextTolerance` never jumps past a tolerance at which a breaking exists, and never to +∞. -/
theorem relax_minimal (P : Params K) (items : List (Item K)) (lineW : K) (hwf : WF P items lineW) (loose : Int)
    (m : Nat) (hlen : items.length = m + 1) (hfo : forcedAt P items m = true) (hle : legalAt P items m = true)
    (seq : List Nat) (t d : K) (ht : P.tolerance ≤ t) (hpw : seq.Pairwise (· < ·)) (hns : NoSkip P items none seq)
    (hlast : seq.getLast? = some m) (hcost : seqCost P items lineW (some t) none 1 0 seq = some d)
    (breaks : List (ND K)) (fit : Bool) (h : linebreak P items lineW loose = Outcome.ok breaks fit) :
    fit = true ∧ ∃ tf, tf ≤ t ∧ LinesOKr P items lineW (some tf) breaks.reverse := by
  obtain ⟨tf, lbf, htf, hp, hov, hf⟩ := relax_run P items lineW hwf loose m hlen seq t d hpw hns hlast hcost
    breaks fit _ P.tolerance ht h
  have hrefl : ∀ a : K, (a == a) = true := fun a => beq_self_eq_true a
  have hI : Inv P items lineW (some tf) items.length lbf :=
    passLoop_inv hrefl P items lineW _ items 0 (initLB false) lbf rfl (Nat.zero_le _) (inv_init P items lineW _ false) hp
  obtain ⟨nb, hnb, hb, hfit, _, _, _⟩ := finish_spec P items lineW _ loose lbf m hlen hfo hle hI breaks fit hf
  have hch := (hI.act nb hnb).1
  rw [hov] at hch
  refine ⟨by rw [hfit, hov]; rfl, tf, htf, ?_⟩
  subst hb
  rw [List.reverse_reverse]; exact chain_lines hch

/-- **Overflow is reported only if it cannot be avoided** (any looseness). For a well-formed paragraph:
if some legal breaking that skips no forced break has only lines that can be shrunk to fit (every ratio
`≥ -1`, no bound on stretching), `linebreak` does not report overflow. -/
theorem overflow_only_if_unavoidable (P : Params K) (items : List (Item K)) (lineW : K) (hwf : WF P items lineW)
    (loose : Int) (m : Nat) (hlen : items.length = m + 1) (seq : List Nat) (d : K) (hpw : seq.Pairwise (· < ·))
    (hns : NoSkip P items none seq) (hlast : seq.getLast? = some m)
    (hcost : seqCost P items lineW none none 1 0 seq = some d)
    (breaks : List (ND K)) (fit : Bool) (h : linebreak P items lineW loose = Outcome.ok breaks fit) : fit = true :=
  no_overflow_run P items lineW hwf loose m hlen seq d hpw hns hlast hcost breaks fit _ _ h

/-- Cost accounting and local minimality (looseness 0, no overflow reported; no well-formedness
needed): the returned breaking is
the parent walk of a node `nb` of the final active list such that
(a) every node of that list — every candidate that survived the pruning — ends a well-formed chain
    of legal breaks whose lines all have their ratio in `[-1, tol]` and whose recorded total
    demerits are exactly the sum of the line demerits along the chain (`chainCost`), and
(b) `nb` has the least total demerits among them.
So the result is optimal among the breakings that survive deactivation and the fitness-class
pruning — for arbitrary items; for well-formed paragraphs `optimal` shows nothing better is lost. -/
theorem optimal_partial (P : Params K) (items : List (Item K)) (lineW : K) (breaks : List (ND K)) (m : Nat)
    (hlen : items.length = m + 1) (hfo : forcedAt P items m = true) (hle : legalAt P items m = true)
    (h : linebreak P items lineW 0 = Outcome.ok breaks true) :
    ∃ tol ovf0 lb nb, passLoop P items lineW tol 0 none items (initLB ovf0) = PassRes.done lb ∧
      (∀ n, n ∈ lb.act → ChainOK P items lineW tol false (n.d :: n.anc) ∧
        n.d.dem = chainCost P items (n.d :: n.anc)) ∧
      nb ∈ lb.act ∧ breaks = (fixNonRoot P (nb.d :: nb.anc)).reverse ∧
      ∀ n, n ∈ lb.act → nb.d.dem ≤ n.d.dem := by
  obtain ⟨tol, ovf0, lb, nb, hp, hI, hnb, hb, hfit, _, _, h0⟩ :=
    run_chain (fun a => beq_self_eq_true a) P items lineW 0 breaks true m hlen hfo hle h
  have hov : lb.ovf = false := by
    cases ho : lb.ovf with
    | false => rfl
    | true => rw [ho] at hfit; cases hfit
  have hch : ∀ n, n ∈ lb.act → ChainOK P items lineW tol false (n.d :: n.anc) := by
    intro n hn
    have := (hI.act n hn).1
    rw [hov] at this
    exact this
  refine ⟨tol, ovf0, lb, nb, hp, ?_, hnb, hb, ?_⟩
  · intro n hn
    exact ⟨hch n hn, chain_cost (hch n hn) n.d n.anc rfl⟩
  · exact (chooseBest_none_min lb.act nb (h0 rfl)).2

end field

/-! ## Witnesses over exact rationals (core `Rat`): the defects of the unchanged code, and
non-vacuity of the hypotheses above. Evaluated by the kernel. -/
section witnesses

def Pq : Params Rat := ⟨2, 10, 100, 100, 1000, 1 / 10000000000⟩
def bx (w : Rat) : Item Rat := ⟨Ty.box, w, 0, 0, 0, false⟩
def gl (w y z : Rat) : Item Rat := ⟨Ty.glue, w, y, z, 0, false⟩
def pn (w p : Rat) (f : Bool) : Item Rat := ⟨Ty.penalty, w, 0, 0, p, f⟩
/-- an explicit newline as produced by `GlyphsToItems` -/
def nl : List (Item Rat) := [gl 0 1000 0, pn 0 (-1000) false]

/-- observable part of an outcome: positions, reported widths, `ok` flag -/
def obs : Outcome Rat → Option (List Nat × List Rat × Bool)
  | Outcome.ok brs fit => some (brs.map (·.pos), brs.map (·.width), fit)
  | _ => none

/-- Out-of-range witness: a paragraph that ends in glue after a box makes the code read `items[b+1]`. -/
theorem panic_witness : linebreak Pq [bx 1, gl 1 1 1] 10 0 = Outcome.panic := by
  have h : (match linebreak Pq [bx 1, gl 1 1 1] 10 0 with | Outcome.panic => true | _ => false) = true := by
    decide +kernel
  cases hl : linebreak Pq [bx 1, gl 1 1 1] 10 0 with
  | panic => rfl
  | fuelOut => rw [hl] at h; cases h
  | ok b f => rw [hl] at h; cases h

/-- Feasibility without well-formedness: whenever some legal breaking keeps every line within
`[-1, Tolerance]` (the exhaustive specification `best` finds one), no overflow is reported. It does
**not** hold for arbitrary items (known finding `glue-shrink-exceeds-width`); for well-formed
paragraphs it is `optimal_over_breakings`. -/
def feasible_statement : Prop :=
  ∀ (P : Params Rat) (items : List (Item Rat)) (lineW : Rat) (m : Nat), items.length = m + 1 →
    forcedAt P items m = true → legalAt P items m = true → (best P items lineW).isSome = true →
    ∃ breaks, linebreak P items lineW 0 = Outcome.ok breaks true

/-- Defect witness (`glue-shrink-exceeds-width`): "11 |1 ~1" in a line of width 10, where the second
glue shrinks by 5 — the single line (natural width 14, shrink 5) fits, but the start node is
deactivated at the first glue (11 > 10, no shrink yet) and overflow is reported. -/
theorem feasible_missed_witness : ¬ feasible_statement := by
  intro h
  obtain ⟨breaks, h1⟩ := h Pq ([bx 11, gl 0 0 0, bx 1, gl 1 0 5, bx 1] ++ nl) 10 6 (by decide) (by decide +kernel)
    (by decide +kernel) (by decide +kernel)
  have hrun : obs (linebreak Pq ([bx 11, gl 0 0 0, bx 1, gl 1 0 5, bx 1] ++ nl) 10 0) = some ([1, 6], [11, 3], false) := by
    decide +kernel
  rw [h1] at hrun
  simp [obs] at hrun

/-- non-vacuity: a justified paragraph over `Rat` satisfies the hypotheses of the theorems above
(final forced legal break, successful run without overflow, first pass completes) -/
example : ∃ breaks lb, linebreak Pq ([bx 3, gl 1 (1/2) (1/3), bx 3, gl 1 (1/2) (1/3), bx 3] ++ nl) 8 0 = Outcome.ok breaks true ∧
    passLoop Pq ([bx 3, gl 1 (1/2) (1/3), bx 3, gl 1 (1/2) (1/3), bx 3] ++ nl) 8 (some Pq.tolerance) 0 none
      ([bx 3, gl 1 (1/2) (1/3), bx 3, gl 1 (1/2) (1/3), bx 3] ++ nl) (initLB false) = PassRes.done lb ∧
    forcedAt Pq ([bx 3, gl 1 (1/2) (1/3), bx 3, gl 1 (1/2) (1/3), bx 3] ++ nl) 6 = true ∧
    legalAt Pq ([bx 3, gl 1 (1/2) (1/3), bx 3, gl 1 (1/2) (1/3), bx 3] ++ nl) 6 = true ∧
    breaks.map (·.pos) = [3, 6] := by
  have hrun : obs (linebreak Pq ([bx 3, gl 1 (1/2) (1/3), bx 3, gl 1 (1/2) (1/3), bx 3] ++ nl) 8 0) =
      some ([3, 6], [7, 3], true) := by decide +kernel
  have hpass : (match passLoop Pq ([bx 3, gl 1 (1/2) (1/3), bx 3, gl 1 (1/2) (1/3), bx 3] ++ nl) 8 (some Pq.tolerance) 0 none
      ([bx 3, gl 1 (1/2) (1/3), bx 3, gl 1 (1/2) (1/3), bx 3] ++ nl) (initLB false) with
      | PassRes.done _ => true | _ => false) = true := by decide +kernel
  cases hl : linebreak Pq ([bx 3, gl 1 (1/2) (1/3), bx 3, gl 1 (1/2) (1/3), bx 3] ++ nl) 8 0 with
  | panic => rw [hl] at hrun; cases hrun
  | fuelOut => rw [hl] at hrun; cases hrun
  | ok brs fit =>
    rw [hl] at hrun
    simp only [obs, Option.some.injEq, Prod.mk.injEq] at hrun
    cases hp : passLoop Pq ([bx 3, gl 1 (1/2) (1/3), bx 3, gl 1 (1/2) (1/3), bx 3] ++ nl) 8 (some Pq.tolerance) 0 none
      ([bx 3, gl 1 (1/2) (1/3), bx 3, gl 1 (1/2) (1/3), bx 3] ++ nl) (initLB false) with
    | panic => rw [hp] at hpass; cases hpass
    | restart nt o => rw [hp] at hpass; cases hpass
    | done lb =>
      refine ⟨brs, lb, ?_, rfl, by decide +kernel, by decide +kernel, hrun.1⟩
      rw [hrun.2.2]

/-- the justified paragraph "3 3 3" of the non-vacuity examples -/
def paraJustified : List (Item Rat) := [bx 3, gl 1 (1/2) (1/3), bx 3, gl 1 (1/2) (1/3), bx 3] ++ nl

/-- non-vacuity of `optimal_over_breakings`: the paragraph is well-formed (`WF`) ... -/
example : WF Pq paraJustified 8 := by
  refine ⟨by decide +kernel, by decide +kernel, by decide +kernel, ?_, ?_, by decide +kernel, ?_,
    by decide +kernel, snap_of_snapFreeB Pq paraJustified 8 (by decide +kernel)⟩
  · intro it hit
    simp only [paraJustified, nl, List.cons_append, List.nil_append, List.mem_cons, List.not_mem_nil, or_false] at hit
    rcases hit with rfl | rfl | rfl | rfl | rfl | rfl | rfl <;> decide +kernel
  · intro a b hab ha hb
    have h1 := legalAt_lt ha
    have h2 := legalAt_lt hb
    simp only [paraJustified, nl, List.cons_append, List.nil_append, List.length_cons, List.length_nil] at h1 h2
    interval_cases b <;> interval_cases a <;> first | omega | (revert ha hb; decide +kernel)
  · intro b it hb hg
    have h1 : b < paraJustified.length := (List.getElem?_eq_some_iff.mp hb).1
    simp only [paraJustified, nl, List.cons_append, List.nil_append, List.length_cons, List.length_nil] at h1 ⊢
    interval_cases b <;> first | omega | (revert hb hg; simp [paraJustified, nl, bx, gl, pn]; done) |
      (revert hb hg; simp [paraJustified, nl, bx, gl, pn]; intro hg he; rw [← he] at hg; cases hg)

/-- ... and the breaking [3, 6] satisfies the hypotheses on `seq` (legal, feasible, no forced break skipped) -/
example : (seqCost Pq paraJustified 8 (some Pq.tolerance) none 1 0 [3, 6]).isSome = true ∧
    [3, 6].Pairwise (· < ·) ∧ [3, 6].getLast? = some 6 := by
  refine ⟨by decide +kernel, by decide, rfl⟩

/-- non-vacuity of `optimal`: the specification finds an optimum for this paragraph and `Tolerance < Infinity` -/
example : (best Pq paraJustified 8).isSome = true ∧ Pq.tolerance < Pq.infinity := by
  exact ⟨by decide +kernel, by decide +kernel⟩

example : NoSkip Pq paraJustified none [3, 6] := by
  refine ⟨?_, ?_, True.intro⟩
  · intro f _ hf; interval_cases f <;> decide +kernel
  · intro f h1 hf
    have := h1 3 rfl
    interval_cases f <;> decide +kernel

/-- "3 ~ 3" without final glue: the only breaking has ratio 3 > Tolerance -/
def paraRelax : List (Item Rat) := [bx 3, gl 1 1 0, bx 3, pn 0 (-1000) false]

/-- non-vacuity of `relax_minimal` / `overflow_only_if_unavoidable`: the paragraph is well-formed, its only
breaking is feasible at `t = 3` (and at +∞) but not at `Tolerance = 2`, and the run indeed relaxes -/
example : WF Pq paraRelax 10 := by
  refine ⟨by decide +kernel, by decide +kernel, by decide +kernel, ?_, ?_, by decide +kernel, ?_,
    by decide +kernel, snap_of_snapFreeB Pq paraRelax 10 (by decide +kernel)⟩
  · intro it hit
    simp only [paraRelax, List.mem_cons, List.not_mem_nil, or_false] at hit
    rcases hit with rfl | rfl | rfl | rfl <;> decide +kernel
  · intro a b hab ha hb
    have h1 := legalAt_lt ha
    have h2 := legalAt_lt hb
    simp only [paraRelax, List.length_cons, List.length_nil] at h1 h2
    interval_cases b <;> interval_cases a <;> first | omega | (revert ha hb; decide +kernel)
  · intro b it hb hg
    have h1 : b < paraRelax.length := (List.getElem?_eq_some_iff.mp hb).1
    simp only [paraRelax, List.length_cons, List.length_nil] at h1 ⊢
    interval_cases b <;> first | omega | (revert hb hg; simp [paraRelax, bx, gl, pn]; done) |
      (revert hb hg; simp [paraRelax, bx, gl, pn]; intro hg he; rw [← he] at hg; cases hg)

example : (seqCost Pq paraRelax 10 (some 3) none 1 0 [3]).isSome = true ∧
    (seqCost Pq paraRelax 10 none none 1 0 [3]).isSome = true ∧
    (seqCost Pq paraRelax 10 (some Pq.tolerance) none 1 0 [3]).isSome = false ∧
    obs (linebreak Pq paraRelax 10 0) = some ([3], [7], true) := by
  refine ⟨by decide +kernel, by decide +kernel, by decide +kernel, by decide +kernel⟩

/-- a box 1.1e-9 wider than the line, then glue that can shrink by 1000 -/
def paraBand : List (Item Rat) := [bx (10 + 11 / 10000000000), gl 0 0 0, bx 0, gl 1000 0 1000, pn 0 (-1000) false]

/-- Why the hypothesis `snap` of `WF` cannot be dropped (it can be for `eps = 0`): inside the guard band
the code's feasibility test is snapped (`|r+1| ≤ 1e-10 ⇒ r := −1`) while the ratio-based deactivation is
strict. Here the start node is deactivated at the first glue (the box is wider than the line by more than
the guard), yet the single line to the final break has ratio −1 − 1.1e-12, which the guard accepts: the
breaking [4] is feasible by the code's own measure (`seqCost`), but overflow is reported. The paragraph
violates only `snap` (`snapFreeB = false`); the unguarded specification `best` finds nothing. -/
theorem guard_band_witness :
    (seqCost Pq paraBand 10 (some Pq.tolerance) none 1 0 [4]).isSome = true ∧
    obs (linebreak Pq paraBand 10 0) = some ([1, 4], [100000000011 / 10000000000, 1000], false) ∧
    snapFreeB Pq paraBand 10 = false ∧ best Pq paraBand 10 = none := by
  refine ⟨by decide +kernel, by decide +kernel, by decide +kernel, by decide +kernel⟩

end witnesses

end C17
