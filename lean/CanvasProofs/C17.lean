import CanvasProofs.Lemmas.C17Term
import CanvasProofs.Lemmas.C17Sums
import CanvasProofs.Lemmas.C17Opt5
import Mathlib.Tactic.IntervalCases

/-! # C17 — `text.Linebreak` (Knuth–Plass line breaking)

Theorems about the hand-written model `Canvas.C17.linebreak` (CanvasModel/C17.lean), which is tied to
/repo/text/linebreak.go by bit-exact correspondence of its `Float` instance on every run.

The structural theorems hold for **every** scalar type and **every** interpretation of
`+ - * / < ≤ ==` (in particular for the `Float` instance that is compared with the Go code); the
only law used is reflexivity of `==` (`hrefl`, false only for NaN). The precondition of the
property — the paragraph ends in a forced break — is `hlen/hfo/hle`. -/
set_option linter.unusedSectionVars false
set_option linter.unusedVariables false
namespace C17
open Canvas.C17

section
variable {α : Type} [Add α] [Sub α] [Mul α] [Div α] [Neg α] [LT α] [LE α] [BEq α]
  [DecidableLT α] [DecidableLE α] [NatCast α]

/-- The returned breakpoints are strictly increasing and every one of them is a legal breakpoint
(a penalty below +Infinity, or glue directly after a box and not directly before a penalty). -/
theorem legal_increasing (hrefl : ∀ a : α, (a == a) = true) (P : Params α) (items : List (Item α)) (lineW : α)
    (loose : Int) (breaks : List (ND α)) (fit : Bool) (m : Nat) (hlen : items.length = m + 1)
    (hfo : forcedAt P items m = true) (hle : legalAt P items m = true)
    (h : linebreak P items lineW loose = Outcome.ok breaks fit) :
    (breaks.map (·.pos)).Pairwise (· < ·) ∧ ∀ d, d ∈ breaks → legalAt P items d.pos = true := by
  obtain ⟨tol, ovf0, lb, nb, _, hI, hnb, hb, _, _, _, _⟩ := run_chain hrefl P items lineW loose breaks fit m hlen hfo hle h
  have hch := (hI.act nb hnb).1
  subst hb
  constructor
  · rw [List.map_reverse, fixNonRoot_pos, List.pairwise_reverse]
    exact (chain_sorted hch).1
  · intro d hd
    have : d.pos ∈ nonRootPos (nb.d :: nb.anc) := by
      rw [← fixNonRoot_pos P]
      exact List.mem_map_of_mem (List.mem_reverse.mp hd)
    exact chain_legal hch _ this

/-- The breaking ends at the final forced break. -/
theorem ends_at_final (hrefl : ∀ a : α, (a == a) = true) (P : Params α) (items : List (Item α)) (lineW : α)
    (loose : Int) (breaks : List (ND α)) (fit : Bool) (m : Nat) (hlen : items.length = m + 1)
    (hfo : forcedAt P items m = true) (hle : legalAt P items m = true)
    (h : linebreak P items lineW loose = Outcome.ok breaks fit) :
    (breaks.getLast?).map (·.pos) = some m := by
  obtain ⟨tol, ovf0, lb, nb, _, hI, hnb, hb, _, hpos, hanc, _⟩ := run_chain hrefl P items lineW loose breaks fit m hlen hfo hle h
  subst hb
  cases ha : nb.anc with
  | nil => exact absurd ha hanc
  | cons p rest =>
    simp only [fixNonRoot, List.getLast?_reverse, List.head?_cons, Option.map_some]
    rw [clampRatio_pos, hpos]

/-- Full statement: every forced break is among the returned breakpoints. It does **not** hold for
the unchanged code (see `forced_included_partial` and the known finding
`forced-break-skipped-by-overflow-fallback`). -/
def forced_included_statement : Prop :=
  ∀ (α : Type) [Add α] [Sub α] [Mul α] [Div α] [Neg α] [LT α] [LE α] [BEq α] [DecidableLT α] [DecidableLE α]
    [NatCast α] (hrefl : ∀ a : α, (a == a) = true) (P : Params α) (items : List (Item α)) (lineW : α)
    (loose : Int) (breaks : List (ND α)) (fit : Bool) (m : Nat), items.length = m + 1 →
    forcedAt P items m = true → legalAt P items m = true →
    linebreak P items lineW loose = Outcome.ok breaks fit →
    ∀ f, forcedAt P items f = true → legalAt P items f = true → f ∈ breaks.map (·.pos)

/-- When no overflow is reported, every forced break is among the returned breakpoints. -/
theorem forced_included_partial (hrefl : ∀ a : α, (a == a) = true) (P : Params α) (items : List (Item α)) (lineW : α)
    (loose : Int) (breaks : List (ND α)) (m : Nat) (hlen : items.length = m + 1)
    (hfo : forcedAt P items m = true) (hle : legalAt P items m = true)
    (h : linebreak P items lineW loose = Outcome.ok breaks true) :
    ∀ f, forcedAt P items f = true → legalAt P items f = true → f ∈ breaks.map (·.pos) := by
  obtain ⟨tol, ovf0, lb, nb, _, hI, hnb, hb, hfit, _, _, _⟩ := run_chain hrefl P items lineW loose breaks true m hlen hfo hle h
  intro f hf hl
  have hov : lb.ovf = false := by
    cases ho : lb.ovf with
    | false => rfl
    | true => rw [ho] at hfit; cases hfit
  have := hI.forced hov nb hnb f (legalAt_lt hl) hf hl
  subst hb
  rw [List.map_reverse, fixNonRoot_pos]
  exact List.mem_reverse.mpr this

/-- When no overflow is reported, every returned breakpoint reports the measures of its line:
`Width` is the running width at the break (plus the width of a penalty) minus the sums after the
previous break, the line's adjustment ratio `r` computed from the same sums lies in `[-1, tol]` for
the tolerance `tol` of the pass that completed, and `Ratio` is `r` (or 0 if `r > Tolerance` after
a relaxation). `LinesOKr` lists the breakpoints latest first. -/
theorem reported_widths_ratios_partial (hrefl : ∀ a : α, (a == a) = true) (P : Params α) (items : List (Item α))
    (lineW : α) (loose : Int) (breaks : List (ND α)) (m : Nat) (hlen : items.length = m + 1)
    (hfo : forcedAt P items m = true) (hle : legalAt P items m = true)
    (h : linebreak P items lineW loose = Outcome.ok breaks true) :
    ∃ tol, LinesOKr P items lineW tol breaks.reverse := by
  obtain ⟨tol, ovf0, lb, nb, _, hI, hnb, hb, hfit, _, _, _⟩ := run_chain hrefl P items lineW loose breaks true m hlen hfo hle h
  have hov : lb.ovf = false := by
    cases ho : lb.ovf with
    | false => rfl
    | true => rw [ho] at hfit; cases hfit
  have hch := (hI.act nb hnb).1
  rw [hov] at hch
  subst hb
  exact ⟨tol, by rw [List.reverse_reverse]; exact chain_lines hch⟩

/-- Feasibility: if the first pass (at `Tolerance`) runs to completion and no overflow is reported,
every returned line has its adjustment ratio in `[-1, Tolerance]`. -/
theorem feasible (hrefl : ∀ a : α, (a == a) = true) (P : Params α) (items : List (Item α))
    (lineW : α) (loose : Int) (breaks : List (ND α)) (m : Nat) (lb : LB α) (hlen : items.length = m + 1)
    (hfo : forcedAt P items m = true) (hle : legalAt P items m = true)
    (hpass : passLoop P items lineW (some P.tolerance) 0 none items (initLB false) = PassRes.done lb)
    (h : linebreak P items lineW loose = Outcome.ok breaks true) :
    LinesOKr P items lineW (some P.tolerance) breaks.reverse := by
  have hI : Inv P items lineW (some P.tolerance) items.length lb :=
    passLoop_inv hrefl P items lineW _ items 0 (initLB false) lb rfl (Nat.zero_le _) (inv_init P items lineW _ false) hpass
  have hf : finish P items.length loose lb = Outcome.ok breaks true := by
    unfold linebreak fuelFor at h
    simp only [linebreakFuel, hpass] at h
    exact h
  obtain ⟨nb, hnb, hb, hfit, _, _, _⟩ := finish_spec P items lineW _ loose lb m hlen hfo hle hI breaks true hf
  have hov : lb.ovf = false := by
    cases ho : lb.ovf with
    | false => rfl
    | true => rw [ho] at hfit; cases hfit
  have hch := (hI.act nb hnb).1
  rw [hov] at hch
  subst hb
  rw [List.reverse_reverse]; exact chain_lines hch

/-- The relaxation loop terminates: `linebreak` never runs out of passes. Each restart strictly
increases the tolerance, and the new tolerance is one of the finitely many ratios
`adjRatio (item b, sums at b, sums after a break or running sums)`; the pass at tolerance +∞ falls
back instead of restarting. Holds for every scalar whose `<` is irreflexive and transitive
(`Float` included). -/
theorem terminates (hrefl : ∀ a : α, (a == a) = true) (hirr : ∀ a : α, ¬ a < a)
    (htr : ∀ a b c : α, a < b → b < c → a < c) (P : Params α) (items : List (Item α)) (lineW : α) (loose : Int) :
    linebreak P items lineW loose ≠ Outcome.fuelOut := by
  unfold linebreak
  apply linebreakFuel_ne_fuelOut hrefl hirr htr
  have h1 := mu_le (Slist P items lineW) (some P.tolerance)
  have h2 := Slist_length P items lineW
  unfold fuelFor
  generalize items.length = n at *
  have e1 : n * (2 * n + 1) = 2 * (n * n) + n := by
    rw [Nat.mul_add, Nat.mul_one, ← Nat.mul_assoc, Nat.mul_comm n 2, Nat.mul_assoc]
  have e2 : (2 * n + 2) * n = 2 * (n * n) + 2 * n := by rw [Nat.add_mul, Nat.mul_assoc]
  omega

/-- Totality: if no glue item is the last item (in particular if the paragraph ends in a forced
break) the run never reads `items[b+1]` out of range and returns a breaking. -/
theorem total (hrefl : ∀ a : α, (a == a) = true) (hirr : ∀ a : α, ¬ a < a)
    (htr : ∀ a b c : α, a < b → b < c → a < c) (P : Params α) (items : List (Item α)) (lineW : α) (loose : Int)
    (hnp : ∀ b it, items[b]? = some it → it.ty = Ty.glue → b + 1 < items.length) :
    ∃ breaks fit, linebreak P items lineW loose = Outcome.ok breaks fit := by
  have h1 := terminates hrefl hirr htr P items lineW loose
  have h2 : linebreak P items lineW loose ≠ Outcome.panic :=
    linebreakFuel_ne_panic P items lineW loose hnp _ _ _
  cases h : linebreak P items lineW loose with
  | panic => exact absurd h h2
  | fuelOut => exact absurd h h1
  | ok breaks fit => exact ⟨breaks, fit, rfl⟩

end

/-! ## Arithmetic theorems over a linearly ordered field -/
section field
variable {K : Type} [Field K] [LinearOrder K] [IsStrictOrderedRing K]

/-- Over a field the reported `Width` of a (non-empty) line is the direct sum of the widths of the
boxes and glue between the first box after the previous break and the break, plus the width of a
penalty broken at: the L3 measure `lineNat`, not just a difference of running sums. -/
theorem reported_width_is_line_sum (P : Params K) (items : List (Item K)) (lineW : K) (tol : Option K)
    (prev : Option Nat) (d : ND K) (h : LineOK P items lineW tol prev d)
    (hs : lineStart P items prev ≤ d.pos) : d.width = (lineNat P items prev d.pos).1 := by
  obtain ⟨it, r, _, _, _, _, hw⟩ := h
  rw [hw]; exact width_eq_lineNat P items prev d.pos hs

/-- Sufficient well-formedness for optimality (`Canvas.C17.WF`): positive `Infinity` and line width,
non-negative `DemeritsFitness`; non-negative widths, glue with `0 ≤ shrink ≤ width` and non-negative
stretch, penalties without width (known finding `nonmonotone-min-length`); a box between any two
legal breakpoints (known finding `break-before-first-box`, see `suboptimal_witness`); an unflagged
first item (the start node reads `items[0].Flagged`); no glue as last item. -/
abbrev WellFormed (P : Params K) (items : List (Item K)) (lineW : K) : Prop := WF P items lineW

/-- Full statement of optimality against the L3 specification (not proved): for well-formed
paragraphs and looseness 0, whenever the exhaustive specification `best` finds a breaking within
`[-1, Tolerance]`, `linebreak` reports no overflow and returns a breaking whose total demerits are
that optimum. Proved so far: `optimal_over_breakings` (the result costs no more than ANY legal
feasible breaking, lines measured by running sums) and `optimal_partial` (the result's demerits are
the exact cost of the returned breaking). Missing for this statement: `bestFrom` = minimum of
`seqCost` over all sequences (needs the equality of the direct-sum `lineRatio` with `adjRatio` on
running sums for stretch/shrink as `reported_width_is_line_sum` does for the width), and
`Fitness = fitClass Ratio` for returned nodes (so that `chainCost` is a `seqCost`). -/
def optimal_statement : Prop :=
  ∀ (K : Type) [Field K] [LinearOrder K] [IsStrictOrderedRing K] (P : Params K) (items : List (Item K))
    (lineW : K) (m : Nat) (dOpt : K), WF P items lineW → items.length = m + 1 →
    forcedAt P items m = true → legalAt P items m = true → best P items lineW = some dOpt →
    ∃ breaks, linebreak P items lineW 0 = Outcome.ok breaks true ∧
      (breaks.getLast?).map (·.dem) = some dOpt

/-- **DP completeness** (the hard half of optimality). For a well-formed paragraph and looseness 0:
for EVERY breaking `seq` — strictly increasing legal breakpoints that skip no forced break and end at
the final one — whose lines all have their adjustment ratio in `[-1, Tolerance]` (`seqCost`, lines
measured as the code measures them), `linebreak` reports no overflow, needs no relaxation, and returns
a breaking whose total demerits are at most the total demerits `d` of `seq`. Neither the
deactivation rule nor the fitness-class pruning (`D[c] ≤ Dmin + DemeritsFitness`) nor the line
grouping loses a better breaking. -/
theorem optimal_over_breakings (P : Params K) (items : List (Item K)) (lineW : K) (hwf : WF P items lineW)
    (m : Nat) (hlen : items.length = m + 1) (hfo : forcedAt P items m = true) (hle : legalAt P items m = true)
    (seq : List Nat) (d : K) (hpw : seq.Pairwise (· < ·)) (hns : NoSkip P items none seq)
    (hlast : seq.getLast? = some m)
    (hcost : seqCost P items lineW (some P.tolerance) none 1 0 seq = some d) :
    ∃ breaks dd, linebreak P items lineW 0 = Outcome.ok breaks true ∧
      (breaks.getLast?).map (·.dem) = some dd ∧ dd ≤ d := by
  have hrefl : ∀ a : K, (a == a) = true := fun a => beq_self_eq_true a
  obtain ⟨lbf, hp, hov, n, hn, hnd⟩ := passLoop_opt P items lineW hwf (some P.tolerance) items 0 (initLB false)
    none 1 0 seq d rfl (Nat.zero_le _) (inv_init P items lineW _ false) (fun x _ => Nat.zero_le _) hpw hns
    (fun a ha => by cases ha) (fun he => by rw [he] at hlast; cases hlast)
    (fun x hx => by rw [hlast] at hx; cases hx; omega) hcost
    ⟨root, by simp [initLB], ⟨rfl, hwf.fl⟩, Or.inl ⟨rfl, by show (k 0 : K) ≤ 0; rw [k0]⟩⟩
  have hp : passLoop P items lineW (some P.tolerance) 0 none items (initLB false) = PassRes.done lbf := hp
  have hI : Inv P items lineW (some P.tolerance) items.length lbf :=
    passLoop_inv hrefl P items lineW _ items 0 (initLB false) lbf rfl (Nat.zero_le _) (inv_init P items lineW _ false) hp
  have hovf : lbf.ovf = false := hov
  cases hf : finish P items.length 0 lbf with
  | panic => simp [finish] at hf; split at hf <;> cases hf
  | fuelOut => simp [finish] at hf; split at hf <;> cases hf
  | ok breaks fit =>
    obtain ⟨nb, hnb, hb, hfit, _, hanc, h0⟩ := finish_spec P items lineW _ 0 lbf m hlen hfo hle hI breaks fit hf
    have hmin := (chooseBest_none_min lbf.act nb (h0 rfl)).2 n hn
    refine ⟨breaks, nb.d.dem, ?_, ?_, le_trans hmin hnd⟩
    · unfold linebreak fuelFor
      simp only [linebreakFuel, hp, hf]
      rw [hfit, hovf]; rfl
    · subst hb
      cases ha : nb.anc with
      | nil => exact absurd ha hanc
      | cons p rest =>
        simp only [fixNonRoot, List.getLast?_reverse, List.head?_cons, Option.map_some]
        congr 1
        unfold clampRatio; split <;> rfl

/-- What is proved towards optimality (looseness 0, no overflow reported): the returned breaking is
the parent walk of a node `nb` of the final active list such that
(a) every node of that list — every candidate that survived the pruning — ends a well-formed chain
    of legal breaks whose lines all have their ratio in `[-1, tol]` and whose recorded total
    demerits are exactly the sum of the line demerits along the chain (`chainCost`), and
(b) `nb` has the least total demerits among them.
So the result is optimal among the breakings that survive deactivation and the fitness-class
pruning; that no better breaking is pruned (`optimal_statement`) is tested exhaustively, not proved. -/
theorem optimal_partial (P : Params K) (items : List (Item K)) (lineW : K) (breaks : List (ND K)) (m : Nat)
    (hlen : items.length = m + 1) (hfo : forcedAt P items m = true) (hle : legalAt P items m = true)
    (h : linebreak P items lineW 0 = Outcome.ok breaks true) :
    ∃ tol ovf0 lb nb, passLoop P items lineW tol 0 none items (initLB ovf0) = PassRes.done lb ∧
      (∀ n, n ∈ lb.act → ChainOK P items lineW tol false (n.d :: n.anc) ∧
        n.d.dem = chainCost P items (n.d :: n.anc)) ∧
      nb ∈ lb.act ∧ breaks = (fixNonRoot P (nb.d :: nb.anc)).reverse ∧
      ∀ n, n ∈ lb.act → nb.d.dem ≤ n.d.dem := by
  obtain ⟨tol, ovf0, lb, nb, hp, hI, hnb, hb, hfit, _, _, h0⟩ :=
    run_chain (fun a => beq_self_eq_true a) P items lineW 0 breaks true m hlen hfo hle h
  have hov : lb.ovf = false := by
    cases ho : lb.ovf with
    | false => rfl
    | true => rw [ho] at hfit; cases hfit
  have hch : ∀ n, n ∈ lb.act → ChainOK P items lineW tol false (n.d :: n.anc) := by
    intro n hn
    have := (hI.act n hn).1
    rw [hov] at this
    exact this
  refine ⟨tol, ovf0, lb, nb, hp, ?_, hnb, hb, ?_⟩
  · intro n hn
    exact ⟨hch n hn, chain_cost (hch n hn) n.d n.anc rfl⟩
  · exact (chooseBest_none_min lb.act nb (h0 rfl)).2

end field

/-! ## Witnesses over exact rationals (core `Rat`): the defects of the unchanged code, and
non-vacuity of the hypotheses above. Evaluated by the kernel. -/
section witnesses

def Pq : Params Rat := ⟨2, 10, 100, 100, 1000⟩
def bx (w : Rat) : Item Rat := ⟨Ty.box, w, 0, 0, 0, false⟩
def gl (w y z : Rat) : Item Rat := ⟨Ty.glue, w, y, z, 0, false⟩
def pn (w p : Rat) (f : Bool) : Item Rat := ⟨Ty.penalty, w, 0, 0, p, f⟩
/-- an explicit newline as produced by `GlyphsToItems` -/
def nl : List (Item Rat) := [gl 0 1000 0, pn 0 (-1000) false]

/-- observable part of an outcome: positions, reported widths, `ok` flag -/
def obs : Outcome Rat → Option (List Nat × List Rat × Bool)
  | Outcome.ok brs fit => some (brs.map (·.pos), brs.map (·.width), fit)
  | _ => none

/-- "word\n\nlongword" in a line of width 10 -/
def paraEmptyLine : List (Item Rat) := [bx 5] ++ nl ++ nl ++ [bx 20] ++ nl

/-- Defect witness: the forced break at 4 (the empty line) is not returned. -/
theorem forced_skipped_witness : ¬ forced_included_statement := by
  intro h
  have hrun : obs (linebreak Pq paraEmptyLine 10 0) = some ([2, 7], [5, 20], false) := by decide +kernel
  cases hl : linebreak Pq paraEmptyLine 10 0 with
  | panic => rw [hl] at hrun; cases hrun
  | fuelOut => rw [hl] at hrun; cases hrun
  | ok brs fit =>
    rw [hl] at hrun
    simp only [obs, Option.some.injEq, Prod.mk.injEq] at hrun
    have := h Rat (fun a => by simp) Pq paraEmptyLine 10 0 brs fit 7 (by decide) (by decide +kernel)
      (by decide +kernel) hl 4 (by decide +kernel) (by decide +kernel)
    rw [hrun.1] at this
    exact absurd this (by decide)

/-- Out-of-range witness: a paragraph that ends in glue after a box makes the code read `items[b+1]`. -/
theorem panic_witness : linebreak Pq [bx 1, gl 1 1 1] 10 0 = Outcome.panic := by
  have h : (match linebreak Pq [bx 1, gl 1 1 1] 10 0 with | Outcome.panic => true | _ => false) = true := by
    decide +kernel
  cases hl : linebreak Pq [bx 1, gl 1 1 1] 10 0 with
  | panic => rfl
  | fuelOut => rw [hl] at h; cases h
  | ok b f => rw [hl] at h; cases h

/-- Full statement of feasibility: whenever some legal breaking keeps every line within
`[-1, Tolerance]` (the exhaustive specification `best` finds one), no overflow is reported and the
first pass completes. It does **not** hold for the unchanged code. -/
def feasible_statement : Prop :=
  ∀ (P : Params Rat) (items : List (Item Rat)) (lineW : Rat) (m : Nat), items.length = m + 1 →
    forcedAt P items m = true → legalAt P items m = true → (best P items lineW).isSome = true →
    ∃ breaks lb, linebreak P items lineW 0 = Outcome.ok breaks true ∧
      passLoop P items lineW (some P.tolerance) 0 none items (initLB false) = PassRes.done lb

/-- Defect witness (`nonmonotone-penalty-width`): "9 + hyphen(2) | 1" in a line of width 10.5 — the
single line 9+1 fits, but the node is deactivated at the hyphen and overflow is reported. -/
theorem feasible_missed_witness : ¬ feasible_statement := by
  intro h
  obtain ⟨breaks, lb, h1, _⟩ := h Pq ([bx 9, pn 2 50 true, bx 1] ++ nl) (21 / 2) 4 (by decide) (by decide +kernel)
    (by decide +kernel) (by decide +kernel)
  have hrun : obs (linebreak Pq ([bx 9, pn 2 50 true, bx 1] ++ nl) (21 / 2) 0) = some ([1, 4], [9, 1], false) := by
    decide +kernel
  rw [h1] at hrun
  simp [obs] at hrun

/-- Full statement for the reported measures (also when overflow is reported). It does **not** hold
for the unchanged code: see `reported_widths_ratios_partial` and the next witness. -/
def reported_widths_ratios_statement : Prop :=
  ∀ (P : Params Rat) (items : List (Item Rat)) (lineW : Rat) (breaks : List (ND Rat)) (fit : Bool) (m : Nat),
    items.length = m + 1 → forcedAt P items m = true → legalAt P items m = true →
    linebreak P items lineW 0 = Outcome.ok breaks fit →
    ∀ d, d ∈ breaks.head? → d.width = widthAt items d.pos

/-- Defect witness: the first line of "20 + hyphen(1) | 3" in width 10 ends at the hyphen and is
reported with Width 20 instead of 21 (overflow fallback builds the break without the penalty width). -/
theorem reported_width_overflow_witness : ¬ reported_widths_ratios_statement := by
  intro h
  have hrun : obs (linebreak Pq ([bx 20, pn 1 50 true, bx 3] ++ nl) 10 0) = some ([1, 4], [20, 3], false) := by
    decide +kernel
  cases hl : linebreak Pq ([bx 20, pn 1 50 true, bx 3] ++ nl) 10 0 with
  | panic => rw [hl] at hrun; cases hrun
  | fuelOut => rw [hl] at hrun; cases hrun
  | ok brs fit =>
    rw [hl] at hrun
    simp only [obs, Option.some.injEq, Prod.mk.injEq] at hrun
    have h2 := h Pq ([bx 20, pn 1 50 true, bx 3] ++ nl) 10 brs fit 4 (by decide) (by decide +kernel)
      (by decide +kernel) hl
    cases brs with
    | nil => simp at hrun
    | cons d rest =>
      have hw := h2 d (by simp)
      simp only [List.map_cons, List.cons.injEq] at hrun
      rw [hrun.1.1, hrun.2.1.1] at hw
      revert hw
      decide +kernel

/-- Optimality without any well-formedness assumption on the items. It does **not** hold. -/
def optimal_unrestricted_statement : Prop :=
  ∀ (P : Params Rat) (items : List (Item Rat)) (lineW : Rat) (m : Nat) (dOpt : Rat) (breaks : List (ND Rat)) (fit : Bool),
    items.length = m + 1 → forcedAt P items m = true → legalAt P items m = true →
    best P items lineW = some dOpt → linebreak P items lineW 0 = Outcome.ok breaks fit →
    ∀ d, d ∈ breaks.getLast? → d.dem ≤ dOpt

/-- last reported total demerits and the optimum of the exhaustive specification -/
def obsDem (P : Params Rat) (items : List (Item Rat)) (lineW : Rat) : Option (List Nat × Rat × Option Rat) :=
  match linebreak P items lineW 0 with
  | Outcome.ok brs _ => some (brs.map (·.pos), (brs.getLast?.map (·.dem)).getD 0, best P items lineW)
  | _ => none

/-- "5 1|-50 |+500 3": two penalties with only glue between them -/
def paraTwoPenalties : List (Item Rat) :=
  [bx 5, gl 1 5 0, bx 1, pn 0 (-50) false, gl 1 5 0, pn 0 500 false, gl 1 5 0, bx 3] ++ nl

/-- Defect witness (`break-before-first-box`): the node at the first penalty is deactivated at the
second one by a ratio computed from negative sums; the returned breaking [5, 9] costs more than the
optimum of the exhaustive specification (the legal feasible breaking [3, 9]). -/
theorem suboptimal_witness : ¬ optimal_unrestricted_statement := by
  intro h
  have hw : (match linebreak Pq paraTwoPenalties 10 0, best Pq paraTwoPenalties 10 with
      | Outcome.ok brs _, some dOpt =>
        (match brs.getLast? with | some d => decide (dOpt < d.dem) | none => false)
      | _, _ => false) = true := by decide +kernel
  cases hl : linebreak Pq paraTwoPenalties 10 0 with
  | panic => rw [hl] at hw; cases hw
  | fuelOut => rw [hl] at hw; cases hw
  | ok brs fit =>
    cases hb : best Pq paraTwoPenalties 10 with
    | none => rw [hl, hb] at hw; cases hw
    | some dOpt =>
      rw [hl, hb] at hw
      simp only at hw
      cases hg : brs.getLast? with
      | none => rw [hg] at hw; cases hw
      | some d =>
        rw [hg] at hw
        simp only [decide_eq_true_eq] at hw
        have := h Pq paraTwoPenalties 10 9 dOpt brs fit (by decide) (by decide +kernel) (by decide +kernel) hb hl d
          (by rw [hg]; simp)
        exact absurd (lt_of_lt_of_le hw this) (lt_irrefl _)

/-- non-vacuity: a justified paragraph over `Rat` satisfies the hypotheses of the theorems above
(final forced legal break, successful run without overflow, first pass completes) -/
example : ∃ breaks lb, linebreak Pq ([bx 3, gl 1 (1/2) (1/3), bx 3, gl 1 (1/2) (1/3), bx 3] ++ nl) 8 0 = Outcome.ok breaks true ∧
    passLoop Pq ([bx 3, gl 1 (1/2) (1/3), bx 3, gl 1 (1/2) (1/3), bx 3] ++ nl) 8 (some Pq.tolerance) 0 none
      ([bx 3, gl 1 (1/2) (1/3), bx 3, gl 1 (1/2) (1/3), bx 3] ++ nl) (initLB false) = PassRes.done lb ∧
    forcedAt Pq ([bx 3, gl 1 (1/2) (1/3), bx 3, gl 1 (1/2) (1/3), bx 3] ++ nl) 6 = true ∧
    legalAt Pq ([bx 3, gl 1 (1/2) (1/3), bx 3, gl 1 (1/2) (1/3), bx 3] ++ nl) 6 = true ∧
    breaks.map (·.pos) = [3, 6] := by
  have hrun : obs (linebreak Pq ([bx 3, gl 1 (1/2) (1/3), bx 3, gl 1 (1/2) (1/3), bx 3] ++ nl) 8 0) =
      some ([3, 6], [7, 3], true) := by decide +kernel
  have hpass : (match passLoop Pq ([bx 3, gl 1 (1/2) (1/3), bx 3, gl 1 (1/2) (1/3), bx 3] ++ nl) 8 (some Pq.tolerance) 0 none
      ([bx 3, gl 1 (1/2) (1/3), bx 3, gl 1 (1/2) (1/3), bx 3] ++ nl) (initLB false) with
      | PassRes.done _ => true | _ => false) = true := by decide +kernel
  cases hl : linebreak Pq ([bx 3, gl 1 (1/2) (1/3), bx 3, gl 1 (1/2) (1/3), bx 3] ++ nl) 8 0 with
  | panic => rw [hl] at hrun; cases hrun
  | fuelOut => rw [hl] at hrun; cases hrun
  | ok brs fit =>
    rw [hl] at hrun
    simp only [obs, Option.some.injEq, Prod.mk.injEq] at hrun
    cases hp : passLoop Pq ([bx 3, gl 1 (1/2) (1/3), bx 3, gl 1 (1/2) (1/3), bx 3] ++ nl) 8 (some Pq.tolerance) 0 none
      ([bx 3, gl 1 (1/2) (1/3), bx 3, gl 1 (1/2) (1/3), bx 3] ++ nl) (initLB false) with
    | panic => rw [hp] at hpass; cases hpass
    | restart nt o => rw [hp] at hpass; cases hpass
    | done lb =>
      refine ⟨brs, lb, ?_, rfl, by decide +kernel, by decide +kernel, hrun.1⟩
      rw [hrun.2.2]

/-- the justified paragraph "3 3 3" of the non-vacuity examples -/
def paraJustified : List (Item Rat) := [bx 3, gl 1 (1/2) (1/3), bx 3, gl 1 (1/2) (1/3), bx 3] ++ nl

/-- non-vacuity of `optimal_over_breakings`: the paragraph is well-formed (`WF`) ... -/
example : WF Pq paraJustified 8 := by
  refine ⟨by decide +kernel, by decide +kernel, by decide +kernel, ?_, ?_, by decide +kernel, ?_⟩
  · intro it hit
    simp only [paraJustified, nl, List.cons_append, List.nil_append, List.mem_cons, List.not_mem_nil, or_false] at hit
    rcases hit with rfl | rfl | rfl | rfl | rfl | rfl | rfl <;> decide +kernel
  · intro a b hab ha hb
    have h1 := legalAt_lt ha
    have h2 := legalAt_lt hb
    simp only [paraJustified, nl, List.cons_append, List.nil_append, List.length_cons, List.length_nil] at h1 h2
    interval_cases b <;> interval_cases a <;> first | omega | (revert ha hb; decide +kernel)
  · intro b it hb hg
    have h1 : b < paraJustified.length := (List.getElem?_eq_some_iff.mp hb).1
    simp only [paraJustified, nl, List.cons_append, List.nil_append, List.length_cons, List.length_nil] at h1 ⊢
    interval_cases b <;> first | omega | (revert hb hg; simp [paraJustified, nl, bx, gl, pn]; done) |
      (revert hb hg; simp [paraJustified, nl, bx, gl, pn]; intro hg he; rw [← he] at hg; cases hg)

/-- ... and the breaking [3, 6] satisfies the hypotheses on `seq` (legal, feasible, no forced break skipped) -/
example : (seqCost Pq paraJustified 8 (some Pq.tolerance) none 1 0 [3, 6]).isSome = true ∧
    [3, 6].Pairwise (· < ·) ∧ [3, 6].getLast? = some 6 := by
  refine ⟨by decide +kernel, by decide, rfl⟩

example : NoSkip Pq paraJustified none [3, 6] := by
  refine ⟨?_, ?_, True.intro⟩
  · intro f _ hf; interval_cases f <;> decide +kernel
  · intro f h1 hf
    have := h1 3 rfl
    interval_cases f <;> decide +kernel

end witnesses

end C17
