import CanvasProofs.Lemmas.C12Pdf
import CanvasProofs.Lemmas.C12PsRef
import CanvasProofs.Lemmas.C12Svg
import CanvasProofs.Lemmas.C12Verdict
/-!
# C12 — SVG, PDF and PostScript output encode the drawing the rasterizer renders

Property theorems about the L2 emitter models (`CanvasModel/C12.lean`, tied to /repo by token
correspondence on every run) and the L3 format interpreters.
-/
namespace C12
open Canvas Canvas.C12

variable {ν : Type} {N : Num ν}

/-- the operators of a whole program, in emission order -/
def pdfOps (N : Num ν) (ds : List (Draw ν)) (w : PW ν) : List (POp ν) := (pdfProg N ds w).2.flatten
def pdfFinal (N : Num ν) (ds : List (Draw ν)) (w : PW ν) : PW ν := (pdfProg N ds w).1

/-- `Inv` for one call, unconditionally (any scalars, any paints, any cache): after interpreting what
`PDF.RenderPath` emitted from the state the cache claims, the graphics state is the one the new cache
claims. "Only emit what changed" never desynchronises cache and graphics state. -/
theorem pdf_inv_step (d : Draw ν) (w : PW ν) :
    (pdfRun (gOf w.c) (pdfDraw N d w).2).1 = gOf (pdfDraw N d w).1.c := by
  obtain ⟨out, h⟩ := pdfDraw_simE (N := N) d w
  unfold PSim at h
  rw [h]

/-- `Inv` lifted to every program by induction over the list of calls. -/
theorem pdf_inv_program (ds : List (Draw ν)) (w : PW ν) :
    (pdfRun (gOf w.c) (pdfOps N ds w)).1 = gOf (pdfFinal N ds w).c := by
  induction ds generalizing w with
  | nil => simp [pdfOps, pdfFinal, pdfProg, pdfRun]
  | cons d ds ih =>
    have h := pdf_inv_step (N := N) d w
    have := ih (pdfDraw N d w).1
    simp only [pdfOps, pdfFinal, pdfProg, List.flatten_cons, pdfRun_append] at *
    rw [h, this]

/-- … in particular from a fresh page: the initial cache describes the initial graphics state. -/
theorem pdf_inv_from_new_page (ds : List (Draw ν)) :
    (pdfRun (pg0 N) (pdfOps N ds (pw0 N))).1 = gOf (pdfFinal N ds (pw0 N)).c := by
  have : pg0 N = gOf (pw0 N).c := by simp [pg0, gOf, pw0, shadeOf, black]
  rw [this]
  exact pdf_inv_program ds _

/-- One call refines the reference from ANY cache (fill, then native stroke or explicit outline; colours,
alpha, width·s, cap, join, limit, dashes·width·s, closing operator), when `==` is lawful; cache
well-formedness (empty dash array cached with phase 0) is maintained. -/
theorem pdf_step_refines (L : Lawful N) (d : Draw ν) (w : PW ν) (hi : PInv N w.c) :
    pdfRun (gOf w.c) (pdfDraw N d w).2 = (gOf (pdfDraw N d w).1.c, pdfRef N d) ∧ PInv N (pdfDraw N d w).1.c :=
  pdfDraw_refines L d w hi

/-- `pdf_refines` for every program from every well-formed cache: the interpreter paints exactly the
reference items of all calls, in order, and ends in the state the final cache claims. -/
theorem pdf_refines_from (L : Lawful N) (ds : List (Draw ν)) (w : PW ν) (hi : PInv N w.c) :
    pdfRun (gOf w.c) (pdfOps N ds w) = (gOf (pdfFinal N ds w).c, ds.flatMap (pdfRef N)) := by
  induction ds generalizing w with
  | nil => simp [pdfOps, pdfFinal, pdfProg, pdfRun]
  | cons d ds ih =>
    have h := pdfDraw_refines L d w hi
    have h' := ih (pdfDraw N d w).1 h.2
    unfold PSim at h
    simp only [pdfOps, pdfFinal, pdfProg, List.flatten_cons, pdfRun_append, List.flatMap_cons] at *
    rw [h.1, h']

/-- Full statement: interpreting the content stream of ANY program on a new page paints exactly the
reference items (full strength since the repairs 8a6095d and 413caa6). -/
def pdf_refines_statement (N : Num ν) : Prop :=
  ∀ ds : List (Draw ν), (pdfRun (pg0 N) (pdfOps N ds (pw0 N))).2 = ds.flatMap (pdfRef N)

theorem pdf_refines (L : Lawful N) : pdf_refines_statement N := by
  intro ds
  have e : pg0 N = gOf (pw0 N).c := by simp [pg0, gOf, pw0, shadeOf, black]
  rw [e, pdf_refines_from L ds (pw0 N) (by intro _; rfl)]

/-! ### instances over ν := Nat (non-vacuity of `Lawful`, regression instances of the repaired defects) -/

def natNum : Num Nat :=
  { zero := 0, one := 1, ten := 10, mul := (· * ·), add := (· + ·), beq := fun a b => decide (a = b),
    lt := fun a b => decide (a < b), near4 := fun a => decide (a = 4) }

theorem natNum_lawful : Lawful natNum :=
  ⟨by intro x y; simp [natNum], by intro x h; simp [natNum] at *; omega⟩

def halfRed : Col := ⟨128, 0, 0, 128⟩
def blue : Col := ⟨0, 0, 255, 255⟩
def fillOnly (c : Col) (pid : Nat) : Draw Nat :=
  { fill := .col c, stroke := .none, width := 1, cap := 0, join := .bevel, dashOff := 0, dashes := [], evenOdd := false,
    sim := true, scale := 1, closed := true, pid := pid, outlineEmpty := false }
def strokeOnly (c : Col) (pid : Nat) : Draw Nat :=
  { fillOnly c pid with fill := .none, stroke := .col c }

def alphaOf : Painted Nat → Option Nat
  | .fill _ _ _ a => some a
  | .stroke _ _ _ a _ _ _ _ _ _ => some a
  | .image _ a => some a
  | .invalid _ => none

/-- the former stale-alpha program (fill alpha .5, stroke alpha 1, the same fill again): the third fill
is painted with its own alpha again (instance of `pdf_refines`, kept as a regression example) -/
example :
    (pdfRun (pg0 natNum) (pdfOps natNum [fillOnly halfRed 0, strokeOnly blue 1, fillOnly halfRed 2] (pw0 natNum))).2.map alphaOf
      = [some 128, some 255, some 128] := by decide

/-- the former empty-outline instance (a stroke PDF cannot express whose outline is empty): nothing is written
and nothing is painted — no painting operator without a path (66cce0f; regression example) -/
example :
    (pdfRun (pg0 natNum) (pdfOps natNum [{ strokeOnly black 0 with join := .miter 2 (some 4), outlineEmpty := true }] (pw0 natNum))).2.map alphaOf = [] ∧
    pdfOps natNum [{ strokeOnly black 0 with join := .miter 2 (some 4), outlineEmpty := true }] (pw0 natNum) = [] := by
  constructor <;> decide

/-! ### images (`pdfPageWriter.DrawImage`): `SetAlpha(1.0) q … Do Q` -/

/-- an image is always painted opaque -/
theorem pdf_image_painted_opaque (k : Nat) (w : PW ν) :
    (pdfRun (gOf w.c) (pdfImage k w).2).2 = [.image k 255] := by
  unfold pdfImage setAlpha
  by_cases h : (255 != w.c.alpha) = true
  · simp [h, pdfRun, pdfStep, gOf, PG.snap]
  · have e : 255 = w.c.alpha := by simpa using h
    simp [h, pdfRun, pdfStep, gOf, PG.snap, ← e]

/-- Full statement of `Inv` for an image call from ANY cache. -/
def pdf_image_inv_statement (N : Num ν) : Prop :=
  ∀ (k : Nat) (w : PW ν), (pdfRun (gOf w.c) (pdfImage k w).2).1 = gOf (pdfImage k w).1.c

/-- `Inv` for an image call (full strength since 5295a66): `q` saves and `Q` restores exactly the state the
cache claims, because the only cached parameter DrawImage changes (alpha) is set before the `q`. -/
theorem pdf_image_inv : pdf_image_inv_statement (ν := ν) N := by
  intro k w
  unfold pdfImage setAlpha
  by_cases h : (255 != w.c.alpha) = true
  · simp [h, pdfRun, pdfStep, gOf, PG.snap]
  · simp [h, pdfRun, pdfStep, gOf, PG.snap]

def itemOps (N : Num ν) (its : List (Item ν)) (pg : PPage ν) : List (POp ν) := (pdfItems N its pg).2.flatten
def itemFinal (N : Num ν) (its : List (Item ν)) (pg : PPage ν) : PPage ν := (pdfItems N its pg).1

/-- `Inv` for EVERY page mixing path draws and images, from any cache, by induction over the call list. -/
theorem pdf_inv_items (its : List (Item ν)) (pg : PPage ν) :
    (pdfRun (gOf pg.w.c) (itemOps N its pg)).1 = gOf (itemFinal N its pg).w.c := by
  induction its generalizing pg with
  | nil => simp [itemOps, itemFinal, pdfItems, pdfRun]
  | cons it its ih =>
    cases it with
    | draw d =>
      have h1 := pdf_inv_step (N := N) d pg.w
      have h2 := ih (pdfItem N (.draw d) pg).1
      simp only [itemOps, itemFinal, pdfItems, pdfItem, List.flatten_cons, pdfRun_append] at *
      rw [h1, h2]
    | image =>
      have h1 := pdf_image_inv (N := N) pg.nimg pg.w
      have h2 := ih (pdfItem N .image pg).1
      simp only [itemOps, itemFinal, pdfItems, pdfItem, List.flatten_cons, pdfRun_append] at *
      rw [h1, h2]

/-- the formerly failing program (half-transparent fill, image, opaque fill): the opaque fill is painted
at alpha 255 (regression example) -/
example :
    (pdfRun (pg0 natNum) (itemOps natNum [.draw (fillOnly halfRed 0), .image, .draw (fillOnly blue 1)] ⟨pw0 natNum, 0⟩)).2.map alphaOf
      = [some 128, some 255, some 255] := by decide

/-! ## PostScript -/

def psOps (N : Num ν) (ds : List (Draw ν)) (w : SW ν) : List (SOp ν) := (psProg N ds w).2.flatten
def psFinal (N : Num ν) (ds : List (Draw ν)) (w : SW ν) : SW ν := (psProg N ds w).1

/-- `Inv` for one `PS.RenderPath` call from ANY cache: cache = interpreter state afterwards (including
across `gsave fill grestore`); full strength since the repair b63a583. -/
theorem ps_inv_step (L : Lawful N) (d : Draw ν) (w : SW ν) :
    (psRun (sgOf N w) (psDraw N d w).2).1 = sgOf N (psDraw N d w).1 :=
  psDraw_inv L d w

/-- … lifted to every program by induction. -/
theorem ps_inv_program (L : Lawful N) (ds : List (Draw ν)) (w : SW ν) :
    (psRun (sgOf N w) (psOps N ds w)).1 = sgOf N (psFinal N ds w) := by
  induction ds generalizing w with
  | nil => simp [psOps, psFinal, psProg, psRun]
  | cons d ds ih =>
    have h := ps_inv_step L d w
    have h' := ih (psDraw N d w).1
    simp only [psOps, psFinal, psProg, List.flatten_cons, psRun_append] at *
    rw [h, h']

/-- Full statement of `Inv` for PostScript from the start of the program. -/
def ps_inv_statement (N : Num ν) : Prop :=
  ∀ ds : List (Draw ν), (psRun (sg0 N) (psOps N ds (sw0 N))).1 = sgOf N (psFinal N ds (sw0 N))

theorem ps_inv_from_start (L : Lawful N) : ps_inv_statement N := by
  intro ds
  have e : sg0 N = sgOf N (sw0 N) := by
    simp [sg0, sgOf, sw0, Paint.nrgb, psJoinCode, (L.beq_iff _ _).2 rfl]
  rw [e]
  exact ps_inv_program L ds _

def shadeOfItem : Painted Nat → Option Shade
  | .fill _ _ s _ => some s
  | .stroke _ _ s _ _ _ _ _ _ _ => some s
  | _ => none

/-- the former colour-cache program ({50,0,0,128} then {50,0,0,255}): the second fill gets its colour
operator and is painted 50/255 as the reference says (regression example) -/
example :
    (psRun (sg0 natNum) (psOps natNum [fillOnly ⟨50, 0, 0, 128⟩ 0, fillOnly ⟨50, 0, 0, 255⟩ 1] (sw0 natNum))).2.map shadeOfItem
      = ([fillOnly ⟨50, 0, 0, 128⟩ 0, fillOnly ⟨50, 0, 0, 255⟩ 1].flatMap (psRef natNum)).map shadeOfItem := by decide

/-- One `PS.RenderPath` call refines the reference from ANY well-formed cache: the interpreter (graphics state
with current path, gsave/grestore stack) paints the fill, then the native stroke (width·s, cap, join, limit,
dashes·width·s) or the explicit outline, in the un-premultiplied colours. Excluded class: gradient paints
(the PostScript back-end has none: recorded finding C12-ps-gradient-as-solid). -/
theorem ps_step_refines_partial (L : Lawful N) (d : Draw ν) (w : SW ν) (hw : PSWF w)
    (hf : d.fill.noGrad) (hs : d.stroke.noGrad) :
    psRun (sgOf N w) (psDraw N d w).2 = (sgOf N (psDraw N d w).1, psRef N d) ∧ PSWF (psDraw N d w).1 :=
  psDraw_refines L d w hw hf hs

/-- … lifted to every gradient-free program by induction. -/
theorem ps_refines_partial (L : Lawful N) (ds : List (Draw ν)) (w : SW ν) (hw : PSWF w)
    (hg : ∀ d ∈ ds, d.fill.noGrad ∧ d.stroke.noGrad) :
    psRun (sgOf N w) (psOps N ds w) = (sgOf N (psFinal N ds w), ds.flatMap (psRef N)) := by
  induction ds generalizing w with
  | nil => simp [psOps, psFinal, psProg, psRun]
  | cons d ds ih =>
    have h := psDraw_refines L d w hw (hg d (by simp)).1 (hg d (by simp)).2
    have h' := ih (psDraw N d w).1 h.2 (fun d' hd' => hg d' (by simp [hd']))
    simp only [psOps, psFinal, psProg, List.flatten_cons, psRun_append, List.flatMap_cons] at *
    rw [h.1, h']

/-- Full statement (false for the current code: `ps_gradient_witness`). -/
def ps_refines_statement (N : Num ν) : Prop :=
  ∀ ds : List (Draw ν), (psRun (sg0 N) (psOps N ds (sw0 N))).2 = ds.flatMap (psRef N)

theorem ps_refines_from_start_partial (L : Lawful N) (ds : List (Draw ν))
    (hg : ∀ d ∈ ds, d.fill.noGrad ∧ d.stroke.noGrad) :
    (psRun (sg0 N) (psOps N ds (sw0 N))).2 = ds.flatMap (psRef N) := by
  have e : sg0 N = sgOf N (sw0 N) := by
    simp [sg0, sgOf, sw0, Paint.nrgb, psJoinCode, (L.beq_iff _ _).2 rfl]
  rw [e, ps_refines_partial L ds (sw0 N) (by intro g l h; simp [sw0] at h) hg]

/-- non-vacuity: a two-call colour program satisfies the hypotheses -/
example : ∀ d ∈ [fillOnly halfRed 0, strokeOnly blue 1], d.fill.noGrad ∧ d.stroke.noGrad := by
  intro d hd
  simp at hd
  rcases hd with rfl | rfl <;> exact ⟨trivial, trivial⟩

/-- a gradient fill: PostScript output paints it black, the reference is the gradient -/
def gradFill : Draw Nat := { fillOnly black 0 with fill := .grad 7 }

theorem ps_gradient_witness :
    (psRun (sg0 natNum) (psOps natNum [gradFill] (sw0 natNum))).2.map shadeOfItem = [some (.rgb 0 0 0 255)] ∧
    ([gradFill].flatMap (psRef natNum)).map shadeOfItem = [some (.pat 7)] := by
  constructor <;> decide

theorem ps_refines_statement_false : ¬ ps_refines_statement natNum := by
  intro h
  have := congrArg (List.map shadeOfItem) (h [gradFill])
  rw [ps_gradient_witness.1, ps_gradient_witness.2] at this
  exact absurd this (by decide)

/-! ## SVG -/

/-- Full statement for SVG. -/
def svg_refines_statement (N : Num ν) : Prop := ∀ d : Draw ν, d.cap ≤ 2 → svgRun N (svgDraw N d) = svgRef N d

/-- reading the `<path>` elements of one call with the SVG initial values (fill black, stroke none,
width 1, butt, miter 4, no dashes) yields the reference items, for every style and view (full strength
since the repair 27816bc; `cap ≤ 2` is the encoding of the three cappers). No assumption on `==`. -/
theorem svg_refines : svg_refines_statement N := fun d hc => svgDraw_refines d hc

theorem svg_program_refines (ds : List (Draw ν)) (h : ∀ d ∈ ds, d.cap ≤ 2) :
    ds.flatMap (fun d => svgRun N (svgDraw N d)) = ds.flatMap (svgRef N) := by
  induction ds with
  | nil => rfl
  | cons d ds ih =>
    simp only [List.flatMap_cons]
    rw [svg_refines d (h d (by simp)), ih (fun d' hd' => h d' (by simp [hd']))]

/-- every `url(#p…)` written by a call refers to a gradient whose `<defs>` this or an earlier call has written
(hypothesis: a drawn stroke also has a positive unscaled width, true for every scale factor ≥ 0) -/
theorem svg_gradient_refs_defined (d : Draw ν) (pats : List Nat)
    (hsc : d.hasStroke N d.join.svgOk = true → N.lt N.zero d.width = true) :
    ∀ e ∈ svgDraw N d, ∀ i ∈ elemGrads e, i ∈ (svgDefs N d pats).1 :=
  svg_refs_defined d pats hsc

/-- the gradient table only grows: ids handed out earlier stay valid -/
theorem svg_table_grows (d : Draw ν) (pats : List Nat) : ∀ i ∈ pats, i ∈ (svgDefs N d pats).1 := by
  intro i hi
  unfold svgDefs
  exact svgRegister_sub _ _ _ i (svgRegister_sub _ _ (pats, []) i hi)

/-- non-vacuity: a gradient stroke of width 1 under scale 1 satisfies the hypothesis and references gradient 3 -/
example : (svgDraw natNum { strokeOnly black 0 with stroke := .grad 3 }).flatMap elemGrads = [3] ∧
    (svgDefs natNum { strokeOnly black 0 with stroke := .grad 3 } []).1 = [3] := by decide

def evenOddOf : Painted Nat → Option Bool
  | .fill _ eo _ _ => some eo
  | _ => none

/-- the former even-odd outline instance (miter-clip joiner, EvenOdd): the outline is filled NonZero -/
example : (svgRun natNum (svgDraw natNum { strokeOnly black 0 with join := .miter 2 (some 4), evenOdd := true })).map evenOddOf
    = [some false] := by decide

/-! ## the verdict on real PDF token streams (`PDFV` lines, decided by `Verdict.matchItems`) -/
open Canvas.C12.Verdict in
/-- SOUNDNESS of the verdict: "no difference" means the observed items are as many as the expected ones and
agree pairwise in kind, path (drawn path / explicit outline), fill rule resp. closing operator, colour
(device colour component-wise close, pattern names consistently bound), alpha and — for strokes — width, cap,
join, miter limit, dash array and phase, up to the closeness predicate. -/
theorem verdict_sound {close : ν → ν → Bool} (b : Bind) (es os : List (TItem ν))
    (h : (matchItems close b es os).1 = none) : AllAgree close b es os ∧ es.length = os.length :=
  ⟨matchItems_sound b es os h, matchItems_length b es os h⟩

open Canvas.C12.Verdict in
/-- an `invalid` observation (unknown operator, operand error, undefined resource, Q without q) is never accepted -/
theorem verdict_rejects_invalid {close : ν → ν → Bool} (b : Bind) (es os : List (TItem ν)) (why : String) :
    (matchItems close b es (.invalid why :: os)).1 ≠ none :=
  matchItems_invalid b es why os

open Canvas.C12.Verdict in
/-- MONOTONE in the tolerance: accepting under `close` implies accepting under any weaker `close'` -/
theorem verdict_mono {close close' : ν → ν → Bool} (hm : ∀ x y, close x y = true → close' x y = true)
    (b : Bind) (es os : List (TItem ν)) (h : (matchItems close b es os).1 = none) :
    (matchItems close' b es os).1 = none :=
  matchItems_mono hm b es os h

open Canvas.C12.Verdict in
/-- exact observations of device-colour items are accepted by every reflexive closeness predicate -/
theorem verdict_accepts_exact {close : ν → ν → Bool} (hr : ∀ x, close x x = true) (b : Bind) (es : List (TItem ν))
    (hp : ∀ e ∈ es, plainItem e) : (matchItems close b es es).1 = none :=
  matchItems_refl hr b es hp

end C12
