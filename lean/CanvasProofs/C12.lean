import CanvasProofs.Lemmas.C12Pdf
import CanvasProofs.Lemmas.C12Ps
import CanvasProofs.Lemmas.C12Svg
/-!
# C12 — SVG, PDF and PostScript output encode the drawing the rasterizer renders

Property theorems about the L2 emitter models (`CanvasModel/C12.lean`, tied to /repo by token
correspondence on every run) and the L3 format interpreters.
-/
namespace C12
open Canvas Canvas.C12

variable {ν : Type} {N : Num ν}

/-- the operators of a whole program, in emission order -/
def pdfOps (N : Num ν) (ds : List (Draw ν)) (w : PW ν) : List (POp ν) := (pdfProg N ds w).2.flatten
def pdfFinal (N : Num ν) (ds : List (Draw ν)) (w : PW ν) : PW ν := (pdfProg N ds w).1

/-- Full statement (not provable for the current code, see `pdf_stale_alpha_witness`): interpreting the
content stream of ANY program paints exactly the reference items. -/
def pdf_refines_statement (N : Num ν) : Prop :=
  ∀ ds : List (Draw ν), (pdfRun (pg0 N) (pdfOps N ds (pw0 N))).2 = ds.flatMap (pdfRef N)

/-- `Inv` for one call, unconditionally (any scalars, any paints, any cache): after interpreting what
`PDF.RenderPath` emitted from the state the cache claims, the graphics state is the one the new cache
claims. "Only emit what changed" never desynchronises cache and graphics state. -/
theorem pdf_inv_step (d : Draw ν) (w : PW ν) :
    (pdfRun (gOf w.c) (pdfDraw N d w).2).1 = gOf (pdfDraw N d w).1.c := by
  obtain ⟨out, h⟩ := pdfDraw_simE (N := N) d w
  unfold PSim at h
  rw [h]

/-- `Inv` lifted to every program by induction over the list of calls. -/
theorem pdf_inv_program (ds : List (Draw ν)) (w : PW ν) :
    (pdfRun (gOf w.c) (pdfOps N ds w)).1 = gOf (pdfFinal N ds w).c := by
  induction ds generalizing w with
  | nil => simp [pdfOps, pdfFinal, pdfProg, pdfRun]
  | cons d ds ih =>
    have h := pdf_inv_step (N := N) d w
    have := ih (pdfDraw N d w).1
    simp only [pdfOps, pdfFinal, pdfProg, List.flatten_cons, pdfRun_append] at *
    rw [h, this]

/-- … in particular from a fresh page: the initial cache describes the initial graphics state. -/
theorem pdf_inv_from_new_page (ds : List (Draw ν)) :
    (pdfRun (pg0 N) (pdfOps N ds (pw0 N))).1 = gOf (pdfFinal N ds (pw0 N)).c := by
  have : pg0 N = gOf (pw0 N).c := by simp [pg0, gOf, pw0, shadeOf, black]
  rw [this]
  exact pdf_inv_program ds _

/-- One call refines the reference (fill, then native stroke or explicit outline; colours, alpha,
width·s, cap, join, limit, dashes·width·s, closing operator), when `==` is lawful and the paints' alpha
is the cache's alpha `a`; alpha and cache well-formedness are maintained. -/
theorem pdf_step_refines_partial (L : Lawful N) (d : Draw ν) (w : PW ν) (a : Nat) (hw : w.c.alpha = a)
    (hu : d.UniformAlpha a) (hi : PInv N w.c) :
    pdfRun (gOf w.c) (pdfDraw N d w).2 = (gOf (pdfDraw N d w).1.c, pdfRef N d) ∧
    (pdfDraw N d w).1.c.alpha = a ∧ PInv N (pdfDraw N d w).1.c :=
  pdfDraw_refines L d w a hw hu hi

/-- `pdf_refines` for every program whose paints all have the alpha the page is in (excluded class:
programs mixing alpha values, the recorded defect `pdf:alpha:stale-on-cached-paint`, and gradients
under a non-opaque alpha). -/
theorem pdf_refines_partial (L : Lawful N) (a : Nat) (ds : List (Draw ν)) (w : PW ν) (hw : w.c.alpha = a)
    (hu : ∀ d ∈ ds, d.UniformAlpha a) (hi : PInv N w.c) :
    pdfRun (gOf w.c) (pdfOps N ds w) = (gOf (pdfFinal N ds w).c, ds.flatMap (pdfRef N)) := by
  induction ds generalizing w with
  | nil => simp [pdfOps, pdfFinal, pdfProg, pdfRun]
  | cons d ds ih =>
    have h := pdfDraw_refines L d w a hw (hu d (by simp)) hi
    have h' := ih (pdfDraw N d w).1 h.2.1 (fun d' hd' => hu d' (by simp [hd'])) h.2.2
    unfold PSim at h
    simp only [pdfOps, pdfFinal, pdfProg, List.flatten_cons, pdfRun_append, List.flatMap_cons] at *
    rw [h.1, h']

/-- every opaque program on a new page paints exactly the reference items -/
theorem pdf_refines_opaque (L : Lawful N) (ds : List (Draw ν)) (hu : ∀ d ∈ ds, d.UniformAlpha 255) :
    (pdfRun (pg0 N) (pdfOps N ds (pw0 N))).2 = ds.flatMap (pdfRef N) := by
  have e : pg0 N = gOf (pw0 N).c := by simp [pg0, gOf, pw0, shadeOf, black]
  rw [e, pdf_refines_partial L 255 ds (pw0 N) rfl hu (by intro _; rfl)]

/-! ### witnesses over ν := Nat -/

def natNum : Num Nat :=
  { zero := 0, one := 1, ten := 10, mul := (· * ·), add := (· + ·), beq := fun a b => decide (a = b),
    lt := fun a b => decide (a < b), near4 := fun a => decide (a = 4) }

theorem natNum_lawful : Lawful natNum :=
  ⟨by intro x y; simp [natNum], by intro x h; simp [natNum] at *; omega⟩

def halfRed : Col := ⟨128, 0, 0, 128⟩
def fillOnly (c : Col) (pid : Nat) : Draw Nat :=
  { fill := .col c, stroke := .none, width := 1, cap := 0, join := .bevel, dashOff := 0, dashes := [], evenOdd := false,
    sim := true, scale := 1, closed := true, pid := pid }
def strokeOnly (c : Col) (pid : Nat) : Draw Nat :=
  { fillOnly c pid with fill := .none, stroke := .col c }

def alphaOf : Painted Nat → Option Nat
  | .fill _ _ _ a => some a
  | .stroke _ _ _ a _ _ _ _ _ _ => some a
  | .invalid _ => none

/-- DESIGN §6 suspect, as a three-call program: fill(alpha .5), stroke(alpha 1), the same fill again.
`SetFill` returns early on the third call (the cached fill is equal) although `SetStroke` has moved
the page to alpha 1: the third fill is painted opaque, the reference says alpha 128/255. -/
def blue : Col := ⟨0, 0, 255, 255⟩
def staleProg : List (Draw Nat) := [fillOnly halfRed 0, strokeOnly blue 1, fillOnly halfRed 2]

theorem pdf_stale_alpha_witness :
    ((pdfRun (pg0 natNum) (pdfOps natNum staleProg (pw0 natNum))).2.map alphaOf = [some 128, some 255, some 255]) ∧
    ((staleProg.flatMap (pdfRef natNum)).map alphaOf = [some 128, some 255, some 128]) := by
  constructor <;> decide

theorem pdf_refines_statement_false : ¬ pdf_refines_statement natNum := by
  intro h
  have := congrArg (List.map alphaOf) (h staleProg)
  rw [pdf_stale_alpha_witness.1, pdf_stale_alpha_witness.2] at this
  exact absurd this (by decide)

/-- non-vacuity of the partial theorem's hypotheses: an opaque three-call program -/
example : ∀ d ∈ [fillOnly black 0, strokeOnly black 1, fillOnly ⟨255, 0, 0, 255⟩ 2], d.UniformAlpha 255 := by
  intro d hd
  simp at hd
  rcases hd with rfl | rfl | rfl <;> exact ⟨by simp [fillOnly, strokeOnly, Paint.alphaIs, black], by simp [fillOnly, strokeOnly, Paint.alphaIs, black]⟩

/-! ## PostScript -/

def psOps (N : Num ν) (ds : List (Draw ν)) (w : SW ν) : List (SOp ν) := (psProg N ds w).2.flatten
def psFinal (N : Num ν) (ds : List (Draw ν)) (w : SW ν) : SW ν := (psProg N ds w).1

/-- Full statement of `Inv` for PostScript (false for the current code: `ps_colour_cache_witness`). -/
def ps_inv_statement (N : Num ν) : Prop :=
  ∀ ds : List (Draw ν), (psRun (sg0 N) (psOps N ds (sw0 N))).1 = sgOf N (psFinal N ds (sw0 N))

/-- an opaque colour with byte components (its un-premultiplied bytes are its premultiplied bytes), or no paint -/
def opaquePaint : Paint → Prop
  | .col c => c.a = 255 ∧ c.r ≤ 255 ∧ c.g ≤ 255 ∧ c.b ≤ 255
  | .none => True
  | .grad _ => False

theorem opaque_nrgb {p : Paint} (h : opaquePaint p) : p.nrgb = p.premul := by
  cases p with
  | none => rfl
  | grad i => exact absurd h id
  | col c =>
    obtain ⟨ha, hr, hg, hb⟩ := h
    simp only [Paint.nrgb, Paint.premul, unpremul, ha]
    simp
    omega

theorem PaintOK_opaque (w : SW ν) (p : Paint) (hw : opaquePaint w.paint) : PaintOK w p := by
  by_cases h : p.nrgb = w.paint.premul
  · exact Or.inr (Or.inr (by rw [h, opaque_nrgb hw]))
  · exact Or.inr (Or.inl h)

/-- `Inv` for one `PS.RenderPath` call: cache = interpreter state afterwards (including across
`gsave fill grestore`), when the cached paint is opaque; the excluded class is the colour-cache defect. -/
theorem ps_inv_step_partial (L : Lawful N) (d : Draw ν) (w : SW ν) (hw : opaquePaint w.paint)
    (hf : opaquePaint d.fill) (hs : opaquePaint d.stroke) :
    (psRun (sgOf N w) (psDraw N d w).2).1 = sgOf N (psDraw N d w).1 ∧ opaquePaint (psDraw N d w).1.paint := by
  have h := psDraw_inv L d w (fun _ => PaintOK_opaque w d.fill hw)
    (fun _ w' hw' => PaintOK_opaque w' d.stroke (by rw [hw']; split <;> assumption))
  refine ⟨h.1, ?_⟩
  rw [h.2]
  split
  · exact hs
  · split <;> assumption

/-- … lifted to every opaque program by induction. -/
theorem ps_inv_program_partial (L : Lawful N) (ds : List (Draw ν)) (w : SW ν) (hw : opaquePaint w.paint)
    (hd : ∀ d ∈ ds, opaquePaint d.fill ∧ opaquePaint d.stroke) :
    (psRun (sgOf N w) (psOps N ds w)).1 = sgOf N (psFinal N ds w) := by
  induction ds generalizing w with
  | nil => simp [psOps, psFinal, psProg, psRun]
  | cons d ds ih =>
    have h := ps_inv_step_partial L d w hw (hd d (by simp)).1 (hd d (by simp)).2
    have h' := ih (psDraw N d w).1 h.2 (fun d' hd' => hd d' (by simp [hd']))
    simp only [psOps, psFinal, psProg, List.flatten_cons, psRun_append] at *
    rw [h.1, h']

theorem ps_inv_from_start_partial (L : Lawful N) (ds : List (Draw ν))
    (hd : ∀ d ∈ ds, opaquePaint d.fill ∧ opaquePaint d.stroke) :
    (psRun (sg0 N) (psOps N ds (sw0 N))).1 = sgOf N (psFinal N ds (sw0 N)) := by
  have e : sg0 N = sgOf N (sw0 N) := by
    simp [sg0, sgOf, sw0, Paint.nrgb, psJoinCode, (L.beq_iff _ _).2 rfl]
  rw [e]
  exact ps_inv_program_partial L ds _ trivial hd

/-- DESIGN §6 suspect: `setPaint` compares the new un-premultiplied bytes with the cached premultiplied
bytes. {50,0,0,128} then {50,0,0,255}: no colour operator for the second fill; it is painted with
red 99/255 where the reference says 50/255, and cache and interpreter state disagree afterwards. -/
def psProgBad : List (Draw Nat) := [fillOnly ⟨50, 0, 0, 128⟩ 0, fillOnly ⟨50, 0, 0, 255⟩ 1]

def shadeOfItem : Painted Nat → Option Shade
  | .fill _ _ s _ => some s
  | .stroke _ _ s _ _ _ _ _ _ _ => some s
  | .invalid _ => none

theorem ps_colour_cache_witness :
    (psRun (sg0 natNum) (psOps natNum psProgBad (sw0 natNum))).2.map shadeOfItem = [some (.rgb 99 0 0 255), some (.rgb 99 0 0 255)] ∧
    (psProgBad.flatMap (psRef natNum)).map shadeOfItem = [some (.rgb 99 0 0 255), some (.rgb 50 0 0 255)] ∧
    (psRun (sg0 natNum) (psOps natNum psProgBad (sw0 natNum))).1.col ≠ (sgOf natNum (psFinal natNum psProgBad (sw0 natNum))).col := by
  refine ⟨by decide, by decide, by decide⟩

theorem ps_inv_statement_false : ¬ ps_inv_statement natNum := by
  intro h
  exact ps_colour_cache_witness.2.2 (congrArg (fun g => g.col) (h psProgBad))

/-! ## SVG -/

/-- Full statement for SVG (false: `svg_outline_evenodd_witness`). -/
def svg_refines_statement (N : Num ν) : Prop := ∀ d : Draw ν, d.cap ≤ 2 → svgRun N (svgDraw N d) = svgRef N d

/-- reading the `<path>` elements of one call with the SVG initial values (fill black, stroke none,
width 1, butt, miter 4, no dashes) yields the reference items, for every style and view, except when
the explicit outline carries the style's even-odd rule. No assumption on `==`. -/
theorem svg_refines_partial (d : Draw ν) (hc : d.cap ≤ 2)
    (hx : ¬ (d.hasStroke N d.join.svgOk = true ∧ d.native d.join.svgOk = false ∧ d.evenOdd = true)) :
    svgRun N (svgDraw N d) = svgRef N d :=
  svgDraw_refines d hc hx

theorem svg_program_refines_partial (ds : List (Draw ν))
    (h : ∀ d ∈ ds, d.cap ≤ 2 ∧ ¬ (d.hasStroke N d.join.svgOk = true ∧ d.native d.join.svgOk = false ∧ d.evenOdd = true)) :
    ds.flatMap (fun d => svgRun N (svgDraw N d)) = ds.flatMap (svgRef N) := by
  induction ds with
  | nil => rfl
  | cons d ds ih =>
    simp only [List.flatMap_cons]
    rw [svg_refines_partial d (h d (by simp)).1 (h d (by simp)).2, ih (fun d' hd' => h d' (by simp [hd']))]

def evenOddOf : Painted Nat → Option Bool
  | .fill _ eo _ _ => some eo
  | _ => none

/-- stroke with a miter-clip joiner (not expressible) and the even-odd fill rule: the outline element is
written with fill-rule evenodd; the reference fills the outline NonZero. -/
def svgBad : Draw Nat := { strokeOnly black 0 with join := .miter 2 (some 4), evenOdd := true }

theorem svg_outline_evenodd_witness :
    (svgRun natNum (svgDraw natNum svgBad)).map evenOddOf = [some true] ∧
    (svgRef natNum svgBad).map evenOddOf = [some false] := by
  constructor <;> decide

theorem svg_refines_statement_false : ¬ svg_refines_statement natNum := by
  intro h
  have := congrArg (List.map evenOddOf) (h svgBad (by decide))
  rw [svg_outline_evenodd_witness.1, svg_outline_evenodd_witness.2] at this
  exact absurd this (by decide)

end C12
