import CanvasModel.C11
import CanvasModel.C11.Number
/-! Helper lemmas for C11: the lexer model reads a decimal numeral exactly. -/
namespace C11L
open Canvas.C11

def AllDigits (ds : List Nat) : Prop := ∀ c ∈ ds, isDigit c = true

theorem digitsVal_ge (ds : List Nat) : ∀ m, m ≤ digitsVal ds m := by
  induction ds with
  | nil => intro m; simp [digitsVal]
  | cons d ds ih =>
    intro m
    simp only [digitsVal]
    have := ih (m * 10 + (d - 48))
    omega

/-- the digit loop accumulates a run of digits exactly as long as the value fits a uint64 -/
theorem scanMant_digits (ds rest : List Nat) (hd : AllDigits ds) :
    ∀ (i : Nat) (dot : Option Nat) (n : Nat), digitsVal ds n < u64 →
      scanMant (ds ++ rest) i dot none n = scanMant rest (i + ds.length) dot none (digitsVal ds n) := by
  induction ds with
  | nil => intro i dot n _; simp [digitsVal]
  | cons c cs ih =>
    intro i dot n h
    have hc : isDigit c = true := hd c (by simp)
    have hcs : AllDigits cs := fun x hx => hd x (by simp [hx])
    simp only [digitsVal] at h
    have hge := digitsVal_ge cs (n * 10 + (c - 48))
    have hlt : n * 10 + (c - 48) < u64 := by omega
    have hn : ¬ (u64 - 1) / 10 < n := by
      unfold u64 at *
      omega
    have hmod : (n * 10 + (c - 48)) % u64 = n * 10 + (c - 48) := Nat.mod_eq_of_lt hlt
    simp only [List.cons_append, scanMant, hc, if_true, hn, if_false, hmod, digitsVal]
    rw [ih hcs (i + 1) dot (n * 10 + (c - 48)) h]
    simp only [List.length_cons]
    congr 1
    omega

/-- what may follow a numeral without being absorbed into it -/
def Stops (rest : List Nat) : Prop :=
  ∀ c, rest.head? = some c → isDigit c = false ∧ c ≠ 46 ∧ c ≠ 101 ∧ c ≠ 69

theorem scanMant_stop (rest : List Nat) (hs : Stops rest) (i : Nat) (dot trunk : Option Nat) (n : Nat) :
    scanMant rest i dot trunk n = ⟨i, dot, trunk, n⟩ := by
  cases rest with
  | nil => simp [scanMant]
  | cons c cs =>
    obtain ⟨h1, h2, _, _⟩ := hs c rfl
    simp [scanMant, h1, h2]

theorem digitsVal_append (a b : List Nat) : ∀ m, digitsVal (a ++ b) m = digitsVal b (digitsVal a m) := by
  induction a with
  | nil => intro m; simp [digitsVal]
  | cons c cs ih => intro m; simp [digitsVal, ih]

theorem isDigit_not_sign {c : Nat} (h : isDigit c = true) : c ≠ 43 ∧ c ≠ 45 ∧ c ≠ 46 := by
  simp [isDigit] at h; omega

/-- tail of `scan` once the digit loop result is known (no sign) -/
theorem scan_of_mant (s : List Nat) (hsign : ¬ (s.head? == some 43 || s.head? == some 45) = true)
    (k : Nat) (dot : Option Nat) (n : Nat) (hm : scanMant s 0 none none 0 = ⟨k, dot, none, n⟩)
    (hk : ¬ (k == 0 || (k == 1 && dot == some 0)) = true)
    (rest : List Nat) (hrest : s.drop k = rest) (hs : Stops rest) :
    scan s = ⟨k, false, n, (match dot with | some d => (k : Int) - d - 1 | none => 0), 0⟩ := by
  have hs43 : ¬ s.head? = some 43 := by intro h; simp [h] at hsign
  have hs45 : ¬ s.head? = some 45 := by intro h; simp [h] at hsign
  have h0 : ¬ k = 0 := by intro h0; simp [h0] at hk
  subst hrest
  cases hr : s.drop k with
  | nil =>
    cases dot with
    | none => simp [scan, hs43, hs45, hm, hr, h0]
    | some d =>
      have h1 : ¬ (k = 0 ∨ k = 1 ∧ d = 0) := by simpa using hk
      simp [scan, hs43, hs45, hm, hr, h1]
  | cons c r =>
    obtain ⟨_, _, h3, h4⟩ := hs c (by simp [hr])
    cases dot with
    | none => simp [scan, hs43, hs45, hm, hr, h0, h3, h4]
    | some d =>
      have h1 : ¬ (k = 0 ∨ k = 1 ∧ d = 0) := by simpa using hk
      simp [scan, hs43, hs45, hm, hr, h1, h3, h4]

/-- digits only: `ip ++ rest` -/
theorem scan_integer (ip rest : List Nat) (hip : AllDigits ip) (hne : ip ≠ []) (hv : digitsVal ip 0 < u64)
    (hs : Stops rest) :
    scan (ip ++ rest) = ⟨ip.length, false, digitsVal ip 0, 0, 0⟩ := by
  obtain ⟨c, cs, rfl⟩ := List.exists_cons_of_ne_nil hne
  have hc := isDigit_not_sign (hip c (by simp))
  have hm : scanMant ((c :: cs) ++ rest) 0 none none 0 = ⟨(c :: cs).length, none, none, digitsVal (c :: cs) 0⟩ := by
    rw [scanMant_digits (c :: cs) rest hip 0 none 0 hv, scanMant_stop rest hs]
    simp
  have := scan_of_mant ((c :: cs) ++ rest) (by simp [hc.1, hc.2.1]) (c :: cs).length none (digitsVal (c :: cs) 0) hm
    (by simp) rest (by simp) hs
  simpa using this

/-- integer part, dot, fraction: `ip ++ '.' :: fp ++ rest` (either part may be empty, not both) -/
theorem scan_fraction (ip fp rest : List Nat) (hip : AllDigits ip) (hfp : AllDigits fp)
    (hne : ip ≠ [] ∨ fp ≠ []) (hv : digitsVal (ip ++ fp) 0 < u64) (hs : Stops rest) :
    scan (ip ++ 46 :: (fp ++ rest)) = ⟨ip.length + 1 + fp.length, false, digitsVal (ip ++ fp) 0, fp.length, 0⟩ := by
  have hv' : digitsVal fp (digitsVal ip 0) < u64 := by rw [← digitsVal_append]; exact hv
  have hvi : digitsVal ip 0 < u64 := Nat.lt_of_le_of_lt (digitsVal_ge fp _) hv'
  have hm : scanMant (ip ++ 46 :: (fp ++ rest)) 0 none none 0 =
      ⟨ip.length + 1 + fp.length, some ip.length, none, digitsVal (ip ++ fp) 0⟩ := by
    rw [scanMant_digits ip _ hip 0 none 0 hvi]
    simp only [scanMant, show isDigit 46 = false from by decide, Option.isNone_none, Bool.true_and]
    simp only [show (46 == 46) = true from by decide, if_true, Bool.false_eq_true, if_false]
    rw [scanMant_digits fp rest hfp _ _ _ hv', scanMant_stop rest hs, digitsVal_append]
    simp
  have hhead : ¬ ((ip ++ 46 :: (fp ++ rest)).head? == some 43 || (ip ++ 46 :: (fp ++ rest)).head? == some 45) = true := by
    cases ip with
    | nil => simp
    | cons c cs =>
      have hc := isDigit_not_sign (hip c (by simp))
      simp [hc.1, hc.2.1]
  have hk : ¬ ((ip.length + 1 + fp.length == 0) || (ip.length + 1 + fp.length == 1 && some ip.length == some 0)) = true := by
    rcases hne with h | h
    · have : 0 < ip.length := by cases ip <;> simp_all
      simp; omega
    · have : 0 < fp.length := by cases fp <;> simp_all
      simp; omega
  have hdrop : (ip ++ 46 :: (fp ++ rest)).drop (ip.length + 1 + fp.length) = rest := by
    have : ip ++ 46 :: (fp ++ rest) = (ip ++ 46 :: fp) ++ rest := by simp
    rw [this, List.drop_left' (by simp; omega)]
  have := scan_of_mant _ hhead _ _ _ hm hk rest hdrop hs
  rw [this]
  simp
  omega

/-! ### exponent -/

/-- what may follow the digits of an exponent -/
def StopsDigits (rest : List Nat) : Prop := ∀ c, rest.head? = some c → isDigit c = false

theorem scanIntDigits_digits (ds rest : List Nat) (hd : AllDigits ds) (hs : StopsDigits rest) :
    ∀ (i n : Nat), digitsVal ds n ≤ 9223372036854775807 →
      scanIntDigits (ds ++ rest) i n = some (i + ds.length, digitsVal ds n) := by
  induction ds with
  | nil =>
    intro i n _
    cases rest with
    | nil => simp [scanIntDigits, digitsVal]
    | cons c cs => simp [scanIntDigits, digitsVal, hs c rfl]
  | cons c cs ih =>
    intro i n h
    have hc : isDigit c = true := hd c (by simp)
    have hcs : AllDigits cs := fun x hx => hd x (by simp [hx])
    simp only [digitsVal] at h
    have hge := digitsVal_ge cs (n * 10 + (c - 48))
    have hd9 : c - 48 ≤ 9 := by simp [isDigit] at hc; omega
    have hcond : ¬ ((9223372036854775808 / 10 < n || 9223372036854775808 - (c - 48) < n * 10) = true) := by
      simp only [Bool.or_eq_true, decide_eq_true_eq]
      omega
    simp only [List.cons_append, scanIntDigits, hc, if_true, hcond, if_false, digitsVal]
    rw [ih hcs (i + 1) _ h]
    simp only [List.length_cons]
    rw [show i + 1 + cs.length = i + (cs.length + 1) by omega]
    simp

/-- `ParseInt` on an optionally signed run of digits -/
theorem parseInt_digits (neg : Bool) (ed rest : List Nat) (hd : AllDigits ed) (hne : ed ≠ [])
    (hv : digitsVal ed 0 ≤ 9223372036854775807) (hs : StopsDigits rest) :
    parseInt ((if neg then [45] else []) ++ ed ++ rest) =
      ((if neg then -(digitsVal ed 0 : Int) else (digitsVal ed 0 : Int)), (if neg then 1 else 0) + ed.length) := by
  obtain ⟨c, cs, rfl⟩ := List.exists_cons_of_ne_nil hne
  have hc := isDigit_not_sign (hd c (by simp))
  have hlen : ¬ ((c :: cs).length == 0) = true := by simp
  have := scanIntDigits_digits (c :: cs) rest hd hs 0 0 hv
  simp only [List.cons_append] at this
  cases neg with
  | true =>
    simp [parseInt, this]
  | false =>
    simp [parseInt, hc.1, hc.2.1, this]
    omega

/-- tail of `scan` when an exponent follows the mantissa (no sign before the mantissa) -/
theorem scan_of_mant_exp (s : List Nat) (hsign : ¬ (s.head? == some 43 || s.head? == some 45) = true)
    (k : Nat) (dot : Option Nat) (n : Nat) (hm : scanMant s 0 none none 0 = ⟨k, dot, none, n⟩)
    (hk : ¬ (k == 0 || (k == 1 && dot == some 0)) = true)
    (ec : Nat) (hec : ec = 101 ∨ ec = 69) (body : List Nat) (hrest : s.drop k = ec :: body)
    (ev : Int) (el : Nat) (hpi : parseInt body = (ev, el)) (hel : 0 < el) :
    scan s = ⟨k + (1 + el), false, n, (match dot with | some d => (k : Int) - d - 1 | none => 0), ev⟩ := by
  have hs43 : ¬ s.head? = some 43 := by intro h; simp [h] at hsign
  have hs45 : ¬ s.head? = some 45 := by intro h; simp [h] at hsign
  have h0 : ¬ k = 0 := by intro h0; simp [h0] at hk
  cases dot with
  | none => simp [scan, hs43, hs45, hm, hrest, h0, hec, hpi, hel]
  | some d =>
    have h1 : ¬ (k = 0 ∨ k = 1 ∧ d = 0) := by simpa using hk
    simp [scan, hs43, hs45, hm, hrest, h1, hec, hpi, hel]

/-- integer part, dot, fraction, exponent: `ip ++ '.' :: fp ++ e :: [-] ++ ed ++ rest` — the form
`%g`, `num` and hand-written path data use -/
theorem scan_fraction_exponent (ip fp ed rest : List Nat) (eneg : Bool) (ec : Nat) (hec : ec = 101 ∨ ec = 69)
    (hip : AllDigits ip) (hfp : AllDigits fp) (hed : AllDigits ed)
    (hne : ip ≠ [] ∨ fp ≠ []) (hene : ed ≠ []) (hv : digitsVal (ip ++ fp) 0 < u64)
    (hev : digitsVal ed 0 ≤ 9223372036854775807) (hs : StopsDigits rest) :
    scan (ip ++ 46 :: (fp ++ ec :: ((if eneg then [45] else []) ++ ed ++ rest))) =
      ⟨ip.length + 1 + fp.length + (1 + ((if eneg then 1 else 0) + ed.length)), false, digitsVal (ip ++ fp) 0, fp.length,
        (if eneg then -(digitsVal ed 0 : Int) else (digitsVal ed 0 : Int))⟩ := by
  have hv' : digitsVal fp (digitsVal ip 0) < u64 := by rw [← digitsVal_append]; exact hv
  have hvi : digitsVal ip 0 < u64 := Nat.lt_of_le_of_lt (digitsVal_ge fp _) hv'
  have hstop : ∀ tl, scanMant (ec :: tl) (ip.length + 1 + fp.length) (some ip.length) none (digitsVal (ip ++ fp) 0) =
      ⟨ip.length + 1 + fp.length, some ip.length, none, digitsVal (ip ++ fp) 0⟩ := by
    intro tl
    rcases hec with h | h <;> subst h <;> simp [scanMant, isDigit]
  have hm : scanMant (ip ++ 46 :: (fp ++ ec :: ((if eneg then [45] else []) ++ ed ++ rest))) 0 none none 0 =
      ⟨ip.length + 1 + fp.length, some ip.length, none, digitsVal (ip ++ fp) 0⟩ := by
    rw [scanMant_digits ip _ hip 0 none 0 hvi]
    simp only [scanMant, show isDigit 46 = false from by decide, Option.isNone_none, Bool.true_and]
    simp only [show (46 == 46) = true from by decide, if_true, Bool.false_eq_true, if_false]
    rw [scanMant_digits fp _ hfp _ _ _ hv', ← digitsVal_append]
    have := hstop ((if eneg then [45] else []) ++ ed ++ rest)
    simpa [Nat.add_assoc, Nat.add_comm, Nat.add_left_comm] using this
  have hhead : ¬ ((ip ++ 46 :: (fp ++ ec :: ((if eneg then [45] else []) ++ ed ++ rest))).head? == some 43 ||
      (ip ++ 46 :: (fp ++ ec :: ((if eneg then [45] else []) ++ ed ++ rest))).head? == some 45) = true := by
    cases ip with
    | nil => simp
    | cons c cs =>
      have hc := isDigit_not_sign (hip c (by simp))
      simp [hc.1, hc.2.1]
  have hk : ¬ ((ip.length + 1 + fp.length == 0) || (ip.length + 1 + fp.length == 1 && some ip.length == some 0)) = true := by
    rcases hne with h | h
    · have : 0 < ip.length := by cases ip <;> simp_all
      simp; omega
    · have : 0 < fp.length := by cases fp <;> simp_all
      simp; omega
  have hdrop : (ip ++ 46 :: (fp ++ ec :: ((if eneg then [45] else []) ++ ed ++ rest))).drop (ip.length + 1 + fp.length) =
      ec :: ((if eneg then [45] else []) ++ ed ++ rest) := by
    have : ip ++ 46 :: (fp ++ ec :: ((if eneg then [45] else []) ++ ed ++ rest)) =
        (ip ++ 46 :: fp) ++ ec :: ((if eneg then [45] else []) ++ ed ++ rest) := by simp
    rw [this, List.drop_left' (by simp; omega)]
  have hpi := parseInt_digits eneg ed rest hed hene hev hs
  have hel : 0 < (if eneg then 1 else 0) + ed.length := by
    have : 0 < ed.length := by cases ed <;> simp_all
    omega
  have := scan_of_mant_exp _ hhead _ _ _ hm hk ec hec _ hdrop _ _ hpi hel
  rw [this]
  simp
  omega

end C11L
