import CanvasProofs.Lemmas.C05

/-! # dashStart after the repair e14817f (negative offsets reduced modulo the period)

Full-strength start invariant of `Canvas.C05.dashStart` for ALL offsets. `fmod` (`math.Mod`) is a
parameter: only its defining property `FmodSpec` is used (`fmod x P = x + q·P` for some whole `q`,
and `-P < fmod x P ≤ 0` for `x < 0`); the driver plugs in the exact float remainder. -/
set_option linter.unusedSectionVars false
namespace C05L
open Canvas.C05
variable {K : Type} [Field K] [LinearOrder K] [IsStrictOrderedRing K]

/-- what the theorem needs of `math.Mod(x, P)` for `x < 0 < P` -/
def FmodSpec (fmod : K → K → K) (d : List K) : Prop :=
  ∀ x : K, x < 0 → ∃ q : Nat, fmod x (period d) = x + pre d (q * d.length) ∧
    -period d < fmod x (period d) ∧ fmod x (period d) ≤ 0

theorem pre_succ_mul_length (d : List K) (q : Nat) :
    pre d ((q + 1) * d.length) = pre d (q * d.length) + period d := by
  rw [Nat.succ_mul, pre_add_length]

theorem reducedOffset_spec (fmod : K → K → K) (d : List K) (hmod : FmodSpec fmod d)
    (offset : K) :
    ∃ m : Nat, reducedOffset fmod offset d = offset + pre d (m * d.length) ∧
      0 ≤ reducedOffset fmod offset d ∧ (0 ≤ offset → m = 0) := by
  unfold reducedOffset
  split
  · next hneg =>
    obtain ⟨q, e, h1, h2⟩ := hmod offset hneg
    unfold total
    split
    · next hr =>
      exact ⟨q + 1, by rw [pre_succ_mul_length, e]; ring, by linarith, fun h => absurd h (not_le.mpr hneg)⟩
    · next hr =>
      exact ⟨q, e, not_lt.mp hr, fun h => absurd h (not_le.mpr hneg)⟩
  · next hnn => exact ⟨0, by simp [pre], not_lt.mp hnn, fun _ => rfl⟩

/-- FULL-STRENGTH start invariant of the repaired `dashStart`, for every offset (negative, beyond
one or many periods): piece `i0` starts at path position `pos0 ≤ 0`, the start of the path lies
inside it (`-pos0 < d[i0]`), and `offset + pos0` is the start phase of a piece `J ≡ i0 (mod n)` up to
`m` whole periods. -/
theorem start_invariant (fmod : K → K → K) (d : List K) (hne : d ≠ []) (hnn : ∀ x ∈ d, 0 ≤ x)
    (hmod : FmodSpec fmod d)
    (fuel : Nat) (offset : K) (i0 : Nat) (pos0 : K)
    (h : dashStart fmod fuel offset d = some (i0, pos0)) :
    pos0 ≤ 0 ∧ i0 < d.length ∧
      ∃ J m : Nat, J % d.length = i0 ∧ -pos0 < cyc d J ∧
        offset + pos0 + pre d (m * d.length) = pre d J ∧ (0 ≤ offset → m = 0) := by
  have hl : 0 < d.length := List.length_pos_iff.mpr hne
  obtain ⟨m, e, h0, hm⟩ := reducedOffset_spec fmod d hmod offset
  unfold dashStart at h
  cases hloop : dashStartLoop d fuel 0 (reducedOffset fmod offset d) with
  | none => rw [hloop] at h; simp at h
  | some r =>
    obtain ⟨i, off'⟩ := r
    rw [hloop] at h
    simp only [Option.some.injEq, Prod.mk.injEq] at h
    obtain ⟨rfl, rfl⟩ := h
    have hl0 : dashStartLoop d fuel (0 % d.length) (reducedOffset fmod offset d) = some (i, off') := by
      rw [Nat.zero_mod]; exact hloop
    obtain ⟨J', e1, _, e3, e4, e5⟩ := dashStartLoop_spec d hne hnn fuel 0 _ i off' h0 hl0
    refine ⟨by linarith, by rw [← e1]; exact Nat.mod_lt _ hl, J', m, e1, by linarith, ?_, hm⟩
    simp only [pre] at e3
    linarith

/-- For a negative offset the repaired loop starts inside the first period, so (by
`dashStartLoop_terminates`) `fuel+1` iterations suffice as soon as `fuel · min(d)` exceeds one
period — independently of how many periods the offset lies below zero. -/
theorem reducedOffset_lt_period (fmod : K → K → K) (d : List K) (hmod : FmodSpec fmod d)
    (offset : K) (hneg : offset < 0) : reducedOffset fmod offset d < period d := by
  unfold reducedOffset
  rw [if_pos hneg]
  obtain ⟨q, _, h1, h2⟩ := hmod offset hneg
  unfold total
  split
  · next hr => linarith
  · next hr => linarith

end C05L
