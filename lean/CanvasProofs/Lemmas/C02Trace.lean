import CanvasModel.C02.Trace
import CanvasProofs.Lemmas.C02Column
/-! Soundness of the trace-state checker: a chain accepted by `chainCheck` satisfies the Settle
invariant `GoodS` of the column theory, every traced closed edge leaves the tracer directed as the
column theory demands (`resSW`), and the tracer's hole rule turns `resultWindings` parity into that
direction. Core Lean only. -/
namespace Canvas.C02
open Canvas.C01 Canvas.Wn

theorem colSum_eq_sums (L : List (Seg × Fields)) (hc : ∀ e ∈ L, e.1.clipping = false) :
    colSum L = (sums L).1 := by
  induction L with
  | nil => rfl
  | cons e rest ih =>
    obtain ⟨s, f⟩ := e
    have := ih (fun x hx => hc x (List.mem_cons_of_mem _ hx))
    rw [sums_fst s f rest (hc (s, f) List.mem_cons_self)]
    simp only [colSum, this]

def ChainOK (r : Rule) : List TEnt → Prop
  | [] => True
  | e :: below => entryCheck r e below = none ∧ ChainOK r below

theorem chainCheck_none_iff (r : Rule) (L : List TEnt) : chainCheck r L = none ↔ ChainOK r L := by
  induction L with
  | nil => simp [chainCheck, ChainOK]
  | cons e below ih =>
    simp only [chainCheck, ChainOK]
    cases h : entryCheck r e below with
    | some c => simp
    | none => simp [ih]

theorem entry_clipping {r : Rule} {e : TEnt} {below : List TEnt} (h : entryCheck r e below = none) :
    e.seg.clipping = false := by
  unfold entryCheck at h
  by_cases hc : e.seg.clipping = true
  · simp [hc] at h
  · simpa using hc

theorem entry_absorbed {r : Rule} {e : TEnt} {below : List TEnt} (h : entryCheck r e below = none)
    (ho : e.overlapped = true) : e.traced = false ∧ e.f.w = 0 ∧ e.f.sw = 0 := by
  have hc := entry_clipping h
  unfold entryCheck at h
  simp only [hc, ho, Bool.false_eq_true, if_false, if_true] at h
  by_cases hx : (e.traced || e.f.w != 0 || e.f.sw != 0) = true
  · simp [hx] at h
  · have : (e.traced = false ∧ e.f.w = 0) ∧ e.f.sw = 0 := by simpa using hx
    exact ⟨this.1.1, this.1.2, this.2⟩

theorem entry_live {r : Rule} {e : TEnt} {below : List TEnt} (h : entryCheck r e below = none)
    (ho : e.overlapped = false) :
    e.f.w = colSum (tpairs below) ∧ e.traced = keep r e.seg e.f := by
  have hc := entry_clipping h
  unfold entryCheck at h
  simp only [hc, ho, Bool.false_eq_true, if_false] at h
  by_cases h1 : (e.f.w != colSum (tpairs below)) = true
  · simp [h1] at h
  · by_cases h2 : (e.traced != keep r e.seg e.f) = true
    · simp [h1, h2] at h
    · exact ⟨by simpa using h1, by simpa using h2⟩

theorem entry_traced {r : Rule} {e : TEnt} {below : List TEnt} (h : entryCheck r e below = none)
    (ho : e.overlapped = false) (ht : e.traced = true) (hop : e.seg.open_ = false) :
    ((e.rw % 2 != 0) = r.fills (e.f.w + e.f.sw)) ∧ (e.dir = 0 ∨ e.dir = resSW r e.f) := by
  have hc := entry_clipping h
  obtain ⟨h1, h2⟩ := entry_live h ho
  unfold entryCheck at h
  simp only [hc, ho, Bool.false_eq_true, if_false] at h
  have e1 : (e.f.w != colSum (tpairs below)) = false := by simp [h1]
  have hk : keep r e.seg e.f = true := by rw [← h2]; exact ht
  simp only [e1, hk, ht, hop, Bool.false_eq_true, if_false, Bool.not_true, Bool.or_self, bne_self_eq_false] at h
  by_cases h3 : ((e.rw % 2 != 0) != r.fills (e.f.w + e.f.sw)) = true
  · simp [h3] at h
  · by_cases h4 : (e.dir != 0 && e.dir != resSW r e.f) = true
    · simp [h3, h4] at h
    · refine ⟨by simpa using h3, ?_⟩
      simp only [Bool.and_eq_true, bne_iff_ne, ne_eq, not_and, Decidable.not_not] at h4
      by_cases hd : e.dir = 0
      · exact Or.inl hd
      · exact Or.inr (h4 hd)

theorem chainOK_clipping (r : Rule) (L : List TEnt) (h : ChainOK r L) :
    ∀ e ∈ tpairs L, e.1.clipping = false := by
  induction L with
  | nil => intro e he; cases he
  | cons x rest ih =>
    intro e he
    simp only [tpairs, List.map_cons, List.mem_cons] at he
    rcases he with rfl | he
    · exact entry_clipping h.1
    · exact ih h.2 e he

/-- a chain of the real final sweep state that passes the checker satisfies the invariant of the
column theory -/
theorem chainOK_goodS (r : Rule) (L : List TEnt) (h : ChainOK r L) : GoodS (tpairs L) := by
  induction L with
  | nil => trivial
  | cons e below ih =>
    refine ⟨entry_clipping h.1, ?_, ih h.2⟩
    by_cases ho : e.overlapped = true
    · exact Or.inr (Or.inl (entry_absorbed h.1 ho).2.2)
    · have ho' : e.overlapped = false := by simpa using ho
      left
      rw [(entry_live h.1 ho').1]
      exact colSum_eq_sums _ (chainOK_clipping r below h.2)

/-- a kept closed edge has direction ±1 in the canonical result, according to the side the input
fills -/
theorem resSW_of_keep (r : Rule) (s : Seg) (f : Fields) (hop : s.open_ = false) (hk : keep r s f = true) :
    resSW r f = if r.fills (f.w + f.sw) then 1 else -1 := by
  simp only [keep, hop, Bool.false_eq_true, if_false, bne_iff_ne, ne_eq] at hk
  simp only [resSW, ind]
  cases h1 : r.fills f.w <;> cases h2 : r.fills (f.w + f.sw) <;> simp_all

/-- the direction the tracer gives a traced closed edge (read off `resultWindings`) is the
direction of the canonical result -/
theorem traced_direction {r : Rule} {e : TEnt} {below : List TEnt} (h : entryCheck r e below = none)
    (ho : e.overlapped = false) (ht : e.traced = true) (hop : e.seg.open_ = false) :
    dirOfRW e.rw = resSW r e.f := by
  obtain ⟨hp, -⟩ := entry_traced h ho ht hop
  have hk : keep r e.seg e.f = true := by rw [← (entry_live h ho).2]; exact ht
  rw [resSW_of_keep r e.seg e.f hop hk, dirOfRW, ← hp]

/-- the tracer's bookkeeping (depth + 1 when traversed left-to-right; reversal of the contour iff
the depth is odd): after the hole rule an edge runs left-to-right iff its `resultWindings` is odd -/
theorem tracer_direction (d : Int) (right : Bool) :
    dirOfRW (tracerRW d right) = if finalRight d right then 1 else -1 := by
  rcases Int.emod_two_eq d with h | h
  · have h' : (d + 1) % 2 = 1 := by omega
    cases right <;> simp [dirOfRW, tracerRW, finalRight, h, h']
  · have h' : (d + 1) % 2 = 0 := by omega
    cases right <;> simp [dirOfRW, tracerRW, finalRight, h, h']


/-- on an acyclic chain the cycle guard of d8460b7 never fires: the guarded walk finds exactly what
the unguarded walk finds (the slow pointer stays at half the distance of the fast one) -/
theorem walkGuarded_eq_plain (skip : TEnt → Bool) (chain : Array TEnt) (fuel i : Nat) :
    walkGuarded skip chain fuel i i (i / 2) = walkPlain skip chain fuel i := by
  induction fuel generalizing i with
  | zero => rfl
  | succ n ih =>
    simp only [walkGuarded, walkPlain]
    split
    · split
      · have hs : (if i % 2 = 1 then i / 2 + 1 else i / 2) = (i + 1) / 2 := by
          split <;> omega
        have hne : ¬ (i + 1 = (i + 1) / 2) := by omega
        simp only [hs, hne, if_false]
        exact ih (i + 1)
      · rfl
    · rfl

end Canvas.C02
