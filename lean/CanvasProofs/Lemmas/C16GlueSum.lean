import CanvasModel.C16.Glue
import Mathlib.Tactic.Ring
import Mathlib.Tactic.Linarith
import Mathlib.Tactic.FieldSimp
/-! Lemmas for C16 (e): the glue adjustment distributes exactly `ratio · stretch` (resp. shrink) over the
glyphs of the glue: a justified line ends at the box width. Exact arithmetic (`inc a x = a·x`); the
rounding of every adjusted advance to whole font units is outside (oracle tolerance). -/
set_option linter.unusedSectionVars false
set_option linter.unusedSimpArgs false
namespace Canvas.C16
variable {K : Type} [Field K] [LinearOrder K] [IsStrictOrderedRing K]

def idealInc (a x : K) : K := a * x
def noInf (_ : K) : Bool := false

def totSize (items : List (GItem K)) : Nat := (items.map (·.size)).sum
def glueY (items : List (GItem K)) : K := ((items.filter (fun it => it.ty == Ty.glue)).map (·.y)).sum
def glueZ (items : List (GItem K)) : K := ((items.filter (fun it => it.ty == Ty.glue)).map (·.z)).sum

/-- the glyphs of every glue item add up to the glue's (positive) width, those of penalties to 0 -/
def Fits : List (GItem K) → List K → Prop
  | [], _ => True
  | it :: r, gs =>
    (it.ty = Ty.glue → (gs.take it.size).sum = it.w ∧ 0 < it.w) ∧
    (it.ty = Ty.pen → (gs.take it.size).sum = 0) ∧ Fits r (gs.drop it.size)

theorem map_inc_sum (c : K) (l : List K) : (l.map (fun xa => xa + idealInc c xa)).sum = l.sum + c * l.sum := by
  induction l with
  | nil => simp
  | cons a r ih =>
    rw [List.map_cons, List.sum_cons, ih, List.sum_cons]
    simp only [idealInc]; ring

theorem flush_sum_stretch (ratio w y z : K) (run : List K) (hr : 0 < ratio) (hs : run.sum = w) (hw : 0 ≤ w) (h0 : w = 0 → y = 0) :
    (flushRun noInf idealInc ratio w y z run).sum = w + ratio * y := by
  unfold flushRun
  split
  · rename_i hpos
    rw [map_inc_sum, hs]
    have : runAdv noInf ratio y z = ratio * y := by simp [runAdv, noInf, hr]
    rw [this]
    have hne : w ≠ 0 := ne_of_gt hpos
    field_simp
  · have : w = 0 := le_antisymm (not_lt.mp ‹_›) hw
    rw [hs, this, h0 this]; ring

theorem flush_sum_shrink (ratio w y z : K) (run : List K) (hr : ratio < 0) (hs : run.sum = w) (hw : 0 ≤ w) (h0 : w = 0 → z = 0) :
    (flushRun noInf idealInc ratio w y z run).sum = w + ratio * z := by
  unfold flushRun
  split
  · rename_i hpos
    rw [map_inc_sum, hs]
    have : runAdv noInf ratio y z = ratio * z := by
      have : ¬ 0 < ratio := not_lt.mpr (le_of_lt hr)
      simp [runAdv, noInf, hr, this]
    rw [this]
    have hne : w ≠ 0 := ne_of_gt hpos
    field_simp
  · have : w = 0 := le_antisymm (not_lt.mp ‹_›) hw
    rw [hs, this, h0 this]; ring

theorem take_add_sum (gs : List K) (a b : Nat) : (gs.take (a + b)).sum = (gs.take a).sum + ((gs.drop a).take b).sum := by
  rw [List.take_add, List.sum_append]

theorem adjustGo_sum_stretch (ratio : K) (hr : 0 < ratio) (items : List (GItem K)) :
    ∀ (gs run : List K) (w y z : K), Fits items gs → run.sum = w → 0 ≤ w → (w = 0 → y = 0) →
    (adjustGo noInf idealInc ratio items gs run w y z).sum
      = run.sum + (gs.take (totSize items)).sum + ratio * (y + glueY items) := by
  induction items with
  | nil =>
    intro gs run w y z _ hs hw h0
    simp only [adjustGo, totSize, glueY]
    rw [flush_sum_stretch ratio w y z run.reverse hr (by simpa using hs) hw h0, hs]
    simp
  | cons it r ih =>
    intro gs run w y z hf hs hw h0
    obtain ⟨hg, hp, hrest⟩ := hf
    have htot : totSize (it :: r) = it.size + totSize r := by simp [totSize]
    rw [htot, take_add_sum]
    simp only [adjustGo]
    cases hty : it.ty with
    | box =>
      simp only []
      rw [List.sum_append, List.sum_append, flush_sum_stretch ratio w y z run.reverse hr (by simpa using hs) hw h0,
        ih _ [] 0 0 0 hrest (by simp) (le_refl _) (fun _ => rfl), hs]
      have : glueY (it :: r) = glueY r := by simp [glueY, hty]
      rw [this]; simp; ring
    | glue =>
      simp only []
      obtain ⟨hm, hpos⟩ := hg hty
      rw [ih _ (List.reverse (List.take it.size gs) ++ run) (w + it.w) (y + it.y) (z + it.z) hrest
        (by simp [hm, hs]; ring) (by linarith) (fun h => by exfalso; linarith)]
      have : glueY (it :: r) = it.y + glueY r := by simp [glueY, hty]
      rw [this]; simp [hs]; ring
    | pen =>
      simp only []
      have hm := hp hty
      rw [ih _ (List.reverse (List.take it.size gs) ++ run) w y z hrest (by simp [hm, hs]) hw h0]
      have : glueY (it :: r) = glueY r := by simp [glueY, hty]
      rw [this]; simp [hs, hm]

theorem adjustGo_sum_shrink (ratio : K) (hr : ratio < 0) (items : List (GItem K)) :
    ∀ (gs run : List K) (w y z : K), Fits items gs → run.sum = w → 0 ≤ w → (w = 0 → z = 0) →
    (adjustGo noInf idealInc ratio items gs run w y z).sum
      = run.sum + (gs.take (totSize items)).sum + ratio * (z + glueZ items) := by
  induction items with
  | nil =>
    intro gs run w y z _ hs hw h0
    simp only [adjustGo, totSize, glueZ]
    rw [flush_sum_shrink ratio w y z run.reverse hr (by simpa using hs) hw h0, hs]
    simp
  | cons it r ih =>
    intro gs run w y z hf hs hw h0
    obtain ⟨hg, hp, hrest⟩ := hf
    have htot : totSize (it :: r) = it.size + totSize r := by simp [totSize]
    rw [htot, take_add_sum]
    simp only [adjustGo]
    cases hty : it.ty with
    | box =>
      simp only []
      rw [List.sum_append, List.sum_append, flush_sum_shrink ratio w y z run.reverse hr (by simpa using hs) hw h0,
        ih _ [] 0 0 0 hrest (by simp) (le_refl _) (fun _ => rfl), hs]
      have : glueZ (it :: r) = glueZ r := by simp [glueZ, hty]
      rw [this]; simp; ring
    | glue =>
      simp only []
      obtain ⟨hm, hpos⟩ := hg hty
      rw [ih _ (List.reverse (List.take it.size gs) ++ run) (w + it.w) (y + it.y) (z + it.z) hrest
        (by simp [hm, hs]; ring) (by linarith) (fun h => by exfalso; linarith)]
      have : glueZ (it :: r) = it.z + glueZ r := by simp [glueZ, hty]
      rw [this]; simp [hs]; ring
    | pen =>
      simp only []
      have hm := hp hty
      rw [ih _ (List.reverse (List.take it.size gs) ++ run) w y z hrest (by simp [hm, hs]) hw h0]
      have : glueZ (it :: r) = glueZ r := by simp [glueZ, hty]
      rw [this]; simp [hs, hm]

/-- a stretched line: natural width + ratio · total stretch -/
theorem adjustLine_sum_stretch (ratio : K) (hr : 0 < ratio) (items : List (GItem K)) (gs : List K) (hf : Fits items gs) :
    (adjustLine noInf idealInc (fun r => decide (r = 0)) ratio items gs).sum
      = (gs.take (totSize items)).sum + ratio * glueY items := by
  unfold adjustLine
  have : ratio ≠ 0 := ne_of_gt hr
  simp only [this, decide_false, Bool.false_eq_true, if_false]
  rw [adjustGo_sum_stretch ratio hr items gs [] 0 0 0 hf rfl (le_refl _) (fun _ => rfl)]
  simp

theorem adjustLine_sum_shrink (ratio : K) (hr : ratio < 0) (items : List (GItem K)) (gs : List K) (hf : Fits items gs) :
    (adjustLine noInf idealInc (fun r => decide (r = 0)) ratio items gs).sum
      = (gs.take (totSize items)).sum + ratio * glueZ items := by
  unfold adjustLine
  have : ratio ≠ 0 := ne_of_lt hr
  simp only [this, decide_false, Bool.false_eq_true, if_false]
  rw [adjustGo_sum_shrink ratio hr items gs [] 0 0 0 hf rfl (le_refl _) (fun _ => rfl)]
  simp

/-- with the ratio the breaker computes for a line that is too short the adjusted line is exactly `width` wide -/
theorem justified_line_width (width : K) (items : List (GItem K)) (gs : List K) (hf : Fits items gs)
    (hy : 0 < glueY items) (hshort : (gs.take (totSize items)).sum < width) :
    (adjustLine noInf idealInc (fun r => decide (r = 0)) ((width - (gs.take (totSize items)).sum) / glueY items) items gs).sum = width := by
  rw [adjustLine_sum_stretch _ (div_pos (by linarith) hy) items gs hf]
  have : glueY items ≠ 0 := ne_of_gt hy
  field_simp; ring

end Canvas.C16
