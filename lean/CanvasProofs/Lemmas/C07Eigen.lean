import CanvasProofs.Lemmas.C07Basics

/-! # C07 helper lemmas: `solveQuadratic` on monic polynomials with positive discriminant, the
spectral decomposition `Matrix.Eigen` returns for symmetric matrices. -/
set_option linter.unusedSectionVars false
set_option linter.unusedVariables false
namespace C07
open Canvas Canvas.C07 GenK

variable {K : Type} [Field K] [LinearOrder K] [IsStrictOrderedRing K] [Env K]

/-- `solveQuadraticFormula(1, B, C)` with exact comparisons and positive discriminant returns two
numbers with sum `-B` and product `C` (so both are roots of `x² + B x + C`). -/
theorem solveQuadratic_monic (L : Laws K) (h0 : (Env.epsilon : K) = 0) (B C : K) (hd : 0 < B * B - 4 * C) :
    ∃ x1 x2 : K, solveQuadratic 1 B C = (some x1, some x2) ∧ x1 + x2 = -B ∧ x1 * x2 = C := by
  have e10 : Equal (1 : K) 0 = false := (equal_false_iff_ne h0 _ _).mpr one_ne_zero
  unfold solveQuadratic
  simp only [ops_equal, ops_sqrt, e10, Bool.false_eq_true, if_false]
  by_cases hC : C = 0
  · have eC : Equal C 0 = true := (equal_iff_eq h0 _ _).mpr hC
    have hB : B ≠ 0 := by
      rintro rfl
      rw [hC] at hd
      simp at hd
    have eB : Equal B 0 = false := (equal_false_iff_ne h0 _ _).mpr hB
    simp only [eC, eB, if_true, Bool.false_eq_true, if_false]
    exact ⟨0, -B / 1, rfl, by simp, by simp [hC]⟩
  · have eC : Equal C 0 = false := (equal_false_iff_ne h0 _ _).mpr hC
    have hd' : 0 < B * B - 4 * 1 * C := by linarith
    have eD : Equal (B * B - 4 * 1 * C) 0 = false := (equal_false_iff_ne h0 _ _).mpr hd'.ne'
    simp only [eC, Bool.false_eq_true, if_false, if_neg (not_lt.mpr hd'.le), eD]
    have hs := L.sqrt_sq (B * B - 4 * 1 * C) hd'.le
    generalize hqq : (if B < 0 then -Env.sqrt (B * B - 4 * 1 * C) else Env.sqrt (B * B - 4 * 1 * C)) = q
    have hq2 : q * q = B * B - 4 * C := by
      rw [← hqq]
      split_ifs <;> linarith
    have hx1 : -(B + q) / (2 * 1) ≠ 0 := by
      intro h
      have h' : B + q = 0 := by
        have := congrArg (· * 2) h
        simp at this
        linarith
      have : q = -B := by linarith
      rw [this] at hq2
      apply hC
      linarith
    have hroot : (-(B + q) / (2 * 1)) * (-(B + q) / (2 * 1)) + B * (-(B + q) / (2 * 1)) + C = 0 := by
      field_simp
      linarith [hq2]
    generalize hx : -(B + q) / (2 * 1) = x1 at hx1 hroot ⊢
    have hx2 : x1 + C / (1 * x1) = -B := by
      field_simp
      linarith
    have hx3 : x1 * (C / (1 * x1)) = C := by
      field_simp
    split_ifs
    · exact ⟨C / (1 * x1), x1, rfl, by linarith, by linarith [mul_comm x1 (C / (1 * x1))]⟩
    · exact ⟨x1, C / (1 * x1), rfl, hx2, hx3⟩

/-- A unit eigenvector `(px, py)/n` of a symmetric 2×2 matrix, together with the trace, determines
the spectral decomposition `Q = l1 · v vᵀ + l2 · v⊥ v⊥ᵀ`. -/
theorem spectral_of_eigvec (q00 q01 q11 l1 l2 px py n : K) (hn : n * n = px * px + py * py) (hn0 : n ≠ 0)
    (h1 : (q00 - l1) * px + q01 * py = 0) (h2 : q01 * px + (q11 - l1) * py = 0) (htr : l1 + l2 = q00 + q11) :
    q00 = l1 * (px / n * 1) * (px / n * 1) + l2 * (py / n * 1) * (py / n * 1) ∧
    q01 = (l1 - l2) * (px / n * 1) * (py / n * 1) ∧
    q11 = l1 * (py / n * 1) * (py / n * 1) + l2 * (px / n * 1) * (px / n * 1) ∧
    (px / n * 1) * (px / n * 1) + (py / n * 1) * (py / n * 1) = 1 := by
  have hl2 : l2 = q00 + q11 - l1 := by linarith
  simp only [mul_one]
  have hx : px / n * n = px := div_mul_cancel₀ px hn0
  have hy : py / n * n = py := div_mul_cancel₀ py hn0
  generalize px / n = x at hx ⊢
  generalize py / n = y at hy ⊢
  subst hx hy hl2
  have hunit : x * x + y * y = 1 := by
    have : (x * x + y * y - 1) * (n * n) = 0 := by linear_combination -hn
    rcases mul_eq_zero.mp this with h | h
    · linarith
    · exact absurd h (mul_ne_zero hn0 hn0)
  have g1 : (q00 - l1) * x + q01 * y = 0 := by
    have : ((q00 - l1) * x + q01 * y) * n = 0 := by linear_combination h1
    rcases mul_eq_zero.mp this with h | h
    · exact h
    · exact absurd h hn0
  have g2 : q01 * x + (q11 - l1) * y = 0 := by
    have : (q01 * x + (q11 - l1) * y) * n = 0 := by linear_combination h2
    rcases mul_eq_zero.mp this with h | h
    · exact h
    · exact absurd h hn0
  refine ⟨?_, ?_, ?_, hunit⟩
  · linear_combination x * g1 - y * g2 - q00 * hunit
  · linear_combination y * g1 + x * g2 - q01 * hunit
  · linear_combination y * g2 - x * g1 - q11 * hunit

/-- `Q = l1 · v vᵀ + l2 · v⊥ v⊥ᵀ` for the unit vector `v`, entry by entry (`Q = [[a, b], [b, e]]`) -/
def SpecAt (m : Mat K) (l1 l2 : K) (v : Pt K) : Prop :=
  m.a = l1 * v.x * v.x + l2 * v.y * v.y ∧ m.b = (l1 - l2) * v.x * v.y ∧
  m.e = l1 * v.y * v.y + l2 * v.x * v.x ∧ v.x * v.x + v.y * v.y = 1

theorem norm1_eq (L : Laws K) (p : Pt K) (hp : p.x * p.x + p.y * p.y ≠ 0) :
    norm1 p = ⟨p.x / Env.hypot p.x p.y * 1, p.y / Env.hypot p.x p.y * 1⟩ ∧ Env.hypot p.x p.y ≠ 0 := by
  have hn : Env.hypot p.x p.y ≠ 0 := by
    intro h
    have := L.hypot_sq p.x p.y
    rw [h] at this
    apply hp
    linarith
  refine ⟨?_, hn⟩
  unfold norm1
  simp [hn]

/-- `Matrix.Eigen` of a symmetric matrix, with exact comparisons: two real eigenvalues with the trace as
sum and the determinant as product, and unit eigenvectors giving the spectral decomposition (`v1` for
`l1`, `v2` for `l2`). -/
theorem eigen_spectral (L : Laws K) (h0 : (Env.epsilon : K) = 0) (m : Mat K) (hsym : m.b = m.d) :
    ∃ l1 l2 : K, (eigen m).l1 = some l1 ∧ (eigen m).l2 = some l2 ∧ l1 + l2 = m.a + m.e ∧ l1 * l2 = Matrix.Det m ∧
      SpecAt m l1 l2 (eigen m).v1 ∧ SpecAt m l2 l1 (eigen m).v2 := by
  by_cases hd : m.d = 0
  · have hb : m.b = 0 := by rw [hsym, hd]
    have e1 : Equal m.d 0 = true := (equal_iff_eq h0 _ _).mpr hd
    have e2 : Equal m.b 0 = true := (equal_iff_eq h0 _ _).mpr hb
    have hE : eigen m = ⟨some m.a, some m.e, ⟨1, 0⟩, ⟨0, 1⟩, 0⟩ := by
      unfold eigen
      simp only [ops_equal, e1, e2, Bool.and_self, if_true]
    rw [hE]
    refine ⟨m.a, m.e, rfl, rfl, rfl, ?_, ?_, ?_⟩
    · simp [Matrix.Det, hb]
    · simp [SpecAt, hb]
    · simp [SpecAt, hb]
  · have e1 : Equal m.d 0 = false := (equal_false_iff_ne h0 _ _).mpr hd
    have hdisc : 0 < (-m.a - m.e) * (-m.a - m.e) - 4 * Matrix.Det m := by
      have : (-m.a - m.e) * (-m.a - m.e) - 4 * Matrix.Det m = (m.a - m.e) * (m.a - m.e) + 4 * (m.d * m.d) := by
        simp only [Matrix.Det, hsym]; ring
      rw [this]
      have := mul_self_nonneg (m.a - m.e)
      have := mul_self_pos.mpr hd
      linarith
    obtain ⟨x1, x2, hsq, hsum, hprod⟩ := solveQuadratic_monic L h0 (-m.a - m.e) (Matrix.Det m) hdisc
    have hchar1 : (m.a - x1) * (x1 - m.e) + m.b * m.d = 0 := by
      simp only [Matrix.Det] at hprod
      linear_combination (-x1) * hsum + hprod
    have hchar2 : (m.a - x2) * (x2 - m.e) + m.b * m.d = 0 := by
      simp only [Matrix.Det] at hprod
      linear_combination (-x2) * hsum + hprod
    have hp1 : (x1 - m.e) * (x1 - m.e) + m.d * m.d ≠ 0 := by
      have := mul_self_nonneg (x1 - m.e)
      have := mul_self_pos.mpr hd
      linarith
    have hp2 : (x2 - m.e) * (x2 - m.e) + m.d * m.d ≠ 0 := by
      have := mul_self_nonneg (x2 - m.e)
      have := mul_self_pos.mpr hd
      linarith
    obtain ⟨hn1, hn1'⟩ := norm1_eq L ⟨x1 - m.e, m.d⟩ hp1
    obtain ⟨hn2, hn2'⟩ := norm1_eq L ⟨x2 - m.e, m.d⟩ hp2
    have hev : eigenvalues m = (some x1, some x2) := by
      simp [eigenvalues, hsq]
    have hE : eigen m = ⟨some x1, some x2, norm1 ⟨x1 - m.e, m.d⟩, norm1 ⟨x2 - m.e, m.d⟩, 2⟩ := by
      simp [eigen, e1, hev]
    rw [hE]
    refine ⟨x1, x2, rfl, rfl, by linarith, hprod, ?_, ?_⟩
    · rw [hn1]
      have := spectral_of_eigvec m.a m.b m.e x1 x2 (x1 - m.e) m.d (Env.hypot (x1 - m.e) m.d)
        (L.hypot_sq _ _) hn1' (by linear_combination hchar1) (by rw [hsym]; ring) (by linarith)
      exact this
    · rw [hn2]
      have := spectral_of_eigvec m.a m.b m.e x2 x1 (x2 - m.e) m.d (Env.hypot (x2 - m.e) m.d)
        (L.hypot_sq _ _) hn2' (by linear_combination hchar2) (by rw [hsym]; ring) (by linarith)
      exact this

end C07
