import CanvasProofs.Lemmas.C03Split
import Mathlib.Tactic.Ring
import Mathlib.Tactic.Linarith
import Mathlib.Tactic.Positivity
/-! C03 helper lemmas: deviation of a quadratic Bézier piece from its chord. -/
set_option linter.unusedSectionVars false
namespace C03L
open Canvas GenK
variable {K : Type} [Field K] [LinearOrder K] [IsStrictOrderedRing K] [Env K]

theorem unit_prod_le_quarter (s : K) (h0 : 0 ≤ s) (h1 : s ≤ 1) : 0 ≤ s * (1 - s) ∧ s * (1 - s) ≤ 1 / 4 := by
  constructor
  · exact mul_nonneg h0 (by linarith)
  · nlinarith [sq_nonneg (s - 1 / 2)]

theorem unit_prod_sq_le (u : K) (h0 : 0 ≤ u) (h1 : u ≤ 1) : 16 * (u * (1 - u)) ^ 2 ≤ 1 := by
  obtain ⟨ha, hb⟩ := unit_prod_le_quarter u h0 h1
  nlinarith [mul_le_mul hb hb ha (by norm_num : (0 : K) ≤ 1 / 4)]

/-- B(s) − L(s) = −s(1−s)·(p0 − 2p1 + p2), componentwise -/
theorem chord_identity_x (p0 p1 p2 : Pt K) (s : K) :
    (quadraticBezierPos p0 p1 p2 s).x - (Point.Interpolate p0 p2 s).x
      = -(s * (1 - s)) * (p0.x - 2 * p1.x + p2.x) := by
  simp only [quadraticBezierPos, Point.Interpolate, Point.Mul, Point.Add]; ring

theorem chord_identity_y (p0 p1 p2 : Pt K) (s : K) :
    (quadraticBezierPos p0 p1 p2 s).y - (Point.Interpolate p0 p2 s).y
      = -(s * (1 - s)) * (p0.y - 2 * p1.y + p2.y) := by
  simp only [quadraticBezierPos, Point.Interpolate, Point.Mul, Point.Add]; ring

theorem abs_scaled_le (w s : K) (h0 : 0 ≤ s) (h1 : s ≤ 1) : |-(s * (1 - s)) * w| ≤ |w| / 4 := by
  obtain ⟨ha, hb⟩ := unit_prod_le_quarter s h0 h1
  rw [abs_mul, abs_neg, abs_of_nonneg ha]
  have := mul_le_mul_of_nonneg_right hb (abs_nonneg w)
  linarith

/-- second difference of the left piece `[0,t]` is `t²` times the second difference of the curve -/
theorem left_second_difference_x (p0 p1 p2 : Pt K) (t : K) :
    (quadL p0 p1 p2 t).1.x - 2 * (quadL p0 p1 p2 t).2.1.x + (quadL p0 p1 p2 t).2.2.x
      = t * t * (p0.x - 2 * p1.x + p2.x) := by
  simp only [quadL, quadraticBezierSplit, Point.Interpolate]; ring

theorem left_second_difference_y (p0 p1 p2 : Pt K) (t : K) :
    (quadL p0 p1 p2 t).1.y - 2 * (quadL p0 p1 p2 t).2.1.y + (quadL p0 p1 p2 t).2.2.y
      = t * t * (p0.y - 2 * p1.y + p2.y) := by
  simp only [quadL, quadraticBezierSplit, Point.Interpolate]; ring

/-- the code's `s2nom` -/
def s2nom (p0 p1 p2 : Pt K) : K := Point.PerpDot (Point.Sub p1 p0) (Point.Sub p2 p0)

/-- cross product of (B(ut) − p0) with the chord (B(t) − p0): exactly 2u(1−u)t³·s2nom -/
theorem cross_piece (p0 p1 p2 : Pt K) (t u : K) :
    Point.PerpDot (Point.Sub (quadraticBezierPos p0 p1 p2 (u * t)) p0) (Point.Sub (quadraticBezierPos p0 p1 p2 t) p0)
      = 2 * (u * (1 - u)) * (t * t * t) * s2nom p0 p1 p2 := by
  simp only [s2nom, quadraticBezierPos, Point.PerpDot, Point.Sub, Point.Mul, Point.Add]; ring

/-- Cauchy–Schwarz in the plane -/
theorem cauchy2 (a b c d : K) : (a * c + b * d) ^ 2 ≤ (a * a + b * b) * (c * c + d * d) := by
  nlinarith [sq_nonneg (a * d - b * c)]

/-- `turnDot` = (p1−p0)·(p2−p1): negative iff the control polygon turns by more than 90° -/
def turnDot (p0 p1 p2 : Pt K) : K := Point.Dot (Point.Sub p1 p0) (Point.Sub p2 p1)
def dd (p0 p1 : Pt K) : K := Point.Dot (Point.Sub p1 p0) (Point.Sub p1 p0)

theorem dd_nonneg (p0 p1 : Pt K) : 0 ≤ dd p0 p1 := by
  simp only [dd, Point.Dot]; exact add_nonneg (mul_self_nonneg _) (mul_self_nonneg _)

/-- The step cap of the repaired `flattenQuadraticBezier`: `t ≤ D·D/(D·D − turn)` when `turn < 0`
gives the cap hypothesis `t·(D·D − turn) ≤ D·D`, and that cap is below 1, so the loop is never left
(`t ≥ 1`) while the polygon still turns by more than 90°. -/
theorem cap_gives_hcap (p0 p1 p2 : Pt K) (t : K) (hturn : turnDot p0 p1 p2 < 0)
    (ht : t ≤ dd p0 p1 / (dd p0 p1 - turnDot p0 p1 p2)) :
    t * (dd p0 p1 - turnDot p0 p1 p2) ≤ dd p0 p1 := by
  have hpos : 0 < dd p0 p1 - turnDot p0 p1 p2 := by linarith [dd_nonneg p0 p1]
  have := mul_le_mul_of_nonneg_right ht (le_of_lt hpos)
  rwa [div_mul_cancel₀ _ (ne_of_gt hpos)] at this

theorem cap_lt_one (p0 p1 p2 : Pt K) (hturn : turnDot p0 p1 p2 < 0) :
    dd p0 p1 / (dd p0 p1 - turnDot p0 p1 p2) < 1 := by
  have hpos : 0 < dd p0 p1 - turnDot p0 p1 p2 := by linarith [dd_nonneg p0 p1]
  rw [div_lt_one hpos]; linarith

/-- without a turn beyond 90° every `t ≤ 1` satisfies the cap hypothesis -/
theorem no_turn_gives_hcap (p0 p1 p2 : Pt K) (t : K) (ht0 : 0 ≤ t) (ht1 : t ≤ 1) (hturn : 0 ≤ turnDot p0 p1 p2) :
    t * (dd p0 p1 - turnDot p0 p1 p2) ≤ dd p0 p1 := by
  have := dd_nonneg p0 p1
  nlinarith [mul_nonneg ht0 hturn, mul_nonneg (sub_nonneg.mpr ht1) this]

/-- (B(t) − p0)·D = t·(2·D·D − t·(D·D − turn)) -/
theorem chord_dot_tangent (p0 p1 p2 : Pt K) (t : K) :
    Point.Dot (Point.Sub (quadraticBezierPos p0 p1 p2 t) p0) (Point.Sub p1 p0)
      = t * (2 * dd p0 p1 - t * (dd p0 p1 - turnDot p0 p1 p2)) := by
  simp only [dd, turnDot, quadraticBezierPos, Point.Dot, Point.Sub, Point.Mul, Point.Add]; ring

/-- chord length: under the cap hypothesis the chord of the piece [0,t] is at least t·|D| long -/
theorem chord_sq_ge (p0 p1 p2 : Pt K) (t : K) (ht0 : 0 ≤ t)
    (hcap : t * (dd p0 p1 - turnDot p0 p1 p2) ≤ dd p0 p1) :
    t * t * dd p0 p1
      ≤ Point.Dot (Point.Sub (quadraticBezierPos p0 p1 p2 t) p0) (Point.Sub (quadraticBezierPos p0 p1 p2 t) p0) := by
  have hA := dd_nonneg p0 p1
  have hdot := chord_dot_tangent p0 p1 p2 t
  set C := Point.Sub (quadraticBezierPos p0 p1 p2 t) p0 with hC
  set D := Point.Sub p1 p0 with hD
  have hcs : (Point.Dot C D) ^ 2 ≤ Point.Dot C C * dd p0 p1 := by
    simp only [dd, Point.Dot, ← hD]; exact cauchy2 C.x C.y D.x D.y
  have hge : t * dd p0 p1 ≤ Point.Dot C D := by
    rw [hdot]
    have : dd p0 p1 ≤ 2 * dd p0 p1 - t * (dd p0 p1 - turnDot p0 p1 p2) := by linarith
    exact mul_le_mul_of_nonneg_left this ht0
  have h0 : 0 ≤ t * dd p0 p1 := mul_nonneg ht0 hA
  have hsq : (t * dd p0 p1) ^ 2 ≤ Point.Dot C C * dd p0 p1 := le_trans (pow_le_pow_left₀ h0 hge 2) hcs
  rcases eq_or_lt_of_le hA with h | h
  · -- D = 0
    rw [← h]; simp only [mul_zero]
    simp only [Point.Dot]; exact add_nonneg (mul_self_nonneg _) (mul_self_nonneg _)
  · have : t * t * dd p0 p1 * dd p0 p1 ≤ Point.Dot C C * dd p0 p1 := by
      calc t * t * dd p0 p1 * dd p0 p1 = (t * dd p0 p1) ^ 2 := by ring
        _ ≤ _ := hsq
    exact le_of_mul_le_mul_right this h

/-- Distance of the curve point B(u·t) from the chord line of the piece [0,t], in squared form:
cross² ≤ (2·tol)²·|chord|², when t does not exceed the code's flatness step (t²·|s2nom| ≤ 4·tol·|D|)
nor the 90° cap (t·(D·D − turn) ≤ D·D). -/
theorem piece_two_tol (p0 p1 p2 : Pt K) (tol d t u : K)
    (hd2 : d * d = dd p0 p1)
    (ht0 : 0 ≤ t) (hu0 : 0 ≤ u) (hu1 : u ≤ 1)
    (hstep : t * t * |s2nom p0 p1 p2| ≤ 4 * tol * d)
    (hcap : t * (dd p0 p1 - turnDot p0 p1 p2) ≤ dd p0 p1) :
    (Point.PerpDot (Point.Sub (quadraticBezierPos p0 p1 p2 (u * t)) p0) (Point.Sub (quadraticBezierPos p0 p1 p2 t) p0)) ^ 2
      ≤ (2 * tol) ^ 2 * Point.Dot (Point.Sub (quadraticBezierPos p0 p1 p2 t) p0) (Point.Sub (quadraticBezierPos p0 p1 p2 t) p0) := by
  rw [cross_piece]
  have hch := chord_sq_ge p0 p1 p2 t ht0 hcap
  have hu := unit_prod_sq_le u hu0 hu1
  set S := s2nom p0 p1 p2 with hS
  set DD := dd p0 p1 with hDD
  set CC := Point.Dot (Point.Sub (quadraticBezierPos p0 p1 p2 t) p0) (Point.Sub (quadraticBezierPos p0 p1 p2 t) p0) with hCC
  have hnn : 0 ≤ t * t * |S| := mul_nonneg (mul_self_nonneg t) (abs_nonneg S)
  have hsq : (t * t) ^ 2 * S ^ 2 ≤ (4 * tol * d) ^ 2 := by
    have := pow_le_pow_left₀ hnn hstep 2
    rwa [mul_pow, sq_abs] at this
  have e2 : (4 * tol * d) ^ 2 = 16 * tol ^ 2 * DD := by rw [← hd2]; ring
  rw [e2] at hsq
  have hT : 0 ≤ 4 * tol ^ 2 := by positivity
  have hDDnn : 0 ≤ t * t * DD := mul_nonneg (mul_self_nonneg t) (dd_nonneg p0 p1)
  have hq : 0 ≤ 4 * (u * (1 - u)) ^ 2 * (t * t) := by positivity
  calc (2 * (u * (1 - u)) * (t * t * t) * S) ^ 2
      = 4 * (u * (1 - u)) ^ 2 * (t * t) * ((t * t) ^ 2 * S ^ 2) := by ring
    _ ≤ 4 * (u * (1 - u)) ^ 2 * (t * t) * (16 * tol ^ 2 * DD) := mul_le_mul_of_nonneg_left hsq hq
    _ = (16 * (u * (1 - u)) ^ 2) * (4 * tol ^ 2 * (t * t * DD)) := by ring
    _ ≤ 1 * (4 * tol ^ 2 * (t * t * DD)) := mul_le_mul_of_nonneg_right hu (mul_nonneg hT hDDnn)
    _ = 4 * tol ^ 2 * (t * t * DD) := by ring
    _ ≤ 4 * tol ^ 2 * CC := mul_le_mul_of_nonneg_left hch hT
    _ = (2 * tol) ^ 2 * CC := by ring

/-- Last piece (the loop is left because `t ≥ 1`: |s2nom| ≤ 4·tol·|D|, and the cap is inactive, i.e. the
polygon turns by at most 90°): the whole remaining curve against its chord p0→p2. -/
theorem last_piece_two_tol (p0 p1 p2 : Pt K) (tol d u : K)
    (hd2 : d * d = dd p0 p1)
    (hu0 : 0 ≤ u) (hu1 : u ≤ 1)
    (hstop : |s2nom p0 p1 p2| ≤ 4 * tol * d)
    (hturn : 0 ≤ turnDot p0 p1 p2) :
    (Point.PerpDot (Point.Sub (quadraticBezierPos p0 p1 p2 u) p0) (Point.Sub p2 p0)) ^ 2
      ≤ (2 * tol) ^ 2 * Point.Dot (Point.Sub p2 p0) (Point.Sub p2 p0) := by
  have h := piece_two_tol p0 p1 p2 tol d 1 u hd2 (by norm_num) hu0 hu1 (by simpa using hstop)
    (no_turn_gives_hcap p0 p1 p2 1 (by norm_num) (le_refl _) hturn)
  rwa [quad_pos_one, mul_one] at h

/-- scalar core of the cone argument: A = D·D, g = D·G, H = G·G with G = W − D; v(τ) = D + τ·G -/
theorem cone_core (A g H t x y : K) (hA : 0 ≤ A) (hH : 0 ≤ H) (hcs : g * g ≤ A * H)
    (hcap : 0 ≤ A + t * g) (hx0 : 0 ≤ x) (hxt : x ≤ t) (hy0 : 0 ≤ y) (hyt : y ≤ t) :
    0 ≤ A + (x + y) * g + x * y * H := by
  rcases le_or_gt 0 g with hg | hg
  · have := mul_nonneg (add_nonneg hx0 hy0) hg
    have := mul_nonneg (mul_nonneg hx0 hy0) hH
    linarith
  · have hxg : 0 ≤ A + x * g := by nlinarith
    have hyg : 0 ≤ A + y * g := by nlinarith
    rcases eq_or_lt_of_le hA with h0 | hpos
    · -- A = 0 forces g = 0
      have : g * g ≤ 0 := by rw [← h0] at hcs; simpa using hcs
      nlinarith [mul_self_nonneg g]
    · have hxy : 0 ≤ x * y := mul_nonneg hx0 hy0
      have key : 0 ≤ (A + (x + y) * g + x * y * H) * A := by
        have e : (A + (x + y) * g + x * y * H) * A = (A + x * g) * (A + y * g) + x * y * (A * H - g * g) := by ring
        rw [e]
        exact add_nonneg (mul_nonneg hxg hyg) (mul_nonneg hxy (by linarith))
      exact nonneg_of_mul_nonneg_left key hpos

/-- Along the capped piece the curve advances monotonically in the direction of its chord, so the
nearest point of the chord LINE lies on the chord SEGMENT: B'(x)·(B(t) − p0) ≥ 0 for 0 ≤ x ≤ t. -/
theorem monotone_along_chord (p0 p1 p2 : Pt K) (t x : K) (hx0 : 0 ≤ x) (hxt : x ≤ t)
    (hcap : t * (dd p0 p1 - turnDot p0 p1 p2) ≤ dd p0 p1) :
    0 ≤ Point.Dot (quadraticBezierDeriv p0 p1 p2 x) (Point.Sub (quadraticBezierPos p0 p1 p2 t) p0) := by
  have ht0 : 0 ≤ t := le_trans hx0 hxt
  set Dx := p1.x - p0.x with hDx
  set Dy := p1.y - p0.y with hDy
  set Gx := (p2.x - p1.x) - (p1.x - p0.x) with hGx
  set Gy := (p2.y - p1.y) - (p1.y - p0.y) with hGy
  have hcore := cone_core (Dx * Dx + Dy * Dy) (Dx * Gx + Dy * Gy) (Gx * Gx + Gy * Gy) t x (t / 2)
    (add_nonneg (mul_self_nonneg _) (mul_self_nonneg _)) (add_nonneg (mul_self_nonneg _) (mul_self_nonneg _))
    (by have := cauchy2 Dx Dy Gx Gy; nlinarith [this])
    (by
      have : t * (dd p0 p1 - turnDot p0 p1 p2) ≤ dd p0 p1 := hcap
      simp only [dd, turnDot, Point.Dot, Point.Sub] at this
      rw [hDx, hDy, hGx, hGy]; nlinarith [this])
    hx0 hxt (by positivity) (by linarith)
  have e : Point.Dot (quadraticBezierDeriv p0 p1 p2 x) (Point.Sub (quadraticBezierPos p0 p1 p2 t) p0)
      = 4 * t * ((Dx * Dx + Dy * Dy) + (x + t / 2) * (Dx * Gx + Dy * Gy) + x * (t / 2) * (Gx * Gx + Gy * Gy)) := by
    simp only [quadraticBezierDeriv, quadraticBezierPos, Point.Dot, Point.Sub, Point.Mul, Point.Add, hDx, hDy, hGx, hGy]
    ring
  rw [e]
  exact mul_nonneg (by positivity) hcore

end C03L
