import CanvasProofs.Lemmas.C03Split
import Mathlib.Tactic.Ring
import Mathlib.Tactic.Linarith
import Mathlib.Tactic.Positivity
/-! C03 helper lemmas: deviation of a quadratic Bézier piece from its chord. -/
set_option linter.unusedSectionVars false
namespace C03L
open Canvas GenK
variable {K : Type} [Field K] [LinearOrder K] [IsStrictOrderedRing K] [Env K]

theorem unit_prod_le_quarter (s : K) (h0 : 0 ≤ s) (h1 : s ≤ 1) : 0 ≤ s * (1 - s) ∧ s * (1 - s) ≤ 1 / 4 := by
  constructor
  · exact mul_nonneg h0 (by linarith)
  · nlinarith [sq_nonneg (s - 1 / 2)]

theorem unit_prod_sq_le (u : K) (h0 : 0 ≤ u) (h1 : u ≤ 1) : 16 * (u * (1 - u)) ^ 2 ≤ 1 := by
  obtain ⟨ha, hb⟩ := unit_prod_le_quarter u h0 h1
  nlinarith [mul_le_mul hb hb ha (by norm_num : (0 : K) ≤ 1 / 4)]

/-- B(s) − L(s) = −s(1−s)·(p0 − 2p1 + p2), componentwise -/
theorem chord_identity_x (p0 p1 p2 : Pt K) (s : K) :
    (quadraticBezierPos p0 p1 p2 s).x - (Point.Interpolate p0 p2 s).x
      = -(s * (1 - s)) * (p0.x - 2 * p1.x + p2.x) := by
  simp only [quadraticBezierPos, Point.Interpolate, Point.Mul, Point.Add]; ring

theorem chord_identity_y (p0 p1 p2 : Pt K) (s : K) :
    (quadraticBezierPos p0 p1 p2 s).y - (Point.Interpolate p0 p2 s).y
      = -(s * (1 - s)) * (p0.y - 2 * p1.y + p2.y) := by
  simp only [quadraticBezierPos, Point.Interpolate, Point.Mul, Point.Add]; ring

theorem abs_scaled_le (w s : K) (h0 : 0 ≤ s) (h1 : s ≤ 1) : |-(s * (1 - s)) * w| ≤ |w| / 4 := by
  obtain ⟨ha, hb⟩ := unit_prod_le_quarter s h0 h1
  rw [abs_mul, abs_neg, abs_of_nonneg ha]
  have := mul_le_mul_of_nonneg_right hb (abs_nonneg w)
  linarith

/-- second difference of the left piece `[0,t]` is `t²` times the second difference of the curve -/
theorem left_second_difference_x (p0 p1 p2 : Pt K) (t : K) :
    (quadL p0 p1 p2 t).1.x - 2 * (quadL p0 p1 p2 t).2.1.x + (quadL p0 p1 p2 t).2.2.x
      = t * t * (p0.x - 2 * p1.x + p2.x) := by
  simp only [quadL, quadraticBezierSplit, Point.Interpolate]; ring

theorem left_second_difference_y (p0 p1 p2 : Pt K) (t : K) :
    (quadL p0 p1 p2 t).1.y - 2 * (quadL p0 p1 p2 t).2.1.y + (quadL p0 p1 p2 t).2.2.y
      = t * t * (p0.y - 2 * p1.y + p2.y) := by
  simp only [quadL, quadraticBezierSplit, Point.Interpolate]; ring

/-- the code's `s2nom` -/
def s2nom (p0 p1 p2 : Pt K) : K := Point.PerpDot (Point.Sub p1 p0) (Point.Sub p2 p0)

/-- cross product of (B(ut) − p0) with the chord (B(t) − p0): exactly 2u(1−u)t³·s2nom -/
theorem cross_piece (p0 p1 p2 : Pt K) (t u : K) :
    Point.PerpDot (Point.Sub (quadraticBezierPos p0 p1 p2 (u * t)) p0) (Point.Sub (quadraticBezierPos p0 p1 p2 t) p0)
      = 2 * (u * (1 - u)) * (t * t * t) * s2nom p0 p1 p2 := by
  simp only [s2nom, quadraticBezierPos, Point.PerpDot, Point.Sub, Point.Mul, Point.Add]; ring

/-- chord length: B(t) − p0 = t·((2−t)·D + t·W); with D·W ≥ 0 and 0 ≤ t ≤ 1 it is at least t·|D| -/
theorem chord_sq_ge (p0 p1 p2 : Pt K) (t : K) (ht0 : 0 ≤ t) (ht1 : t ≤ 1)
    (hturn : 0 ≤ Point.Dot (Point.Sub p1 p0) (Point.Sub p2 p1)) :
    t * t * Point.Dot (Point.Sub p1 p0) (Point.Sub p1 p0)
      ≤ Point.Dot (Point.Sub (quadraticBezierPos p0 p1 p2 t) p0) (Point.Sub (quadraticBezierPos p0 p1 p2 t) p0) := by
  simp only [quadraticBezierPos, Point.Dot, Point.Sub, Point.Mul, Point.Add] at *
  have key : ((1 - 2 * t + t * t) * p0.x + (2 * t - 2 * t * t) * p1.x + t * t * p2.x - p0.x) *
        ((1 - 2 * t + t * t) * p0.x + (2 * t - 2 * t * t) * p1.x + t * t * p2.x - p0.x) +
      ((1 - 2 * t + t * t) * p0.y + (2 * t - 2 * t * t) * p1.y + t * t * p2.y - p0.y) *
        ((1 - 2 * t + t * t) * p0.y + (2 * t - 2 * t * t) * p1.y + t * t * p2.y - p0.y)
      - t * t * ((p1.x - p0.x) * (p1.x - p0.x) + (p1.y - p0.y) * (p1.y - p0.y))
      = t * t * ((1 - t) * (3 - t) * ((p1.x - p0.x) * (p1.x - p0.x) + (p1.y - p0.y) * (p1.y - p0.y))
          + 2 * t * (2 - t) * ((p1.x - p0.x) * (p2.x - p1.x) + (p1.y - p0.y) * (p2.y - p1.y))
          + t * t * ((p2.x - p1.x) * (p2.x - p1.x) + (p2.y - p1.y) * (p2.y - p1.y))) := by ring
  have h1 : 0 ≤ (1 - t) * (3 - t) * ((p1.x - p0.x) * (p1.x - p0.x) + (p1.y - p0.y) * (p1.y - p0.y)) :=
    mul_nonneg (mul_nonneg (by linarith) (by linarith)) (add_nonneg (mul_self_nonneg _) (mul_self_nonneg _))
  have h2 : 0 ≤ 2 * t * (2 - t) * ((p1.x - p0.x) * (p2.x - p1.x) + (p1.y - p0.y) * (p2.y - p1.y)) :=
    mul_nonneg (mul_nonneg (by linarith) (by linarith)) hturn
  have h3 : 0 ≤ t * t * ((p2.x - p1.x) * (p2.x - p1.x) + (p2.y - p1.y) * (p2.y - p1.y)) :=
    mul_nonneg (mul_self_nonneg _) (add_nonneg (mul_self_nonneg _) (mul_self_nonneg _))
  have h4 : 0 ≤ t * t * ((1 - t) * (3 - t) * ((p1.x - p0.x) * (p1.x - p0.x) + (p1.y - p0.y) * (p1.y - p0.y))
          + 2 * t * (2 - t) * ((p1.x - p0.x) * (p2.x - p1.x) + (p1.y - p0.y) * (p2.y - p1.y))
          + t * t * ((p2.x - p1.x) * (p2.x - p1.x) + (p2.y - p1.y) * (p2.y - p1.y))) :=
    mul_nonneg (mul_self_nonneg _) (by linarith)
  linarith

/-- Distance of the curve point B(u·t) from the chord line of the piece [0,t], in squared form:
cross² ≤ (2·tol)²·|chord|², when t obeys the code's rule t²·|s2nom| = 4·tol·|D| and the control
polygon turns by at most 90° (D·W ≥ 0). -/
theorem piece_two_tol (p0 p1 p2 : Pt K) (tol d t u : K)
    (hd2 : d * d = Point.Dot (Point.Sub p1 p0) (Point.Sub p1 p0))
    (ht0 : 0 ≤ t) (ht1 : t ≤ 1) (hu0 : 0 ≤ u) (hu1 : u ≤ 1)
    (hstep : t * t * |s2nom p0 p1 p2| = 4 * tol * d)
    (hturn : 0 ≤ Point.Dot (Point.Sub p1 p0) (Point.Sub p2 p1)) :
    (Point.PerpDot (Point.Sub (quadraticBezierPos p0 p1 p2 (u * t)) p0) (Point.Sub (quadraticBezierPos p0 p1 p2 t) p0)) ^ 2
      ≤ (2 * tol) ^ 2 * Point.Dot (Point.Sub (quadraticBezierPos p0 p1 p2 t) p0) (Point.Sub (quadraticBezierPos p0 p1 p2 t) p0) := by
  rw [cross_piece]
  have hch := chord_sq_ge p0 p1 p2 t ht0 ht1 hturn
  have hu := unit_prod_sq_le u hu0 hu1
  set S := s2nom p0 p1 p2 with hS
  set DD := Point.Dot (Point.Sub p1 p0) (Point.Sub p1 p0) with hDD
  set CC := Point.Dot (Point.Sub (quadraticBezierPos p0 p1 p2 t) p0) (Point.Sub (quadraticBezierPos p0 p1 p2 t) p0) with hCC
  have hsq : (t * t * |S|) ^ 2 = (t * t) ^ 2 * S ^ 2 := by rw [mul_pow, sq_abs]
  have e1 : (2 * (u * (1 - u)) * (t * t * t) * S) ^ 2 = 4 * (u * (1 - u)) ^ 2 * (t * t) * ((t * t) ^ 2 * S ^ 2) := by ring
  rw [e1, ← hsq, hstep]
  have e2 : (4 * tol * d) ^ 2 = 16 * tol ^ 2 * DD := by rw [← hd2]; ring
  rw [e2]
  have hT : 0 ≤ 4 * tol ^ 2 := by positivity
  have hDDnn : 0 ≤ t * t * DD := le_trans (by
    rw [hDD]; simp only [Point.Dot]; exact mul_nonneg (mul_self_nonneg _) (add_nonneg (mul_self_nonneg _) (mul_self_nonneg _))) (le_refl _)
  calc 4 * (u * (1 - u)) ^ 2 * (t * t) * (16 * tol ^ 2 * DD)
      = (16 * (u * (1 - u)) ^ 2) * (4 * tol ^ 2 * (t * t * DD)) := by ring
    _ ≤ 1 * (4 * tol ^ 2 * (t * t * DD)) := mul_le_mul_of_nonneg_right hu (mul_nonneg hT hDDnn)
    _ ≤ (2 * tol) ^ 2 * CC := by
        have := mul_le_mul_of_nonneg_left hch hT
        calc 1 * (4 * tol ^ 2 * (t * t * DD)) = 4 * tol ^ 2 * (t * t * DD) := by ring
          _ ≤ 4 * tol ^ 2 * CC := this
          _ = (2 * tol) ^ 2 * CC := by ring

/-- Last piece (the loop is left because `t ≥ 1`, i.e. |s2nom| ≤ 4·tol·|D|): the whole remaining
curve against its chord p0→p2. -/
theorem last_piece_two_tol (p0 p1 p2 : Pt K) (tol d u : K)
    (hd2 : d * d = Point.Dot (Point.Sub p1 p0) (Point.Sub p1 p0))
    (hu0 : 0 ≤ u) (hu1 : u ≤ 1)
    (hstop : |s2nom p0 p1 p2| ≤ 4 * tol * d)
    (hturn : 0 ≤ Point.Dot (Point.Sub p1 p0) (Point.Sub p2 p1)) :
    (Point.PerpDot (Point.Sub (quadraticBezierPos p0 p1 p2 u) p0) (Point.Sub p2 p0)) ^ 2
      ≤ (2 * tol) ^ 2 * Point.Dot (Point.Sub p2 p0) (Point.Sub p2 p0) := by
  have h1 := cross_piece p0 p1 p2 1 u
  rw [quad_pos_one, mul_one] at h1
  rw [h1]
  have hch := chord_sq_ge p0 p1 p2 1 (by norm_num) (le_refl _) hturn
  rw [quad_pos_one] at hch
  have hu := unit_prod_sq_le u hu0 hu1
  set S := s2nom p0 p1 p2 with hS
  set DD := Point.Dot (Point.Sub p1 p0) (Point.Sub p1 p0) with hDD
  set CC := Point.Dot (Point.Sub p2 p0) (Point.Sub p2 p0) with hCC
  have hS2 : S ^ 2 ≤ (4 * tol * d) ^ 2 := by
    rw [← sq_abs S]
    exact pow_le_pow_left₀ (abs_nonneg S) hstop 2
  have e2 : (4 * tol * d) ^ 2 = 16 * tol ^ 2 * DD := by rw [← hd2]; ring
  rw [e2] at hS2
  have hT : 0 ≤ 4 * tol ^ 2 := by positivity
  have hDDnn : 0 ≤ DD := by
    rw [hDD]; simp only [Point.Dot]; exact add_nonneg (mul_self_nonneg _) (mul_self_nonneg _)
  have hq : 0 ≤ (u * (1 - u)) ^ 2 := sq_nonneg _
  calc (2 * (u * (1 - u)) * (1 * 1 * 1) * S) ^ 2 = 4 * (u * (1 - u)) ^ 2 * S ^ 2 := by ring
    _ ≤ 4 * (u * (1 - u)) ^ 2 * (16 * tol ^ 2 * DD) := mul_le_mul_of_nonneg_left hS2 (by positivity)
    _ = (16 * (u * (1 - u)) ^ 2) * (4 * tol ^ 2 * DD) := by ring
    _ ≤ 1 * (4 * tol ^ 2 * DD) := mul_le_mul_of_nonneg_right hu (mul_nonneg hT hDDnn)
    _ ≤ (2 * tol) ^ 2 * CC := by
        have h := mul_le_mul_of_nonneg_left hch hT
        calc 1 * (4 * tol ^ 2 * DD) = 4 * tol ^ 2 * (1 * 1 * DD) := by ring
          _ ≤ 4 * tol ^ 2 * CC := h
          _ = (2 * tol) ^ 2 * CC := by ring

end C03L
