import CanvasModel.Path
/-! Helper lemmas for C10: decoding the encoded data array from both ends. -/
set_option linter.unusedSectionVars false
set_option linter.unusedVariables false
set_option linter.unusedSimpArgs false
namespace Canvas.Path
variable {α : Type} [DecidableEq α] (C : Codes α)

theorem encode_eq_flatMap (cs : RPath α) : encode C cs = cs.reverse.flatMap (encodeCmd C) := by
  induction cs with
  | nil => rfl
  | cons c cs ih => simp [encode, ih]

theorem encode_reverse_cons (c : Cmd α) (cs : RPath α) :
    (encode C (c :: cs)).reverse = (encodeCmd C c).reverse ++ (encode C cs).reverse := by
  simp [encode]

theorem decodeFlag_flag (hC : C.Distinct) (l s : Bool) : decodeFlag C (C.flag l s) = some (l, s) := by
  obtain ⟨_, _, _, _, _, _, _, _, _, _, _, _, _, _, _, f1, f2, f3, f4, f5, f6⟩ := hC
  cases l <;> cases s <;> simp [decodeFlag, f1, f2, f3, f4, f5, f6, Ne.symm f1, Ne.symm f2, Ne.symm f3,
    Ne.symm f4, Ne.symm f5, Ne.symm f6]

theorem takeRec_encodeCmd (hC : C.Distinct) (c : Cmd α) (t : List α) :
    takeRec C (encodeCmd C c ++ t) = some (c, t) := by
  have hf := decodeFlag_flag C hC
  obtain ⟨h1, h2, h3, h4, h5, h6, h7, h8, h9, h10, h11, h12, h13, h14, h15, _⟩ := hC
  cases c <;> simp [takeRec, encodeCmd, hf, h1, h2, h3, h4, h5, h6, h7, h8, h9, h10, h11, h12, h13, h14, h15,
    Ne.symm h1, Ne.symm h2, Ne.symm h3, Ne.symm h4, Ne.symm h5, Ne.symm h6, Ne.symm h7, Ne.symm h8,
    Ne.symm h9, Ne.symm h10, Ne.symm h11, Ne.symm h12, Ne.symm h13, Ne.symm h14, Ne.symm h15]

theorem takeRecBwd_encodeCmd (hC : C.Distinct) (c : Cmd α) (t : List α) :
    takeRecBwd C ((encodeCmd C c).reverse ++ t) = some (c, t) := by
  have hf := decodeFlag_flag C hC
  obtain ⟨h1, h2, h3, h4, h5, h6, h7, h8, h9, h10, h11, h12, h13, h14, h15, _⟩ := hC
  cases c <;> simp [takeRecBwd, encodeCmd, hf, h1, h2, h3, h4, h5, h6, h7, h8, h9, h10, h11, h12, h13, h14, h15,
    Ne.symm h1, Ne.symm h2, Ne.symm h3, Ne.symm h4, Ne.symm h5, Ne.symm h6, Ne.symm h7, Ne.symm h8,
    Ne.symm h9, Ne.symm h10, Ne.symm h11, Ne.symm h12, Ne.symm h13, Ne.symm h14, Ne.symm h15]

theorem encodeCmd_cons (c : Cmd α) : ∃ x d, encodeCmd C c = x :: d := by
  cases c <;> exact ⟨_, _, rfl⟩

theorem decodeN_succ_cons (n : Nat) (x : α) (d : List α) :
    decodeN C (n + 1) (x :: d) =
      match takeRec C (x :: d) with
      | some (c, t) => (decodeN C n t).map (c :: ·)
      | none => none := rfl

theorem decodeBwdN_succ_cons (n : Nat) (x : α) (d : List α) :
    decodeBwdN C (n + 1) (x :: d) =
      match takeRecBwd C (x :: d) with
      | some (c, t) => (decodeBwdN C n t).map (c :: ·)
      | none => none := rfl

theorem decodeN_flatMap (hC : C.Distinct) : ∀ (l : List (Cmd α)) (n : Nat), l.length ≤ n →
    decodeN C n (l.flatMap (encodeCmd C)) = some l := by
  intro l
  induction l with
  | nil => intro n _; cases n <;> rfl
  | cons c t ih =>
    intro n hn
    cases n with
    | zero => simp at hn
    | succ n =>
      obtain ⟨x, d, hx⟩ := encodeCmd_cons C c
      have h1 : (c :: t).flatMap (encodeCmd C) = x :: (d ++ t.flatMap (encodeCmd C)) := by
        simp [List.flatMap_cons, hx]
      have h2 : takeRec C (x :: (d ++ t.flatMap (encodeCmd C))) = some (c, t.flatMap (encodeCmd C)) := by
        have := takeRec_encodeCmd C hC c (t.flatMap (encodeCmd C))
        rwa [hx] at this
      rw [h1, decodeN_succ_cons, h2]
      simp only
      rw [ih n (by simpa using hn)]
      rfl

theorem decodeBwdN_flatMap (hC : C.Distinct) : ∀ (l : List (Cmd α)) (n : Nat), l.length ≤ n →
    decodeBwdN C n (l.flatMap fun c => (encodeCmd C c).reverse) = some l := by
  intro l
  induction l with
  | nil => intro n _; cases n <;> rfl
  | cons c t ih =>
    intro n hn
    cases n with
    | zero => simp at hn
    | succ n =>
      obtain ⟨x, d, hx⟩ : ∃ x d, (encodeCmd C c).reverse = x :: d := by
        cases c <;> exact ⟨_, _, rfl⟩
      have h1 : (c :: t).flatMap (fun c => (encodeCmd C c).reverse)
          = x :: (d ++ t.flatMap fun c => (encodeCmd C c).reverse) := by
        simp [List.flatMap_cons, hx]
      have h2 : takeRecBwd C (x :: (d ++ t.flatMap fun c => (encodeCmd C c).reverse))
          = some (c, t.flatMap fun c => (encodeCmd C c).reverse) := by
        have := takeRecBwd_encodeCmd C hC c (t.flatMap fun c => (encodeCmd C c).reverse)
        rwa [hx] at this
      rw [h1, decodeBwdN_succ_cons, h2]
      simp only
      rw [ih n (by simpa using hn)]
      rfl

theorem length_le_flatMap (f : Cmd α → List α) (hf : ∀ c, 1 ≤ (f c).length) :
    ∀ l : List (Cmd α), l.length ≤ (l.flatMap f).length := by
  intro l
  induction l with
  | nil => simp
  | cons c t ih =>
    have := hf c
    rw [List.flatMap_cons, List.length_append, List.length_cons]
    omega

theorem encodeCmd_length (c : Cmd α) : (encodeCmd C c).length = c.len := by
  cases c <;> rfl

theorem encode_reverse_eq (cs : RPath α) :
    (encode C cs).reverse = cs.flatMap fun c => (encodeCmd C c).reverse := by
  induction cs with
  | nil => rfl
  | cons c cs ih => rw [encode_reverse_cons, ih]; simp [List.flatMap_cons]

theorem decode_encode' (hC : C.Distinct) (cs : RPath α) : decode C (encode C cs) = some cs.reverse := by
  unfold decode
  rw [encode_eq_flatMap]
  apply decodeN_flatMap C hC
  apply length_le_flatMap
  intro c; rw [encodeCmd_length]; cases c <;> simp [Cmd.len]

theorem decodeBwd_encode' (hC : C.Distinct) (cs : RPath α) :
    decodeBwd C (encode C cs).reverse = some cs := by
  unfold decodeBwd
  rw [encode_reverse_eq]
  apply decodeBwdN_flatMap C hC
  apply length_le_flatMap
  intro c; rw [List.length_reverse, encodeCmd_length]; cases c <;> simp [Cmd.len]

theorem posRaw_encode (G : Geo α) (cs : RPath α) : posRaw G (encode C cs).reverse = some (pos G cs) := by
  cases cs with
  | nil => rfl
  | cons c cs => rw [encode_reverse_cons]; cases c <;> simp [encodeCmd, posRaw, pos, Cmd.endp]

theorem decodeFlag_sound {f : α} {l s : Bool} (h : decodeFlag C f = some (l, s)) : f = C.flag l s := by
  unfold decodeFlag at h
  split at h
  · simp at h; obtain ⟨rfl, rfl⟩ := h; assumption
  · split at h
    · simp at h; obtain ⟨rfl, rfl⟩ := h; assumption
    · split at h
      · simp at h; obtain ⟨rfl, rfl⟩ := h; assumption
      · split at h
        · simp at h; obtain ⟨rfl, rfl⟩ := h; assumption
        · simp at h

theorem takeRec_sound {d t : List α} {c : Cmd α} (h : takeRec C d = some (c, t)) : d = encodeCmd C c ++ t := by
  unfold takeRec at h
  split at h
  · rename_i k x y k' t0
    split at h
    · rename_i hk
      split at h
      · rename_i hk'; simp at h; obtain ⟨rfl, rfl⟩ := h; simp [encodeCmd, hk, hk']
      · simp at h
    · split at h
      · rename_i hk
        split at h
        · rename_i hk'; simp at h; obtain ⟨rfl, rfl⟩ := h; simp [encodeCmd, hk, hk']
        · simp at h
      · split at h
        · rename_i hk
          split at h
          · rename_i hk'; simp at h; obtain ⟨rfl, rfl⟩ := h; simp [encodeCmd, hk, hk']
          · simp at h
        · split at h
          · rename_i hk
            split at h
            · rename_i y2 k'' t'
              split at h
              · rename_i hk'; simp at h; obtain ⟨rfl, rfl⟩ := h; simp [encodeCmd, hk, hk']
              · simp at h
            · simp at h
          · split at h
            · rename_i hk
              split at h
              · rename_i y2 x3 y3 k'' t'
                split at h
                · rename_i hk'; simp at h; obtain ⟨rfl, rfl⟩ := h; simp [encodeCmd, hk, hk']
                · simp at h
              · simp at h
            · split at h
              · rename_i hk
                split at h
                · rename_i f x3 y3 k'' t'
                  split at h
                  · rename_i hk'
                    cases hf : decodeFlag C f with
                    | none => simp [hf] at h
                    | some ls =>
                      obtain ⟨l, s⟩ := ls
                      simp [hf] at h; obtain ⟨rfl, rfl⟩ := h
                      have := decodeFlag_sound C hf
                      simp [encodeCmd, hk, hk', this]
                  · simp at h
                · simp at h
              · simp at h
  · simp at h

theorem decodeN_sound : ∀ (n : Nat) (d : List α) (l : List (Cmd α)), decodeN C n d = some l →
    l.flatMap (encodeCmd C) = d := by
  intro n
  induction n with
  | zero =>
    intro d l h
    cases d with
    | nil => simp [decodeN] at h; subst h; rfl
    | cons x t => simp [decodeN] at h
  | succ n ih =>
    intro d l h
    cases d with
    | nil => simp [decodeN] at h; subst h; rfl
    | cons x t =>
      rw [decodeN_succ_cons] at h
      cases hr : takeRec C (x :: t) with
      | none => simp [hr] at h
      | some ct =>
        obtain ⟨c, t'⟩ := ct
        simp only [hr] at h
        cases hn : decodeN C n t' with
        | none => simp [hn] at h
        | some l' =>
          simp only [hn, Option.map_some, Option.some.injEq] at h
          subst h
          rw [List.flatMap_cons, ih _ _ hn]
          exact (takeRec_sound C hr).symm

/-- decoding is sound: an array that decodes IS the encoding of the records it decodes into -/
theorem decode_sound {d : List α} {recs : List (Cmd α)} (h : decode C d = some recs) :
    encode C recs.reverse = d := by
  rw [encode_eq_flatMap, List.reverse_reverse]
  exact decodeN_sound C _ _ _ h

end Canvas.Path
