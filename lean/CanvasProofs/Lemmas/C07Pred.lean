import CanvasProofs.Lemmas.C07Basics

/-! # C07 helper lemmas: the predicates `IsTranslation`, `IsRigid`, `IsSimilarity`, `Equals` -/
set_option linter.unusedSectionVars false
set_option linter.unusedVariables false
namespace C07
open Canvas Canvas.C07 GenK

variable {K : Type} [Field K] [LinearOrder K] [IsStrictOrderedRing K] [Env K]

/-- squared Euclidean distance -/
def dist2 (p q : Pt K) : K := (p.x - q.x) * (p.x - q.x) + (p.y - q.y) * (p.y - q.y)

theorem sq_sum_zero {x y : K} (h : x * x + y * y = 0) : x = 0 ∧ y = 0 := by
  have hx := mul_self_nonneg x
  have hy := mul_self_nonneg y
  exact ⟨mul_self_eq_zero.mp (by linarith), mul_self_eq_zero.mp (by linarith)⟩

/-- rows of `[[a, b], [d, e]]` orthogonal with equal squared length `k` ⇒ so are the columns -/
theorem rows_to_cols {a b d e k : K} (hk1 : a * a + b * b = k) (hk2 : d * d + e * e = k) (h3 : a * d + b * e = 0) :
    a * a + d * d = k ∧ b * b + e * e = k ∧ a * b + d * e = 0 := by
  by_cases hk : k = 0
  · subst hk
    obtain ⟨rfl, rfl⟩ := sq_sum_zero hk1
    obtain ⟨rfl, rfl⟩ := sq_sum_zero hk2
    simp
  · have hkk : k * k ≠ 0 := mul_ne_zero hk hk
    have h1 : a * k = e * (a * e - b * d) := by linear_combination d * h3 - a * hk2
    have h2 : d * k = -(b * (a * e - b * d)) := by linear_combination a * h3 - d * hk1
    have h4 : b * k = -(d * (a * e - b * d)) := by linear_combination e * h3 - b * hk2
    have h5 : e * k = a * (a * e - b * d) := by linear_combination b * h3 - e * hk1
    have hΔ : (a * e - b * d) * (a * e - b * d) = k * k := by
      linear_combination (d * d + e * e) * hk1 + k * hk2 - (a * d + b * e) * h3
    have hA : k * k * (a * a + d * d) = k * k * (b * b + e * e) := by
      linear_combination (a * k + e * (a * e - b * d)) * h1 + (d * k - b * (a * e - b * d)) * h2 + (e * e + b * b) * hΔ
    have hB : a * a + d * d = b * b + e * e := mul_left_cancel₀ hkk hA
    have hC : k * k * (a * b + d * e) = k * k * (-(a * b + d * e)) := by
      linear_combination (b * k) * h1 + (e * (a * e - b * d)) * h4 + (e * k) * h2 - (b * (a * e - b * d)) * h5 - (e * d + a * b) * hΔ
    have hD : a * b + d * e = -(a * b + d * e) := mul_left_cancel₀ hkk hC
    refine ⟨by linarith, by linarith, by linarith⟩

/-- the linear part scales every squared distance by `k` iff its columns are orthogonal of squared length `k` -/
theorem scales_iff_cols (m : Mat K) (k : K) :
    (∀ p q : Pt K, dist2 (Matrix.Dot m p) (Matrix.Dot m q) = k * dist2 p q) ↔
      (m.a * m.a + m.d * m.d = k ∧ m.b * m.b + m.e * m.e = k ∧ m.a * m.b + m.d * m.e = 0) := by
  constructor
  · intro h
    have e1 := h ⟨1, 0⟩ ⟨0, 0⟩
    have e2 := h ⟨0, 1⟩ ⟨0, 0⟩
    have e3 := h ⟨1, 1⟩ ⟨0, 0⟩
    simp only [dist2, Matrix.Dot] at e1 e2 e3
    refine ⟨by linear_combination e1, by linear_combination e2, by linear_combination (1 / 2 : K) * e3 - (1 / 2 : K) * e1 - (1 / 2 : K) * e2⟩
  · rintro ⟨h1, h2, h3⟩ p q
    simp only [dist2, Matrix.Dot]
    linear_combination ((p.x - q.x) * (p.x - q.x)) * h1 + ((p.y - q.y) * (p.y - q.y)) * h2 + (2 * (p.x - q.x) * (p.y - q.y)) * h3

theorem isRigid_iff_rows (h0 : (Env.epsilon : K) = 0) (m : Mat K) :
    Matrix.IsRigid m = true ↔ (m.a * m.a + m.b * m.b = 1 ∧ m.d * m.d + m.e * m.e = 1 ∧ m.a * m.d + m.b * m.e = 0) := by
  simp only [Matrix.IsRigid, decide_eq_true_iff, equal_iff_eq h0, and_assoc]

theorem isSimilarity_iff_rows (h0 : (Env.epsilon : K) = 0) (m : Mat K) :
    Matrix.IsSimilarity m = true ↔ (m.a * m.a + m.b * m.b = m.d * m.d + m.e * m.e ∧ m.a * m.d + m.b * m.e = 0) := by
  simp only [Matrix.IsSimilarity, decide_eq_true_iff, equal_iff_eq h0]

/-- `IsRigid` (exact comparisons) ⇔ the map preserves all distances -/
theorem isRigid_iff_isometry' (h0 : (Env.epsilon : K) = 0) (m : Mat K) :
    Matrix.IsRigid m = true ↔ ∀ p q : Pt K, dist2 (Matrix.Dot m p) (Matrix.Dot m q) = dist2 p q := by
  rw [isRigid_iff_rows h0]
  have := scales_iff_cols m 1
  simp only [one_mul] at this
  rw [this]
  constructor
  · rintro ⟨h1, h2, h3⟩
    exact rows_to_cols h1 h2 h3
  · rintro ⟨h1, h2, h3⟩
    exact rows_to_cols h1 h2 h3

/-- `IsSimilarity` (exact comparisons) ⇔ the map scales all squared distances by one factor -/
theorem isSimilarity_iff_scaling' (h0 : (Env.epsilon : K) = 0) (m : Mat K) :
    Matrix.IsSimilarity m = true ↔ ∃ k : K, ∀ p q : Pt K, dist2 (Matrix.Dot m p) (Matrix.Dot m q) = k * dist2 p q := by
  rw [isSimilarity_iff_rows h0]
  constructor
  · rintro ⟨h1, h3⟩
    refine ⟨m.a * m.a + m.b * m.b, ?_⟩
    rw [scales_iff_cols]
    exact rows_to_cols rfl h1.symm h3
  · rintro ⟨k, hk⟩
    rw [scales_iff_cols] at hk
    obtain ⟨h1, h2, h3⟩ := hk
    obtain ⟨g1, g2, g3⟩ := rows_to_cols h1 h2 h3
    exact ⟨by rw [g1, g2], g3⟩

/-- `IsTranslation` (exact comparisons) ⇔ the map adds a fixed vector -/
theorem isTranslation_iff' (h0 : (Env.epsilon : K) = 0) (m : Mat K) :
    Matrix.IsTranslation m = true ↔ ∀ p : Pt K, Matrix.Dot m p = Pt.mk (p.x + m.c) (p.y + m.f) := by
  simp only [Matrix.IsTranslation, decide_eq_true_iff, equal_iff_eq h0]
  constructor
  · rintro ⟨⟨⟨h1, h2⟩, h3⟩, h4⟩ p
    simp only [Matrix.Dot, h1, h2, h3, h4]
    congr 1 <;> ring
  · intro h
    have e1 := h ⟨1, 0⟩
    have e2 := h ⟨0, 1⟩
    simp only [Matrix.Dot, Pt.mk.injEq] at e1 e2
    refine ⟨⟨⟨by linarith [e1.1], by linarith [e2.1]⟩, by linarith [e1.2]⟩, by linarith [e2.2]⟩

theorem equals_iff' (h0 : (Env.epsilon : K) = 0) (m q : Mat K) : Matrix.Equals m q = true ↔ m = q := by
  simp only [Matrix.Equals, decide_eq_true_iff, equal_iff_eq h0]
  cases m; cases q
  simp only [Mat.mk.injEq]
  tauto

/-- for any tolerance `Epsilon ≥ 0`: what is exactly a translation / rigid map / similarity is recognised -/
theorem predicates_complete' (h0 : (0 : K) ≤ Env.epsilon) (m : Mat K) :
    (m.a = 1 ∧ m.b = 0 ∧ m.d = 0 ∧ m.e = 1 → Matrix.IsTranslation m = true) ∧
    (m.a * m.a + m.b * m.b = 1 ∧ m.d * m.d + m.e * m.e = 1 ∧ m.a * m.d + m.b * m.e = 0 → Matrix.IsRigid m = true) ∧
    (m.a * m.a + m.b * m.b = m.d * m.d + m.e * m.e ∧ m.a * m.d + m.b * m.e = 0 → Matrix.IsSimilarity m = true) ∧
    Matrix.Equals m m = true := by
  refine ⟨?_, ?_, ?_, ?_⟩
  · rintro ⟨h1, h2, h3, h4⟩
    simp [Matrix.IsTranslation, h1, h2, h3, h4, equal_refl h0]
  · rintro ⟨h1, h2, h3⟩
    simp [Matrix.IsRigid, h1, h2, h3, equal_refl h0]
  · rintro ⟨h1, h3⟩
    simp [Matrix.IsSimilarity, h1, h3, equal_refl h0]
  · simp [Matrix.Equals, equal_refl h0]

end C07
