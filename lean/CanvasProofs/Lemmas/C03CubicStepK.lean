import CanvasProofs.Lemmas.C03CubicWhole
import Mathlib.Tactic.Ring
import Mathlib.Tactic.Linarith
/-! C03: the step of the repaired `flattenSmoothCubicBezier` over K. The first estimate (min(t2,t3) with its
sqrt and cbrt) is an ARBITRARY positive function `est`: the bound only depends on the halving loop that
follows it (path_util.go, f410714). The Float transcription is `C03F.cubStep` / `C03F.halve` in Drv/C03.lean. -/
set_option linter.unusedSectionVars false
namespace C03L
open Canvas Canvas.C03 GenK
variable {K : Type} [Field K] [LinearOrder K] [IsStrictOrderedRing K] [Env K]

/-- `for i := 0; i < n && 4*tol < cubicBezierDeviation(left piece); i++ { t /= 2 }` -/
def halveK (tol : K) (c : Cub K) : Nat → K → K
  | 0, t => t
  | n + 1, t => if 4 * tol < devK (cubSplitLK c t) then halveK tol c n (t / 2) else t

theorem halveK_pos (tol : K) (c : Cub K) : ∀ (n : Nat) (t : K), 0 < t → 0 < halveK tol c n t
  | 0, t, ht => ht
  | n + 1, t, ht => by
    unfold halveK
    split_ifs
    · exact halveK_pos tol c n (t / 2) (by positivity)
    · exact ht

theorem halveK_le (tol : K) (c : Cub K) : ∀ (n : Nat) (t : K), 0 < t → halveK tol c n t ≤ t
  | 0, t, _ => le_refl t
  | n + 1, t, ht => by
    unfold halveK
    split_ifs
    · exact le_trans (halveK_le tol c n (t / 2) (by positivity)) (by linarith)
    · exact le_refl t

/-- one iteration of the loop of flattenSmoothCubicBezier (d = 0) -/
def cubStepK (tol : K) (eqp : Pt K → Pt K → Bool) (est : Cub K → K) (c : Cub K) : CStep K :=
  if eqp c.p0 c.p1 && eqp c.p0 c.p2 then .straight else
    let t := halveK tol c 20 (min (est c) 1)
    if 1 ≤ t then .stop else .cut t

theorem flat_whole_of_left_one (r : K) (c : Cub K) (h : PieceFlat r (cubSplitLK c 1)) : PieceFlat r c := by
  intro s hs0 hs1
  obtain ⟨m, hm0, hm1, hd⟩ := h s hs0 hs1
  refine ⟨m, hm0, hm1, ?_⟩
  rw [cubSplitLK_pos, cubSplitLK_p0, cubSplitLK_p3, one_mul, cubPos_one] at hd
  exact hd

/-- the step satisfies the requirements of `cub_loop_within` with r = 4·tol, provided the halving loop is
always left by its flatness test and not by its cap of 20 iterations (`hexit`) -/
theorem cubStepK_ok (hs : SqrtOK K) (tol : K) (eqp : Pt K → Pt K → Bool) (est : Cub K → K)
    (heq : ∀ a b, eqp a b = true → a = b) (hest : ∀ q, 0 < est q)
    (hexit : ∀ q, devK (cubSplitLK q (halveK tol q 20 (min (est q) 1))) ≤ 4 * tol) :
    (∀ q t, cubStepK tol eqp est q = .cut t → 0 < t ∧ t < 1 ∧ PieceFlat (4 * tol) (cubSplitLK q t))
      ∧ (∀ q, cubStepK tol eqp est q = .stop → PieceFlat (4 * tol) q)
      ∧ (∀ q, cubStepK tol eqp est q = .straight → PieceFlat (4 * tol) q) := by
  have hmin : ∀ q, 0 < min (est q) 1 := fun q => lt_min (hest q) zero_lt_one
  refine ⟨?_, ?_, ?_⟩
  · intro q t h
    unfold cubStepK at h
    by_cases h1 : (eqp q.p0 q.p1 && eqp q.p0 q.p2) = true
    · simp [h1] at h
    · by_cases h2 : 1 ≤ halveK tol q 20 (min (est q) 1)
      · simp [h1, h2] at h
      · simp only [h1, h2, Bool.false_eq_true, if_false, CStep.cut.injEq] at h
        subst h
        exact ⟨halveK_pos tol q 20 _ (hmin q), not_le.mp h2, flat_of_devK_le hs _ _ (hexit q)⟩
  · intro q h
    unfold cubStepK at h
    by_cases h1 : (eqp q.p0 q.p1 && eqp q.p0 q.p2) = true
    · simp [h1] at h
    · by_cases h2 : 1 ≤ halveK tol q 20 (min (est q) 1)
      · have hle : halveK tol q 20 (min (est q) 1) ≤ 1 :=
          le_trans (halveK_le tol q 20 _ (hmin q)) (min_le_right _ _)
        have hone : halveK tol q 20 (min (est q) 1) = 1 := le_antisymm hle h2
        have := flat_of_devK_le hs _ _ (hexit q)
        rw [hone] at this
        exact flat_whole_of_left_one _ q this
      · simp [h1, h2] at h
  · intro q h
    unfold cubStepK at h
    by_cases h1 : (eqp q.p0 q.p1 && eqp q.p0 q.p2) = true
    · simp only [Bool.and_eq_true] at h1
      exact straight_flat _ q (heq _ _ h1.1).symm (heq _ _ h1.2).symm
    · by_cases h2 : 1 ≤ halveK tol q 20 (min (est q) 1) <;> simp [h1, h2] at h

end C03L
