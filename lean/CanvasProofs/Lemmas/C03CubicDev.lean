import CanvasProofs.Lemmas.C03Loop
import CanvasProofs.Lemmas.C03StepK
import Mathlib.Tactic.Ring
import Mathlib.Tactic.Linarith
import Mathlib.Tactic.FieldSimp
import Mathlib.Tactic.Positivity
/-! C03: `cubicBezierDeviation` (path_util.go:702, f410714) bounds the distance of a cubic Bézier from
its chord SEGMENT: the curve is a convex combination of its control points, the inner control points
are within D of the segment, hence every curve point is within 3/4·D of it. -/
set_option linter.unusedSectionVars false
namespace C03L
open Canvas Canvas.C03 GenK
variable {K : Type} [Field K] [LinearOrder K] [IsStrictOrderedRing K] [Env K]

/-- point of the segment [a,b] at parameter m -/
def segPt (a b : Pt K) (m : K) : Pt K := ⟨a.x + m * (b.x - a.x), a.y + m * (b.y - a.y)⟩

/-- squared Euclidean distance -/
def dsq (p q : Pt K) : K := (p.x - q.x) * (p.x - q.x) + (p.y - q.y) * (p.y - q.y)

/-- two vectors of length ≤ D combined with weights b1, b2 ≥ 0, b1 + b2 ≤ 3/4 -/
theorem combo_le (ux uy vx vy D b1 b2 : K) (hD : 0 ≤ D) (hb1 : 0 ≤ b1) (hb2 : 0 ≤ b2) (hb : b1 + b2 ≤ 3 / 4)
    (hu : ux * ux + uy * uy ≤ D * D) (hv : vx * vx + vy * vy ≤ D * D) :
    (b1 * ux + b2 * vx) * (b1 * ux + b2 * vx) + (b1 * uy + b2 * vy) * (b1 * uy + b2 * vy) ≤ (3 / 4 * D) * (3 / 4 * D) := by
  have hW : ux * vx + uy * vy ≤ D * D := by nlinarith [mul_self_nonneg (ux - vx), mul_self_nonneg (uy - vy)]
  have e : (b1 * ux + b2 * vx) * (b1 * ux + b2 * vx) + (b1 * uy + b2 * vy) * (b1 * uy + b2 * vy)
      = b1 * b1 * (ux * ux + uy * uy) + b2 * b2 * (vx * vx + vy * vy) + 2 * (b1 * b2) * (ux * vx + uy * vy) := by ring
  have h1 := mul_le_mul_of_nonneg_left hu (mul_self_nonneg b1)
  have h2 := mul_le_mul_of_nonneg_left hv (mul_self_nonneg b2)
  have h3 := mul_le_mul_of_nonneg_left hW (mul_nonneg hb1 hb2)
  have hsum : (b1 + b2) * (b1 + b2) ≤ 3 / 4 * (3 / 4) := mul_le_mul hb hb (add_nonneg hb1 hb2) (by norm_num)
  have hDD : 0 ≤ D * D := mul_self_nonneg D
  have h4 := mul_le_mul_of_nonneg_right hsum hDD
  rw [e]
  nlinarith [h1, h2, h3, h4]

/-- HULL BOUND: if the inner control points are within D of points of the chord segment, every point of
the cubic is within 3/4·D of a point of the chord segment (all squared). -/
theorem cubic_near_chord (p0 p1 p2 p3 : Pt K) (l1 l2 D s : K)
    (hl1 : 0 ≤ l1 ∧ l1 ≤ 1) (hl2 : 0 ≤ l2 ∧ l2 ≤ 1) (hD : 0 ≤ D)
    (h1 : dsq p1 (segPt p0 p3 l1) ≤ D * D) (h2 : dsq p2 (segPt p0 p3 l2) ≤ D * D)
    (hs0 : 0 ≤ s) (hs1 : s ≤ 1) :
    ∃ m : K, 0 ≤ m ∧ m ≤ 1 ∧ dsq (cubicBezierPos p0 p1 p2 p3 s) (segPt p0 p3 m) ≤ (3 / 4 * D) * (3 / 4 * D) := by
  set b1 := 3 * s * ((1 - s) * (1 - s)) with hb1
  set b2 := 3 * (s * s) * (1 - s) with hb2
  set b3 := s * s * s with hb3
  have h1s : 0 ≤ 1 - s := by linarith
  have b1nn : 0 ≤ b1 := by positivity
  have b2nn : 0 ≤ b2 := by positivity
  have b3nn : 0 ≤ b3 := by positivity
  have hsum : b1 + b2 + b3 ≤ 1 := by
    have : b1 + b2 + b3 = 1 - (1 - s) * (1 - s) * (1 - s) := by rw [hb1, hb2, hb3]; ring
    rw [this]; have : 0 ≤ (1 - s) * (1 - s) * (1 - s) := by positivity
    linarith
  have hb12 : b1 + b2 ≤ 3 / 4 := by
    have : b1 + b2 = 3 * (s * (1 - s)) := by rw [hb1, hb2]; ring
    rw [this]; nlinarith [sq_nonneg (s - 1 / 2)]
  refine ⟨b1 * l1 + b2 * l2 + b3, ?_, ?_, ?_⟩
  · have := mul_nonneg b1nn hl1.1; have := mul_nonneg b2nn hl2.1; linarith
  · have a1 := mul_le_mul_of_nonneg_left hl1.2 b1nn
    have a2 := mul_le_mul_of_nonneg_left hl2.2 b2nn
    linarith
  · have key := combo_le (p1.x - (segPt p0 p3 l1).x) (p1.y - (segPt p0 p3 l1).y)
      (p2.x - (segPt p0 p3 l2).x) (p2.y - (segPt p0 p3 l2).y) D b1 b2 hD b1nn b2nn hb12 h1 h2
    have ex : (cubicBezierPos p0 p1 p2 p3 s).x - (segPt p0 p3 (b1 * l1 + b2 * l2 + b3)).x
        = b1 * (p1.x - (segPt p0 p3 l1).x) + b2 * (p2.x - (segPt p0 p3 l2).x) := by
      simp only [cubicBezierPos, segPt, Point.Mul, Point.Add, hb1, hb2, hb3]; ring
    have ey : (cubicBezierPos p0 p1 p2 p3 s).y - (segPt p0 p3 (b1 * l1 + b2 * l2 + b3)).y
        = b1 * (p1.y - (segPt p0 p3 l1).y) + b2 * (p2.y - (segPt p0 p3 l2).y) := by
      simp only [cubicBezierPos, segPt, Point.Mul, Point.Add, hb1, hb2, hb3]; ring
    unfold dsq
    rw [ex, ey]
    exact key

/-- `dist` of cubicBezierDeviation over K: distance of q from the segment [p0,p3] -/
def distSegK (p0 p3 q : Pt K) : K :=
  let chord := Point.Sub p3 p0
  let qq := Point.Sub q p0
  let u := Point.Dot qq chord
  if u ≤ 0 then Env.hypot qq.x qq.y
  else if Point.Dot chord chord ≤ u then Env.hypot (Point.Sub qq chord).x (Point.Sub qq chord).y
  else |Point.PerpDot chord qq| / Env.hypot chord.x chord.y

/-- it is nonnegative and attained at a point of the segment -/
theorem distSegK_attained (h : SqrtOK K) (p0 p3 q : Pt K) :
    0 ≤ distSegK p0 p3 q ∧ ∃ l : K, 0 ≤ l ∧ l ≤ 1 ∧ dsq q (segPt p0 p3 l) = distSegK p0 p3 q * distSegK p0 p3 q := by
  unfold distSegK
  simp only
  by_cases hu : Point.Dot (Point.Sub q p0) (Point.Sub p3 p0) ≤ 0
  · simp only [hu, if_true]
    refine ⟨h.hypot_nonneg _ _, 0, le_refl 0, zero_le_one, ?_⟩
    rw [h.hypot_sq]; simp only [dsq, segPt, Point.Sub]; ring
  · simp only [hu, if_false]
    by_cases hc : Point.Dot (Point.Sub p3 p0) (Point.Sub p3 p0) ≤ Point.Dot (Point.Sub q p0) (Point.Sub p3 p0)
    · simp only [hc, if_true]
      refine ⟨h.hypot_nonneg _ _, 1, zero_le_one, le_refl 1, ?_⟩
      rw [h.hypot_sq]; simp only [dsq, segPt, Point.Sub]; ring
    · simp only [hc, if_false]
      have hupos : 0 < Point.Dot (Point.Sub q p0) (Point.Sub p3 p0) := not_le.mp hu
      have hlt : Point.Dot (Point.Sub q p0) (Point.Sub p3 p0) < Point.Dot (Point.Sub p3 p0) (Point.Sub p3 p0) := not_le.mp hc
      set cc := Point.Dot (Point.Sub p3 p0) (Point.Sub p3 p0) with hcc
      set u := Point.Dot (Point.Sub q p0) (Point.Sub p3 p0) with huu
      have hccpos : 0 < cc := lt_trans hupos hlt
      set hy := Env.hypot (Point.Sub p3 p0).x (Point.Sub p3 p0).y with hhy
      have hy2 : hy * hy = cc := by rw [hhy, h.hypot_sq]; simp [hcc, Point.Dot]
      have hynn : 0 ≤ hy := h.hypot_nonneg _ _
      have hypos : 0 < hy := by
        rcases lt_or_eq_of_le hynn with h' | h'
        · exact h'
        · exfalso; rw [← h'] at hy2; simp at hy2; linarith
      refine ⟨div_nonneg (abs_nonneg _) hynn, u / cc, div_nonneg (le_of_lt hupos) (le_of_lt hccpos),
        by rw [div_le_one hccpos]; exact le_of_lt hlt, ?_⟩
      have e1 : |Point.PerpDot (Point.Sub p3 p0) (Point.Sub q p0)| / hy * (|Point.PerpDot (Point.Sub p3 p0) (Point.Sub q p0)| / hy)
          = (Point.PerpDot (Point.Sub p3 p0) (Point.Sub q p0)) ^ 2 / cc := by
        rw [div_mul_div_comm, hy2, ← sq, sq_abs]
      rw [e1]
      have hccne : cc ≠ 0 := ne_of_gt hccpos
      rw [eq_div_iff hccne]
      have hl : u / cc * cc = u := div_mul_cancel₀ _ hccne
      -- Lagrange identity after clearing the denominator
      have : dsq q (segPt p0 p3 (u / cc)) * cc * cc
          = (Point.PerpDot (Point.Sub p3 p0) (Point.Sub q p0)) ^ 2 * cc := by
        have exx : (q.x - (p0.x + u / cc * (p3.x - p0.x))) * cc = (q.x - p0.x) * cc - u * (p3.x - p0.x) := by
          have : (q.x - (p0.x + u / cc * (p3.x - p0.x))) * cc = (q.x - p0.x) * cc - (u / cc * cc) * (p3.x - p0.x) := by ring
          rw [this, hl]
        have eyy : (q.y - (p0.y + u / cc * (p3.y - p0.y))) * cc = (q.y - p0.y) * cc - u * (p3.y - p0.y) := by
          have : (q.y - (p0.y + u / cc * (p3.y - p0.y))) * cc = (q.y - p0.y) * cc - (u / cc * cc) * (p3.y - p0.y) := by ring
          rw [this, hl]
        have : dsq q (segPt p0 p3 (u / cc)) * cc * cc
            = ((q.x - p0.x) * cc - u * (p3.x - p0.x)) * ((q.x - p0.x) * cc - u * (p3.x - p0.x))
              + ((q.y - p0.y) * cc - u * (p3.y - p0.y)) * ((q.y - p0.y) * cc - u * (p3.y - p0.y)) := by
          simp only [dsq, segPt]; rw [← exx, ← eyy]; ring
        rw [this]
        simp only [huu, hcc, Point.Dot, Point.Sub, Point.PerpDot]; ring
      exact mul_right_cancel₀ hccne this

/-- cubicBezierDeviation with d = 0 over K -/
def devK (c : Cub K) : K := 3 / 4 * max (distSegK c.p0 c.p3 c.p1) (distSegK c.p0 c.p3 c.p2)

/-- every point of the cubic is within `devK c` of a point of its chord segment -/
theorem cubic_within_devK (h : SqrtOK K) (c : Cub K) (s : K) (hs0 : 0 ≤ s) (hs1 : s ≤ 1) :
    ∃ m : K, 0 ≤ m ∧ m ≤ 1 ∧ dsq (cubPos c s) (segPt c.p0 c.p3 m) ≤ devK c * devK c := by
  obtain ⟨d1nn, l1, hl10, hl11, e1⟩ := distSegK_attained h c.p0 c.p3 c.p1
  obtain ⟨d2nn, l2, hl20, hl21, e2⟩ := distSegK_attained h c.p0 c.p3 c.p2
  set D := max (distSegK c.p0 c.p3 c.p1) (distSegK c.p0 c.p3 c.p2) with hD
  have hDnn : 0 ≤ D := le_trans d1nn (le_max_left _ _)
  have h1 : dsq c.p1 (segPt c.p0 c.p3 l1) ≤ D * D := by
    rw [e1]; exact mul_le_mul (le_max_left _ _) (le_max_left _ _) d1nn hDnn
  have h2 : dsq c.p2 (segPt c.p0 c.p3 l2) ≤ D * D := by
    rw [e2]; exact mul_le_mul (le_max_right _ _) (le_max_right _ _) d2nn hDnn
  exact cubic_near_chord c.p0 c.p1 c.p2 c.p3 l1 l2 D s ⟨hl10, hl11⟩ ⟨hl20, hl21⟩ hDnn h1 h2 hs0 hs1

theorem devK_nonneg (h : SqrtOK K) (c : Cub K) : 0 ≤ devK c := by
  have := (distSegK_attained h c.p0 c.p3 c.p1).1
  exact mul_nonneg (by norm_num) (le_trans this (le_max_left _ _))

/-- a piece is flat within r when every point of it is within r of a point of its chord segment -/
def PieceFlat (r : K) (q : Cub K) : Prop :=
  ∀ s : K, 0 ≤ s → s ≤ 1 → ∃ m : K, 0 ≤ m ∧ m ≤ 1 ∧ dsq (cubPos q s) (segPt q.p0 q.p3 m) ≤ r * r

/-- the exit condition of the halving loop (`cubicBezierDeviation ≤ 4·tol`) makes the piece flat within 4·tol -/
theorem flat_of_devK_le (h : SqrtOK K) (c : Cub K) (r : K) (hr : devK c ≤ r) : PieceFlat r c := by
  intro s hs0 hs1
  obtain ⟨m, hm0, hm1, hd⟩ := cubic_within_devK h c s hs0 hs1
  exact ⟨m, hm0, hm1, le_trans hd (mul_le_mul hr hr (devK_nonneg h c) (le_trans (devK_nonneg h c) hr))⟩

end C03L
