import CanvasProofs.Lemmas.C17Chain
import Mathlib.Algebra.Order.Field.Basic
import Mathlib.Tactic.Ring
/-! C17 helper lemmas, part 7: the running sums of the code against the direct-sum line measures of
the L3 specification. `sumsAfter_eq_pre` needs no laws; the subtraction identity is over a field. -/
set_option linter.unusedSectionVars false
set_option linter.unusedVariables false
namespace Canvas.C17

section
variable {α : Type} [Add α] [Sub α] [Mul α] [Div α] [Neg α] [LT α] [LE α] [BEq α]
  [DecidableLT α] [DecidableLE α] [NatCast α]

theorem sumAfter_eq_pre (P : Params α) (items : List (Item α)) :
    ∀ (rest : List (Item α)) (a : Nat) (first : Bool), items.drop a = rest →
      sumAfter P first rest (pre items a) = pre items (lineStartFrom P first a rest) := by
  intro rest
  induction rest with
  | nil => intro a first _; rfl
  | cons it rest ih =>
    intro a first hdrop
    have hit := drop_getElem? hdrop
    have hnext := drop_succ_of_drop hdrop
    have hpre := pre_succ items a it hit
    rw [show pre items a = ((pre items a).1, (pre items a).2.1, (pre items a).2.2) from rfl]
    simp only [sumAfter, lineStartFrom]
    split
    · rfl
    · split
      · rename_i hg
        have : pre items (a + 1) = ((pre items a).1 + it.width, (pre items a).2.1 + it.stretch, (pre items a).2.2 + it.shrink) := by
          rw [hpre]; simp [addItem, hg]
        rw [← this]
        exact ih (a + 1) false hnext
      · rename_i hb hg
        have : pre items (a + 1) = pre items a := by
          rw [hpre]
          cases hty : it.ty with
          | box => simp [hty] at hb
          | glue => exact absurd hty hg
          | penalty => simp [addItem, hty]
        have h2 := ih (a + 1) false hnext
        rw [this] at h2
        exact h2

/-- `computeSum(a)` is the running sum at the first item of the next line -/
theorem sumsAfter_eq_pre (P : Params α) (items : List (Item α)) (a : Nat) :
    sumsAfter P items a = pre items (lineStart P items (some a)) :=
  sumAfter_eq_pre P items (items.drop a) a true rfl

end

section field
variable {K : Type} [Field K] [LinearOrder K] [IsStrictOrderedRing K]

theorem foldl_addItem (l : List (Item K)) : ∀ s : K × K × K,
    l.foldl addItem s = (s.1 + (l.foldl addItem (0, 0, 0)).1, s.2.1 + (l.foldl addItem (0, 0, 0)).2.1,
      s.2.2 + (l.foldl addItem (0, 0, 0)).2.2) := by
  induction l with
  | nil => intro s; simp
  | cons it rest ih =>
    intro s
    simp only [List.foldl_cons]
    rw [ih (addItem s it), ih (addItem (0, 0, 0) it)]
    cases hty : it.ty <;> simp [addItem, hty, add_assoc]

/-- running sums are additive over ranges: `pre b = pre s + Σ items[s..b)` -/
theorem pre_eq_add_range (items : List (Item K)) (s b : Nat) (h : s ≤ b) :
    pre items b = ((pre items s).1 + (sumRange items s b).1, (pre items s).2.1 + (sumRange items s b).2.1,
      (pre items s).2.2 + (sumRange items s b).2.2) := by
  unfold pre sumRange k
  have : items.take b = items.take s ++ (items.drop s).take (b - s) := by
    have hb : b = s + (b - s) := by omega
    conv_lhs => rw [hb]
    rw [List.take_add]
  rw [this, List.foldl_append]
  simp only [Nat.cast_zero]
  exact foldl_addItem _ _

/-- Over a field the width the code reports for a line (difference of running sums, plus the
penalty width) is the direct sum over the items of the line, i.e. `lineNat` of the specification
(case: the line is not empty, `lineStart ≤ b`). -/
theorem width_eq_lineNat (P : Params K) (items : List (Item K)) (prev : Option Nat) (b : Nat)
    (h : lineStart P items prev ≤ b) :
    widthAt items b - (afterSums P items prev).1 = (lineNat P items prev b).1 := by
  have hs : (afterSums P items prev) = pre items (lineStart P items prev) := by
    cases prev with
    | none => simp [afterSums, lineStart, pre, k]
    | some a => exact sumsAfter_eq_pre P items a
  rw [hs]
  have hp := pre_eq_add_range items (lineStart P items prev) b h
  have hp1 : (pre items b).1 = (pre items (lineStart P items prev)).1 + (sumRange items (lineStart P items prev) b).1 :=
    congrArg (·.1) hp
  unfold widthAt lineNat
  simp only [h, if_true]
  cases hb : items[b]? with
  | none => simp only; rw [hp1]; ring
  | some it =>
    simp only
    split
    · simp only; rw [hp1]; ring
    · rw [hp1]; ring

/-! ### the final choice and the accounting of demerits -/

theorem chooseBest_min : ∀ (l : List (Node K)) (x y : Node K), chooseBest l (some x) = some y →
    y.d.dem ≤ x.d.dem ∧ ∀ a, a ∈ l → y.d.dem ≤ a.d.dem := by
  intro l
  induction l with
  | nil => intro x y h; simp only [chooseBest] at h; cases h; exact ⟨le_refl _, fun a ha => by cases ha⟩
  | cons a rest ih =>
    intro x y h
    simp only [chooseBest] at h
    split at h
    · rename_i hlt
      obtain ⟨h1, h2⟩ := ih a y h
      refine ⟨le_trans h1 (le_of_lt hlt), ?_⟩
      intro b hb
      rcases List.mem_cons.mp hb with rfl | hb
      · exact h1
      · exact h2 b hb
    · rename_i hnlt
      obtain ⟨h1, h2⟩ := ih x y h
      refine ⟨h1, ?_⟩
      intro b hb
      rcases List.mem_cons.mp hb with rfl | hb
      · exact le_trans h1 (not_lt.mp hnlt)
      · exact h2 b hb

theorem chooseBest_none_min (l : List (Node K)) (y : Node K) (h : chooseBest l none = some y) :
    y ∈ l ∧ ∀ a, a ∈ l → y.d.dem ≤ a.d.dem := by
  cases l with
  | nil => simp [chooseBest] at h
  | cons x rest =>
    simp only [chooseBest] at h
    obtain ⟨h1, h2⟩ := chooseBest_min rest x y h
    obtain ⟨y', hy', hm⟩ := chooseBest_mem rest x
    rw [h] at hy'
    cases hy'
    refine ⟨hm.elim (fun e => e ▸ List.mem_cons_self) (List.mem_cons_of_mem _), ?_⟩
    intro a ha
    rcases List.mem_cons.mp ha with rfl | ha
    · exact h1
    · exact h2 a ha

end field

section
variable {α : Type} [Add α] [Sub α] [Mul α] [Div α] [Neg α] [LT α] [LE α] [BEq α]
  [DecidableLT α] [DecidableLE α] [NatCast α]

/-- total demerits of a chain recomputed from its lines: every line contributes `lineDemerits` of
its recorded ratio, given the flag and the fitness class of the previous breakpoint -/
def chainCost (P : Params α) (items : List (Item α)) : List (ND α) → α
  | [] => k 0
  | [r] => r.dem
  | c :: p :: rest =>
    (match items[c.pos]? with
      | some it => lineDemerits P it c.ratio (flaggedAt items p.pos) p.fit
      | none => k 0) + chainCost P items (p :: rest)

theorem chain_cost {P : Params α} {items : List (Item α)} {lineW : α} {tol : Option α}
    {ch : List (ND α)} (h : ChainOK P items lineW tol false ch) :
    ∀ c rest, ch = c :: rest → c.dem = chainCost P items ch := by
  induction h with
  | root => intro c rest he; cases he; rfl
  | normal c p rest it h1 h2 h3 h4 h5 h6 h7 h8 h9 _ ih =>
    intro c' rest' he
    cases he
    simp only [chainCost, h4]
    rw [h9, ih p rest rfl]
  | fallback c p rest h0 => cases h0

end
end Canvas.C17
