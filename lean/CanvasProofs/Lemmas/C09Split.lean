import CanvasProofs.Lemmas.C09Chain
/-! C09 helper lemmas: `Split`. Core Lean only. -/
namespace C09L
open Canvas Canvas.Path Canvas.C09
variable {α : Type}

theorem splitGo_concat (acc cs : List (Cmd α)) :
    (splitGo acc cs).flatten ++ splitRestGo acc cs = acc ++ cs := by
  induction cs generalizing acc with
  | nil =>
    by_cases h : 4 < dataLen acc <;> simp [splitGo, splitRestGo, h]
  | cons c cs ih =>
    by_cases h : (!acc.isEmpty && c.isMove) = true
    · simp only [splitGo, splitRestGo, h, if_true, List.flatten_cons, List.append_assoc]
      rw [ih [c]]; rfl
    · simp only [splitGo, splitRestGo, h, if_false, Bool.false_eq_true]
      rw [ih (acc ++ [c])]; simp

theorem dataLen_append (xs ys : List (Cmd α)) : dataLen (xs ++ ys) = dataLen xs + dataLen ys := by
  induction xs with
  | nil => simp [dataLen]
  | cons c cs ih => simp [dataLen, ih]; omega

theorem splitRestGo_small (acc cs : List (Cmd α)) : dataLen (splitRestGo acc cs) ≤ 4 := by
  induction cs generalizing acc with
  | nil =>
    by_cases h : 4 < dataLen acc
    · simp [splitRestGo, h, dataLen]
    · simp only [splitRestGo, h, if_false]; omega
  | cons c cs ih =>
    by_cases h : (!acc.isEmpty && c.isMove) = true
    · simp only [splitRestGo, h, if_true]; exact ih _
    · simp only [splitRestGo, h, if_false, Bool.false_eq_true]; exact ih _

/-- records that are not MoveTo extend the current piece -/
theorem splitGo_body (acc body rest : List (Cmd α)) (h : body.all (fun c => !c.isMove) = true) :
    splitGo acc (body ++ rest) = splitGo (acc ++ body) rest := by
  induction body generalizing acc with
  | nil => simp
  | cons c b ih =>
    simp only [List.all_cons, Bool.and_eq_true, Bool.not_eq_true'] at h
    have : (!acc.isEmpty && c.isMove) = false := by simp [h.1]
    simp only [List.cons_append, splitGo, this, Bool.false_eq_true, if_false]
    rw [ih (acc ++ [c]) (by simpa using h.2)]
    simp

/-- the records of a subpath after its MoveTo contain no MoveTo -/
theorem flat_body_no_move (s : SubPath α) (h : s.drawOnly = true) :
    (s.segs ++ (if s.closed then [Cmd.close s.start] else [])).all (fun c => !c.isMove) = true := by
  simp only [SubPath.drawOnly] at h
  simp only [List.all_append, Bool.and_eq_true]
  constructor
  · rw [List.all_eq_true] at h ⊢
    intro c hc
    simp [isDraw_not_move c (h c hc)]
  · cases s.closed <;> simp [Cmd.isMove]

/-- the last subpath is more than a lone MoveTo -/
def lastNontrivial (subs : List (SubPath α)) : Prop :=
  ∀ s, subs.getLast? = some s → 4 < dataLen (SubPath.flat s)

theorem splitGo_flat (acc : List (Cmd α)) (subs : List (SubPath α)) (hacc : acc ≠ [])
    (h0 : subs = [] → 4 < dataLen acc) (hd : ∀ s ∈ subs, s.drawOnly = true) (hl : lastNontrivial subs) :
    splitGo acc (flatF subs) = acc :: subs.map SubPath.flat := by
  induction subs generalizing acc with
  | nil => simp [flatF, splitGo, h0 rfl]
  | cons s more ih =>
    have hs := hd s (by simp)
    have e : flatF (s :: more) = Cmd.move s.start :: ((s.segs ++ (if s.closed then [Cmd.close s.start] else [])) ++ flatF more) := by
      simp [flatF, SubPath.flat]
    have hne : (!acc.isEmpty && (Cmd.move s.start).isMove) = true := by
      cases acc with
      | nil => exact absurd rfl hacc
      | cons a as => rfl
    rw [e, splitGo, if_pos hne, splitGo_body _ _ _ (flat_body_no_move s hs)]
    have e2 : [Cmd.move s.start] ++ (s.segs ++ (if s.closed then [Cmd.close s.start] else [])) = SubPath.flat s := rfl
    rw [e2, ih (SubPath.flat s) (by simp [SubPath.flat])
      (by
        intro hm; subst hm
        exact hl s rfl)
      (fun t ht => hd t (by simp [ht]))
      (by
        intro t ht
        apply hl t
        cases more with
        | nil => simp at ht
        | cons m ms => simpa [List.getLast?_cons_cons] using ht)]
    simp

/-- `Split` of a structured path returns exactly its subpaths -/
theorem split_flat (subs : List (SubPath α)) (hd : ∀ s ∈ subs, s.drawOnly = true) (hl : lastNontrivial subs) :
    split (flatF subs) = subs.map SubPath.flat := by
  cases subs with
  | nil => simp [split, flatF, splitGo, dataLen]
  | cons s more =>
    have hs := hd s (by simp)
    have e : flatF (s :: more) = Cmd.move s.start :: ((s.segs ++ (if s.closed then [Cmd.close s.start] else [])) ++ flatF more) := by
      simp [flatF, SubPath.flat]
    rw [split, e, splitGo, if_neg (by simp), List.nil_append,
      splitGo_body _ _ _ (flat_body_no_move s hs)]
    have e2 : [Cmd.move s.start] ++ (s.segs ++ (if s.closed then [Cmd.close s.start] else [])) = SubPath.flat s := rfl
    rw [e2, splitGo_flat (SubPath.flat s) more (by simp [SubPath.flat])
      (by intro hm; subst hm; exact hl s rfl)
      (fun t ht => hd t (by simp [ht]))
      (by
        intro t ht
        apply hl t
        cases more with
        | nil => simp at ht
        | cons m ms => simpa [List.getLast?_cons_cons] using ht)]
    simp

theorem encodeF_append (C : Codes α) (xs ys : List (Cmd α)) :
    encodeF C (xs ++ ys) = encodeF C xs ++ encodeF C ys := by
  simp [encodeF]

theorem encodeF_flatten (C : Codes α) (ps : List (List (Cmd α))) :
    encodeF C ps.flatten = (ps.map (encodeF C)).flatten := by
  induction ps with
  | nil => rfl
  | cons p ps ih => simp [encodeF_append, ih]

/-- `encodeF` is the data array of the path model -/
theorem encodeF_reverse (C : Codes α) (cs : RPath α) : encodeF C cs.reverse = encode C cs := by
  induction cs with
  | nil => rfl
  | cons c cs ih =>
    rw [List.reverse_cons, encodeF_append, ih]
    simp [encode, encodeF]

end C09L
